package main

import (
	"fmt"
	"reflect"
	"sort"
	"strings"
	"sync"
	"unsafe"

	"github.com/tdewolff/parse/v2"
	"github.com/tdewolff/parse/v2/js"
)

// ---- C18: js.Walk -----------------------------------------------------------------------------
//
// Correspondence model "walk": a generic tree (encoded by reflection according to the schema that
// translator T2 reads from js/ast.go) + a visitor policy; the observation is the exact sequence of
// Enter/Exit calls the recording visitor receives from the real js.Walk: kind, label of the
// visitor object that received the call, node type, what was handed over (the tree's own address,
// the address of a copy, a struct value, a typed nil) and the node's path in the tree.

var jsNodeSamples = []interface{}{
	js.AST{}, js.Var{}, js.Comment{}, js.BlockStmt{}, js.EmptyStmt{}, js.ExprStmt{}, js.IfStmt{}, js.DoWhileStmt{},
	js.WhileStmt{}, js.ForStmt{}, js.ForInStmt{}, js.ForOfStmt{}, js.CaseClause{}, js.SwitchStmt{}, js.BranchStmt{},
	js.ReturnStmt{}, js.WithStmt{}, js.LabelledStmt{}, js.ThrowStmt{}, js.TryStmt{}, js.DebuggerStmt{}, js.Alias{},
	js.ImportStmt{}, js.ExportStmt{}, js.DirectivePrologueStmt{}, js.PropertyName{}, js.BindingArray{},
	js.BindingObjectItem{}, js.BindingObject{}, js.BindingElement{}, js.VarDecl{}, js.Params{}, js.FuncDecl{},
	js.ClassElementName{}, js.MethodDecl{}, js.Field{}, js.ClassElement{}, js.ClassDecl{}, js.LiteralExpr{},
	js.Element{}, js.ArrayExpr{}, js.Property{}, js.ObjectExpr{}, js.TemplatePart{}, js.TemplateExpr{}, js.GroupExpr{},
	js.IndexExpr{}, js.DotExpr{}, js.NewTargetExpr{}, js.ImportMetaExpr{}, js.Arg{}, js.Args{}, js.NewExpr{},
	js.CallExpr{}, js.UnaryExpr{}, js.BinaryExpr{}, js.CondExpr{}, js.YieldExpr{}, js.ArrowFunc{}, js.CommaExpr{},
}

// walkRT is the schema of T2 joined with the reflect types of the compiled package.
type walkRT struct {
	ws     *WalkSchema
	rtypes []reflect.Type
	byType map[reflect.Type]int
	allow  map[[2]int][]int // (type, field) of an interface-typed field -> node types assignable to it
	altOf  [][]int          // per type, per field: index of its alternative group or -1
}

var (
	walkRTOnce sync.Once
	walkRTVal  *walkRT
	walkRTErr  error
)

func getWalkRT() (*walkRT, error) {
	walkRTOnce.Do(func() {
		ws, err := loadWalkSchema()
		if err != nil {
			walkRTErr = err
			return
		}
		rt := &walkRT{ws: ws, byType: map[reflect.Type]int{}, allow: map[[2]int][]int{}}
		byName := map[string]reflect.Type{}
		for _, s := range jsNodeSamples {
			t := reflect.TypeOf(s)
			byName[t.Name()] = t
		}
		for i, t := range ws.Types {
			r, ok := byName[t.Name]
			if !ok {
				walkRTErr = fmt.Errorf("node type %s of ast.go is unknown to harness/c18.go (add it to jsNodeSamples)", t.Name)
				return
			}
			rt.rtypes = append(rt.rtypes, r)
			rt.byType[r] = i
		}
		for i, t := range ws.Types {
			alt := make([]int, len(t.Fields))
			for j := range alt {
				alt[j] = -1
			}
			for g, grp := range t.Alts {
				for _, f := range grp {
					alt[f] = g
				}
			}
			rt.altOf = append(rt.altOf, alt)
			for j, f := range t.Fields {
				sf, ok := rt.rtypes[i].FieldByName(f.Name)
				if !ok {
					walkRTErr = fmt.Errorf("field %s.%s not found by reflection", t.Name, f.Name)
					return
				}
				ft := sf.Type
				if f.Kind == wkListI {
					ft = ft.Elem()
				}
				if f.Kind == wkOptI || f.Kind == wkListI {
					for k, kt := range ws.Types {
						if !kt.Wrapper && reflect.PtrTo(rt.rtypes[k]).Implements(ft) {
							rt.allow[[2]int{i, j}] = append(rt.allow[[2]int{i, j}], k)
						}
					}
				}
			}
		}
		walkRTVal = rt
	})
	return walkRTVal, walkRTErr
}

// ---- export of a Go AST into the generic tree ------------------------------------------------------

type xnode struct {
	rank []int // position in the order in which walk.go's arms visit (used only to tell apart
	// several occurrences of ONE Go object, e.g. the shared *Var of `a = a`)
	path     []int64 // flattened (field, index) pairs
	ty       int
	ptr      unsafe.Pointer
	val      reflect.Value // the struct (addressable)
	wrapper  bool
	parent   *xnode   // nearest enclosing real node
	children []*xnode // real-node children (through wrappers), in export order
	entered  bool
}

type xkey struct {
	ty  int
	ptr unsafe.Pointer
}

type xtree struct {
	enc       []int64
	nodes     []*xnode
	byKey     map[xkey][]*xnode // zero-size structs (EmptyStmt, ...) all live at one address
	root      *xnode
	anomalies []string
}

// present reports which children a field holds, as addressable struct values.
func (rt *walkRT) fieldKids(x *xtree, ti int, sv reflect.Value, fi int) []reflect.Value {
	t := rt.ws.Types[ti]
	f := t.Fields[fi]
	fv := sv.FieldByName(f.Name)
	one := func(v reflect.Value) []reflect.Value {
		// v is an interface value
		if v.IsNil() {
			return nil
		}
		e := v.Elem()
		if e.Kind() == reflect.Ptr {
			if e.IsNil() {
				x.anomalies = append(x.anomalies, "typed-nil-in-interface:"+t.Name+"."+f.Name+":"+e.Type().Elem().Name())
				return nil
			}
			if _, ok := rt.byType[e.Type().Elem()]; !ok {
				x.anomalies = append(x.anomalies, "unknown-type:"+t.Name+"."+f.Name+":"+e.Type().String())
				return nil
			}
			return []reflect.Value{e.Elem()}
		}
		// a struct VALUE stored in the interface (js.Parse does this for DotExpr.Y)
		if _, ok := rt.byType[e.Type()]; ok {
			return []reflect.Value{e}
		}
		x.anomalies = append(x.anomalies, "unknown-value-in-interface:"+t.Name+"."+f.Name+":"+e.Type().String())
		return nil
	}
	switch f.Kind {
	case wkOne:
		if g := rt.altOf[ti][fi]; g >= 0 {
			// the embedded default of an alternative group counts as set unless it is the zero value
			// and another member of the group is set
			other := false
			for _, m := range t.Alts[g] {
				if m != fi && len(rt.fieldKids(x, ti, sv, m)) > 0 {
					other = true
				}
			}
			if other && fv.IsZero() {
				return nil
			}
		}
		return []reflect.Value{fv}
	case wkOptI:
		return one(fv)
	case wkOptP:
		if fv.IsNil() {
			return nil
		}
		return []reflect.Value{fv.Elem()}
	case wkListI:
		var out []reflect.Value
		for i := 0; i < fv.Len(); i++ {
			out = append(out, one(fv.Index(i))...)
		}
		return out
	default: // wkListS, wkListW
		var out []reflect.Value
		for i := 0; i < fv.Len(); i++ {
			out = append(out, fv.Index(i))
		}
		return out
	}
}

// visitRank: position of field fi in the visits of type ti's arm (fields never visited come last)
func (rt *walkRT) visitRank(ti, fi int) int {
	k := 0
	for _, v := range rt.ws.Types[ti].Visits {
		for _, f := range v.Fields {
			if f == fi {
				return k
			}
			k++
		}
	}
	return k + fi
}

func rankLess(a, b []int) bool {
	for i := 0; i < len(a) && i < len(b); i++ {
		if a[i] != b[i] {
			return a[i] < b[i]
		}
	}
	return len(a) < len(b)
}

func (rt *walkRT) export(root interface{}) *xtree {
	x := &xtree{byKey: map[xkey][]*xnode{}}
	rv := reflect.ValueOf(root)
	ti, ok := rt.byType[rv.Type().Elem()]
	if !ok {
		x.anomalies = append(x.anomalies, "unknown-root:"+rv.Type().String())
		return x
	}
	x.root = rt.exportNode(x, rv.Elem(), ti, nil, nil, false, nil)
	for _, n := range x.nodes {
		sort.SliceStable(n.children, func(i, j int) bool { return rankLess(n.children[i].rank, n.children[j].rank) })
	}
	return x
}

func (rt *walkRT) ntypes() int { return len(rt.ws.Types) }

func (rt *walkRT) exportNode(x *xtree, sv reflect.Value, ti int, path []int64, parent *xnode, byValue bool, rank []int) *xnode {
	t := rt.ws.Types[ti]
	n := &xnode{path: path, ty: ti, val: sv, wrapper: t.Wrapper, parent: parent, rank: rank}
	if byValue {
		n.ty = rt.ntypes() + ti
	}
	if sv.CanAddr() {
		n.ptr = unsafe.Pointer(sv.UnsafeAddr())
	}
	x.nodes = append(x.nodes, n)
	np := n
	if t.Wrapper {
		np = parent
	} else {
		if n.ptr != nil {
			x.byKey[xkey{ti, n.ptr}] = append(x.byKey[xkey{ti, n.ptr}], n)
		}
		if parent != nil {
			parent.children = append(parent.children, n)
		}
	}
	x.enc = append(x.enc, int64(n.ty), int64(len(t.Fields)))
	for fi := range t.Fields {
		kids := rt.fieldKids(x, ti, sv, fi)
		x.enc = append(x.enc, int64(fi), int64(len(kids)))
		for i, k := range kids {
			ci := rt.byType[k.Type()]
			cp := append(append([]int64{}, path...), int64(fi), int64(i))
			fk := t.Fields[fi].Kind
			var cr []int
			if t.Wrapper {
				cr = append(append(cr, rank...), rt.visitRank(ti, fi), i)
			} else {
				cr = []int{rt.visitRank(ti, fi), i}
			}
			rt.exportNode(x, k, ci, cp, np, (fk == wkOptI || fk == wkListI) && !k.CanAddr(), cr)
		}
	}
	return n
}

// ---- construction of a Go AST from the generic tree ------------------------------------------------

type gtree struct {
	ty   int
	kids [][]*gtree // per schema field
}

func decodeGTree(rt *walkRT, a []int64) (*gtree, []int64, error) {
	if len(a) < 2 {
		return nil, nil, fmt.Errorf("truncated tree")
	}
	ti, nf := int(a[0]), int(a[1])
	a = a[2:]
	if ti < 0 || ti >= 2*len(rt.ws.Types) || nf != len(rt.ws.Types[ti%len(rt.ws.Types)].Fields) {
		return nil, nil, fmt.Errorf("type %d with %d fields is not in the schema", ti, nf)
	}
	g := &gtree{ty: ti, kids: make([][]*gtree, nf)}
	for j := 0; j < nf; j++ {
		if len(a) < 2 || int(a[0]) != j {
			return nil, nil, fmt.Errorf("field list of type %d out of order", ti)
		}
		nk := int(a[1])
		a = a[2:]
		for k := 0; k < nk; k++ {
			c, rest, err := decodeGTree(rt, a)
			if err != nil {
				return nil, nil, err
			}
			g.kids[j] = append(g.kids[j], c)
			a = rest
		}
	}
	return g, a, nil
}

func (g *gtree) encode(rt *walkRT, out []int64) []int64 {
	out = append(out, int64(g.ty), int64(len(g.kids)))
	for j, ks := range g.kids {
		out = append(out, int64(j), int64(len(ks)))
		for _, k := range ks {
			out = k.encode(rt, out)
		}
	}
	return out
}

func (g *gtree) size() int {
	n := 1
	for _, ks := range g.kids {
		for _, k := range ks {
			n += k.size()
		}
	}
	return n
}

// build fills the struct value sv (of the Go type of g.ty) from g.
func (rt *walkRT) build(g *gtree, sv reflect.Value) error {
	t := rt.ws.Types[g.ty%rt.ntypes()]
	if sv.Type() != rt.rtypes[g.ty%rt.ntypes()] {
		return fmt.Errorf("a %s cannot stand where a %s is required", t.Name, sv.Type().Name())
	}
	// make data-bearing leaves non-zero so that "is set" is visible for embedded alternatives
	switch t.Name {
	case "LiteralExpr":
		sv.FieldByName("TokenType").SetUint(uint64(js.IdentifierToken))
		sv.FieldByName("Data").SetBytes([]byte("x"))
	case "Var":
		sv.FieldByName("Data").SetBytes([]byte("v"))
	}
	for fi, f := range t.Fields {
		fv := sv.FieldByName(f.Name)
		ks := g.kids[fi]
		mkPtr := func(k *gtree) (reflect.Value, error) {
			p := reflect.New(rt.rtypes[k.ty%rt.ntypes()])
			err := rt.build(k, p.Elem())
			if k.ty >= rt.ntypes() {
				return p.Elem(), err // stored by value (only possible in an interface)
			}
			return p, err
		}
		switch f.Kind {
		case wkOne:
			if len(ks) == 0 {
				if rt.altOf[g.ty%rt.ntypes()][fi] >= 0 {
					continue // stays the zero value
				}
				return fmt.Errorf("%s.%s: a struct field cannot be absent", t.Name, f.Name)
			}
			if len(ks) > 1 {
				return fmt.Errorf("%s.%s: more than one child", t.Name, f.Name)
			}
			if err := rt.build(ks[0], fv); err != nil {
				return err
			}
		case wkOptI, wkOptP:
			if len(ks) > 1 {
				return fmt.Errorf("%s.%s: more than one child", t.Name, f.Name)
			}
			if len(ks) == 1 {
				p, err := mkPtr(ks[0])
				if err != nil {
					return err
				}
				if !p.Type().AssignableTo(fv.Type()) {
					return fmt.Errorf("%s.%s: type %d is not assignable", t.Name, f.Name, ks[0].ty)
				}
				fv.Set(p)
			}
		case wkListI:
			sl := reflect.MakeSlice(fv.Type(), 0, len(ks))
			for _, k := range ks {
				p, err := mkPtr(k)
				if err != nil {
					return err
				}
				if !p.Type().AssignableTo(fv.Type().Elem()) {
					return fmt.Errorf("%s.%s: type %d is not assignable", t.Name, f.Name, k.ty)
				}
				sl = reflect.Append(sl, p)
			}
			if len(ks) > 0 {
				fv.Set(sl)
			}
		default:
			if len(ks) > 0 {
				sl := reflect.MakeSlice(fv.Type(), len(ks), len(ks))
				for i, k := range ks {
					if err := rt.build(k, sl.Index(i)); err != nil {
						return err
					}
				}
				fv.Set(sl)
			}
		}
	}
	return nil
}

func (rt *walkRT) buildRoot(g *gtree) (interface{}, error) {
	if g.ty >= rt.ntypes() || rt.ws.Types[g.ty].Wrapper {
		return nil, fmt.Errorf("a wrapper or a struct value cannot be the root")
	}
	p := reflect.New(rt.rtypes[g.ty])
	if err := rt.build(g, p.Elem()); err != nil {
		return nil, err
	}
	return p.Interface(), nil
}

// ---- the recording visitor ----------------------------------------------------------------------------

// shallowEq: is b a shallow copy of a (same scalars, same pointers / slice headers / interface words)?
func shallowEq(a, b reflect.Value) bool {
	if a.Type() != b.Type() {
		return false
	}
	switch a.Kind() {
	case reflect.Struct:
		for i := 0; i < a.NumField(); i++ {
			if !shallowEq(a.Field(i), b.Field(i)) {
				return false
			}
		}
		return true
	case reflect.Ptr, reflect.Map, reflect.Chan, reflect.Func, reflect.UnsafePointer:
		return a.Pointer() == b.Pointer()
	case reflect.Slice:
		return a.Len() == b.Len() && (a.Len() == 0 && a.IsNil() == b.IsNil() || a.Len() > 0 && a.Pointer() == b.Pointer())
	case reflect.Interface:
		if a.IsNil() || b.IsNil() {
			return a.IsNil() == b.IsNil()
		}
		return shallowEq(a.Elem(), b.Elem())
	case reflect.Bool:
		return a.Bool() == b.Bool()
	case reflect.Int, reflect.Int8, reflect.Int16, reflect.Int32, reflect.Int64:
		return a.Int() == b.Int()
	case reflect.Uint, reflect.Uint8, reflect.Uint16, reflect.Uint32, reflect.Uint64, reflect.Uintptr:
		return a.Uint() == b.Uint()
	case reflect.String:
		return a.String() == b.String()
	case reflect.Array:
		for i := 0; i < a.Len(); i++ {
			if !shallowEq(a.Index(i), b.Index(i)) {
				return false
			}
		}
		return true
	}
	return false
}

const (
	flOrig = iota
	flCopy
	flByVal
	flNilPtr
	flForeign // not a node of the tree nor a copy of one (never produced by the model)
)

type recFrame struct {
	n    *xnode
	path []int64
	ty   int
	fl   int
}

type walkRec struct {
	rt     *walkRT
	x      *xtree
	bits   []int64
	enters int
	out    []int64
	stack  []recFrame
}

type recVisitor struct {
	rec   *walkRec
	label int
}

// resolve identifies what the visitor was handed.
func (r *walkRec) resolve(n js.INode, exit bool) recFrame {
	rt := r.rt
	rv := reflect.ValueOf(n)
	var top *xnode
	if len(r.stack) > 0 {
		top = r.stack[len(r.stack)-1].n
	}
	if exit && len(r.stack) > 0 {
		// an Exit for the node of the innermost open frame?
		f := r.stack[len(r.stack)-1]
		if rv.Kind() == reflect.Ptr {
			if ti, ok := rt.byType[rv.Type().Elem()]; ok && ti == f.ty {
				if rv.IsNil() && f.fl == flNilPtr {
					return f
				}
				if !rv.IsNil() && f.n != nil && (f.n.ptr == unsafe.Pointer(rv.Pointer()) || f.fl == flCopy && shallowEq(f.n.val, rv.Elem())) {
					return f
				}
			}
		} else if ti, ok := rt.byType[rv.Type()]; ok && rt.ntypes()+ti == f.ty && f.fl == flByVal {
			return f
		}
	}
	match := func(ti int, val reflect.Value) *xnode {
		if top == nil {
			return nil
		}
		for _, c := range top.children {
			if c.ty == ti && !c.entered && shallowEq(c.val, val) {
				return c
			}
		}
		return nil
	}
	if rv.Kind() == reflect.Ptr {
		ti, ok := rt.byType[rv.Type().Elem()]
		if !ok {
			return recFrame{ty: -1, fl: flForeign}
		}
		if rv.IsNil() {
			fr := recFrame{ty: ti, fl: flNilPtr}
			if top != nil {
				t := rt.ws.Types[top.ty%rt.ntypes()]
				for fi, f := range t.Fields {
					if f.Kind == wkOptP && f.Target == ti && top.val.FieldByName(f.Name).IsNil() {
						fr.path = append(append([]int64{}, top.path...), int64(fi), 0)
						break
					}
				}
			}
			return fr
		}
		if xns := r.x.byKey[xkey{ti, unsafe.Pointer(rv.Pointer())}]; len(xns) > 0 {
			xn := xns[0]
			found := false
			for _, c := range xns {
				// zero-size nodes share their address, and one *Var may occur several times: take the
				// occurrence below the innermost open node that walk.go's arm visits next
				if !c.entered && c.parent == top && (!found || rankLess(c.rank, xn.rank)) {
					xn = c
					found = true
				}
			}
			return recFrame{n: xn, path: xn.path, ty: ti, fl: flOrig}
		}
		if c := match(ti, rv.Elem()); c != nil {
			return recFrame{n: c, path: c.path, ty: ti, fl: flCopy}
		}
		return recFrame{ty: ti, fl: flForeign}
	}
	ti, ok := rt.byType[rv.Type()]
	if !ok {
		return recFrame{ty: -1, fl: flForeign}
	}
	// a struct value: a node the tree stores by value, or a node passed by value
	if c := match(rt.ntypes()+ti, rv); c != nil {
		return recFrame{n: c, path: c.path, ty: rt.ntypes() + ti, fl: flByVal}
	}
	if c := match(ti, rv); c != nil {
		return recFrame{n: c, path: c.path, ty: rt.ntypes() + ti, fl: flByVal}
	}
	return recFrame{ty: rt.ntypes() + ti, fl: flForeign}
}

func (r *walkRec) log(kind, label int, f recFrame) {
	r.out = append(r.out, int64(kind), int64(label), int64(f.ty), int64(f.fl), int64(len(f.path)/2))
	r.out = append(r.out, f.path...)
}

func (v *recVisitor) Enter(n js.INode) js.IVisitor {
	r := v.rec
	f := r.resolve(n, false)
	if f.n != nil {
		f.n.entered = true
	}
	r.log(0, v.label, f)
	k := r.enters
	r.enters++
	if k < len(r.bits) && r.bits[k] != 0 {
		return nil
	}
	r.stack = append(r.stack, f)
	return &recVisitor{rec: r, label: k + 1}
}

func (v *recVisitor) Exit(n js.INode) {
	r := v.rec
	f := r.resolve(n, true)
	r.log(1, v.label, f)
	if len(r.stack) > 0 {
		r.stack = r.stack[:len(r.stack)-1]
	}
}

// ---- the correspondence model ------------------------------------------------------------------------

var (
	walkOrigMu sync.Mutex
	walkOrig   = map[string]interface{}{} // case line -> the tree js.Parse returned (walked as is)
)

func walkCase(mode int, bits []int64, enc []int64, note string) Case {
	args := []int64{int64(mode), int64(len(bits))}
	args = append(args, bits...)
	args = append(args, enc...)
	return Case{Fn: "walk", Args: args, Note: note}
}

func walkImpl(c Case) []int64 {
	rt, err := getWalkRT()
	if err != nil {
		panic(err)
	}
	if len(c.Args) < 2 {
		return []int64{-3}
	}
	mode := c.Args[0]
	bits, enc := takeList(c.Args[1:])
	walkOrigMu.Lock()
	root, ok := walkOrig[c.Line()]
	walkOrigMu.Unlock()
	if !ok {
		g, _, err := decodeGTree(rt, enc)
		if err != nil {
			return []int64{-3}
		}
		root, err = rt.buildRoot(g)
		if err != nil {
			return []int64{-3}
		}
	}
	x := rt.export(root)
	if len(x.anomalies) > 0 || fmtInts(x.enc) != fmtInts(enc) {
		return []int64{-3} // the case does not describe a Go tree
	}
	rec := &walkRec{rt: rt, x: x, bits: bits}
	panicked := int64(0)
	if p := catch(func() { js.Walk(&recVisitor{rec: rec, label: 0}, root.(js.INode)) }); p != nil {
		panicked = 1
	}
	out := []int64{mode, panicked}
	return append(out, rec.out...)
}

// ---- sources of trees -------------------------------------------------------------------------------

// programs that together contain every node type (checked by the oracle on every run)
var walkCorpus = []string{
	"class A{[x+y](){} #p=1}",  // D16
	"({[z](){}})",              // D16
	"class A { a = 1; b = 2 }", // fixed 3931a8d: *Field was the address of a loop-variable copy
	"x.y = i",                  // DotExpr.Y is a LiteralExpr VALUE
	"if(a);else b",
	"#!/usr/bin/env node\n'use strict'; /*! banner */ ;",
	"if (a) b; else c",
	"if (a) { b } else if (c) d",
	"do a; while (b)",
	"while (a) { b; continue }",
	"for (var i = 0, j; i < 1; i++) { x.y = i }",
	"for (;;) break",
	"for (a in b) c",
	"for (const [a, b = 1, ...c] of d) { e }",
	"async function f() { for await (let {a, b: {c}, ...d} of e) ; }",
	"switch (a) { case 1: b; break; case 2: default: c }",
	"function f(a, {b, c = 1}, [d, , e], ...g) { return a }",
	"function* g() { yield; yield* a; return }",
	"with (a) b",
	"l: for (;;) { break l }",
	"throw new Error('x')",
	"try { a } catch (e) { b } finally { c }",
	"try { a } catch { b }",
	"try { a } finally { c }",
	"try { a } catch ({message: m}) { b }",
	"debugger",
	"import a, { b as c, d } from 'm'; import * as e from 'n'; import 'o'; import f from 'p'",
	"export { a as b, c }; export * from 'm'; export * as ns from 'n'; export default function () {}; export var x = 1, y; export class K {}",
	"export default a + b",
	"class A extends (B, C) { static #p = 1; #q; [x + y]() { return this.#p } get z() {} set z(v) {} static { init() } static async *gen() {} 'lit' = 2; 3() {} static; async; get; set }",
	"class B { constructor(a) { super(a) } static m() {} f = () => this }",
	"(class {})",
	"x = { a, b: 1, [c + d]: 2, ...e, f() {}, get g() { return 1 }, set g(v) {}, async *h() {}, i = 3 } = y",
	"({ a: [b, { c }] } = d)",
	"var [a, [b, ...c], { d = 1, e: f }] = g, h",
	"let { [k]: v = 1, ...rest } = o; const c = 1",
	"t = `a${b}c${`n${d}`}e`; u = tag`x${y}`; v = a.b`z`",
	"a = (b, c); d = [1, , ...e, [f]]; g = h[i][j]; k = l.m.n; o = p?.q?.[r]?.(s)",
	"new.target; import.meta; new A; new A(b, ...c); new (d())(); new e.f(g)",
	"a(b, ...c)(d)?.(e); f = g => h; i = async (j, k = 1, ...l) => { m }; n = async o => p",
	"a = b ? c : d ? e : f; g = -h + !i * typeof j * k ** 2; l = m++ + --n; o = p ?? q; r = s || t && u",
	"a = function () {}; b = function* c() {}; d = async function e() { await f }",
	"a = /re/g + 1n + 0x1 + .5 + 'str' + null + true + this",
	"a, b, c",
	"{ ; } ;;",
	"label: { a }",
	"var a = class { static b = class { c() { return class {} } } }",
	"x = { __proto__: null, 'a-b': 1, 2: 3, [`t`]: 4 }",
	"for (let [a, b] = c; a < b; a++) for (var d in e) for (f of g) ;",
	"if (a) ; else ;",
	"function f() { 'use strict'; 'another'; return }",
	"a = b => c => d => ({ e })",
	"a = async function* () { yield* await b }",
	"(a, b) => {}; ([a], {b}) => a; (a = 1, ...b) => 0",
	"class C { static async #m() {} static get #g() {} #f = 1; static #s }",
	"/*! keep */ function f() { /*! inner */ a }",
	"a = b?.c; a?.[0]; a?.(); a?.b.c(d).e",
	"x = (1, 2, (3, 4))",
	"do { if (a) continue; else break } while (0)",
	"a = [function () {}, class {}, () => {}, ...b]",
	"a = { ...b, ...{ c } }",
	"switch (a) {}",
	"switch (a) { default: }",
	"import { default as a } from 'b'; export { c as default }",
	"async () => { for await (a of b) ; }",
	"new new a()()",
	"a = +b - -c; d = void 0; e = delete f.g; h = ~i",
	"a ||= b; c &&= d; e ??= f; g **= 2; h >>>= 1",
	"a = b in c; d = e instanceof f",
	"var { a = 1 } = {}, [b = 2] = []",
	"function f({ a, b } = {}, [c] = []) {}",
}

func walkParse(src string) (*js.AST, error) {
	var ast *js.AST
	var err error
	if p := catch(func() { ast, err = js.Parse(parse.NewInputString(src), js.Options{}) }); p != nil {
		return nil, fmt.Errorf("panic: %v", p)
	}
	return ast, err
}

// a small random program generator (grammar driven, depth bounded)
type jsGen struct {
	r     *Rng
	fn    int // nesting of functions (return allowed)
	gen   int // inside generator
	async int
	loop  int
}

var jsIdents = []string{"a", "b", "c", "x", "y", "foo", "bar", "_z", "$"}

func (g *jsGen) id() string { return g.r.PickStr(jsIdents) }

func (g *jsGen) list(n int, sep string, f func() string) string {
	var parts []string
	for i := 0; i < n; i++ {
		parts = append(parts, f())
	}
	return strings.Join(parts, sep)
}

func (g *jsGen) binding(d int) string {
	if d <= 0 {
		return g.id()
	}
	switch g.r.Intn(5) {
	case 0:
		n := g.r.Intn(4)
		s := "[" + g.list(n, ", ", func() string {
			if g.r.Chance(1, 6) {
				return ""
			}
			return g.bindingElem(d - 1)
		})
		if g.r.Chance(1, 3) {
			if n > 0 {
				s += ", "
			}
			s += "..." + g.binding(d-1)
		}
		return s + "]"
	case 1:
		n := g.r.Intn(4)
		s := "{" + g.list(n, ", ", func() string {
			switch g.r.Intn(4) {
			case 0:
				return g.id()
			case 1:
				return g.id() + " = " + g.expr(d-1)
			case 2:
				return g.propName(d-1) + ": " + g.bindingElem(d-1)
			}
			return g.id() + ": " + g.binding(d-1)
		})
		if g.r.Chance(1, 3) {
			if n > 0 {
				s += ", "
			}
			s += "..." + g.id()
		}
		return s + "}"
	}
	return g.id()
}

func (g *jsGen) bindingElem(d int) string {
	s := g.binding(d)
	if g.r.Chance(1, 3) {
		s += " = " + g.assign(d-1)
	}
	return s
}

func (g *jsGen) propName(d int) string {
	switch g.r.Intn(6) {
	case 0:
		return "[" + g.assign(d-1) + "]"
	case 1:
		return "'s'"
	case 2:
		return "7"
	}
	return g.id()
}

func (g *jsGen) params(d int) string {
	n := g.r.Intn(4)
	s := g.list(n, ", ", func() string { return g.bindingElem(d - 1) })
	if g.r.Chance(1, 4) {
		if n > 0 {
			s += ", "
		}
		s += "..." + g.binding(d-1)
	}
	return s
}

func (g *jsGen) funcBody(d int, gen, async bool) string {
	g.fn++
	og, oa, ol := g.gen, g.async, g.loop
	g.gen, g.async, g.loop = 0, 0, 0
	if gen {
		g.gen = 1
	}
	if async {
		g.async = 1
	}
	s := "{" + g.stmts(d-1, g.r.Intn(3)) + "}"
	g.gen, g.async, g.loop = og, oa, ol
	g.fn--
	return s
}

func (g *jsGen) class(d int, name bool) string {
	s := "class"
	if name {
		s += " " + strings.ToUpper(g.id())
	}
	if g.r.Chance(1, 3) {
		s += " extends " + g.lhs(d-1)
	}
	s += " {"
	n := g.r.Intn(5)
	for i := 0; i < n; i++ {
		st := ""
		if g.r.Chance(1, 3) {
			st = "static "
		}
		nm := g.propName(d - 1)
		if g.r.Chance(1, 4) {
			nm = "#" + g.id() + fmt.Sprint(i)
		}
		switch g.r.Intn(7) {
		case 0:
			s += st + nm + ";"
		case 1:
			s += st + nm + " = " + g.assign(d-1) + ";"
		case 2:
			s += st + nm + "(" + g.params(d-1) + ")" + g.funcBody(d-1, false, false)
		case 3:
			s += st + "get " + nm + "()" + g.funcBody(d-1, false, false)
		case 4:
			s += st + "set " + nm + "(" + g.binding(d-1) + ")" + g.funcBody(d-1, false, false)
		case 5:
			s += st + "async *" + nm + "(" + g.params(d-1) + ")" + g.funcBody(d-1, true, true)
		default:
			s += "static " + g.funcBody(d-1, false, false)
		}
		s += " "
	}
	return s + "}"
}

func (g *jsGen) primary(d int) string {
	if d <= 0 {
		switch g.r.Intn(4) {
		case 0:
			return "1"
		case 1:
			return "'s'"
		}
		return g.id()
	}
	switch g.r.Intn(16) {
	case 0:
		return "[" + g.list(g.r.Intn(4), ", ", func() string {
			switch g.r.Intn(5) {
			case 0:
				return ""
			case 1:
				return "..." + g.assign(d-1)
			}
			return g.assign(d - 1)
		}) + "]"
	case 1:
		return "({" + g.list(g.r.Intn(4), ", ", func() string {
			switch g.r.Intn(7) {
			case 0:
				return g.id()
			case 1:
				return "..." + g.assign(d-1)
			case 2:
				return g.propName(d-1) + "(" + g.params(d-1) + ")" + g.funcBody(d-1, false, false)
			case 3:
				return "get " + g.propName(d-1) + "()" + g.funcBody(d-1, false, false)
			case 4:
				return "async " + g.propName(d-1) + "()" + g.funcBody(d-1, false, true)
			}
			return g.propName(d-1) + ": " + g.assign(d-1)
		}) + "})"
	case 2:
		return "(" + g.expr(d-1) + ")"
	case 3:
		n := g.r.Intn(3)
		s := "`t"
		for i := 0; i < n; i++ {
			s += "${" + g.expr(d-1) + "}m"
		}
		return s + "`"
	case 4:
		nm := ""
		if g.r.Bool() {
			nm = " " + g.id()
		}
		gen := g.r.Chance(1, 4)
		star := ""
		if gen {
			star = "*"
		}
		return "(function" + star + nm + "(" + g.params(d-1) + ")" + g.funcBody(d-1, gen, false) + ")"
	case 5:
		return "(" + g.class(d-1, g.r.Bool()) + ")"
	case 6:
		as := g.r.Chance(1, 4)
		pre := ""
		if as {
			pre = "async "
		}
		if g.r.Bool() {
			return "(" + pre + "(" + g.params(d-1) + ") => " + g.funcBody(d-1, false, as) + ")"
		}
		g.fn++
		oa := g.async
		if as {
			g.async = 1
		}
		s := "(" + pre + g.id() + " => " + g.assign(d-1) + ")"
		g.async = oa
		g.fn--
		return s
	case 7:
		if g.fn > 0 {
			return "new.target"
		}
		return "import.meta"
	case 8:
		return "this"
	case 9:
		return "/r/g"
	}
	return g.primary(0)
}

func (g *jsGen) lhs(d int) string {
	s := g.primary(d)
	for n := g.r.Intn(3); n > 0 && d > 0; n-- {
		switch g.r.Intn(8) {
		case 0:
			s += "." + g.id()
		case 1:
			s += "[" + g.expr(d-1) + "]"
		case 2:
			s += "(" + g.list(g.r.Intn(3), ", ", func() string {
				if g.r.Chance(1, 5) {
					return "..." + g.assign(d-1)
				}
				return g.assign(d - 1)
			}) + ")"
		case 3:
			s += "?." + g.id()
		case 4:
			s += "?.[" + g.expr(d-1) + "]"
		case 5:
			s += "?.(" + g.assign(d-1) + ")"
		case 6:
			s = "new " + s + "(" + g.list(g.r.Intn(2), ", ", func() string { return g.assign(d - 1) }) + ")"
		case 7:
			if !strings.Contains(s, "?.") {
				s += "`q${" + g.expr(d-1) + "}`"
			}
		}
	}
	return s
}

var jsBinOps = []string{"+", "-", "*", "/", "%", "**", "<<", ">>", ">>>", "<", ">", "<=", ">=", "==", "!=", "===", "!==", "&", "|", "^", "&&", "||", "in", "instanceof"}

func (g *jsGen) assign(d int) string {
	if d <= 0 {
		return g.primary(0)
	}
	switch g.r.Intn(10) {
	case 0:
		return g.id() + " " + g.r.PickStr([]string{"=", "+=", "-=", "??=", "||=", ">>>="}) + " " + g.assign(d-1)
	case 1:
		return g.unary(d-1) + " ? " + g.assign(d-1) + " : " + g.assign(d-1)
	case 2:
		op := g.r.PickStr(jsBinOps)
		l := g.unary(d - 1)
		if op == "**" {
			l = g.lhs(d - 1)
		}
		return l + " " + op + " " + g.unary(d-1)
	case 3:
		return g.lhs(d-1) + " ?? " + g.lhs(d-1)
	case 4:
		if g.gen > 0 {
			switch g.r.Intn(3) {
			case 0:
				return "yield"
			case 1:
				return "yield " + g.assign(d-1)
			}
			return "yield* " + g.assign(d-1)
		}
	case 5:
		if g.r.Bool() {
			return "[" + g.list(1+g.r.Intn(2), ", ", func() string { return g.id() }) + "] = " + g.assign(d-1)
		}
		return "({" + g.id() + ", " + g.id() + ": " + g.id() + "} = " + g.assign(d-1) + ")"
	}
	return g.unary(d)
}

func (g *jsGen) unary(d int) string {
	if d <= 0 {
		return g.primary(0)
	}
	switch g.r.Intn(8) {
	case 0:
		return g.r.PickStr([]string{"!", "-", "+", "~", "typeof ", "void ", "delete "}) + g.unary(d-1)
	case 1:
		return g.r.PickStr([]string{"++", "--"}) + g.id()
	case 2:
		return g.id() + g.r.PickStr([]string{"++", "--"})
	case 3:
		if g.async > 0 {
			return "await " + g.unary(d-1)
		}
	}
	return g.lhs(d)
}

func (g *jsGen) expr(d int) string {
	if g.r.Chance(1, 6) {
		return g.assign(d) + ", " + g.assign(d)
	}
	return g.assign(d)
}

func (g *jsGen) block(d int) string { return "{" + g.stmts(d-1, g.r.Intn(3)) + "}" }

func (g *jsGen) stmts(d, n int) string {
	var sb strings.Builder
	for i := 0; i < n; i++ {
		sb.WriteString(g.stmt(d))
		sb.WriteString("\n")
	}
	return sb.String()
}

func (g *jsGen) stmt(d int) string {
	if d <= 0 {
		return g.assign(0) + ";"
	}
	switch g.r.Intn(26) {
	case 0:
		return g.block(d)
	case 1:
		return ";"
	case 2:
		s := "if (" + g.expr(d-1) + ") " + g.stmt(d-1)
		if g.r.Bool() {
			s += " else " + g.stmt(d-1)
		}
		return s
	case 3:
		g.loop++
		s := "do " + g.stmt(d-1) + " while (" + g.expr(d-1) + ");"
		g.loop--
		return s
	case 4:
		g.loop++
		s := "while (" + g.expr(d-1) + ") " + g.stmt(d-1)
		g.loop--
		return s
	case 5:
		g.loop++
		init := ""
		switch g.r.Intn(4) {
		case 0:
			init = g.r.PickStr([]string{"var ", "let "}) + g.bindingElem(d-1)
		case 1:
			init = g.expr(d - 1)
		}
		cond, post := "", ""
		if g.r.Bool() {
			cond = g.expr(d - 1)
		}
		if g.r.Bool() {
			post = g.expr(d - 1)
		}
		s := "for (" + init + "; " + cond + "; " + post + ") " + g.stmt(d-1)
		g.loop--
		return s
	case 6:
		g.loop++
		head := g.r.PickStr([]string{"var ", "let ", "const ", ""})
		if head == "" {
			head = g.id()
		} else {
			head += g.binding(d - 1)
		}
		s := "for (" + head + g.r.PickStr([]string{" in ", " of "}) + g.assign(d-1) + ") " + g.stmt(d-1)
		g.loop--
		return s
	case 7:
		s := "switch (" + g.expr(d-1) + ") {"
		def := false
		for n := g.r.Intn(4); n > 0; n-- {
			if !def && g.r.Chance(1, 4) {
				s += "default: "
				def = true
			} else {
				s += "case " + g.expr(d-1) + ": "
			}
			s += g.stmts(d-1, g.r.Intn(3))
			if g.r.Bool() {
				s += "break;"
			}
		}
		return s + "}"
	case 8:
		if g.loop > 0 {
			return g.r.PickStr([]string{"break;", "continue;"})
		}
	case 9:
		if g.fn > 0 {
			if g.r.Bool() {
				return "return;"
			}
			return "return " + g.expr(d-1) + ";"
		}
	case 10:
		return "throw " + g.expr(d-1) + ";"
	case 11:
		s := "try " + g.block(d)
		k := g.r.Intn(3)
		if k != 2 {
			switch g.r.Intn(3) {
			case 0:
				s += " catch " + g.block(d)
			default:
				s += " catch (" + g.binding(d-1) + ") " + g.block(d)
			}
		}
		if k != 0 {
			s += " finally " + g.block(d)
		}
		return s
	case 12:
		return "debugger;"
	case 13:
		return "L" + fmt.Sprint(g.r.Intn(100)) + ": " + g.stmt(d-1)
	case 14:
		return g.r.PickStr([]string{"var ", "let "}) + g.list(1+g.r.Intn(3), ", ", func() string { return g.bindingElem(d - 1) }) + ";"
	case 15:
		gen, as := g.r.Chance(1, 4), g.r.Chance(1, 4)
		pre, star := "", ""
		if as {
			pre = "async "
		}
		if gen {
			star = "*"
		}
		return pre + "function" + star + " " + g.id() + fmt.Sprint(g.r.Intn(1000)) + "(" + g.params(d-1) + ")" + g.funcBody(d, gen, as)
	case 16:
		return g.class(d, true)
	case 17:
		return "with (" + g.expr(d-1) + ") " + g.stmt(d-1)
	case 18:
		if g.async > 0 {
			g.loop++
			s := "for await (" + g.id() + " of " + g.assign(d-1) + ") " + g.stmt(d-1)
			g.loop--
			return s
		}
	}
	return g.expr(d) + ";"
}

func (g *jsGen) module(d int) string {
	var sb strings.Builder
	if g.r.Chance(1, 10) {
		sb.WriteString("'use strict';\n")
	}
	n := 1 + g.r.Intn(4)
	for i := 0; i < n; i++ {
		switch g.r.Intn(12) {
		case 0:
			sb.WriteString(g.r.PickStr([]string{"import a0 from 'm';", "import {b0 as c0, d0} from 'm';", "import * as e0 from 'm';", "import 'm';", "import f0, {g0} from 'm';"}))
		case 1:
			sb.WriteString(g.r.PickStr([]string{"export {a as b};", "export * from 'm';", "export default " + g.assign(d-1) + ";", "export var q0 = " + g.assign(d-1) + ";", "export function h0() {}", "export " + g.class(d-1, true)}))
		default:
			sb.WriteString(g.stmt(d))
		}
		sb.WriteString("\n")
	}
	return sb.String()
}

// token alphabet of the exhaustive small-scope enumeration of programs
var walkTokens = []string{"a", "1", ";", "(", ")", "{", "}", "[", "]", ",", "=", "=>", "...", ".", "?", ":", "+", "`", "${",
	"class ", "function ", "if", "else ", "for", "var ", "new ", "#p", "static ", "async ", "*", "yield ", "return ", "in ", "of ", "get ", "try", "catch", "x:"}

func allTokenStrings(k int, f func(string)) {
	var rec func(prefix string, n int)
	rec = func(prefix string, n int) {
		f(prefix)
		if n == k {
			return
		}
		for _, t := range walkTokens {
			rec(prefix+t, n+1)
		}
	}
	rec("", 0)
}

// mutate deletes / duplicates / swaps a random slice of the program text (malformed stream)
func mutateJS(r *Rng, s string) string {
	if len(s) == 0 {
		return s
	}
	b := []byte(s)
	for n := 1 + r.Intn(3); n > 0; n-- {
		i := r.Intn(len(b))
		j := i + r.Intn(min(8, len(b)-i)+1)
		switch r.Intn(4) {
		case 0:
			b = append(b[:i:i], b[j:]...)
		case 1:
			b = append(b[:j:j], append(append([]byte{}, b[i:j]...), b[j:]...)...)
		case 2:
			ins := []byte(r.PickStr(walkTokens))
			b = append(b[:i:i], append(ins, b[i:]...)...)
		default:
			if i < len(b) {
				b[i] = r.Pick([]byte("(){}[];,.=+`$#*? \n"))
			}
		}
		if len(b) == 0 {
			break
		}
	}
	return string(b)
}

// ---- synthetic trees (built directly, not parsed) -----------------------------------------------------

// minimal tree of a type: struct fields minimal, optional fields absent, lists empty, alternative
// groups with their embedded default set
func (rt *walkRT) minimal(ti int) *gtree {
	t := rt.ws.Types[ti]
	g := &gtree{ty: ti, kids: make([][]*gtree, len(t.Fields))}
	for fi, f := range t.Fields {
		if f.Kind == wkOne {
			g.kids[fi] = []*gtree{rt.minimal(f.Target)}
		}
	}
	return g
}

// candidates for one child of a field
func (rt *walkRT) childTypes(ti, fi int) []int {
	f := rt.ws.Types[ti].Fields[fi]
	if f.Target >= 0 {
		return []int{f.Target}
	}
	return rt.allow[[2]int{ti, fi}]
}

// representative child types for the exhaustive patterns: a leaf and two composite types
func (rt *walkRT) reprTypes(ti, fi int) []int {
	all := rt.childTypes(ti, fi)
	if len(all) <= 3 {
		return all
	}
	want := map[string]bool{"Var": true, "BinaryExpr": true, "ClassDecl": true, "EmptyStmt": true, "BlockStmt": true, "BindingObject": true, "LiteralExpr": true}
	var out []int
	for _, k := range all {
		if want[rt.ws.Types[k].Name] {
			out = append(out, k)
		}
	}
	if len(out) == 0 {
		out = all[:1]
	}
	if len(out) > 3 {
		out = out[:3]
	}
	return out
}

// oneLevel enumerates, for type ti, every presence pattern of its fields (optional: absent/present,
// list: 0/1/2 elements, alternative groups: every member alone, and pointer+embedded together)
func (rt *walkRT) oneLevel(ti int, child func(fi, k int) *gtree, emit func(*gtree)) {
	t := rt.ws.Types[ti]
	nf := len(t.Fields)
	choice := make([]int, nf)
	var rec func(fi int)
	rec = func(fi int) {
		if fi == nf {
			g := &gtree{ty: ti, kids: make([][]*gtree, nf)}
			for j := 0; j < nf; j++ {
				for k := 0; k < choice[j]; k++ {
					g.kids[j] = append(g.kids[j], child(j, k))
				}
			}
			// embedded members of alternative groups may be absent only if another member is set
			for _, grp := range t.Alts {
				set := 0
				for _, m := range grp {
					if choice[m] > 0 {
						set++
					}
				}
				if set == 0 {
					return
				}
			}
			emit(g)
			return
		}
		lo, hi := 0, 1
		switch t.Fields[fi].Kind {
		case wkOne:
			lo = 1
			if rt.altOf[ti][fi] >= 0 {
				lo = 0
			}
		case wkListI, wkListS, wkListW:
			hi = 2
		}
		for c := lo; c <= hi; c++ {
			choice[fi] = c
			rec(fi + 1)
		}
	}
	rec(0)
}

// random tree following the Go types
func (rt *walkRT) randomTree(r *Rng, ti, depth int, budget *int) *gtree {
	ti %= rt.ntypes()
	t := rt.ws.Types[ti]
	g := &gtree{ty: ti, kids: make([][]*gtree, len(t.Fields))}
	*budget--
	for fi, f := range t.Fields {
		n := 0
		switch f.Kind {
		case wkOne:
			n = 1
		case wkOptI, wkOptP:
			if depth > 0 && *budget > 0 && r.Chance(2, 3) {
				n = 1
			}
		default:
			if depth > 0 && *budget > 0 {
				n = r.Intn(4)
			}
		}
		for k := 0; k < n; k++ {
			cts := rt.childTypes(ti, fi)
			c := rt.randomTree(r, cts[r.Intn(len(cts))], depth-1, budget)
			// js.Parse stores some leaves by value in interface fields; sometimes do the same (mostly
			// with leaves: a struct value with children makes the tree ill-typed)
			if (f.Kind == wkOptI || f.Kind == wkListI) && r.Chance(1, 10) && (len(rt.ws.Types[c.ty].Fields) == 0 || r.Chance(1, 4)) {
				c.ty += rt.ntypes()
			}
			g.kids[fi] = append(g.kids[fi], c)
		}
	}
	// alternative groups: exactly one member (mostly), sometimes a pointer member and the embedded one
	for _, grp := range t.Alts {
		keep := grp[r.Intn(len(grp))]
		both := r.Chance(1, 8)
		for _, m := range grp {
			if m == keep {
				if len(g.kids[m]) == 0 {
					cts := rt.childTypes(ti, m)
					g.kids[m] = []*gtree{rt.randomTree(r, cts[r.Intn(len(cts))], depth-1, budget)}
				}
				continue
			}
			if both && len(g.kids[m]) > 0 {
				continue
			}
			g.kids[m] = nil
		}
	}
	return g
}

// wellTypedG: the Go-side expectation for synthetic trees: every alternative group has at most one member
func (rt *walkRT) wellTypedG(g *gtree) bool {
	t := rt.ws.Types[g.ty%rt.ntypes()]
	if g.ty >= rt.ntypes() && len(t.Fields) > 0 {
		return false // a struct value with children: Walk cannot reach them
	}
	for _, grp := range t.Alts {
		set := 0
		for _, m := range grp {
			if len(g.kids[m]) > 0 {
				set++
			}
		}
		if set > 1 {
			return false
		}
	}
	for _, ks := range g.kids {
		for _, k := range ks {
			if !rt.wellTypedG(k) {
				return false
			}
		}
	}
	return true
}

func bitsString(bits []int64) string {
	var sb strings.Builder
	for _, b := range bits {
		sb.WriteByte(byte('0' + b))
	}
	return sb.String()
}

// policies for a tree with n nodes: descend everywhere, plus stop sets
func randomBits(r *Rng, n int) []int64 {
	bits := make([]int64, n)
	den := 2 + r.Intn(8)
	for i := range bits {
		if r.Chance(1, den) {
			bits[i] = 1
		}
	}
	return bits
}

func (rt *walkRT) emitParsed(src string, ast *js.AST, r *Rng, npol int, emit func(Case)) bool {
	x := rt.export(ast)
	if len(x.anomalies) > 0 || len(x.nodes) > 400 {
		return false
	}
	n := len(x.nodes)
	for k := 0; k < npol; k++ {
		var bits []int64
		if k > 0 {
			bits = randomBits(r, n)
		}
		c := walkCase(1, bits, x.enc, fmt.Sprintf("js.Parse(%q) stop=%s", trunc(src, 160), bitsString(bits)))
		walkOrigMu.Lock()
		walkOrig[c.Line()] = ast
		walkOrigMu.Unlock()
		emit(c)
	}
	return true
}

func (rt *walkRT) emitSynthetic(g *gtree, bits []int64, what string, emit func(Case)) {
	if _, err := rt.buildRoot(g); err != nil {
		return
	}
	mode := 0
	if rt.wellTypedG(g) {
		mode = 1
	}
	enc := g.encode(rt, nil)
	emit(walkCase(mode, bits, enc, fmt.Sprintf("%s %s size=%d stop=%s", what, rt.ws.Types[g.ty%rt.ntypes()].Name, g.size(), bitsString(bits))))
}

func walkGen(r *Rng, tier string, emit func(Case)) {
	rt, err := getWalkRT()
	if err != nil {
		panic(err)
	}
	thorough := tier == "thorough"
	// (a) corpus programs: descend everywhere, stop at every single Enter, random stop sets
	for _, src := range walkCorpus {
		ast, err := walkParse(src)
		if err != nil {
			panic(fmt.Sprintf("corpus program does not parse: %q: %v", src, err))
		}
		rt.emitParsed(src, ast, r, 4, emit)
		x := rt.export(ast)
		for k := 0; k < len(x.nodes) && k < 60; k++ {
			bits := make([]int64, k+1)
			bits[k] = 1
			c := walkCase(1, bits, x.enc, fmt.Sprintf("js.Parse(%q) stop at Enter #%d", trunc(src, 160), k))
			walkOrigMu.Lock()
			walkOrig[c.Line()] = ast
			walkOrigMu.Unlock()
			emit(c)
		}
	}
	// (b) exhaustive small scope over programs: all token strings of length <= k that parse
	k := 3
	if thorough {
		k = 4
	}
	allTokenStrings(k, func(src string) {
		if ast, err := walkParse(src); err == nil && ast != nil {
			rt.emitParsed(src, ast, r, 2, emit)
		}
	})
	// (c) exhaustive small scope over trees: every node type x every presence pattern of its fields
	//     x {descend everywhere, stop at the i-th Enter for every i}
	for ti, t := range rt.ws.Types {
		if t.Wrapper {
			continue
		}
		for variant := 0; variant < 3; variant++ {
			child := func(fi, kk int) *gtree {
				cts := rt.reprTypes(ti, fi)
				c := rt.minimal(cts[(variant+kk)%len(cts)])
				return c
			}
			rt.oneLevel(ti, child, func(g *gtree) {
				n := g.size()
				rt.emitSynthetic(g, nil, "pattern", emit)
				for i := 0; i < n && i < 12; i++ {
					bits := make([]int64, i+1)
					bits[i] = 1
					rt.emitSynthetic(g, bits, "pattern", emit)
				}
			})
			if len(t.Fields) == 0 {
				break
			}
		}
	}
	// class elements (wrappers) at depth two
	ce := rt.ws.Index["ClassElement"]
	cd := rt.ws.Index["ClassDecl"]
	var elems []*gtree
	rt.oneLevel(ce, func(fi, kk int) *gtree { return rt.minimal(rt.childTypes(ce, fi)[0]) }, func(g *gtree) { elems = append(elems, g) })
	for _, e1 := range elems {
		for _, e2 := range elems {
			g := rt.minimal(cd)
			g.kids[rt.ws.fieldIndex(rt.ws.Types[cd], "List")] = []*gtree{e1, e2}
			rt.emitSynthetic(g, nil, "class-elements", emit)
			rt.emitSynthetic(g, randomBits(r, g.size()), "class-elements", emit)
		}
	}
	// (d) seeded structured programs and malformed variants of them
	nprog := 2500
	ntree := 2500
	if thorough {
		nprog, ntree = 60000, 60000
	}
	for i := 0; i < nprog; i++ {
		g := &jsGen{r: r}
		src := g.module(2 + i%3)
		if i%3 == 2 {
			src = mutateJS(r, src)
		}
		if ast, err := walkParse(src); err == nil && ast != nil {
			rt.emitParsed(src, ast, r, 2, emit)
		}
	}
	// (e) seeded random trees following the Go types (optional fields nil, empty lists, ill-formed unions)
	for i := 0; i < ntree; i++ {
		ti := r.Intn(len(rt.ws.Types))
		if rt.ws.Types[ti].Wrapper {
			ti = cd
		}
		budget := 5 + r.Intn(60)
		g := rt.randomTree(r, ti, 1+i%5, &budget)
		var bits []int64
		if i%2 == 1 {
			bits = randomBits(r, g.size())
		}
		rt.emitSynthetic(g, bits, "random-tree", emit)
	}
}

func walkShrink(c Case) []Case {
	rt, err := getWalkRT()
	if err != nil || len(c.Args) < 2 {
		return nil
	}
	bits, enc := takeList(c.Args[1:])
	g, _, err := decodeGTree(rt, enc)
	if err != nil {
		return nil
	}
	var out []Case
	add := func(h *gtree, b []int64) {
		root, err := rt.buildRoot(h)
		if err != nil {
			return
		}
		x := rt.export(root)
		e := h.encode(rt, nil)
		if fmtInts(x.enc) != fmtInts(e) {
			return
		}
		out = append(out, walkCase(2, b, e, "shrunk "+rt.ws.Types[h.ty%rt.ntypes()].Name))
	}
	// fewer stop bits
	if len(bits) > 0 {
		add(g, bits[:len(bits)-1])
		for i := range bits {
			if bits[i] != 0 {
				nb := append([]int64{}, bits...)
				nb[i] = 0
				add(g, nb)
			}
		}
	}
	// a subtree as the new root
	for _, ks := range g.kids {
		for _, k := range ks {
			if k.ty < rt.ntypes() && !rt.ws.Types[k.ty].Wrapper {
				add(k, bits)
			}
		}
	}
	// drop one child somewhere
	var rec func(n *gtree)
	var cands int
	rec = func(n *gtree) {
		for fi := range n.kids {
			for i := range n.kids[fi] {
				if cands > 40 {
					return
				}
				saved := n.kids[fi]
				n.kids[fi] = append(append([]*gtree{}, saved[:i]...), saved[i+1:]...)
				cands++
				add(g, bits)
				n.kids[fi] = saved
				rec(saved[i])
			}
		}
	}
	rec(g)
	return out
}

func walkClass(c Case, out []int64) string {
	rt, _ := getWalkRT()
	if len(out) < 2 || len(c.Args) < 2 {
		return "unbuildable"
	}
	bits, enc := takeList(c.Args[1:])
	src := "synthetic"
	if strings.HasPrefix(c.Note, "js.Parse") {
		src = "parsed"
	}
	pol := "descend-all"
	for _, b := range bits {
		if b != 0 {
			pol = "stops"
		}
	}
	s := src + "/" + pol + "/root=" + rt.ws.Types[int(enc[0])%rt.ntypes()].Name
	if out[0] == 0 {
		s += "/ill-typed"
	}
	if out[1] != 0 {
		s += "/panic"
	}
	return s
}

var walkModel = &Model{Name: "walk", Gen: walkGen, Impl: walkImpl, Shrink: walkShrink, Class: walkClass}

// ---- C18 oracle: reflection walk (independent of the model and of walk.go's table) --------------------

type oNode struct {
	key      oKey
	val      reflect.Value // the struct
	byValue  bool          // stored by value in an interface field (no address)
	direct   bool          // a struct field / slice element of its parent (not reached through a pointer)
	parent   *oNode
	zero     bool // a zero-valued struct value (placeholder of an unused alternative)
	where    string
	depth    int
	entered  int
	exited   int
	stopped  bool
	children []*oNode
}

type oKey struct {
	t reflect.Type
	p unsafe.Pointer
}

var inodeType = reflect.TypeOf((*js.INode)(nil)).Elem()
var scopeType = reflect.TypeOf(js.Scope{})
var varType = reflect.TypeOf(js.Var{})
var classElementType = reflect.TypeOf(js.ClassElement{})

// oracleCollect finds, by plain reflection over struct fields, pointers, interfaces and slices, every
// value that implements js.INode and is contained in the tree. Excluded by name: everything of type
// Scope / *Scope and Var.Link. ClassElement (the holder of one class member) is transparent.
func oracleCollect(v reflect.Value, parent *oNode, where string, all *[]*oNode, byKey map[oKey][]*oNode, problems *[]string, direct bool) {
	switch v.Kind() {
	case reflect.Interface:
		if v.IsNil() {
			return
		}
		e := v.Elem()
		// a struct value in an interface is a node as well (js.Parse stores DotExpr.Y that way); Walk
		// can only hand such a node over by value
		oracleCollect(e, parent, where, all, byKey, problems, false)
	case reflect.Ptr:
		if v.IsNil() {
			return
		}
		if v.Type().Elem() == scopeType {
			return
		}
		oracleCollect(v.Elem(), parent, where, all, byKey, problems, false)
	case reflect.Slice:
		if v.Type().Elem().Kind() == reflect.Uint8 {
			return
		}
		for i := 0; i < v.Len(); i++ {
			oracleCollect(v.Index(i), parent, where, all, byKey, problems, true)
		}
	case reflect.Struct:
		if v.Type() == scopeType {
			return
		}
		me := parent
		if reflect.PtrTo(v.Type()).Implements(inodeType) && v.Type() != classElementType {
			depth := 0
			if parent != nil {
				depth = parent.depth + 1
			}
			me = &oNode{parent: parent, val: v, zero: direct && v.IsZero(), where: where, depth: depth, direct: direct}
			me.key.t = v.Type()
			if v.CanAddr() {
				me.key.p = unsafe.Pointer(v.UnsafeAddr())
				byKey[me.key] = append(byKey[me.key], me)
			} else {
				me.byValue = true
			}
			*all = append(*all, me)
			if parent != nil {
				parent.children = append(parent.children, me)
			}
		}
		for i := 0; i < v.NumField(); i++ {
			sf := v.Type().Field(i)
			if v.Type() == varType && sf.Name == "Link" {
				continue
			}
			oracleCollect(v.Field(i), me, v.Type().Name()+"."+sf.Name, all, byKey, problems, true)
		}
	}
}

type oVisitor struct {
	st    *oState
	label int
}

type oEvent struct {
	exit  bool
	label int
	n     *oNode
	fl    string // "", "copy", "foreign", "nil", "value"
	tname string
}

type oState struct {
	byKey  map[oKey][]*oNode
	stop   map[int]bool // stop at the k-th Enter call
	calls  int
	events []oEvent
	open   []*oNode // nodes whose Enter returned a visitor and that were not exited yet
}

func (s *oState) identify(n js.INode) (*oNode, string, string) {
	rv := reflect.ValueOf(n)
	if rv.Kind() != reflect.Ptr {
		// a struct value: fine iff the tree itself stores this node by value
		if len(s.open) > 0 {
			if top := s.open[len(s.open)-1]; top.byValue && top.key.t == rv.Type() && shallowEq(top.val, rv) {
				return top, "", rv.Type().Name()
			}
			for _, c := range s.open[len(s.open)-1].children {
				if c.byValue && c.key.t == rv.Type() && c.entered == c.exited && shallowEq(c.val, rv) {
					return c, "", rv.Type().Name()
				}
			}
			for _, c := range s.open[len(s.open)-1].children {
				if c.byValue && c.key.t == rv.Type() && shallowEq(c.val, rv) {
					return c, "", rv.Type().Name()
				}
			}
		}
		return nil, "value", rv.Type().Name()
	}
	tn := rv.Type().Elem().Name()
	if rv.IsNil() {
		return nil, "nil", tn
	}
	var top *oNode
	if len(s.open) > 0 {
		top = s.open[len(s.open)-1]
	}
	if ons := s.byKey[oKey{rv.Type().Elem(), unsafe.Pointer(rv.Pointer())}]; len(ons) > 0 {
		// zero-size structs (EmptyStmt, DebuggerStmt, ...) share one address: take the innermost open
		// node itself (Exit) or its next child not entered yet (Enter)
		for _, c := range ons {
			if c == top && c.entered > c.exited {
				return c, "", tn
			}
		}
		for _, c := range ons {
			if c.parent == top && c.entered == 0 {
				return c, "", tn
			}
		}
		return ons[0], "", tn
	}
	// a shallow copy of a node of the tree?
	if top != nil {
		for _, c := range top.children {
			if !c.byValue && c.key.t == rv.Type().Elem() && shallowEq(c.val, rv.Elem()) {
				return c, "copy", tn
			}
		}
		if !top.byValue && top.key.t == rv.Type().Elem() && shallowEq(top.val, rv.Elem()) {
			return top, "copy", tn
		}
	}
	return nil, "foreign", tn
}

func (v *oVisitor) Enter(n js.INode) js.IVisitor {
	s := v.st
	on, fl, tn := s.identify(n)
	if fl == "copy" && on != nil && on.entered > 0 && len(s.open) > 0 {
		// several equal candidates (e.g. two zero values): take the first one not entered yet
		for _, c := range s.open[len(s.open)-1].children {
			if !c.byValue && c.key.t == on.key.t && c.entered == 0 && shallowEq(c.val, reflect.ValueOf(n).Elem()) {
				on = c
				break
			}
		}
	}
	s.events = append(s.events, oEvent{false, v.label, on, fl, tn})
	k := s.calls
	s.calls++
	if on != nil {
		on.entered++
	}
	if s.stop[k] {
		if on != nil {
			on.stopped = true
		}
		return nil
	}
	if on != nil {
		s.open = append(s.open, on)
	}
	return &oVisitor{st: s, label: k + 1}
}

func (v *oVisitor) Exit(n js.INode) {
	s := v.st
	on, fl, tn := s.identify(n)
	s.events = append(s.events, oEvent{true, v.label, on, fl, tn})
	if on != nil {
		on.exited++
		if len(s.open) > 0 && s.open[len(s.open)-1] == on {
			s.open = s.open[:len(s.open)-1]
		}
	}
}

// walkOracleOne checks the property text on one tree under one policy. It returns the number of nodes.
func walkOracleOne(root js.INode, src string, stops []int, rep *Report, seenTypes map[string]bool) int {
	var all []*oNode
	byKey := map[oKey][]*oNode{}
	var problems []string
	oracleCollect(reflect.ValueOf(root), nil, "root", &all, byKey, &problems, false)
	replay := func() map[string]interface{} {
		return map[string]interface{}{"source": src, "stop_at_enter_calls": stops}
	}
	for _, p := range problems {
		rep.Violate("walk:tree:"+p, "tree of "+q([]byte(src))+": "+p, replay())
	}
	for _, n := range all {
		seenTypes[n.key.t.Name()] = true
	}
	st := &oState{byKey: byKey, stop: map[int]bool{}}
	for _, k := range stops {
		st.stop[k] = true
	}
	if p := catch(func() { js.Walk(&oVisitor{st: st, label: 0}, root) }); p != nil {
		rep.Violate("walk:panic", fmt.Sprintf("Walk panicked on the tree of %q: %v", src, p), replay())
		return len(all)
	}
	// replay the events against the reflection tree
	var open []*oNode
	label := map[*oNode]int{} // label of the visitor Enter returned
	for i, e := range st.events {
		if e.n == nil {
			rep.Violate("walk:foreign:"+e.fl+":"+e.tname, fmt.Sprintf("event %d hands the visitor a %s %s that is not a node of the tree of %q", i, e.fl, e.tname, src), replay())
			continue
		}
		if e.fl == "copy" {
			// the visitor receives the address of a copy, not of the node in the tree
			chain := e.n.where
			for a := e.n; a.direct && a.parent != nil && a.parent.direct; a = a.parent {
				chain = a.parent.where + "/" + chain
			}
			rep.Violate("walk:copy:"+chain, fmt.Sprintf("the %s at %s is passed to the visitor as the address of a copy (loop variable), not of the node in the tree: a visitor that stores or mutates the node does not reach the tree; %q", e.tname, e.n.where, src), replay())
		}
		if !e.exit {
			// parent first: the parent is the innermost open node
			if e.n.parent != nil {
				if len(open) == 0 || open[len(open)-1] != e.n.parent {
					rep.Violate("walk:parent-first:"+e.tname, fmt.Sprintf("%s at %s entered while its parent is not the innermost open node; %q", e.tname, e.n.where, src), replay())
				}
			} else if len(open) != 0 {
				rep.Violate("walk:parent-first:root", "root entered inside another node", replay())
			}
			wantLabel := 0
			if len(open) > 0 {
				wantLabel = label[open[len(open)-1]]
			}
			if e.label != wantLabel {
				rep.Violate("walk:visitor:"+e.tname, fmt.Sprintf("%s entered through visitor %d, not the visitor %d its parent's Enter returned; %q", e.tname, e.label, wantLabel, src), replay())
			}
			if !e.n.stopped {
				open = append(open, e.n)
				label[e.n] = i2label(st, i)
			}
		} else {
			if len(open) == 0 || open[len(open)-1] != e.n {
				rep.Violate("walk:exit-order:"+e.tname, fmt.Sprintf("Exit of %s at %s while it is not the innermost open node; %q", e.tname, e.n.where, src), replay())
			} else {
				if e.label != label[e.n] {
					rep.Violate("walk:exit-visitor:"+e.tname, fmt.Sprintf("Exit of %s delivered to visitor %d, Enter returned visitor %d; %q", e.tname, e.label, label[e.n], src), replay())
				}
				open = open[:len(open)-1]
			}
		}
	}
	if len(open) != 0 {
		rep.Violate("walk:unbalanced", fmt.Sprintf("%d nodes never exited; %q", len(open), src), replay())
	}
	for _, n := range all {
		pruned := false
		for a := n.parent; a != nil; a = a.parent {
			if a.stopped || a.entered == 0 {
				pruned = true
			}
		}
		want := 1
		if pruned {
			want = 0
		}
		tn := n.key.t.Name()
		switch {
		case n.entered == want:
		case want == 1 && n.entered == 0 && n.zero:
			// a zero-valued struct that is the unused alternative of a union (ClassElement.Field of a
			// method, ClassElementName.PropertyName of a private name): not a node of the program
			rep.Histogram["zero-placeholder-not-visited:"+n.where]++
		case want == 1 && n.entered == 0:
			rep.Violate("walk:missed:"+n.where+":"+tn, fmt.Sprintf("%s at %s is contained in the tree but never passed to Enter; %q", tn, n.where, src), replay())
		case n.entered > 1:
			rep.Violate("walk:twice:"+n.where+":"+tn, fmt.Sprintf("%s at %s entered %d times; %q", tn, n.where, n.entered, src), replay())
		default:
			rep.Violate("walk:not-pruned:"+n.where+":"+tn, fmt.Sprintf("%s at %s entered although an ancestor's Enter returned nil; %q", tn, n.where, src), replay())
		}
		wantExit := 0
		if n.entered > 0 && !n.stopped {
			wantExit = n.entered
		}
		if n.exited != wantExit {
			rep.Violate("walk:exit-count:"+tn, fmt.Sprintf("%s at %s: %d Exit calls, expected %d; %q", tn, n.where, n.exited, wantExit, src), replay())
		}
	}
	return len(all)
}

// i2label: the visitor returned by the Enter that is event i carries the index of that Enter call + 1
func i2label(st *oState, i int) int {
	k := 0
	for j := 0; j < i; j++ {
		if !st.events[j].exit {
			k++
		}
	}
	return k + 1
}

func c18Oracle(r *Rng, tier string, rep *Report) {
	seen := map[string]bool{}
	run := func(src string, ast *js.AST, npol int) {
		n := walkOracleOne(ast, src, nil, rep, seen)
		rep.Eval("all:"+src, n > 1, "descend-everywhere")
		for k := 0; k < npol; k++ {
			var stops []int
			den := 2 + r.Intn(10)
			for i := 0; i < n; i++ {
				if r.Chance(1, den) {
					stops = append(stops, i)
				}
			}
			// fresh tree state is not needed: the visitor does not modify the tree
			walkOracleOne(ast, src, stops, rep, seen)
			rep.Eval(fmt.Sprintf("stop%v:%s", stops, src), n > 1 && len(stops) > 0, "stop-at-random-subset")
		}
	}
	for _, src := range walkCorpus {
		ast, err := walkParse(src)
		if err != nil {
			panic(fmt.Sprintf("corpus program does not parse: %q: %v", src, err))
		}
		run(src, ast, 6)
		// stop at every single Enter
		n := walkOracleOne(ast, src, nil, rep, seen)
		for k := 0; k < n; k++ {
			walkOracleOne(ast, src, []int{k}, rep, seen)
			rep.Eval(fmt.Sprintf("stop[%d]:%s", k, src), true, "stop-at-one-node")
		}
	}
	// every node type of the schema must occur in the corpus (otherwise the search is blind to it)
	rt, err := getWalkRT()
	if err != nil {
		panic(err)
	}
	var missing []string
	for _, t := range rt.ws.Types {
		if !t.Wrapper && !seen[t.Name] {
			missing = append(missing, t.Name)
		}
	}
	if len(missing) > 0 {
		sort.Strings(missing)
		panic("the C18 corpus contains no node of type(s) " + strings.Join(missing, ", "))
	}
	k := 3
	nprog := 6000
	if tier == "thorough" {
		k, nprog = 4, 150000
	}
	allTokenStrings(k, func(src string) {
		if ast, err := walkParse(src); err == nil && ast != nil {
			run(src, ast, 1)
		}
	})
	for i := 0; i < nprog; i++ {
		g := &jsGen{r: r}
		src := g.module(2 + i%4)
		if i%3 == 2 {
			src = mutateJS(r, src)
		}
		if ast, err := walkParse(src); err == nil && ast != nil {
			run(src, ast, 2)
		} else {
			rep.Histogram["generated-program-rejected-by-parser"]++
		}
	}
}

func init() {
	props["C18"] = &PropSpec{
		Models:  []*Model{walkModel},
		Oracles: []*Oracle{{Name: "walk-reflection", Run: c18Oracle}},
	}
}
