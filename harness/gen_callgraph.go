package main

import (
	"fmt"
	"go/ast"
	"go/parser"
	"go/token"
	"sort"
	"strings"

	"github.com/tdewolff/parse/v2/js"
)

// T4: call graph and nesting guards of the JS parser (/repo/js/parse.go) as Gen/CallGraph.v.
//
// Nodes are the methods of *Parser (and the package-level functions of parse.go that call them).
// A node is *guarded* by counter c when its body starts with
//     p.c++ ; if <Limit> < p.c { ...; return }
// The translator also checks the discipline that makes "counter = number of active guarded frames" true:
//   - in a guarded function every `p.c--` is directly followed by a return, or is the body of a deferred closure;
//   - elsewhere `p.c++` / `p.c--` only occur as a balanced pair around one statement;
//   - the counter is never assigned.
// Anything else is a translation failure.

type cgFunc struct {
	name    string
	decl    *ast.FuncDecl
	recv    string
	guard   string // counter name or ""
	limit   string // limit identifier
	callees map[string]bool
}

func selIs(e ast.Expr, recv, field string) bool {
	s, ok := e.(*ast.SelectorExpr)
	if !ok {
		return false
	}
	id, ok := s.X.(*ast.Ident)
	return ok && id.Name == recv && (field == "" || s.Sel.Name == field)
}

func genCallGraph(out string) error {
	fset := token.NewFileSet()
	f, err := parser.ParseFile(fset, repoRoot+"/js/parse.go", nil, 0)
	if err != nil {
		return err
	}
	counters := []string{"stmtLevel", "exprLevel"}
	isCounter := func(n string) bool { return n == "stmtLevel" || n == "exprLevel" }
	funcs := map[string]*cgFunc{}
	var order []string
	for _, d := range f.Decls {
		fd, ok := d.(*ast.FuncDecl)
		if !ok || fd.Body == nil {
			continue
		}
		cf := &cgFunc{name: fd.Name.Name, decl: fd, callees: map[string]bool{}}
		if fd.Recv != nil && len(fd.Recv.List) == 1 {
			if st, ok := fd.Recv.List[0].Type.(*ast.StarExpr); ok {
				if id, ok := st.X.(*ast.Ident); ok && id.Name == "Parser" && len(fd.Recv.List[0].Names) == 1 {
					cf.recv = fd.Recv.List[0].Names[0].Name
				}
			}
			if cf.recv == "" {
				continue // methods of other types (Options etc.) are not part of the recursion skeleton
			}
		}
		funcs[cf.name] = cf
		order = append(order, cf.name)
	}
	sort.Strings(order)
	// guards
	for _, cf := range funcs {
		if cf.recv == "" {
			continue
		}
		b := cf.decl.Body.List
		if len(b) >= 2 {
			if inc, ok := b[0].(*ast.IncDecStmt); ok && inc.Tok == token.INC {
				if s, ok := inc.X.(*ast.SelectorExpr); ok && selIs(inc.X, cf.recv, "") && isCounter(s.Sel.Name) {
					ifs, ok := b[1].(*ast.IfStmt)
					if !ok {
						return fmt.Errorf("%s: counter increment not followed by the limit test", cf.name)
					}
					be, ok := ifs.Cond.(*ast.BinaryExpr)
					if !ok || be.Op != token.LSS || !selIs(be.Y, cf.recv, s.Sel.Name) {
						return fmt.Errorf("%s: limit test has an unrecognised shape", cf.name)
					}
					lim, ok := be.X.(*ast.Ident)
					if !ok {
						return fmt.Errorf("%s: limit is not an identifier", cf.name)
					}
					// the then-branch must end in a return
					if n := len(ifs.Body.List); n == 0 {
						return fmt.Errorf("%s: empty limit branch", cf.name)
					} else if _, ok := ifs.Body.List[n-1].(*ast.ReturnStmt); !ok {
						return fmt.Errorf("%s: limit branch does not return", cf.name)
					}
					cf.guard, cf.limit = s.Sel.Name, lim.Name
				}
			}
		}
	}
	// calls and counter discipline
	for _, cf := range funcs {
		var walkErr error
		recv := cf.recv
		ast.Inspect(cf.decl.Body, func(n ast.Node) bool {
			switch x := n.(type) {
			case *ast.CallExpr:
				if s, ok := x.Fun.(*ast.SelectorExpr); ok {
					if id, ok := s.X.(*ast.Ident); ok && recv != "" && id.Name == recv {
						if _, ok := funcs[s.Sel.Name]; ok {
							cf.callees[s.Sel.Name] = true
						}
					} else if ok && id.Name != recv {
						// calls on a local *Parser (e.g. in Parse): p := &Parser{...}; p.parseModule()
						if t, ok := funcs[s.Sel.Name]; ok && t.recv != "" {
							cf.callees[s.Sel.Name] = true
						}
					}
				} else if id, ok := x.Fun.(*ast.Ident); ok {
					if t, ok := funcs[id.Name]; ok && t.recv == "" {
						cf.callees[id.Name] = true
					}
				}
			case *ast.AssignStmt:
				for _, l := range x.Lhs {
					if s, ok := l.(*ast.SelectorExpr); ok && isCounter(s.Sel.Name) {
						walkErr = fmt.Errorf("%s: counter %s is assigned", cf.name, s.Sel.Name)
					}
				}
			case *ast.BlockStmt:
				for i, st := range x.List {
					inc, ok := st.(*ast.IncDecStmt)
					if !ok {
						continue
					}
					s, ok := inc.X.(*ast.SelectorExpr)
					if !ok || !isCounter(s.Sel.Name) {
						continue
					}
					guardedHere := cf.guard == s.Sel.Name
					if inc.Tok == token.INC {
						if guardedHere && i == 0 && x == cf.decl.Body {
							continue // the guard itself
						}
						// balanced pair around one statement
						if i+2 < len(x.List) {
							if dec, ok := x.List[i+2].(*ast.IncDecStmt); ok && dec.Tok == token.DEC && selIs(dec.X, recv, s.Sel.Name) {
								continue
							}
						}
						walkErr = fmt.Errorf("%s: unbalanced %s++", cf.name, s.Sel.Name)
					} else {
						if guardedHere {
							if i+1 < len(x.List) {
								if _, ok := x.List[i+1].(*ast.ReturnStmt); ok {
									continue
								}
							}
							if len(x.List) == 1 {
								continue // body of a deferred closure: checked below
							}
							walkErr = fmt.Errorf("%s: %s-- is not an exit decrement", cf.name, s.Sel.Name)
						} else {
							if i >= 2 {
								if inc2, ok := x.List[i-2].(*ast.IncDecStmt); ok && inc2.Tok == token.INC && selIs(inc2.X, recv, s.Sel.Name) {
									continue
								}
							}
							walkErr = fmt.Errorf("%s: unbalanced %s--", cf.name, s.Sel.Name)
						}
					}
				}
			}
			return true
		})
		if walkErr != nil {
			return walkErr
		}
	}
	// Recursion on an already built tree: exprToBinding / exprToBindingElement walk down an expression that the
	// guarded functions have just built, so their depth is bounded by the depth of that tree (itself bounded by the
	// number of frames that built it). Their mutual edges are structural recursion, not parser recursion; they are
	// listed separately (cg_structural_edges) and left out of cg_edges. Any other function appearing here is an error.
	structural := map[string]bool{"exprToBinding": true, "exprToBindingElement": true}
	var structEdges [][2]string
	for _, n := range order {
		if !structural[n] {
			continue
		}
		for c := range funcs[n].callees {
			if structural[c] {
				structEdges = append(structEdges, [2]string{n, c})
				delete(funcs[n].callees, c)
			}
		}
	}
	// node numbering
	idx := map[string]int{}
	for i, n := range order {
		idx[n] = i
	}
	guarded := func(n string) bool { return funcs[n].guard != "" }
	// longest path (rank) in the subgraph of unguarded nodes; cycle => no certificate (all zero)
	rank := map[string]int{}
	state := map[string]int{}
	cyclic := false
	var cycleAt string
	var dfs func(n string) int
	dfs = func(n string) int {
		if state[n] == 2 {
			return rank[n]
		}
		if state[n] == 1 {
			cyclic = true
			cycleAt = n
			return 0
		}
		state[n] = 1
		r := 0
		var cs []string
		for c := range funcs[n].callees {
			cs = append(cs, c)
		}
		sort.Strings(cs)
		for _, c := range cs {
			if guarded(c) {
				continue
			}
			if v := dfs(c) + 1; v > r {
				r = v
			}
		}
		state[n] = 2
		rank[n] = r
		return r
	}
	for _, n := range order {
		if !guarded(n) {
			dfs(n)
		}
	}
	limits := map[string]int{"NestedStmtLimit": js.NestedStmtLimit, "NestedExprLimit": js.NestedExprLimit}
	var sb strings.Builder
	sb.WriteString("(* GENERATED by harness gen callgraph from /repo/js/parse.go. Do not edit. *)\n")
	sb.WriteString("From Coq Require Import List Arith.\nImport ListNotations.\n\n")
	sb.WriteString("(* nodes:\n")
	for i, n := range order {
		g := ""
		if funcs[n].guard != "" {
			g = "   guarded by " + funcs[n].guard + " < " + funcs[n].limit
		}
		fmt.Fprintf(&sb, "   %d %s%s\n", i, n, g)
	}
	if cyclic {
		fmt.Fprintf(&sb, "   UNGUARDED CYCLE through %s: no rank certificate exists\n", cycleAt)
	}
	sb.WriteString("*)\n")
	fmt.Fprintf(&sb, "Definition cg_nodes : nat := %d.\n", len(order))
	sb.WriteString("Definition cg_edges : list (nat * nat) :=\n  [")
	first := true
	for _, n := range order {
		var cs []string
		for c := range funcs[n].callees {
			cs = append(cs, c)
		}
		sort.Strings(cs)
		for _, c := range cs {
			if !first {
				sb.WriteString("; ")
			}
			first = false
			fmt.Fprintf(&sb, "(%d, %d)", idx[n], idx[c])
		}
	}
	sb.WriteString("].\n")
	sort.Slice(structEdges, func(i, j int) bool { return structEdges[i][0]+structEdges[i][1] < structEdges[j][0]+structEdges[j][1] })
	sb.WriteString("Definition cg_structural_edges : list (nat * nat) := [")
	for i, e := range structEdges {
		if i > 0 {
			sb.WriteString("; ")
		}
		fmt.Fprintf(&sb, "(%d, %d)", idx[e[0]], idx[e[1]])
	}
	sb.WriteString("].\n")
	sb.WriteString("Definition cg_guard : list (option nat) :=\n  [")
	for i, n := range order {
		if i > 0 {
			sb.WriteString("; ")
		}
		switch funcs[n].guard {
		case "":
			sb.WriteString("None")
		default:
			for ci, c := range counters {
				if c == funcs[n].guard {
					fmt.Fprintf(&sb, "Some %d", ci)
				}
			}
		}
	}
	sb.WriteString("].\n")
	// limit per counter: the limit identifier used by the guards of that counter (must be unique)
	sb.WriteString("Definition cg_limits : list nat := [")
	for ci, c := range counters {
		lim := ""
		for _, n := range order {
			if funcs[n].guard == c {
				if lim != "" && lim != funcs[n].limit {
					return fmt.Errorf("counter %s is compared with two different limits", c)
				}
				lim = funcs[n].limit
			}
		}
		if ci > 0 {
			sb.WriteString("; ")
		}
		v, ok := limits[lim]
		if !ok {
			return fmt.Errorf("counter %s: unknown limit %q", c, lim)
		}
		fmt.Fprintf(&sb, "%d", v)
	}
	sb.WriteString("].\n")
	sb.WriteString("Definition cg_rank : list nat :=\n  [")
	for i, n := range order {
		if i > 0 {
			sb.WriteString("; ")
		}
		if cyclic {
			sb.WriteString("0")
		} else {
			fmt.Fprintf(&sb, "%d", rank[n])
		}
	}
	sb.WriteString("].\n")
	return writeIfChanged(out, []byte(sb.String()))
}

func init() { gens["callgraph"] = genCallGraph }
