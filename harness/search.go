package main

import (
	"encoding/hex"
	"fmt"
)

// Violation is a concrete failure of a property found on the implementation.
type Violation struct {
	Key    string                 `json:"key"`  // stable identity used by KNOWN_FINDINGS matching
	Desc   string                 `json:"desc"` // what fails
	Replay map[string]interface{} `json:"replay"`
}

// Report accumulates what an oracle explored.
type Report struct {
	Name        string         `json:"name"`
	Evaluations int            `json:"evaluations"`
	Nontrivial  int            `json:"nontrivial"`
	Violations  []Violation    `json:"violations"`
	Samples     []string       `json:"samples"`
	Histogram   map[string]int `json:"histogram"`
	seen        map[string]bool
	vseen       map[string]bool
}

func NewReport(name string) *Report {
	return &Report{Name: name, Violations: []Violation{}, Samples: []string{}, Histogram: map[string]int{}, seen: map[string]bool{}, vseen: map[string]bool{}}
}

// Eval records one evaluated case; key identifies the case (distinctness), nontrivial by the oracle's rule.
func (r *Report) Eval(key string, nontrivial bool, bucket string) {
	r.Evaluations++
	if nontrivial && len(r.seen) < 2000000 && !r.seen[key] {
		r.seen[key] = true
		r.Nontrivial++
	}
	if bucket != "" {
		r.Histogram[bucket]++
	}
	if len(r.Samples) < 5 && r.Evaluations%997 == 1 {
		r.Samples = append(r.Samples, trunc(key, 200))
	}
}

func (r *Report) Violate(key, desc string, replay map[string]interface{}) {
	if r.vseen[key] || len(r.Violations) >= 40 {
		return
	}
	r.vseen[key] = true
	r.Violations = append(r.Violations, Violation{Key: key, Desc: desc, Replay: replay})
}

// Oracle is a property-level executable check on the implementation (search, not proof).
type Oracle struct {
	Name string
	Run  func(r *Rng, tier string, rep *Report)
}

func hx(b []byte) string { return hex.EncodeToString(b) }

func q(b []byte) string { return fmt.Sprintf("%q", b) }

// catch runs f and returns the panic value, if any.
func catch(f func()) (p interface{}) {
	defer func() { p = recover() }()
	f()
	return nil
}

// allStrings enumerates all strings over alphabet of length <= k.
func allStrings(alphabet []byte, k int, f func([]byte)) {
	buf := make([]byte, 0, k)
	var rec func()
	rec = func() {
		cp := make([]byte, len(buf))
		copy(cp, buf)
		f(cp)
		if len(buf) == k {
			return
		}
		for _, c := range alphabet {
			buf = append(buf, c)
			rec()
			buf = buf[:len(buf)-1]
		}
	}
	rec()
}

func bytesToArgs(b []byte) []int64 {
	out := make([]int64, 0, len(b)+1)
	out = append(out, int64(len(b)))
	for _, c := range b {
		out = append(out, int64(c))
	}
	return out
}

// takeList reads a length-prefixed list from args.
func takeList(args []int64) ([]int64, []int64) {
	if len(args) == 0 {
		return nil, nil
	}
	n := int(args[0])
	if n > len(args)-1 {
		n = len(args) - 1
	}
	if n < 0 {
		n = 0
	}
	return args[1 : 1+n], args[1+n:]
}

func toBytes(v []int64) []byte {
	b := make([]byte, len(v))
	for i, x := range v {
		b[i] = byte(x)
	}
	return b
}
