// c20race: the C20 workload (N goroutines x every entry point on private data, results compared with a
// sequential baseline) as a stand-alone program, meant to be built with `go build -race`.
// The harness builds and runs it; a detected race is printed by the race runtime on stderr
// ("WARNING: DATA RACE") and turns the exit code into 66.
//
//	c20race -seed 1 -goroutines 8 -rounds 200 -procs 4
package main

import (
	"flag"
	"fmt"
	"os"
	"runtime"
	"sync"

	"verifharness/c20ep"
)

func main() {
	seed := flag.Uint64("seed", 1, "")
	ng := flag.Int("goroutines", 8, "")
	rounds := flag.Int("rounds", 100, "")
	procs := flag.Int("procs", 0, "")
	flag.Parse()
	if *procs > 0 {
		runtime.GOMAXPROCS(*procs)
	}
	type task struct {
		ep   int
		seed uint64
	}
	var tasks []task
	for r := 0; r < *rounds; r++ {
		for e := range c20ep.EPs {
			tasks = append(tasks, task{e, *seed*1000003 + uint64(r)*7919 + uint64(e)})
		}
	}
	base := make([]uint64, len(tasks))
	for i, t := range tasks {
		base[i], _ = c20ep.RunSafe(c20ep.EPs[t.ep], t.seed, func() {})
	}
	var wg sync.WaitGroup
	var mu sync.Mutex
	diffs := 0
	for g := 0; g < *ng; g++ {
		wg.Add(1)
		go func(g int) {
			defer wg.Done()
			// every goroutine runs every task, starting at a different offset
			for k := range tasks {
				i := (k*7 + g*13) % len(tasks)
				h, _ := c20ep.RunSafe(c20ep.EPs[tasks[i].ep], tasks[i].seed, runtime.Gosched)
				if h != base[i] {
					mu.Lock()
					diffs++
					if diffs <= 5 {
						fmt.Printf("DIFFERS ep=%s seed=%d\n", c20ep.EPs[tasks[i].ep].Name, tasks[i].seed)
					}
					mu.Unlock()
				}
			}
		}(g)
	}
	wg.Wait()
	fmt.Printf("DONE tasks=%d goroutines=%d diffs=%d\n", len(tasks), *ng, diffs)
	if diffs > 0 {
		os.Exit(3)
	}
}
