package main

import (
	"bytes"
	"encoding/base64"
	"fmt"
	"mime"
	"net/url"
	"os"
	"path/filepath"
	"regexp"
	"sort"
	"strconv"
	"strings"

	"github.com/tdewolff/parse/v2"
	"github.com/tdewolff/parse/v2/css"
	"github.com/tdewolff/parse/v2/html"
)

// ---- C16: Number / Dimension / URL / data URI / media type / small helpers / hash tables -------

func c16case(fn string, pre []int64, b []byte, note string) Case {
	args := append([]int64{}, pre...)
	args = append(args, bytesToArgs(b)...)
	return Case{Fn: fn, Args: args, Note: fmt.Sprintf("%s %v %q", note, pre, b)}
}

// repoCorpus returns the go-fuzz seed corpora kept under /repo/tests (the repository uses the same
// data-URI seeds for the number, dimension, data-uri and mediatype harnesses).
func repoCorpus() [][]byte {
	var out [][]byte
	seen := map[string]bool{}
	for _, d := range []string{"number", "dimension", "data-uri", "mediatype"} {
		files, _ := filepath.Glob(repoRoot + "/tests/" + d + "/corpus/*")
		sort.Strings(files)
		for _, f := range files {
			data, err := os.ReadFile(f)
			if err != nil || len(data) > 4000 || seen[string(data)] {
				continue
			}
			seen[string(data)] = true
			out = append(out, data)
		}
	}
	return out
}

// panicObs runs f; a panic becomes the observation [-1].
func panicObs(f func() []int64) (out []int64) {
	defer func() {
		if e := recover(); e != nil {
			out = []int64{-1}
		}
	}()
	return f()
}

func encBytes(b []byte) []int64 { return bytesToArgs(b) }

func b2i(b bool) int64 {
	if b {
		return 1
	}
	return 0
}

// ---- implementations -----------------------------------------------------------------------

func c16NumberImpl(c Case) []int64 {
	bv, _ := takeList(c.Args)
	b := toBytes(bv)
	return panicObs(func() []int64 { return []int64{int64(parse.Number(b))} })
}

func c16DimensionImpl(c Case) []int64 {
	bv, _ := takeList(c.Args)
	b := toBytes(bv)
	return panicObs(func() []int64 {
		n, u := parse.Dimension(b)
		return []int64{int64(n), int64(u)}
	})
}

// encodeStable: no byte the table marks is escaped into a hex digit that the table marks as well.
// EncodeURL re-reads the digits it has just written, so on other tables it may not terminate.
func encodeStable(t *[256]bool) bool {
	const hexd = "0123456789ABCDEF"
	for c := 0; c < 256; c++ {
		if t[c] && (t[hexd[c>>4]] || t[hexd[c&15]]) {
			return false
		}
	}
	return true
}

func c16Table(args []int64) (*[256]bool, []int64) {
	switch args[0] {
	case 0:
		t := parse.URLEncodingTable
		return &t, args[1:]
	case 1:
		t := parse.DataURIEncodingTable
		return &t, args[1:]
	}
	mv, rest := takeList(args[1:])
	var t [256]bool
	for _, m := range mv {
		t[byte(m)] = true
	}
	return &t, rest
}

func c16EncodeImpl(c Case) []int64 {
	t, rest := c16Table(c.Args)
	bv, _ := takeList(rest)
	b := toBytes(bv)
	if !encodeStable(t) {
		return []int64{-3} // never generated: the implementation may not terminate on such a table
	}
	return panicObs(func() []int64 {
		r := parse.EncodeURL(b, *t)
		return append([]int64{0}, bytesToArgs(r)[1:]...)
	})
}

func c16DecodeImpl(c Case) []int64 {
	bv, _ := takeList(c.Args)
	b := toBytes(bv)
	return panicObs(func() []int64 {
		r := parse.DecodeURL(b)
		return append([]int64{0}, bytesToArgs(r)[1:]...)
	})
}

func c16DataURIImpl(c Case) []int64 {
	bv, _ := takeList(c.Args)
	b := toBytes(bv)
	return panicObs(func() []int64 {
		mt, data, err := parse.DataURI(b)
		if err == nil {
			return append(append([]int64{0}, encBytes(mt)...), encBytes(data)...)
		}
		if err == parse.ErrBadDataURI {
			return []int64{1}
		}
		if _, ok := err.(base64.CorruptInputError); ok {
			return []int64{2}
		}
		return []int64{3}
	})
}

func c16MediatypeImpl(c Case) []int64 {
	bv, _ := takeList(c.Args)
	b := make([]byte, len(bv))
	copy(b, toBytes(bv))
	return panicObs(func() []int64 {
		mt, params := parse.Mediatype(b)
		off := cap(b) - cap(mt) // mt is a sub-slice of b that keeps b's capacity
		out := []int64{0, int64(off), int64(len(mt))}
		if params == nil {
			return append(out, 0)
		}
		keys := make([]string, 0, len(params))
		for k := range params {
			keys = append(keys, k)
		}
		sort.Strings(keys)
		out = append(out, 1, int64(len(keys)))
		for _, k := range keys {
			out = append(out, encBytes([]byte(k))...)
			out = append(out, encBytes([]byte(params[k]))...)
		}
		return out
	})
}

func c16UtilImpl(c Case) []int64 {
	op := c.Args[0]
	if op == 4 {
		ch := byte(c.Args[1])
		return []int64{b2i(parse.IsWhitespace(ch)), b2i(parse.IsNewline(ch))}
	}
	bv, rest := takeList(c.Args[1:])
	b := make([]byte, len(bv))
	copy(b, toBytes(bv))
	return panicObs(func() []int64 {
		switch op {
		case 0:
			return encBytes(parse.ToLower(b))
		case 1:
			tv, _ := takeList(rest)
			return []int64{b2i(parse.EqualFold(b, toBytes(tv)))}
		case 2:
			r := parse.TrimWhitespace(b)
			lo := cap(b) - cap(r)
			return []int64{int64(lo), int64(lo + len(r))}
		default:
			return []int64{b2i(parse.IsAllWhitespace(b))}
		}
	})
}

func c16HashImpl(c Case) []int64 {
	which, op := c.Args[0], c.Args[1]
	return panicObs(func() []int64 {
		if op == 0 {
			sv, _ := takeList(c.Args[2:])
			s := toBytes(sv)
			if which == 0 {
				h := css.ToHash(s)
				if h.String() != string(h.Bytes()) {
					return []int64{-777}
				}
				return append([]int64{int64(h)}, encBytes(h.Bytes())...)
			}
			h := html.ToHash(s)
			if h.String() != string(h.Bytes()) {
				return []int64{-777}
			}
			return append([]int64{int64(h)}, encBytes(h.Bytes())...)
		}
		h := uint32(c.Args[2])
		if which == 0 {
			return encBytes(css.Hash(h).Bytes())
		}
		return encBytes(html.Hash(h).Bytes())
	})
}

// ---- generators ------------------------------------------------------------------------------

func genNumberText(r *Rng) []byte {
	var b []byte
	digits := func(min int) {
		n := min + r.Intn(3)
		for i := 0; i < n; i++ {
			b = append(b, byte('0'+r.Intn(10)))
		}
	}
	if r.Chance(1, 3) {
		b = append(b, r.Pick([]byte("+-")))
	}
	switch r.Intn(4) {
	case 0:
		digits(1)
	case 1:
		digits(1)
		b = append(b, '.')
		digits(1)
	case 2:
		b = append(b, '.')
		digits(1)
	default:
		digits(1)
		b = append(b, '.') // dangling dot
	}
	if r.Chance(1, 2) {
		b = append(b, r.Pick([]byte("eE")))
		if r.Chance(1, 2) {
			b = append(b, r.Pick([]byte("+-")))
		}
		digits(r.Intn(2)) // possibly no digits: dangling exponent
	}
	return b
}

func mutate(r *Rng, b []byte, alphabet []byte) []byte {
	b = append([]byte{}, b...)
	for k := r.Intn(3); k >= 0; k-- {
		switch r.Intn(4) {
		case 0:
			if len(b) > 0 {
				b[r.Intn(len(b))] = r.Pick(alphabet)
			}
		case 1:
			if len(b) > 0 {
				i := r.Intn(len(b))
				b = append(b[:i], b[i+1:]...)
			}
		case 2:
			i := r.Intn(len(b) + 1)
			b = append(b[:i], append([]byte{r.Pick(alphabet)}, b[i:]...)...)
		default:
			if len(b) > 0 {
				b = b[:r.Intn(len(b)+1)]
			}
		}
	}
	return b
}

func genDimensionText(r *Rng) []byte {
	b := genNumberText(r)
	switch r.Intn(5) {
	case 0:
		b = append(b, '%')
	case 1, 2:
		for n := 1 + r.Intn(3); n > 0; n-- {
			b = append(b, r.Pick([]byte("pxemPXzaAZ")))
		}
	case 3:
		b = append(b, r.Pick([]byte("@[`{ /09-")))
	}
	if r.Chance(1, 3) {
		b = append(b, r.Pick([]byte(" %a1;")))
	}
	return b
}

func genURLBytes(r *Rng, n int) []byte {
	b := make([]byte, n)
	for i := range b {
		switch r.Intn(4) {
		case 0:
			b[i] = byte(r.Intn(256))
		case 1:
			b[i] = r.Pick([]byte("%+ /?#&=;:,<>\"'\\^`{|}~\x7f\x00\x1f"))
		default:
			b[i] = r.Pick([]byte("abcxyzABCXYZ0123456789-_.~"))
		}
	}
	return b
}

func genEscaped(r *Rng) []byte {
	var b []byte
	for n := r.Intn(8); n > 0; n-- {
		switch r.Intn(6) {
		case 0, 1:
			b = append(b, '%', r.Pick([]byte("0123456789abcdefABCDEF")), r.Pick([]byte("0123456789abcdefABCDEF")))
		case 2:
			b = append(b, '%', r.Pick([]byte("0189afAFgG/:@`%+ \x00\xff")))
			if r.Bool() {
				b = append(b, r.Pick([]byte("0189afAFgG/:@`%+ \x00\xff")))
			}
		case 3:
			b = append(b, '+')
		case 4:
			b = append(b, byte(r.Intn(256)))
		default:
			b = append(b, r.Pick([]byte("abcXYZ019 ")))
		}
	}
	if r.Chance(1, 3) {
		b = append(b, []byte("%4")[:1+r.Intn(2)]...)
	}
	return b
}

func genMediaText(r *Rng) []byte {
	var b []byte
	tok := func(alpha string, min int) {
		for n := min + r.Intn(5); n > 0; n-- {
			b = append(b, alpha[r.Intn(len(alpha))])
		}
	}
	sp := func() {
		for r.Chance(1, 3) {
			b = append(b, ' ')
		}
	}
	sp()
	if r.Chance(5, 6) {
		tok("abcdefxyz", 1)
		b = append(b, '/')
		tok("abcdefxyz+-.", 1)
	}
	for n := r.Intn(4); n > 0; n-- {
		sp()
		b = append(b, ';')
		sp()
		if r.Chance(1, 8) {
			b = append(b, "base64"...)
		} else {
			tok("abckq", r.Intn(2))
		}
		if r.Chance(3, 4) {
			if r.Chance(1, 5) {
				sp()
			}
			b = append(b, '=')
			if r.Chance(1, 5) {
				sp()
			}
			tok("UTF-8abc019=", r.Intn(2))
		}
	}
	sp()
	return b
}

func genDataURI(r *Rng) []byte {
	b := []byte("data:")
	if r.Chance(1, 20) {
		b = []byte(r.PickStr([]string{"data", "dat:", "Data:", "data;", "", "data:"}))
	}
	m := genMediaText(r)
	if r.Chance(1, 2) {
		m = bytes.ReplaceAll(m, []byte(" "), nil)
	}
	b = append(b, m...)
	payload := genURLBytes(r, r.Intn(10))
	if r.Chance(1, 2) {
		if r.Chance(5, 6) {
			b = append(b, ";base64"...)
		}
		enc := []byte(base64.StdEncoding.EncodeToString(payload))
		switch r.Intn(8) {
		case 0:
			enc = mutate(r, enc, []byte("=A\n\r!/+ z"))
		case 1:
			enc = bytes.TrimRight(enc, "=")
		case 2:
			if len(enc) > 2 {
				i := r.Intn(len(enc))
				enc = append(enc[:i], append([]byte(r.PickStr([]string{"\n", "\r\n", "\r"})), enc[i:]...)...)
			}
		case 3:
			enc = append(enc, r.PickStr([]string{"\n", "=", "A", "\r\n\n", "=="})...)
		}
		if r.Chance(9, 10) {
			b = append(b, ',')
		}
		b = append(b, enc...)
	} else {
		if r.Chance(9, 10) {
			b = append(b, ',')
		}
		switch r.Intn(3) {
		case 0:
			b = append(b, parse.EncodeURL(payload, parse.URLEncodingTable)...)
		case 1:
			b = append(b, parse.EncodeURL(payload, parse.DataURIEncodingTable)...)
		default:
			b = append(b, genEscaped(r)...)
		}
	}
	if r.Chance(1, 6) {
		b = mutate(r, b, []byte(";,= %+abase64:\x00\xff"))
	}
	return b
}

func catTokens(toks []string, idx []int) []byte {
	var b []byte
	for _, i := range idx {
		b = append(b, toks[i]...)
	}
	return b
}

// allSeqs enumerates all index sequences of length <= k over n symbols.
func allSeqs(n, k int, f func([]int)) {
	idx := make([]int, 0, k)
	var rec func()
	rec = func() {
		f(idx)
		if len(idx) == k {
			return
		}
		for i := 0; i < n; i++ {
			idx = append(idx, i)
			rec()
			idx = idx[:len(idx)-1]
		}
	}
	rec()
}

func tierN(tier string, quick, thorough int) int {
	if tier == "thorough" {
		return thorough
	}
	return quick
}

func shrinkBytesCase(pre int) func(c Case) []Case {
	// cases of the shape <pre fixed ints> |b| b [rest]
	return func(c Case) []Case {
		if len(c.Args) < pre {
			return nil
		}
		bv, rest := takeList(c.Args[pre:])
		var out []Case
		mk := func(nb []int64) {
			args := append([]int64{}, c.Args[:pre]...)
			args = append(args, int64(len(nb)))
			args = append(args, nb...)
			args = append(args, rest...)
			out = append(out, Case{Fn: c.Fn, Args: args, Note: fmt.Sprintf("shrunk %v %q", c.Args[:pre], toBytes(nb))})
		}
		for i := range bv {
			mk(append(append([]int64{}, bv[:i]...), bv[i+1:]...))
		}
		for i, x := range bv {
			if x != 'a' && x > 127 {
				nb := append([]int64{}, bv...)
				nb[i] = 'a'
				mk(nb)
			}
		}
		return out
	}
}

var c16NumberModel = &Model{
	Name: "c16_number",
	Gen: func(r *Rng, tier string, emit func(Case)) {
		for _, d := range repoCorpus() {
			emit(c16case("c16_number", nil, d, "repo-corpus"))
		}
		allStrings([]byte("+-.eE09a"), tierN(tier, 5, 6), func(b []byte) { emit(c16case("c16_number", nil, b, "exhaustive")) })
		for i := 0; i < tierN(tier, 4000, 200000); i++ {
			b := genNumberText(r)
			if i%3 == 0 {
				b = mutate(r, b, []byte("+-.eE059ax \x00\xff"))
			}
			if i%5 == 0 {
				b = append(b, genNumberText(r)...)
			}
			emit(c16case("c16_number", nil, b, "structured"))
		}
	},
	Impl:   c16NumberImpl,
	Shrink: shrinkBytesCase(0),
	Class: func(c Case, out []int64) string {
		bv, _ := takeList(c.Args)
		switch {
		case len(out) == 1 && out[0] == -1:
			return "panic"
		case out[0] == 0:
			return "none"
		case int(out[0]) == len(bv):
			return "whole"
		}
		return "prefix"
	},
}

var c16DimensionModel = &Model{
	Name: "c16_dimension",
	Gen: func(r *Rng, tier string, emit func(Case)) {
		for _, d := range repoCorpus() {
			emit(c16case("c16_dimension", nil, d, "repo-corpus"))
		}
		allStrings([]byte("+.e5%pX "), tierN(tier, 4, 6), func(b []byte) { emit(c16case("c16_dimension", nil, b, "exhaustive")) })
		// every byte value directly after a number
		for c := 0; c < 256; c++ {
			emit(c16case("c16_dimension", nil, []byte{'1', byte(c)}, "unit-byte"))
			emit(c16case("c16_dimension", nil, []byte{'1', 'p', byte(c), 'x'}, "unit-byte"))
		}
		for i := 0; i < tierN(tier, 3000, 200000); i++ {
			b := genDimensionText(r)
			if i%4 == 0 {
				b = mutate(r, b, []byte("+-.eE5%pxAZ@[`{ \x00\xff"))
			}
			emit(c16case("c16_dimension", nil, b, "structured"))
		}
	},
	Impl:   c16DimensionImpl,
	Shrink: shrinkBytesCase(0),
	Class: func(c Case, out []int64) string {
		switch {
		case len(out) == 1:
			return "panic"
		case out[0] == 0:
			return "no-number"
		case out[1] == 0:
			return "no-unit"
		case out[1] == 1:
			return "unit-1"
		}
		return "unit-n"
	},
}

func genStableTable(r *Rng) []int64 {
	for {
		var t [256]bool
		var marked []int64
		n := r.Intn(40)
		for i := 0; i < n; i++ {
			c := r.Intn(256)
			if r.Chance(1, 3) {
				c = int(r.Pick([]byte("%+ aZ09AF/")))
			}
			if !t[c] {
				t[c] = true
				marked = append(marked, int64(c))
			}
		}
		if encodeStable(&t) {
			return marked
		}
	}
}

var c16EncodeModel = &Model{
	Name: "c16_encode",
	Gen: func(r *Rng, tier string, emit func(Case)) {
		for tid := int64(0); tid < 2; tid++ {
			for c := 0; c < 256; c++ {
				emit(c16case("c16_encode", []int64{tid}, []byte{byte(c)}, "single"))
				emit(c16case("c16_encode", []int64{tid}, []byte{'a', byte(c), byte(c), 'b'}, "single"))
			}
			allStrings([]byte("a% +\xe9"), tierN(tier, 4, 6), func(b []byte) { emit(c16case("c16_encode", []int64{tid}, b, "exhaustive")) })
		}
		for i := 0; i < tierN(tier, 3000, 100000); i++ {
			b := genURLBytes(r, r.Intn(14))
			switch i % 3 {
			case 0, 1:
				emit(c16case("c16_encode", []int64{int64(i % 3)}, b, "random"))
			default:
				m := genStableTable(r)
				pre := append([]int64{2, int64(len(m))}, m...)
				emit(c16case("c16_encode", pre, b, "custom-table"))
			}
		}
	},
	Impl: c16EncodeImpl,
	Class: func(c Case, out []int64) string {
		t := []string{"url", "datauri", "custom"}[c.Args[0]]
		if out[0] != 0 {
			return t + "/abnormal"
		}
		n := 0
		for _, x := range out[1:] {
			if x == '%' {
				n++
			}
		}
		if n == 0 {
			return t + "/unchanged"
		}
		return t + "/escaped"
	},
}

var c16DecodeModel = &Model{
	Name: "c16_decode",
	Gen: func(r *Rng, tier string, emit func(Case)) {
		allStrings([]byte("%+4aFg"), tierN(tier, 5, 7), func(b []byte) { emit(c16case("c16_decode", nil, b, "exhaustive")) })
		// every byte value in both digit positions
		for c := 0; c < 256; c++ {
			emit(c16case("c16_decode", nil, []byte{'%', byte(c), '1', 'z'}, "digit"))
			emit(c16case("c16_decode", nil, []byte{'%', 'a', byte(c)}, "digit"))
			emit(c16case("c16_decode", nil, []byte{byte(c), '4', '1'}, "digit"))
		}
		for i := 0; i < tierN(tier, 4000, 200000); i++ {
			b := genEscaped(r)
			if i%4 == 0 {
				b = parse.EncodeURL(genURLBytes(r, r.Intn(10)), parse.URLEncodingTable)
			}
			emit(c16case("c16_decode", nil, b, "structured"))
		}
	},
	Impl:   c16DecodeImpl,
	Shrink: shrinkBytesCase(0),
	Class: func(c Case, out []int64) string {
		bv, _ := takeList(c.Args)
		switch {
		case out[0] != 0:
			return "abnormal"
		case len(out)-1 < len(bv):
			return "shrunk"
		case fmtInts(out[1:]) != fmtInts(bv):
			return "plus-only"
		}
		return "unchanged"
	},
}

var c16DataURIModel = &Model{
	Name: "c16_datauri",
	Gen: func(r *Rng, tier string, emit func(Case)) {
		for _, d := range repoCorpus() {
			emit(c16case("c16_datauri", nil, d, "repo-corpus"))
			for k := 0; k < 6; k++ {
				emit(c16case("c16_datauri", nil, mutate(r, d, []byte(";,= %+=\n")), "repo-corpus-mutated"))
			}
		}
		toks := []string{";", ",", "=", " ", "a", "base64"}
		allSeqs(len(toks), tierN(tier, 5, 7), func(idx []int) {
			emit(c16case("c16_datauri", nil, append([]byte("data:"), catTokens(toks, idx)...), "exhaustive-header"))
		})
		allStrings([]byte("AQ=\n!"), tierN(tier, 5, 7), func(b []byte) {
			emit(c16case("c16_datauri", nil, append([]byte("data:;base64,"), b...), "exhaustive-base64"))
		})
		for _, p := range []string{"", "d", "data", "data:", "data;,", "Data:,", "data:,", " data:,"} {
			emit(c16case("c16_datauri", nil, []byte(p), "scheme"))
		}
		for i := 0; i < tierN(tier, 6000, 300000); i++ {
			emit(c16case("c16_datauri", nil, genDataURI(r), "structured"))
		}
	},
	Impl:   c16DataURIImpl,
	Shrink: shrinkBytesCase(0),
	Class: func(c Case, out []int64) string {
		switch out[0] {
		case 0:
			bv, _ := takeList(c.Args)
			if bytes.Contains(toBytes(bv), []byte("base64")) {
				return "ok/base64-in-header"
			}
			return "ok/percent"
		case 1:
			return "ErrBadDataURI"
		case 2:
			return "base64-error"
		}
		return "abnormal"
	},
}

var c16MediatypeModel = &Model{
	Name: "c16_mediatype",
	Gen: func(r *Rng, tier string, emit func(Case)) {
		for _, d := range repoCorpus() {
			emit(c16case("c16_mediatype", nil, d, "repo-corpus"))
		}
		allStrings([]byte(" ;=a"), tierN(tier, 6, 8), func(b []byte) { emit(c16case("c16_mediatype", nil, b, "exhaustive")) })
		allStrings([]byte(" ;=a"), tierN(tier, 5, 7), func(b []byte) {
			emit(c16case("c16_mediatype", nil, append([]byte("t/x"), b...), "exhaustive-after-type"))
		})
		for i := 0; i < tierN(tier, 5000, 300000); i++ {
			b := genMediaText(r)
			if i%4 == 0 {
				b = mutate(r, b, []byte(" ;=a\xc3\xbf\x00"))
			}
			emit(c16case("c16_mediatype", nil, b, "structured"))
		}
	},
	Impl:   c16MediatypeImpl,
	Shrink: shrinkBytesCase(0),
	Class: func(c Case, out []int64) string {
		if out[0] != 0 {
			return "abnormal"
		}
		if out[3] == 0 {
			return "params-nil"
		}
		if out[4] > 3 {
			return "params-4+"
		}
		return "params-" + strconv.Itoa(int(out[4]))
	},
}

var wsAlphabet = []byte(" \n\ta\x0b")

var c16UtilModel = &Model{
	Name: "c16_util",
	Gen: func(r *Rng, tier string, emit func(Case)) {
		for c := 0; c < 256; c++ {
			emit(Case{Fn: "c16_util", Args: []int64{4, int64(c)}, Note: fmt.Sprintf("IsWhitespace/IsNewline %d", c)})
			emit(c16case("c16_util", []int64{0}, []byte{byte(c)}, "ToLower"))
			emit(c16case("c16_util", []int64{2}, []byte{byte(c), 'a', byte(c)}, "Trim"))
			emit(c16case("c16_util", []int64{3}, []byte{' ', byte(c)}, "AllWs"))
			// EqualFold: every s byte against the interesting target bytes
			for _, t := range []int{c, c + 32, c - 32, c ^ 0x20, 'a', 'z', '@', '[', '`', '{', 0, 255} {
				if t < 0 || t > 255 {
					continue
				}
				args := []int64{1, 1, int64(c), 1, int64(t)}
				emit(Case{Fn: "c16_util", Args: args, Note: fmt.Sprintf("EqualFold %q %q", []byte{byte(c)}, []byte{byte(t)})})
			}
		}
		allStrings(wsAlphabet, tierN(tier, 5, 7), func(b []byte) {
			emit(c16case("c16_util", []int64{2}, b, "Trim"))
			if len(b) <= 4 {
				emit(c16case("c16_util", []int64{3}, b, "AllWs"))
			}
		})
		for i := 0; i < tierN(tier, 3000, 100000); i++ {
			n := r.Intn(10)
			s := make([]byte, n)
			for k := range s {
				if r.Chance(1, 4) {
					s[k] = byte(r.Intn(256))
				} else {
					s[k] = r.Pick([]byte("abzABZ@[`{09-_"))
				}
			}
			switch i % 3 {
			case 0:
				emit(c16case("c16_util", []int64{0}, s, "ToLower"))
			default:
				t := bytes.ToLower(s)
				switch r.Intn(5) {
				case 0:
					t = mutate(r, t, []byte("abzABZ@[`{"))
				case 1:
					t = append([]byte{}, s...)
				case 2:
					t = bytes.ToUpper(s)
				}
				args := append([]int64{1}, bytesToArgs(s)...)
				args = append(args, bytesToArgs(t)...)
				emit(Case{Fn: "c16_util", Args: args, Note: fmt.Sprintf("EqualFold %q %q", s, t)})
			}
		}
	},
	Impl: c16UtilImpl,
	Class: func(c Case, out []int64) string {
		name := []string{"ToLower", "EqualFold", "Trim", "AllWs", "Tables"}[c.Args[0]]
		if len(out) == 1 && out[0] == -1 {
			return name + "/panic"
		}
		switch c.Args[0] {
		case 1, 3:
			return fmt.Sprintf("%s/%d", name, out[0])
		case 2:
			if out[0] == out[1] {
				return name + "/empty"
			}
			if out[0] == 0 && int(out[1]) == int(c.Args[1]) {
				return name + "/unchanged"
			}
			return name + "/trimmed"
		}
		return name
	},
}

func hashTexts(path string, bytesOf func(uint32) []byte) [][]byte {
	cs, err := hashConsts(path)
	if err != nil {
		panic(err)
	}
	var out [][]byte
	for _, c := range cs {
		v, _ := strconv.ParseUint(c[1], 10, 32)
		out = append(out, bytesOf(uint32(v)))
	}
	return out
}

func cssTexts() [][]byte {
	return hashTexts(repoRoot+"/css/hash.go", func(h uint32) []byte { return css.Hash(h).Bytes() })
}
func htmlTexts() [][]byte {
	return hashTexts(repoRoot+"/html/hash.go", func(h uint32) []byte { return html.Hash(h).Bytes() })
}

// neighbours of a member text: itself, case changes, one-byte edits, prefixes, extensions
func hashNeighbours(r *Rng, t []byte, f func([]byte)) {
	f(t)
	f(bytes.ToUpper(t))
	f(append(append([]byte{}, t...), 's'))
	f(append([]byte{'x'}, t...))
	for i := 0; i <= len(t); i++ {
		f(t[:i])
		f(t[i:])
	}
	for i := range t {
		m := append([]byte{}, t...)
		m[i] ^= 0x20
		f(m)
		m = append([]byte{}, t...)
		m[i] = byte(r.Intn(256))
		f(m)
	}
}

var c16HashModel = &Model{
	Name: "c16_hash",
	Gen: func(r *Rng, tier string, emit func(Case)) {
		texts := [][][]byte{cssTexts(), htmlTexts()}
		var text [2][]byte
		text[0], text[1] = css.VerifHashText(), html.VerifHashText()
		for which := int64(0); which < 2; which++ {
			for _, t := range texts[which] {
				hashNeighbours(r, t, func(s []byte) { emit(c16case("c16_hash", []int64{which, 0}, s, "neighbour")) })
			}
			// members of the other table are non-members here
			for _, t := range texts[1-which] {
				emit(c16case("c16_hash", []int64{which, 0}, t, "other-table"))
			}
			allStrings([]byte("aeimpst-"), tierN(tier, 4, 6), func(s []byte) { emit(c16case("c16_hash", []int64{which, 0}, s, "exhaustive")) })
			// any substring of the text blob (only the listed ones are members)
			tx := text[which]
			for i := 0; i < len(tx); i++ {
				for j := i + 1; j <= len(tx) && j-i <= 11; j++ {
					emit(c16case("c16_hash", []int64{which, 0}, tx[i:j], "substring"))
				}
			}
			for i := 0; i < tierN(tier, 1500, 100000); i++ {
				n := 1 + r.Intn(11)
				s := make([]byte, n)
				for k := range s {
					if r.Chance(1, 6) {
						s[k] = byte(r.Intn(256))
					} else {
						s[k] = tx[r.Intn(len(tx))]
					}
				}
				emit(c16case("c16_hash", []int64{which, 0}, s, "random"))
			}
			// Hash.Bytes on arbitrary values: around the end of the text and uniform
			for i := 0; i < tierN(tier, 1500, 50000); i++ {
				var h uint32
				switch i % 3 {
				case 0:
					h = uint32(r.Intn(len(tx)+4))<<8 | uint32(r.Intn(14))
				case 1:
					h = uint32(r.U64())
				default:
					h = uint32(r.Intn(len(tx)+2))<<8 | uint32(r.Intn(256))
				}
				emit(Case{Fn: "c16_hash", Args: []int64{which, 1, int64(h)}, Note: fmt.Sprintf("Hash(%#x).Bytes()", h)})
			}
		}
	},
	Impl: c16HashImpl,
	Class: func(c Case, out []int64) string {
		t := []string{"css", "html"}[c.Args[0]]
		if c.Args[1] == 1 {
			if out[0] == 0 {
				return t + "/Bytes-empty"
			}
			return t + "/Bytes"
		}
		if len(out) == 1 {
			return t + "/panic"
		}
		if out[0] == 0 {
			return t + "/ToHash-0"
		}
		return t + "/ToHash-member"
	},
}

// ---- oracles: the property text checked directly on the implementation ------------------------

var numberRe = func() *regexp.Regexp {
	re := regexp.MustCompile(`^(\+|-)?([0-9]+(\.[0-9]+)?|\.[0-9]+)((e|E)(\+|-)?[0-9]+)?`)
	re.Longest()
	return re
}()
var unitRe = func() *regexp.Regexp {
	re := regexp.MustCompile(`^(%|[a-zA-Z]+)`)
	re.Longest()
	return re
}()

// latin1 maps bytes to runes so that regexp sees one character per byte.
func latin1(b []byte) string {
	rs := make([]rune, len(b))
	for i, c := range b {
		rs[i] = rune(c)
	}
	return string(rs)
}

func reLen(re *regexp.Regexp, b []byte) int {
	loc := re.FindStringIndex(latin1(b))
	if loc == nil {
		return 0
	}
	return len([]rune(latin1(b)[:loc[1]]))
}

func c16NumberOracle(r *Rng, tier string, rep *Report) {
	check := func(b []byte) {
		var n, dn, du int
		if p := catch(func() { n = parse.Number(append([]byte{}, b...)); dn, du = parse.Dimension(append([]byte{}, b...)) }); p != nil {
			rep.Violate("number-panic:"+hx(b), fmt.Sprintf("Number/Dimension(%q) panics: %v", b, p), map[string]interface{}{"input": hx(b)})
			return
		}
		want := reLen(numberRe, b)
		if n != want {
			rep.Violate("number:"+hx(b), fmt.Sprintf("Number(%q) = %d, longest regexp match is %d", b, n, want), map[string]interface{}{"input": hx(b), "got": n, "want": want})
		}
		wu := 0
		if want > 0 {
			wu = reLen(unitRe, b[want:])
		}
		if dn != want || du != wu {
			rep.Violate("dimension:"+hx(b), fmt.Sprintf("Dimension(%q) = %d,%d, want %d,%d", b, dn, du, want, wu), map[string]interface{}{"input": hx(b), "got": []int{dn, du}, "want": []int{want, wu}})
		}
		bucket := "none"
		if want > 0 {
			bucket = "number"
			if wu > 0 {
				bucket = "dimension"
			}
		}
		rep.Eval(hx(b), want > 0 && want < len(b), bucket)
	}
	allStrings([]byte("+-.eE09a%"), tierN(tier, 5, 7), check)
	for i := 0; i < tierN(tier, 30000, 1000000); i++ {
		b := genDimensionText(r)
		if i%3 == 0 {
			b = mutate(r, b, []byte("+-.eE059%pxAZ@[`{ \x00\xff"))
		}
		if i%7 == 0 {
			b = append(b, genDimensionText(r)...)
		}
		check(b)
	}
}

func refEncode(b []byte, t *[256]bool) []byte {
	var out []byte
	for _, c := range b {
		if t[c] {
			out = append(out, '%', "0123456789ABCDEF"[c>>4], "0123456789ABCDEF"[c&15])
		} else {
			out = append(out, c)
		}
	}
	return out
}

func c16URLOracle(r *Rng, tier string, rep *Report) {
	url := parse.URLEncodingTable
	duri := parse.DataURIEncodingTable
	for _, t := range []*[256]bool{&url, &duri} {
		if !encodeStable(t) {
			rep.Violate("encode-table-unstable", "an encoding table marks a hex digit that EncodeURL itself writes: EncodeURL does not terminate", nil)
			return
		}
	}
	if !url['%'] || !url['+'] {
		rep.Violate("url-table-%+", "URLEncodingTable does not mark '%' or '+': DecodeURL cannot invert EncodeURL", nil)
	}
	enc := func(b []byte, t *[256]bool, name string) []byte {
		var e []byte
		if p := catch(func() { e = parse.EncodeURL(append([]byte{}, b...), *t) }); p != nil {
			rep.Violate("encode-panic:"+name+":"+hx(b), fmt.Sprintf("EncodeURL(%q, %s) panics: %v", b, name, p), map[string]interface{}{"input": hx(b)})
			return nil
		}
		if want := refEncode(b, t); !bytes.Equal(e, want) {
			rep.Violate("encode:"+name+":"+hx(b), fmt.Sprintf("EncodeURL(%q, %s) = %q, escaping exactly the marked bytes gives %q", b, name, e, want), map[string]interface{}{"input": hx(b), "table": name})
		}
		return e
	}
	dec := func(b []byte) []byte {
		var d []byte
		if p := catch(func() { d = parse.DecodeURL(append([]byte{}, b...)) }); p != nil {
			rep.Violate("decode-panic:"+hx(b), fmt.Sprintf("DecodeURL(%q) panics: %v", b, p), map[string]interface{}{"input": hx(b)})
			return nil
		}
		return d
	}
	roundtrip := func(b []byte) {
		e := enc(b, &url, "URLEncodingTable")
		if d := dec(e); !bytes.Equal(d, b) {
			rep.Violate("url-roundtrip:"+hx(b), fmt.Sprintf("DecodeURL(EncodeURL(%q)) = %q", b, d), map[string]interface{}{"input": hx(b)})
		}
		enc(b, &duri, "DataURIEncodingTable")
		if len(b) > 0 && len(b) < 12 {
			m := genStableTable(r)
			var t [256]bool
			for _, c := range m {
				t[byte(c)] = true
			}
			enc(b, &t, fmt.Sprintf("custom%v", m))
		}
		rep.Eval("rt:"+hx(b), len(e) > len(b), "roundtrip")
	}
	unescape := func(b []byte) {
		d := dec(b)
		want, err := neturlUnescape(string(b))
		if err == nil && string(d) != want {
			rep.Violate("unescape:"+hx(b), fmt.Sprintf("DecodeURL(%q) = %q, url.QueryUnescape gives %q", b, d, want), map[string]interface{}{"input": hx(b)})
		}
		if len(d) > len(b) {
			rep.Violate("decode-longer:"+hx(b), fmt.Sprintf("DecodeURL(%q) is longer than its input", b), map[string]interface{}{"input": hx(b)})
		}
		bucket := "queryunescape-error"
		if err == nil {
			bucket = "queryunescape-ok"
		}
		rep.Eval("un:"+hx(b), err == nil && len(d) < len(b), bucket)
	}
	for c := 0; c < 256; c++ {
		roundtrip([]byte{byte(c)})
		for c2 := 0; c2 < 256; c2 += 5 {
			unescape([]byte{'%', byte(c), byte(c2)})
		}
	}
	allStrings([]byte("%+4aFg"), tierN(tier, 5, 7), unescape)
	for i := 0; i < tierN(tier, 20000, 1000000); i++ {
		roundtrip(genURLBytes(r, r.Intn(16)))
		unescape(genEscaped(r))
	}
}

// refPctDecode: %XY with two hex digits is one byte, everything else (also '+') is kept.
func refPctDecode(b []byte) []byte {
	hexv := func(c byte) int {
		switch {
		case c >= '0' && c <= '9':
			return int(c - '0')
		case c >= 'a' && c <= 'f':
			return int(c-'a') + 10
		case c >= 'A' && c <= 'F':
			return int(c-'A') + 10
		}
		return -1
	}
	var out []byte
	for i := 0; i < len(b); i++ {
		if b[i] == '%' && i+2 < len(b) && hexv(b[i+1]) >= 0 && hexv(b[i+2]) >= 0 {
			out = append(out, byte(hexv(b[i+1])<<4|hexv(b[i+2])))
			i += 2
		} else {
			out = append(out, b[i])
		}
	}
	return out
}

func neturlUnescape(s string) (string, error) { return url.QueryUnescape(s) }

func c16DataURIOracle(r *Rng, tier string, rep *Report) {
	run := func(u []byte) (mt, data []byte, err error, ok bool) {
		if p := catch(func() { mt, data, err = parse.DataURI(append([]byte{}, u...)) }); p != nil {
			rep.Violate("datauri-panic:"+hx(u), fmt.Sprintf("DataURI(%q) panics: %v", u, p), map[string]interface{}{"input": hx(u)})
			return nil, nil, nil, false
		}
		return mt, data, err, true
	}
	expect := func(kind string, u, wantMt, wantData []byte) {
		mt, data, err, ok := run(u)
		if !ok {
			return
		}
		if err != nil || !bytes.Equal(mt, wantMt) || !bytes.Equal(data, wantData) {
			rep.Violate("datauri-"+kind+":"+hx(u), fmt.Sprintf("DataURI(%q) = %q, %q, %v; want %q, %q", u, mt, data, err, wantMt, wantData), map[string]interface{}{"input": hx(u), "kind": kind})
		}
	}
	mediatypes := []string{"", "text/plain", "image/svg+xml", "text/html;charset=utf-8", "a/b;x=y;z=w", "application/octet-stream", "text/plain;charset=US-ASCII;page=21", "x/base64;a=b",
		// parameter names and values that read base64 are not the ";base64" marker (fixed in /repo b8822ef)
		"x/base64;a=base64", "text/plain;charset=base64;base64=base64", "x/y;base64=1;q=base64"}
	for i := 0; i < tierN(tier, 20000, 600000); i++ {
		d := genURLBytes(r, r.Intn(14))
		if i < 512 {
			d = []byte{byte(i % 256)}
			if i >= 256 {
				d = []byte{'a', byte(i % 256), 'b'}
			}
		}
		m := r.PickStr(mediatypes)
		wantMt := []byte(m)
		if m == "" {
			wantMt = []byte("text/plain")
		}
		// base64
		e := base64.StdEncoding.EncodeToString(d)
		expect("base64", []byte("data:"+m+";base64,"+e), wantMt, d)
		// percent-encoding with the URL table and with net/url
		expect("percent", append([]byte("data:"+m+","), parse.EncodeURL(append([]byte{}, d...), parse.URLEncodingTable)...), wantMt, d)
		expect("pathescape", []byte("data:"+m+","+url.PathEscape(string(d))), wantMt, d)
		// ... and with any table that marks '%' (and is one EncodeURL terminates on)
		if i%4 == 0 {
			var t [256]bool
			for {
				t = [256]bool{}
				for _, c := range genStableTable(r) {
					t[byte(c)] = true
				}
				t['%'] = true
				if encodeStable(&t) {
					break
				}
			}
			expect("percent-custom", append([]byte("data:"+m+","), parse.EncodeURL(append([]byte{}, d...), t)...), wantMt, d)
		}
		// percent-encoding that leaves '+' alone (RFC 3986 allows it; the library's own DataURIEncodingTable does so);
		// a '+' that comes back as a space is the defect fixed in /repo 52357eb
		pe := append([]byte("data:"+m+","), parse.EncodeURL(append([]byte{}, d...), parse.DataURIEncodingTable)...)
		if mt, data, err, ok := run(pe); ok && (err != nil || !bytes.Equal(mt, wantMt) || !bytes.Equal(data, d)) {
			if err == nil && bytes.Equal(mt, wantMt) && bytes.Equal(data, bytes.ReplaceAll(d, []byte("+"), []byte(" "))) {
				rep.Violate("datauri-plus", fmt.Sprintf("DataURI(%q) returns the payload %q: a literal '+' (which DataURIEncodingTable does not escape) is decoded to a space, the bytes that were encoded are %q", pe, data, d), map[string]interface{}{"input": hx(pe), "encoded_bytes": hx(d)})
			} else {
				rep.Violate("datauri-percent2:"+hx(pe), fmt.Sprintf("DataURI(%q) = %q, %q, %v; want %q, %q", pe, mt, data, err, wantMt, d), map[string]interface{}{"input": hx(pe)})
			}
		}
		rep.Eval("rt:"+m+":"+hx(d), len(d) > 0, "roundtrip")
	}
	// a parameter whose VALUE is the word base64 is not the ";base64" marker (the defect fixed in /repo b8822ef)
	for _, u := range []string{"data:x/y;a=base64,%07", "data:x/y;a=base64;base64,Bw=="} {
		mt, data, err, ok := run([]byte(u))
		if ok && (err != nil || string(mt) != "x/y;a=base64" || string(data) != "\a") {
			rep.Violate("datauri-param-value-base64", fmt.Sprintf("DataURI(%q) = %q, %q, %v; want \"x/y;a=base64\", \"\\a\": a parameter value that is the word base64 is taken for the ;base64 marker", u, mt, data, err), map[string]interface{}{"input": u})
		}
		rep.Eval("param-base64:"+u, true, "param-value-base64")
	}
	// anything else: ErrBadDataURI or a decoding error, never a panic; an error iff there is no
	// "data:" prefix followed by a comma somewhere, or the base64 payload is corrupt
	for i := 0; i < tierN(tier, 30000, 600000); i++ {
		u := genDataURI(r)
		_, data, err, ok := run(u)
		if !ok {
			continue
		}
		hasComma := len(u) > 5 && bytes.HasPrefix(u, []byte("data:")) && bytes.IndexByte(u[5:], ',') >= 0
		bucket := "ok"
		switch {
		case err == parse.ErrBadDataURI:
			bucket = "ErrBadDataURI"
			if hasComma {
				rep.Violate("datauri-bad:"+hx(u), fmt.Sprintf("DataURI(%q) = ErrBadDataURI although it has the data: prefix and a comma", u), map[string]interface{}{"input": hx(u)})
			}
		case err != nil:
			bucket = "decode-error"
			if _, isB64 := err.(base64.CorruptInputError); !isB64 || !hasComma {
				rep.Violate("datauri-err:"+hx(u), fmt.Sprintf("DataURI(%q) fails with %v", u, err), map[string]interface{}{"input": hx(u)})
			}
		default:
			if !hasComma {
				rep.Violate("datauri-accept:"+hx(u), fmt.Sprintf("DataURI(%q) succeeds without data: prefix and comma", u), map[string]interface{}{"input": hx(u)})
			} else {
				// the payload is one of the two decodings of what follows the first comma
				raw := u[5+bytes.IndexByte(u[5:], ',')+1:]
				d1 := refPctDecode(raw)
				d2, e2 := base64.StdEncoding.DecodeString(string(raw))
				if !bytes.Equal(data, d1) && !(e2 == nil && bytes.Equal(data, d2)) {
					rep.Violate("datauri-payload:"+hx(u), fmt.Sprintf("DataURI(%q) payload %q is neither decoding of %q", u, data, raw), map[string]interface{}{"input": hx(u)})
				}
			}
		}
		rep.Eval("any:"+hx(u), hasComma, bucket)
	}
}

func c16MediatypeOracle(r *Rng, tier string, rep *Report) {
	tok := func(alpha string, min int) string {
		var sb strings.Builder
		for n := min + r.Intn(6); n > 0; n-- {
			sb.WriteByte(alpha[r.Intn(len(alpha))])
		}
		return sb.String()
	}
	sp := func() string { return strings.Repeat(" ", r.Intn(3)*r.Intn(2)) }
	for i := 0; i < tierN(tier, 30000, 600000); i++ {
		// well-formed, unquoted: type/subtype *( OWS ";" OWS token "=" token ) OWS
		s := sp() + tok("abcdefghijklmnopqrstuvwxyz", 1) + "/" + tok("abcdefghijklmnopqrstuvwxyz0123456789.+-", 1)
		np := r.Intn(4)
		used := map[string]bool{}
		for k := 0; k < np; k++ {
			key := tok("abcdefghijklmnopqrstuvwxyz0123456789-", 1)
			if used[key] {
				continue
			}
			used[key] = true
			s += sp() + ";" + sp() + key + "=" + tok("ABCXYZabcxyz0123456789.+_-", 1)
		}
		s += sp()
		wantMt, wantParams, err := mime.ParseMediaType(s)
		var mt []byte
		var params map[string]string
		if p := catch(func() { mt, params = parse.Mediatype([]byte(s)) }); p != nil {
			rep.Violate("mediatype-panic:"+s, fmt.Sprintf("Mediatype(%q) panics: %v", s, p), map[string]interface{}{"input": s})
			continue
		}
		if err == nil {
			same := string(mt) == wantMt && len(params) == len(wantParams)
			for k, v := range wantParams {
				if params[k] != v {
					same = false
				}
			}
			if !same {
				rep.Violate("mediatype:"+s, fmt.Sprintf("Mediatype(%q) = %q %v, mime.ParseMediaType gives %q %v", s, mt, params, wantMt, wantParams), map[string]interface{}{"input": s})
			}
		}
		bucket := "mime-error"
		if err == nil {
			bucket = fmt.Sprintf("params-%d", len(wantParams))
		}
		rep.Eval(s, err == nil && len(wantParams) > 0, bucket)
	}
	// arbitrary bytes: no panic, the mimetype is a sub-slice of the argument
	for i := 0; i < tierN(tier, 20000, 400000); i++ {
		b := mutate(r, genMediaText(r), []byte(" ;=a\xc3\xbf\x00"))
		if p := catch(func() {
			mt, _ := parse.Mediatype(append([]byte{}, b...))
			if !bytes.Contains(b, mt) {
				rep.Violate("mediatype-slice:"+hx(b), fmt.Sprintf("Mediatype(%q) mimetype %q is not part of the input", b, mt), map[string]interface{}{"input": hx(b)})
			}
		}); p != nil {
			rep.Violate("mediatype-panic:"+hx(b), fmt.Sprintf("Mediatype(%q) panics: %v", b, p), map[string]interface{}{"input": hx(b)})
		}
		rep.Eval("raw:"+hx(b), len(b) > 3, "arbitrary")
	}
}

func isASCII(b []byte) bool {
	for _, c := range b {
		if c >= 0x80 {
			return false
		}
	}
	return true
}

func c16UtilOracle(r *Rng, tier string, rep *Report) {
	const ws = " \t\n\r\f"
	for c := 0; c < 256; c++ {
		w := strings.IndexByte(ws, byte(c)) >= 0
		nl := c == '\n' || c == '\r'
		if parse.IsWhitespace(byte(c)) != w || parse.IsNewline(byte(c)) != nl {
			rep.Violate(fmt.Sprintf("ws-table:%d", c), fmt.Sprintf("IsWhitespace/IsNewline(%d) = %v/%v", c, parse.IsWhitespace(byte(c)), parse.IsNewline(byte(c))), map[string]interface{}{"byte": c})
		}
		rep.Eval(fmt.Sprintf("tbl:%d", c), w, "tables")
	}
	one := func(b []byte) {
		p := catch(func() {
			// Copy: equal content, independent storage
			cp := parse.Copy(b)
			if !bytes.Equal(cp, b) || (len(b) > 0 && &cp[0] == &b[0]) {
				rep.Violate("copy:"+hx(b), fmt.Sprintf("Copy(%q) = %q or shares storage", b, cp), map[string]interface{}{"input": hx(b)})
			}
			// ToLower: A-Z shifted, everything else kept (bytes.ToLower on ASCII)
			want := make([]byte, len(b))
			for i, c := range b {
				want[i] = c
				if c >= 'A' && c <= 'Z' {
					want[i] = c + 32
				}
			}
			got := parse.ToLower(append([]byte{}, b...))
			if !bytes.Equal(got, want) || (isASCII(b) && !bytes.Equal(got, bytes.ToLower(b))) {
				rep.Violate("tolower:"+hx(b), fmt.Sprintf("ToLower(%q) = %q", b, got), map[string]interface{}{"input": hx(b)})
			}
			// TrimWhitespace / IsAllWhitespace
			if tr := parse.TrimWhitespace(append([]byte{}, b...)); !bytes.Equal(tr, bytes.Trim(b, ws)) {
				rep.Violate("trim:"+hx(b), fmt.Sprintf("TrimWhitespace(%q) = %q", b, tr), map[string]interface{}{"input": hx(b)})
			}
			if aw := parse.IsAllWhitespace(b); aw != (len(bytes.Trim(b, ws)) == 0) {
				rep.Violate("allws:"+hx(b), fmt.Sprintf("IsAllWhitespace(%q) = %v", b, aw), map[string]interface{}{"input": hx(b)})
			}
			// EqualFold against lower-case targets
			for k := 0; k < 4; k++ {
				t := append([]byte{}, want...)
				switch k {
				case 1:
					t = mutate(r, t, []byte("abz@[`{09"))
				case 2:
					t = append([]byte{}, b...)
				case 3:
					if len(t) > 0 {
						t[r.Intn(len(t))] ^= 0x20
					}
				}
				// reference: equal length and each byte equal or an upper-case letter of s against its lower-case form
				ref := len(t) == len(b)
				for i := 0; ref && i < len(t); i++ {
					ref = b[i] == t[i] || (b[i] >= 'A' && b[i] <= 'Z' && b[i]+32 == t[i])
				}
				got := parse.EqualFold(b, t)
				lowerTarget := !bytes.ContainsAny(t, "ABCDEFGHIJKLMNOPQRSTUVWXYZ")
				if got != ref || (isASCII(b) && isASCII(t) && lowerTarget && got != bytes.EqualFold(b, t)) {
					rep.Violate("equalfold:"+hx(b)+":"+hx(t), fmt.Sprintf("EqualFold(%q, %q) = %v", b, t, got), map[string]interface{}{"s": hx(b), "target": hx(t)})
				}
			}
		})
		if p != nil {
			rep.Violate("util-panic:"+hx(b), fmt.Sprintf("a helper panics on %q: %v", b, p), map[string]interface{}{"input": hx(b)})
		}
		rep.Eval(hx(b), len(b) > 0, "helpers")
	}
	allStrings([]byte(" \n\faZ\x0b\xc5"), tierN(tier, 5, 7), one)
	for i := 0; i < tierN(tier, 20000, 500000); i++ {
		n := r.Intn(12)
		b := make([]byte, n)
		for k := range b {
			if r.Chance(1, 4) {
				b[k] = byte(r.Intn(256))
			} else {
				b[k] = r.Pick([]byte("abzABZ@[`{09 \t\n\r\f\x0b"))
			}
		}
		one(b)
	}
}

func c16HashOracle(r *Rng, tier string, rep *Report) {
	type tab struct {
		name   string
		path   string
		toHash func([]byte) uint32
		bytes  func(uint32) []byte
		str    func(uint32) string
		text   []byte
	}
	tabs := []tab{
		{"css", repoRoot + "/css/hash.go", func(b []byte) uint32 { return uint32(css.ToHash(b)) }, func(h uint32) []byte { return css.Hash(h).Bytes() }, func(h uint32) string { return css.Hash(h).String() }, css.VerifHashText()},
		{"html", repoRoot + "/html/hash.go", func(b []byte) uint32 { return uint32(html.ToHash(b)) }, func(h uint32) []byte { return html.Hash(h).Bytes() }, func(h uint32) string { return html.Hash(h).String() }, html.VerifHashText()},
	}
	for _, t := range tabs {
		cs, err := hashConsts(t.path)
		if err != nil {
			rep.Violate("hash-consts:"+t.name, err.Error(), nil)
			continue
		}
		members := map[string]uint32{}
		for _, c := range cs {
			v64, _ := strconv.ParseUint(c[1], 10, 32)
			v := uint32(v64)
			txt := t.bytes(v)
			// the constant's name is its text (with '-' written as '_')
			if !strings.EqualFold(strings.ReplaceAll(c[0], "_", "-"), string(txt)) || t.str(v) != string(txt) {
				rep.Violate("hash-name:"+t.name+":"+c[0], fmt.Sprintf("%s.%s has text %q", t.name, c[0], txt), map[string]interface{}{"const": c[0]})
			}
			if got := t.toHash(txt); got != v {
				rep.Violate("hash-member:"+t.name+":"+c[0], fmt.Sprintf("%s.ToHash(%q) = %#x, want %s = %#x", t.name, txt, got, c[0], v), map[string]interface{}{"const": c[0]})
			}
			members[string(txt)] = v
			rep.Eval(t.name+":"+c[0], true, t.name+"/member")
		}
		check := func(s []byte) {
			var got uint32
			if p := catch(func() { got = t.toHash(s); _ = t.bytes(got) }); p != nil {
				rep.Violate("hash-panic:"+t.name+":"+hx(s), fmt.Sprintf("%s.ToHash(%q) panics: %v", t.name, s, p), map[string]interface{}{"input": hx(s)})
				return
			}
			want := members[string(s)]
			if got != want {
				rep.Violate("hash:"+t.name+":"+hx(s), fmt.Sprintf("%s.ToHash(%q) = %#x, want %#x", t.name, s, got, want), map[string]interface{}{"input": hx(s)})
			}
			b := "non-member"
			if want != 0 {
				b = "member"
			}
			rep.Eval(t.name+":"+hx(s), want == 0 && len(s) > 0, t.name+"/"+b)
		}
		for txt := range members {
			hashNeighbours(r, []byte(txt), check)
		}
		allStrings([]byte("aeimpst-"), tierN(tier, 5, 7), check)
		for i := 0; i < tierN(tier, 20000, 500000); i++ {
			n := r.Intn(12)
			s := make([]byte, n)
			for k := range s {
				if r.Chance(1, 6) {
					s[k] = byte(r.Intn(256))
				} else {
					s[k] = t.text[r.Intn(len(t.text))]
				}
			}
			check(s)
		}
		for i := 0; i < tierN(tier, 20000, 300000); i++ {
			h := uint32(r.U64())
			if i%2 == 0 {
				h = uint32(r.Intn(len(t.text)+4))<<8 | uint32(r.Intn(256))
			}
			var b []byte
			if p := catch(func() { b = t.bytes(h) }); p != nil {
				rep.Violate(fmt.Sprintf("hash-bytes-panic:%s:%#x", t.name, h), fmt.Sprintf("%s.Hash(%#x).Bytes() panics: %v", t.name, h, p), map[string]interface{}{"hash": h})
				continue
			}
			start, n := int(h>>8), int(h&0xff)
			var want []byte
			if start+n <= len(t.text) {
				want = t.text[start : start+n]
			}
			if !bytes.Equal(b, want) {
				rep.Violate(fmt.Sprintf("hash-bytes:%s:%#x", t.name, h), fmt.Sprintf("%s.Hash(%#x).Bytes() = %q, want %q", t.name, h, b, want), map[string]interface{}{"hash": h})
			}
			rep.Eval(fmt.Sprintf("%s:bytes:%#x", t.name, h), len(want) > 0, t.name+"/Bytes")
		}
	}
}

func init() {
	props["C16"] = &PropSpec{
		Models: []*Model{c16NumberModel, c16DimensionModel, c16EncodeModel, c16DecodeModel, c16DataURIModel, c16MediatypeModel, c16UtilModel, c16HashModel},
		Oracles: []*Oracle{
			{Name: "c16-number-dimension-regexp", Run: c16NumberOracle},
			{Name: "c16-url-encode-decode", Run: c16URLOracle},
			{Name: "c16-datauri-roundtrip", Run: c16DataURIOracle},
			{Name: "c16-mediatype-mime", Run: c16MediatypeOracle},
			{Name: "c16-util-reference", Run: c16UtilOracle},
			{Name: "c16-hash-tables", Run: c16HashOracle},
		},
	}
}
