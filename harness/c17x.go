//go:build verif

package main

// C17, integrator's addition after re-running seed C17-3 (it had only been "caught" through an unrelated model mismatch):
// the result of html.EscapeAttrVal / xml.EscapeAttrVal / xml.EscapeCDATAVal must not depend on the scratch buffer the
// caller passes (any capacity, any previous use), and no capacity may make the call panic.

import (
	"bytes"
	"fmt"

	"github.com/tdewolff/parse/v2/html"
	"github.com/tdewolff/parse/v2/xml"
)

func c17xBufferOracle(r *Rng, tier string, rep *Report) {
	vals := [][]byte{[]byte(""), []byte("a"), []byte("hello"), []byte("it's"), []byte("say \"x\""), []byte("a b"), []byte("'\"'"), []byte("\"'\""),
		[]byte("a=b"), []byte("x<y&z"), []byte("tab\there"), []byte("``"), []byte("''''\"\""), []byte("a\"b\"c'd"), []byte("<![CDATA["), []byte("a]]>b"), []byte("<<<<&&&&")}
	n := 200
	if tier == "thorough" {
		n = 5000
	}
	for i := 0; i < n; i++ {
		k := r.Intn(12)
		v := make([]byte, k)
		for j := range v {
			v[j] = "ab \"'<&=`\t]>"[r.Intn(12)]
		}
		vals = append(vals, v)
	}
	type call struct {
		name string
		f    func(buf *[]byte, v []byte) []byte
	}
	var calls []call
	for _, oq := range []byte{0, '"', '\''} {
		for _, mq := range []bool{false, true} {
			oq, mq := oq, mq
			calls = append(calls, call{fmt.Sprintf("html.EscapeAttrVal(oq=%q,mustQuote=%v)", oq, mq), func(buf *[]byte, v []byte) []byte { return html.EscapeAttrVal(buf, v, oq, mq) }})
		}
	}
	calls = append(calls, call{"xml.EscapeAttrVal", func(buf *[]byte, v []byte) []byte { return xml.EscapeAttrVal(buf, v) }})
	calls = append(calls, call{"xml.EscapeCDATAVal", func(buf *[]byte, v []byte) []byte {
		o, ok := xml.EscapeCDATAVal(buf, v)
		if !ok {
			return append([]byte("declined:"), o...)
		}
		return o
	}})
	for _, c := range calls {
		for _, v := range vals {
			var ref []byte
			if p := catch(func() { var nb []byte; ref = append([]byte{}, c.f(&nb, append([]byte{}, v...))...) }); p != nil {
				rep.Violate("c17-buffer:panic:"+c.name, fmt.Sprintf("%s(%q) with a nil buffer panics: %v", c.name, v, p), map[string]interface{}{"value": string(v)})
				continue
			}
			for capacity := 0; capacity <= len(ref)+6; capacity++ {
				buf := make([]byte, 0, capacity)
				var out []byte
				p := catch(func() { out = append([]byte{}, c.f(&buf, append([]byte{}, v...))...) })
				key := "c17-buffer:" + c.name
				rp := map[string]interface{}{"value": string(v), "cap": capacity}
				if p != nil {
					rep.Violate(key, fmt.Sprintf("%s(%q) with a buffer of capacity %d panics: %v (with a nil buffer it returns %q)", c.name, v, capacity, p, ref), rp)
				} else if !bytes.Equal(out, ref) {
					rep.Violate(key, fmt.Sprintf("%s(%q) with a buffer of capacity %d returns %q, with a nil buffer %q", c.name, v, capacity, out, ref), rp)
				}
				rep.Eval(fmt.Sprintf("%s/%q/%d", c.name, v, capacity), true, "buffer-capacity")
			}
		}
		// one buffer shared by a sequence of calls
		var shared []byte
		for i := 0; i < 300; i++ {
			v := vals[r.Intn(len(vals))]
			var nb []byte
			var ref, out []byte
			p1 := catch(func() { ref = append([]byte{}, c.f(&nb, append([]byte{}, v...))...) })
			p2 := catch(func() { out = append([]byte{}, c.f(&shared, append([]byte{}, v...))...) })
			if p1 == nil && (p2 != nil || !bytes.Equal(out, ref)) {
				rep.Violate("c17-buffer:"+c.name, fmt.Sprintf("%s(%q) with a buffer left by earlier calls (cap %d): %v %q, with a nil buffer %q", c.name, v, cap(shared), p2, out, ref), map[string]interface{}{"value": string(v)})
			}
			rep.Eval(fmt.Sprintf("%s/shared/%d", c.name, i), true, "buffer-shared")
		}
	}
}

func init() {
	c17xHook = func() {
		if p, ok := props["C17"]; ok {
			p.Oracles = append(p.Oracles, &Oracle{Name: "c17-buffer-independence", Run: c17xBufferOracle})
		}
	}
}

var c17xHook func()
