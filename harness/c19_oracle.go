package main

import (
	"bytes"
	"encoding/binary"
	"fmt"
	"io"
	"strings"
	"testing/iotest"

	"github.com/tdewolff/parse/v2"
)

// ---- C19 oracle: the property text checked directly on the implementation ----------------------
// References: encoding/binary (encodings), bytes.Reader (Seek/Read/ReadAt), testing/iotest.TestReader
// (io.Reader / io.ReaderAt / io.Seeker compliance) and a plain Go reference reader.  Nothing here uses
// the Coq model.

// c19OBackend is one way to obtain a BinaryReader over data; claimed = the n handed to the constructor.
type c19OBackend struct {
	name    string
	kind    int
	neg     bool   // hand n = -1 to the constructor
	variant string // how the underlying stream delivers: "", "onebyte", "half", "dataerr", "zeroreads"
	clone   bool
	seeks   bool // supports Seek/ReadAt at arbitrary offsets
}

var c19OBackends = []c19OBackend{
	{name: "bytes", kind: c19BkBytes, seeks: true},
	{name: "reader", kind: c19BkPlain},
	{name: "reader", kind: c19BkPlain, variant: "onebyte"},
	{name: "reader", kind: c19BkPlain, variant: "half"},
	{name: "readseeker", kind: c19BkSeeker, seeks: true},
	{name: "readseeker", kind: c19BkSeeker, neg: true, variant: "onebyte", seeks: true},
	{name: "readerat", kind: c19BkReaderAt, seeks: true},
	{name: "file", kind: c19BkFile, seeks: true},
	{name: "mmap", kind: c19BkMmap, seeks: true},
	{name: "readall", kind: c19BkPlain, neg: true, variant: "half", seeks: true},
	{name: "hasbytes", kind: c19BkHasBytes, seeks: true},
	{name: "clone-of-bytes", kind: c19BkBytes, clone: true, seeks: true},
	{name: "clone-of-readseeker", kind: c19BkSeeker, clone: true, seeks: true},
	// io-contract corner cases of the underlying stream
	{name: "reader", kind: c19BkPlain, variant: "dataerr"},
	{name: "readseeker", kind: c19BkSeeker, variant: "dataerr", seeks: true},
	{name: "readerat", kind: c19BkReaderAt, variant: "dataerr", seeks: true},
	{name: "reader", kind: c19BkPlain, variant: "zeroreads"},
	{name: "readseeker", kind: c19BkSeeker, variant: "zeroreads", seeks: true},
	{name: "reader", kind: c19BkPlain, variant: "zeroreads99"},
	{name: "readseeker", kind: c19BkSeeker, variant: "zeroreads99", seeks: true},
}

func (b c19OBackend) label() string {
	if b.variant != "" {
		return b.name + "+" + b.variant
	}
	return b.name
}

// open builds the reader over data with claimed total size n (ignored by bytes/mmap/readall/hasbytes).
func (b c19OBackend) open(data []byte, n int64) (*parse.BinaryReader, func()) {
	var sched []int
	ewl := false
	switch b.variant {
	case "onebyte":
		sched = make([]int, len(data)+8)
		for i := range sched {
			sched[i] = 1
		}
	case "half":
		for rem := len(data); rem > 0; {
			h := (rem + 1) / 2
			sched = append(sched, h)
			rem -= h
		}
	case "dataerr":
		ewl = true
	case "zeroreads":
		sched = []int{2, 0, 1, 0, 3}
	case "zeroreads99": // 99 consecutive (0, nil) reads before every byte: all of them must be retried
		runs := make([]int, len(data)+4)
		for i := range runs {
			runs[i] = 99
		}
		sched = c19EmptyRuns(runs, []int{1})
	}
	if b.neg {
		n = -1
	}
	r, cleanup, err := c19OpenBackend(b.kind, n, data, sched, ewl, false)
	if err != nil || r == nil {
		panic(fmt.Sprintf("oracle: cannot open backend %s: %v", b.label(), err))
	}
	if b.clone {
		r = r.Clone()
	}
	return r, cleanup
}

// c19RefDecode decodes one value of the given type from b (len(b) = width) with encoding/binary.
func c19RefDecode(little bool, typ int, b []byte) c19Tval {
	var bo binary.ByteOrder = binary.BigEndian
	if little {
		bo = binary.LittleEndian
	}
	v := c19Tval{typ: typ}
	var u uint64
	switch typ % 5 {
	case 0:
		u = uint64(b[0])
	case 1:
		u = uint64(bo.Uint16(b))
	case 2:
		p := make([]byte, 4)
		if little {
			copy(p, b)
		} else {
			copy(p[1:], b)
		}
		u = uint64(bo.Uint32(p))
	case 3:
		u = uint64(bo.Uint32(b))
	case 4:
		u = bo.Uint64(b)
	}
	if typ < 5 {
		v.u = u
	} else {
		w := []uint{8, 16, 24, 32, 64}[typ%5]
		v.i = int64(u<<(64-w)) >> (64 - w)
	}
	return v
}

// c19ReadTyped performs the read of type typ (10 = ReadBytes(n)) and returns the observation.
func c19ReadTyped(r *parse.BinaryReader, typ int, n int) (obs []int64, p interface{}) {
	code := c19RoU8 + typ
	if typ == 10 {
		code = c19RoReadBytes
	} else if typ == 11 {
		code = c19RoReadByte
	}
	p = catch(func() {
		var oth *parse.BinaryReader
		obs = c19DoReadOp(&r, &oth, code, int64(n), 0)
	})
	if typ == 10 && len(obs) > 0 {
		obs = obs[1:] // drop the nil flag
	}
	return obs, p
}

var c19TypNames = []string{"Uint8", "Uint16", "Uint24", "Uint32", "Uint64", "Int8", "Int16", "Int24", "Int32", "Int64", "Bytes", "Byte"}

func c19AllZero(v []int64) bool {
	for _, x := range v {
		if x != 0 {
			return false
		}
	}
	return true
}

func c19Oracle(r *Rng, tier string, rep *Report) {
	iters := 250
	if tier == "thorough" {
		iters = 20000
	}
	for it := 0; it < iters; it++ {
		c19OracleRoundTrip(r, rep, it)
	}
	for it := 0; it < iters; it++ {
		c19OracleSeekReadAt(r, rep)
	}
	// give-up: the 100th consecutive (0, nil) read ends the request with io.ErrNoProgress (zero value, nothing
	// consumed); the next request starts counting again and succeeds
	for _, kind := range []int{c19BkPlain, c19BkSeeker} {
		for _, run := range []int{99, 100, 150} {
			br, cleanup, err := c19OpenBackend(kind, 2, []byte{1, 2}, c19EmptyRuns([]int{run}, []int{2}), false, false)
			if err != nil {
				panic(err)
			}
			v1, e1, p1 := br.ReadUint16(), br.Err(), br.Pos()
			ok := v1 == 258 && e1 == nil && p1 == 2
			if run >= 100 {
				ok = v1 == 0 && e1 == io.ErrNoProgress && p1 == 0
			}
			if !ok {
				rep.Violate(fmt.Sprintf("no-progress/%s/%d", c19BkNames[kind], run), fmt.Sprintf("%s: %d consecutive (0, nil) reads then 2 bytes: ReadUint16 = %d, Err = %v, Pos = %d", c19BkNames[kind], run, v1, e1, p1), map[string]interface{}{"run": run})
			}
			cleanup()
			rep.Eval(fmt.Sprintf("no-progress:%d:%d", kind, run), true, "no-progress")
		}
	}
	// NewBinaryReaderReader hands a *BinaryReader back unchanged (position, error and byte order kept)
	{
		br := parse.NewBinaryReaderBytes([]byte{1, 2, 3, 4})
		br.ReadUint16()
		got, err := parse.NewBinaryReaderReader(br, -1)
		if err != nil || got != br || got.Pos() != 2 {
			rep.Violate("passthrough", fmt.Sprintf("NewBinaryReaderReader(*BinaryReader) = %p, %v; want the same reader %p", got, err, br), map[string]interface{}{})
		}
		rep.Eval("passthrough", true, "passthrough")
	}
	nb := 3000
	if tier == "thorough" {
		nb = 300000
	}
	for it := 0; it < nb; it++ {
		c19OracleBitmap(r, rep, it)
	}
}

// c19OracleRoundTrip: typed writes are read back value for value on every backend, Pos/Len track the bytes
// consumed, Err stays nil until a read runs past the end, then zero values and io.EOF (sticky); the same
// with the data truncated at every byte.
func c19OracleRoundTrip(r *Rng, rep *Report, it int) {
	little := r.Bool()
	w := parse.NewBinaryWriter(nil)
	if little {
		w.ByteOrder = binary.LittleEndian
	}
	nv := 1 + r.Intn(6)
	vals := make([]c19Tval, nv)
	var ref []byte
	for i := range vals {
		vals[i] = c19RandTval(r)
		c19WriteTval(w, vals[i])
		ref = append(ref, c19RefEncode(little, vals[i])...)
	}
	full := append([]byte{}, w.Bytes()...)
	desc := fmt.Sprintf("little=%v values=%s", little, c19DescVals(vals))
	if !bytes.Equal(full, ref) || w.Len() != int64(len(ref)) {
		rep.Violate("writer-encoding/"+desc, fmt.Sprintf("BinaryWriter wrote %x, encoding/binary gives %x (%s)", full, ref, desc),
			map[string]interface{}{"values": desc, "got": hx(full), "want": hx(ref)})
	}
	rep.Eval("write:"+desc, len(full) > 0, "write")
	extraTyp := r.Intn(12)
	// truncation points: the full data on every iteration, every shorter prefix on a rotating backend subset
	for bi, b := range c19OBackends {
		cuts := []int{len(full)}
		if (it+bi)%4 == 0 {
			cuts = cuts[:0]
			for t := 0; t <= len(full); t++ {
				cuts = append(cuts, t)
			}
		}
		for _, t := range cuts {
			data := append([]byte{}, full[:t]...)
			claimed := int64(len(full))
			if b.kind == c19BkPlain && t < len(full) && r.Bool() {
				claimed = int64(t)
			}
			c19CheckReadBack(rep, b, little, vals, data, t == len(full), claimed, extraTyp, desc)
		}
	}
}

func c19DescVals(vals []c19Tval) string {
	s := ""
	for _, v := range vals {
		switch {
		case v.typ == 10:
			s += fmt.Sprintf("Bytes(%x) ", v.b)
		case v.typ < 5:
			s += fmt.Sprintf("%s(%d) ", c19TypNames[v.typ], v.u)
		default:
			s += fmt.Sprintf("%s(%d) ", c19TypNames[v.typ], v.i)
		}
	}
	return s
}

func c19CheckReadBack(rep *Report, b c19OBackend, little bool, vals []c19Tval, data []byte, isFull bool, claimed int64, extraTyp int, desc string) {
	br, cleanup := b.open(data, claimed)
	defer cleanup()
	if little {
		br.ByteOrder = binary.LittleEndian
	}
	// Len() + Pos() must be the size of the source: the data itself for the in-memory backends (and a
	// seeker asked to measure itself), the size handed to the constructor otherwise
	total := claimed
	if b.neg || b.kind == c19BkBytes || b.kind == c19BkMmap || b.kind == c19BkHasBytes {
		total = int64(len(data))
	}
	lab := b.label()
	replay := func(extra string) map[string]interface{} {
		return map[string]interface{}{"backend": lab, "little": little, "values": desc, "data": hx(data), "claimed_size": claimed, "what": extra}
	}
	pos := 0     // reference position
	eof := false // reference: a read ran past the end
	seq := append([]c19Tval{}, vals...)
	// after the written values: two more reads, which must run past the end
	for k := 0; k < 2; k++ {
		e := c19Tval{typ: (extraTyp + k*5) % 12}
		if e.typ == 10 {
			e.b = make([]byte, 2)
		}
		seq = append(seq, e)
	}
	for i, v := range seq {
		sz := v.size()
		obs, p := c19ReadTyped(br, v.typ, sz)
		opname := c19TypNames[v.typ]
		fits := pos+sz <= len(data)
		if p != nil {
			key := fmt.Sprintf("read-panic/%s/%s", lab, opname)
			if !fits && sz == 1 && v.typ != 10 {
				key = fmt.Sprintf("read8-past-end-panic/%s/%s", b.name, opname)
			} else if strings.HasPrefix(b.variant, "zeroreads") && sz == 1 && v.typ != 10 {
				key = fmt.Sprintf("zero-length-read-panic/%s/%s", b.name, opname)
			}
			rep.Violate(key, fmt.Sprintf("%s: Read%s at pos %d of %d bytes panics: %v", lab, opname, pos, len(data), p), replay(fmt.Sprintf("read #%d panics", i)))
			return
		}
		var want []int64
		if fits {
			if v.typ == 10 {
				want = c19BytesObs(data[pos : pos+sz])
			} else if v.typ == 11 {
				want = []int64{int64(data[pos]), 0}
			} else {
				want = c19RefDecode(little, v.typ, data[pos:pos+sz]).wantObs()
			}
			pos += sz
		} else {
			// runs past the end: zero value (byte strings: what is left), io.EOF from now on
			if v.typ == 10 {
				if pos < len(data) {
					want = c19BytesObs(data[pos:])
				}
			} else if v.typ == 11 {
				want = []int64{0, 1}
			} else {
				want = c19Tval{typ: v.typ}.wantObs()
			}
			if pos < len(data) {
				pos = len(data)
			}
			eof = true
		}
		err := br.Err()
		// deviations of the underlying stream's corner cases, reported under one stable key each
		if strings.HasPrefix(b.variant, "zeroreads") && (c19BinErrKind(err) == 4 || c19BinErrKind(err) == 9) {
			rep.Violate("zero-length-read/"+b.name, fmt.Sprintf("%s: the underlying reader returned (0, nil) once; Read%s then fails with %v", lab, opname, err), replay("zero-length read"))
			return
		}
		if fmtInts(obs) != fmtInts(want) {
			rep.Violate(fmt.Sprintf("value/%s/%s", lab, opname), fmt.Sprintf("%s: read #%d Read%s returned %v, want %v (%s, data %x)", lab, i, opname, obs, want, desc, data), replay("wrong value"))
			return
		}
		if i < len(vals) && isFull && fmtInts(obs) != fmtInts(v.wantObs()) {
			rep.Violate(fmt.Sprintf("roundtrip/%s/%s", lab, opname), fmt.Sprintf("%s: wrote %v, read back %v", lab, v.wantObs(), obs), replay("round trip"))
			return
		}
		if br.Pos() != int64(pos) {
			rep.Violate(fmt.Sprintf("pos/%s", lab), fmt.Sprintf("%s: Pos()=%d after read #%d, %d bytes consumed", lab, br.Pos(), i, pos), replay("pos"))
			return
		}
		if br.Len() != total-int64(pos) {
			rep.Violate(fmt.Sprintf("len/%s", lab), fmt.Sprintf("%s: Len()=%d after read #%d, want %d", lab, br.Len(), i, total-int64(pos)), replay("len"))
			return
		}
		switch {
		case !eof && err != nil:
			key := fmt.Sprintf("early-error/%s/%s", lab, opname)
			switch {
			case b.variant == "dataerr" && err == io.EOF && pos == len(data):
				key = "eof-with-last-bytes/" + b.name
			case b.name == "mmap" && sz == 0 && pos == len(data) && err == io.EOF:
				key = "zero-length-read-at-end/mmap"
			}
			rep.Violate(key, fmt.Sprintf("%s: Err()=%v after read #%d (Read%s of %d bytes at %d..%d of %d bytes) although no read ran past the end", lab, err, i, opname, sz, pos-sz, pos, len(data)), replay("early error"))
			return
		case eof && err != io.EOF:
			key := fmt.Sprintf("late-eof/%s/%s", lab, opname)
			rep.Violate(key, fmt.Sprintf("%s: Err()=%v after read #%d ran past the end, want io.EOF", lab, err, i), replay("late eof"))
			return
		}
	}
	rep.Eval(fmt.Sprintf("rt:%s:%d:%s", lab, len(data), desc), len(data) > 0, "roundtrip/"+lab)
}

// c19OracleSeekReadAt: Seek agrees with bytes.Reader for every whence and every target in [0, Len] and rejects
// the others without moving; Read/ReadAt/Seek pass testing/iotest.TestReader; ReadAt agrees with bytes.Reader.
func c19OracleSeekReadAt(r *Rng, rep *Report) {
	data := make([]byte, r.Intn(20))
	for i := range data {
		data[i] = byte(r.U64())
	}
	L := int64(len(data))
	type sk struct {
		off    int64
		whence int
	}
	seeks := make([]sk, 12)
	for i := range seeks {
		seeks[i] = sk{int64(r.Intn(2*len(data)+5)) - L - 2, r.Intn(3)}
		if r.Chance(1, 10) {
			seeks[i].whence = r.Intn(7) - 2
		}
		if r.Chance(1, 10) {
			seeks[i].off = []int64{1 << 62, -(1 << 62), 9223372036854775807, -9223372036854775808}[r.Intn(4)]
		}
	}
	for _, b := range c19OBackends {
		lab := b.label()
		br, cleanup := b.open(data, L)
		ref := bytes.NewReader(data)
		pos := int64(0)
		for _, s := range seeks {
			var target int64
			valid := true
			switch s.whence {
			case 0:
				target = s.off
			case 1:
				target = pos + s.off
			case 2:
				target = L + s.off
			default:
				valid = false
			}
			replay := map[string]interface{}{"backend": lab, "data": hx(data), "pos": pos, "off": s.off, "whence": s.whence}
			inside := valid && s.off > -(1<<61) && s.off < 1<<61 && target >= 0 && target <= L
			got, err := br.Seek(s.off, s.whence)
			if inside {
				want, werr := ref.Seek(s.off, s.whence)
				if err != nil || werr != nil || got != want || br.Pos() != want {
					rep.Violate(fmt.Sprintf("seek/%s/whence%d", lab, s.whence), fmt.Sprintf("%s: Seek(%d,%d) from %d of %d = %d,%v Pos=%d; bytes.Reader: %d,%v", lab, s.off, s.whence, pos, L, got, err, br.Pos(), want, werr), replay)
					break
				}
				pos = want
				if b.seeks && pos < L {
					// the next byte read is the one bytes.Reader returns
					c1, e1 := ref.ReadByte()
					var c2 byte
					var e2 error
					if p := catch(func() { c2, e2 = br.ReadByte() }); p != nil || c1 != c2 || e1 != e2 || br.Pos() != pos+1 {
						rep.Violate(fmt.Sprintf("seek-read/%s", lab), fmt.Sprintf("%s: ReadByte after Seek to %d = %d,%v (panic %v), bytes.Reader: %d,%v", lab, pos, c2, e2, p, c1, e1), replay)
						break
					}
					pos++
				}
			} else {
				ref.Seek(pos, 0)
				if err == nil || br.Pos() != pos {
					rep.Violate(fmt.Sprintf("seek-reject/%s/whence%d", lab, s.whence), fmt.Sprintf("%s: Seek(%d,%d) from %d of %d = %d,%v Pos=%d; want an error and the position unchanged", lab, s.off, s.whence, pos, L, got, err, br.Pos()), replay)
					break
				}
			}
			rep.Eval(fmt.Sprintf("seek:%s:%d:%d:%d:%d", lab, L, pos, s.off, s.whence), true, "seek/"+lab)
		}
		cleanup()

		// ReadAt against bytes.Reader.ReadAt
		if b.seeks {
			br, cleanup := b.open(data, L)
			for k := 0; k < 6; k++ {
				n, off := r.Intn(6), int64(r.Intn(len(data)+3))
				b1, b2 := make([]byte, n), make([]byte, n)
				n1, e1 := bytes.NewReader(data).ReadAt(b1, off)
				p0 := br.Pos()
				n2, e2 := br.ReadAt(b2, off)
				okErr := e1 == e2 || (n == 0 && (e2 == nil || e2 == io.EOF)) || (n2 == n && e1 == nil && e2 == io.EOF)
				if b.kind == c19BkReaderAt && L == 0 && e2 != nil {
					// NewBinaryReaderReader(readerAt, 0) picks the sequential backend ("0 < n"): ReadAt past the
					// end of an empty source reports "does not implement io.Seeker or io.ReaderAt" rather than
					// io.EOF; io.ReaderAt only asks for a non-nil error
					okErr = true
				}
				if n1 != n2 || !bytes.Equal(b1[:n1], b2[:n2]) || !okErr || br.Pos() != p0 || br.Err() != nil {
					rep.Violate("readat/"+lab, fmt.Sprintf("%s: ReadAt(len %d, off %d) on %d bytes = %d,%v %x; bytes.Reader: %d,%v %x; Pos %d->%d Err=%v", lab, n, off, L, n2, e2, b2[:n2], n1, e1, b1[:n1], p0, br.Pos(), br.Err()),
						map[string]interface{}{"backend": lab, "data": hx(data), "n": n, "off": off})
					break
				}
				rep.Eval(fmt.Sprintf("readat:%s:%d:%d:%d", lab, L, n, off), n > 0, "readat/"+lab)
			}
			cleanup()
		}

		// io.Reader (+ io.ReaderAt, io.Seeker) compliance by the standard library's own checker
		br2, cleanup2 := b.open(data, L)
		var rd io.Reader = br2
		if !b.seeks {
			rd = struct{ io.Reader }{br2}
		}
		var terr error
		if p := catch(func() { terr = iotest.TestReader(rd, data) }); p != nil {
			terr = fmt.Errorf("panic: %v", p)
		}
		if terr != nil {
			rep.Violate("iotest/"+lab, fmt.Sprintf("%s: iotest.TestReader on %d bytes: %v", lab, L, terr), map[string]interface{}{"backend": lab, "data": hx(data)})
		}
		rep.Eval(fmt.Sprintf("iotest:%s:%x", lab, data), len(data) > 0, "iotest/"+lab)
		cleanup2()
	}
}

// c19OracleBitmap: bits written with BitmapWriter come back in order; BitmapReader yields all 8*len(buf) bits
// of any buffer (most significant bit first) and only then reports EOF.
func c19OracleBitmap(r *Rng, rep *Report, it int) {
	if it%2 == 0 {
		bits := make([]bool, r.Intn(70))
		s := ""
		for i := range bits {
			bits[i] = r.Bool()
			s += string('0' + byte(c19B2i(bits[i])))
		}
		var got []bool
		p := catch(func() {
			var start []byte
			if len(bits)%3 != 0 {
				start = bytes.Repeat([]byte{0xFF}, 32)[:0] // recycled buffer with stale bytes in its spare capacity
			}
			w := parse.NewBitmapWriter(start)
			for _, b := range bits {
				w.Write(b)
			}
			rd := parse.NewBitmapReader(w.Bytes())
			for range bits {
				got = append(got, rd.Read())
			}
			if rd.EOF() {
				got = nil
			}
			if int(rd.Pos()) != len(bits) {
				got = nil
			}
			if w.Len() != int64(len(w.Bytes())) || int(w.Len()) < (len(bits)+7)/8 {
				got = nil
			}
		})
		ok := p == nil && len(got) == len(bits)
		for i := 0; ok && i < len(bits); i++ {
			ok = got[i] == bits[i]
		}
		if !ok {
			rep.Violate("bitmap-roundtrip/"+s, fmt.Sprintf("bits %s are not read back in order (panic %v)", s, p), map[string]interface{}{"bits": s})
		}
		rep.Eval("bitrt:"+s, len(bits) > 0, "bitmap-roundtrip")
		return
	}
	buf := make([]byte, r.Intn(10))
	for i := range buf {
		buf[i] = byte(r.U64())
	}
	bad := ""
	p := catch(func() {
		rd := parse.NewBitmapReader(buf)
		for i := 0; i < 8*len(buf); i++ {
			bit := rd.Read()
			want := buf[i/8]>>(7-uint(i%8))&1 == 1
			if bit != want || rd.EOF() || int(rd.Pos()) != i+1 {
				bad = fmt.Sprintf("bit %d = %v eof=%v pos=%d, want %v", i, bit, rd.EOF(), rd.Pos(), want)
				return
			}
		}
		for k := 0; k < 3; k++ {
			if rd.Read() || !rd.EOF() || int(rd.Pos()) != 8*len(buf) {
				bad = fmt.Sprintf("read %d after the last bit: eof=%v pos=%d", k, rd.EOF(), rd.Pos())
				return
			}
		}
	})
	if p != nil || bad != "" {
		rep.Violate(fmt.Sprintf("bitmap-all-bits/%x", buf), fmt.Sprintf("BitmapReader over %x: %s (panic %v)", buf, bad, p), map[string]interface{}{"buf": hx(buf)})
	}
	rep.Eval(fmt.Sprintf("bits:%x", buf), len(buf) > 0, "bitmap-all-bits")
}
