package main

import (
	"bytes"
	"fmt"
	"strings"

	"github.com/tdewolff/parse/v2"
	"github.com/tdewolff/parse/v2/js"
)

// Generator of expressions from the ECMA-262 expression grammar (ES2022 clause 13), written from the
// standard's productions and independent of js/parse.go's precedence numbers.  Every generated tree carries
// its expected String() form (the fully parenthesised structure), built here, not by the parser.

// nonterminals of the standard
const (
	c03NtExpression = iota
	c03NtAssignment
	c03NtConditional
	c03NtShortCircuit
	c03NtLogicalOR
	c03NtCoalesce
	c03NtLogicalAND
	c03NtBitOR
	c03NtBitXOR
	c03NtBitAND
	c03NtEquality
	c03NtRelational
	c03NtShift
	c03NtAdditive
	c03NtMultiplicative
	c03NtExponent
	c03NtUnary
	c03NtUpdate
	c03NtLHS
	c03NtPrimary
)

const (
	c03GxLeaf = iota
	c03GxGroup
	c03GxPrefix
	c03GxPostfix
	c03GxBinary
	c03GxCond
	c03GxDot
	c03GxIndex
	c03GxCall
	c03GxComma
	c03GxRaw // a construct outside the operator fragment: fixed tokens + expected String()
)

type c03Gx struct {
	kind    int
	op      js.TokenType
	tok     c03Jtok
	kids    []*c03Gx
	raw     []c03Jtok
	rawMode []int8 // line-break modes of the raw tokens (c03prog.go)
	rawS    string
	trail   bool // a call spelled with a trailing comma
}

// String() of js/ast.go, restated
func (e *c03Gx) str() string {
	switch e.kind {
	case c03GxLeaf:
		return string(e.tok.data)
	case c03GxGroup:
		return "(" + e.kids[0].str() + ")"
	case c03GxPrefix:
		op := c03PrefixResult(e.op)
		if js.IsIdentifierName(op) {
			return "(" + op.String() + " " + e.kids[0].str() + ")"
		}
		return "(" + op.String() + e.kids[0].str() + ")"
	case c03GxPostfix:
		return "(" + e.kids[0].str() + string(e.op.Bytes()) + ")"
	case c03GxBinary:
		if js.IsIdentifierName(e.op) {
			return "(" + e.kids[0].str() + " " + e.op.String() + " " + e.kids[1].str() + ")"
		}
		return "(" + e.kids[0].str() + e.op.String() + e.kids[1].str() + ")"
	case c03GxCond:
		return "(" + e.kids[0].str() + " ? " + e.kids[1].str() + " : " + e.kids[2].str() + ")"
	case c03GxDot:
		return "(" + e.kids[0].str() + "." + string(e.tok.data) + ")"
	case c03GxIndex:
		return "(" + e.kids[0].str() + "[" + e.kids[1].str() + "])"
	case c03GxCall:
		var as []string
		for _, a := range e.kids[1:] {
			as = append(as, a.str())
		}
		return "(" + e.kids[0].str() + "(" + strings.Join(as, ", ") + "))"
	case c03GxComma:
		var as []string
		for _, a := range e.kids {
			as = append(as, a.str())
		}
		return "(" + strings.Join(as, ",") + ")"
	case c03GxRaw:
		return e.rawS
	}
	return "?"
}

// the parser names unary + - ++ -- by their own token types
func c03PrefixResult(op js.TokenType) js.TokenType {
	switch op {
	case js.AddToken:
		return js.PosToken
	case js.SubToken:
		return js.NegToken
	case js.IncrToken:
		return js.PreIncrToken
	case js.DecrToken:
		return js.PreDecrToken
	}
	return op
}

type c03ExprGen struct {
	r             *Rng
	trailing      bool                                           // allow a trailing comma in argument lists
	strictTargets bool                                           // assignment / update / delete operands are valid targets (no early errors)
	raws          func(g *c03ExprGen, depth int) *c03Gx          // optional: primary expressions outside the operator fragment
	rawsAssign    func(g *c03ExprGen, depth int, in bool) *c03Gx // optional: arrow functions, yield
	rawsUnary     func(g *c03ExprGen, depth int, in bool) *c03Gx // optional: await, optional chains
}

// target: IdentifierReference or a member expression (a valid assignment target)
func (g *c03ExprGen) target(depth int, in bool) *c03Gx {
	r := g.r
	e := c03Leaf(c03GenIdents[r.Intn(len(c03GenIdents))])
	for n := r.Intn(3); n > 0 && depth > 0; n-- {
		depth--
		if r.Bool() {
			e = &c03Gx{kind: c03GxDot, kids: []*c03Gx{e}, tok: c03Jtok{data: []byte([]string{"p", "q", "x1"}[r.Intn(3)])}}
		} else {
			e = &c03Gx{kind: c03GxIndex, kids: []*c03Gx{e, g.gen(c03NtExpression, depth, true)}}
		}
	}
	return e
}

func c03Leaf(t c03Jtok) *c03Gx { return &c03Gx{kind: c03GxLeaf, tok: t} }

var c03GenIdents = []c03Jtok{c03TkA, c03TkB, c03TkC, c03TkD, c03Jt(js.IdentifierToken, "x1"), c03Jt(js.IdentifierToken, "$y"), c03Jt(js.IdentifierToken, "_z")}
var c03GenLits = []c03Jtok{c03TkInt, c03TkDec, c03TkHex, c03TkStr, c03TkThis, c03TkNull, c03TkTrue, c03Jt(js.FalseToken, "false"), c03Jt(js.IntegerToken, "0"), c03Jt(js.DecimalToken, "1e3"), c03Jt(js.StringToken, "\"q\"")}

var (
	c03MulOps   = []js.TokenType{js.MulToken, js.DivToken, js.ModToken}
	c03AddOps   = []js.TokenType{js.AddToken, js.SubToken}
	c03ShiftOps = []js.TokenType{js.LtLtToken, js.GtGtToken, js.GtGtGtToken}
	c03RelOps   = []js.TokenType{js.LtToken, js.LtEqToken, js.GtToken, js.GtEqToken, js.InstanceofToken, js.InToken}
	c03EqOps    = []js.TokenType{js.EqEqToken, js.NotEqToken, js.EqEqEqToken, js.NotEqEqToken}
	c03UnaryOps = []js.TokenType{js.DeleteToken, js.VoidToken, js.TypeofToken, js.AddToken, js.SubToken, js.BitNotToken, js.NotToken}
)

func (g *c03ExprGen) pick(ops []js.TokenType) js.TokenType { return ops[g.r.Intn(len(ops))] }

func (g *c03ExprGen) bin(op js.TokenType, l, r *c03Gx) *c03Gx {
	return &c03Gx{kind: c03GxBinary, op: op, kids: []*c03Gx{l, r}}
}

// gen returns a tree derivable from nonterminal nt (with the [In] parameter as given).
func (g *c03ExprGen) gen(nt, depth int, in bool) *c03Gx {
	r := g.r
	down := depth <= 0 || r.Chance(2, 5)
	switch nt {
	case c03NtExpression:
		if down || r.Chance(2, 3) {
			return g.gen(c03NtAssignment, depth, in)
		}
		n := 2 + r.Intn(2)
		e := &c03Gx{kind: c03GxComma}
		for i := 0; i < n; i++ {
			e.kids = append(e.kids, g.gen(c03NtAssignment, depth-1, in))
		}
		return e
	case c03NtAssignment:
		if g.rawsAssign != nil && depth > 0 && r.Chance(1, 8) {
			if e := g.rawsAssign(g, depth-1, in); e != nil {
				return e
			}
		}
		if down || r.Chance(1, 2) {
			return g.gen(c03NtConditional, depth, in)
		}
		if g.strictTargets {
			return g.bin(g.pick(c03AssignOps), g.target(depth-1, in), g.gen(c03NtAssignment, depth-1, in))
		}
		return g.bin(g.pick(c03AssignOps), g.gen(c03NtLHS, depth-1, in), g.gen(c03NtAssignment, depth-1, in))
	case c03NtConditional:
		if down || r.Chance(1, 2) {
			return g.gen(c03NtShortCircuit, depth, in)
		}
		return &c03Gx{kind: c03GxCond, kids: []*c03Gx{g.gen(c03NtShortCircuit, depth-1, in), g.gen(c03NtAssignment, depth-1, true), g.gen(c03NtAssignment, depth-1, in)}}
	case c03NtShortCircuit:
		if !down && r.Chance(1, 3) {
			return g.gen(c03NtCoalesce, depth, in)
		}
		return g.gen(c03NtLogicalOR, depth, in)
	case c03NtCoalesce:
		var head *c03Gx
		if depth > 0 && r.Chance(1, 3) {
			head = g.gen(c03NtCoalesce, depth-1, in)
		} else {
			head = g.gen(c03NtBitOR, depth-1, in)
		}
		return g.bin(js.NullishToken, head, g.gen(c03NtBitOR, depth-1, in))
	case c03NtLogicalOR:
		return g.leftAssoc(nt, c03NtLogicalAND, []js.TokenType{js.OrToken}, depth, in, down)
	case c03NtLogicalAND:
		return g.leftAssoc(nt, c03NtBitOR, []js.TokenType{js.AndToken}, depth, in, down)
	case c03NtBitOR:
		return g.leftAssoc(nt, c03NtBitXOR, []js.TokenType{js.BitOrToken}, depth, in, down)
	case c03NtBitXOR:
		return g.leftAssoc(nt, c03NtBitAND, []js.TokenType{js.BitXorToken}, depth, in, down)
	case c03NtBitAND:
		return g.leftAssoc(nt, c03NtEquality, []js.TokenType{js.BitAndToken}, depth, in, down)
	case c03NtEquality:
		return g.leftAssoc(nt, c03NtRelational, c03EqOps, depth, in, down)
	case c03NtRelational:
		ops := c03RelOps
		if !in {
			ops = c03RelOps[:5]
		}
		return g.leftAssoc(nt, c03NtShift, ops, depth, in, down)
	case c03NtShift:
		return g.leftAssoc(nt, c03NtAdditive, c03ShiftOps, depth, in, down)
	case c03NtAdditive:
		return g.leftAssoc(nt, c03NtMultiplicative, c03AddOps, depth, in, down)
	case c03NtMultiplicative:
		return g.leftAssoc(nt, c03NtExponent, c03MulOps, depth, in, down)
	case c03NtExponent:
		if down || r.Chance(1, 2) {
			return g.gen(c03NtUnary, depth, in)
		}
		return g.bin(js.ExpToken, g.gen(c03NtUpdate, depth-1, in), g.gen(c03NtExponent, depth-1, in))
	case c03NtUnary:
		if g.rawsUnary != nil && depth > 0 && r.Chance(1, 8) {
			if e := g.rawsUnary(g, depth-1, in); e != nil {
				return e
			}
		}
		if down || r.Chance(1, 2) {
			return g.gen(c03NtUpdate, depth, in)
		}
		uop := g.pick(c03UnaryOps)
		if g.strictTargets && uop == js.DeleteToken {
			return &c03Gx{kind: c03GxPrefix, op: uop, kids: []*c03Gx{&c03Gx{kind: c03GxDot, kids: []*c03Gx{g.target(depth-1, in)}, tok: c03Jtok{data: []byte("p")}}}}
		}
		return &c03Gx{kind: c03GxPrefix, op: uop, kids: []*c03Gx{g.gen(c03NtUnary, depth-1, in)}}
	case c03NtUpdate:
		if down || r.Chance(1, 2) {
			return g.gen(c03NtLHS, depth, in)
		}
		if g.strictTargets {
			if r.Bool() {
				return &c03Gx{kind: c03GxPostfix, op: g.pick([]js.TokenType{js.IncrToken, js.DecrToken}), kids: []*c03Gx{g.target(depth-1, in)}}
			}
			return &c03Gx{kind: c03GxPrefix, op: g.pick([]js.TokenType{js.IncrToken, js.DecrToken}), kids: []*c03Gx{g.target(depth-1, in)}}
		}
		if r.Bool() {
			return &c03Gx{kind: c03GxPostfix, op: g.pick([]js.TokenType{js.IncrToken, js.DecrToken}), kids: []*c03Gx{g.gen(c03NtLHS, depth-1, in)}}
		}
		return &c03Gx{kind: c03GxPrefix, op: g.pick([]js.TokenType{js.IncrToken, js.DecrToken}), kids: []*c03Gx{g.gen(c03NtUnary, depth-1, in)}}
	case c03NtLHS:
		e := g.gen(c03NtPrimary, depth, in)
		for depth > 0 && r.Chance(1, 3) {
			depth--
			k := r.Intn(3)
			if k == 0 && e.kind == c03GxLeaf && js.IsNumeric(e.tok.ty) {
				k = 1
			}
			switch k {
			case 0:
				names := []string{"p", "q", "typeof", "in", "delete", "null", "x1"}
				e = &c03Gx{kind: c03GxDot, kids: []*c03Gx{e}, tok: c03Jtok{data: []byte(names[r.Intn(len(names))])}}
			case 1:
				e = &c03Gx{kind: c03GxIndex, kids: []*c03Gx{e, g.gen(c03NtExpression, depth, true)}}
			default:
				c := &c03Gx{kind: c03GxCall, kids: []*c03Gx{e}}
				for n := r.Intn(3); n > 0; n-- {
					c.kids = append(c.kids, g.gen(c03NtAssignment, depth, true))
				}
				e = c
			}
		}
		return e
	default: // c03NtPrimary
		if depth > 0 && r.Chance(1, 3) {
			return &c03Gx{kind: c03GxGroup, kids: []*c03Gx{g.gen(c03NtExpression, depth-1, true)}}
		}
		if g.raws != nil && depth > 0 && r.Chance(1, 4) {
			if e := g.raws(g, depth-1); e != nil {
				return e
			}
		}
		if r.Chance(2, 3) {
			return c03Leaf(c03GenIdents[r.Intn(len(c03GenIdents))])
		}
		return c03Leaf(c03GenLits[r.Intn(len(c03GenLits))])
	}
}

func (g *c03ExprGen) leftAssoc(nt, next int, ops []js.TokenType, depth int, in, down bool) *c03Gx {
	if down || g.r.Chance(1, 2) {
		return g.gen(next, depth, in)
	}
	return g.bin(g.pick(ops), g.gen(nt, depth-1, in), g.gen(next, depth-1, in))
}

// toks is the token list of the tree; nolt marks tokens that must stay on the line of their predecessor
func (g *c03ExprGen) toks(e *c03Gx) []c03Jtok {
	switch e.kind {
	case c03GxLeaf:
		return []c03Jtok{e.tok}
	case c03GxGroup:
		return c03Cat(c03TkLP, g.toks(e.kids[0]), c03TkRP)
	case c03GxPrefix:
		return c03Cat(e.op, g.toks(e.kids[0]))
	case c03GxPostfix:
		return c03Cat(g.toks(e.kids[0]), e.op)
	case c03GxBinary:
		return c03Cat(g.toks(e.kids[0]), e.op, g.toks(e.kids[1]))
	case c03GxCond:
		return c03Cat(g.toks(e.kids[0]), c03TkQ, g.toks(e.kids[1]), c03TkColon, g.toks(e.kids[2]))
	case c03GxDot:
		nm := e.tok
		l := js.NewLexer(parse.NewInputBytes(nm.data))
		nm.ty, _ = l.Next()
		return c03Cat(g.toks(e.kids[0]), c03TkDot, nm)
	case c03GxIndex:
		return c03Cat(g.toks(e.kids[0]), c03TkLB, g.toks(e.kids[1]), c03TkRB)
	case c03GxCall:
		out := c03Cat(g.toks(e.kids[0]), c03TkLP)
		for i, a := range e.kids[1:] {
			if i > 0 {
				out = append(out, c03TkComma)
			}
			out = append(out, g.toks(a)...)
		}
		if g.trailing && len(e.kids) > 1 && g.r.Chance(1, 6) {
			out = append(out, c03TkComma)
			e.trail = true
		}
		return append(out, c03TkRP)
	case c03GxComma:
		var out []c03Jtok
		for i, a := range e.kids {
			if i > 0 {
				out = append(out, c03TkComma)
			}
			out = append(out, g.toks(a)...)
		}
		return out
	case c03GxRaw:
		return append([]c03Jtok{}, e.raw...)
	}
	return nil
}

// c03ExprStmtString is ExprStmt.String() restated
func c03ExprStmtString(v string) string {
	if len(v) > 0 && v[0] == '(' && v[len(v)-1] == ')' {
		return "Stmt" + v
	}
	return "Stmt(" + v + ")"
}

// c03HasPrefixUpdateExpBase: `++a ** b` / `--a ** b` (UpdateExpression ** ...), a grammatical form that the
// parser rejected before efda118; counted in its own coverage bucket so that a run shows the shape is still generated.
func c03HasPrefixUpdateExpBase(e *c03Gx) bool {
	if e.kind == c03GxBinary && e.op == js.ExpToken && e.kids[0].kind == c03GxPrefix && (e.kids[0].op == js.IncrToken || e.kids[0].op == js.DecrToken) {
		return true
	}
	for _, k := range e.kids {
		if c03HasPrefixUpdateExpBase(k) {
			return true
		}
	}
	return false
}

// ---------------------------------------------------------------------------------------- spelling

// c03SpellVaried writes tokens with varied white space, comments and line breaks.  A line break is never put
// before a token marked nolt (restricted productions), and never before a postfix ++/-- (the caller marks
// those).  If the text does not lex back to the same tokens, the plain one-space spelling is used.
func c03SpellVaried(r *Rng, ts []c03Jtok, nolt []bool) []byte {
	seps := []string{"", " ", " ", "\t", "  ", "/*c*/", " /* c\n d */ ", "\n", " // c\n", "\r\n"}
	var b bytes.Buffer
	want := make([]c03Jtok, len(ts))
	for i, t := range ts {
		s := seps[r.Intn(len(seps))]
		hasNL := strings.ContainsAny(s, "\n\r")
		if hasNL && (i == 0 || (i < len(nolt) && nolt[i])) {
			s = " "
			hasNL = false
		}
		if i == 0 && r.Bool() {
			s = ""
		}
		b.WriteString(s)
		b.Write(t.data)
		want[i] = c03Jtok{t.ty, hasNL, t.data}
	}
	if r.Chance(1, 4) {
		b.WriteString(seps[r.Intn(len(seps))])
	}
	got, ok := c03Relex(b.Bytes())
	if ok && len(got) == len(want) {
		same := true
		for i := range got {
			if got[i].ty != want[i].ty || !bytes.Equal(got[i].data, want[i].data) || (i > 0 && got[i].lt != want[i].lt) {
				same = false
				break
			}
		}
		if same {
			return b.Bytes()
		}
	}
	plain := make([]c03Jtok, len(ts))
	for i, t := range ts {
		plain[i] = c03Jtok{t.ty, false, t.data}
	}
	return c03SpellToks(plain)
}

func c03NoltOf(ts []c03Jtok, e []bool) []bool {
	out := make([]bool, len(ts))
	copy(out, e)
	return out
}

// ---------------------------------------------------------------------------------------- oracle

func c03ParseJS(src []byte, o int) (ast *js.AST, err error, pan interface{}) {
	pan = catch(func() { ast, err = js.Parse(parse.NewInputBytes(src), c03JsOpts(o)) })
	return
}

func c03DropEmptyStmts(ast *js.AST) string {
	var parts []string
	for _, s := range ast.List {
		if _, ok := s.(*js.EmptyStmt); !ok {
			parts = append(parts, s.String())
		}
	}
	return strings.Join(parts, " ")
}

func c03AstString(ast *js.AST) string {
	var parts []string
	for _, s := range ast.List {
		parts = append(parts, s.String())
	}
	return strings.Join(parts, " ")
}

func c03Oracle(r *Rng, tier string, rep *Report) {
	c03Fixed(rep)
	c03Expressions(r, tier, rep)
	c03Programs(r, tier, rep)
	c03WholeLanguage(r, tier, rep)
	c03ProgramRejections(r, tier, rep)
	c03Forbidden(r, tier, rep)
}

// postfixNoLT marks the postfix ++/-- tokens of a token list produced by c03ExprGen.toks: a line break before
// them would change the meaning (restricted production), so the speller must not put one there.
func c03MarkPostfix(e *c03Gx, g *c03ExprGen, pos int, nolt []bool) int {
	switch e.kind {
	case c03GxLeaf:
		return pos + 1
	case c03GxRaw:
		return pos + len(e.raw)
	case c03GxPostfix:
		p := c03MarkPostfix(e.kids[0], g, pos, nolt)
		nolt[p] = true
		return p + 1
	case c03GxGroup:
		return c03MarkPostfix(e.kids[0], g, pos+1, nolt) + 1
	case c03GxPrefix:
		return c03MarkPostfix(e.kids[0], g, pos+1, nolt)
	case c03GxBinary:
		p := c03MarkPostfix(e.kids[0], g, pos, nolt)
		return c03MarkPostfix(e.kids[1], g, p+1, nolt)
	case c03GxCond:
		p := c03MarkPostfix(e.kids[0], g, pos, nolt)
		p = c03MarkPostfix(e.kids[1], g, p+1, nolt)
		return c03MarkPostfix(e.kids[2], g, p+1, nolt)
	case c03GxDot:
		return c03MarkPostfix(e.kids[0], g, pos, nolt) + 2
	case c03GxIndex:
		p := c03MarkPostfix(e.kids[0], g, pos, nolt)
		return c03MarkPostfix(e.kids[1], g, p+1, nolt) + 1
	case c03GxCall:
		p := c03MarkPostfix(e.kids[0], g, pos, nolt) + 1
		for i, a := range e.kids[1:] {
			if i > 0 {
				p++
			}
			p = c03MarkPostfix(a, g, p, nolt)
		}
		if e.trail {
			p++
		}
		return p + 1
	case c03GxComma:
		p := pos
		for i, a := range e.kids {
			if i > 0 {
				p++
			}
			p = c03MarkPostfix(a, g, p, nolt)
		}
		return p
	}
	return pos
}

// c03AcceptCheck: src is a grammatical program whose tree must have the String() form want.
func c03AcceptCheck(rep *Report, src []byte, o int, want string, bucket string, nontrivial bool) {
	c03AcceptCheckKey(rep, "", src, o, want, bucket, nontrivial)
}

// c03AcceptCheckKey: with a fixed violation key (for the minimal instance of a known defect)
func c03AcceptCheckKey(rep *Report, fixedKey string, src []byte, o int, want string, bucket string, nontrivial bool) {
	ast, err, pan := c03ParseJS(src, o)
	switch {
	case pan != nil:
		rep.Violate("c03-panic:"+string(src), fmt.Sprintf("js.Parse panics on %q: %v", src, pan), map[string]interface{}{"src": string(src), "opts": o})
	case err != nil:
		if fixedKey != "" {
			rep.Violate(fixedKey, fmt.Sprintf("grammatical program rejected: %q: %v", src, c03FirstLine(err)), map[string]interface{}{"src": string(src), "opts": o, "expected": want})
		} else {
			rep.Violate("c03-accept:"+string(src), fmt.Sprintf("grammatical program rejected: %q: %v", src, c03FirstLine(err)), map[string]interface{}{"src": string(src), "opts": o, "expected": want})
		}
	default:
		if got := c03AstString(ast); got != want {
			if c03SameLineSemicolonOnly(src, o, got, want) {
				// a ';' that stands on the line of a statement it does not belong to (after a block, a declaration, a
				// labelled / if / loop statement, another ';') is an EmptyStatement; the tail of parseStmt swallows it
				rep.Violate("c03-tree:empty-statement-same-line", fmt.Sprintf("an EmptyStatement `;` on the line of the preceding statement is dropped: %q: got %s want %s", src, got, want), map[string]interface{}{"src": string(src), "opts": o, "got": got, "expected": want})
			} else if fixedKey != "" {
				rep.Violate(fixedKey, fmt.Sprintf("wrong tree for %q: got %s want %s", src, got, want), map[string]interface{}{"src": string(src), "opts": o, "got": got, "expected": want})
			} else {
				rep.Violate("c03-tree:"+string(src), fmt.Sprintf("wrong tree for %q: got %s want %s", src, got, want), map[string]interface{}{"src": string(src), "opts": o, "got": got, "expected": want})
			}
		}
	}
	rep.Eval(fmt.Sprintf("%s:%q/%d", bucket, src, o), nontrivial, bucket)
}

// c03SameLineSemicolonOnly: got lacks EmptyStmt nodes of want and is otherwise equal, and the parser gives exactly
// want when every ';' of src is moved to a line of its own (a line break is allowed before every ';').  The byte-level
// replacement also hits a ';' inside a literal or comment; the tree then differs and the answer is no (reported as an
// ordinary violation).
func c03SameLineSemicolonOnly(src []byte, o int, got, want string) bool {
	if c03NoEmpty(got) != c03NoEmpty(want) || strings.Count(got, "Stmt()") >= strings.Count(want, "Stmt()") {
		return false
	}
	ast, err, pan := c03ParseJS(bytes.ReplaceAll(src, []byte(";"), []byte("\n;")), o)
	return pan == nil && err == nil && c03AstString(ast) == want
}

// c03FixedPrograms: programs whose tree was worked out by hand from the grammar (regular expressions vs division,
// restricted productions, new / call / member nesting, optional chains, tagged templates, arrow bodies, labels, do-while ASI)
var c03FixedPrograms = [][2]string{
	{"x = /ab+c/gi;", "Stmt(x=/ab+c/gi)"},
	{"x = /[/]/.test(s)", "Stmt(x=((/[/]/.test)(s)))"},
	{"if (a) /re/.test(b)", "Stmt(if a Stmt((/re/.test)(b)))"},
	{"a\n/re/g", "Stmt((a/re)/g)"},
	{"x = y++ / 2", "Stmt(x=((y++)/2))"},
	{"x = y\n/2/g", "Stmt(x=((y/2)/g))"},
	{"async\nfunction f(){}", "Stmt(async) Decl(function f Params() Stmt({ }))"},
	{"let\nx = 1", "Decl(let Binding(x = 1))"},
	{"function* g(){ yield\na }", "Decl(function* g Params() Stmt({ Stmt(yield) Stmt(a) }))"},
	{"function f(){ return\na }", "Decl(function f Params() Stmt({ Stmt(return) Stmt(a) }))"},
	{"x = a\n(b)", "Stmt(x=(a(b)))"},
	{"new a.b.c", "Stmt(new ((a.b).c))"},
	{"new a().b", "Stmt((new a).b)"},
	{"new (a())()", "Stmt(new ((a())))"},
	{"new a()()", "Stmt((new a)())"},
	{"new new a", "Stmt(new (new a))"},
	{"new a(b)(c)", "Stmt((new a(b))(c))"},
	{"a?.b.c(d)[e]", "Stmt((((a?.b).c)(d))[e])"},
	{"a?.[0]?.(1)", "Stmt((a?.[0])?.(1))"},
	{"!a in b", "Stmt((!a) in b)"},
	{"typeof a.b", "Stmt(typeof (a.b))"},
	{"1..toString()", "Stmt((1..toString)())"},
	{"0x1.a", "Stmt(0x1.a)"},
	{"a\n++\nb", "Stmt(a) Stmt(++b)"},
	{"a = b\n++c", "Stmt(a=b) Stmt(++c)"},
	{"x = a ? b : c ? d : e", "Stmt(x=(a ? b : (c ? d : e)))"},
	{"({}).x", "Stmt(({}).x)"},
	{"({a} = b)", "Stmt(({a}=b))"},
	{"a ** b ** c", "Stmt(a**(b**c))"},
	{"a ? b : c, d", "Stmt((a ? b : c),d)"},
	{"x => y => z", "Stmt(Params(Binding(x)) => Stmt({ Stmt(return (Params(Binding(y)) => Stmt({ Stmt(return z) }))) }))"},
	{"(x) => (y) => ({z})", "Stmt(Params(Binding(x)) => Stmt({ Stmt(return (Params(Binding(y)) => Stmt({ Stmt(return ({z})) }))) }))"},
	{"async x => await x", "Stmt(async Params(Binding(x)) => Stmt({ Stmt(return (await x)) }))"},
	{"label: for(;;) continue label", "Stmt(label : Stmt(for ; ; Stmt({ Stmt(continue label) })))"},
	{"if (a) b; else if (c) d; else e", "Stmt(if a Stmt(b) else Stmt(if c Stmt(d) else Stmt(e)))"},
	{"do a; while (b) c", "Stmt(do Stmt(a) while b) Stmt(c)"},
	{"x = function f() {}()", "Stmt(x=(Decl(function f Params() Stmt({ }))()))"},
	{"(function(){}())", "Stmt((Decl(function Params() Stmt({ }))()))"},
	{"!function(){}()", "Stmt(!(Decl(function Params() Stmt({ }))()))"},
	{"x = class A extends (B, C) {}", "Stmt(x=Decl(class A extends ((B,C))))"},
	{"x = a\n`t`", "Stmt(x=a`t`)"},
	{"x = a`t`.b`u`", "Stmt(x=(a`t`.b)`u`)"},
	{"`a${b}c${`d${e}f`}g`", "Stmt(`a${b}c${`d${e}f`}g`)"},
	{"for (var i = 0, j = 1; i < j; i++, j--) ;", "Stmt(for Decl(var Binding(i = 0) Binding(j = 1)) ; (i<j) ; ((i++),(j--)) Stmt({ }))"},
	{"for (x = a ? b in c : d;;);", "Stmt(for (x=(a ? (b in c) : d)) ; ; Stmt({ }))"},
	{"for (var x = (a in b);;);", "Stmt(for Decl(var Binding(x = ((a in b)))) ; ; Stmt({ }))"},
	{"switch (a) { case 1: case 2: b; default: }", "Stmt(switch a Clause(case 1) Clause(case 2 Stmt(b)) Clause(default))"},
	{"throw a, b", "Stmt(throw (a,b))"},
	{"get = set", "Stmt(get=set)"},
}

// c03Fixed: the minimal instances of the known deviations and of the listed rejections, first, so that the
// replay of a finding is the shortest program that shows it.
func c03Fixed(rep *Report) {
	for o := 0; o < 4; o++ {
		// UpdateExpression ** ExponentiationExpression (rejected before efda118)
		c03AcceptCheck(rep, []byte("++a**b"), o, "Stmt((++a)**b)", "fixed", true)
		c03AcceptCheck(rep, []byte("--a**b**c"), o, "Stmt((--a)**(b**c))", "fixed", true)
		// the trailing comma of the arrow cover grammar, with its arrow (without: rejected, below; accepted before a1df361)
		c03AcceptCheck(rep, []byte("(a,)=>a"), o, "Stmt(Params(Binding(a)) => Stmt({ Stmt(return a) }))", "fixed", true)
		c03AcceptCheck(rep, []byte("(a,b,)=>a"), o, "Stmt(Params(Binding(a), Binding(b)) => Stmt({ Stmt(return a) }))", "fixed", true)
		c03AcceptCheck(rep, []byte("async(a,)"), o, "Stmt(async(a))", "fixed", true)
		c03AcceptCheck(rep, []byte("f(a,)"), o, "Stmt(f(a))", "fixed", true)
		// a ';' after a line break ends the statement it follows when that statement is terminated by ';' (5e610dc) ...
		c03AcceptCheck(rep, []byte("a\n;b"), o, "Stmt(a) Stmt(b)", "fixed", true)
		c03AcceptCheck(rep, []byte("do a\n;while(b)"), o, "Stmt(do Stmt(a) while b)", "fixed", true)
		c03AcceptCheck(rep, []byte("if(a)b\n;else c"), o, "Stmt(if a Stmt(b) else Stmt(c))", "fixed", true)
		c03AcceptCheck(rep, []byte("var a\n;b"), o, "Decl(var Binding(a)) Stmt(b)", "fixed", true)
		c03AcceptCheck(rep, []byte("throw a\n;b"), o, "Stmt(throw a) Stmt(b)", "fixed", true)
		c03AcceptCheck(rep, []byte("debugger\n;a"), o, "Stmt(debugger) Stmt(a)", "fixed", true)
		// ... and is an EmptyStatement after a statement that is not
		c03AcceptCheck(rep, []byte("{}\n;a"), o, "Stmt({ }) Stmt() Stmt(a)", "fixed", true)
		c03AcceptCheck(rep, []byte(";\n;"), o, "Stmt() Stmt()", "fixed", true)
		c03AcceptCheck(rep, []byte("l: x\n;\n;b"), o, "Stmt(l : Stmt(x)) Stmt() Stmt(b)", "fixed", true)
		// the same on the line of the preceding statement: dropped (known finding)
		c03AcceptCheck(rep, []byte("{};a"), o, "Stmt({ }) Stmt() Stmt(a)", "fixed", true)
		c03AcceptCheck(rep, []byte(";;"), o, "Stmt() Stmt()", "fixed", true)
		c03AcceptCheck(rep, []byte("l: x;;"), o, "Stmt(l : Stmt(x)) Stmt()", "fixed", true)
		c03AcceptCheck(rep, []byte("if(a);;b"), o, "Stmt(if a Stmt()) Stmt() Stmt(b)", "fixed", true)
		c03AcceptCheck(rep, []byte("function f(){};a"), o, "Decl(function f Params() Stmt({ })) Stmt() Stmt(a)", "fixed", true)
		if o&2 == 0 { // module items are not allowed with Options.Inline
			// an exported function / class declaration is not terminated by ';': the ';' is an EmptyStatement on either
			// line (dropped before def2553); the other exports and import() / import.meta statements take their ';' on any line
			c03AcceptCheck(rep, []byte("export function f(){}\n;"), o, "Stmt(export Decl(function f Params() Stmt({ }))) Stmt()", "fixed", true)
			c03AcceptCheck(rep, []byte("export function f(){};"), o, "Stmt(export Decl(function f Params() Stmt({ }))) Stmt()", "fixed", true)
			c03AcceptCheck(rep, []byte("export function f(){}\n;a"), o, "Stmt(export Decl(function f Params() Stmt({ }))) Stmt() Stmt(a)", "fixed", true)
			c03AcceptCheck(rep, []byte("export async function f(){};a"), o, "Stmt(export Decl(async function f Params() Stmt({ }))) Stmt() Stmt(a)", "fixed", true)
			c03AcceptCheck(rep, []byte("export class A{}\n;a"), o, "Stmt(export Decl(class A)) Stmt() Stmt(a)", "fixed", true)
			c03AcceptCheck(rep, []byte("export default class{}\n;a"), o, "Stmt(export default Decl(class)) Stmt() Stmt(a)", "fixed", true)
			c03AcceptCheck(rep, []byte("export default function(){};a"), o, "Stmt(export default Decl(function Params() Stmt({ }))) Stmt() Stmt(a)", "fixed", true)
			c03AcceptCheck(rep, []byte("export default a\n;b"), o, "Stmt(export default a) Stmt(b)", "fixed", true)
			c03AcceptCheck(rep, []byte("export var a\n;b"), o, "Stmt(export Decl(var Binding(a))) Stmt(b)", "fixed", true)
			c03AcceptCheck(rep, []byte("var a;export {a}\n;b"), o, "Decl(var Binding(a)) Stmt(export { a }) Stmt(b)", "fixed", true)
			c03AcceptCheck(rep, []byte("export * from 'm'\n;a"), o, "Stmt(export * from 'm') Stmt(a)", "fixed", true)
			c03AcceptCheck(rep, []byte("import 'm'\n;a"), o, "Stmt(import 'm') Stmt(a)", "fixed", true)
			c03AcceptCheck(rep, []byte("import('x')\n;b"), o, "Stmt(import('x')) Stmt(b)", "fixed", true)
			c03AcceptCheck(rep, []byte("import.meta\n;b"), o, "Stmt(import.meta) Stmt(b)", "fixed", true)
		}
		// `async` followed by a line break is not the async modifier: a method / field named async (5ec8a83)
		c03AcceptCheck(rep, []byte("class A{static async\n(a){}}"), o, "Decl(class A Method(static async Params(Binding(a)) Stmt({ })))", "fixed", true)
		c03AcceptCheck(rep, []byte("class A{async\nm(){}}"), o, "Decl(class A Field(async) Method(m Params() Stmt({ })))", "fixed", true)
		c03AcceptCheck(rep, []byte("class A{static async\nm(){}}"), o, "Decl(class A Field(static async) Method(m Params() Stmt({ })))", "fixed", true)
		c03AcceptCheck(rep, []byte("class A{async\n*m(){}}"), o, "Decl(class A Field(async) Method(* m Params() Stmt({ })))", "fixed", true)
		c03AcceptCheck(rep, []byte("class A{async\n=1}"), o, "Decl(class A Field(async = 1))", "fixed", true)
		c03AcceptCheck(rep, []byte("class A{async\n}"), o, "Decl(class A Field(async))", "fixed", true)
		c03AcceptCheck(rep, []byte("class A{async\n[m](){}}"), o, "Decl(class A Field(async) Method([m] Params() Stmt({ })))", "fixed", true)
		c03AcceptCheck(rep, []byte("class A{async\nstatic m(){}}"), o, "Decl(class A Field(async) Method(static m Params() Stmt({ })))", "fixed", true)
		c03AcceptCheck(rep, []byte("class A{get\nm(){}}"), o, "Decl(class A Method(get m Params() Stmt({ })))", "fixed", true)
		// a private getter / setter pair, and the same private name in a nested class
		c03AcceptCheck(rep, []byte("class A{get #a(){} set #a(v){}}"), o, "Decl(class A Method(get #a Params() Stmt({ })) Method(set #a Params(Binding(v)) Stmt({ })))", "fixed", true)
		c03AcceptCheck(rep, []byte("class A{set #a(v){} static #b; get #a(){}}"), o, "Decl(class A Method(set #a Params(Binding(v)) Stmt({ })) Field(static #b) Method(get #a Params() Stmt({ })))", "fixed", true)
		c03AcceptCheck(rep, []byte("class A{static get #a(){} static set #a(v){}}"), o, "Decl(class A Method(static get #a Params() Stmt({ })) Method(static set #a Params(Binding(v)) Stmt({ })))", "fixed", true)
		c03AcceptCheck(rep, []byte("class A{#a; m(){ class B{#a} }}"), o, "Decl(class A Field(#a) Method(m Params() Stmt({ Decl(class B Field(#a)) })))", "fixed", true)
		// Initializer[+In] / ComputedPropertyName[+In] inside a binding pattern, also in the head of a for statement (4c9b0c4)
		c03AcceptCheck(rep, []byte("for(var[a=b in c]of d);"), o, "Stmt(for Decl(var Binding([ Binding(a = (b in c)) ])) of d Stmt({ }))", "fixed", true)
		c03AcceptCheck(rep, []byte("for(let{[a in b]:c}=d;;);"), o, "Stmt(for Decl(let Binding({ [a in b]: Binding(c) } = d)) ; ; Stmt({ }))", "fixed", true)
		// a string property name that is not a canonical number is not that number (ddc1c0d)
		c03AcceptCheck(rep, []byte("x={'1.0':1}"), o, "Stmt(x={'1.0': 1})", "fixed", true)
		c03AcceptCheck(rep, []byte("x={'.5':1,'1.':2,'01':3,'1e3':4,'1234567890123456':5}"), o, "Stmt(x={'.5': 1, '1.': 2, '01': 3, '1e3': 4, '1234567890123456': 5})", "fixed", true)
		c03AcceptCheck(rep, []byte("x={'1.5':1,'10':2,'0':3,'123456789012345':4}"), o, "Stmt(x={1.5: 1, 10: 2, 0: 3, 123456789012345: 4})", "fixed", true)
		c03AcceptCheck(rep, []byte("x={'s':1,'12':2,'a b':3}"), o, "Stmt(x={s: 1, 12: 2, 'a b': 3})", "fixed", true)
		c03AcceptCheck(rep, []byte("a+b*c"), o, "Stmt(a+(b*c))", "fixed", true)
		c03AcceptCheck(rep, []byte("a<<b+c"), o, "Stmt(a<<(b+c))", "fixed", true)
		c03AcceptCheck(rep, []byte("(a??b)||c"), o, "Stmt(((a??b))||c)", "fixed", true)
		c03AcceptCheck(rep, []byte("(-a)**b"), o, "Stmt(((-a))**b)", "fixed", true)
	}
	for _, p := range c03FixedPrograms {
		src := strings.ReplaceAll(p[0], "\\n", "\n")
		for o := 0; o < 4; o++ {
			c03AcceptCheck(rep, []byte(src), o, p[1], "fixed-programs", true)
		}
	}
	rejectCheckFixed := func(kind, s string) { c03RejectCheck(rep, kind, []byte(s)) }
	rejectCheckFixed("var-then-let-in-block", "{var a;let a}")
	rejectCheckFixed("var-then-let-in-block", "{function a(){}let a}")
	// a private name declared twice: only a getter and a setter, both static or both not (accepted before 402589f)
	for _, src := range []string{"class A{#a;#a}", "class A{get #a(){} get #a(){}}", "class A{static get #a(){} set #a(v){}}", "class A{#a(){} #a}",
		"class A{get #a(){} set #a(v){} #a}", "class A{static #a; #a}", "class A{#a(){} static #a(){}}"} {
		rejectCheckFixed("private-name-twice", src)
	}
	// the dropped same-line ';' (c03-tree:empty-statement-same-line) where exactly one statement is allowed
	rejectCheckFixed("empty-statement-same-line", "if(a);;else b")
	rejectCheckFixed("empty-statement-same-line", "do{};while(a)")
	rejectCheckFixed("empty-statement-same-line", "if(a){};else b")
	for _, s := range []string{"let a;let a", "let a;{var a}", "function f(a){let a}", "(a,)", "x=(a,b,)", "f((a,))", "(a,\n)", "(a,)\n=>a", "-a**b", "-(++a)**b", "for(var[a]=b in c;;);", "for(var a=b in c;;);", "if(a)b;;else c", "a??b||c", "a||b??c", "a&&b??c", "a??b&&c", "a+b=c", "(a", "a)", "a[b", "a]", "f(a", "{a"} {
		kind := "fixed"
		if strings.Contains(s, ",)") || strings.Contains(s, ",\n)") {
			kind = "paren-trailing-comma"
		}
		c03RejectCheck(rep, kind, []byte(s))
	}
}

// c03Expressions: one expression statement per program, every spelling, all four Options.
func c03Expressions(r *Rng, tier string, rep *Report) {
	n := 6000
	if tier == "thorough" {
		n = 300000
	}
	g := &c03ExprGen{r: r}
	for i := 0; i < n; i++ {
		e := g.gen(c03NtExpression, 1+r.Intn(5), true)
		ts := g.toks(e)
		nolt := make([]bool, len(ts)+1)
		c03MarkPostfix(e, g, 0, nolt)
		// an expression statement cannot start with these (they would be another statement)
		src := c03SpellVaried(r, ts, nolt)
		want := c03ExprStmtString(e.str())
		o := r.Intn(4)
		bucket := "expr"
		if c03HasPrefixUpdateExpBase(e) {
			bucket = "expr-prefix-update-exp"
		}
		c03AcceptCheck(rep, src, o, want, bucket, len(ts) >= 3)
	}
}

func c03FirstLine(err error) string {
	s := err.Error()
	if i := strings.IndexByte(s, '\n'); i >= 0 {
		s = s[:i]
	}
	return s
}

// c03SpellNoASI: varied spelling that never puts a line break before ++ / -- (a line break there would end
// the statement by automatic semicolon insertion and could turn an ill-formed expression into two valid statements)
func c03SpellNoASI(r *Rng, ts []c03Jtok) []byte {
	nolt := make([]bool, len(ts))
	for i, t := range ts {
		if t.ty == js.IncrToken || t.ty == js.DecrToken {
			nolt[i] = true
		}
	}
	return c03SpellVaried(r, ts, nolt)
}

// c03RejectCheck: src is ill-formed (kind says why) and must be rejected under every Options value.
func c03RejectCheck(rep *Report, kind string, src []byte) {
	for o := 0; o < 4; o++ {
		ast, err, pan := c03ParseJS(src, o)
		if pan != nil {
			rep.Violate("c03-panic:"+string(src), fmt.Sprintf("js.Parse panics on %q: %v", src, pan), map[string]interface{}{"src": string(src), "opts": o})
		} else if err == nil {
			key := "c03-reject:" + kind + ":" + string(src)
			if kind == "var-then-let-in-block" || kind == "empty-statement-same-line" {
				key = "c03-reject:" + kind // one stable key: every instance is the same defect
			}
			rep.Violate(key, fmt.Sprintf("ill-formed program accepted (%s): %q parsed as %s", kind, src, c03AstString(ast)), map[string]interface{}{"src": string(src), "opts": o})
		}
		rep.Eval(fmt.Sprintf("reject:%s:%q/%d", kind, src, o), true, "reject-"+kind)
	}
}

// c03Forbidden: the operator sequences the grammar forbids, single-bracket mutations, double declarations.
func c03Forbidden(r *Rng, tier string, rep *Report) {
	reject := func(kind string, src []byte) { c03RejectCheck(rep, kind, src) }
	g := &c03ExprGen{r: r}
	n := 300
	if tier == "thorough" {
		n = 20000
	}
	operand := func(nt int) []c03Jtok { return g.toks(g.gen(nt, r.Intn(3), true)) }
	for i := 0; i < n; i++ {
		// unary operator applied to the base of ** without parentheses
		u := c03UnaryOps[r.Intn(len(c03UnaryOps))]
		reject("unary-exp", c03SpellNoASI(r, c03Cat(u, operand(c03NtUpdate), js.ExpToken, operand(c03NtExponent))))
		// ?? mixed with || or && without parentheses
		lo := []js.TokenType{js.OrToken, js.AndToken}[r.Intn(2)]
		reject("mixed-coalesce", c03SpellNoASI(r, c03Cat(operand(c03NtBitOR), js.NullishToken, operand(c03NtBitOR), lo, operand(c03NtBitOR))))
		reject("mixed-coalesce", c03SpellNoASI(r, c03Cat(operand(c03NtBitOR), lo, operand(c03NtBitOR), js.NullishToken, operand(c03NtBitOR))))
		// assignment to a binary / unary / conditional expression
		bo := c03BinaryOps[r.Intn(len(c03BinaryOps))]
		ao := c03AssignOps[r.Intn(len(c03AssignOps))]
		reject("assign-to-binary", c03SpellNoASI(r, c03Cat(operand(c03NtUnary), bo, operand(c03NtUnary), ao, operand(c03NtAssignment))))
		reject("assign-to-unary", c03SpellNoASI(r, c03Cat(u, operand(c03NtUnary), ao, operand(c03NtAssignment))))
	}
	// `( Expression , )` is not a ParenthesizedExpression (a trailing comma is only allowed in arrow parameters,
	// i.e. when `=>` follows on the same line); accepted as `( Expression )` before a1df361
	nt := 60
	if tier == "thorough" {
		nt = 3000
	}
	for i := 0; i < nt; i++ {
		list := operand(c03NtAssignment)
		for k := r.Intn(3); k > 0; k-- {
			list = c03Cat(list, c03TkComma, operand(c03NtAssignment))
		}
		inner := c03Cat(c03TkLP, list, c03TkComma, c03TkRP)
		switch i % 6 {
		case 0:
			reject("paren-trailing-comma", c03SpellNoASI(r, inner))
		case 1:
			reject("paren-trailing-comma", c03SpellNoASI(r, c03Cat(c03TkA, js.EqToken, inner)))
		case 2:
			reject("paren-trailing-comma", c03SpellNoASI(r, c03Cat(inner, js.AddToken, c03TkB)))
		case 3:
			reject("paren-trailing-comma", c03SpellNoASI(r, c03Cat(c03TkA, c03TkLP, inner, c03TkRP)))
		case 4:
			reject("paren-trailing-comma", c03SpellNoASI(r, c03Cat(c03TkLP, inner, c03TkRP)))
		default:
			reject("paren-trailing-comma", c03SpellNoASI(r, c03Cat(inner, js.DotToken, c03TkB)))
		}
	}
	// all operators: a+b=c for every binary and every assignment operator
	for _, bo := range c03BinaryOps {
		for _, ao := range c03AssignOps {
			reject("assign-to-binary", c03SpellToks(c03Cat(c03TkA, bo, c03TkB, ao, c03TkC)))
		}
	}
	for _, u := range c03UnaryOps {
		reject("unary-exp", c03SpellToks(c03Cat(u, c03TkA, js.ExpToken, c03TkB)))
	}
	// single-bracket mutations of generated expressions (no '/' so that no regular expression can swallow a bracket)
	m := 1500
	if tier == "thorough" {
		m = 100000
	}
	for i := 0; i < m; i++ {
		e := g.gen(c03NtExpression, 2+r.Intn(4), true)
		ts := g.toks(e)
		hasDiv := false
		var br []int
		for j, t := range ts {
			if t.ty == js.DivToken || t.ty == js.DivEqToken {
				hasDiv = true
			}
			if t.ty == js.OpenParenToken || t.ty == js.CloseParenToken || t.ty == js.OpenBracketToken || t.ty == js.CloseBracketToken {
				br = append(br, j)
			}
		}
		if hasDiv {
			continue
		}
		if len(br) > 0 && r.Bool() {
			j := br[r.Intn(len(br))]
			mt := append(append([]c03Jtok{}, ts[:j]...), ts[j+1:]...)
			reject("bracket-deleted", c03SpellToks(mt))
		} else {
			j := r.Intn(len(ts) + 1)
			b := []c03Jtok{c03TkLP, c03TkRP, c03TkLB, c03TkRB, c03OpTok(js.OpenBraceToken), c03OpTok(js.CloseBraceToken)}[r.Intn(6)]
			mt := append(append(append([]c03Jtok{}, ts[:j]...), b), ts[j:]...)
			reject("bracket-added", c03SpellToks(mt))
		}
	}
}

// c03Programs: sequences of statements with explicit semicolons or automatic semicolon insertion.
func c03Programs(r *Rng, tier string, rep *Report) {
	n := 2000
	if tier == "thorough" {
		n = 100000
	}
	g := &c03ExprGen{r: r}
	for i := 0; i < n; i++ {
		k := 2 + r.Intn(3)
		var ts []c03Jtok
		var nolt []bool
		var want []string
		for s := 0; s < k; s++ {
			e := g.gen(c03NtExpression, 1+r.Intn(3), true)
			st := g.toks(e)
			// the next statement must not continue the previous expression: keep to starts that cannot
			first := st[0].ty
			semi := r.Bool()
			if s > 0 && !semi {
				if first == js.OpenParenToken || first == js.OpenBracketToken || first == js.AddToken || first == js.SubToken ||
					first == js.DivToken || first == js.IncrToken || first == js.DecrToken {
					semi = true
				}
			}
			snl := make([]bool, len(st)+1)
			c03MarkPostfix(e, g, 0, snl)
			if s > 0 {
				if semi {
					ts = append(ts, c03TkSemi)
					nolt = append(nolt, false)
				} else {
					st[0].lt = true // forced line break: automatic semicolon insertion
				}
			}
			ts = append(ts, st...)
			nolt = append(nolt, snl[:len(st)]...)
			want = append(want, c03ExprStmtString(e.str()))
		}
		// spell: forced line breaks are kept, others varied
		var b bytes.Buffer
		start := 0
		for j := 1; j <= len(ts); j++ {
			if j == len(ts) || ts[j].lt {
				seg := make([]c03Jtok, j-start)
				copy(seg, ts[start:j])
				seg[0].lt = false
				if start > 0 {
					b.WriteString([]string{"\n", " \n ", "\r\n", " // x\n", "/* a\n b */"}[r.Intn(5)])
				}
				b.Write(c03SpellVaried(r, seg, nolt[start:j]))
				start = j
			}
		}
		src := b.Bytes()
		o := r.Intn(4)
		c03AcceptCheck(rep, src, o, strings.Join(want, " "), "expr-stmts", true)
	}
}
