package main

import (
	"bytes"
	"fmt"
	"strings"

	"github.com/tdewolff/parse/v2"
	"github.com/tdewolff/parse/v2/js"
)

// Generator of expressions from the ECMA-262 expression grammar (ES2022 clause 13), written from the
// standard's productions and independent of js/parse.go's precedence numbers.  Every generated tree carries
// its expected String() form (the fully parenthesised structure), built here, not by the parser.

// nonterminals of the standard
const (
	ntExpression = iota
	ntAssignment
	ntConditional
	ntShortCircuit
	ntLogicalOR
	ntCoalesce
	ntLogicalAND
	ntBitOR
	ntBitXOR
	ntBitAND
	ntEquality
	ntRelational
	ntShift
	ntAdditive
	ntMultiplicative
	ntExponent
	ntUnary
	ntUpdate
	ntLHS
	ntPrimary
)

const (
	gxLeaf = iota
	gxGroup
	gxPrefix
	gxPostfix
	gxBinary
	gxCond
	gxDot
	gxIndex
	gxCall
	gxComma
	gxRaw // a construct outside the operator fragment: fixed tokens + expected String()
)

type gx struct {
	kind int
	op   js.TokenType
	tok  jtok
	kids []*gx
	raw  []jtok
	rawS string
}

// String() of js/ast.go, restated
func (e *gx) str() string {
	switch e.kind {
	case gxLeaf:
		return string(e.tok.data)
	case gxGroup:
		return "(" + e.kids[0].str() + ")"
	case gxPrefix:
		op := prefixResult(e.op)
		if js.IsIdentifierName(op) {
			return "(" + op.String() + " " + e.kids[0].str() + ")"
		}
		return "(" + op.String() + e.kids[0].str() + ")"
	case gxPostfix:
		return "(" + e.kids[0].str() + string(e.op.Bytes()) + ")"
	case gxBinary:
		if js.IsIdentifierName(e.op) {
			return "(" + e.kids[0].str() + " " + e.op.String() + " " + e.kids[1].str() + ")"
		}
		return "(" + e.kids[0].str() + e.op.String() + e.kids[1].str() + ")"
	case gxCond:
		return "(" + e.kids[0].str() + " ? " + e.kids[1].str() + " : " + e.kids[2].str() + ")"
	case gxDot:
		return "(" + e.kids[0].str() + "." + string(e.tok.data) + ")"
	case gxIndex:
		return "(" + e.kids[0].str() + "[" + e.kids[1].str() + "])"
	case gxCall:
		var as []string
		for _, a := range e.kids[1:] {
			as = append(as, a.str())
		}
		return "(" + e.kids[0].str() + "(" + strings.Join(as, ", ") + "))"
	case gxComma:
		var as []string
		for _, a := range e.kids {
			as = append(as, a.str())
		}
		return "(" + strings.Join(as, ",") + ")"
	case gxRaw:
		return e.rawS
	}
	return "?"
}

// the parser names unary + - ++ -- by their own token types
func prefixResult(op js.TokenType) js.TokenType {
	switch op {
	case js.AddToken:
		return js.PosToken
	case js.SubToken:
		return js.NegToken
	case js.IncrToken:
		return js.PreIncrToken
	case js.DecrToken:
		return js.PreDecrToken
	}
	return op
}

type exprGen struct {
	r        *Rng
	trailing bool // allow a trailing comma in argument lists
	raws     func(g *exprGen, depth int) *gx // optional: primary expressions outside the operator fragment
}

func leaf(t jtok) *gx { return &gx{kind: gxLeaf, tok: t} }

var genIdents = []jtok{tkA, tkB, tkC, tkD, jt(js.IdentifierToken, "x1"), jt(js.IdentifierToken, "$y"), jt(js.IdentifierToken, "_z")}
var genLits = []jtok{tkInt, tkDec, tkHex, tkStr, tkThis, tkNull, tkTrue, jt(js.FalseToken, "false"), jt(js.IntegerToken, "0"), jt(js.DecimalToken, "1e3"), jt(js.StringToken, "\"q\"")}

var (
	mulOps   = []js.TokenType{js.MulToken, js.DivToken, js.ModToken}
	addOps   = []js.TokenType{js.AddToken, js.SubToken}
	shiftOps = []js.TokenType{js.LtLtToken, js.GtGtToken, js.GtGtGtToken}
	relOps   = []js.TokenType{js.LtToken, js.LtEqToken, js.GtToken, js.GtEqToken, js.InstanceofToken, js.InToken}
	eqOps    = []js.TokenType{js.EqEqToken, js.NotEqToken, js.EqEqEqToken, js.NotEqEqToken}
	unaryOps = []js.TokenType{js.DeleteToken, js.VoidToken, js.TypeofToken, js.AddToken, js.SubToken, js.BitNotToken, js.NotToken}
)

func (g *exprGen) pick(ops []js.TokenType) js.TokenType { return ops[g.r.Intn(len(ops))] }

func (g *exprGen) bin(op js.TokenType, l, r *gx) *gx {
	return &gx{kind: gxBinary, op: op, kids: []*gx{l, r}}
}

// gen returns a tree derivable from nonterminal nt (with the [In] parameter as given).
func (g *exprGen) gen(nt, depth int, in bool) *gx {
	r := g.r
	down := depth <= 0 || r.Chance(2, 5)
	switch nt {
	case ntExpression:
		if down || r.Chance(2, 3) {
			return g.gen(ntAssignment, depth, in)
		}
		n := 2 + r.Intn(2)
		e := &gx{kind: gxComma}
		for i := 0; i < n; i++ {
			e.kids = append(e.kids, g.gen(ntAssignment, depth-1, in))
		}
		return e
	case ntAssignment:
		if down || r.Chance(1, 2) {
			return g.gen(ntConditional, depth, in)
		}
		return g.bin(g.pick(assignOps), g.gen(ntLHS, depth-1, in), g.gen(ntAssignment, depth-1, in))
	case ntConditional:
		if down || r.Chance(1, 2) {
			return g.gen(ntShortCircuit, depth, in)
		}
		return &gx{kind: gxCond, kids: []*gx{g.gen(ntShortCircuit, depth-1, in), g.gen(ntAssignment, depth-1, true), g.gen(ntAssignment, depth-1, in)}}
	case ntShortCircuit:
		if !down && r.Chance(1, 3) {
			return g.gen(ntCoalesce, depth, in)
		}
		return g.gen(ntLogicalOR, depth, in)
	case ntCoalesce:
		var head *gx
		if depth > 0 && r.Chance(1, 3) {
			head = g.gen(ntCoalesce, depth-1, in)
		} else {
			head = g.gen(ntBitOR, depth-1, in)
		}
		return g.bin(js.NullishToken, head, g.gen(ntBitOR, depth-1, in))
	case ntLogicalOR:
		return g.leftAssoc(nt, ntLogicalAND, []js.TokenType{js.OrToken}, depth, in, down)
	case ntLogicalAND:
		return g.leftAssoc(nt, ntBitOR, []js.TokenType{js.AndToken}, depth, in, down)
	case ntBitOR:
		return g.leftAssoc(nt, ntBitXOR, []js.TokenType{js.BitOrToken}, depth, in, down)
	case ntBitXOR:
		return g.leftAssoc(nt, ntBitAND, []js.TokenType{js.BitXorToken}, depth, in, down)
	case ntBitAND:
		return g.leftAssoc(nt, ntEquality, []js.TokenType{js.BitAndToken}, depth, in, down)
	case ntEquality:
		return g.leftAssoc(nt, ntRelational, eqOps, depth, in, down)
	case ntRelational:
		ops := relOps
		if !in {
			ops = relOps[:5]
		}
		return g.leftAssoc(nt, ntShift, ops, depth, in, down)
	case ntShift:
		return g.leftAssoc(nt, ntAdditive, shiftOps, depth, in, down)
	case ntAdditive:
		return g.leftAssoc(nt, ntMultiplicative, addOps, depth, in, down)
	case ntMultiplicative:
		return g.leftAssoc(nt, ntExponent, mulOps, depth, in, down)
	case ntExponent:
		if down || r.Chance(1, 2) {
			return g.gen(ntUnary, depth, in)
		}
		return g.bin(js.ExpToken, g.gen(ntUpdate, depth-1, in), g.gen(ntExponent, depth-1, in))
	case ntUnary:
		if down || r.Chance(1, 2) {
			return g.gen(ntUpdate, depth, in)
		}
		return &gx{kind: gxPrefix, op: g.pick(unaryOps), kids: []*gx{g.gen(ntUnary, depth-1, in)}}
	case ntUpdate:
		if down || r.Chance(1, 2) {
			return g.gen(ntLHS, depth, in)
		}
		if r.Bool() {
			return &gx{kind: gxPostfix, op: g.pick([]js.TokenType{js.IncrToken, js.DecrToken}), kids: []*gx{g.gen(ntLHS, depth-1, in)}}
		}
		return &gx{kind: gxPrefix, op: g.pick([]js.TokenType{js.IncrToken, js.DecrToken}), kids: []*gx{g.gen(ntUnary, depth-1, in)}}
	case ntLHS:
		e := g.gen(ntPrimary, depth, in)
		for depth > 0 && r.Chance(1, 3) {
			depth--
			switch r.Intn(3) {
			case 0:
				names := []string{"p", "q", "typeof", "in", "delete", "null", "x1"}
				e = &gx{kind: gxDot, kids: []*gx{e}, tok: jtok{data: []byte(names[r.Intn(len(names))])}}
			case 1:
				e = &gx{kind: gxIndex, kids: []*gx{e, g.gen(ntExpression, depth, true)}}
			default:
				c := &gx{kind: gxCall, kids: []*gx{e}}
				for n := r.Intn(3); n > 0; n-- {
					c.kids = append(c.kids, g.gen(ntAssignment, depth, true))
				}
				e = c
			}
		}
		return e
	default: // ntPrimary
		if depth > 0 && r.Chance(1, 3) {
			return &gx{kind: gxGroup, kids: []*gx{g.gen(ntExpression, depth-1, true)}}
		}
		if g.raws != nil && depth > 0 && r.Chance(1, 4) {
			if e := g.raws(g, depth-1); e != nil {
				return e
			}
		}
		if r.Chance(2, 3) {
			return leaf(genIdents[r.Intn(len(genIdents))])
		}
		return leaf(genLits[r.Intn(len(genLits))])
	}
}

func (g *exprGen) leftAssoc(nt, next int, ops []js.TokenType, depth int, in, down bool) *gx {
	if down || g.r.Chance(1, 2) {
		return g.gen(next, depth, in)
	}
	return g.bin(g.pick(ops), g.gen(nt, depth-1, in), g.gen(next, depth-1, in))
}

// toks is the token list of the tree; nolt marks tokens that must stay on the line of their predecessor
func (g *exprGen) toks(e *gx) []jtok {
	switch e.kind {
	case gxLeaf:
		return []jtok{e.tok}
	case gxGroup:
		return cat(tkLP, g.toks(e.kids[0]), tkRP)
	case gxPrefix:
		return cat(e.op, g.toks(e.kids[0]))
	case gxPostfix:
		return cat(g.toks(e.kids[0]), e.op)
	case gxBinary:
		return cat(g.toks(e.kids[0]), e.op, g.toks(e.kids[1]))
	case gxCond:
		return cat(g.toks(e.kids[0]), tkQ, g.toks(e.kids[1]), tkColon, g.toks(e.kids[2]))
	case gxDot:
		nm := e.tok
		l := js.NewLexer(parse.NewInputBytes(nm.data))
		nm.ty, _ = l.Next()
		return cat(g.toks(e.kids[0]), tkDot, nm)
	case gxIndex:
		return cat(g.toks(e.kids[0]), tkLB, g.toks(e.kids[1]), tkRB)
	case gxCall:
		out := cat(g.toks(e.kids[0]), tkLP)
		for i, a := range e.kids[1:] {
			if i > 0 {
				out = append(out, tkComma)
			}
			out = append(out, g.toks(a)...)
		}
		if g.trailing && len(e.kids) > 1 && g.r.Chance(1, 6) {
			out = append(out, tkComma)
		}
		return append(out, tkRP)
	case gxComma:
		var out []jtok
		for i, a := range e.kids {
			if i > 0 {
				out = append(out, tkComma)
			}
			out = append(out, g.toks(a)...)
		}
		return out
	case gxRaw:
		return append([]jtok{}, e.raw...)
	}
	return nil
}

// exprStmtString is ExprStmt.String() restated
func exprStmtString(v string) string {
	if len(v) > 0 && v[0] == '(' && v[len(v)-1] == ')' {
		return "Stmt" + v
	}
	return "Stmt(" + v + ")"
}

// hasPrefixUpdateExpBase: `++a ** b` / `--a ** b` (UpdateExpression ** ...), a grammatical form that the
// parser is known to reject (KNOWN_FINDINGS).
func hasPrefixUpdateExpBase(e *gx) bool {
	if e.kind == gxBinary && e.op == js.ExpToken && e.kids[0].kind == gxPrefix && (e.kids[0].op == js.IncrToken || e.kids[0].op == js.DecrToken) {
		return true
	}
	for _, k := range e.kids {
		if hasPrefixUpdateExpBase(k) {
			return true
		}
	}
	return false
}

// ---------------------------------------------------------------------------------------- spelling

// spellVaried writes tokens with varied white space, comments and line breaks.  A line break is never put
// before a token marked nolt (restricted productions), and never before a postfix ++/-- (the caller marks
// those).  If the text does not lex back to the same tokens, the plain one-space spelling is used.
func spellVaried(r *Rng, ts []jtok, nolt []bool) []byte {
	seps := []string{"", " ", " ", "\t", "  ", "/*c*/", " /* c\n d */ ", "\n", " // c\n", "\r\n"}
	var b bytes.Buffer
	want := make([]jtok, len(ts))
	for i, t := range ts {
		s := seps[r.Intn(len(seps))]
		hasNL := strings.ContainsAny(s, "\n\r")
		if hasNL && (i == 0 || (i < len(nolt) && nolt[i])) {
			s = " "
			hasNL = false
		}
		if i == 0 && r.Bool() {
			s = ""
		}
		b.WriteString(s)
		b.Write(t.data)
		want[i] = jtok{t.ty, hasNL, t.data}
	}
	if r.Chance(1, 4) {
		b.WriteString(seps[r.Intn(len(seps))])
	}
	got, ok := relex(b.Bytes())
	if ok && len(got) == len(want) {
		same := true
		for i := range got {
			if got[i].ty != want[i].ty || !bytes.Equal(got[i].data, want[i].data) || (i > 0 && got[i].lt != want[i].lt) {
				same = false
				break
			}
		}
		if same {
			return b.Bytes()
		}
	}
	plain := make([]jtok, len(ts))
	for i, t := range ts {
		plain[i] = jtok{t.ty, false, t.data}
	}
	return spellToks(plain)
}

func noltOf(ts []jtok, e []bool) []bool {
	out := make([]bool, len(ts))
	copy(out, e)
	return out
}

// ---------------------------------------------------------------------------------------- oracle

func parseJS(src []byte, o int) (ast *js.AST, err error, pan interface{}) {
	pan = catch(func() { ast, err = js.Parse(parse.NewInputBytes(src), jsOpts(o)) })
	return
}

func dropEmptyStmts(ast *js.AST) string {
	var parts []string
	for _, s := range ast.List {
		if _, ok := s.(*js.EmptyStmt); !ok {
			parts = append(parts, s.String())
		}
	}
	return strings.Join(parts, " ")
}

func astString(ast *js.AST) string {
	var parts []string
	for _, s := range ast.List {
		parts = append(parts, s.String())
	}
	return strings.Join(parts, " ")
}

func c03Oracle(r *Rng, tier string, rep *Report) {
	c03Fixed(rep)
	c03Expressions(r, tier, rep)
	c03Programs(r, tier, rep)
	c03Forbidden(r, tier, rep)
}

// postfixNoLT marks the postfix ++/-- tokens of a token list produced by exprGen.toks: a line break before
// them would change the meaning (restricted production), so the speller must not put one there.
func markPostfix(e *gx, g *exprGen, pos int, nolt []bool) int {
	switch e.kind {
	case gxLeaf:
		return pos + 1
	case gxRaw:
		return pos + len(e.raw)
	case gxPostfix:
		p := markPostfix(e.kids[0], g, pos, nolt)
		nolt[p] = true
		return p + 1
	case gxGroup:
		return markPostfix(e.kids[0], g, pos+1, nolt) + 1
	case gxPrefix:
		return markPostfix(e.kids[0], g, pos+1, nolt)
	case gxBinary:
		p := markPostfix(e.kids[0], g, pos, nolt)
		return markPostfix(e.kids[1], g, p+1, nolt)
	case gxCond:
		p := markPostfix(e.kids[0], g, pos, nolt)
		p = markPostfix(e.kids[1], g, p+1, nolt)
		return markPostfix(e.kids[2], g, p+1, nolt)
	case gxDot:
		return markPostfix(e.kids[0], g, pos, nolt) + 2
	case gxIndex:
		p := markPostfix(e.kids[0], g, pos, nolt)
		return markPostfix(e.kids[1], g, p+1, nolt) + 1
	case gxCall:
		p := markPostfix(e.kids[0], g, pos, nolt) + 1
		for i, a := range e.kids[1:] {
			if i > 0 {
				p++
			}
			p = markPostfix(a, g, p, nolt)
		}
		return p + 1
	case gxComma:
		p := pos
		for i, a := range e.kids {
			if i > 0 {
				p++
			}
			p = markPostfix(a, g, p, nolt)
		}
		return p
	}
	return pos
}


// acceptCheck: src is a grammatical program whose tree must have the String() form want.
func acceptCheck(rep *Report, src []byte, o int, want string, prefixUpdExp bool, bucket string, nontrivial bool) {
	ast, err, pan := parseJS(src, o)
	switch {
	case pan != nil:
		rep.Violate("c03-panic:"+string(src), fmt.Sprintf("js.Parse panics on %q: %v", src, pan), map[string]interface{}{"src": string(src), "opts": o})
	case err != nil:
		if prefixUpdExp {
			rep.Violate("c03-accept:prefix-update-exp-base", fmt.Sprintf("grammatical program rejected: %q (UpdateExpression `++x`/`--x` as the base of **): %v", src, firstLine(err)), map[string]interface{}{"src": string(src), "opts": o, "expected": want})
		} else {
			rep.Violate("c03-accept:"+string(src), fmt.Sprintf("grammatical program rejected: %q: %v", src, firstLine(err)), map[string]interface{}{"src": string(src), "opts": o, "expected": want})
		}
	default:
		if got := astString(ast); got != want {
			if dropEmptyStmts(ast) == want {
				// `a <newline> ; b`: the grammar reads the ';' as the end of the first statement; the parser does
				// not take a ';' that follows a line break and then parses it as an EmptyStatement
				rep.Violate("c03-tree:empty-stmt-for-semicolon-after-newline", fmt.Sprintf("extra EmptyStmt for a ';' that follows a line break: %q: got %s want %s", src, got, want), map[string]interface{}{"src": string(src), "opts": o, "got": got, "expected": want})
			} else {
				rep.Violate("c03-tree:"+string(src), fmt.Sprintf("wrong tree for %q: got %s want %s", src, got, want), map[string]interface{}{"src": string(src), "opts": o, "got": got, "expected": want})
			}
		}
	}
	rep.Eval(fmt.Sprintf("%s:%q/%d", bucket, src, o), nontrivial, bucket)
}

// c03Fixed: the minimal instances of the known deviations and of the listed rejections, first, so that the
// replay of a finding is the shortest program that shows it.
func c03Fixed(rep *Report) {
	for o := 0; o < 4; o++ {
		acceptCheck(rep, []byte("++a**b"), o, "Stmt((++a)**b)", true, "fixed", true)
		acceptCheck(rep, []byte("a\n;b"), o, "Stmt(a) Stmt(b)", false, "fixed", true)
		acceptCheck(rep, []byte("a+b*c"), o, "Stmt(a+(b*c))", false, "fixed", true)
		acceptCheck(rep, []byte("a<<b+c"), o, "Stmt(a<<(b+c))", false, "fixed", true)
		acceptCheck(rep, []byte("(a??b)||c"), o, "Stmt(((a??b))||c)", false, "fixed", true)
		acceptCheck(rep, []byte("(-a)**b"), o, "Stmt(((-a))**b)", false, "fixed", true)
	}
	for _, s := range []string{"(a,)", "-a**b", "a??b||c", "a||b??c", "a&&b??c", "a??b&&c", "a+b=c", "(a", "a)", "a[b", "a]", "f(a", "{a"} {
		kind := "fixed"
		if s == "(a,)" {
			kind = "paren-trailing-comma"
		}
		rejectCheck(rep, kind, []byte(s))
	}
}

// c03Expressions: one expression statement per program, every spelling, all four Options.
func c03Expressions(r *Rng, tier string, rep *Report) {
	n := 6000
	if tier == "thorough" {
		n = 300000
	}
	g := &exprGen{r: r}
	for i := 0; i < n; i++ {
		e := g.gen(ntExpression, 1+r.Intn(5), true)
		ts := g.toks(e)
		nolt := make([]bool, len(ts)+1)
		markPostfix(e, g, 0, nolt)
		// an expression statement cannot start with these (they would be another statement)
		src := spellVaried(r, ts, nolt)
		want := exprStmtString(e.str())
		o := r.Intn(4)
		bucket := "expr"
		if hasPrefixUpdateExpBase(e) {
			bucket = "expr-prefix-update-exp"
		}
		acceptCheck(rep, src, o, want, hasPrefixUpdateExpBase(e), bucket, len(ts) >= 3)
	}
}

func firstLine(err error) string {
	s := err.Error()
	if i := strings.IndexByte(s, '\n'); i >= 0 {
		s = s[:i]
	}
	return s
}

// rejectCheck: src is ill-formed (kind says why) and must be rejected under every Options value.
func rejectCheck(rep *Report, kind string, src []byte) {
	for o := 0; o < 4; o++ {
		ast, err, pan := parseJS(src, o)
		if pan != nil {
			rep.Violate("c03-panic:"+string(src), fmt.Sprintf("js.Parse panics on %q: %v", src, pan), map[string]interface{}{"src": string(src), "opts": o})
		} else if err == nil {
			key := "c03-reject:" + kind + ":" + string(src)
			if kind == "paren-trailing-comma" {
				key = "c03-reject:paren-trailing-comma" // one stable key: every instance is the same defect
			}
			rep.Violate(key, fmt.Sprintf("ill-formed program accepted (%s): %q parsed as %s", kind, src, astString(ast)), map[string]interface{}{"src": string(src), "opts": o})
		}
		rep.Eval(fmt.Sprintf("reject:%s:%q/%d", kind, src, o), true, "reject-"+kind)
	}
}

// c03Forbidden: the operator sequences the grammar forbids, single-bracket mutations, double declarations.
func c03Forbidden(r *Rng, tier string, rep *Report) {
	reject := func(kind string, src []byte) { rejectCheck(rep, kind, src) }
	g := &exprGen{r: r}
	n := 300
	if tier == "thorough" {
		n = 20000
	}
	operand := func(nt int) []jtok { return g.toks(g.gen(nt, r.Intn(3), true)) }
	for i := 0; i < n; i++ {
		// unary operator applied to the base of ** without parentheses
		u := unaryOps[r.Intn(len(unaryOps))]
		reject("unary-exp", spellVaried(r, cat(u, operand(ntUpdate), js.ExpToken, operand(ntExponent)), nil))
		// ?? mixed with || or && without parentheses
		lo := []js.TokenType{js.OrToken, js.AndToken}[r.Intn(2)]
		reject("mixed-coalesce", spellVaried(r, cat(operand(ntBitOR), js.NullishToken, operand(ntBitOR), lo, operand(ntBitOR)), nil))
		reject("mixed-coalesce", spellVaried(r, cat(operand(ntBitOR), lo, operand(ntBitOR), js.NullishToken, operand(ntBitOR)), nil))
		// assignment to a binary / unary / conditional expression
		bo := binaryOps[r.Intn(len(binaryOps))]
		ao := assignOps[r.Intn(len(assignOps))]
		reject("assign-to-binary", spellVaried(r, cat(operand(ntUnary), bo, operand(ntUnary), ao, operand(ntAssignment)), nil))
		reject("assign-to-unary", spellVaried(r, cat(u, operand(ntUnary), ao, operand(ntAssignment)), nil))
	}
	// `( Expression , )` is not a ParenthesizedExpression (a trailing comma is only allowed in arrow parameters)
	for i := 0; i < 20; i++ {
		inner := cat(tkLP, operand(ntAssignment), tkComma, tkRP)
		switch i % 3 {
		case 0:
			reject("paren-trailing-comma", spellVaried(r, inner, nil))
		case 1:
			reject("paren-trailing-comma", spellVaried(r, cat(tkA, js.EqToken, inner), nil))
		default:
			reject("paren-trailing-comma", spellVaried(r, cat(inner, js.AddToken, tkB), nil))
		}
	}
	// all operators: a+b=c for every binary and every assignment operator
	for _, bo := range binaryOps {
		for _, ao := range assignOps {
			reject("assign-to-binary", spellToks(cat(tkA, bo, tkB, ao, tkC)))
		}
	}
	for _, u := range unaryOps {
		reject("unary-exp", spellToks(cat(u, tkA, js.ExpToken, tkB)))
	}
	// single-bracket mutations of generated expressions (no '/' so that no regular expression can swallow a bracket)
	m := 1500
	if tier == "thorough" {
		m = 100000
	}
	for i := 0; i < m; i++ {
		e := g.gen(ntExpression, 2+r.Intn(4), true)
		ts := g.toks(e)
		hasDiv := false
		var br []int
		for j, t := range ts {
			if t.ty == js.DivToken || t.ty == js.DivEqToken {
				hasDiv = true
			}
			if t.ty == js.OpenParenToken || t.ty == js.CloseParenToken || t.ty == js.OpenBracketToken || t.ty == js.CloseBracketToken {
				br = append(br, j)
			}
		}
		if hasDiv {
			continue
		}
		if len(br) > 0 && r.Bool() {
			j := br[r.Intn(len(br))]
			mt := append(append([]jtok{}, ts[:j]...), ts[j+1:]...)
			reject("bracket-deleted", spellToks(mt))
		} else {
			j := r.Intn(len(ts) + 1)
			b := []jtok{tkLP, tkRP, tkLB, tkRB, opTok(js.OpenBraceToken), opTok(js.CloseBraceToken)}[r.Intn(6)]
			mt := append(append(append([]jtok{}, ts[:j]...), b), ts[j:]...)
			reject("bracket-added", spellToks(mt))
		}
	}
}

// c03Programs: sequences of statements with explicit semicolons or automatic semicolon insertion.
func c03Programs(r *Rng, tier string, rep *Report) {
	n := 2000
	if tier == "thorough" {
		n = 100000
	}
	g := &exprGen{r: r}
	for i := 0; i < n; i++ {
		k := 2 + r.Intn(3)
		var ts []jtok
		var nolt []bool
		var want []string
		pue := false
		for s := 0; s < k; s++ {
			e := g.gen(ntExpression, 1+r.Intn(3), true)
			pue = pue || hasPrefixUpdateExpBase(e)
			st := g.toks(e)
			// the next statement must not continue the previous expression: keep to starts that cannot
			first := st[0].ty
			semi := r.Bool()
			if s > 0 && !semi {
				if first == js.OpenParenToken || first == js.OpenBracketToken || first == js.AddToken || first == js.SubToken ||
					first == js.DivToken || first == js.IncrToken || first == js.DecrToken {
					semi = true
				}
			}
			snl := make([]bool, len(st)+1)
			markPostfix(e, g, 0, snl)
			if s > 0 {
				if semi {
					ts = append(ts, tkSemi)
					nolt = append(nolt, false)
				} else {
					st[0].lt = true // forced line break: automatic semicolon insertion
				}
			}
			ts = append(ts, st...)
			nolt = append(nolt, snl[:len(st)]...)
			want = append(want, exprStmtString(e.str()))
		}
		// spell: forced line breaks are kept, others varied
		var b bytes.Buffer
		start := 0
		for j := 1; j <= len(ts); j++ {
			if j == len(ts) || ts[j].lt {
				seg := make([]jtok, j-start)
				copy(seg, ts[start:j])
				seg[0].lt = false
				if start > 0 {
					b.WriteString([]string{"\n", " \n ", "\r\n", " // x\n", "/* a\n b */"}[r.Intn(5)])
				}
				b.Write(spellVaried(r, seg, nolt[start:j]))
				start = j
			}
		}
		src := b.Bytes()
		o := r.Intn(4)
		acceptCheck(rep, src, o, strings.Join(want, " "), pue, "expr-stmts", true)
	}
}
