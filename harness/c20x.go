package main

import (
	"bytes"
	"fmt"

	"github.com/tdewolff/parse/v2"
	"github.com/tdewolff/parse/v2/buffer"
	"github.com/tdewolff/parse/v2/css"
	"github.com/tdewolff/parse/v2/html"
	"github.com/tdewolff/parse/v2/js"
)

// C20 (integrator's addition): a caller that APPENDS to slices the library hands out must not be able to change
// what later or concurrent calls observe. This is the dynamic side of the whitelist reason "cap = len, so append
// reallocates" for the shared constant slices (nullBuffer, wsBytes, endBytes, emptyBytes, hash and token texts).
func c20AppendOracle(r *Rng, tier string, rep *Report) {
	type src struct {
		name string
		get  func() [][]byte
	}
	srcs := []src{
		{"Input.Bytes(empty string)", func() [][]byte { return [][]byte{parse.NewInputString("").Bytes()} }},
		{"Input.Bytes(nil reader)", func() [][]byte { return [][]byte{parse.NewInput(nil).Bytes()} }},
		{"Input.Bytes(failing reader)", func() [][]byte {
			return [][]byte{parse.NewInput(&chunkReader{err: errReader}).Bytes()}
		}},
		{"Input.Lexeme/Shift(empty)", func() [][]byte { z := parse.NewInputString(""); return [][]byte{z.Lexeme(), z.Shift()} }},
		{"buffer.Lexer.Bytes(empty)", func() [][]byte { z := buffer.NewLexerBytes(nil); return [][]byte{z.Bytes(), z.Lexeme(), z.Shift()} }},
		{"css.Parser data/Values", func() [][]byte {
			var out [][]byte
			for _, s := range []string{"a b{c:d e;f:g}h{}", "@media x y{a{b:c}}", "a{b:c}", "a:b;c:d", "--x: y z ;"} {
				for _, inline := range []bool{false, true} {
					p := css.NewParser(parse.NewInputString(s), inline)
					for i := 0; i < 40; i++ {
						gt, _, data := p.Next()
						out = append(out, data)
						for _, v := range p.Values() {
							out = append(out, v.Data)
						}
						if gt == css.ErrorGrammar {
							break
						}
					}
				}
			}
			return out
		}},
		{"Hash/TokenType.Bytes", func() [][]byte {
			return [][]byte{css.Media.Bytes(), css.Hash(0).Bytes(), html.Script.Bytes(), html.Hash(0).Bytes(), js.AddToken.Bytes(), js.FunctionToken.Bytes(), js.TokenType(0x7000).Bytes()}
		}},
		{"DataURI default media type", func() [][]byte {
			m, d, _ := parse.DataURI([]byte("data:,x"))
			return [][]byte{m, d}
		}},
		{"html/xml/js lexer tokens at EOF", func() [][]byte {
			var out [][]byte
			hl := html.NewLexer(parse.NewInputString(""))
			_, d := hl.Next()
			out = append(out, d, hl.Text(), hl.AttrVal())
			jl := js.NewLexer(parse.NewInputString(""))
			_, d2 := jl.Next()
			out = append(out, d2)
			return out
		}},
	}
	n := 1
	if tier == "thorough" {
		n = 20
	}
	for it := 0; it < n; it++ {
		for _, s := range srcs {
			before := s.get()
			snap := make([][]byte, len(before))
			for i, b := range before {
				snap[i] = append([]byte{}, b...)
			}
			// the misbehaving-but-legal caller: append to everything it got
			for i := range before {
				_ = append(before[i], byte('X'+it%3)) // one byte: fits a single spare cell
				_ = append(before[i], 'P', 'Q', 'R')
			}
			after := s.get()
			ok := len(after) == len(snap)
			for i := 0; ok && i < len(after); i++ {
				ok = bytes.Equal(after[i], snap[i])
			}
			// and the observable behaviour of a fresh empty Input: Peek(0) must still be the terminator
			if c := parse.NewInputString("").Peek(0); c != 0 {
				ok = false
			}
			if c := buffer.NewLexerBytes(nil).Peek(0); c != 0 {
				ok = false
			}
			if !ok {
				rep.Violate("c20-append:"+s.name, fmt.Sprintf("appending to a slice returned by %s changed what a later call returns (shared backing array with spare capacity)", s.name), map[string]interface{}{"source": s.name})
			}
			rep.Eval(fmt.Sprintf("append:%s:%d", s.name, it), true, "append")
		}
	}
}

func init() {
	if sp, ok := props["C20"]; ok {
		sp.Oracles = append(sp.Oracles, &Oracle{Name: "c20-append-to-returned-slices", Run: c20AppendOracle})
	} else {
		props["C20"] = &PropSpec{Oracles: []*Oracle{{Name: "c20-append-to-returned-slices", Run: c20AppendOracle}}}
	}
}
