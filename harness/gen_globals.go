package main

import (
	"fmt"
	"go/ast"
	"go/build"
	"go/importer"
	"go/parser"
	"go/token"
	"go/types"
	"os"
	"path/filepath"
	"sort"
	"strings"
)

// T5 (globals): type-checks every non-test file of every package of /repo (go/parser + go/types; files
// behind the `verif` build tag, *_test.go and the tests/ directory are skipped) and emits Gen/Globals.v:
//   global_vars     every package-level variable with the shape of its type
//   global_writes   every statement outside `init` and outside the variable's own initialiser that can
//                   write a package-level variable or memory reachable from it: assignment, op-assign,
//                   ++/--, range-assignment, copy/append destination, delete, pointer-receiver method call
//   global_escapes  every place where memory reachable from a package-level variable is aliased: &x,
//                   function argument, right-hand side of an assignment, composite-literal field, return
//                   value, range over elements that contain references, method call, copy/append source
// A use is attributed to the variable at the root of the access path x, x.f, x[i], x[i:j], *x, (x).

type gVarInfo struct {
	Name string // pkg.Var
	Kind string
	Pos  string
}

type gUse struct {
	Var, How, Pos string
}

type globalsResult struct {
	Vars    []gVarInfo
	Writes  []gUse
	Escapes []gUse
	Files   int
	Skipped []string
}

type modImporter struct {
	fset   *token.FileSet
	std    types.Importer
	root   string
	mod    string
	pkgs   map[string]*types.Package
	infos  map[string]*types.Info
	files  map[string][]*ast.File
	errs   []string
	skip   []string
	nfiles int
}

func (m *modImporter) Import(path string) (*types.Package, error) {
	if path == m.mod || strings.HasPrefix(path, m.mod+"/") {
		if p, ok := m.pkgs[path]; ok {
			return p, nil
		}
		dir := filepath.Join(m.root, strings.TrimPrefix(strings.TrimPrefix(path, m.mod), "/"))
		return m.check(path, dir)
	}
	return m.std.Import(path)
}

func (m *modImporter) check(path, dir string) (*types.Package, error) {
	ents, err := os.ReadDir(dir)
	if err != nil {
		return nil, err
	}
	var files []*ast.File
	ctx := build.Default
	ctx.BuildTags = nil
	for _, e := range ents {
		n := e.Name()
		if e.IsDir() || !strings.HasSuffix(n, ".go") || strings.HasSuffix(n, "_test.go") {
			continue
		}
		src, err := os.ReadFile(filepath.Join(dir, n))
		if err != nil {
			return nil, err
		}
		if hasVerifTag(src) {
			continue
		}
		if ok, _ := ctx.MatchFile(dir, n); !ok {
			m.skip = append(m.skip, filepath.Join(dir, n))
			continue
		}
		f, err := parser.ParseFile(m.fset, filepath.Join(dir, n), src, 0)
		if err != nil {
			return nil, err
		}
		files = append(files, f)
		m.nfiles++
	}
	info := &types.Info{Uses: map[*ast.Ident]types.Object{}, Defs: map[*ast.Ident]types.Object{},
		Types: map[ast.Expr]types.TypeAndValue{}, Selections: map[*ast.SelectorExpr]*types.Selection{}}
	conf := types.Config{Importer: m, Error: func(err error) { m.errs = append(m.errs, err.Error()) }}
	p, _ := conf.Check(path, m.fset, files, info)
	if p != nil {
		m.pkgs[path] = p
		m.infos[path] = info
		m.files[path] = files
	}
	return p, nil
}

func hasRefs(t types.Type, seen map[types.Type]bool) bool {
	if seen[t] {
		return false
	}
	seen[t] = true
	switch u := t.Underlying().(type) {
	case *types.Basic:
		return u.Kind() == types.UnsafePointer
	case *types.Array:
		return hasRefs(u.Elem(), seen)
	case *types.Struct:
		for i := 0; i < u.NumFields(); i++ {
			if hasRefs(u.Field(i).Type(), seen) {
				return true
			}
		}
		return false
	case *types.Signature:
		return false // code is immutable; a reassignment of the variable itself is a write
	case *types.Tuple:
		for i := 0; i < u.Len(); i++ {
			if hasRefs(u.At(i).Type(), seen) {
				return true
			}
		}
		return false
	}
	return true // slice, map, pointer, chan, interface
}

func refs(t types.Type) bool { return t != nil && hasRefs(t, map[types.Type]bool{}) }

func typeKind(t types.Type) string {
	switch u := t.Underlying().(type) {
	case *types.Basic:
		return "scalar"
	case *types.Array:
		return "array of " + typeKind(u.Elem())
	case *types.Slice:
		return "slice"
	case *types.Map:
		return "map"
	case *types.Pointer:
		return "pointer"
	case *types.Struct:
		if refs(t) {
			return "struct with references"
		}
		return "struct"
	case *types.Interface:
		return "interface"
	case *types.Signature:
		return "func"
	case *types.Chan:
		return "chan"
	}
	return "other"
}

func scanGlobals() (*globalsResult, error) {
	root := repoRoot
	gomod, err := os.ReadFile(filepath.Join(root, "go.mod"))
	if err != nil {
		return nil, err
	}
	mod := ""
	for _, ln := range strings.Split(string(gomod), "\n") {
		if strings.HasPrefix(ln, "module ") {
			mod = strings.TrimSpace(strings.TrimPrefix(ln, "module "))
		}
	}
	if mod == "" {
		return nil, fmt.Errorf("go.mod: no module line")
	}
	fset := token.NewFileSet()
	m := &modImporter{fset: fset, std: importer.ForCompiler(fset, "source", nil), root: root, mod: mod,
		pkgs: map[string]*types.Package{}, infos: map[string]*types.Info{}, files: map[string][]*ast.File{}}
	// every directory with non-test Go files, except tests/ and hidden directories
	var dirs []string
	err = filepath.Walk(root, func(p string, fi os.FileInfo, err error) error {
		if err != nil {
			return err
		}
		if fi.IsDir() {
			rel, _ := filepath.Rel(root, p)
			if rel != "." && (strings.HasPrefix(filepath.Base(p), ".") || rel == "tests" || strings.HasPrefix(rel, "tests"+string(filepath.Separator)) || filepath.Base(p) == "testdata") {
				return filepath.SkipDir
			}
			ents, _ := os.ReadDir(p)
			for _, e := range ents {
				if !e.IsDir() && strings.HasSuffix(e.Name(), ".go") && !strings.HasSuffix(e.Name(), "_test.go") {
					dirs = append(dirs, p)
					break
				}
			}
		}
		return nil
	})
	if err != nil {
		return nil, err
	}
	sort.Strings(dirs)
	var paths []string
	for _, d := range dirs {
		rel, _ := filepath.Rel(root, d)
		path := mod
		if rel != "." {
			path = mod + "/" + filepath.ToSlash(rel)
		}
		if _, err := m.Import(path); err != nil {
			return nil, err
		}
		if m.pkgs[path] != nil && len(m.files[path]) > 0 {
			paths = append(paths, path)
		}
	}
	if len(m.errs) > 0 {
		return nil, fmt.Errorf("type errors in /repo: %s", strings.Join(m.errs[:min(3, len(m.errs))], "; "))
	}
	if len(m.skip) > 0 {
		return nil, fmt.Errorf("files excluded by build constraints cannot be analysed: %s", strings.Join(m.skip, ", "))
	}
	res := &globalsResult{Files: m.nfiles}
	// package-level variables of the module
	isGlobal := map[*types.Var]string{}
	for _, path := range paths {
		p := m.pkgs[path]
		sc := p.Scope()
		for _, n := range sc.Names() {
			if v, ok := sc.Lookup(n).(*types.Var); ok {
				name := p.Name() + "." + n
				isGlobal[v] = name
				res.Vars = append(res.Vars, gVarInfo{Name: name, Kind: typeKind(v.Type()), Pos: relPos(fset, root, v.Pos())})
			}
		}
	}
	sort.Slice(res.Vars, func(i, j int) bool { return res.Vars[i].Name < res.Vars[j].Name })
	accessors := map[*types.Func][]string{}
	accName := map[*types.Func]string{}
	localAlias := map[*types.Var][]string{}
	for pass := 1; pass <= 2; pass++ {
		for _, path := range paths {
			info := m.infos[path]
			for _, f := range m.files[path] {
				sc := &globalScan{fset: fset, root: root, info: info, isGlobal: isGlobal, res: res, accessors: accessors, accName: accName, localAlias: localAlias, pass: pass}
				sc.file(f)
			}
		}
	}
	sortUses(res.Writes)
	sortUses(res.Escapes)
	return res, nil
}

func sortUses(u []gUse) {
	sort.Slice(u, func(i, j int) bool {
		if u[i].Var != u[j].Var {
			return u[i].Var < u[j].Var
		}
		if u[i].How != u[j].How {
			return u[i].How < u[j].How
		}
		return u[i].Pos < u[j].Pos
	})
}

func relPos(fset *token.FileSet, root string, p token.Pos) string {
	pos := fset.Position(p)
	rel, err := filepath.Rel(root, pos.Filename)
	if err != nil {
		rel = pos.Filename
	}
	return fmt.Sprintf("%s:%d", filepath.ToSlash(rel), pos.Line)
}

type globalScan struct {
	fset     *token.FileSet
	root     string
	info     *types.Info
	isGlobal map[*types.Var]string
	res      *globalsResult
	own      map[*types.Var]bool // variables whose own initialiser is being scanned
	// accessors: functions with a single result that return memory reachable from a package-level
	// variable (css.Hash.Bytes, js.TokenType.Bytes, ...); pass 1 finds them, pass 2 treats every call of
	// an accessor as a use of that variable
	accessors map[*types.Func][]string
	pass      int
	curFunc   *types.Func
	accName   map[*types.Func]string
	// local variables that were assigned memory of a package-level variable (x := g[i:j]); pass 2 scans
	// their uses (flow-insensitively) and reports everything, writes included, as an escape "via local x"
	localAlias map[*types.Var][]string
	viaLocal   bool
	ownName    string // the package-level variable whose initialiser is being scanned
	onlyWrites bool
}

func (s *globalScan) file(f *ast.File) {
	for _, d := range f.Decls {
		switch d := d.(type) {
		case *ast.FuncDecl:
			if d.Recv == nil && d.Name.Name == "init" {
				continue // package initialisation runs once, before any caller
			}
			if d.Body != nil {
				s.own = nil
				s.curFunc, _ = s.info.Defs[d.Name].(*types.Func)
				s.walk(d.Body, []ast.Node{d})
				s.curFunc = nil
			}
		case *ast.GenDecl:
			if d.Tok != token.VAR {
				continue
			}
			for _, sp := range d.Specs {
				vs := sp.(*ast.ValueSpec)
				s.own = map[*types.Var]bool{}
				s.ownName = ""
				for _, n := range vs.Names {
					if v, ok := s.info.Defs[n].(*types.Var); ok {
						s.own[v] = true
						if s.ownName == "" {
							s.ownName = s.isGlobal[v]
						}
					}
				}
				for _, val := range vs.Values {
					s.walk(val, []ast.Node{d, vs})
				}
				s.ownName = ""
			}
		}
	}
}

// walk visits n with the stack of its ancestors.
func (s *globalScan) walk(n ast.Node, stack []ast.Node) {
	var st []ast.Node
	st = append(st, stack...)
	ast.Inspect(n, func(x ast.Node) bool {
		if x == nil {
			st = st[:len(st)-1]
			return true
		}
		if id, ok := x.(*ast.Ident); ok && s.pass == 1 {
			if v, ok := s.info.Uses[id].(*types.Var); ok {
				if name, ok := s.isGlobal[v]; ok && !s.own[v] {
					var cur ast.Expr = id
					anc := st
					if len(st) > 0 {
						if sel, ok := st[len(st)-1].(*ast.SelectorExpr); ok && sel.Sel == id {
							cur, anc = sel, st[:len(st)-1] // qualified identifier pkg.Var
						}
					}
					s.use(name, "", cur, anc)
				}
			}
		}
		// state hidden in a closure: inside the initialiser of a package-level variable, a function literal
		// that writes a variable declared OUTSIDE itself (but inside the initialiser) keeps mutable state
		// that lives as long as the package (`var lookup = func() func(..) { m := map..; return func(..) { m[k] = v } }()`)
		if id, ok := x.(*ast.Ident); ok && s.pass == 1 && s.ownName != "" {
			if v, ok := s.info.Uses[id].(*types.Var); ok && !v.IsField() {
				if _, isG := s.isGlobal[v]; !isG {
					var lit *ast.FuncLit
					for k := len(st) - 1; k >= 0 && lit == nil; k-- {
						lit, _ = st[k].(*ast.FuncLit)
					}
					if lit != nil && (v.Pos() < lit.Pos() || v.Pos() > lit.End()) {
						s.onlyWrites = true
						s.use(s.ownName, "closure state "+id.Name+": ", id, st)
						s.onlyWrites = false
					}
				}
			}
		}
		if id, ok := x.(*ast.Ident); ok && s.pass == 2 {
			if v, ok := s.info.Uses[id].(*types.Var); ok {
				for _, name := range s.localAlias[v] {
					s.viaLocal = true
					s.use(name, "via local "+id.Name+": ", id, st)
					s.viaLocal = false
				}
			}
		}
		if c, ok := x.(*ast.CallExpr); ok && s.pass == 2 {
			var fn *types.Func
			switch f := c.Fun.(type) {
			case *ast.Ident:
				fn, _ = s.info.Uses[f].(*types.Func)
			case *ast.SelectorExpr:
				fn, _ = s.info.Uses[f.Sel].(*types.Func)
			}
			if fn != nil {
				for _, name := range s.accessors[fn] {
					s.use(name, "via "+s.accName[fn]+"(): ", c, st)
				}
			}
		}
		st = append(st, x)
		return true
	})
}

func (s *globalScan) typeOf(e ast.Expr) types.Type {
	if tv, ok := s.info.Types[e]; ok {
		return tv.Type
	}
	if id, ok := e.(*ast.Ident); ok {
		if o := s.info.Uses[id]; o != nil {
			return o.Type()
		}
	}
	return nil
}

func calleeName(info *types.Info, c *ast.CallExpr) string {
	switch f := c.Fun.(type) {
	case *ast.Ident:
		return f.Name
	case *ast.SelectorExpr:
		if id, ok := f.X.(*ast.Ident); ok {
			if _, isPkg := info.Uses[id].(*types.PkgName); isPkg {
				return id.Name + "." + f.Sel.Name
			}
		}
		return "(method)." + f.Sel.Name
	}
	return "(func value)"
}

// use classifies one occurrence of memory of the package-level variable `name`: start is the identifier
// (or a call of an accessor function), st the stack of its ancestors.
func (s *globalScan) use(name, via string, start ast.Expr, st []ast.Node) {
	pos := relPos(s.fset, s.root, start.Pos())
	var cur ast.Expr
	write := func(how string) {
		if s.viaLocal {
			if cur == start && (how == "assign" || how == "incdec" || how == "range-assign" || strings.HasPrefix(how, "op-assign")) {
				return // the local variable itself is rebound, no memory is written
			}
			// flow-insensitive: the local may hold other memory at this point; listed for review
			s.res.Escapes = append(s.res.Escapes, gUse{name, via + "WRITE " + how, pos})
			return
		}
		s.res.Writes = append(s.res.Writes, gUse{name, via + how, pos})
	}
	escape := func(how string) {
		if s.onlyWrites {
			return
		}
		if how == "alias:return" && s.curFunc != nil {
			// a function that hands out the variable's memory: its callers are scanned in pass 2
			if sig, ok := s.curFunc.Type().(*types.Signature); ok && sig.Results().Len() == 1 {
				if _, isIface := sig.Results().At(0).Type().Underlying().(*types.Interface); !isIface {
					dup := false
					for _, n := range s.accessors[s.curFunc] {
						dup = dup || n == name
					}
					if !dup {
						s.accessors[s.curFunc] = append(s.accessors[s.curFunc], name)
					}
					recv := ""
					if sig.Recv() != nil {
						rt := sig.Recv().Type()
						if p, ok := rt.(*types.Pointer); ok {
							rt = p.Elem()
						}
						if n, ok := rt.(*types.Named); ok {
							recv = n.Obj().Name() + "."
						}
					}
					s.accName[s.curFunc] = s.curFunc.Pkg().Name() + "." + recv + s.curFunc.Name()
				}
			}
		}
		s.res.Escapes = append(s.res.Escapes, gUse{name, via + how, pos})
	}
	// the maximal access path rooted at start
	cur = start
	i := len(st) - 1
	for i >= 0 {
		switch p := st[i].(type) {
		case *ast.ParenExpr:
			cur = p
		case *ast.SelectorExpr:
			if p.X != cur {
				goto done
			}
			if sel, ok := s.info.Selections[p]; ok && sel.Kind() != types.FieldVal {
				goto done // method value / call: handled below
			}
			cur = p
		case *ast.IndexExpr:
			if p.X != cur {
				goto done
			}
			cur = p
		case *ast.SliceExpr:
			if p.X != cur {
				goto done
			}
			cur = p
		case *ast.StarExpr:
			cur = p
		case *ast.TypeAssertExpr:
			if p.X != cur {
				goto done
			}
			cur = p
		case *ast.CallExpr:
			// a conversion T(x) that keeps sharing memory continues the path
			if tv, ok := s.info.Types[p.Fun]; ok && tv.IsType() && len(p.Args) == 1 && p.Args[0] == cur && refs(s.typeOf(p)) && refs(s.typeOf(cur)) {
				if _, isStr := s.typeOf(cur).Underlying().(*types.Basic); !isStr {
					if b, isB := s.typeOf(p).Underlying().(*types.Basic); !isB || b.Kind() != types.String {
						cur = p
						i--
						continue
					}
				}
			}
			goto done
		default:
			goto done
		}
		i--
	}
done:
	t := s.typeOf(cur)
	var parent ast.Node
	if i >= 0 {
		parent = st[i]
	}
	in := func(l []ast.Expr) bool {
		for _, e := range l {
			if e == cur {
				return true
			}
		}
		return false
	}
	switch p := parent.(type) {
	case *ast.AssignStmt:
		if in(p.Lhs) {
			if p.Tok == token.ASSIGN {
				write("assign")
			} else if p.Tok != token.DEFINE {
				write("op-assign " + p.Tok.String())
			}
			return
		}
		if refs(t) {
			escape("alias:assign-rhs")
			// remember a LOCAL variable that now aliases the memory: its uses are scanned in pass 2
			if s.pass == 1 && len(p.Lhs) == len(p.Rhs) {
				for k, e := range p.Rhs {
					if e != cur {
						continue
					}
					if lid, ok := p.Lhs[k].(*ast.Ident); ok {
						var lv *types.Var
						if d, ok := s.info.Defs[lid].(*types.Var); ok {
							lv = d
						} else if u, ok := s.info.Uses[lid].(*types.Var); ok {
							lv = u
						}
						if lv != nil {
							if _, isG := s.isGlobal[lv]; !isG && !lv.IsField() {
								s.localAlias[lv] = append(s.localAlias[lv], name)
							}
						}
					}
				}
			}
		}
	case *ast.IncDecStmt:
		write("incdec")
	case *ast.RangeStmt:
		if p.Key == cur || p.Value == cur {
			if p.Tok == token.ASSIGN {
				write("range-assign")
			}
			return
		}
		if p.X == cur && t != nil {
			var elem types.Type
			switch u := t.Underlying().(type) {
			case *types.Slice:
				elem = u.Elem()
			case *types.Array:
				elem = u.Elem()
			case *types.Map:
				elem = u.Elem()
			case *types.Pointer:
				if a, ok := u.Elem().Underlying().(*types.Array); ok {
					elem = a.Elem()
				}
			}
			if v, ok := p.Value.(*ast.Ident); ok && v.Name != "_" && elem != nil && refs(elem) {
				escape("range-elem")
			}
		}
	case *ast.UnaryExpr:
		if p.Op == token.AND {
			escape("addr")
		} else if p.Op == token.ARROW {
			escape("chan-recv")
		}
	case *ast.SendStmt:
		if p.Chan == cur {
			write("chan-send")
		} else if refs(t) {
			escape("alias:send")
		}
	case *ast.CallExpr:
		if p.Fun == cur {
			return // calling a function value reads the variable
		}
		if !in(p.Args) {
			return
		}
		if fid, ok := p.Fun.(*ast.Ident); ok {
			if _, isB := s.info.Uses[fid].(*types.Builtin); isB {
				switch fid.Name {
				case "len", "cap", "real", "imag", "min", "max":
					return
				case "copy":
					if p.Args[0] == cur {
						write("copy-dst")
					} else {
						escape("copy-src")
					}
					return
				case "append":
					if p.Args[0] == cur {
						write("append-dst")
					} else if refs(t) {
						escape("append-src")
					}
					return
				case "delete", "clear", "close":
					if p.Args[0] == cur {
						write(fid.Name)
					}
					return
				}
				if refs(t) {
					escape("arg:" + fid.Name)
				}
				return
			}
		}
		if tv, ok := s.info.Types[p.Fun]; ok && tv.IsType() {
			return // a copying conversion such as string(b)
		}
		if refs(t) {
			escape("arg:" + calleeName(s.info, p))
		}
	case *ast.SelectorExpr:
		// method call or method value on the access path
		sel, ok := s.info.Selections[p]
		if !ok || p.X != cur {
			return
		}
		fn, _ := sel.Obj().(*types.Func)
		ptrRecv := false
		if fn != nil {
			if sig, ok := fn.Type().(*types.Signature); ok && sig.Recv() != nil {
				_, ptrRecv = sig.Recv().Type().(*types.Pointer)
			}
		}
		if ptrRecv {
			write("ptr-method:" + p.Sel.Name)
		} else if refs(t) {
			escape("method:" + p.Sel.Name)
		}
	case *ast.ReturnStmt:
		if refs(t) {
			escape("alias:return")
		}
	case *ast.KeyValueExpr:
		if p.Value == cur && refs(t) {
			escape("alias:composite-field")
		} else if p.Key == cur && refs(t) {
			escape("alias:composite-key")
		}
	case *ast.CompositeLit:
		if refs(t) {
			escape("alias:composite-elem")
		}
	case *ast.ValueSpec:
		if refs(t) {
			escape("alias:var-init")
		}
	case *ast.BinaryExpr, *ast.IfStmt, *ast.SwitchStmt, *ast.CaseClause, *ast.ExprStmt, *ast.ForStmt, *ast.TypeSwitchStmt:
		// comparison, arithmetic, condition: the value is read
	case *ast.IndexExpr:
		// used as an index or map key: read
	case *ast.SliceExpr:
		// used as a bound: read
	case nil:
		// the whole initialiser expression of another variable
		if refs(t) {
			escape("alias:var-init")
		}
	default:
		if refs(t) {
			escape(fmt.Sprintf("other:%T", parent))
		}
	}
}

func coqString(s string) string { return "\"" + strings.ReplaceAll(s, "\"", "\"\"") + "\"" }

func (r *globalsResult) coq() string {
	var sb strings.Builder
	sb.WriteString("(* GENERATED by `harness gen globals` from the type-checked source of every non-test file of every package\n")
	fmt.Fprintf(&sb, "   of /repo (%d files; tests/, *_test.go and files behind the `verif` build tag skipped). Do not edit.\n", r.Files)
	sb.WriteString("   A use is attributed to the package-level variable at the root of the access path x, x.f, x[i], x[i:j], *x.\n")
	sb.WriteString("   Uses inside `func init()` and inside the variable's own initialiser are not listed.\n\n")
	sb.WriteString("   sites of global_writes:\n")
	for _, u := range r.Writes {
		fmt.Fprintf(&sb, "     %s  %s  %s\n", u.Var, u.How, u.Pos)
	}
	sb.WriteString("   sites of global_escapes:\n")
	for _, u := range r.Escapes {
		fmt.Fprintf(&sb, "     %s  %s  %s\n", u.Var, u.How, u.Pos)
	}
	sb.WriteString("*)\nFrom Coq Require Import List String.\nImport ListNotations.\nOpen Scope string_scope.\n\n")
	sb.WriteString("(* package-level variables: name, shape of the type *)\nDefinition global_vars : list (string * string) :=\n  [")
	for i, v := range r.Vars {
		if i > 0 {
			sb.WriteString(";\n   ")
		}
		fmt.Fprintf(&sb, "(%s, %s)", coqString(v.Name), coqString(v.Kind))
	}
	sb.WriteString("].\n\n(* statements that can write a package-level variable or memory reachable from it: variable, how, where *)\n")
	sb.WriteString("Definition global_writes : list (string * string * string) :=\n  [")
	for i, u := range r.Writes {
		if i > 0 {
			sb.WriteString(";\n   ")
		}
		fmt.Fprintf(&sb, "(%s, %s, %s)", coqString(u.Var), coqString(u.How), coqString(u.Pos))
	}
	sb.WriteString("].\n\n(* aliasing uses, without positions and without duplicates: variable, how *)\n")
	sb.WriteString("Definition global_escapes : list (string * string) :=\n  [")
	seen := map[[2]string]bool{}
	first := true
	for _, u := range r.Escapes {
		k := [2]string{u.Var, u.How}
		if seen[k] {
			continue
		}
		seen[k] = true
		if !first {
			sb.WriteString(";\n   ")
		}
		first = false
		fmt.Fprintf(&sb, "(%s, %s)", coqString(u.Var), coqString(u.How))
	}
	sb.WriteString("].\n")
	return sb.String()
}

func genGlobals(out string) error {
	r, err := scanGlobals()
	if err != nil {
		return err
	}
	return writeIfChanged(out, []byte(r.coq()))
}

func init() { gens["globals"] = genGlobals }
