package main

import (
	"bytes"
	"fmt"
	"io"

	"github.com/tdewolff/parse/v2"
	"github.com/tdewolff/parse/v2/js"
)

// C03 — correspondence of the Pratt model (coq/theories/JsExpr/Pratt.v, entry point run_pratt) with
// js.Parse on token lists of the operator fragment, and the whole-language generator oracle (c03gen.go).

// c03Jtok is what Parser.next() leaves in (p.tt, p.prevLT, p.data).
type c03Jtok struct {
	ty   js.TokenType
	lt   bool
	data []byte
}

func c03Jt(ty js.TokenType, s string) c03Jtok { return c03Jtok{ty: ty, data: []byte(s)} }

func c03OpTok(ty js.TokenType) c03Jtok { return c03Jtok{ty: ty, data: ty.Bytes()} }

// c03SpellToks writes the tokens separated by one space, or by a newline where the token carries prevLT.
func c03SpellToks(ts []c03Jtok) []byte {
	var b bytes.Buffer
	for i, t := range ts {
		if t.lt {
			b.WriteByte('\n')
		} else if i > 0 {
			b.WriteByte(' ')
		}
		b.Write(t.data)
	}
	return b.Bytes()
}

// c03NormToks forces a line break after every '/' and '/=' (so that a regular-expression re-lex at that token
// fails at once and the parser's behaviour is a function of the token list alone).
func c03NormToks(ts []c03Jtok) []c03Jtok {
	out := make([]c03Jtok, len(ts))
	copy(out, ts)
	for i := range out {
		if i > 0 && (out[i-1].ty == js.DivToken || out[i-1].ty == js.DivEqToken) {
			out[i].lt = true
		}
	}
	return out
}

// c03Relex runs the real lexer over src the way Parser.next() does.
func c03Relex(src []byte) ([]c03Jtok, bool) {
	l := js.NewLexer(parse.NewInputBytes(src))
	var out []c03Jtok
	lt := false
	for {
		tt, data := l.Next()
		switch tt {
		case js.WhitespaceToken:
			continue
		case js.LineTerminatorToken, js.CommentLineTerminatorToken:
			lt = true
			continue
		case js.CommentToken:
			continue
		case js.ErrorToken:
			return out, l.Err() == io.EOF
		}
		out = append(out, c03Jtok{tt, lt, append([]byte{}, data...)})
		lt = false
	}
}

func c03SameToks(a, b []c03Jtok) bool {
	if len(a) != len(b) {
		return false
	}
	for i := range a {
		if a[i].ty != b[i].ty || a[i].lt != b[i].lt || !bytes.Equal(a[i].data, b[i].data) {
			return false
		}
	}
	return true
}

func c03EncToks(mode, opts int, ts []c03Jtok) []int64 {
	out := []int64{int64(mode), int64(opts), int64(len(ts))}
	for _, t := range ts {
		f := int64(0)
		if t.lt {
			f = 1
		}
		out = append(out, int64(t.ty), f)
		out = append(out, bytesToArgs(t.data)...)
	}
	return out
}

func c03DecToks(a []int64) (mode, opts int, ts []c03Jtok) {
	if len(a) < 3 {
		return 0, 0, nil
	}
	mode, opts = int(a[0]), int(a[1])
	n := int(a[2])
	a = a[3:]
	for i := 0; i < n && len(a) >= 3; i++ {
		ty, f := a[0], a[1]
		var d []int64
		d, a = takeList(a[2:])
		ts = append(ts, c03Jtok{js.TokenType(ty), f != 0, toBytes(d)})
	}
	return
}

func prattCase(mode, opts int, ts []c03Jtok, note string) Case {
	ts = c03NormToks(ts)
	if note == "" {
		note = fmt.Sprintf("mode %d opts %d %q", mode, opts, c03SpellToks(ts))
	}
	return Case{Fn: "pratt", Args: c03EncToks(mode, opts, ts), Note: note}
}

func c03JsOpts(o int) js.Options { return js.Options{WhileToFor: o&1 != 0, Inline: o&2 != 0} }

func c03EncBytes(b []byte) []int64 { return bytesToArgs(b) }

// c03EncExpr mirrors enc_expr of JsExpr/Harness.v; a node outside the fragment is -77.
func c03EncExpr(e js.IExpr) []int64 {
	switch n := e.(type) {
	case *js.Var:
		return append([]int64{1}, c03EncBytes(n.Data)...)
	case *js.LiteralExpr:
		return append([]int64{2, int64(n.TokenType)}, c03EncBytes(n.Data)...)
	case *js.GroupExpr:
		return append([]int64{3}, c03EncExpr(n.X)...)
	case *js.UnaryExpr:
		return append([]int64{4, int64(n.Op)}, c03EncExpr(n.X)...)
	case *js.BinaryExpr:
		return append(append([]int64{5, int64(n.Op)}, c03EncExpr(n.X)...), c03EncExpr(n.Y)...)
	case *js.CondExpr:
		return append(append(append([]int64{6}, c03EncExpr(n.Cond)...), c03EncExpr(n.X)...), c03EncExpr(n.Y)...)
	case *js.DotExpr:
		y, ok := n.Y.(js.LiteralExpr)
		if !ok || n.Optional {
			return []int64{-77}
		}
		return append(append([]int64{7}, c03EncBytes(y.Data)...), c03EncExpr(n.X)...)
	case *js.IndexExpr:
		if n.Optional {
			return []int64{-77}
		}
		return append(append([]int64{8}, c03EncExpr(n.X)...), c03EncExpr(n.Y)...)
	case *js.CallExpr:
		if n.Optional {
			return []int64{-77}
		}
		out := append([]int64{9, int64(len(n.Args.List))}, c03EncExpr(n.X)...)
		for _, a := range n.Args.List {
			if a.Rest {
				return []int64{-77}
			}
			out = append(out, c03EncExpr(a.Value)...)
		}
		return out
	case *js.CommaExpr:
		out := []int64{10, int64(len(n.List))}
		for _, a := range n.List {
			out = append(out, c03EncExpr(a)...)
		}
		return out
	}
	return []int64{-77}
}

func c03EncStmt(s js.IStmt) []int64 {
	switch n := s.(type) {
	case *js.ExprStmt:
		return append([]int64{20}, c03EncExpr(n.Value)...)
	case *js.EmptyStmt:
		return []int64{21}
	case *js.LabelledStmt:
		return append(append([]int64{22}, c03EncBytes(n.Label)...), c03EncStmt(n.Value)...)
	}
	return []int64{-78}
}

func prattImpl(c Case) []int64 {
	mode, opts, ts := c03DecToks(c.Args)
	src := c03SpellToks(ts)
	if got, ok := c03Relex(src); !ok || !c03SameToks(got, ts) {
		return []int64{-998} // the case is not a token list of the real lexer
	}
	if mode == 1 {
		src = append(append([]byte("for("), src...), []byte("\n;;);")...)
	}
	var ast *js.AST
	var err error
	if p := catch(func() { ast, err = js.Parse(parse.NewInputBytes(src), c03JsOpts(opts)) }); p != nil {
		return []int64{-1}
	}
	if err != nil {
		return []int64{1}
	}
	if mode == 1 {
		if len(ast.List) != 1 {
			return []int64{-79}
		}
		f, ok := ast.List[0].(*js.ForStmt)
		if !ok {
			return []int64{-79}
		}
		if f.Init == nil {
			return []int64{0, 0}
		}
		if vd, ok := f.Init.(*js.VarDecl); ok && len(vd.List) == 0 {
			// `for(;;)`: the parser stores an empty var declaration (for hoisting) where there is no initialiser
			return []int64{0, 0}
		}
		out := []int64{0, 1}
		out = append(out, c03EncBytes([]byte(f.Init.String()))...)
		return append(out, c03EncExpr(f.Init)...)
	}
	out := []int64{0, int64(len(ast.List))}
	for _, s := range ast.List {
		out = append(out, c03EncBytes([]byte(s.String()))...)
		out = append(out, c03EncStmt(s)...)
	}
	return out
}

// ---------------------------------------------------------------------------------------- alphabet

var (
	c03TkA      = c03Jt(js.IdentifierToken, "a")
	c03TkB      = c03Jt(js.IdentifierToken, "b")
	c03TkC      = c03Jt(js.IdentifierToken, "c")
	c03TkD      = c03Jt(js.IdentifierToken, "d")
	c03TkInt    = c03Jt(js.IntegerToken, "1")
	c03TkDec    = c03Jt(js.DecimalToken, "2.5")
	c03TkHex    = c03Jt(js.HexadecimalToken, "0x1F")
	c03TkStr    = c03Jt(js.StringToken, "'s'")
	c03TkThis   = c03Jt(js.ThisToken, "this")
	c03TkNull   = c03Jt(js.NullToken, "null")
	c03TkTrue   = c03Jt(js.TrueToken, "true")
	c03TkLP     = c03OpTok(js.OpenParenToken)
	c03TkRP     = c03OpTok(js.CloseParenToken)
	c03TkLB     = c03OpTok(js.OpenBracketToken)
	c03TkRB     = c03OpTok(js.CloseBracketToken)
	c03TkComma  = c03OpTok(js.CommaToken)
	c03TkQ      = c03OpTok(js.QuestionToken)
	c03TkColon  = c03OpTok(js.ColonToken)
	c03TkDot    = c03OpTok(js.DotToken)
	c03TkSemi   = c03OpTok(js.SemicolonToken)
	c03TkTypeof = c03OpTok(js.TypeofToken)
)

var c03BinaryOps = []js.TokenType{
	js.MulToken, js.DivToken, js.ModToken, js.AddToken, js.SubToken, js.LtLtToken, js.GtGtToken, js.GtGtGtToken,
	js.LtToken, js.LtEqToken, js.GtToken, js.GtEqToken, js.InToken, js.InstanceofToken,
	js.EqEqToken, js.NotEqToken, js.EqEqEqToken, js.NotEqEqToken,
	js.BitAndToken, js.BitXorToken, js.BitOrToken, js.AndToken, js.OrToken, js.NullishToken, js.ExpToken,
}

var c03AssignOps = []js.TokenType{
	js.EqToken, js.MulEqToken, js.DivEqToken, js.ModEqToken, js.ExpEqToken, js.AddEqToken, js.SubEqToken,
	js.LtLtEqToken, js.GtGtEqToken, js.GtGtGtEqToken, js.BitAndEqToken, js.BitXorEqToken, js.BitOrEqToken,
	js.AndEqToken, js.OrEqToken, js.NullishEqToken,
}

var c03PrefixOps = []js.TokenType{js.NotToken, js.BitNotToken, js.TypeofToken, js.VoidToken, js.DeleteToken, js.AddToken, js.SubToken, js.IncrToken, js.DecrToken}

// one representative per arm / level, used for the larger exhaustive products
var c03LevelReps = []js.TokenType{
	js.EqToken, js.AddEqToken, js.NullishToken, js.OrToken, js.AndToken, js.BitOrToken, js.BitXorToken, js.BitAndToken,
	js.EqEqToken, js.LtToken, js.InToken, js.LtLtToken, js.AddToken, js.SubToken, js.MulToken, js.DivToken, js.ExpToken, js.CommaToken,
}

// the byte-class alphabet of the exhaustive small-scope enumeration: one token per arm of the two switches
var c03SmallAlphabet = []c03Jtok{
	c03TkA, c03TkInt, c03TkLP, c03TkRP, c03TkLB, c03TkRB, c03TkComma, c03TkQ, c03TkColon, c03TkDot, c03TkSemi,
	c03OpTok(js.NotToken), c03TkTypeof, c03OpTok(js.AddToken), c03OpTok(js.IncrToken), c03OpTok(js.MulToken), c03OpTok(js.ExpToken),
	c03OpTok(js.NullishToken), c03OpTok(js.OrToken), c03OpTok(js.AndToken), c03OpTok(js.BitOrToken), c03OpTok(js.LtToken),
	c03OpTok(js.InToken), c03OpTok(js.EqEqToken), c03OpTok(js.EqToken), c03OpTok(js.AddEqToken), c03OpTok(js.DivToken),
}

var c03TinyAlphabet = []c03Jtok{
	c03TkA, c03TkLP, c03TkRP, c03TkComma, c03TkQ, c03TkColon, c03OpTok(js.AddToken), c03OpTok(js.IncrToken), c03OpTok(js.ExpToken),
	c03OpTok(js.NullishToken), c03OpTok(js.OrToken), c03OpTok(js.EqToken), c03TkDot, c03TkLB, c03TkRB,
}

var c03AllAlphabet = func() []c03Jtok {
	out := []c03Jtok{c03TkA, c03TkB, c03TkC, c03TkInt, c03TkDec, c03TkHex, c03TkStr, c03TkThis, c03TkNull, c03TkTrue, c03TkLP, c03TkRP, c03TkLB, c03TkRB, c03TkComma, c03TkQ, c03TkColon, c03TkDot, c03TkSemi}
	seen := map[js.TokenType]bool{}
	for _, l := range [][]js.TokenType{c03BinaryOps, c03AssignOps, c03PrefixOps} {
		for _, o := range l {
			if !seen[o] {
				seen[o] = true
				out = append(out, c03OpTok(o))
			}
		}
	}
	return out
}()

// a '[' where an expression starts is an array literal (outside the modelled fragment): such cases are not
// generated.  The test is syntactic and conservative: a '[' is kept only directly after a token that ends
// an operand (identifier, literal, ')' or ']').
func c03HasArrayLiteral(ts []c03Jtok) bool {
	for i, t := range ts {
		if t.ty != js.OpenBracketToken {
			continue
		}
		if i == 0 {
			return true
		}
		p := ts[i-1].ty
		if !(js.IsIdentifier(p) || js.IsNumeric(p) || p == js.CloseParenToken || p == js.CloseBracketToken ||
			p == js.StringToken || p == js.ThisToken || p == js.NullToken || p == js.TrueToken || p == js.FalseToken) {
			return true
		}
	}
	return false
}

func emitPratt(emit func(Case), mode, opts int, ts []c03Jtok) {
	if c03HasArrayLiteral(ts) {
		return
	}
	emit(prattCase(mode, opts, ts, ""))
}

func c03Cat(parts ...interface{}) []c03Jtok {
	var out []c03Jtok
	for _, p := range parts {
		switch x := p.(type) {
		case c03Jtok:
			out = append(out, x)
		case []c03Jtok:
			out = append(out, x...)
		case js.TokenType:
			out = append(out, c03OpTok(x))
		}
	}
	return out
}

func c03WithLT(t c03Jtok) c03Jtok { t.lt = true; return t }

func prattGen(r *Rng, tier string, emit func(Case)) {
	opt := 0
	nextOpt := func() int { opt = (opt + 1) % 4; return opt }

	// (1) exhaustive: every token string of length <= 3 over one token per arm, and of length 4 / 5 over smaller alphabets
	var rec func(al []c03Jtok, k int, cur []c03Jtok)
	rec = func(al []c03Jtok, k int, cur []c03Jtok) {
		emitPratt(emit, 0, nextOpt(), cur)
		if len(cur) == k {
			return
		}
		for _, t := range al {
			rec(al, k, append(cur[:len(cur):len(cur)], t))
		}
	}
	rec(c03SmallAlphabet, 3, nil)
	if tier == "thorough" {
		rec(c03SmallAlphabet, 4, nil)
		rec(c03TinyAlphabet, 6, nil)
	} else {
		rec(c03TinyAlphabet, 4, nil)
	}

	// (2) every ordered pair of binary / assignment operators, bare and under both parenthesisations,
	//     under all four Options
	var ops2 []js.TokenType
	ops2 = append(ops2, c03BinaryOps...)
	ops2 = append(ops2, c03AssignOps...)
	ops2 = append(ops2, js.CommaToken)
	for _, o1 := range ops2 {
		for _, o2 := range ops2 {
			o := nextOpt()
			emitPratt(emit, 0, o, c03Cat(c03TkA, o1, c03TkB, o2, c03TkC))
			emitPratt(emit, 0, o, c03Cat(c03TkLP, c03TkA, o1, c03TkB, c03TkRP, o2, c03TkC))
			emitPratt(emit, 0, o, c03Cat(c03TkA, o1, c03TkLP, c03TkB, o2, c03TkC, c03TkRP))
		}
		// with the conditional operator in every position
		emitPratt(emit, 0, nextOpt(), c03Cat(c03TkA, o1, c03TkB, c03TkQ, c03TkC, c03TkColon, c03TkD))
		emitPratt(emit, 0, nextOpt(), c03Cat(c03TkA, c03TkQ, c03TkB, o1, c03TkC, c03TkColon, c03TkD))
		emitPratt(emit, 0, nextOpt(), c03Cat(c03TkA, c03TkQ, c03TkB, c03TkColon, c03TkC, o1, c03TkD))
		// prefix and postfix operators on either operand
		for _, u := range c03PrefixOps {
			emitPratt(emit, 0, nextOpt(), c03Cat(u, c03TkA, o1, c03TkB))
			emitPratt(emit, 0, nextOpt(), c03Cat(c03TkA, o1, u, c03TkB))
			emitPratt(emit, 0, nextOpt(), c03Cat(u, c03TkLP, c03TkA, o1, c03TkB, c03TkRP))
			emitPratt(emit, 0, nextOpt(), c03Cat(c03TkLP, u, c03TkA, c03TkRP, o1, c03TkB))
		}
		for _, u := range []js.TokenType{js.IncrToken, js.DecrToken} {
			emitPratt(emit, 0, nextOpt(), c03Cat(c03TkA, u, o1, c03TkB))
			emitPratt(emit, 0, nextOpt(), c03Cat(c03TkA, o1, c03TkB, u))
			emitPratt(emit, 0, nextOpt(), c03Cat(c03TkA, o1, c03TkB, c03WithLT(c03OpTok(u)), c03TkC))
		}
		// member / call operands
		emitPratt(emit, 0, nextOpt(), c03Cat(c03TkA, c03TkDot, c03TkB, o1, c03TkC, c03TkLP, c03TkD, c03TkRP))
		emitPratt(emit, 0, nextOpt(), c03Cat(c03TkA, c03TkLB, c03TkB, o1, c03TkC, c03TkRB, o1, c03TkD))
		emitPratt(emit, 0, nextOpt(), c03Cat(c03TkA, c03TkLP, c03TkB, o1, c03TkC, c03TkComma, c03TkD, c03TkRP, o1, c03TkD))
		// in the initialiser of a for statement (In flag off)
		emitPratt(emit, 1, nextOpt(), c03Cat(c03TkA, o1, c03TkB))
		emitPratt(emit, 1, nextOpt(), c03Cat(c03TkA, o1, c03TkLP, c03TkB, js.InToken, c03TkC, c03TkRP))
		emitPratt(emit, 1, nextOpt(), c03Cat(c03TkA, o1, c03TkB, js.InToken, c03TkC))
		emitPratt(emit, 1, nextOpt(), c03Cat(c03TkA, c03TkQ, c03TkB, js.InToken, c03TkC, c03TkColon, c03TkD, o1, c03TkA))
	}
	// (3) every triple over one representative per level, all five parenthesisations of a op b op c op d
	reps := c03LevelReps
	if tier != "thorough" {
		reps = []js.TokenType{js.EqToken, js.NullishToken, js.OrToken, js.AndToken, js.BitOrToken, js.EqEqToken, js.LtToken, js.AddToken, js.MulToken, js.ExpToken, js.CommaToken}
	}
	for _, o1 := range reps {
		for _, o2 := range reps {
			for _, o3 := range reps {
				o := nextOpt()
				emitPratt(emit, 0, o, c03Cat(c03TkA, o1, c03TkB, o2, c03TkC, o3, c03TkD))
				switch r.Intn(4) {
				case 0:
					emitPratt(emit, 0, o, c03Cat(c03TkLP, c03TkA, o1, c03TkB, c03TkRP, o2, c03TkLP, c03TkC, o3, c03TkD, c03TkRP))
				case 1:
					emitPratt(emit, 0, o, c03Cat(c03TkA, o1, c03TkLP, c03TkB, o2, c03TkC, c03TkRP, o3, c03TkD))
				case 2:
					emitPratt(emit, 0, o, c03Cat(c03TkLP, c03TkA, o1, c03TkB, o2, c03TkC, c03TkRP, o3, c03TkD))
				default:
					emitPratt(emit, 0, o, c03Cat(c03TkA, o1, c03TkLP, c03TkB, o2, c03TkC, o3, c03TkD, c03TkRP))
				}
			}
		}
	}
	// (4) seeded structured expressions from the grammar generator, and malformed variants
	n := 6000
	if tier == "thorough" {
		n = 200000
	}
	g := &c03ExprGen{r: r}
	for i := 0; i < n; i++ {
		depth := 1 + r.Intn(5)
		var ts []c03Jtok
		nst := 1
		if r.Chance(1, 6) {
			nst = 2 + r.Intn(2)
		}
		for s := 0; s < nst; s++ {
			e := g.gen(0, depth, true)
			st := g.toks(e)
			if s > 0 {
				if r.Bool() {
					ts = append(ts, c03TkSemi)
				} else if len(st) > 0 {
					st[0].lt = true
				}
			}
			ts = append(ts, st...)
		}
		if r.Chance(1, 5) {
			ts = append(ts, c03TkSemi)
		}
		mode := 0
		if r.Chance(1, 8) {
			mode = 1
		}
		emitPratt(emit, mode, r.Intn(4), ts)
		// malformed: one or two token-level edits
		if len(ts) > 0 {
			m := append([]c03Jtok{}, ts...)
			for k := 0; k < 1+r.Intn(2); k++ {
				m = c03MutateToks(r, m)
			}
			emitPratt(emit, mode, r.Intn(4), m)
		}
	}
	// (5) purely random token strings
	m := 2000
	if tier == "thorough" {
		m = 100000
	}
	for i := 0; i < m; i++ {
		k := 1 + r.Intn(9)
		ts := make([]c03Jtok, k)
		for j := range ts {
			ts[j] = c03AllAlphabet[r.Intn(len(c03AllAlphabet))]
			if r.Chance(1, 7) {
				ts[j].lt = true
			}
		}
		emitPratt(emit, 0, r.Intn(4), ts)
	}
}

func c03MutateToks(r *Rng, ts []c03Jtok) []c03Jtok {
	if len(ts) == 0 {
		return []c03Jtok{c03AllAlphabet[r.Intn(len(c03AllAlphabet))]}
	}
	i := r.Intn(len(ts))
	out := append([]c03Jtok{}, ts...)
	switch r.Intn(5) {
	case 0: // delete
		return append(out[:i], out[i+1:]...)
	case 1: // insert
		t := c03AllAlphabet[r.Intn(len(c03AllAlphabet))]
		return append(out[:i], append([]c03Jtok{t}, out[i:]...)...)
	case 2: // replace
		out[i] = c03AllAlphabet[r.Intn(len(c03AllAlphabet))]
	case 3: // flip the line-terminator flag
		out[i].lt = !out[i].lt
	default: // swap neighbours
		if i+1 < len(out) {
			out[i], out[i+1] = out[i+1], out[i]
		}
	}
	return out
}

func prattShrink(c Case) []Case {
	mode, opts, ts := c03DecToks(c.Args)
	var out []Case
	for i := range ts {
		m := append(append([]c03Jtok{}, ts[:i]...), ts[i+1:]...)
		if !c03HasArrayLiteral(m) {
			out = append(out, prattCase(mode, opts, m, ""))
		}
	}
	for i := range ts {
		if ts[i].lt {
			m := append([]c03Jtok{}, ts...)
			m[i].lt = false
			out = append(out, prattCase(mode, opts, m, ""))
		}
	}
	if opts != 0 {
		out = append(out, prattCase(mode, 0, ts, ""))
	}
	return out
}

func prattClass(c Case, out []int64) string {
	mode, _, ts := c03DecToks(c.Args)
	res := "other"
	if len(out) > 0 {
		switch out[0] {
		case 0:
			res = "ok"
			if len(out) > 1 && out[1] > 1 {
				res = "ok-multi-stmt"
			}
		case 1:
			res = "error"
		case -998:
			res = "BAD-CASE"
		}
	}
	sz := "len<=3"
	switch {
	case len(ts) > 12:
		sz = "len>12"
	case len(ts) > 6:
		sz = "len7-12"
	case len(ts) > 3:
		sz = "len4-6"
	}
	return fmt.Sprintf("mode%d/%s/%s", mode, res, sz)
}

var prattModel = &Model{Name: "pratt", Gen: prattGen, Impl: prattImpl, Shrink: prattShrink, Class: prattClass}

func init() {
	props["C03"] = &PropSpec{
		Models:  []*Model{prattModel, c03StmtModel},
		Oracles: []*Oracle{{Name: "c03-grammar-generator", Run: c03Oracle}},
	}
}
