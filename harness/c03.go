package main

import (
	"bytes"
	"fmt"
	"io"
	"strings"

	"github.com/tdewolff/parse/v2"
	"github.com/tdewolff/parse/v2/js"
)

// C03 — correspondence of the Pratt model (coq/theories/JsExpr/Pratt.v, entry point run_pratt) with
// js.Parse on token lists of the operator fragment, and the whole-language generator oracle (c03gen.go).

// jtok is what Parser.next() leaves in (p.tt, p.prevLT, p.data).
type jtok struct {
	ty   js.TokenType
	lt   bool
	data []byte
}

func jt(ty js.TokenType, s string) jtok { return jtok{ty: ty, data: []byte(s)} }

func opTok(ty js.TokenType) jtok { return jtok{ty: ty, data: ty.Bytes()} }

// spellToks writes the tokens separated by one space, or by a newline where the token carries prevLT.
func spellToks(ts []jtok) []byte {
	var b bytes.Buffer
	for i, t := range ts {
		if t.lt {
			b.WriteByte('\n')
		} else if i > 0 {
			b.WriteByte(' ')
		}
		b.Write(t.data)
	}
	return b.Bytes()
}

// normToks forces a line break after every '/' and '/=' (so that a regular-expression re-lex at that token
// fails at once and the parser's behaviour is a function of the token list alone).
func normToks(ts []jtok) []jtok {
	out := make([]jtok, len(ts))
	copy(out, ts)
	for i := range out {
		if i > 0 && (out[i-1].ty == js.DivToken || out[i-1].ty == js.DivEqToken) {
			out[i].lt = true
		}
	}
	return out
}

// relex runs the real lexer over src the way Parser.next() does.
func relex(src []byte) ([]jtok, bool) {
	l := js.NewLexer(parse.NewInputBytes(src))
	var out []jtok
	lt := false
	for {
		tt, data := l.Next()
		switch tt {
		case js.WhitespaceToken:
			continue
		case js.LineTerminatorToken, js.CommentLineTerminatorToken:
			lt = true
			continue
		case js.CommentToken:
			continue
		case js.ErrorToken:
			return out, l.Err() == io.EOF
		}
		out = append(out, jtok{tt, lt, append([]byte{}, data...)})
		lt = false
	}
}

func sameToks(a, b []jtok) bool {
	if len(a) != len(b) {
		return false
	}
	for i := range a {
		if a[i].ty != b[i].ty || a[i].lt != b[i].lt || !bytes.Equal(a[i].data, b[i].data) {
			return false
		}
	}
	return true
}

func encToks(mode, opts int, ts []jtok) []int64 {
	out := []int64{int64(mode), int64(opts), int64(len(ts))}
	for _, t := range ts {
		f := int64(0)
		if t.lt {
			f = 1
		}
		out = append(out, int64(t.ty), f)
		out = append(out, bytesToArgs(t.data)...)
	}
	return out
}

func decToks(a []int64) (mode, opts int, ts []jtok) {
	if len(a) < 3 {
		return 0, 0, nil
	}
	mode, opts = int(a[0]), int(a[1])
	n := int(a[2])
	a = a[3:]
	for i := 0; i < n && len(a) >= 3; i++ {
		ty, f := a[0], a[1]
		var d []int64
		d, a = takeList(a[2:])
		ts = append(ts, jtok{js.TokenType(ty), f != 0, toBytes(d)})
	}
	return
}

func prattCase(mode, opts int, ts []jtok, note string) Case {
	ts = normToks(ts)
	if note == "" {
		note = fmt.Sprintf("mode %d opts %d %q", mode, opts, spellToks(ts))
	}
	return Case{Fn: "pratt", Args: encToks(mode, opts, ts), Note: note}
}

func jsOpts(o int) js.Options { return js.Options{WhileToFor: o&1 != 0, Inline: o&2 != 0} }

func encBytes(b []byte) []int64 { return bytesToArgs(b) }

// encExpr mirrors enc_expr of JsExpr/Harness.v; a node outside the fragment is -77.
func encExpr(e js.IExpr) []int64 {
	switch n := e.(type) {
	case *js.Var:
		return append([]int64{1}, encBytes(n.Data)...)
	case *js.LiteralExpr:
		return append([]int64{2, int64(n.TokenType)}, encBytes(n.Data)...)
	case *js.GroupExpr:
		return append([]int64{3}, encExpr(n.X)...)
	case *js.UnaryExpr:
		return append([]int64{4, int64(n.Op)}, encExpr(n.X)...)
	case *js.BinaryExpr:
		return append(append([]int64{5, int64(n.Op)}, encExpr(n.X)...), encExpr(n.Y)...)
	case *js.CondExpr:
		return append(append(append([]int64{6}, encExpr(n.Cond)...), encExpr(n.X)...), encExpr(n.Y)...)
	case *js.DotExpr:
		y, ok := n.Y.(js.LiteralExpr)
		if !ok || n.Optional {
			return []int64{-77}
		}
		return append(append([]int64{7}, encBytes(y.Data)...), encExpr(n.X)...)
	case *js.IndexExpr:
		if n.Optional {
			return []int64{-77}
		}
		return append(append([]int64{8}, encExpr(n.X)...), encExpr(n.Y)...)
	case *js.CallExpr:
		if n.Optional {
			return []int64{-77}
		}
		out := append([]int64{9, int64(len(n.Args.List))}, encExpr(n.X)...)
		for _, a := range n.Args.List {
			if a.Rest {
				return []int64{-77}
			}
			out = append(out, encExpr(a.Value)...)
		}
		return out
	case *js.CommaExpr:
		out := []int64{10, int64(len(n.List))}
		for _, a := range n.List {
			out = append(out, encExpr(a)...)
		}
		return out
	}
	return []int64{-77}
}

func encStmt(s js.IStmt) []int64 {
	switch n := s.(type) {
	case *js.ExprStmt:
		return append([]int64{20}, encExpr(n.Value)...)
	case *js.EmptyStmt:
		return []int64{21}
	case *js.LabelledStmt:
		return append(append([]int64{22}, encBytes(n.Label)...), encStmt(n.Value)...)
	}
	return []int64{-78}
}

func prattImpl(c Case) []int64 {
	mode, opts, ts := decToks(c.Args)
	src := spellToks(ts)
	if got, ok := relex(src); !ok || !sameToks(got, ts) {
		return []int64{-998} // the case is not a token list of the real lexer
	}
	if mode == 1 {
		src = append(append([]byte("for("), src...), []byte("\n;;);")...)
	}
	var ast *js.AST
	var err error
	if p := catch(func() { ast, err = js.Parse(parse.NewInputBytes(src), jsOpts(opts)) }); p != nil {
		return []int64{-1}
	}
	if err != nil {
		return []int64{1}
	}
	if mode == 1 {
		if len(ast.List) != 1 {
			return []int64{-79}
		}
		f, ok := ast.List[0].(*js.ForStmt)
		if !ok {
			return []int64{-79}
		}
		if f.Init == nil {
			return []int64{0, 0}
		}
		out := []int64{0, 1}
		out = append(out, encBytes([]byte(f.Init.String()))...)
		return append(out, encExpr(f.Init)...)
	}
	out := []int64{0, int64(len(ast.List))}
	for _, s := range ast.List {
		out = append(out, encBytes([]byte(s.String()))...)
		out = append(out, encStmt(s)...)
	}
	return out
}

// ---------------------------------------------------------------------------------------- alphabet

var (
	tkA      = jt(js.IdentifierToken, "a")
	tkB      = jt(js.IdentifierToken, "b")
	tkC      = jt(js.IdentifierToken, "c")
	tkD      = jt(js.IdentifierToken, "d")
	tkInt    = jt(js.IntegerToken, "1")
	tkDec    = jt(js.DecimalToken, "2.5")
	tkHex    = jt(js.HexadecimalToken, "0x1F")
	tkStr    = jt(js.StringToken, "'s'")
	tkThis   = jt(js.ThisToken, "this")
	tkNull   = jt(js.NullToken, "null")
	tkTrue   = jt(js.TrueToken, "true")
	tkLP     = opTok(js.OpenParenToken)
	tkRP     = opTok(js.CloseParenToken)
	tkLB     = opTok(js.OpenBracketToken)
	tkRB     = opTok(js.CloseBracketToken)
	tkComma  = opTok(js.CommaToken)
	tkQ      = opTok(js.QuestionToken)
	tkColon  = opTok(js.ColonToken)
	tkDot    = opTok(js.DotToken)
	tkSemi   = opTok(js.SemicolonToken)
	tkTypeof = opTok(js.TypeofToken)
)

var binaryOps = []js.TokenType{
	js.MulToken, js.DivToken, js.ModToken, js.AddToken, js.SubToken, js.LtLtToken, js.GtGtToken, js.GtGtGtToken,
	js.LtToken, js.LtEqToken, js.GtToken, js.GtEqToken, js.InToken, js.InstanceofToken,
	js.EqEqToken, js.NotEqToken, js.EqEqEqToken, js.NotEqEqToken,
	js.BitAndToken, js.BitXorToken, js.BitOrToken, js.AndToken, js.OrToken, js.NullishToken, js.ExpToken,
}

var assignOps = []js.TokenType{
	js.EqToken, js.MulEqToken, js.DivEqToken, js.ModEqToken, js.ExpEqToken, js.AddEqToken, js.SubEqToken,
	js.LtLtEqToken, js.GtGtEqToken, js.GtGtGtEqToken, js.BitAndEqToken, js.BitXorEqToken, js.BitOrEqToken,
	js.AndEqToken, js.OrEqToken, js.NullishEqToken,
}

var prefixOps = []js.TokenType{js.NotToken, js.BitNotToken, js.TypeofToken, js.VoidToken, js.DeleteToken, js.AddToken, js.SubToken, js.IncrToken, js.DecrToken}

// one representative per arm / level, used for the larger exhaustive products
var levelReps = []js.TokenType{
	js.EqToken, js.AddEqToken, js.NullishToken, js.OrToken, js.AndToken, js.BitOrToken, js.BitXorToken, js.BitAndToken,
	js.EqEqToken, js.LtToken, js.InToken, js.LtLtToken, js.AddToken, js.SubToken, js.MulToken, js.DivToken, js.ExpToken, js.CommaToken,
}

// the byte-class alphabet of the exhaustive small-scope enumeration: one token per arm of the two switches
var smallAlphabet = []jtok{
	tkA, tkInt, tkLP, tkRP, tkLB, tkRB, tkComma, tkQ, tkColon, tkDot, tkSemi,
	opTok(js.NotToken), tkTypeof, opTok(js.AddToken), opTok(js.IncrToken), opTok(js.MulToken), opTok(js.ExpToken),
	opTok(js.NullishToken), opTok(js.OrToken), opTok(js.AndToken), opTok(js.BitOrToken), opTok(js.LtToken),
	opTok(js.InToken), opTok(js.EqEqToken), opTok(js.EqToken), opTok(js.AddEqToken), opTok(js.DivToken),
}

var tinyAlphabet = []jtok{
	tkA, tkLP, tkRP, tkComma, tkQ, tkColon, opTok(js.AddToken), opTok(js.IncrToken), opTok(js.ExpToken),
	opTok(js.NullishToken), opTok(js.OrToken), opTok(js.EqToken), tkDot, tkLB, tkRB,
}

var allAlphabet = func() []jtok {
	out := []jtok{tkA, tkB, tkC, tkInt, tkDec, tkHex, tkStr, tkThis, tkNull, tkTrue, tkLP, tkRP, tkLB, tkRB, tkComma, tkQ, tkColon, tkDot, tkSemi}
	seen := map[js.TokenType]bool{}
	for _, l := range [][]js.TokenType{binaryOps, assignOps, prefixOps} {
		for _, o := range l {
			if !seen[o] {
				seen[o] = true
				out = append(out, opTok(o))
			}
		}
	}
	return out
}()

// a '[' where an expression starts is an array literal (outside the modelled fragment): such cases are not
// generated.  The test is syntactic and conservative: a '[' is kept only directly after a token that ends
// an operand (identifier, literal, ')' or ']').
func hasArrayLiteral(ts []jtok) bool {
	for i, t := range ts {
		if t.ty != js.OpenBracketToken {
			continue
		}
		if i == 0 {
			return true
		}
		p := ts[i-1].ty
		if !(js.IsIdentifier(p) || js.IsNumeric(p) || p == js.CloseParenToken || p == js.CloseBracketToken ||
			p == js.StringToken || p == js.ThisToken || p == js.NullToken || p == js.TrueToken || p == js.FalseToken) {
			return true
		}
		if t.lt && false {
			return true
		}
	}
	return false
}

func emitPratt(emit func(Case), mode, opts int, ts []jtok) {
	if hasArrayLiteral(ts) {
		return
	}
	emit(prattCase(mode, opts, ts, ""))
}

func cat(parts ...interface{}) []jtok {
	var out []jtok
	for _, p := range parts {
		switch x := p.(type) {
		case jtok:
			out = append(out, x)
		case []jtok:
			out = append(out, x...)
		case js.TokenType:
			out = append(out, opTok(x))
		}
	}
	return out
}

func withLT(t jtok) jtok { t.lt = true; return t }

func prattGen(r *Rng, tier string, emit func(Case)) {
	opt := 0
	nextOpt := func() int { opt = (opt + 1) % 4; return opt }

	// (1) exhaustive: every token string of length <= 3 over one token per arm, and of length 4 / 5 over smaller alphabets
	var rec func(al []jtok, k int, cur []jtok)
	rec = func(al []jtok, k int, cur []jtok) {
		emitPratt(emit, 0, nextOpt(), cur)
		if len(cur) == k {
			return
		}
		for _, t := range al {
			rec(al, k, append(cur[:len(cur):len(cur)], t))
		}
	}
	rec(smallAlphabet, 3, nil)
	if tier == "thorough" {
		rec(smallAlphabet, 4, nil)
		rec(tinyAlphabet, 6, nil)
	} else {
		rec(tinyAlphabet, 4, nil)
	}

	// (2) every ordered pair of binary / assignment operators, bare and under both parenthesisations,
	//     under all four Options
	var ops2 []js.TokenType
	ops2 = append(ops2, binaryOps...)
	ops2 = append(ops2, assignOps...)
	ops2 = append(ops2, js.CommaToken)
	for _, o1 := range ops2 {
		for _, o2 := range ops2 {
			o := nextOpt()
			emitPratt(emit, 0, o, cat(tkA, o1, tkB, o2, tkC))
			emitPratt(emit, 0, o, cat(tkLP, tkA, o1, tkB, tkRP, o2, tkC))
			emitPratt(emit, 0, o, cat(tkA, o1, tkLP, tkB, o2, tkC, tkRP))
		}
		// with the conditional operator in every position
		emitPratt(emit, 0, nextOpt(), cat(tkA, o1, tkB, tkQ, tkC, tkColon, tkD))
		emitPratt(emit, 0, nextOpt(), cat(tkA, tkQ, tkB, o1, tkC, tkColon, tkD))
		emitPratt(emit, 0, nextOpt(), cat(tkA, tkQ, tkB, tkColon, tkC, o1, tkD))
		// prefix and postfix operators on either operand
		for _, u := range prefixOps {
			emitPratt(emit, 0, nextOpt(), cat(u, tkA, o1, tkB))
			emitPratt(emit, 0, nextOpt(), cat(tkA, o1, u, tkB))
			emitPratt(emit, 0, nextOpt(), cat(u, tkLP, tkA, o1, tkB, tkRP))
			emitPratt(emit, 0, nextOpt(), cat(tkLP, u, tkA, tkRP, o1, tkB))
		}
		for _, u := range []js.TokenType{js.IncrToken, js.DecrToken} {
			emitPratt(emit, 0, nextOpt(), cat(tkA, u, o1, tkB))
			emitPratt(emit, 0, nextOpt(), cat(tkA, o1, tkB, u))
			emitPratt(emit, 0, nextOpt(), cat(tkA, o1, tkB, withLT(opTok(u)), tkC))
		}
		// member / call operands
		emitPratt(emit, 0, nextOpt(), cat(tkA, tkDot, tkB, o1, tkC, tkLP, tkD, tkRP))
		emitPratt(emit, 0, nextOpt(), cat(tkA, tkLB, tkB, o1, tkC, tkRB, o1, tkD))
		emitPratt(emit, 0, nextOpt(), cat(tkA, tkLP, tkB, o1, tkC, tkComma, tkD, tkRP, o1, tkD))
		// in the initialiser of a for statement (In flag off)
		emitPratt(emit, 1, nextOpt(), cat(tkA, o1, tkB))
		emitPratt(emit, 1, nextOpt(), cat(tkA, o1, tkLP, tkB, js.InToken, tkC, tkRP))
		emitPratt(emit, 1, nextOpt(), cat(tkA, o1, tkB, js.InToken, tkC))
		emitPratt(emit, 1, nextOpt(), cat(tkA, tkQ, tkB, js.InToken, tkC, tkColon, tkD, o1, tkA))
	}
	// (3) every triple over one representative per level, all five parenthesisations of a op b op c op d
	reps := levelReps
	if tier != "thorough" {
		reps = []js.TokenType{js.EqToken, js.NullishToken, js.OrToken, js.AndToken, js.BitOrToken, js.EqEqToken, js.LtToken, js.AddToken, js.MulToken, js.ExpToken, js.CommaToken}
	}
	for _, o1 := range reps {
		for _, o2 := range reps {
			for _, o3 := range reps {
				o := nextOpt()
				emitPratt(emit, 0, o, cat(tkA, o1, tkB, o2, tkC, o3, tkD))
				switch r.Intn(4) {
				case 0:
					emitPratt(emit, 0, o, cat(tkLP, tkA, o1, tkB, tkRP, o2, tkLP, tkC, o3, tkD, tkRP))
				case 1:
					emitPratt(emit, 0, o, cat(tkA, o1, tkLP, tkB, o2, tkC, tkRP, o3, tkD))
				case 2:
					emitPratt(emit, 0, o, cat(tkLP, tkA, o1, tkB, o2, tkC, tkRP, o3, tkD))
				default:
					emitPratt(emit, 0, o, cat(tkA, o1, tkLP, tkB, o2, tkC, o3, tkD, tkRP))
				}
			}
		}
	}
	// (4) seeded structured expressions from the grammar generator, and malformed variants
	n := 6000
	if tier == "thorough" {
		n = 200000
	}
	g := &exprGen{r: r}
	for i := 0; i < n; i++ {
		depth := 1 + r.Intn(5)
		var ts []jtok
		nst := 1
		if r.Chance(1, 6) {
			nst = 2 + r.Intn(2)
		}
		for s := 0; s < nst; s++ {
			e := g.gen(0, depth, true)
			st := g.toks(e)
			if s > 0 {
				if r.Bool() {
					ts = append(ts, tkSemi)
				} else if len(st) > 0 {
					st[0].lt = true
				}
			}
			ts = append(ts, st...)
		}
		if r.Chance(1, 5) {
			ts = append(ts, tkSemi)
		}
		mode := 0
		if r.Chance(1, 8) {
			mode = 1
		}
		emitPratt(emit, mode, r.Intn(4), ts)
		// malformed: one or two token-level edits
		if len(ts) > 0 {
			m := append([]jtok{}, ts...)
			for k := 0; k < 1+r.Intn(2); k++ {
				m = mutateToks(r, m)
			}
			emitPratt(emit, mode, r.Intn(4), m)
		}
	}
	// (5) purely random token strings
	m := 2000
	if tier == "thorough" {
		m = 100000
	}
	for i := 0; i < m; i++ {
		k := 1 + r.Intn(9)
		ts := make([]jtok, k)
		for j := range ts {
			ts[j] = allAlphabet[r.Intn(len(allAlphabet))]
			if r.Chance(1, 7) {
				ts[j].lt = true
			}
		}
		emitPratt(emit, 0, r.Intn(4), ts)
	}
}

func mutateToks(r *Rng, ts []jtok) []jtok {
	if len(ts) == 0 {
		return []jtok{allAlphabet[r.Intn(len(allAlphabet))]}
	}
	i := r.Intn(len(ts))
	out := append([]jtok{}, ts...)
	switch r.Intn(5) {
	case 0: // delete
		return append(out[:i], out[i+1:]...)
	case 1: // insert
		t := allAlphabet[r.Intn(len(allAlphabet))]
		return append(out[:i], append([]jtok{t}, out[i:]...)...)
	case 2: // replace
		out[i] = allAlphabet[r.Intn(len(allAlphabet))]
	case 3: // flip the line-terminator flag
		out[i].lt = !out[i].lt
	default: // swap neighbours
		if i+1 < len(out) {
			out[i], out[i+1] = out[i+1], out[i]
		}
	}
	return out
}

func prattShrink(c Case) []Case {
	mode, opts, ts := decToks(c.Args)
	var out []Case
	for i := range ts {
		m := append(append([]jtok{}, ts[:i]...), ts[i+1:]...)
		if !hasArrayLiteral(m) {
			out = append(out, prattCase(mode, opts, m, ""))
		}
	}
	for i := range ts {
		if ts[i].lt {
			m := append([]jtok{}, ts...)
			m[i].lt = false
			out = append(out, prattCase(mode, opts, m, ""))
		}
	}
	if opts != 0 {
		out = append(out, prattCase(mode, 0, ts, ""))
	}
	return out
}

func prattClass(c Case, out []int64) string {
	mode, _, ts := decToks(c.Args)
	res := "other"
	if len(out) > 0 {
		switch out[0] {
		case 0:
			res = "ok"
			if len(out) > 1 && out[1] > 1 {
				res = "ok-multi-stmt"
			}
		case 1:
			res = "error"
		case -998:
			res = "BAD-CASE"
		}
	}
	sz := "len<=3"
	switch {
	case len(ts) > 12:
		sz = "len>12"
	case len(ts) > 6:
		sz = "len7-12"
	case len(ts) > 3:
		sz = "len4-6"
	}
	return fmt.Sprintf("mode%d/%s/%s", mode, res, sz)
}

var prattModel = &Model{Name: "pratt", Gen: prattGen, Impl: prattImpl, Shrink: prattShrink, Class: prattClass}

func init() {
	props["C03"] = &PropSpec{
		Models:  []*Model{prattModel},
		Oracles: []*Oracle{{Name: "c03-grammar-generator", Run: c03Oracle}},
	}
}

var _ = strings.Join
