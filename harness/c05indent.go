package main

import (
	"bytes"
	"fmt"

	"github.com/tdewolff/parse/v2"
	"github.com/tdewolff/parse/v2/js"
)

// C05 — correspondence of the model of parse.Indenter and of the JS() methods that bypass it (JsPrint/Indent.v,
// entry run_jsindent) with the real code: trees are built directly as js AST nodes and printed with JS(w).

type c05Node struct {
	tag   int
	data  []byte
	op    js.TokenType
	kids  []*c05Node // expressions / statements
	parts [][]byte   // template chunks (len(kids) of them), data = tail
	opt   *c05Node   // else / init / return value
}

var c05BinOps = []js.TokenType{js.AddToken, js.SubToken, js.MulToken, js.EqToken, js.AndToken, js.InToken, js.CommaToken, js.EqEqEqToken}

var c05LitPool = [][]byte{
	[]byte("'s'"), []byte("\"a\\\nb\""), []byte("`l1\nl2`"), []byte("`\n\n`"), []byte("/re\\/x/g"), []byte("0x1F"), []byte("1.5"),
	[]byte("let x"), []byte("let "), []byte("\n"), []byte(""), []byte("`a\n  b`"), []byte("'\\\n\\\n'"),
}

func c05GenExpr(r *Rng, depth int) *c05Node {
	k := r.Intn(8)
	if depth <= 0 {
		k = r.Intn(2)
	}
	switch k {
	case 0, 7:
		return &c05Node{tag: 1, data: c05LitPool[r.Intn(len(c05LitPool))]}
	case 1:
		return &c05Node{tag: 2, data: []byte([]string{"a", "b", "let", "x1"}[r.Intn(4)])}
	case 2:
		n := &c05Node{tag: 3}
		chunks := []string{"`", "`a", "`l1\nl2", "}", "}\n", "} x\n  y "}
		for i := r.Intn(3); i > 0; i-- {
			c := chunks[r.Intn(len(chunks))]
			if len(n.parts) == 0 {
				c = chunks[r.Intn(3)]
			} else {
				c = chunks[3+r.Intn(3)]
			}
			n.parts = append(n.parts, []byte(c+"${"))
			n.kids = append(n.kids, c05GenExpr(r, depth-1))
		}
		if len(n.parts) == 0 {
			n.data = []byte([]string{"`t`", "`t1\nt2`", "`\n`"}[r.Intn(3)])
		} else {
			n.data = []byte([]string{"}`", "}\nend`", "} z`"}[r.Intn(3)])
		}
		return n
	case 3:
		return &c05Node{tag: 4, op: c05BinOps[r.Intn(len(c05BinOps))], kids: []*c05Node{c05GenExpr(r, depth-1), c05GenExpr(r, depth-1)}}
	case 4:
		n := &c05Node{tag: 5, kids: []*c05Node{c05GenExpr(r, depth-1)}}
		for i := r.Intn(3); i > 0; i-- {
			n.kids = append(n.kids, c05GenExpr(r, depth-1))
		}
		return n
	case 5:
		return &c05Node{tag: 6, kids: []*c05Node{c05GenExpr(r, depth-1)}}
	default:
		n := &c05Node{tag: 7}
		for i := r.Intn(3); i > 0; i-- {
			n.kids = append(n.kids, c05GenStmt(r, depth-1))
		}
		return n
	}
}

func c05GenStmt(r *Rng, depth int) *c05Node {
	k := r.Intn(8)
	if depth <= 0 && (k == 1 || k == 2) {
		k = 0
	}
	switch k {
	case 0, 7:
		return &c05Node{tag: 10, kids: []*c05Node{c05GenExpr(r, depth)}}
	case 1:
		n := &c05Node{tag: 11}
		for i := r.Intn(4); i > 0; i-- {
			n.kids = append(n.kids, c05GenStmt(r, depth-1))
		}
		return n
	case 2:
		n := &c05Node{tag: 12, kids: []*c05Node{c05GenExpr(r, depth-1), c05GenStmt(r, depth-1)}}
		if r.Bool() {
			n.opt = c05GenStmt(r, depth-1)
		}
		return n
	case 3:
		return &c05Node{tag: 13, data: []byte([]string{"/*! c */", "/*! l1\n l2 */", "/*!\n*/"}[r.Intn(3)])}
	case 4:
		n := &c05Node{tag: 14, data: []byte([]string{"v", "w1"}[r.Intn(2)])}
		if r.Bool() {
			n.opt = c05GenExpr(r, depth-1)
		}
		return n
	case 5:
		n := &c05Node{tag: 15}
		if r.Bool() {
			n.opt = c05GenExpr(r, depth-1)
		}
		return n
	default:
		return &c05Node{tag: 16}
	}
}

func (n *c05Node) enc() []int64 {
	out := []int64{int64(n.tag)}
	switch n.tag {
	case 1, 2, 13:
		out = append(out, bytesToArgs(n.data)...)
	case 3:
		out = append(out, int64(len(n.parts)))
		for i, p := range n.parts {
			out = append(out, bytesToArgs(p)...)
			out = append(out, n.kids[i].enc()...)
		}
		out = append(out, bytesToArgs(n.data)...)
	case 4:
		out = append(out, int64(n.op))
		out = append(out, n.kids[0].enc()...)
		out = append(out, n.kids[1].enc()...)
	case 5:
		out = append(out, n.kids[0].enc()...)
		out = append(out, int64(len(n.kids)-1))
		for _, k := range n.kids[1:] {
			out = append(out, k.enc()...)
		}
	case 6, 10:
		out = append(out, n.kids[0].enc()...)
	case 7, 11:
		out = append(out, int64(len(n.kids)))
		for _, k := range n.kids {
			out = append(out, k.enc()...)
		}
	case 12:
		out = append(out, n.kids[0].enc()...)
		out = append(out, n.kids[1].enc()...)
		if n.opt != nil {
			out = append(append(out, 1), n.opt.enc()...)
		} else {
			out = append(out, 0)
		}
	case 14:
		out = append(out, bytesToArgs(n.data)...)
		if n.opt != nil {
			out = append(append(out, 1), n.opt.enc()...)
		} else {
			out = append(out, 0)
		}
	case 15:
		if n.opt != nil {
			out = append(append(out, 1), n.opt.enc()...)
		} else {
			out = append(out, 0)
		}
	}
	return out
}

// c05Dec rebuilds the node from its encoding (the inverse of enc), returning the rest
func c05DecExpr(a []int64) (js.IExpr, []int64) {
	if len(a) == 0 {
		return &js.LiteralExpr{TokenType: js.StringToken}, nil
	}
	tag, r := a[0], a[1:]
	switch tag {
	case 1:
		d, r1 := takeList(r)
		return &js.LiteralExpr{TokenType: js.StringToken, Data: toBytes(d)}, r1
	case 2:
		d, r1 := takeList(r)
		return &js.Var{Data: toBytes(d)}, r1
	case 3:
		n := int(r[0])
		r = r[1:]
		t := &js.TemplateExpr{}
		for i := 0; i < n; i++ {
			var v []int64
			v, r = takeList(r)
			var e js.IExpr
			e, r = c05DecExpr(r)
			t.List = append(t.List, js.TemplatePart{Value: toBytes(v), Expr: e})
		}
		var tl []int64
		tl, r = takeList(r)
		t.Tail = toBytes(tl)
		return t, r
	case 4:
		op := js.TokenType(r[0])
		x, r1 := c05DecExpr(r[1:])
		y, r2 := c05DecExpr(r1)
		return &js.BinaryExpr{Op: op, X: x, Y: y}, r2
	case 5:
		f, r1 := c05DecExpr(r)
		n := int(r1[0])
		r1 = r1[1:]
		c := &js.CallExpr{X: f}
		for i := 0; i < n; i++ {
			var e js.IExpr
			e, r1 = c05DecExpr(r1)
			c.Args.List = append(c.Args.List, js.Arg{Value: e})
		}
		return c, r1
	case 6:
		x, r1 := c05DecExpr(r)
		return &js.GroupExpr{X: x}, r1
	default:
		n := int(r[0])
		r = r[1:]
		f := &js.FuncDecl{}
		for i := 0; i < n; i++ {
			var s js.IStmt
			s, r = c05DecStmt(r)
			f.Body.List = append(f.Body.List, s)
		}
		return f, r
	}
}

func c05DecStmt(a []int64) (js.IStmt, []int64) {
	if len(a) == 0 {
		return &js.EmptyStmt{}, nil
	}
	tag, r := a[0], a[1:]
	switch tag {
	case 10:
		e, r1 := c05DecExpr(r)
		return &js.ExprStmt{Value: e}, r1
	case 11:
		n := int(r[0])
		r = r[1:]
		b := &js.BlockStmt{}
		for i := 0; i < n; i++ {
			var s js.IStmt
			s, r = c05DecStmt(r)
			b.List = append(b.List, s)
		}
		return b, r
	case 12:
		c, r1 := c05DecExpr(r)
		t, r2 := c05DecStmt(r1)
		s := &js.IfStmt{Cond: c, Body: t}
		if r2[0] != 0 {
			var e js.IStmt
			e, r2 = c05DecStmt(r2[1:])
			s.Else = e
			return s, r2
		}
		return s, r2[1:]
	case 13:
		d, r1 := takeList(r)
		return &js.Comment{Value: toBytes(d)}, r1
	case 14:
		d, r1 := takeList(r)
		v := &js.VarDecl{TokenType: js.VarToken}
		be := js.BindingElement{Binding: &js.Var{Data: toBytes(d)}}
		if r1[0] != 0 {
			var e js.IExpr
			e, r1 = c05DecExpr(r1[1:])
			be.Default = e
		} else {
			r1 = r1[1:]
		}
		v.List = []js.BindingElement{be}
		return v, r1
	case 15:
		s := &js.ReturnStmt{}
		if r[0] != 0 {
			var e js.IExpr
			e, r = c05DecExpr(r[1:])
			s.Value = e
			return s, r
		}
		return s, r[1:]
	default:
		return &js.EmptyStmt{}, r
	}
}

func c05IndentImpl(c Case) (out []int64) {
	defer func() {
		if e := recover(); e != nil {
			out = []int64{-1}
		}
	}()
	a := c.Args
	mode, width := int(a[0]), int(a[1])
	r := a[2:]
	var buf bytes.Buffer
	switch mode {
	case 0:
		n := int(r[0])
		r = r[1:]
		tree := &js.AST{}
		for i := 0; i < n; i++ {
			var s js.IStmt
			s, r = c05DecStmt(r)
			tree.List = append(tree.List, s)
		}
		tree.JS(&buf)
	case 1:
		s, _ := c05DecStmt(r)
		s.JS(parse.NewIndenter(&buf, width))
	case 2:
		d, _ := takeList(r)
		parse.NewIndenter(&buf, width).Write(toBytes(d))
	default:
		d, _ := takeList(r[1:])
		parse.NewIndenter(parse.NewIndenter(&buf, width), int(r[0])).Write(toBytes(d))
	}
	b := buf.Bytes()
	res := make([]int64, len(b))
	for i, x := range b {
		res[i] = int64(x)
	}
	return res
}

func c05IndentGen(r *Rng, tier string, emit func(Case)) {
	mk := func(mode, width int, rest []int64, note string) {
		emit(Case{Fn: "jsindent", Args: append([]int64{int64(mode), int64(width)}, rest...), Note: note})
	}
	// Indenter.Write: every byte string over {a, \n, space} up to length 5, widths 0..3, alone and nested
	allStrings([]byte{'a', '\n', ' '}, 5, func(b []byte) {
		for w := 0; w < 4; w++ {
			mk(2, w, bytesToArgs(b), fmt.Sprintf("Indenter(%d).Write(%q)", w, b))
		}
		mk(3, 2, append([]int64{3}, bytesToArgs(b)...), fmt.Sprintf("Indenter(2+3).Write(%q)", b))
	})
	// wide and nested indenters (widths around 64, where an implementation might switch representation)
	for _, w1 := range []int{0, 1, 31, 60, 63, 64, 65, 100} {
		for _, w2 := range []int{0, 1, 4, 5, 64} {
			for _, b := range [][]byte{[]byte("a\nb"), []byte("\n\na"), []byte("a\n")} {
				mk(3, w1, append([]int64{int64(w2)}, bytesToArgs(b)...), fmt.Sprintf("Indenter(%d+%d).Write(%q)", w1, w2, b))
			}
		}
		mk(2, w1, bytesToArgs([]byte("a\nb\n")), fmt.Sprintf("Indenter(%d).Write", w1))
	}
	n := 6000
	if tier == "thorough" {
		n = 200000
	}
	for i := 0; i < n; i++ {
		if r.Bool() {
			k := r.Intn(4)
			rest := []int64{int64(k)}
			for j := 0; j < k; j++ {
				rest = append(rest, c05GenStmt(r, 1+r.Intn(4)).enc()...)
			}
			mk(0, 0, rest, "AST.JS")
		} else {
			mk(1, r.Intn(9), c05GenStmt(r, 1+r.Intn(4)).enc(), "stmt.JS(Indenter)")
		}
	}
}

func c05IndentClass(c Case, out []int64) string {
	nl := 0
	for _, x := range out {
		if x == 10 {
			nl++
		}
	}
	b := "no-newline"
	if nl > 0 {
		b = "newlines"
	}
	return fmt.Sprintf("mode%d/%s", c.Args[0], b)
}

func init() {
	props["C05"].Models = append(props["C05"].Models, &Model{Name: "jsindent", Gen: c05IndentGen, Impl: c05IndentImpl, Class: c05IndentClass})
}
