package main

import (
	"bytes"
	"fmt"
	stdhtml "html"
	"regexp"
	"strings"

	"github.com/tdewolff/parse/v2"
	"github.com/tdewolff/parse/v2/html"
	"github.com/tdewolff/parse/v2/xml"
)

// ---- C17: whitespace / entity / attribute normalisation -------------------------------------------

// entMaps is one pair of maps as callers of ReplaceEntities pass them.
type entMaps struct {
	name string
	ent  [][2]string // name -> replacement (ordered, for a stable encoding)
	rev  [][2]string // single byte -> reference
	html bool        // consistent with HTML: every name decodes to its replacement's decoding
}

var c17Maps = []entMaps{
	{name: "empty", html: true},
	{name: "small", html: true,
		ent: [][2]string{{"amp", "&"}, {"lt", "<"}, {"gt", ">"}, {"quot", "\""}, {"Tab", "\t"}, {"NewLine", "\n"}},
		rev: [][2]string{{"<", "&lt;"}}},
	{name: "htmllike", html: true,
		ent: [][2]string{{"amp", "&"}, {"AMP", "&"}, {"lt", "<"}, {"LT", "<"}, {"gt", ">"}, {"GT", ">"}, {"quot", "\""}, {"QUOT", "\""},
			{"apos", "'"}, {"Tab", "\t"}, {"NewLine", "\n"}, {"excl", "!"}, {"num", "#"}, {"dollar", "$"}, {"percnt", "%"},
			{"lpar", "("}, {"rpar", ")"}, {"semi", ";"}, {"colon", ":"}, {"period", "."}, {"sol", "/"}, {"lowbar", "_"}, {"equals", "="},
			{"AElig", "&#198;"}, {"hellip", "&#8230;"}, {"copy", "&#169;"}, {"nbsp", "&#160;"},
			{"CounterClockwiseContourIntegral", "&#8755;"}, {"NotEqualTilde", "&#8770;&#824;"}, {"fjlig", "fj"}},
		rev: [][2]string{{"<", "&lt;"}}},
	{name: "htmlattr", html: true,
		ent: [][2]string{{"amp", "&"}, {"lt", "<"}, {"quot", "\""}, {"apos", "'"}, {"num", "#"}, {"semi", ";"}, {"AElig", "&#198;"}},
		rev: [][2]string{{"\"", "&#34;"}, {"'", "&#39;"}, {"<", "&lt;"}}},
	// not HTML: an empty replacement and a one-letter name (in-place compaction corner cases)
	{name: "odd", html: false,
		ent: [][2]string{{"e", ""}, {"a", "x"}, {"b", "x"}, {"bb", "&a;"}, {"amp", "&"}, {"q", "&"},
			{"n234567890123456789012345678901", "1"}, {"n2345678901234567890123456789012", "2"}, {"n23456789012345678901234567890123", "3"},
			{"CounterClockwiseContourIntegral", "&#8755;"}},
		rev: [][2]string{{"x", "&a;"}, {"y", "&#121;"}}},
}

func (m *entMaps) goMaps() (map[string][]byte, map[byte][]byte) {
	e := map[string][]byte{}
	for _, kv := range m.ent {
		e[kv[0]] = []byte(kv[1])
	}
	r := map[byte][]byte{}
	for _, kv := range m.rev {
		r[kv[0][0]] = []byte(kv[1])
	}
	return e, r
}

func (m *entMaps) encode() []int64 {
	out := []int64{int64(len(m.ent))}
	for _, kv := range m.ent {
		out = append(out, bytesToArgs([]byte(kv[0]))...)
		out = append(out, bytesToArgs([]byte(kv[1]))...)
	}
	out = append(out, int64(len(m.rev)))
	for _, kv := range m.rev {
		out = append(out, int64(kv[0][0]))
		out = append(out, bytesToArgs([]byte(kv[1]))...)
	}
	return out
}

// decodeMaps reads the encoding back (the case line is the only input of Impl).
func decodeMaps(a []int64) (map[string][]byte, map[byte][]byte, []int64) {
	e := map[string][]byte{}
	r := map[byte][]byte{}
	ne := int(a[0])
	a = a[1:]
	for i := 0; i < ne; i++ {
		var k, v []int64
		k, a = takeList(a)
		v, a = takeList(a)
		if _, dup := e[string(toBytes(k))]; !dup { // first entry wins, as in the model's association list
			e[string(toBytes(k))] = toBytes(v)
		}
	}
	nr := int(a[0])
	a = a[1:]
	for i := 0; i < nr; i++ {
		c := byte(a[0])
		var v []int64
		v, a = takeList(a[1:])
		if _, dup := r[c]; !dup {
			r[c] = toBytes(v)
		}
	}
	return e, r, a
}

// exact returns a copy with cap == len, so that slicing past len panics as in the model.
func exact(b []byte) []byte {
	c := make([]byte, len(b))
	copy(c, b)
	return c[:len(c):len(c)]
}

func c17EncBytes(f func() []byte) []int64 {
	var o []byte
	if p := catch(func() { o = f() }); p != nil {
		return []int64{-1}
	}
	out := []int64{0, int64(len(o))}
	for _, c := range o {
		out = append(out, int64(c))
	}
	return out
}

func c17Bytes(a []int64) []byte { v, _ := takeList(a); return toBytes(v) }

// generic shrink: drop one byte of the final length-prefixed list (prefix of `pre` integers kept)
func shrinkTail(pre func(c Case) int) func(c Case) []Case {
	return func(c Case) []Case {
		p := pre(c)
		v, _ := takeList(c.Args[p:])
		var out []Case
		for i := range v {
			nv := append(append([]int64{}, v[:i]...), v[i+1:]...)
			args := append([]int64{}, c.Args[:p]...)
			args = append(args, int64(len(nv)))
			args = append(args, nv...)
			out = append(out, Case{Fn: c.Fn, Args: args, Note: fmt.Sprintf("%s %q", c.Fn, toBytes(nv))})
		}
		return out
	}
}

func mapsPrefixLen(c Case) int {
	_, _, rest := decodeMaps(c.Args)
	return len(c.Args) - len(rest)
}

// ---- generators -------------------------------------------------------------------------------------

var wsAlpha = []byte{' ', '\t', '\n', '\r', '\f', 'a'}

func genWsString(r *Rng, maxLen int) []byte {
	n := r.Intn(maxLen + 1)
	b := make([]byte, 0, n)
	for len(b) < n {
		switch r.Intn(8) {
		case 0, 1, 2:
			k := 1 + r.Intn(4)
			for i := 0; i < k; i++ {
				b = append(b, r.Pick([]byte(" \t\n\r\f   ")))
			}
		case 3:
			b = append(b, byte(r.Intn(256)))
		case 4:
			b = append(b, r.Pick([]byte{0x0b, 0x1f, 0x21, 0x85, 0xa0, 0, 8, 14})) // look-alikes that are not whitespace
		default:
			k := 1 + r.Intn(3)
			for i := 0; i < k; i++ {
				b = append(b, byte('a'+r.Intn(26)))
			}
		}
	}
	return b
}

var entFrags = []string{"&", "&", "#", "x", ";", ";", "&#", "&#x", "&#X", "0", "1", "4", "9", "41", "65", "38", "127", "128", "00",
	"a", "f", "F", "A", "g", "amp", "lt", "gt", "quot", "Tab", "AElig", "num", "semi", "e", "bb", "q", "am", "p", "l", "t",
	"&amp;", "&lt;", "&#38;", "&#x26;", "&#60;", "&#x3c;", "&#35;", "&#59;", "&#120;", "&#112;", "&#x41;", "&#65;", "&#0;", "&#x80;", "&#x3E8;", "&#x2710;",
	"&AElig;", "&hellip;", "&nbsp;", "&CounterClockwiseContourIntegral;", "&a;", "&e;", "&bb;", "&q;", "&fjlig;", "&num;", "&semi;",
	"&#xFFFF;", "&#x10000;", "&#x10000", "&#x100000;", "&#x0010000;", "&#x1000041;", "&#xfffff;", "&#x10FFFF;", "&#x110000;", "&#x100000000000000000000041;",
	"&LT;", "&GT;", "&QUOT;", "&AMP;", "&b;", "LT", "&lt", "&apos;",
	"&#9;", "&#10;", "&#99;", "&#100;", "&#127;", "&#128;", "&#129;", "&#x9;", "&#xA;", "&#xf;", "&#x10;", "&#x7f;", "&#x7F;", "&#xFF;", "&#x100;",
	"&#x3E7;", "&#x270F;", "&#x270f;", "&#1;", "&#01;", "&#x01;", "&#34;", "&#39;", "&#x22;", "&#x27;",
	"&n234567890123456789012345678901;", "&n2345678901234567890123456789012;", "&n23456789012345678901234567890123;", "&CounterClockwiseContourIntegral",
	" ", " ", "  ", "\n", "\t ", "z", "<", "\"", "'", "é", "=", "&#x10000000000000041;", "&#xFFFFFFFFFFFFFF41;", "&#00000000065;", "&#x000041;"}

func genEntString(r *Rng, maxFrags int) []byte {
	n := r.Intn(maxFrags + 1)
	var b []byte
	for i := 0; i < n; i++ {
		b = append(b, r.PickStr(entFrags)...)
	}
	// malformed stream: flips, deletions
	if r.Chance(1, 4) && len(b) > 0 {
		k := 1 + r.Intn(2)
		for i := 0; i < k && len(b) > 0; i++ {
			p := r.Intn(len(b))
			switch r.Intn(3) {
			case 0:
				b = append(b[:p], b[p+1:]...)
			case 1:
				b[p] = byte(r.Intn(256))
			default:
				b[p] = r.Pick([]byte("&#x;0aA "))
			}
		}
	}
	return b
}

var attrAlpha = []byte("ab\"'\"' \t\n\r\f<=>`/&#;349xAZ?é\x01")

func genAttrVal(r *Rng, maxLen int) []byte {
	n := r.Intn(maxLen + 1)
	b := make([]byte, n)
	for i := range b {
		if r.Chance(1, 12) {
			b[i] = byte(1 + r.Intn(255))
		} else {
			b[i] = r.Pick(attrAlpha)
		}
	}
	if r.Chance(1, 6) {
		b = append(b, r.PickStr([]string{"&#34;", "&#39;", "&quot;", "&amp;", "&#3", "&lt"})...)
	}
	return b
}

// tag remainder for the attribute readers: begins with a space (so that the tag name is "a")
func genTagRest(r *Rng, maxLen int, xmlMode bool) []byte {
	b := []byte{' '}
	n := r.Intn(4)
	for i := 0; i < n; i++ {
		switch r.Intn(10) {
		case 0:
			b = append(b, r.PickStr([]string{" ", "\t", "\n", "\r", "\f", "  "})...)
		case 1:
			b = append(b, r.PickStr([]string{"/>", "?>", ">", "/", "?", "="})...)
		default:
			b = append(b, r.PickStr([]string{"x", "Xy", "a-b", "k", "/k", "?k"})...)
			b = append(b, r.PickStr([]string{"", "", " ", "\n"})...)
			if r.Chance(3, 4) {
				b = append(b, '=')
				b = append(b, r.PickStr([]string{"", "", " ", "\t\f"})...)
				v := genAttrVal(r, maxLen)
				switch r.Intn(4) {
				case 0:
					b = append(b, '"')
					b = append(b, bytes.ReplaceAll(v, []byte{'"'}, nil)...)
					if r.Chance(7, 8) {
						b = append(b, '"')
					}
				case 1:
					b = append(b, '\'')
					b = append(b, bytes.ReplaceAll(v, []byte{'\''}, nil)...)
					if r.Chance(7, 8) {
						b = append(b, '\'')
					}
				default:
					b = append(b, v...)
				}
			}
			b = append(b, r.PickStr([]string{" ", " ", "", "\n"})...)
		}
	}
	b = append(b, r.PickStr([]string{">", ">", "/>", "?>", "", ">z", "\x00>"})...)
	return b
}

func bytesCase(fn string, pre []int64, b []byte) Case {
	args := append([]int64{}, pre...)
	args = append(args, bytesToArgs(b)...)
	return Case{Fn: fn, Args: args, Note: fmt.Sprintf("%s %q", fn, b)}
}

func lenBucket(n int) string {
	switch {
	case n == 0:
		return "len0"
	case n <= 3:
		return "len1-3"
	case n <= 8:
		return "len4-8"
	case n <= 20:
		return "len9-20"
	}
	return "len21+"
}

// ---- models ------------------------------------------------------------------------------------------

var c17WsModel = &Model{
	Name: "c17_ws",
	Gen: func(r *Rng, tier string, emit func(Case)) {
		k, n := 6, 6000
		if tier == "thorough" {
			k, n = 8, 300000
		}
		allStrings(wsAlpha, k, func(b []byte) { emit(bytesCase("c17_ws", nil, b)) })
		for i := 0; i < n; i++ {
			emit(bytesCase("c17_ws", nil, genWsString(r, 1+i%60)))
		}
	},
	Impl: func(c Case) []int64 {
		return c17EncBytes(func() []byte { return parse.ReplaceMultipleWhitespace(exact(c17Bytes(c.Args))) })
	},
	Shrink: shrinkTail(func(Case) int { return 0 }),
	Class: func(c Case, out []int64) string {
		in := c17Bytes(c.Args)
		s := "nochange"
		if len(out) >= 2 && int(out[1]) != len(in) {
			s = "compacted"
			if len(in) > 1 && parse.IsWhitespace(in[0]) && parse.IsWhitespace(in[1]) {
				s = "compacted-leading"
			}
		} else if len(out) >= 2 && fmtInts(out[2:]) != fmtInts(bytesToArgs(in)[1:]) {
			s = "marked-only"
		}
		return s + "/" + lenBucket(len(in))
	},
}

func entGen(fn string) func(r *Rng, tier string, emit func(Case)) {
	return func(r *Rng, tier string, emit func(Case)) {
		k, n := 5, 9000
		if tier == "thorough" {
			k, n = 7, 400000
		}
		alpha := []byte{'&', '#', 'x', ';', '4', '1', 'a'}
		if fn == "c17_wsent" {
			alpha = []byte{'&', '#', ';', '4', 'a', ' ', '\n'}
		}
		small := c17Maps[4].encode() // "odd": one-letter names, empty replacement
		empty := c17Maps[0].encode()
		allStrings(alpha, k, func(b []byte) {
			pre := small
			if len(b)%2 == 0 && fn == "c17_ent" {
				pre = empty
			}
			emit(bytesCase(fn, pre, b))
		})
		// every numeric reference around the guards (decimal 0..300, hexadecimal 0..10100), alone and followed by text
		for v := 0; v <= 10100; v++ {
			if v > 300 && v < 900 && v%7 != 0 || v > 1100 && v < 9900 && v%97 != 0 {
				continue
			}
			m := &c17Maps[1+v%4]
			suffix := []string{"", "a", "#", ";", " "}[v%5]
			emit(bytesCase(fn, m.encode(), []byte(fmt.Sprintf("&#x%x;%s", v, suffix))))
			emit(bytesCase(fn, m.encode(), []byte(fmt.Sprintf("&#x%X;", v))))
			if v <= 64 {
				// around the point where the hexadecimal loop gives up (0x10000), with more digits behind it
				w := 0xFFE0 + v
				emit(bytesCase(fn, m.encode(), []byte(fmt.Sprintf("&#x%x;%s", w, suffix))))
				emit(bytesCase(fn, m.encode(), []byte(fmt.Sprintf("&#x%x%x;&#65;", w, v))))
				emit(bytesCase(fn, m.encode(), []byte(fmt.Sprintf("&#x%x41;", w))))
			}
			if v <= 300 {
				emit(bytesCase(fn, m.encode(), []byte(fmt.Sprintf("&#%d;%s", v, suffix))))
				emit(bytesCase(fn, m.encode(), []byte(fmt.Sprintf("&#%03d;", v))))
				emit(bytesCase(fn, m.encode(), []byte(fmt.Sprintf("&#%d", v))))
			}
		}
		// the look-behind of replaceEntities: runs of 28..38 bytes of [0-9a-zA-Z#] (with and without an ampersand, a
		// numeric or a named prefix, a stopper) directly in front of a reference whose replacement continues them
		for k, c := range c17LookBehindCases() {
			emit(bytesCase(fn, c17Maps[1+len(c)%4].encode(), c))
			if fn == "c17_wsent" && k%5 == 0 {
				// the look-behind must not see the stale bytes between the write position and the next text section
				emit(bytesCase(fn, c17Maps[1+len(c)%4].encode(), append([]byte("&#  \n"), c...)))
				emit(bytesCase(fn, c17Maps[1+len(c)%4].encode(), append([]byte("a  &  "), c[len(c)/2:]...)))
			}
		}
		for i := 0; i < n; i++ {
			m := &c17Maps[r.Intn(len(c17Maps))]
			b := genEntString(r, 1+i%10)
			if fn == "c17_wsent" && r.Bool() {
				// interleave whitespace runs
				var nb []byte
				for _, c := range b {
					nb = append(nb, c)
					if r.Chance(1, 5) {
						nb = append(nb, genWsString(r, 3)...)
					}
				}
				b = nb
			}
			emit(bytesCase(fn, m.encode(), b))
		}
	}
}

func entClass(c Case, out []int64) string {
	_, _, rest := decodeMaps(c.Args)
	in := c17Bytes(rest)
	s := "unchanged"
	if len(out) > 0 && out[0] == -1 {
		s = "panic"
	} else if len(out) >= 2 && (int(out[1]) != len(in) || fmtInts(out[2:]) != fmtInts(bytesToArgs(in)[1:])) {
		s = "replaced"
	}
	if bytes.IndexByte(in, '&') < 0 {
		s += "/no-amp"
	}
	return s + "/" + lenBucket(len(in))
}

var c17EntModel = &Model{
	Name: "c17_ent",
	Gen:  entGen("c17_ent"),
	Impl: func(c Case) []int64 {
		e, r, rest := decodeMaps(c.Args)
		return c17EncBytes(func() []byte { return parse.ReplaceEntities(exact(c17Bytes(rest)), e, r) })
	},
	Shrink: shrinkTail(mapsPrefixLen),
	Class:  entClass,
}

var c17WsEntModel = &Model{
	Name: "c17_wsent",
	Gen:  entGen("c17_wsent"),
	Impl: func(c Case) []int64 {
		e, r, rest := decodeMaps(c.Args)
		return c17EncBytes(func() []byte { return parse.ReplaceMultipleWhitespaceAndEntities(exact(c17Bytes(rest)), e, r) })
	},
	Shrink: shrinkTail(mapsPrefixLen),
	Class:  entClass,
}

var escAlpha = []byte{'a', '"', '\'', ' ', '&', '=', '<'}

var c17HescModel = &Model{
	Name: "c17_hesc",
	Gen: func(r *Rng, tier string, emit func(Case)) {
		k, n := 4, 6000
		if tier == "thorough" {
			k, n = 6, 200000
		}
		allStrings(escAlpha, k, func(b []byte) {
			for _, oq := range []int64{0, '\'', '"'} {
				for mq := int64(0); mq < 2; mq++ {
					emit(bytesCase("c17_hesc", []int64{oq, mq}, b))
				}
			}
		})
		for i := 0; i < n; i++ {
			oq := []int64{0, '\'', '"', 'q', '`'}[r.Intn(5)]
			if r.Chance(3, 4) {
				oq = []int64{0, '\'', '"'}[r.Intn(3)]
			}
			emit(bytesCase("c17_hesc", []int64{oq, int64(r.Intn(2))}, genAttrVal(r, 1+i%30)))
		}
	},
	Impl: func(c Case) []int64 {
		b := c17Bytes(c.Args[2:])
		return c17EncBytes(func() []byte {
			var buf []byte
			if len(b)%3 == 1 {
				buf = bytes.Repeat([]byte{'#'}, 64) // stale scratch content must not show
			}
			return html.EscapeAttrVal(&buf, exact(b), byte(c.Args[0]), c.Args[1] != 0)
		})
	},
	Shrink: shrinkTail(func(Case) int { return 2 }),
	Class: func(c Case, out []int64) string {
		if len(out) < 2 || out[0] != 0 {
			return "panic"
		}
		if out[1] == 0 {
			return "empty"
		}
		in := c17Bytes(c.Args[2:])
		switch {
		case out[2] == '"' && int(out[1]) >= len(in)+2:
			return fmt.Sprintf("double/+%d", (int(out[1])-len(in)-2)/4)
		case out[2] == '\'' && int(out[1]) >= len(in)+2:
			return fmt.Sprintf("single/+%d", (int(out[1])-len(in)-2)/4)
		}
		return "unquoted"
	},
}

var c17XescModel = &Model{
	Name: "c17_xesc",
	Gen: func(r *Rng, tier string, emit func(Case)) {
		k, n := 5, 4000
		if tier == "thorough" {
			k, n = 7, 200000
		}
		allStrings([]byte{'a', '"', '\'', '&', '\t', '\n', '\r'}, k, func(b []byte) { emit(bytesCase("c17_xesc", nil, b)) })
		for i := 0; i < n; i++ {
			b := genAttrVal(r, 1+i%30)
			if i%3 == 0 {
				// TAB/LF/CR, CR LF pairs and both quotes mixed in
				var nb []byte
				for _, c := range b {
					nb = append(nb, c)
					if r.Chance(1, 3) {
						nb = append(nb, r.PickStr([]string{"\t", "\n", "\r", "\r\n", "\"", "'", "\t'", "\n\"", "&#9;", "&#10;"})...)
					}
				}
				b = nb
			}
			emit(bytesCase("c17_xesc", nil, b))
		}
	},
	Impl: func(c Case) []int64 {
		b := c17Bytes(c.Args)
		return c17EncBytes(func() []byte {
			var buf []byte
			if len(b)%3 == 1 {
				buf = bytes.Repeat([]byte{'#'}, 64)
			}
			return xml.EscapeAttrVal(&buf, exact(b))
		})
	},
	Shrink: shrinkTail(func(Case) int { return 0 }),
	Class: func(c Case, out []int64) string {
		if len(out) < 3 || out[0] != 0 {
			return "panic"
		}
		in := c17Bytes(c.Args)
		return fmt.Sprintf("%c/+%d", byte(out[2]), (int(out[1])-len(in)-2)/4)
	},
}

var c17CdataModel = &Model{
	Name: "c17_cdata",
	Gen: func(r *Rng, tier string, emit func(Case)) {
		k, n := 6, 4000
		if tier == "thorough" {
			k, n = 8, 200000
		}
		allStrings([]byte{'a', '<', '&', ']'}, k, func(b []byte) { emit(bytesCase("c17_cdata", nil, b)) })
		for i := 0; i < n; i++ {
			b := genAttrVal(r, 1+i%30)
			emit(bytesCase("c17_cdata", nil, b))
		}
	},
	Impl: func(c Case) []int64 {
		b := c17Bytes(c.Args)
		var o []byte
		var ok bool
		if p := catch(func() {
			var buf []byte
			if len(b)%3 == 1 {
				buf = bytes.Repeat([]byte{'#'}, 64)
			}
			o, ok = xml.EscapeCDATAVal(&buf, exact(b))
		}); p != nil {
			return []int64{-1}
		}
		out := []int64{0, int64(len(o))}
		if ok {
			out[0] = 1
		}
		for _, x := range o {
			out = append(out, int64(x))
		}
		return out
	},
	Shrink: shrinkTail(func(Case) int { return 0 }),
	Class: func(c Case, out []int64) string {
		if len(out) < 2 {
			return "panic"
		}
		if out[0] == 0 {
			return "declined"
		}
		return fmt.Sprintf("escaped/+%d", int(out[1])-len(c17Bytes(c.Args)))
	},
}

func encTok(out []int64, typ int64, data, key, val []byte, hasKey bool) []int64 {
	out = append(out, typ)
	out = append(out, bytesToArgs(data)...)
	if hasKey {
		out = append(out, bytesToArgs(key)...)
		if val == nil {
			out = append(out, -1)
		} else {
			out = append(out, bytesToArgs(val)...)
		}
	}
	return out
}

func hattrImpl(c Case) []int64 {
	s := c17Bytes(c.Args)
	in := append([]byte("<a"), s...)
	var out []int64
	if p := catch(func() {
		l := html.NewLexer(parse.NewInputBytes(in))
		tt, data := l.Next()
		if tt != html.StartTagToken || string(data) != "<a" {
			out = []int64{-777}
			return
		}
		for k := 0; k < len(in)+2; k++ {
			tt, data = l.Next()
			switch tt {
			case html.AttributeToken:
				out = encTok(out, 1, data, l.AttrKey(), l.AttrVal(), true)
				continue
			case html.StartTagCloseToken:
				out = encTok(out, 2, data, nil, nil, false)
			case html.StartTagVoidToken:
				out = encTok(out, 3, data, nil, nil, false)
			case html.ErrorToken:
				out = append(out, 0)
			default:
				out = append(out, -778, int64(tt))
			}
			return
		}
	}); p != nil {
		return append(out, -1)
	}
	return out
}

func xattrImpl(c Case) []int64 {
	s := c17Bytes(c.Args)
	in := append([]byte("<a"), s...)
	var out []int64
	if p := catch(func() {
		l := xml.NewLexer(parse.NewInputBytes(in))
		tt, data := l.Next()
		if tt != xml.StartTagToken || string(data) != "<a" {
			out = []int64{-777}
			return
		}
		for k := 0; k < len(in)+2; k++ {
			tt, data = l.Next()
			switch tt {
			case xml.AttributeToken:
				out = encTok(out, 1, data, l.Text(), l.AttrVal(), true)
				continue
			case xml.StartTagCloseToken:
				out = encTok(out, 2, data, nil, nil, false)
			case xml.StartTagCloseVoidToken:
				out = encTok(out, 3, data, nil, nil, false)
			case xml.StartTagClosePIToken:
				out = encTok(out, 4, data, nil, nil, false)
			case xml.ErrorToken:
				out = append(out, 0)
			default:
				out = append(out, -778, int64(tt))
			}
			return
		}
	}); p != nil {
		return append(out, -1)
	}
	return out
}

func attrGen(fn string, xmlMode bool) func(r *Rng, tier string, emit func(Case)) {
	return func(r *Rng, tier string, emit func(Case)) {
		k, n := 5, 6000
		if tier == "thorough" {
			k, n = 7, 300000
		}
		alpha := []byte{' ', 'x', '=', '"', '>', '/', '\n'}
		if xmlMode {
			alpha = []byte{' ', 'x', '=', '"', '>', '?', '\t', 0}
		}
		allStrings(alpha, k, func(b []byte) { emit(bytesCase(fn, nil, append([]byte{' '}, b...))) })
		for i := 0; i < n; i++ {
			emit(bytesCase(fn, nil, genTagRest(r, 1+i%12, xmlMode)))
		}
		// the shape the escape round trip uses
		for i := 0; i < n/2; i++ {
			v := genAttrVal(r, 1+i%20)
			var buf []byte
			var e []byte
			oq, mq := []byte{0, '\'', '"'}[r.Intn(3)], r.Bool()
			if p := catch(func() {
				if xmlMode {
					e = xml.EscapeAttrVal(&buf, v)
				} else {
					e = html.EscapeAttrVal(&buf, v, oq, mq)
				}
			}); p != nil {
				continue
			}
			b := append([]byte(" x="), e...)
			emit(bytesCase(fn, nil, append(b, '>')))
		}
	}
}

func attrClass(c Case, out []int64) string {
	n := 0
	for i := 0; i < len(out); {
		if out[i] == 1 {
			n++
			i++
			for f := 0; f < 3 && i < len(out); f++ {
				if out[i] < 0 {
					i++
				} else {
					i += 1 + int(out[i])
				}
			}
			continue
		}
		return fmt.Sprintf("attrs=%d/end=%d", n, out[i])
	}
	return fmt.Sprintf("attrs=%d/end=none", n)
}

var c17HattrModel = &Model{Name: "c17_hattr", Gen: attrGen("c17_hattr", false), Impl: hattrImpl,
	Shrink: shrinkTail(func(Case) int { return 0 }), Class: attrClass}
var c17XattrModel = &Model{Name: "c17_xattr", Gen: attrGen("c17_xattr", true), Impl: xattrImpl,
	Shrink: shrinkTail(func(Case) int { return 0 }), Class: attrClass}

// ---- oracles (written from the property text; independent of the model) -----------------------------

var wsRunRe = regexp.MustCompile("[ \t\n\f\r]+")

func wsReference(b []byte) []byte {
	return wsRunRe.ReplaceAllFunc(b, func(run []byte) []byte {
		if bytes.IndexAny(run, "\n\r") >= 0 {
			return []byte{'\n'}
		}
		return []byte{' '}
	})
}

func c17WsOracle(r *Rng, tier string, rep *Report) {
	check := func(b []byte) {
		got := parse.ReplaceMultipleWhitespace(exact(b))
		want := wsReference(b)
		if !bytes.Equal(got, want) {
			rep.Violate("ws:"+hx(b), fmt.Sprintf("ReplaceMultipleWhitespace(%q) = %q, want %q", b, got, want),
				map[string]interface{}{"input": hx(b), "observed": hx(got), "expected": hx(want)})
		}
		rep.Eval("ws:"+hx(b), len(got) != len(b), lenBucket(len(b)))
	}
	k, n := 7, 30000
	if tier == "thorough" {
		k, n = 9, 1000000
	}
	allStrings([]byte{' ', '\n', '\t', 'a', 'b'}, k, check)
	for i := 0; i < n; i++ {
		check(genWsString(r, 1+i%80))
	}
}

var nulRefRe = regexp.MustCompile(`&#0+([^0-9]|$)|&#[xX]0+([^0-9a-fA-F]|$)`)

// overlong hexadecimal references: more than 6 significant digits is above U+10FFFF, which HTML decodes to
// U+FFFD; html.UnescapeString accumulates in an int32 and wraps around instead, so those are decoded here.
var overlongHexRe = regexp.MustCompile(`&#[xX]0*[1-9a-fA-F][0-9a-fA-F]{6,};`)

func htmlDecode(b []byte) string {
	return stdhtml.UnescapeString(string(overlongHexRe.ReplaceAll(b, []byte("\xef\xbf\xbd"))))
}

// refersToNUL: the input contains a reference to NUL (excepted by the property text)
func refersToNUL(in, out []byte) bool {
	return nulRefRe.Match(in) || (bytes.IndexByte(out, 0) >= 0 && bytes.IndexByte(in, 0) < 0)
}

var (
	prefixBeforeRefRe = regexp.MustCompile(`(&#[xX][0-9a-fA-F]*|&#[0-9]*|&[0-9a-zA-Z]*)&[#0-9a-zA-Z]+;`)
	hexOverflowRe     = regexp.MustCompile(`&#x0*[0-9a-fA-F]{16,};`)
	twoRefsRe         = regexp.MustCompile(`&[#0-9a-zA-Z]+;&[#0-9a-zA-Z]+;`)
)

// shrinkBytes removes bytes while the predicate keeps holding.
func shrinkBytes(b []byte, bad func([]byte) bool) []byte {
	b = append([]byte{}, b...)
	for progress := true; progress; {
		progress = false
		for i := 0; i < len(b); i++ {
			c := append(append([]byte{}, b[:i]...), b[i+1:]...)
			if bad(c) {
				b = c
				progress = true
				i--
			}
		}
	}
	return b
}

// entShape names the shape of a minimal violating input, so that known findings are matched by shape
// and anything else is still reported.
func entShape(min []byte) string {
	if m := prefixBeforeRefRe.FindSubmatch(min); m != nil {
		p := m[1]
		switch {
		case len(p) >= 3 && p[1] == '#' && (p[2] == 'x' || p[2] == 'X'):
			return "unterminated-hex-prefix-before-replaced-reference"
		case len(p) >= 2 && p[1] == '#':
			return "unterminated-decimal-prefix-before-replaced-reference"
		case len(p) >= 2:
			return "unterminated-name-prefix-before-replaced-reference"
		default:
			return "bare-ampersand-before-replaced-reference"
		}
	}
	if twoRefsRe.Match(min) {
		return "replaced-reference-before-replaced-reference"
	}
	if hexOverflowRe.Match(min) {
		return "hex-reference-overflowing-int64"
	}
	return "other:" + hx(min)
}

func c17EntOracle(r *Rng, tier string, rep *Report) {
	type mm struct {
		m *entMaps
		e map[string][]byte
		r map[byte][]byte
	}
	var ms []mm
	for i := range c17Maps {
		if c17Maps[i].html {
			e, rv := c17Maps[i].goMaps()
			ms = append(ms, mm{&c17Maps[i], e, rv})
		}
	}
	// the maps used here must satisfy the hypothesis of the theorems (maps_ok in Normalise/Spec.v): no replacement
	// longer than a reference it can stand for, and must be consistent with HTML (a name decodes like its replacement)
	for _, m := range ms {
		minRef := func(c byte) int {
			switch {
			case c < 10:
				return 4
			case c < 100:
				return 5
			}
			return 6
		}
		for c, q := range m.r {
			if len(q) > minRef(c) || stdhtml.UnescapeString(string(q)) != string([]byte{c}) {
				rep.Violate("maps:"+m.m.name+":rev:"+string([]byte{c}), fmt.Sprintf("harness map %s: reverse entry %q -> %q is longer than the shortest reference or decodes differently", m.m.name, c, q), nil)
			}
		}
		for name, r := range m.e {
			bad := len(r) > len(name)+2 || stdhtml.UnescapeString("&"+name+";") != stdhtml.UnescapeString(string(r))
			if len(r) == 1 {
				if q, ok := m.r[r[0]]; ok && len(q) > len(name)+2 {
					bad = true
				}
			}
			if bad {
				rep.Violate("maps:"+m.m.name+":"+name, fmt.Sprintf("harness map %s: entry %q -> %q is longer than the reference or decodes differently", m.m.name, name, r), nil)
			}
		}
	}
	re := func(m mm, b []byte) []byte { return parse.ReplaceEntities(exact(b), m.e, m.r) }
	dec := htmlDecode
	check := func(m mm, b []byte) {
		var out []byte
		if p := catch(func() { out = re(m, b) }); p != nil {
			rep.Violate("entities-panic:"+hx(b), fmt.Sprintf("ReplaceEntities(%q) [%s] panics: %v", b, m.m.name, p), map[string]interface{}{"input": hx(b), "maps": m.m.name})
			return
		}
		if len(out) > len(b) {
			rep.Violate("entities-longer:"+hx(b), fmt.Sprintf("ReplaceEntities(%q) [%s] = %q is longer", b, m.m.name, out), map[string]interface{}{"input": hx(b), "maps": m.m.name, "observed": hx(out)})
		}
		notIdem := func(x []byte) bool { o := re(m, x); return !bytes.Equal(re(m, o), o) }
		if notIdem(b) {
			min := shrinkBytes(b, notIdem)
			o1 := re(m, min)
			rep.Violate("entities-idempotent:"+entShape(min),
				fmt.Sprintf("ReplaceEntities is not idempotent [%s]: %q -> %q -> %q (found on %q)", m.m.name, min, o1, re(m, o1), b),
				map[string]interface{}{"input": hx(min), "maps": m.m.name, "observed": hx(re(m, o1)), "expected": hx(o1)})
		}
		badDec := func(x []byte) bool { o := re(m, x); return !refersToNUL(x, o) && dec(x) != dec(o) }
		if badDec(b) {
			min := shrinkBytes(b, badDec)
			o1 := re(m, min)
			rep.Violate("entities-decoding:"+entShape(min),
				fmt.Sprintf("ReplaceEntities changes the decoded text [%s]: %q (decodes to %q) -> %q (decodes to %q) (found on %q)", m.m.name, min, dec(min), o1, dec(o1), b),
				map[string]interface{}{"input": hx(min), "maps": m.m.name, "observed": dec(o1), "expected": dec(min)})
		}
		bucket := "unchanged"
		if !bytes.Equal(out, b) {
			bucket = "replaced"
		}
		rep.Eval(m.m.name+":"+hx(b), !bytes.Equal(out, b), bucket+"/"+m.m.name)
	}
	k, n := 6, 40000
	if tier == "thorough" {
		k, n = 8, 1500000
	}
	allStrings([]byte{'&', '#', 'x', ';', '4', '1'}, k, func(b []byte) { check(ms[len(b)%2], b) })
	allStrings([]byte{'&', ';', 'a', 'm', 'p', '#'}, k, func(b []byte) { check(ms[1+len(b)%2], b) })
	for v := 0; v <= 10100; v++ {
		check(ms[v%len(ms)], []byte(fmt.Sprintf("&#x%x;", v)))
		if v <= 64 {
			check(ms[v%len(ms)], []byte(fmt.Sprintf("&#x%x;", 0xFFE0+v)))
			check(ms[v%len(ms)], []byte(fmt.Sprintf("&#x%x%x;", 0xFFE0+v, v)))
			check(ms[v%len(ms)], []byte(fmt.Sprintf("&#x1%0*d41;", v, 0)))
		}
		if v <= 300 {
			check(ms[v%len(ms)], []byte(fmt.Sprintf("&#%d;", v)))
		}
	}
	for i, c := range c17LookBehindCases() {
		check(ms[i%len(ms)], c)
	}
	for i := 0; i < n; i++ {
		b := genEntString(r, 1+i%10)
		if i%50 == 0 {
			// a long numeric / named / plain run in front of the string
			b = append([]byte(r.PickStr([]string{"&#", "&#x", "&", "", " ", "&#0", "&am"})+strings.Repeat(r.PickStr([]string{"0", "a", "7", "F"}), 25+r.Intn(14))), b...)
		}
		check(ms[r.Intn(len(ms))], b)
	}
}

// c17LookBehindCases: every run length around MaxEntityLength+2 in front of references whose replacement starts with a
// letter, a digit, '#' or ';' (looked behind) and with '<' or '&' (not looked behind).
func c17LookBehindCases() [][]byte {
	var out [][]byte
	for n := 26; n <= 38; n++ {
		for _, head := range []string{"&#", "&#x", "&", "&#0", "", " ", ";", "&;", "a&"} {
			for _, fill := range []string{"0", "a", "4", "#"} {
				for _, ref := range []string{"&#59;", "&#65;", "&#x41;;", "&#35;", "&#48;;", "&#60;", "&#38;", "&semi;", "&num;x41;", "&#x3c;"} {
					run := head + strings.Repeat(fill, n-len(head))
					out = append(out, []byte(run+ref))
					if n%4 == 0 {
						out = append(out, []byte("z "+run+ref+"z"))
					}
				}
			}
		}
	}
	return out
}

func c17ComposeOracle(r *Rng, tier string, rep *Report) {
	n := 40000
	if tier == "thorough" {
		n = 1500000
	}
	check := func(m *entMaps, b []byte) {
		e, rv := m.goMaps()
		var got, want []byte
		if p := catch(func() {
			got = parse.ReplaceMultipleWhitespaceAndEntities(exact(b), e, rv)
			want = parse.ReplaceEntities(parse.ReplaceMultipleWhitespace(exact(b)), e, rv)
		}); p != nil {
			rep.Violate("compose-panic:"+hx(b), fmt.Sprintf("panic on %q [%s]: %v", b, m.name, p), map[string]interface{}{"input": hx(b), "maps": m.name})
			return
		}
		if !bytes.Equal(got, want) {
			rep.Violate("compose:"+m.name+":"+hx(b), fmt.Sprintf("ReplaceMultipleWhitespaceAndEntities(%q) [%s] = %q but ReplaceEntities(ReplaceMultipleWhitespace(.)) = %q", b, m.name, got, want),
				map[string]interface{}{"input": hx(b), "maps": m.name, "observed": hx(got), "expected": hx(want)})
		}
		rep.Eval(m.name+":"+hx(b), !bytes.Equal(got, b), m.name)
	}
	k := 6
	if tier == "thorough" {
		k = 8
	}
	allStrings([]byte{'&', '#', ';', '4', 'a', ' ', '\n'}, k, func(b []byte) { check(&c17Maps[4], b) })
	for i, c := range c17LookBehindCases() {
		check(&c17Maps[i%len(c17Maps)], c)
		if i%3 == 0 {
			check(&c17Maps[i%len(c17Maps)], append([]byte("&#  \n"), c...))
			check(&c17Maps[i%len(c17Maps)], append([]byte("a  &  "), c[len(c)/2:]...))
			check(&c17Maps[i%len(c17Maps)], append(append([]byte("&#x  "), c[len(c)-8:]...), "  &am  &#112;;"...))
		}
	}
	for i := 0; i < n; i++ {
		m := &c17Maps[r.Intn(len(c17Maps))]
		b := genEntString(r, 1+i%10)
		var nb []byte
		for _, c := range b {
			nb = append(nb, c)
			if r.Chance(1, 4) {
				nb = append(nb, genWsString(r, 3)...)
			}
		}
		check(m, nb)
	}
}

func stripQuotes(v []byte) []byte {
	if len(v) >= 2 && (v[0] == '"' || v[0] == '\'') && v[len(v)-1] == v[0] {
		return v[1 : len(v)-1]
	}
	return v
}

const htmlMustQuoteBytes = " \t\n\f\r\"'`<=>"

func c17EscapeOracle(r *Rng, tier string, rep *Report) {
	dec := func(b []byte) string { return stdhtml.UnescapeString(string(b)) }
	htmlCheck := func(v []byte, oq byte, mq bool) {
		key := fmt.Sprintf("html-escape:%x:%d:%v", v, oq, mq)
		fail := func(what string, obs, exp interface{}) {
			rep.Violate(key+":"+what, fmt.Sprintf("html.EscapeAttrVal(%q, %q, %v): %s: observed %v expected %v", v, oq, mq, what, obs, exp),
				map[string]interface{}{"value": hx(v), "origQuote": oq, "mustQuote": mq, "observed": fmt.Sprint(obs), "expected": fmt.Sprint(exp)})
		}
		buf := bytes.Repeat([]byte{'#'}, len(v)%7)
		var out []byte
		if p := catch(func() { out = append([]byte{}, html.EscapeAttrVal(&buf, exact(v), oq, mq)...) }); p != nil {
			fail("panic", p, "no panic")
			return
		}
		// documented rule
		singles, doubles := bytes.Count(v, []byte{'\''}), bytes.Count(v, []byte{'"'})
		plain := bytes.IndexAny(v, htmlMustQuoteBytes) < 0
		if plain && (!mq || oq == 0) {
			if !bytes.Equal(out, v) {
				fail("value that needs no quotes must be returned as is", q(out), q(v))
			}
		} else {
			want := byte('"')
			if singles < doubles || singles == doubles && oq == '\'' {
				want = '\''
			}
			cost := singles
			if want == '"' {
				cost = doubles
			}
			if len(out) < 2 || out[0] != want || out[len(out)-1] != want {
				fail("quote choice (cheaper quote, the original one on a tie)", q(out), string(want))
			} else if len(out) != len(v)+2+4*cost {
				fail("length", len(out), len(v)+2+4*cost)
			}
		}
		// read back through the real lexer
		in := append(append([]byte("<a x="), out...), '>')
		l := html.NewLexer(parse.NewInputBytes(in))
		t1, _ := l.Next()
		t2, _ := l.Next()
		val := append([]byte{}, l.AttrVal()...)
		key2 := string(l.AttrKey())
		t3, d3 := l.Next()
		t4, _ := l.Next()
		if t1 != html.StartTagToken || t2 != html.AttributeToken || key2 != "x" || t3 != html.StartTagCloseToken || string(d3) != ">" || t4 != html.ErrorToken {
			fail("not read back as one attribute", fmt.Sprint(t1, t2, key2, t3, t4), "StartTag Attribute x StartTagClose Error")
		} else if !bytes.Equal(val, out) {
			fail("attribute value is not the escaped value", q(val), q(out))
		} else if dec(stripQuotes(val)) != dec(v) {
			fail("decoded text differs", dec(stripQuotes(val)), dec(v))
		}
		rep.Eval(key, len(out) != len(v), fmt.Sprintf("html/%c", append(out, '-')[0]))
	}
	xmlCheck := func(v []byte) {
		key := fmt.Sprintf("xml-escape:%x", v)
		buf := bytes.Repeat([]byte{'#'}, len(v)%7)
		fail := func(k, what string, obs, exp interface{}) {
			rep.Violate(k, fmt.Sprintf("xml.EscapeAttrVal(%q): %s: observed %v expected %v", v, what, obs, exp),
				map[string]interface{}{"value": hx(v), "observed": fmt.Sprint(obs), "expected": fmt.Sprint(exp)})
		}
		var out []byte
		if p := catch(func() { out = append([]byte{}, xml.EscapeAttrVal(&buf, exact(v))...) }); p != nil {
			fail(key+":panic", "panic", p, "no panic")
			return
		}
		singles, doubles := bytes.Count(v, []byte{'\''}), bytes.Count(v, []byte{'"'})
		want, cost := byte('"'), doubles
		if doubles > singles {
			want, cost = '\'', singles
		}
		wsExtra := 3*bytes.Count(v, []byte{'\t'}) + 4*bytes.Count(v, []byte{'\n'}) + 4*bytes.Count(v, []byte{'\r'})
		if len(out) < 2 || out[0] != want || out[len(out)-1] != want || len(out) != len(v)+2+4*cost+wsExtra {
			fail(key+":quote", "quote choice / length", q(out), string(want))
		}
		in := append(append([]byte("<a x="), out...), '>')
		l := xml.NewLexer(parse.NewInputBytes(in))
		t1, _ := l.Next()
		t2, _ := l.Next()
		val := append([]byte{}, l.AttrVal()...)
		name := string(l.Text())
		t3, d3 := l.Next()
		t4, _ := l.Next()
		if t1 != xml.StartTagToken || t2 != xml.AttributeToken || name != "x" || t3 != xml.StartTagCloseToken || string(d3) != ">" || t4 != xml.ErrorToken {
			fail(key+":shape", "not read back as one attribute", fmt.Sprint(t1, t2, name, t3, t4), "StartTag Attribute x StartTagClose Error")
		} else if len(val) != len(out) {
			fail(key+":value", "attribute value is not the escaped value", q(val), q(out))
		} else if dec(stripQuotes(val)) != dec(v) {
			norm := append([]byte{}, v...)
			for i, c := range norm {
				if c == '\t' || c == '\n' || c == '\r' {
					norm[i] = ' '
				}
			}
			if dec(stripQuotes(val)) == dec(norm) {
				// the lexer overwrites literal TAB/LF/CR inside a quoted value with a space; EscapeAttrVal writes them literally
				fail("xml-roundtrip:literal-tab-lf-cr-read-back-as-space", "decoded text differs (TAB/LF/CR became a space)", q([]byte(dec(stripQuotes(val)))), q([]byte(dec(v))))
			} else {
				fail(key+":decode", "decoded text differs", q([]byte(dec(stripQuotes(val)))), q([]byte(dec(v))))
			}
		}
		rep.Eval(key, cost > 0, fmt.Sprintf("xml/%c", want))
	}
	cdataCheck := func(v []byte) {
		key := fmt.Sprintf("cdata:%x", v)
		buf := bytes.Repeat([]byte{'#'}, len(v)%7)
		var out []byte
		var ok bool
		if p := catch(func() { out, ok = xml.EscapeCDATAVal(&buf, exact(v)) }); p != nil {
			rep.Violate(key+":panic", fmt.Sprintf("EscapeCDATAVal(%q) panics: %v", v, p), map[string]interface{}{"value": hx(v)})
			return
		}
		cost := 3*bytes.Count(v, []byte{'<'}) + 4*bytes.Count(v, []byte{'&'})
		if !ok {
			if !bytes.Equal(out, v) || cost <= len("<![CDATA[]]>") {
				rep.Violate(key+":decline", fmt.Sprintf("EscapeCDATAVal(%q) declined with cost %d / returned %q", v, cost, out), map[string]interface{}{"value": hx(v)})
			}
		} else if dec(out) != string(v) || cost > len("<![CDATA[]]>") || len(out) != len(v)+cost || bytes.IndexByte(out, '<') >= 0 {
			rep.Violate(key+":escape", fmt.Sprintf("EscapeCDATAVal(%q) = %q un-escapes to %q", v, out, dec(out)), map[string]interface{}{"value": hx(v), "observed": hx(out)})
		}
		rep.Eval(key, cost > 0, fmt.Sprintf("cdata/%v", ok))
	}
	k, n := 5, 30000
	if tier == "thorough" {
		k, n = 7, 1000000
	}
	allStrings([]byte{'a', '"', '\'', ' ', '&', '>'}, k, func(v []byte) {
		for _, oq := range []byte{0, '\'', '"'} {
			htmlCheck(v, oq, false)
			htmlCheck(v, oq, true)
		}
	})
	allStrings([]byte{'a', '"', '\'', '&', ';', '\t', '\r', '\n'}, k, xmlCheck)
	allStrings([]byte{'a', '<', '&', ';'}, k+2, cdataCheck)
	for i := 0; i < n; i++ {
		v := bytes.ReplaceAll(genAttrVal(r, 1+i%40), []byte{0}, []byte{'0'})
		if i%4 == 0 {
			var nv []byte
			for _, c := range v {
				nv = append(nv, c)
				if r.Chance(1, 3) {
					nv = append(nv, r.PickStr([]string{"\t", "\n", "\r", "\r\n", "\"", "'", "\r\n'\"", "&#13;"})...)
				}
			}
			v = nv
		}
		htmlCheck(v, []byte{0, '\'', '"'}[r.Intn(3)], r.Bool())
		xmlCheck(v)
		cdataCheck(v)
	}
}

func init() {
	props["C17"] = &PropSpec{
		Models: []*Model{c17WsModel, c17EntModel, c17WsEntModel, c17HescModel, c17XescModel, c17CdataModel, c17HattrModel, c17XattrModel},
		Oracles: []*Oracle{
			{Name: "c17-whitespace-regexp", Run: c17WsOracle},
			{Name: "c17-entities", Run: c17EntOracle},
			{Name: "c17-compose", Run: c17ComposeOracle},
			{Name: "c17-escape-roundtrip", Run: c17EscapeOracle},
		},
	}
}
