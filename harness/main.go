package main

import (
	"encoding/json"
	"flag"
	"fmt"
	"os"
	"strconv"
	"strings"
)

// PropSpec lists the correspondence models and the property oracles of one property.
type PropSpec struct {
	Models  []*Model
	Oracles []*Oracle
}

var props = map[string]*PropSpec{}

type RunResult struct {
	Property string        `json:"property"`
	Tier     string        `json:"tier"`
	Seed     uint64        `json:"seed"`
	Corr     []*CorrResult `json:"corr"`
	Search   []*Report     `json:"search"`
	Errors   []string      `json:"errors"`
}

func loadCorpus(prop string) []Case {
	var out []Case
	data, err := os.ReadFile(verifRoot + "/corpus/" + prop + ".txt")
	if err != nil {
		return nil
	}
	for _, ln := range strings.Split(string(data), "\n") {
		ln = strings.TrimSpace(ln)
		if ln == "" || strings.HasPrefix(ln, "#") {
			continue
		}
		f := strings.Fields(ln)
		c := Case{Fn: f[0], Note: "corpus"}
		for _, a := range f[1:] {
			v, _ := strconv.ParseInt(a, 10, 64)
			c.Args = append(c.Args, v)
		}
		out = append(out, c)
	}
	return out
}

func main() {
	if len(os.Args) < 2 {
		fmt.Fprintln(os.Stderr, "usage: harness run <prop> [-tier quick|thorough] [-seed n] [-out file] | harness gen <what> <out>")
		os.Exit(2)
	}
	switch os.Args[1] {
	case "run":
		fs := flag.NewFlagSet("run", flag.ExitOnError)
		tier := fs.String("tier", "quick", "")
		seed := fs.Uint64("seed", 1, "")
		out := fs.String("out", "", "")
		only := fs.String("only", "", "corr|search")
		mr := fs.String("modelrun", modelrunPath, "")
		fs.Parse(os.Args[3:])
		modelrunPath = *mr
		prop := os.Args[2]
		composeProps()
		spec, ok := props[prop]
		if !ok {
			fmt.Fprintln(os.Stderr, "unknown property", prop)
			os.Exit(2)
		}
		res := &RunResult{Property: prop, Tier: *tier, Seed: *seed}
		rng := NewRng(*seed)
		corpus := loadCorpus(prop)
		for _, m := range spec.Models {
			mr := rng.Fork()
			if *only == "search" {
				continue
			}
			var cs []Case
			for _, c := range corpus {
				if c.Fn == m.Name {
					cs = append(cs, c)
				}
			}
			corrCap = 0
			if borrowed[prop+"/"+m.Name] && *tier == "quick" {
				corrCap = 40000
			}
			cr, err := RunCorr(m, mr, *tier, cs)
			if err != nil {
				res.Errors = append(res.Errors, m.Name+": "+err.Error())
			}
			res.Corr = append(res.Corr, cr)
		}
		for _, o := range spec.Oracles {
			or := rng.Fork()
			if *only == "corr" {
				continue
			}
			rep := NewReport(o.Name)
			if p := catch(func() { o.Run(or, *tier, rep) }); p != nil {
				res.Errors = append(res.Errors, fmt.Sprintf("oracle %s panicked: %v", o.Name, p))
			}
			res.Search = append(res.Search, rep)
		}
		enc, _ := json.MarshalIndent(res, "", " ")
		if *out == "" {
			os.Stdout.Write(enc)
		} else {
			os.WriteFile(*out, enc, 0o644)
		}
	case "replay-corr":
		// harness replay-corr <model> "<case line>" [-modelrun path]
		if len(os.Args) >= 6 && os.Args[4] == "-modelrun" {
			modelrunPath = os.Args[5]
		}
		f := strings.Fields(os.Args[3])
		c := Case{Fn: f[0]}
		for _, a := range f[1:] {
			v, _ := strconv.ParseInt(a, 10, 64)
			c.Args = append(c.Args, v)
		}
		var m *Model
		for _, sp := range props {
			for _, mm := range sp.Models {
				if mm.Name == os.Args[2] {
					m = mm
				}
			}
		}
		if m == nil {
			fmt.Println("unknown model")
			os.Exit(2)
		}
		outs, err := runModel([]string{c.Line()})
		if err != nil {
			fmt.Println(err)
			os.Exit(2)
		}
		impl := fmtInts(safeImpl(m, c))
		fmt.Println("case :", c.Line())
		fmt.Println("impl :", impl)
		fmt.Println("model:", outs[0])
		if impl != outs[0] {
			fmt.Println("DISAGREE")
			os.Exit(1)
		}
		fmt.Println("agree")
	case "deepnest":
		deepNestChild(os.Args[2:])
	case "gen":
		runGen(os.Args[2:])
	default:
		fmt.Fprintln(os.Stderr, "unknown command")
		os.Exit(2)
	}
}

// composeProps: C01 and C02 state theorems about the models of the individual consumers, so their runs also
// re-check the correspondence of those models (capped per model, see corrCap).
func composeProps() {
	if c03xHook != nil {
		c03xHook()
	}
	if c05xHook != nil {
		c05xHook()
	}
	if c17xHook != nil {
		c17xHook()
	}
	add := func(target string, from ...string) {
		t, ok := props[target]
		if !ok {
			return
		}
		have := map[string]bool{}
		for _, m := range t.Models {
			have[m.Name] = true
		}
		for _, f := range from {
			if sp, ok := props[f]; ok {
				for _, m := range sp.Models {
					if !have[m.Name] {
						have[m.Name] = true
						t.Models = append(t.Models, m)
						borrowed[target+"/"+m.Name] = true
					}
				}
			}
		}
	}
	add("C02", "C06", "C07", "C09", "C11", "C12")
	add("C01", "C06", "C07", "C08", "C09", "C10", "C11", "C12")
}

// models borrowed from another property are run on a capped number of cases in the quick tier
var borrowed = map[string]bool{}

var gens = map[string]func(out string) error{}

func runGen(args []string) {
	if len(args) < 2 {
		fmt.Fprintln(os.Stderr, "usage: harness gen <what> <outfile>")
		os.Exit(2)
	}
	g, ok := gens[args[0]]
	if !ok {
		fmt.Fprintln(os.Stderr, "unknown generator", args[0])
		os.Exit(2)
	}
	if err := g(args[1]); err != nil {
		fmt.Fprintln(os.Stderr, "TRANSLATION FAILURE:", err)
		os.Exit(1)
	}
}

// writeIfChanged keeps mtimes stable so that make only rebuilds what changed.
func writeIfChanged(path string, content []byte) error {
	old, err := os.ReadFile(path)
	if err == nil && string(old) == string(content) {
		return nil
	}
	return os.WriteFile(path, content, 0o644)
}
