package main

import (
	"bytes"
	stdxml "encoding/xml"
	"fmt"
	"go/ast"
	"go/parser"
	"go/token"
	"io"
	"strconv"
	"strings"
	"unsafe"

	"github.com/tdewolff/parse/v2"
	"github.com/tdewolff/parse/v2/xml"
)

// ---- C11: XML lexer (xml/lex.go) ---------------------------------------------------------------

// xmlErrKind projects Lexer.Err(): 0 nil, 1 io.EOF, 2 the lexer's own parse error, 9 anything else.
func xmlErrKind(e error) int64 {
	if e == nil {
		return 0
	}
	if e == io.EOF {
		return 1
	}
	if _, ok := e.(*parse.Error); ok {
		return 2
	}
	return 9
}

// xmlStep is what one call of Next exposes.
type xmlStep struct {
	tt         xml.TokenType
	data       []byte // copy
	dataNil    bool
	lo, hi     int // coordinates of data in the buffer (-1 when nil/empty)
	capExtra   int
	text, attr []byte // copies
	textNil    bool
	attrNil    bool
	tlo, thi   int
	alo, ahi   int
	offset     int
	err        int64
}

// xmlRun drives the real lexer over d: calls Next until the first ErrorToken, then extra more times
// (at most len(d)+5 calls in all). Returns the steps, the final buffer, whether the call budget ran
// out and the panic value if any call panicked.
func xmlRun(d []byte, extra int) (steps []xmlStep, final []byte, outOfFuel bool, pan interface{}) {
	b := make([]byte, len(d))
	copy(b, d)
	in := parse.NewInputBytes(b)
	l := xml.NewLexer(in)
	var base uintptr
	if bs := in.Bytes(); len(bs) > 0 {
		base = uintptr(unsafe.Pointer(&bs[0]))
	}
	off := func(s []byte) (int, int) {
		if len(s) == 0 {
			return -1, -1
		}
		lo := int(uintptr(unsafe.Pointer(&s[0])) - base)
		if lo < 0 || lo+len(s) > len(d) {
			return -777, -777 // not a slice of the input
		}
		return lo, lo + len(s)
	}
	budget := len(d) + 5
	for calls := 0; ; calls++ {
		if calls == budget {
			outOfFuel = true
			break
		}
		var st xmlStep
		pan = catch(func() {
			tt, data := l.Next()
			st.tt = tt
			st.dataNil = data == nil
			st.data = append([]byte{}, data...)
			st.lo, st.hi = off(data)
			st.capExtra = cap(data) - len(data)
			t, a := l.Text(), l.AttrVal()
			st.textNil, st.attrNil = t == nil, a == nil
			st.text = append([]byte{}, t...)
			st.attr = append([]byte{}, a...)
			st.tlo, st.thi = off(t)
			st.alo, st.ahi = off(a)
			st.offset = in.Offset()
			st.err = xmlErrKind(l.Err())
		})
		if pan != nil {
			return
		}
		steps = append(steps, st)
		if st.tt == xml.ErrorToken {
			if extra <= 0 {
				break
			}
			extra--
		}
	}
	final = append([]byte{}, in.Bytes()...)
	return
}

func encSl(out []int64, isNil bool, lo, hi int, bs []byte, withCap bool, capExtra int) []int64 {
	if isNil {
		return append(out, -1, -1)
	}
	if len(bs) == 0 {
		return append(out, -2, -2)
	}
	out = append(out, int64(lo), int64(hi))
	if withCap {
		out = append(out, int64(capExtra))
	}
	for _, c := range bs {
		out = append(out, int64(c))
	}
	return out
}

// xmlImpl encodes the run exactly as Xml/Harness.v run_xmllex does.
func xmlImpl(c Case) []int64 {
	extra := int(c.Args[0])
	dv, _ := takeList(c.Args[1:])
	d := toBytes(dv)
	steps, final, oof, pan := xmlRun(d, extra)
	var out []int64
	for _, st := range steps {
		out = append(out, int64(st.tt))
		out = encSl(out, st.dataNil, st.lo, st.hi, st.data, true, st.capExtra)
		out = encSl(out, st.textNil, st.tlo, st.thi, st.text, false, 0)
		out = encSl(out, st.attrNil, st.alo, st.ahi, st.attr, false, 0)
		out = append(out, int64(st.offset), st.err)
	}
	if pan != nil {
		return append(out, -1)
	}
	if oof {
		return append(out, -3)
	}
	out = append(out, -2)
	for _, x := range final {
		out = append(out, int64(x))
	}
	return out
}

func xmlCase(d []byte, extra int, note string) Case {
	args := []int64{int64(extra)}
	args = append(args, bytesToArgs(d)...)
	if note == "" {
		note = "xml"
	}
	return Case{Fn: "xmllex", Args: args, Note: fmt.Sprintf("%s extra=%d data=%q", note, extra, d)}
}

// ---- generators ---------------------------------------------------------------------------------

// one representative per byte class the lexer distinguishes
var c11Alphabet = []byte{'<', '>', '/', '?', '!', '-', '[', ']', '=', '"', '\'', 'a', ' ', '\t', 0}

// multi-byte fragments: the keywords are longer than any exhaustive byte enumeration reaches
var c11Fragments = []string{
	"<!--", "-->", "<![CDATA[", "]]>", "<!DOCTYPE", "<?xml", "?>", "/>", "<a", "</a", ">", "<", " b=\"c\"", " b='c'",
	"=", "\"", "'", "[", "]", " ", "\n", "\x00", "x", "--", "]]", "-", "/", "?", "<!", "\t\"\r\n'",
}

// xtok is an expected token of a generated well-formed document.
type xtok struct {
	tt      xml.TokenType
	data    string
	text    string
	textNil bool
	attr    string
	attrNil bool
}

// xevent is what both this lexer and encoding/xml must agree on.
type xevent struct {
	kind  string // start end pi comment cdata
	name  string
	attrs [][2]string
}

// The generated document as a list of constructs (the same shape as the Coq grammar Xml/WellFormed.v).
type xattr struct {
	lead, name, ws1, ws2 string
	q                    byte
	val                  string
}

// DOCTYPE body piece: kind 0 = one plain byte, 1 = double-quoted literal, 2 = '[' inner ']',
// 3 = single-quoted literal; inside '[' ']' also 4 = '<' + the bytes s that show it opens neither a
// comment nor a PI, 5 = comment with body s, 6 = processing instruction with body s
type xpiece struct {
	kind  int
	c     byte
	s     string
	inner []xpiece
}

const (
	itText = iota
	itComment
	itCdata
	itDoctype
	itPI
	itStart
	itEnd
	itTag
)

// c11Gattr: a general piece inside a tag (Coq gattr): vk 0 = name only, 1 = name=unquoted, 2 = name=quoted,
// 3 = name=quoted but cut by the ?> of the processing instruction (no closing quote)
type c11Gattr struct {
	lead, name string
	vk         int
	w1, w2     string
	q          byte
	val        string
}

type xitem struct {
	kind   int
	s      string // text / body / target / name
	pieces []xpiece
	attrs  []xattr
	ws     string
	void   bool
	// itTag only: the general tag opener (Coq ITag)
	pi      bool
	gpieces []c11Gattr
	closer  int // 6 '>', 7 '/>', 8 '?>'  (xml.TokenType of the closer)
}

type xdoc struct {
	items   []xitem
	srcNoDT []byte // the document without its DOCTYPE (see xmlWellFormed)
	src     []byte
	toks    []xtok
	feats   map[string]bool
	hasCR   bool
}

func (d *xdoc) feat(s string) { d.feats[s] = true }

func normWS(s string) string {
	return strings.Map(func(r rune) rune {
		if r == '\t' || r == '\n' || r == '\r' {
			return ' '
		}
		return r
	}, s)
}

var c11NameStart = []string{"a", "b", "x", "A", "_", "svg", "é", "x:y", "ns:é", "h1"}
var c11NameRest = []string{"", "", "b", "-c", ".d", "1", "_", ":z", "é", "long-name.x"}

func genXMLName(r *Rng) string {
	n := r.PickStr(c11NameStart) + r.PickStr(c11NameRest)
	if strings.Count(n, ":") > 1 {
		n = strings.Replace(n, ":", "_", 1)
	}
	return n
}

func genXMLWS(r *Rng, atLeastOne bool) string {
	n := r.Intn(3)
	if r.Chance(2, 3) {
		n = 0
	}
	if atLeastOne && n == 0 {
		n = 1
	}
	s := ""
	for i := 0; i < n; i++ {
		s += r.PickStr([]string{" ", " ", " ", "\t", "\n", "\r", "\r\n"})
	}
	return s
}

var c11ValChunks = []string{"", "v", "1", "a b", "x>y", "a/>b", "?>", "é", "\t", "\n", "\r", " ", "=", "!--", "]]", "-->", "/", "a-b", "\n\t "}

// genXMLAttr derives one attribute: S Name S? '=' S? quoted value.
func genXMLAttr(r *Rng, names map[string]bool) xattr {
	name := genXMLName(r)
	for names[name] {
		name += "q"
	}
	names[name] = true
	a := xattr{lead: genXMLWS(r, true), name: name, ws1: genXMLWS(r, false), ws2: genXMLWS(r, false), q: '"'}
	if r.Bool() {
		a.q = '\''
	}
	for k := r.Intn(3); k > 0; k-- {
		a.val += r.PickStr(c11ValChunks)
	}
	if r.Chance(1, 4) { // the other quote inside the value
		if a.q == '"' {
			a.val += "'"
		} else {
			a.val += "\""
		}
	}
	// CRLF inside a value: XML 1.0 normalises it to ONE space, this lexer (which rewrites in place,
	// as C02 sanctions) to two; encoding/xml to one LF.  Not generated; see the final report.
	a.val = strings.ReplaceAll(a.val, "\r\n", "\r")
	return a
}

var c11TextChunks = []string{"t", "text", " ", "\n", "a > b", "]]", "--", "x=\"y\"", "é", "&amp;", "&#65;", "/", "?", "!", "'", "\"", "]>", "\t"}

func genXMLText(r *Rng) string {
	s := ""
	for k := 1 + r.Intn(3); k > 0; k-- {
		s += r.PickStr(c11TextChunks)
	}
	return s
}

type xbuilder struct {
	r     *Rng
	items []xitem
}

func (b *xbuilder) addText(s string) {
	if s == "" {
		return
	}
	if n := len(b.items); n > 0 && b.items[n-1].kind == itText {
		s = b.items[n-1].s + s
		b.items = b.items[:n-1]
	}
	for strings.Contains(s, "]]>") { // not allowed in character data
		s = strings.ReplaceAll(s, "]]>", "]] >")
	}
	b.items = append(b.items, xitem{kind: itText, s: s})
}

func (b *xbuilder) addComment() {
	r := b.r
	body := ""
	for k := r.Intn(4); k > 0; k-- {
		body += r.PickStr([]string{"c", " ", "-", "->", ">", "<a>", "<!", "]]>", "\"", "é", "\n", "- "})
	}
	for strings.Contains(body, "--") {
		body = strings.ReplaceAll(body, "--", "- -")
	}
	if strings.HasSuffix(body, "-") {
		body += " "
	}
	b.items = append(b.items, xitem{kind: itComment, s: body})
}

func (b *xbuilder) addCDATA() {
	r := b.r
	body := ""
	for k := r.Intn(4); k > 0; k-- {
		body += r.PickStr([]string{"d", " ", "]", "]]", "]>", ">", "<a>", "-->", "&amp;", "\"", "é", "<![CDATA["})
	}
	for strings.Contains(body, "]]>") {
		body = strings.ReplaceAll(body, "]]>", "]] ")
	}
	b.items = append(b.items, xitem{kind: itCdata, s: body})
}

// addPI: a processing instruction whose content is a list of pseudo-attributes (as in the prolog).
func (b *xbuilder) addPI(prolog bool) {
	r := b.r
	if !prolog && r.Chance(1, 3) { // a processing instruction with free-form content ('>' included)
		b.items = append(b.items, c11GenTagItem(r, true, true))
		return
	}
	it := xitem{kind: itPI, s: genXMLName(r)}
	if strings.EqualFold(it.s, "xml") {
		it.s = "xmlx"
	}
	if prolog {
		it.s = "xml"
		it.attrs = append(it.attrs, xattr{lead: " ", name: "version", q: '"', val: "1.0"})
		if r.Bool() {
			it.attrs = append(it.attrs, xattr{lead: " ", name: "encoding", q: '\'', val: "UTF-8"})
		}
	} else {
		names := map[string]bool{}
		for k := r.Intn(3); k > 0; k-- {
			a := genXMLAttr(r, names)
			a.val = strings.ReplaceAll(a.val, "?>", "? >") // a processing instruction ends at its first ?>
			it.attrs = append(it.attrs, a)
		}
	}
	it.ws = genXMLWS(r, false)
	b.items = append(b.items, it)
}

// c11DtInner: plain bytes of the internal subset; a '<' takes with it the 1-3 bytes that decide that it
// opens neither "<!--" nor "<?" (the lexer looks ahead there).
func c11DtInner(s string) []xpiece {
	var out []xpiece
	for i := 0; i < len(s); i++ {
		if s[i] != '<' {
			out = append(out, xpiece{kind: 0, c: s[i]})
			continue
		}
		k := 1
		if i+1 < len(s) && s[i+1] == '!' {
			k = 2
			if i+2 < len(s) && s[i+2] == '-' {
				k = 3
			}
		}
		if i+k >= len(s) {
			k = len(s) - 1 - i
		}
		out = append(out, xpiece{kind: 4, s: s[i+1 : i+1+k]})
		i += k
	}
	return out
}

func dtPlain(s string) []xpiece {
	var out []xpiece
	for i := 0; i < len(s); i++ {
		out = append(out, xpiece{kind: 0, c: s[i]})
	}
	return out
}

// c11DtLit: a literal in double or single quotes; its content may contain '>' '[' ']' and the other quote.
func c11DtLit(r *Rng, content string) xpiece {
	if r.Bool() {
		return xpiece{kind: 1, s: strings.ReplaceAll(content, "\"", "'")}
	}
	return xpiece{kind: 3, s: strings.ReplaceAll(content, "'", "\"")}
}

// addDoctype: name, optional external id, optional internal subset with declarations whose
// literals (either quote style) may contain '>', brackets and the other quote.  Comments and
// processing instructions inside the subset are in c11HardDocs.
func (b *xbuilder) addDoctype(root string) {
	r := b.r
	ps := dtPlain(genXMLWS(r, true) + root)
	switch r.Intn(3) {
	case 1:
		ps = append(ps, dtPlain(" SYSTEM ")...)
		ps = append(ps, c11DtLit(r, r.PickStr([]string{"a.dtd", "x>y", "a[b]", "it's", "", "x\"y", "]>", "['"})))
	case 2:
		ps = append(ps, dtPlain(" PUBLIC ")...)
		ps = append(ps, c11DtLit(r, "-//W3C//DTD X//EN"))
		ps = append(ps, dtPlain(" ")...)
		ps = append(ps, c11DtLit(r, r.PickStr([]string{"a.dtd", "x>y", "]>", "x\"y", "[it's"})))
	}
	if r.Bool() {
		ps = append(ps, dtPlain(genXMLWS(r, false))...)
		var inner []xpiece
		decl := func(pre, lit, post string) {
			inner = append(inner, c11DtInner(pre)...)
			if lit != "\x00" {
				inner = append(inner, c11DtLit(r, lit))
			}
			inner = append(inner, c11DtInner(post)...)
		}
		for k := r.Intn(4); k > 0; k-- {
			switch r.Intn(20) {
			case 16: // literals (either quote style) containing comment / PI openers and closers, ']' and '>'
				decl("<!ENTITY open ", r.PickStr([]string{"<!--", "<?", "<!-- ]", "<?p ]>", "a<!--b"}), ">")
			case 17:
				decl("<!ENTITY close ", r.PickStr([]string{"-->", "?>", "]-->", "]?>", "-->]>"}), ">")
			case 18:
				decl("<!ATTLIST a b CDATA ", r.PickStr([]string{"-->", "?>", "]", ">", "]>", "--"}), ">")
			case 19:
				decl("<!ENTITY both ", r.PickStr([]string{"<!-- x -->", "<?p x?>", "<!--]>-->", "<?]>?>"}), ">")
			case 12, 13: // a comment: its body may contain ] > quotes and markup, but no "--"
				body := ""
				for j := r.Intn(4); j > 0; j-- {
					body += r.PickStr([]string{"c", " ", "]", "\"", "'", ">", "]>", "<!", "<?", "[", "- ", "->"})
				}
				for strings.Contains(body, "--") {
					body = strings.ReplaceAll(body, "--", "- -")
				}
				if strings.HasSuffix(body, "-") {
					body += " "
				}
				inner = append(inner, xpiece{kind: 5, s: body})
			case 14, 15: // a processing instruction: target, then anything without "?>"
				body := r.PickStr([]string{"p", "pi", "x-y"})
				for j := r.Intn(4); j > 0; j-- {
					body += r.PickStr([]string{" ", "]", "\"", "'", ">", "]>", "<!--", "?", "[", "a=b"})
				}
				for strings.Contains(body, "?>") {
					body = strings.ReplaceAll(body, "?>", "? >")
				}
				if strings.HasSuffix(body, "?") {
					body += " "
				}
				inner = append(inner, xpiece{kind: 6, s: body})
			case 10:
				decl("<!ENTITY j ", "]\">[", ">")
			case 11:
				decl("<!ENTITY k ", "'", ">")
			case 0:
				decl("<!ELEMENT a (#PCDATA)>", "\x00", "")
			case 1:
				decl("<!ENTITY e ", "v", ">")
			case 2:
				decl("<!ENTITY g ", "a>b", ">")
			case 3:
				decl("<!ENTITY h ", "]>", ">")
			case 4:
				decl("<!ENTITY i ", "[", ">")
			case 5:
				decl("<!ATTLIST a b CDATA #IMPLIED>", "\x00", "")
			case 6:
				decl("\n", "\x00", "")
			case 7:
				decl(" ", "\x00", "")
			case 8:
				decl("<!ENTITY % p ", "x", ">")
			case 9:
				decl("<!NOTATION n SYSTEM ", "u", ">")
			}
		}
		ps = append(ps, xpiece{kind: 2, inner: inner})
		ps = append(ps, dtPlain(genXMLWS(r, false))...)
	}
	b.items = append(b.items, xitem{kind: itDoctype, pieces: ps})
}

func (b *xbuilder) addElement(depth int, name string) {
	r := b.r
	if name == "" {
		name = genXMLName(r)
	}
	it := xitem{kind: itStart, s: name}
	names := map[string]bool{}
	for k := r.Intn(4); k > 0; k-- {
		it.attrs = append(it.attrs, genXMLAttr(r, names))
	}
	it.ws = genXMLWS(r, false)
	it.void = r.Chance(1, 3)
	b.items = append(b.items, it)
	if it.void {
		return
	}
	b.addContent(depth + 1)
	b.items = append(b.items, xitem{kind: itEnd, s: name, ws: genXMLWS(r, false)})
}

func (b *xbuilder) addContent(depth int) {
	r := b.r
	n := r.Intn(4)
	if depth > 3 {
		n = r.Intn(2)
	}
	for i := 0; i < n; i++ {
		switch r.Intn(6) {
		case 0, 1:
			b.addText(genXMLText(r))
		case 2:
			if depth <= 3 {
				b.addElement(depth, "")
			}
		case 3:
			b.addComment()
		case 4:
			b.addCDATA()
		case 5:
			b.addPI(false)
		}
	}
}

func (b *xbuilder) addMisc() {
	r := b.r
	for k := r.Intn(3); k > 0; k-- {
		switch r.Intn(4) {
		case 0, 1:
			b.addText(r.PickStr([]string{"\n", " ", "\r\n", "\n  "}))
		case 2:
			b.addComment()
		case 3:
			b.addPI(false)
		}
	}
}

func renderPieces(ps []xpiece) string {
	var sb strings.Builder
	for _, p := range ps {
		switch p.kind {
		case 0:
			sb.WriteByte(p.c)
		case 1:
			sb.WriteString("\"" + p.s + "\"")
		case 2:
			sb.WriteString("[" + renderPieces(p.inner) + "]")
		case 3:
			sb.WriteString("'" + p.s + "'")
		case 4:
			sb.WriteString("<" + p.s)
		case 5:
			sb.WriteString("<!--" + p.s + "-->")
		case 6:
			sb.WriteString("<?" + p.s + "?>")
		}
	}
	return sb.String()
}

// buildDoc renders the constructs and lists the tokens the property prescribes for them.
func buildDoc(items []xitem) *xdoc {
	d := &xdoc{items: items, feats: map[string]bool{}}
	tok := func(t xtok) { d.toks = append(d.toks, t) }
	attrs := func(as []xattr) {
		for _, a := range as {
			eq := a.ws1 + "=" + a.ws2
			q := string(a.q)
			d.src = append(d.src, a.lead+a.name+eq+q+a.val+q...)
			tok(xtok{tt: xml.AttributeToken, data: a.lead + a.name + eq + q + normWS(a.val) + q, text: a.name, attr: q + normWS(a.val) + q})
			if a.q == '"' {
				d.feat("dquote")
			} else {
				d.feat("squote")
			}
			if strings.ContainsAny(a.val, "\"'") {
				d.feat("otherquote")
			}
			if strings.ContainsAny(a.val, "\t\n\r") {
				d.feat("attr-ws")
			}
			if len(eq) > 1 {
				d.feat("eq-ws")
			}
		}
	}
	for _, it := range items {
		switch it.kind {
		case itText:
			d.src = append(d.src, it.s...)
			tok(xtok{tt: xml.TextToken, data: it.s, text: it.s, attrNil: true})
			d.feat("text")
		case itComment:
			s := "<!--" + it.s + "-->"
			d.src = append(d.src, s...)
			tok(xtok{tt: xml.CommentToken, data: s, text: it.s, attrNil: true})
			d.feat("comment")
		case itCdata:
			s := "<![CDATA[" + it.s + "]]>"
			d.src = append(d.src, s...)
			tok(xtok{tt: xml.CDATAToken, data: s, text: it.s, attrNil: true})
			d.feat("cdata")
		case itDoctype:
			body := renderPieces(it.pieces)
			s := "<!DOCTYPE" + body + ">"
			d.srcNoDT = append([]byte{}, d.src...)
			for _, p := range it.pieces {
				for _, q := range p.inner {
					if q.kind == 6 && strings.ContainsAny(q.s, "\"'<>") {
						d.feat("doctype-pi-special")
					}
				}
			}
			d.src = append(d.src, s...)
			tok(xtok{tt: xml.DOCTYPEToken, data: s, text: body, attrNil: true})
			d.feat("doctype")
			if strings.Contains(body, "[") {
				d.feat("doctype-subset")
			}
		case itPI:
			s := "<?" + it.s
			d.src = append(d.src, s...)
			tok(xtok{tt: xml.StartTagPIToken, data: s, text: it.s, attrNil: true})
			attrs(it.attrs)
			d.src = append(d.src, it.ws+"?>"...)
			tok(xtok{tt: xml.StartTagClosePIToken, data: "?>", textNil: true, attrNil: true})
			if it.s == "xml" {
				d.feat("prolog")
			} else {
				d.feat("pi")
			}
		case itStart:
			s := "<" + it.s
			d.src = append(d.src, s...)
			tok(xtok{tt: xml.StartTagToken, data: s, text: it.s, attrNil: true})
			attrs(it.attrs)
			if it.ws != "" {
				d.feat("ws-before-closer")
			}
			if it.void {
				d.src = append(d.src, it.ws+"/>"...)
				tok(xtok{tt: xml.StartTagCloseVoidToken, data: "/>", textNil: true, attrNil: true})
				d.feat("empty-element")
			} else {
				d.src = append(d.src, it.ws+">"...)
				tok(xtok{tt: xml.StartTagCloseToken, data: ">", textNil: true, attrNil: true})
			}
		case itEnd:
			s := "</" + it.s + it.ws + ">"
			d.src = append(d.src, s...)
			tok(xtok{tt: xml.EndTagToken, data: s, text: it.s, attrNil: true})
			d.feat("element")
		case itTag:
			s, tt := "<"+it.s, xml.StartTagToken
			if it.pi {
				s, tt = "<?"+it.s, xml.StartTagPIToken
			}
			d.src = append(d.src, s...)
			tok(xtok{tt: tt, data: s, text: it.s, attrNil: true})
			for _, g := range it.gpieces {
				switch g.vk {
				case 0:
					d.src = append(d.src, g.lead+g.name...)
					tok(xtok{tt: xml.AttributeToken, data: g.lead + g.name, text: g.name, attrNil: true})
				case 1:
					raw := g.lead + g.name + g.w1 + "=" + g.w2 + g.val
					d.src = append(d.src, raw...)
					tok(xtok{tt: xml.AttributeToken, data: raw, text: g.name, attr: g.val})
				case 3:
					q := string(g.q)
					d.src = append(d.src, g.lead+g.name+g.w1+"="+g.w2+q+g.val...)
					tok(xtok{tt: xml.AttributeToken, data: g.lead + g.name + g.w1 + "=" + g.w2 + q + normWS(g.val), text: g.name, attr: q + normWS(g.val)})
				default:
					q := string(g.q)
					d.src = append(d.src, g.lead+g.name+g.w1+"="+g.w2+q+g.val+q...)
					tok(xtok{tt: xml.AttributeToken, data: g.lead + g.name + g.w1 + "=" + g.w2 + q + normWS(g.val) + q, text: g.name, attr: q + normWS(g.val) + q})
				}
			}
			cl := map[int]string{6: ">", 7: "/>", 8: "?>"}[it.closer]
			d.src = append(d.src, it.ws+cl...)
			tok(xtok{tt: xml.TokenType(it.closer), data: cl, textNil: true, attrNil: true})
			if it.pi {
				d.feat("pi-freeform")
			} else {
				d.feat("general-tag")
			}
		}
	}
	d.hasCR = bytes.IndexByte(d.src, '\r') >= 0
	if d.feats["doctype"] {
		// srcNoDT = bytes before the DOCTYPE + bytes after it
		dt := 0
		for _, t := range d.toks {
			if t.tt == xml.DOCTYPEToken {
				dt = len(t.data)
			}
		}
		d.srcNoDT = append(d.srcNoDT, d.src[len(d.srcNoDT)+dt:]...)
	}
	return d
}

// genXMLItems derives a well-formed document as a list of constructs.
func genXMLItems(r *Rng) []xitem {
	b := &xbuilder{r: r}
	if r.Chance(2, 3) {
		b.addPI(true)
	}
	b.addMisc()
	root := genXMLName(r)
	if r.Chance(1, 2) {
		b.addDoctype(root)
		b.addMisc()
	}
	b.addElement(0, root)
	b.addMisc()
	return b.items
}

// genXMLDoc derives a well-formed document together with the tokens the property prescribes.
func genXMLDoc(r *Rng) *xdoc { return buildDoc(genXMLItems(r)) }

// mutateXML applies 1-3 byte-level edits: flips to class representatives, deletions, insertions,
// NUL, truncation, duplication of a piece.
func mutateXML(r *Rng, src []byte) []byte {
	b := append([]byte{}, src...)
	for k := 1 + r.Intn(3); k > 0; k-- {
		if len(b) == 0 {
			b = append(b, r.Pick(c11Alphabet))
			continue
		}
		i := r.Intn(len(b))
		switch r.Intn(7) {
		case 0:
			b[i] = r.Pick(c11Alphabet)
		case 1:
			b = append(b[:i], b[i+1:]...)
		case 2:
			b = append(b[:i], append([]byte{r.Pick(c11Alphabet)}, b[i:]...)...)
		case 3:
			b[i] = 0
		case 4:
			b = b[:i]
		case 5:
			j := i + r.Intn(len(b)-i+1)
			b = append(b[:j], append(append([]byte{}, b[i:j]...), b[j:]...)...)
		case 6:
			f := r.PickStr(c11Fragments)
			b = append(b[:i], append([]byte(f), b[i:]...)...)
		}
	}
	if len(b) > 2000 {
		b = b[:2000]
	}
	return b
}

// c11RepoTestStrings returns the string literals of the package's own test file (the ~70 spellings the
// suite pins); they seed the correspondence together with all their truncations.
func c11RepoTestStrings(path string) []string {
	fset := token.NewFileSet()
	f, err := parser.ParseFile(fset, path, nil, 0)
	if err != nil {
		return nil
	}
	seen := map[string]bool{}
	var out []string
	ast.Inspect(f, func(n ast.Node) bool {
		if bl, ok := n.(*ast.BasicLit); ok && bl.Kind == token.STRING {
			if s, err := strconv.Unquote(bl.Value); err == nil && len(s) > 0 && len(s) < 400 && !seen[s] {
				seen[s] = true
				out = append(out, s)
			}
		}
		return true
	})
	return out
}

func xmlGen(r *Rng, tier string, emit func(Case)) {
	// (0) the spellings of xml/lex_test.go and every truncation of them
	for _, s := range c11RepoTestStrings(repoRoot + "/xml/lex_test.go") {
		emit(xmlCase([]byte(s), 2, "suite"))
		for j := 1; j < len(s) && j < 120; j++ {
			emit(xmlCase([]byte(s[:j]), 1, "suite-trunc"))
		}
	}
	// (a) exhaustive small scope over the byte classes
	k := 4
	if tier == "thorough" {
		k = 5
	}
	allStrings(c11Alphabet, k, func(d []byte) {
		emit(xmlCase(d, len(d)%3, "exh"))
	})
	// longer strings over the markup sub-alphabets
	kk := 6
	if tier == "thorough" {
		kk = 8
	}
	for _, al := range [][]byte{{'<', '!', '-', '>', 'a'}, {'<', 'a', ' ', '=', '"', '>'}, {'<', '/', '?', '>', 'a', 0}} {
		al := al
		allStrings(al, kk, func(d []byte) {
			if len(d) > k {
				emit(xmlCase(d, 1, "exh-sub"))
			}
		})
	}
	// (b) exhaustive sequences of fragments
	fk := 3
	if tier == "thorough" {
		fk = 4
	}
	var rec func(pre []byte, n int)
	rec = func(pre []byte, n int) {
		if n > 0 {
			emit(xmlCase(pre, 1, "frag"))
		}
		if n == fk {
			return
		}
		for _, f := range c11Fragments {
			rec(append(append([]byte{}, pre...), f...), n+1)
		}
	}
	rec(nil, 0)
	// (b') inside an internal subset: comments / processing instructions, terminated or not, with
	// brackets, quotes, '>' and NUL inside them
	dk := 4
	if tier == "thorough" {
		dk = 5
	}
	c11DtFragments := []string{"<!--", "-->", "<?", "?>", "]", "\"", "'", ">", "x", "\x00", "<", "[", "-", "?"}
	var recDt func(pre []byte, n int)
	recDt = func(pre []byte, n int) {
		emit(xmlCase(pre, 1, "dtsub"))
		if n == dk {
			return
		}
		for _, f := range c11DtFragments {
			recDt(append(append([]byte{}, pre...), f...), n+1)
		}
	}
	recDt([]byte("<!DOCTYPE a ["), 0)
	// (c) generated well-formed documents, every truncation of some, and mutations
	nd := 3000
	if tier == "thorough" {
		nd = 60000
	}
	for i := 0; i < nd; i++ {
		d := genXMLDoc(r)
		if len(d.src) > 3000 {
			continue
		}
		emit(xmlCase(d.src, i%3, "doc"))
		if i%50 == 0 {
			for j := 0; j < len(d.src) && j < 400; j++ {
				emit(xmlCase(d.src[:j], 1, "trunc"))
			}
		}
		for m := 0; m < 3; m++ {
			emit(xmlCase(mutateXML(r, d.src), m, "mut"))
		}
	}
	// (d) random strings over the alphabet plus arbitrary bytes
	nr := 3000
	if tier == "thorough" {
		nr = 100000
	}
	for i := 0; i < nr; i++ {
		n := r.Intn(40)
		b := make([]byte, n)
		for j := range b {
			if r.Chance(1, 10) {
				b[j] = byte(r.Intn(256))
			} else {
				b[j] = r.Pick(c11Alphabet)
			}
		}
		emit(xmlCase(b, i%3, "rand"))
	}
}

func xmlShrink(c Case) []Case {
	dv, _ := takeList(c.Args[1:])
	d := toBytes(dv)
	var out []Case
	for n := len(d) / 2; n >= 1; n /= 2 {
		for i := 0; i+n <= len(d); i += n {
			nd := append(append([]byte{}, d[:i]...), d[i+n:]...)
			out = append(out, xmlCase(nd, int(c.Args[0]), "shrunk"))
		}
		if len(out) > 400 {
			break
		}
	}
	if c.Args[0] > 0 {
		out = append(out, xmlCase(d, int(c.Args[0])-1, "shrunk"))
	}
	return out
}

func xmlClass(c Case, out []int64) string {
	src := "other"
	for _, p := range []string{"dtsub", "exh-sub", "exh", "frag", "doc", "trunc", "mut", "rand", "shrunk", "corpus", "suite-trunc", "suite"} {
		if strings.HasPrefix(c.Note, p) {
			src = p
			break
		}
	}
	end := "?"
	// find the terminator marker: the last -2 separates the buffer; look at what precedes it
	switch {
	case len(out) > 0 && out[len(out)-1] == -1:
		end = "panic"
	case len(out) > 0 && out[len(out)-1] == -3:
		end = "fuel"
	default:
		dv, _ := takeList(c.Args[1:])
		i := len(out) - 1 - len(dv)
		if i >= 2 && out[i] == -2 {
			switch out[i-1] {
			case 1:
				end = "eof"
			case 2:
				end = "nul"
			default:
				end = "err?"
			}
		}
	}
	return src + "/" + end
}

var xmlModel = &Model{Name: "xmllex", Gen: xmlGen, Impl: xmlImpl, Shrink: xmlShrink, Class: xmlClass}

// ---- C11 oracles: the property text checked directly on the implementation ---------------------------

func isXMLWS(c byte) bool { return c == ' ' || c == '\t' || c == '\n' || c == '\r' }

// xmlStructural checks, for an arbitrary byte string: tiling (tokens in order, non-empty, covering
// everything except whitespace before a tag closer; only TAB/LF/CR inside a quoted attribute value
// rewritten to space), sub-slices, attribute bracketing, NUL handling, stickiness of the terminal
// report, the call bound.
func xmlStructural(d []byte, rep *Report, bucket string) {
	steps, final, oof, pan := xmlRun(d, 2)
	key := "xml:" + hx(d)
	fail := func(kind, msg string) {
		rep.Violate(kind+":"+hx(d), fmt.Sprintf("%s on %q", msg, d), map[string]interface{}{"input_hex": hx(d), "input": string(d)})
	}
	if pan != nil {
		fail("panic", fmt.Sprintf("Next panicked: %v", pan))
		return
	}
	if oof {
		fail("calls", "more than len+5 calls without a terminal report")
		return
	}
	firstNul := bytes.IndexByte(d, 0)
	prev := 0
	inTag := false
	nonErr := 0
	errSeen := 0
	var errOff int
	var errKind int64
	for i, st := range steps {
		if errSeen > 0 {
			if st.tt != xml.ErrorToken || st.offset != errOff || st.err != errKind || !st.dataNil {
				fail("sticky", fmt.Sprintf("call %d after the terminal report is not the same report", i))
			}
			errSeen++
			continue
		}
		if st.tt == xml.ErrorToken {
			errSeen = 1
			errOff, errKind = st.offset, st.err
			if !st.dataNil || !st.textNil {
				fail("error-data", "ErrorToken with data or Text")
			}
			// only whitespace inside a tag may have been moved over
			for _, c := range d[prev:st.offset] {
				if !inTag || !isXMLWS(c) {
					fail("error-skip", "bytes dropped before the terminal report")
				}
			}
			if firstNul >= 0 {
				if st.err != 2 || st.offset != firstNul {
					fail("nul", fmt.Sprintf("embedded NUL at %d: terminal report kind %d at offset %d", firstNul, st.err, st.offset))
				}
			} else if st.err != 1 || st.offset != len(d) {
				fail("eof", fmt.Sprintf("no NUL in the input: terminal report kind %d at offset %d, want io.EOF at %d", st.err, st.offset, len(d)))
			}
			continue
		}
		nonErr++
		if st.err != 0 && !(st.err == 1 && st.offset == len(d)) {
			fail("err-early", fmt.Sprintf("Err() = kind %d after a non-error token at offset %d", st.err, st.offset))
		}
		if len(st.data) == 0 {
			fail("empty", fmt.Sprintf("empty %v token", st.tt))
			continue
		}
		if st.hi != st.offset || st.lo < prev {
			fail("order", fmt.Sprintf("token %d [%d,%d) after offset %d, cursor at %d", i, st.lo, st.hi, prev, st.offset))
			continue
		}
		if st.capExtra != 0 {
			fail("cap", "token slice has spare capacity")
		}
		closer := st.tt == xml.StartTagCloseToken || st.tt == xml.StartTagCloseVoidToken || st.tt == xml.StartTagClosePIToken
		for _, c := range d[prev:st.lo] {
			if !closer || !isXMLWS(c) {
				fail("gap", fmt.Sprintf("bytes %q not covered before token %d (%v)", d[prev:st.lo], i, st.tt))
				break
			}
		}
		// bytes: identical to the input except TAB/LF/CR -> space strictly inside a quoted AttrVal
		for j, c := range st.data {
			o := d[st.lo+j]
			if c == o {
				continue
			}
			inVal := st.tt == xml.AttributeToken && len(st.attr) >= 1 && (st.attr[0] == '"' || st.attr[0] == '\'') && st.lo+j > st.alo && st.lo+j < st.ahi
			if !(inVal && c == ' ' && (o == '\t' || o == '\n' || o == '\r')) {
				fail("altered", fmt.Sprintf("byte %d altered from %q to %q in token %d (%v)", st.lo+j, o, c, i, st.tt))
				break
			}
		}
		if bytes.IndexByte(st.data, 0) >= 0 {
			fail("nul-in-token", "a token contains a NUL byte")
		}
		// Text / AttrVal are sub-slices of the token
		if len(st.text) > 0 && (st.tlo < st.lo || st.thi > st.hi) {
			fail("text-outside", fmt.Sprintf("Text() [%d,%d) outside token [%d,%d)", st.tlo, st.thi, st.lo, st.hi))
		}
		if len(st.attr) > 0 && (st.alo < st.lo || st.ahi > st.hi || st.tt != xml.AttributeToken) {
			fail("attr-outside", fmt.Sprintf("AttrVal() [%d,%d) outside token [%d,%d) or on a %v token", st.alo, st.ahi, st.lo, st.hi, st.tt))
		}
		if !st.attrNil && st.tt != xml.AttributeToken {
			fail("attr-stale", fmt.Sprintf("AttrVal() non-nil after a %v token", st.tt))
		}
		// bracketing
		switch st.tt {
		case xml.AttributeToken, xml.StartTagCloseToken, xml.StartTagCloseVoidToken, xml.StartTagClosePIToken:
			if !inTag {
				fail("bracketing", fmt.Sprintf("%v token outside a tag (token %d)", st.tt, i))
			}
			inTag = st.tt == xml.AttributeToken
		default:
			if inTag {
				fail("bracketing", fmt.Sprintf("%v token inside a tag (token %d)", st.tt, i))
			}
			inTag = st.tt == xml.StartTagToken || st.tt == xml.StartTagPIToken
		}
		prev = st.offset
	}
	if errSeen != 3 {
		fail("sticky", fmt.Sprintf("expected the terminal report 3 times, saw %d", errSeen))
	}
	if nonErr > len(d) {
		fail("calls", "more non-error tokens than bytes")
	}
	// the buffer differs from the input only by the sanctioned rewriting
	if len(final) != len(d) {
		fail("buffer", "buffer length changed")
	}
	rep.Eval(key, len(steps) > 2, bucket)
}

// xmlWellFormed checks a generated well-formed document: one token per construct with the right
// type, Text and AttrVal; and the event sequence agrees with encoding/xml's RawToken.
func xmlWellFormed(d *xdoc, rep *Report, keyPrefix string) {
	steps, _, _, pan := xmlRun(d.src, 0)
	fail := func(kind, msg string) {
		key := keyPrefix + kind + ":" + hx(d.src)
		if strings.HasPrefix(keyPrefix, "hard-") {
			key = keyPrefix + kind // one stable key per category of construct (KNOWN_FINDINGS matches it)
		}
		rep.Violate(key, fmt.Sprintf("%s on %q", msg, d.src), map[string]interface{}{"input_hex": hx(d.src), "input": string(d.src)})
	}
	if pan != nil {
		fail("panic", fmt.Sprintf("panic %v", pan))
		return
	}
	ok := true
	if len(steps) != len(d.toks)+1 {
		fail("tokens", fmt.Sprintf("%d tokens, the grammar prescribes %d", len(steps)-1, len(d.toks)))
		ok = false
	}
	for i := 0; ok && i < len(d.toks); i++ {
		w, g := d.toks[i], steps[i]
		switch {
		case g.tt != w.tt:
			fail("tokens", fmt.Sprintf("token %d is %v, want %v", i, g.tt, w.tt))
			ok = false
		case string(g.data) != w.data:
			fail("tokens", fmt.Sprintf("token %d (%v) is %q, want %q", i, g.tt, g.data, w.data))
			ok = false
		case string(g.text) != w.text || (w.textNil && !g.textNil):
			fail("text", fmt.Sprintf("token %d (%v): Text() = %q, want %q", i, g.tt, g.text, w.text))
			ok = false
		case string(g.attr) != w.attr || (w.attrNil != g.attrNil):
			fail("attrval", fmt.Sprintf("token %d (%v): AttrVal() = %q, want %q", i, g.tt, g.attr, w.attr))
			ok = false
		}
	}
	if ok && (steps[len(steps)-1].tt != xml.ErrorToken || steps[len(steps)-1].err != 1) {
		fail("tokens", "document does not end with the io.EOF report")
	}
	// events from this lexer
	var mine []xevent
	var cur *xevent
	curName := ""
	for _, g := range steps {
		switch g.tt {
		case xml.StartTagToken:
			mine = append(mine, xevent{kind: "start", name: string(g.text)})
			cur = &mine[len(mine)-1]
			curName = string(g.text)
		case xml.StartTagPIToken:
			mine = append(mine, xevent{kind: "pi", name: string(g.text)})
			cur = nil
		case xml.AttributeToken:
			if cur != nil && len(g.attr) >= 2 {
				cur.attrs = append(cur.attrs, [2]string{string(g.text), string(g.attr[1 : len(g.attr)-1])})
			}
		case xml.StartTagCloseVoidToken:
			if cur != nil {
				mine = append(mine, xevent{kind: "end", name: curName})
			}
			cur = nil
		case xml.StartTagCloseToken, xml.StartTagClosePIToken:
			cur = nil
		case xml.EndTagToken:
			mine = append(mine, xevent{kind: "end", name: string(g.text)})
		case xml.CommentToken:
			mine = append(mine, xevent{kind: "comment", name: string(g.text)})
		case xml.CDATAToken:
			mine = append(mine, xevent{kind: "cdata", name: string(g.text)})
		}
	}
	// events from encoding/xml
	// encoding/xml does not know processing instructions inside a DOCTYPE (a quote or '>' in one derails
	// its directive scanner); for such documents it is given the document without the DOCTYPE, which
	// holds no element or attribute
	stdsrc := d.src
	if d.feats["doctype-pi-special"] {
		stdsrc = d.srcNoDT
	}
	dec := stdxml.NewDecoder(bytes.NewReader(stdsrc))
	var std []xevent
	for {
		t, err := dec.RawToken()
		if err == io.EOF {
			break
		}
		if err != nil {
			// the generator is supposed to produce well-formed documents only
			rep.Violate(keyPrefix+"generator:"+hx(d.src), fmt.Sprintf("encoding/xml rejects generated document %q: %v", d.src, err), map[string]interface{}{"input": string(d.src)})
			return
		}
		switch e := t.(type) {
		case stdxml.StartElement:
			ev := xevent{kind: "start", name: rawName(e.Name)}
			for _, a := range e.Attr {
				ev.attrs = append(ev.attrs, [2]string{rawName(a.Name), normWS(a.Value)})
			}
			std = append(std, ev)
		case stdxml.EndElement:
			std = append(std, xevent{kind: "end", name: rawName(e.Name)})
		case stdxml.ProcInst:
			std = append(std, xevent{kind: "pi", name: e.Target})
		case stdxml.Comment:
			std = append(std, xevent{kind: "comment", name: string(e)})
		}
	}
	// CDATA is CharData for encoding/xml: compare markup events only, cdata bodies are compared
	// against the generator's expectation above
	var mine2 []xevent
	for _, e := range mine {
		if e.kind != "cdata" {
			mine2 = append(mine2, e)
		}
	}
	if a, b := fmt.Sprint(mine2), fmt.Sprint(std); a != b {
		fail("encoding-xml", fmt.Sprintf("names/attributes differ from encoding/xml: lexer %s, encoding/xml %s", trunc(a, 300), trunc(b, 300)))
	}
	fs := ""
	for _, f := range []string{"prolog", "doctype-subset", "cdata", "otherquote", "attr-ws", "empty-element"} {
		if d.feats[f] {
			fs += f[:2]
		}
	}
	rep.Eval("doc:"+hx(d.src), len(d.toks) >= 3, "wf/"+fs)
}

func rawName(n stdxml.Name) string {
	if n.Space != "" {
		return n.Space + ":" + n.Local
	}
	return n.Local
}

func c11StructOracle(r *Rng, tier string, rep *Report) {
	k := 4
	if tier == "thorough" {
		k = 6 // all strings of length <= 6 over the 15 byte classes (12.2M), implementation side only
	}
	allStrings(c11Alphabet, k, func(d []byte) { xmlStructural(d, rep, "exh") })
	n := 20000
	if tier == "thorough" {
		n = 500000
	}
	for i := 0; i < n; i++ {
		d := genXMLDoc(r)
		switch i % 4 {
		case 0:
			xmlStructural(d.src, rep, "doc")
		case 1:
			if len(d.src) > 0 {
				xmlStructural(d.src[:r.Intn(len(d.src))], rep, "trunc")
			}
		default:
			xmlStructural(mutateXML(r, d.src), rep, "mut")
		}
	}
	// very long inputs on the implementation only (the model side stays below 10^4 bytes)
	for _, rep1 := range []string{"<a b='c\t' ", "<!-- x", "<![CDATA[ ]] ", "<!DOCTYPE a [\"", "text "} {
		big := bytes.Repeat([]byte(rep1), 200000/len(rep1))
		steps, _, oof, pan := xmlRun(big, 1)
		if pan != nil || oof || len(steps) == 0 || steps[len(steps)-1].err != 1 {
			rep.Violate("long:"+rep1, "long input does not reach the io.EOF report", map[string]interface{}{"unit": rep1, "len": len(big)})
		}
		rep.Eval("long:"+rep1, true, "long")
	}
}

// c11HardDocs: well-formed constructs of the property's subset on which the lexer's DOCTYPE / PI
// scanning rules are simpler than XML 1.0's (only '"' is tracked as a quote inside DOCTYPE, brackets
// do not nest or respect comments/quotes, a PI is scanned like a start tag).  Each category is a
// separate stable violation key.
func c11HardDocs(r *Rng) []struct {
	cat string
	d   *xdoc
} {
	mk := func(cat, pre, doctypeBody string, piRaw string) struct {
		cat string
		d   *xdoc
	} {
		d := &xdoc{feats: map[string]bool{}}
		if pre != "" {
			d.src = append(d.src, pre...)
			d.toks = append(d.toks, xtok{tt: xml.TextToken, data: pre, text: pre, attrNil: true})
		}
		if doctypeBody != "" {
			s := "<!DOCTYPE" + doctypeBody + ">"
			d.src = append(d.src, s...)
			d.toks = append(d.toks, xtok{tt: xml.DOCTYPEToken, data: s, text: doctypeBody, attrNil: true})
		}
		if piRaw != "" {
			// <?t content?> : the property prescribes StartTagPI ... StartTagClosePI around it; the
			// expectation here is only structural (first and last token), checked by the caller
			d.src = append(d.src, piRaw...)
		}
		b := &xbuilder{r: r}
		b.addElement(3, "a")
		e := buildDoc(b.items)
		d.src = append(d.src, e.src...)
		d.toks = append(d.toks, e.toks...)
		return struct {
			cat string
			d   *xdoc
		}{cat, d}
	}
	return []struct {
		cat string
		d   *xdoc
	}{
		mk("doctype-squote-gt", "", " a SYSTEM 'x>y'", ""),
		mk("doctype-squote-gt", "\n", " a PUBLIC '-//X//EN' 'x>y'", ""),
		mk("doctype-squote-dquote", "", " a SYSTEM 'x\"y'", ""),
		mk("doctype-subset-squote-bracket", "", " a [<!ENTITY e ']'>]", ""),
		mk("doctype-subset-squote-bracket", "", " a [<!ENTITY e '\"'>]", ""),
		mk("doctype-subset-comment", "", " a [<!-- ] -->]", ""),
		mk("doctype-subset-comment", "", " a [<!-- \" -->]", ""),
		mk("doctype-subset-pi", "", " a [<?p ]?>]", ""),
		mk("doctype-literal-markup", "", " a [<!ENTITY open \"<!--\">]", ""),
		mk("doctype-literal-markup", "", " a [<!ENTITY open '<?'>]", ""),
		mk("doctype-literal-markup", "", " a [<!ENTITY e \"<!--\"><!ENTITY f '-->'>]", ""),
		mk("pi-content-gt", "", "", "<?p a>b?>"),
		mk("pi-content-gt", "", "", "<?p x > y ?>"),
		mk("pi-content-gt", "", "", "<?php if ($a > $b) { echo 1; } ?>"),
		mk("pi-content-quote", "", "", "<?p a=\"b?>"),
		mk("pi-content-quote", "", "", "<?p x ='?>"),
		{"attr-crlf", buildDoc([]xitem{{kind: itStart, s: "a", attrs: []xattr{{lead: " ", name: "b", q: '"', val: "x\r\ny"}}, void: true}})},
	}
}

func c11WellFormedOracle(r *Rng, tier string, rep *Report) {
	n := 20000
	if tier == "thorough" {
		n = 400000
	}
	for i := 0; i < n; i++ {
		xmlWellFormed(genXMLDoc(r), rep, "wf-")
	}
	for _, h := range c11HardDocs(r) {
		if strings.HasPrefix(h.cat, "pi-") {
			// structural expectation only: StartTagPI first, the PI closed by StartTagClosePI, no
			// StartTagClose / Text before that
			steps, _, _, pan := xmlRun(h.d.src, 0)
			bad := pan != nil || len(steps) == 0 || steps[0].tt != xml.StartTagPIToken
			first := bytes.Index(h.d.src, []byte("?>"))
			for _, st := range steps {
				if st.tt == xml.StartTagClosePIToken {
					if st.hi != first+2 { // XML 1.0: the instruction ends at the first "?>"
						bad = true
					}
					break
				}
				if st.tt != xml.StartTagPIToken && st.tt != xml.AttributeToken {
					bad = true
					break
				}
			}
			if bad {
				rep.Violate("hard-"+h.cat, fmt.Sprintf("processing instruction is not StartTagPI, Attribute*, StartTagClosePI ending at its first \"?>\" on %q", h.d.src), map[string]interface{}{"input": string(h.d.src)})
			}
			rep.Eval("hard:"+string(h.d.src), true, "hard")
			continue
		}
		xmlWellFormed(h.d, rep, "hard-"+h.cat+"-")
	}
}

func init() {
	props["C11"] = &PropSpec{
		Models: []*Model{xmlModel, xmlspecModel, c11XmlrefModel},
		Oracles: []*Oracle{
			{Name: "c11-structure", Run: c11StructOracle},
			{Name: "c11-wellformed-vs-encoding-xml", Run: c11WellFormedOracle},
		},
	}
}
