//go:build verif

package main

// C03, statement model (JsExpr/StmtModel.v, entry run_xstmt): block, var, if / else, while (also under
// Options.WhileToFor), do-while, for(;;), throw, break / continue, debugger, with, try, switch, labelled, expression and empty statements against
// js.Parse: the String() of every statement of the program.

import (
	"fmt"

	"github.com/tdewolff/parse/v2"
	"github.com/tdewolff/parse/v2/js"
)

func c03StmtImpl(c Case) []int64 {
	_, opts, ts := c03DecToks(c.Args)
	src := c03SpellToks(ts)
	if got, ok := c03Relex(src); !ok || !c03SameToks(got, ts) {
		return []int64{-998}
	}
	var ast *js.AST
	var err error
	if p := catch(func() { ast, err = js.Parse(parse.NewInputBytes(src), c03JsOpts(opts)) }); p != nil {
		return []int64{-1}
	}
	if err != nil {
		return []int64{1}
	}
	out := []int64{0, int64(len(ast.List))}
	for _, s := range ast.List {
		out = append(out, c03EncBytes([]byte(s.String()))...)
	}
	return out
}

type c03StmtGen struct {
	r     *Rng
	nolet int // > 0 inside the body of a label (see case 4)
	nlex  int // counter for the names of let / const declarations (unique in a program: no redeclaration errors)
}

func (g *c03StmtGen) kw(t js.TokenType) c03Jtok { return c03OpTok(t) }

// expr: a small expression of the operator fragment (no `in`: it is also used where nothing depends on the In flag)
func (g *c03StmtGen) expr() []c03Jtok {
	r := g.r
	id := func() c03Jtok { return []c03Jtok{c03TkA, c03TkB, c03TkC, c03TkD}[r.Intn(4)] }
	switch r.Intn(12) {
	case 0:
		return c03Cat(id(), js.AddToken, id())
	case 1:
		return c03Cat(id(), js.EqToken, id(), js.MulToken, c03TkInt)
	case 2:
		return c03Cat(c03TkLP, id(), c03TkComma, id(), c03TkRP)
	case 3:
		return c03Cat(id(), c03TkLP, id(), c03TkRP)
	case 4:
		return c03Cat(id(), c03TkQ, id(), c03TkColon, id())
	case 5:
		return c03Cat(js.NotToken, id())
	case 6:
		return c03Cat(id(), js.InToken, id())
	case 7:
		return c03Cat(id(), js.IncrToken)
	case 8:
		return c03Cat(c03TkStr)
	case 9:
		return c03Cat(id(), c03TkDot, id(), js.AndToken, c03TkTrue)
	case 10:
		return c03Cat(id(), c03TkComma, id())
	}
	return c03Cat(id())
}

// end: the terminator of a statement that needs one: ';' on the line, ';' after a line break, or nothing (then the next
// token is put on a new line by the caller through needNL)
func (g *c03StmtGen) end(ts []c03Jtok) ([]c03Jtok, bool) {
	switch g.r.Intn(4) {
	case 0:
		return append(ts, c03WithLT(c03TkSemi)), false
	case 1:
		return ts, true
	}
	return append(ts, c03TkSemi), false
}

// stmt returns the tokens of one statement and whether the next token must start a new line
func (g *c03StmtGen) stmt(depth int, decl bool) ([]c03Jtok, bool) {
	r := g.r
	k := r.Intn(17)
	if decl && r.Chance(1, 8) {
		k = 17
	}
	if depth <= 0 && (k < 5 || k == 12 || k >= 14) {
		k = 5 + r.Intn(7)
	}
	if !decl && g.nolet == 0 && r.Chance(1, 12) {
		k = 18
	}
	block := func() []c03Jtok {
		n := r.Intn(3)
		ts := []c03Jtok{g.kw(js.OpenBraceToken)}
		nl := false
		for i := 0; i < n; i++ {
			s, snl := g.stmt(depth-1, true)
			if nl && len(s) > 0 {
				s[0].lt = true
			}
			ts = append(ts, s...)
			nl = snl
		}
		return append(ts, g.kw(js.CloseBraceToken))
	}
	cond := func() []c03Jtok { return c03Cat(c03TkLP, g.expr(), c03TkRP) }
	sub := func() []c03Jtok {
		s, nl := g.stmt(depth-1, false)
		if nl {
			s = append(s, c03TkSemi) // a sub-statement is closed explicitly
		}
		return s
	}
	switch k {
	case 0: // block
		n := r.Intn(3)
		ts := []c03Jtok{g.kw(js.OpenBraceToken)}
		nl := false
		for i := 0; i < n; i++ {
			s, snl := g.stmt(depth-1, true)
			if nl && len(s) > 0 {
				s[0].lt = true
			}
			ts = append(ts, s...)
			nl = snl
		}
		return append(ts, g.kw(js.CloseBraceToken)), false
	case 1: // if
		ts := c03Cat(g.kw(js.IfToken), cond(), sub())
		if r.Bool() {
			ts = c03Cat(ts, g.kw(js.ElseToken), sub())
		}
		return ts, false
	case 2: // while
		return c03Cat(g.kw(js.WhileToken), cond(), sub()), false
	case 3: // do-while
		return g.end(c03Cat(g.kw(js.DoToken), sub(), g.kw(js.WhileToken), cond()))
	case 4: // label
		g.nolet++ // the body of a label is parsed with declarations allowed: no `let b` there (it would declare b)
		s, nl := g.stmt(depth-1, false)
		g.nolet--
		return c03Cat(c03Jt(js.IdentifierToken, "l"), c03TkColon, s), nl
	case 5: // throw
		return g.end(c03Cat(g.kw(js.ThrowToken), g.expr()))
	case 6: // break / continue
		ts := []c03Jtok{g.kw([]js.TokenType{js.BreakToken, js.ContinueToken}[r.Intn(2)])}
		if r.Bool() {
			ts = append(ts, c03Jt(js.IdentifierToken, "l"))
		}
		return g.end(ts)
	case 7: // var
		ts := []c03Jtok{g.kw(js.VarToken)}
		for i, n := 0, 1+r.Intn(3); i < n; i++ {
			if i > 0 {
				ts = append(ts, c03TkComma)
			}
			ts = append(ts, []c03Jtok{c03TkA, c03TkB, c03Jt(js.IdentifierToken, "v1")}[r.Intn(3)])
			if r.Bool() {
				e := g.expr()
				if len(e) == 3 && e[1].ty == js.CommaToken {
					e = e[:1]
				}
				ts = c03Cat(ts, js.EqToken, e)
			}
		}
		return g.end(ts)
	case 8: // empty
		return []c03Jtok{c03TkSemi}, false
	case 17: // let / const declaration (only where declarations are allowed), fresh names
		isConst := r.Bool()
		ts := []c03Jtok{g.kw(js.LetToken)}
		if isConst {
			ts = []c03Jtok{g.kw(js.ConstToken)}
		}
		for i, n := 0, 1+r.Intn(2); i < n; i++ {
			if i > 0 {
				ts = append(ts, c03TkComma)
			}
			g.nlex++
			ts = append(ts, c03Jt(js.IdentifierToken, fmt.Sprintf("x%d", g.nlex)))
			if isConst || r.Bool() {
				e := g.expr()
				if len(e) == 3 && e[1].ty == js.CommaToken {
					e = e[:1]
				}
				ts = c03Cat(ts, js.EqToken, e)
			}
		}
		return g.end(ts)
	case 18: // `let` / `const` where no declaration is allowed (the body of if / while / do / for / with)
		let := g.kw(js.LetToken)
		g.nlex++
		fresh := c03Jt(js.IdentifierToken, fmt.Sprintf("x%d", g.nlex)) // fresh: a mutation may turn `let x` into a declaration
		switch r.Intn(8) {
		case 0: // let b: the identifier let, then a missing terminator: an error
			return g.end([]c03Jtok{let, fresh})
		case 1: // let [: an error
			return c03Cat(let, js.OpenBracketToken, c03TkA, js.CloseBracketToken, js.EqToken, c03TkB, c03TkSemi), false
		case 2: // let { }: an error unless the brace starts a new line (then: the statement `let`, and a block)
			ob := g.kw(js.OpenBraceToken)
			if r.Bool() {
				ob = c03WithLT(ob)
			}
			return c03Cat(let, ob, js.CloseBraceToken), false
		case 3: // the expression statement `let`
			return g.end([]c03Jtok{let})
		case 4: // let, line break, b: two expression statements
			return g.end([]c03Jtok{let, c03WithLT(fresh)})
		case 5:
			return g.end(c03Cat(let, js.EqToken, c03TkA))
		case 6: // const: an error
			return c03Cat(js.ConstToken, fresh, js.EqToken, c03TkA, c03TkSemi), false
		default:
			return g.end(c03Cat(let, c03TkLP, c03TkA, c03TkRP))
		}
	case 13: // debugger
		return g.end([]c03Jtok{g.kw(js.DebuggerToken)})
	case 14: // with
		return c03Cat(g.kw(js.WithToken), cond(), sub()), false
	case 15: // try
		ts := c03Cat(g.kw(js.TryToken), block())
		shape := r.Intn(3)
		if shape != 1 {
			ts = append(ts, g.kw(js.CatchToken))
			if r.Bool() {
				ts = c03Cat(ts, c03TkLP, c03Jt(js.IdentifierToken, "e"), c03TkRP)
			}
			ts = c03Cat(ts, block())
		}
		if shape != 0 {
			ts = c03Cat(ts, g.kw(js.FinallyToken), block())
		}
		return ts, false
	case 16: // switch
		ts := c03Cat(g.kw(js.SwitchToken), cond(), g.kw(js.OpenBraceToken))
		hasDefault := false
		nl := false
		for i, n := 0, r.Intn(4); i < n; i++ {
			var head []c03Jtok
			if !hasDefault && r.Chance(1, 3) {
				hasDefault = true
				head = c03Cat(g.kw(js.DefaultToken), c03TkColon)
			} else {
				head = c03Cat(g.kw(js.CaseToken), g.expr(), c03TkColon)
			}
			if nl {
				head[0].lt = true
			}
			ts = append(ts, head...)
			nl = false
			for j, m := 0, r.Intn(3); j < m; j++ {
				st, snl := g.stmt(depth-1, true)
				if nl && len(st) > 0 {
					st[0].lt = true
				}
				ts = append(ts, st...)
				nl = snl
			}
		}
		return append(ts, g.kw(js.CloseBraceToken)), false
	case 12: // for ( init ; cond ; post ) body   — the initialiser is parsed with the In flag off
		noIn := func() []c03Jtok {
			for {
				e := g.expr()
				top := false
				for _, t := range e {
					if t.ty == js.InToken {
						top = true
					}
				}
				if !top {
					return e
				}
				if r.Bool() {
					return c03Cat(c03TkLP, e, c03TkRP) // `in` inside parentheses is fine
				}
			}
		}
		ts := c03Cat(g.kw(js.ForToken), c03TkLP)
		switch r.Intn(3) {
		case 0:
			ts = c03Cat(ts, noIn())
		case 1:
			ts = append(ts, g.kw(js.VarToken))
			for i, n := 0, 1+r.Intn(2); i < n; i++ {
				if i > 0 {
					ts = append(ts, c03TkComma)
				}
				ts = append(ts, []c03Jtok{c03TkA, c03TkB, c03Jt(js.IdentifierToken, "i")}[r.Intn(3)])
				if r.Bool() {
					e := noIn()
					if len(e) == 3 && e[1].ty == js.CommaToken {
						e = e[:1]
					}
					ts = c03Cat(ts, js.EqToken, e)
				}
			}
		}
		ts = append(ts, c03TkSemi)
		if r.Bool() {
			ts = c03Cat(ts, g.expr())
		}
		ts = append(ts, c03TkSemi)
		if r.Bool() {
			ts = c03Cat(ts, g.expr())
		}
		ts = append(ts, c03TkRP)
		switch r.Intn(3) {
		case 0:
			return append(ts, c03TkSemi), false
		default:
			return c03Cat(ts, sub()), false
		}
	}
	return g.end(g.expr())
}

func c03StmtCase(opts int, ts []c03Jtok) Case {
	c := prattCase(0, opts, ts, "")
	c.Fn = "xstmt"
	return c
}

func c03StmtGenCases(r *Rng, tier string, emit func(Case)) {
	n := 12000
	if tier == "thorough" {
		n = 600000
	}
	g := &c03StmtGen{r: r}
	for i := 0; i < n; i++ {
		g.nlex = 0
		var ts []c03Jtok
		nl := false
		for k := 1 + r.Intn(3); k > 0; k-- {
			s, snl := g.stmt(r.Intn(4), true)
			if nl && len(s) > 0 {
				s[0].lt = true
			}
			ts = append(ts, s...)
			nl = snl
		}
		opts := i % 4
		emit(c03StmtCase(opts, ts))
		if len(ts) > 1 && r.Chance(1, 3) {
			// mutations inside the token alphabet of the fragment: a token dropped, doubled, or a line break added
			m := append([]c03Jtok{}, ts...)
			j := r.Intn(len(m))
			switch r.Intn(3) {
			case 0:
				m = append(m[:j], m[j+1:]...)
			case 1:
				m = append(m[:j+1], m[j:]...)
			default:
				m[j].lt = !m[j].lt
			}
			if len(m) > 0 {
				m[0].lt = false
			}
			if c03StmtBraceOK(m) {
				emit(c03StmtCase(opts, m))
			}
		}
	}
}

// c03StmtBraceOK: every '{' stands where a statement starts (in expression position it would be an object literal,
// which is outside the model)
func c03StmtBraceOK(ts []c03Jtok) bool {
	// for ( ... in / of ...: the for-in / for-of forms are outside the model
	for i := 0; i+1 < len(ts); i++ {
		if ts[i].ty == js.ForToken && ts[i+1].ty == js.OpenParenToken {
			d := 0
			for j := i + 1; j < len(ts); j++ {
				switch ts[j].ty {
				case js.OpenParenToken:
					d++
				case js.CloseParenToken:
					d--
				}
				if d <= 0 || d == 1 && ts[j].ty == js.SemicolonToken {
					break
				}
				if d == 1 && (ts[j].ty == js.InToken || ts[j].ty == js.OfToken) {
					return false
				}
			}
		}
	}
	// '[': an array literal or a destructuring pattern is outside the model; the one place the model answers is
	// `let [` where a single statement is expected (after `else`, `do`, or the head of if / while / for / with)
	for i, t := range ts {
		if t.ty != js.OpenBracketToken {
			continue
		}
		if i < 2 || ts[i-1].ty != js.LetToken {
			return false
		}
		switch ts[i-2].ty {
		case js.ElseToken, js.DoToken:
		case js.CloseParenToken:
			d, j := 0, i-2
			for ; j >= 0; j-- {
				if ts[j].ty == js.CloseParenToken {
					d++
				} else if ts[j].ty == js.OpenParenToken {
					d--
					if d == 0 {
						break
					}
				}
			}
			if j < 1 {
				return false
			}
			switch ts[j-1].ty {
			case js.IfToken, js.ForToken, js.WithToken:
			case js.WhileToken:
				for _, u := range ts[:j] {
					if u.ty == js.DoToken {
						return false // possibly the end of a do-while statement
					}
				}
			default:
				return false
			}
		default:
			return false
		}
	}
	depth := 0
	for i, t := range ts {
		switch t.ty {
		case js.OpenParenToken:
			depth++
		case js.CloseParenToken:
			depth--
		}
		if t.ty != js.OpenBraceToken {
			continue
		}
		if depth > 0 {
			return false // inside parentheses (the head of a for statement): an object literal
		}
		if i == 0 {
			continue
		}
		switch ts[i-1].ty {
		case js.CloseParenToken, js.OpenBraceToken, js.CloseBraceToken, js.SemicolonToken, js.ElseToken, js.DoToken, js.TryToken, js.CatchToken, js.FinallyToken:
		case js.ColonToken:
			if i < 2 || ts[i-2].ty != js.IdentifierToken || i >= 3 && ts[i-3].ty == js.QuestionToken {
				return false
			}
		default:
			return false
		}
	}
	return true
}

func c03StmtClass(c Case, out []int64) string {
	res := "other"
	if len(out) > 0 {
		switch out[0] {
		case 0:
			res = fmt.Sprintf("ok-%d-stmts", c03MinInt(int(out[1]), 3))
		case 1:
			res = "error"
		case -998:
			res = "BAD-CASE"
		}
	}
	return res
}

func c03MinInt(a, b int) int {
	if a < b {
		return a
	}
	return b
}

var c03StmtModel = &Model{Name: "xstmt", Gen: c03StmtGenCases, Impl: c03StmtImpl, Shrink: func(c Case) []Case {
	var out []Case
	for _, s := range prattShrink(c) {
		s.Fn = "xstmt"
		if _, _, ts := c03DecToks(s.Args); c03StmtBraceOK(ts) {
			out = append(out, s)
		}
	}
	return out
}, Class: c03StmtClass}
