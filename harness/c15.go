package main

import (
	"bytes"
	"fmt"
	"io"
	"sort"
	"strconv"
	"strings"
	"unicode"
	"unicode/utf8"

	"github.com/tdewolff/parse/v2"
	"github.com/tdewolff/parse/v2/css"
	"github.com/tdewolff/parse/v2/html"
	"github.com/tdewolff/parse/v2/js"
	"github.com/tdewolff/parse/v2/json"
	"github.com/tdewolff/parse/v2/xml"
)

// ---- C15: Position / positionContext / NewError(Lexer) -------------------------------------------

// symbols of the small-scope enumeration (DESIGN section 6, C15 "Tie")
var c15Syms = []string{"a", "é", "\u2028", "\u2029", "\r", "\n", "\t", "\x00", "\x80"}
var c15SymsSmall = []string{"a", "é", "\u2028", "\r", "\n", "\x80"}

// raw bytes: every prefix / suffix of the multi-byte symbols occurs
var c15Bytes = []byte{'a', '\r', '\n', 0xC3, 0xA9, 0xE2, 0x80, 0xA8, 0xF0, 0}

// boundary encodings: overlong forms, surrogates, beyond U+10FFFF, 5-byte leads, and the valid neighbours
var c15EdgeSyms = []string{"a", "\n", "\xC0\x80", "\xC1\xBF", "\xC2\x80", "\xDF\xBF", "\xE0\x80\x80", "\xE0\x9F\xBF", "\xE0\xA0\x80",
	"\xED\x9F\xBF", "\xED\xA0\x80", "\xED\xBF\xBF", "\xEE\x80\x80", "\xEF\xBF\xBD", "\xF0\x80\x80\x80", "\xF0\x8F\xBF\xBF", "\xF0\x90\x80\x80",
	"\xF4\x8F\xBF\xBF", "\xF4\x90\x80\x80", "\xF5\x80\x80\x80", "\xF8\x88\x80\x80\x80", "\xE2\x80", "\xF0\x9F\x98"}

// runes of the long-line generator: ASCII, 2/3/4-byte, non-graphic (TAB, NUL, DEL, NEL, ZWSP, LS, PS),
// graphic-but-not-printable-by-IsPrint (NBSP), the replacement glyphs themselves
var c15Runes = []rune{'a', 'b', 'z', ' ', '.', 'é', '世', 0x10348, '\t', 0, 0xA0, 0xB7, 0x200B, 0x301, 0x2028, 0x2029, 0xFFFD, 0x7F, 0x85, '0'}

// c15NonGraphic lists every rune that decoding may meet anywhere in the text (decoded at every byte
// offset) for which unicode.IsGraphic is false.
func c15NonGraphic(text []byte) []int64 {
	set := map[rune]bool{}
	for i := range text {
		r, _ := utf8.DecodeRune(text[i:])
		if !unicode.IsGraphic(r) {
			set[r] = true
		}
	}
	out := make([]int64, 0, len(set))
	for r := range set {
		out = append(out, int64(r))
	}
	sort.Slice(out, func(i, j int) bool { return out[i] < out[j] })
	return out
}

func c15Note(text []byte, off int64, e int64) string {
	s := fmt.Sprintf("text=%q off=%d", trunc(string(text), 160), off)
	if e != 0 {
		s += " reader-fails"
	}
	return s
}

func c15PosCase(text []byte, off int, e int64) Case {
	args := []int64{int64(off), e}
	args = append(args, bytesToArgs(text)...)
	ng := c15NonGraphic(text)
	args = append(args, int64(len(ng)))
	args = append(args, ng...)
	return Case{Fn: "position", Args: args, Note: c15Note(text, int64(off), e)}
}

// c15ErrLexerCase: NewErrorLexer after Move(p1); Skip(); Move(p-p1), so that Pos() != Offset()
func c15ErrLexerCase(text []byte, p int) Case {
	p1 := 0
	if p > 0 {
		p1 = (p*7 + len(text)) % (p + 1)
	}
	args := []int64{int64(p1), int64(p - p1)}
	args = append(args, bytesToArgs(text)...)
	ng := c15NonGraphic(text)
	args = append(args, int64(len(ng)))
	args = append(args, ng...)
	return Case{Fn: "errlexer", Args: args, Note: "NewErrorLexer " + c15Note(text, int64(p), 0)}
}

func c15EncPosition(line, col int, ctx string) []int64 {
	if !utf8.ValidString(ctx) {
		return []int64{-777}
	}
	rs := []rune(ctx)
	out := []int64{int64(line), int64(col), int64(len(rs))}
	for _, r := range rs {
		out = append(out, int64(r))
	}
	return out
}

// c15Reader picks one of the reader kinds NewInput distinguishes (Bytes() fast path with and without
// spare capacity, io.ReadAll path in one piece and in chunks, nil reader, failing reader).
func c15Reader(d []byte, off int64, e int64) io.Reader {
	cp := append([]byte{}, d...)
	if e != 0 {
		return &chunkReader{data: cp, sizes: []int{2}, err: errReader, withEr: len(d)%2 == 1}
	}
	if len(d) == 0 && off%2 == 0 {
		return nil
	}
	switch (len(d) + int(off&3)) % 4 {
	case 0:
		return bytes.NewBuffer(cp[:len(cp):len(cp)])
	case 1:
		return strings.NewReader(string(cp))
	case 2:
		return &chunkReader{data: cp, sizes: []int{1, 3, 0, 2}}
	default:
		sp := make([]byte, len(cp), len(cp)+2)
		copy(sp, cp)
		sp[:len(cp)+1][len(cp)] = 'Z' // borrowed by NewInputBytes for the terminator
		return bytes.NewBuffer(sp)
	}
}

func c15PositionImpl(c Case) []int64 {
	off, e := c.Args[0], c.Args[1]
	dv, _ := takeList(c.Args[2:])
	d := toBytes(dv)
	rd := c15Reader(d, off, e)
	var line, col int
	var ctx string
	if p := catch(func() { line, col, ctx = parse.Position(rd, int(off)) }); p != nil {
		return []int64{-1}
	}
	return c15EncPosition(line, col, ctx)
}

func c15ErrLexerImpl(c Case) []int64 {
	p1, p2 := int(c.Args[0]), int(c.Args[1])
	dv, _ := takeList(c.Args[2:])
	d := toBytes(dv)
	var l *parse.Input
	switch len(d) % 3 {
	case 0:
		l = parse.NewInputBytes(append([]byte{}, d...))
	case 1:
		l = parse.NewInputString(string(d))
	default:
		l = parse.NewInput(&chunkReader{data: append([]byte{}, d...), sizes: []int{2, 1}})
	}
	var er *parse.Error
	if pn := catch(func() {
		l.Move(p1)
		l.Skip()
		l.Move(p2)
		er = parse.NewErrorLexer(l, "message %d", 1)
	}); pn != nil {
		return []int64{-1}
	}
	return c15EncPosition(er.Line, er.Column, er.Context)
}

func c15SymsText(syms []string, idx []int) []byte {
	var b []byte
	for _, i := range idx {
		b = append(b, syms[i]...)
	}
	return b
}

// c15AllSymTexts enumerates all sequences of at most k symbols.
func c15AllSymTexts(syms []string, k int, f func([]byte)) {
	idx := make([]int, 0, k)
	var rec func()
	rec = func() {
		f(c15SymsText(syms, idx))
		if len(idx) == k {
			return
		}
		for i := range syms {
			idx = append(idx, i)
			rec()
			idx = idx[:len(idx)-1]
		}
	}
	rec()
}

func c15RandLine(r *Rng, n int, invalid bool) []byte {
	var b []byte
	for i := 0; i < n; i++ {
		switch {
		case invalid && r.Chance(1, 12):
			b = append(b, []byte{0x80, 0xC3, 0xE2, 0xF0, 0xFF, 0xBF}[r.Intn(6)])
		case r.Chance(1, 2):
			b = append(b, byte('a'+r.Intn(26)))
		default:
			b = utf8.AppendRune(b, c15Runes[r.Intn(len(c15Runes))])
		}
	}
	return b
}

var c15Breaks = []string{"\n", "\r", "\r\n", "\u2028", "\u2029"}

// c15LongText: a few short lines, then a line of n runes, then possibly more text.
func c15LongText(r *Rng, n int, invalid bool) []byte {
	b, _, _ := c15LongText2(r, n, invalid)
	return b
}

// c15LongText2 also returns the byte range [ls, le) of the line of n runes.
func c15LongText2(r *Rng, n int, invalid bool) (b []byte, ls, le int) {
	for k := r.Intn(4); k > 0; k-- {
		b = append(b, c15RandLine(r, r.Intn(5), invalid)...)
		b = append(b, c15Breaks[r.Intn(len(c15Breaks))]...)
	}
	ls = len(b)
	b = append(b, c15RandLine(r, n, invalid)...)
	le = len(b)
	if r.Bool() {
		b = append(b, c15Breaks[r.Intn(len(c15Breaks))]...)
		b = append(b, c15RandLine(r, r.Intn(70), invalid)...)
	}
	return b, ls, le
}

var c15LineLens = []int{0, 1, 20, 39, 40, 41, 42, 56, 57, 58, 59, 60, 61, 62, 63, 64, 65, 80, 83, 84, 85, 86, 100, 130}

func c15Class(c Case, out []int64) string {
	if len(out) == 1 {
		return fmt.Sprintf("abnormal(%d)", out[0])
	}
	var off int64
	var dv []int64
	if c.Fn == "position" {
		off = c.Args[0]
		dv, _ = takeList(c.Args[2:])
		if c.Args[1] != 0 {
			return "reader-error"
		}
	} else {
		off = c.Args[0] + c.Args[1]
		dv, _ = takeList(c.Args[2:])
	}
	ctx := make([]rune, 0, len(out))
	for _, x := range out[3:] {
		ctx = append(ctx, rune(x))
	}
	s := string(ctx)
	first := s
	if i := strings.IndexByte(s, '\n'); i >= 0 {
		first = s[:i]
	}
	regime := "short"
	if j := strings.Index(first, ": "); j >= 0 {
		body := first[j+2:]
		f, rr := strings.HasPrefix(body, "..."), strings.HasSuffix(body, "...")
		if utf8.RuneCountInString(body) >= 47 {
			switch {
			case f && rr:
				regime = "both"
			case f:
				regime = "front"
			case rr:
				regime = "rear"
			default:
				regime = "long-unelided"
			}
		}
	}
	where := "inside"
	switch {
	case off < 0:
		where = "off<0"
	case off > int64(len(dv)):
		where = "off>len"
	case off == int64(len(dv)):
		where = "off=len"
	}
	kind := "ascii"
	if !utf8.Valid(toBytes(dv)) {
		kind = "invalid-utf8"
	} else if len(toBytes(dv)) != utf8.RuneCount(toBytes(dv)) {
		kind = "multibyte"
	}
	ln := "line1"
	if out[0] > 1 {
		ln = "line>1"
	}
	return regime + "/" + where + "/" + kind + "/" + ln
}

func c15Shrink(c Case) []Case {
	var out []Case
	if c.Fn == "position" {
		off, e := int(c.Args[0]), c.Args[1]
		dv, _ := takeList(c.Args[2:])
		d := toBytes(dv)
		for i := range d {
			nd := append(append([]byte{}, d[:i]...), d[i+1:]...)
			if i < off {
				out = append(out, c15PosCase(nd, off-1, e))
			}
			out = append(out, c15PosCase(nd, off, e))
		}
		for i := range d {
			if d[i] != 'a' && d[i] < 0x80 && d[i] != '\n' && d[i] != '\r' {
				nd := append([]byte{}, d...)
				nd[i] = 'a'
				out = append(out, c15PosCase(nd, off, e))
			}
		}
		return out
	}
	p := int(c.Args[0] + c.Args[1])
	dv, _ := takeList(c.Args[2:])
	d := toBytes(dv)
	for i := range d {
		nd := append(append([]byte{}, d[:i]...), d[i+1:]...)
		if i < p {
			out = append(out, c15ErrLexerCase(nd, p-1))
		}
		out = append(out, c15ErrLexerCase(nd, p))
	}
	return out
}

var c15PositionModel = &Model{
	Name: "position",
	Gen: func(r *Rng, tier string, emit func(Case)) {
		all := func(text []byte) {
			for off := -1; off <= len(text)+1; off++ {
				emit(c15PosCase(text, off, 0))
			}
		}
		// exhaustive small scope: symbols and raw bytes x every offset in [-1, len+1]
		k1, k2, k3 := 3, 4, 3
		if tier == "thorough" {
			k1, k2, k3 = 4, 6, 5
		}
		c15AllSymTexts(c15Syms, k1, all)
		c15AllSymTexts(c15SymsSmall, k2, func(t []byte) {
			if utf8.RuneCount(t) > k1 || bytes.ContainsAny(t, "\u2029\t\x00") {
				all(t)
			}
		})
		allStrings(c15Bytes, k3, all)
		k4 := 2
		if tier == "thorough" {
			k4 = 3
		}
		c15AllSymTexts(c15EdgeSyms, k4, all)
		// 59/60/61-rune lines (and the other regime boundaries): every offset
		reps := 3
		if tier == "thorough" {
			reps = 40
		}
		for rep := 0; rep < reps; rep++ {
			for _, n := range c15LineLens {
				text := c15LongText(r, n, rep%4 == 3)
				if rep == 0 {
					text = bytes.Repeat([]byte("a"), n) // pure ASCII line of exactly n
				}
				all(text)
			}
		}
		// random long lines, random offsets
		m := 1500
		if tier == "thorough" {
			m = 60000
		}
		for i := 0; i < m; i++ {
			n := c15LineLens[r.Intn(len(c15LineLens))] + r.Intn(3)
			if r.Chance(1, 10) {
				n = 60 + r.Intn(400)
			}
			text, ls, le := c15LongText2(r, n, i%5 == 4)
			for j := 0; j < 6; j++ {
				off := r.Intn(len(text)+3) - 1
				switch j % 3 {
				case 1: // near the end of the long line: front elision and its boundary (col >= len-23)
					off = le - r.Intn(60)
				case 2: // inside the long line, near the boundary col 40/41 and beyond
					off = ls + 25 + r.Intn(60)
				}
				if off < -1 {
					off = -1
				}
				if off > len(text)+1 {
					off = len(text) + 1
				}
				emit(c15PosCase(text, off, 0))
			}
		}
		// line numbers across the widths of %5d that the model side can afford (<= 10^4 bytes)
		for _, n := range []int{8, 9, 10, 98, 99, 100, 998, 999, 1000, 9998, 9999} {
			text := append(bytes.Repeat([]byte("\n"), n), "xyz"...)
			emit(c15PosCase(text, n+1, 0))
			if n < 2000 {
				emit(c15PosCase(text, n-1, 0))
				text = append(bytes.Repeat([]byte("\r\n"), n), "é\t"...)
				emit(c15PosCase(text, 2*n+2, 0))
			}
		}
		// failing reader: everything is discarded
		for i := 0; i < 20; i++ {
			text := c15LongText(r, r.Intn(70), false)
			emit(c15PosCase(text, r.Intn(len(text)+3)-1, 2))
		}
	},
	Impl:   c15PositionImpl,
	Shrink: c15Shrink,
	Class:  c15Class,
}

var c15ErrLexerModel = &Model{
	Name: "errlexer",
	Gen: func(r *Rng, tier string, emit func(Case)) {
		c15AllSymTexts(c15SymsSmall, 3, func(t []byte) {
			for p := -1; p <= len(t)+2; p++ {
				emit(c15ErrLexerCase(t, p))
			}
		})
		m := 600
		if tier == "thorough" {
			m = 20000
		}
		for i := 0; i < m; i++ {
			text := c15LongText(r, c15LineLens[r.Intn(len(c15LineLens))], i%5 == 4)
			emit(c15ErrLexerCase(text, r.Intn(len(text)+4)-1))
		}
	},
	Impl:   c15ErrLexerImpl,
	Shrink: c15Shrink,
	Class:  c15Class,
}

// c15Fmt5dModel ties the model's rendering of "%5d" (decimal, left padded to 5, longer numbers in full) to fmt.
var c15Fmt5dModel = &Model{
	Name: "fmt5d",
	Gen: func(r *Rng, tier string, emit func(Case)) {
		mk := func(n int64) {
			emit(Case{Fn: "fmt5d", Args: []int64{n}, Note: fmt.Sprintf("%%5d of %d", n)})
		}
		for n := int64(-12); n <= 1100; n++ {
			mk(n)
		}
		for _, b := range []int64{9999, 10000, 99999, 100000, 999999, 1000000, 1 << 31, 1 << 32, 999999999999, 1000000000000, 1<<62 - 1, 1 << 62, -99999, -9999, -10000} {
			mk(b - 1)
			mk(b)
			mk(b + 1)
		}
		m := 400
		if tier == "thorough" {
			m = 20000
		}
		for i := 0; i < m; i++ {
			mk(int64(r.U64()>>uint(1+r.Intn(62))) * int64(1-2*(i%7/6)))
		}
	},
	Impl: func(c Case) []int64 {
		var out []int64
		for _, ch := range fmt.Sprintf("%5d", int(c.Args[0])) {
			out = append(out, int64(ch))
		}
		return out
	},
	Class: func(c Case, out []int64) string { return fmt.Sprintf("width%d", len(out)) },
}

// ---- oracle 1: the property text for Position, written independently of the model -----------------

func c15IsBreakEnd(t []byte, e int) bool {
	if e < 1 || e > len(t) {
		return false
	}
	if t[e-1] == '\n' {
		return true
	}
	if t[e-1] == '\r' && !(e < len(t) && t[e] == '\n') {
		return true
	}
	return e >= 3 && t[e-3] == 0xE2 && t[e-2] == 0x80 && (t[e-1] == 0xA8 || t[e-1] == 0xA9)
}

// c15BreakStartsAt: a line break (any of the five kinds) starts at byte i
func c15BreakStartsAt(t []byte, i int, lsps bool) bool {
	if i >= len(t) {
		return true
	}
	if t[i] == '\n' || t[i] == '\r' {
		return true
	}
	return lsps && i+2 < len(t) && t[i] == 0xE2 && t[i+1] == 0x80 && (t[i+2] == 0xA8 || t[i+2] == 0xA9)
}

// c15Ref computes, for valid UTF-8 t, the line, the column, the start of the line and the resolved
// offset of the character that off points to, by counting as the property text says.
func c15Ref(t []byte, off int) (line, col, lineStart, s int) {
	if off < 0 {
		off = 0
	}
	if off > len(t) {
		off = len(t)
	}
	s = off
	for s > 0 && s < len(t) && !utf8.RuneStart(t[s]) {
		s--
	}
	if s < len(t) && t[s] == '\n' && s > 0 && t[s-1] == '\r' {
		s-- // a position inside \r\n is the position of the pair
	}
	line = 1
	for e := 1; e <= off; e++ {
		if c15IsBreakEnd(t, e) {
			line++
			lineStart = e
		}
	}
	col = 1 + utf8.RuneCount(t[lineStart:s])
	return
}

func c15Disp(rs []rune) []rune {
	out := make([]rune, len(rs))
	for i, r := range rs {
		if unicode.IsGraphic(r) {
			out[i] = r
		} else {
			out[i] = '·'
		}
	}
	return out
}

func c15RunesEq(a, b []rune) bool {
	if len(a) != len(b) {
		return false
	}
	for i := range a {
		if a[i] != b[i] {
			return false
		}
	}
	return true
}

// c15CheckContext checks the context string against the line L (already decoded), the index ci of the
// character at the offset in L (ci == len(L): the offset is at the end of the line) and the line number.
// It returns "" or a description of what is wrong; caretOnly reports that only the caret is misplaced.
func c15CheckContext(ctx string, L []rune, ci int, line int) (problem string, caretOnly bool) {
	parts := strings.Split(ctx, "\n")
	if len(parts) != 2 {
		return fmt.Sprintf("context has %d lines", len(parts)), false
	}
	first, second := []rune(parts[0]), []rune(parts[1])
	if len(second) == 0 || second[len(second)-1] != '^' || strings.Trim(string(second[:len(second)-1]), " ") != "" {
		return "second line is not spaces followed by ^", false
	}
	caret := len(second) - 1
	// "<line number right aligned>: "
	digits := strconv.Itoa(line)
	w := len(digits)
	if w < 5 {
		w = 5
	}
	prefix := []rune(strings.Repeat(" ", w-len(digits)) + digits + ": ")
	if len(first) < len(prefix) || !c15RunesEq(first[:len(prefix)], prefix) {
		return fmt.Sprintf("first line does not start with %q", string(prefix)), false
	}
	rest := first[len(prefix):]
	D := c15Disp(L)
	if len(L) <= 60 {
		if !c15RunesEq(rest, D) {
			return fmt.Sprintf("a line of %d characters is not shown in full", len(L)), false
		}
		if caret != len(prefix)+ci {
			return fmt.Sprintf("caret at printed column %d, character at the offset at %d", caret, len(prefix)+ci), true
		}
		return "", false
	}
	// elided: rest = ["..."] D[lo:hi] ["..."] with the ellipses exactly where something was cut,
	// roughly 60 characters, the character at the offset inside the window
	contentOK := false
	for _, f := range []bool{false, true} {
		for _, rr := range []bool{false, true} {
			n := len(rest)
			if f {
				n -= 3
			}
			if rr {
				n -= 3
			}
			if n < 30 || n > 60 || (f && string(rest[:3]) != "...") || (rr && string(rest[len(rest)-3:]) != "...") {
				continue
			}
			body := rest
			if f {
				body = body[3:]
			}
			if rr {
				body = body[:len(body)-3]
			}
			for lo := 0; lo+n <= len(D); lo++ {
				hi := lo + n
				if f != (lo > 0) || rr != (hi < len(D)) {
					continue
				}
				if !(lo <= ci && (ci < hi || (ci == hi && hi == len(D)))) {
					continue
				}
				if !c15RunesEq(body, D[lo:hi]) {
					continue
				}
				contentOK = true
				idx := len(prefix) + ci - lo
				if f {
					idx += 3
				}
				if caret == idx {
					return "", false
				}
			}
		}
	}
	if contentOK {
		return fmt.Sprintf("caret at printed column %d is not under the character at the offset", caret), true
	}
	return "elided context is not a window of about 60 characters of the line around the offset with ellipses exactly at the cut ends", false
}

func c15CheckPosition(t []byte, off int, rep *Report, bucket string) {
	var line, col int
	var ctx string
	rd := c15Reader(t, int64(off), 0)
	if p := catch(func() { line, col, ctx = parse.Position(rd, off) }); p != nil {
		rep.Violate(fmt.Sprintf("c15-panic:%x/%d", t, off), fmt.Sprintf("Position(%q, %d) panics: %v", t, off, p), map[string]interface{}{"text": hx(t), "offset": off})
		return
	}
	key := fmt.Sprintf("%x/%d", t, off)
	replay := map[string]interface{}{"text": hx(t), "offset": off, "line": line, "col": col, "context": ctx}
	wl, wc, ls, s := c15Ref(t, off)
	if line != wl || col != wc {
		rep.Violate("c15-linecol:"+trunc(key, 100), fmt.Sprintf("Position(%q, %d) = line %d col %d, counting breaks and code points gives line %d col %d", trunc(string(t), 200), off, line, col, wl, wc), replay)
	}
	// the line ends at the next break of any of the five kinds.  Before /repo commit 14b37c1 the context ran
	// on past U+2028/U+2029 (ended at \n, \r or the end only): that regression keeps its own stable key.
	endProp, endImpl := s, s
	for !c15BreakStartsAt(t, endProp, true) {
		endProp++
	}
	for !c15BreakStartsAt(t, endImpl, false) {
		endImpl++
	}
	ci := utf8.RuneCount(t[ls:s])
	prob, caretOnly := c15CheckContext(ctx, []rune(string(t[ls:endProp])), ci, wl)
	if prob != "" && !caretOnly && endProp != endImpl {
		if p2, c2 := c15CheckContext(ctx, []rune(string(t[ls:endImpl])), ci, wl); p2 == "" || c2 {
			// regression of 14b37c1: the only deviation is that U+2028/U+2029 do not end the context line
			rep.Violate("c15-context:ls-ps-not-terminator", fmt.Sprintf("Position(%q, %d): the context %q runs on past U+2028/U+2029, which Position itself counts as a line break", trunc(string(t), 200), off, ctx), replay)
			prob, caretOnly = p2, c2
		}
	}
	if prob != "" {
		switch {
		case caretOnly && wl >= 100000:
			rep.Violate("c15-caret:line>=100000", fmt.Sprintf("line %d: %s (regression of /repo commit a22851c: the caret line assumes a 5-character line number): %q", wl, prob, ctx), replay)
		case caretOnly:
			rep.Violate("c15-caret:"+trunc(key, 100), fmt.Sprintf("Position(%q, %d): %s: %q", trunc(string(t), 200), off, prob, ctx), replay)
		default:
			rep.Violate("c15-context:"+trunc(key, 100), fmt.Sprintf("Position(%q, %d): %s: %q", trunc(string(t), 200), off, prob, ctx), replay)
		}
	}
	rep.Eval(key, len(t) > 0 && off >= 0 && off <= len(t), bucket)
}

func c15PositionOracle(r *Rng, tier string, rep *Report) {
	valid := []string{"a", "é", "\u2028", "\u2029", "\r", "\n", "\t", "\x00", "世", "\U00010348"}
	k := 4
	if tier == "thorough" {
		k = 5
	}
	c15AllSymTexts(valid[:8], k, func(t []byte) {
		for off := -1; off <= len(t)+1; off++ {
			c15CheckPosition(t, off, rep, "small-scope")
		}
	})
	c15AllSymTexts([]string{"a", "\r", "\n", "\u2029", "世", "\U00010348"}, k+1, func(t []byte) {
		for off := -1; off <= len(t)+1; off++ {
			c15CheckPosition(t, off, rep, "small-scope-2")
		}
	})
	m := 3000
	if tier == "thorough" {
		m = 100000
	}
	for i := 0; i < m; i++ {
		n := c15LineLens[r.Intn(len(c15LineLens))] + r.Intn(2)
		if r.Chance(1, 8) {
			n = 60 + r.Intn(600)
		}
		t := c15LongText(r, n, false)
		if i%4 == 0 {
			for off := -1; off <= len(t)+1; off++ {
				c15CheckPosition(t, off, rep, "long-line-all-offsets")
			}
		} else {
			for j := 0; j < 10; j++ {
				c15CheckPosition(t, r.Intn(len(t)+3)-1, rep, "long-line")
			}
		}
	}
	// line number widths: 1..6 digits
	for _, n := range []int{8, 9, 98, 99, 998, 999, 9998, 9999, 99997, 99998, 99999, 100000, 123456} {
		for _, brk := range []string{"\n", "\r\n", "\u2028"} {
			t := append(bytes.Repeat([]byte(brk), n), "xyz é"...)
			for _, d := range []int{-1, 0, 1, 2, 5} {
				c15CheckPosition(t, n*len(brk)+d, rep, "line-number-width")
			}
			long := append(bytes.Repeat([]byte(brk), n), c15RandLine(r, 90, false)...)
			for _, d := range []int{0, 30, 60, 100} {
				c15CheckPosition(long, n*len(brk)+d, rep, "line-number-width")
			}
		}
	}
}

// ---- oracle 2: error positions of all parsers ------------------------------------------------------

type c15PosTriple struct {
	line, col int
	ctx       string
}

func c15PositionOf(input []byte, off int) c15PosTriple {
	l, c, x := parse.Position(bytes.NewReader(input), off)
	return c15PosTriple{l, c, x}
}

// c15FindOffset returns an offset k in [0, len] with Position(input, k) == want, preferring hint; -1 if none.
func c15FindOffset(input []byte, want c15PosTriple, hint int) int {
	if hint >= 0 && hint <= len(input) && c15PositionOf(input, hint) == want {
		return hint
	}
	for k := 0; k <= len(input); k++ {
		if c15PositionOf(input, k) == want {
			return k
		}
	}
	return -1
}

// c15CheckError: the error must carry what Position computes for a byte inside the input; when the
// offset at which the parser stopped is known it must be that byte.
// buf is the parser's own buffer at the time of the error (nil when not observable): a parser that has
// modified its buffer in place reports positions of the modified text.
func c15CheckError(rep *Report, who string, input, buf []byte, err error, stop int, exact bool) {
	c15CheckErrorIn(rep, who, input, buf, err, -1, stop, exact)
}

// c15CheckErrorIn: as c15CheckError; with exact == false and lo >= 0 the byte must lie in [lo, stop].
func c15CheckErrorIn(rep *Report, who string, input, buf []byte, err error, lo, stop int, exact bool) {
	pe, ok := err.(*parse.Error)
	if !ok {
		return
	}
	l, c, x := pe.Position()
	got := c15PosTriple{l, c, x}
	replay := map[string]interface{}{"parser": who, "input": hx(input), "line": l, "col": c, "context": x, "message": pe.Message, "stop": stop}
	if l != pe.Line || c != pe.Column || x != pe.Context {
		rep.Violate("c15-error-accessor:"+who, "Error.Position() differs from the fields", replay)
	}
	k := c15FindOffset(input, got, stop)
	if k < 0 && buf != nil && !bytes.Equal(buf, input) && c15FindOffset(buf, got, stop) >= 0 {
		// the position is a Position of the parser's buffer, which is no longer the input
		want := c15PositionOf(input, c15FindOffset(buf, got, stop))
		replay["buffer"] = hx(buf)
		if want.line == l && want.col == c {
			rep.Violate("c15-error-modified-buffer:"+who+":context-only", fmt.Sprintf("%s on %q: the parser changed its input buffer in place to %q; line %d and column %d are those of the input, the context %q is that of the changed buffer (input: %q)", who, trunc(string(input), 200), trunc(string(buf), 200), l, c, x, want.ctx), replay)
		} else {
			rep.Violate("c15-error-modified-buffer:"+who+":line-column", fmt.Sprintf("%s on %q: the parser changed its input buffer in place to %q and reports line %d column %d; in the input the byte it stopped at is on line %d column %d", who, trunc(string(input), 200), trunc(string(buf), 200), l, c, want.line, want.col), replay)
		}
		return
	}
	if k < 0 {
		rep.Violate("c15-error-notposition:"+who+":"+trunc(hx(input), 80), fmt.Sprintf("%s on %q: error position (line %d, col %d, %q) is not what Position computes for any offset in [0,%d]", who, trunc(string(input), 200), l, c, x, len(input)), replay)
		return
	}
	if exact && k != stop && c15PositionOf(input, stop) != got {
		rep.Violate("c15-error-offset:"+who+":"+trunc(hx(input), 80), fmt.Sprintf("%s on %q: error reported at offset %d (line %d, col %d), the parser stopped at byte %d", who, trunc(string(input), 200), k, l, c, stop), replay)
	}
	if !exact && stop >= 0 && lo >= 0 {
		// the byte lies in what the parser read during this call: [lo, stop]
		found := false
		for j := lo; j <= stop && j <= len(input) && !found; j++ {
			found = c15PositionOf(input, j) == got
		}
		if !found {
			rep.Violate("c15-error-range:"+who+":"+trunc(hx(input), 80), fmt.Sprintf("%s on %q: error reported at offset %d (line %d, col %d), outside the bytes [%d,%d] read by the call that detected it", who, trunc(string(input), 200), k, l, c, lo, stop), replay)
		}
	}
	if want := fmt.Sprintf("%s on line %d and column %d\n%s", pe.Message, l, c, x); pe.Error() != want {
		rep.Violate("c15-error-string:"+who, "Error() is not message, line, column and context", replay)
	}
}

// --- generated documents as token lists ---

func c15GenJSONValue(r *Rng, depth int, out *[]string) {
	switch k := r.Intn(9); {
	case k < 2 && depth < 4:
		*out = append(*out, "{")
		n := r.Intn(3)
		for i := 0; i < n; i++ {
			if i > 0 {
				*out = append(*out, ",")
			}
			*out = append(*out, []string{`"a"`, `"key"`, `"é\n"`, `"\\\""`, `""`}[r.Intn(5)], ":")
			c15GenJSONValue(r, depth+1, out)
		}
		*out = append(*out, "}")
	case k < 4 && depth < 4:
		*out = append(*out, "[")
		n := r.Intn(4)
		for i := 0; i < n; i++ {
			if i > 0 {
				*out = append(*out, ",")
			}
			c15GenJSONValue(r, depth+1, out)
		}
		*out = append(*out, "]")
	case k < 6:
		*out = append(*out, []string{"0", "-1", "12.5", "1e9", "-0.5E-3", "7"}[r.Intn(6)])
	case k < 8:
		*out = append(*out, []string{`"s"`, `"two words"`, `"世界"`, `"é"`, `"a\\"`}[r.Intn(5)])
	default:
		*out = append(*out, []string{"true", "false", "null"}[r.Intn(3)])
	}
}

var c15WS = []string{"", "", " ", "\n", "\r\n", "\t", "  ", "\r", " \n "}

// c15JoinToks joins tokens with whitespace; starts[i] is the offset of token i, ends[i] its end.
func c15JoinToks(r *Rng, toks []string, ws []string, must func(a, b string) bool) (doc []byte, starts, ends []int) {
	for i, t := range toks {
		if i > 0 {
			w := ws[r.Intn(len(ws))]
			if w == "" && must != nil && must(toks[i-1], t) {
				w = " "
			}
			doc = append(doc, w...)
		}
		starts = append(starts, len(doc))
		doc = append(doc, t...)
		ends = append(ends, len(doc))
	}
	return
}

func c15InsertAt(doc []byte, at int, ins string) []byte {
	out := make([]byte, 0, len(doc)+len(ins))
	out = append(out, doc[:at]...)
	out = append(out, ins...)
	out = append(out, doc[at:]...)
	return out
}

func c15BoundaryPoints(doc []byte, starts, ends []int) []int {
	set := map[int]bool{0: true, len(doc): true}
	for i := range starts {
		set[starts[i]] = true
		set[ends[i]] = true
	}
	var pts []int
	for p := range set {
		pts = append(pts, p)
	}
	sort.Ints(pts)
	return pts
}

func c15RunJSON(input []byte) (err error, stop int, units int) {
	in := parse.NewInputBytes(append([]byte{}, input...))
	p := json.NewParser(in)
	for i := 0; i < len(input)+5; i++ {
		gt, _ := p.Next()
		if gt == json.ErrorGrammar {
			return p.Err(), in.Offset(), units
		}
		units++
	}
	return nil, -1, units
}

var c15IllegalJSON = []string{"#", "@", "\x00", "\x01", "x", "©", "\x80", "'", "=", "\u2028"}
var c15IllegalJS = []string{"@", "\x00", "\x01", "\x7f", "©", "\x80", "€", "\\"}

func c15IsHex(c byte) bool {
	return c >= '0' && c <= '9' || c >= 'a' && c <= 'f' || c >= 'A' && c <= 'F'
}

func c15IsWordTok(s string) bool {
	if s == "" {
		return false
	}
	c := s[len(s)-1]
	return c == '_' || c == '$' || c >= '0' && c <= '9' || c >= 'a' && c <= 'z' || c >= 'A' && c <= 'Z' || c >= 0x80
}

func c15IsWordStart(s string) bool {
	if s == "" {
		return false
	}
	c := s[0]
	return c == '_' || c == '$' || c >= '0' && c <= '9' || c >= 'a' && c <= 'z' || c >= 'A' && c <= 'Z' || c >= 0x80 || c == '.'
}

// tokens that may not touch: two words, or operator characters that would fuse
func c15JsMustSeparate(a, b string) bool {
	if c15IsWordTok(a) && c15IsWordStart(b) {
		return true
	}
	la, fb := a[len(a)-1], b[0]
	return strings.IndexByte("+-*%<>=!&|^~?.", la) >= 0 && strings.IndexByte("+-*%<>=!&|^~?.", fb) >= 0
}

func c15GenJSExpr(r *Rng, depth int, out *[]string) {
	switch k := r.Intn(12); {
	case k < 3 || depth > 3:
		*out = append(*out, []string{"a", "b", "foo", "x1", "é", "$"}[r.Intn(6)])
	case k < 5:
		*out = append(*out, []string{"0", "1", "42", "3.5", "0x1F", "1e3"}[r.Intn(6)])
	case k < 6:
		*out = append(*out, []string{`"s"`, `'t'`, `"世"`, `'a\'b'`}[r.Intn(4)])
	case k < 8:
		c15GenJSExpr(r, depth+1, out)
		*out = append(*out, []string{"+", "-", "*", "%", "==", "===", "<", "&&", "||", ">>", "!=", "&"}[r.Intn(12)])
		c15GenJSExpr(r, depth+1, out)
	case k < 9:
		*out = append(*out, "(")
		c15GenJSExpr(r, depth+1, out)
		*out = append(*out, ")")
	case k < 10:
		*out = append(*out, []string{"f", "g", "obj"}[r.Intn(3)], "(")
		n := r.Intn(3)
		for i := 0; i < n; i++ {
			if i > 0 {
				*out = append(*out, ",")
			}
			c15GenJSExpr(r, depth+1, out)
		}
		*out = append(*out, ")")
	case k < 11:
		*out = append(*out, "[")
		n := r.Intn(3)
		for i := 0; i < n; i++ {
			if i > 0 {
				*out = append(*out, ",")
			}
			c15GenJSExpr(r, depth+1, out)
		}
		*out = append(*out, "]")
	default:
		*out = append(*out, "a", ".", "b")
	}
}

func c15GenJSStmt(r *Rng, depth int, out *[]string) {
	switch k := r.Intn(10); {
	case k < 3:
		*out = append(*out, []string{"var", "let", "const"}[r.Intn(3)], fmt.Sprintf("%s%d", []string{"v", "w_", "é"}[r.Intn(3)], len(*out)), "=")
		c15GenJSExpr(r, 1, out)
		*out = append(*out, ";")
	case k < 6 || depth > 2:
		*out = append(*out, []string{"x", "y", "u", "url", "undefined", "use"}[r.Intn(6)], "=")
		c15GenJSExpr(r, 1, out)
		*out = append(*out, ";")
	case k < 7:
		*out = append(*out, "if", "(")
		c15GenJSExpr(r, 1, out)
		*out = append(*out, ")", "{")
		c15GenJSStmt(r, depth+1, out)
		*out = append(*out, "}")
		if r.Bool() {
			*out = append(*out, "else", "{")
			c15GenJSStmt(r, depth+1, out)
			*out = append(*out, "}")
		}
	case k < 8:
		*out = append(*out, "while", "(")
		c15GenJSExpr(r, 1, out)
		*out = append(*out, ")", "{")
		c15GenJSStmt(r, depth+1, out)
		*out = append(*out, "}")
	case k < 9:
		*out = append(*out, "function", []string{"f", "g"}[r.Intn(2)], "(", "p", ",", "q", ")", "{", "return")
		c15GenJSExpr(r, 1, out)
		*out = append(*out, ";", "}")
	default:
		*out = append(*out, "for", "(", "i", "=", "0", ";", "i", "<", "n", ";", "i", "+=", "1", ")", "{")
		c15GenJSStmt(r, depth+1, out)
		*out = append(*out, "}")
	}
}

func c15ErrorOracle(r *Rng, tier string, rep *Report) {
	nd := 150
	if tier == "thorough" {
		nd = 5000
	}
	rejected := 0
	defer func() {
		if rejected > nd/4 {
			rep.Violate("c15-gen:degenerate", fmt.Sprintf("%d of %d generated documents are rejected by the parsers: the insertion oracle is not exercised", rejected, 2*nd), nil)
		}
	}()
	// JSON: valid documents x every token boundary x illegal characters
	for i := 0; i < nd; i++ {
		var toks []string
		c15GenJSONValue(r, 0, &toks)
		doc, starts, ends := c15JoinToks(r, toks, c15WS, nil)
		if err, _, _ := c15RunJSON(doc); err != io.EOF {
			rep.Eval("gen:"+string(doc), false, "json-generated-document-rejected")
			rejected++
			continue
		}
		for _, at := range c15BoundaryPoints(doc, starts, ends) {
			for _, ill := range c15IllegalJSON {
				input := c15InsertAt(doc, at, ill)
				err, stop, _ := c15RunJSON(input)
				key := fmt.Sprintf("json:%x", input)
				replay := map[string]interface{}{"parser": "json", "input": hx(input), "inserted_at": at}
				pe, ok := err.(*parse.Error)
				if !ok {
					rep.Violate("c15-insert-noerror:json:"+trunc(hx(input), 80), fmt.Sprintf("json: %q with %q inserted at %d is not rejected with a parse error (%v)", doc, ill, at, err), replay)
					rep.Eval(key, true, "json-insert")
					continue
				}
				want := c15PositionOf(input, at)
				if utf8.Valid(input) {
					if wl, wc, _, _ := c15Ref(input, at); want.line != wl || want.col != wc {
						rep.Violate("c15-linecol:"+trunc(hx(input), 80), "Position disagrees with the reference count", replay)
					}
				}
				if got := (c15PosTriple{pe.Line, pe.Column, pe.Context}); got != want {
					rep.Violate("c15-insert-position:json:"+trunc(hx(input), 80), fmt.Sprintf("json: %q with %q inserted at offset %d (line %d col %d): error %q reported at line %d col %d", doc, ill, at, want.line, want.col, pe.Message, pe.Line, pe.Column), replay)
				}
				c15CheckError(rep, "json", input, nil, err, stop, true)
				rep.Eval(key, true, "json-insert")
			}
		}
	}
	// JS: valid programs x every token boundary x illegal characters, all Options
	for i := 0; i < nd; i++ {
		var toks []string
		for n := 1 + r.Intn(3); n > 0; n-- {
			c15GenJSStmt(r, 0, &toks)
		}
		doc, starts, ends := c15JoinToks(r, toks, c15WS, c15JsMustSeparate)
		opts := js.Options{WhileToFor: i%2 == 1, Inline: i%4 >= 2}
		if _, err := js.Parse(parse.NewInputBytes(append([]byte{}, doc...)), opts); err != nil {
			rep.Eval("gen:"+string(doc), false, "js-generated-program-rejected")
			rejected++
			continue
		}
		for _, at := range c15BoundaryPoints(doc, starts, ends) {
			for _, ill := range c15IllegalJS {
				if ill == "\\" && at+1 < len(doc) && doc[at] == 'u' && (doc[at+1] == '{' || c15IsHex(doc[at+1])) {
					continue // a backslash there could start a valid unicode escape
				}
				input := c15InsertAt(doc, at, ill)
				var err error
				if p := catch(func() { _, err = js.Parse(parse.NewInputBytes(append([]byte{}, input...)), opts) }); p != nil {
					rep.Violate("c15-panic:js:"+trunc(hx(input), 80), fmt.Sprintf("js.Parse(%q) panics: %v", input, p), map[string]interface{}{"input": hx(input)})
					continue
				}
				key := fmt.Sprintf("js:%x/%v", input, opts.Inline)
				replay := map[string]interface{}{"parser": "js", "input": hx(input), "inserted_at": at, "inline": opts.Inline}
				pe, ok := err.(*parse.Error)
				if !ok {
					rep.Violate("c15-insert-noerror:js:"+trunc(hx(input), 80), fmt.Sprintf("js: %q with %q inserted at %d is not rejected with a parse error (%v)", doc, ill, at, err), replay)
					rep.Eval(key, true, "js-insert")
					continue
				}
				want := c15PositionOf(input, at)
				if got := (c15PosTriple{pe.Line, pe.Column, pe.Context}); got != want {
					rep.Violate("c15-insert-position:js:"+trunc(hx(input), 80), fmt.Sprintf("js: %q with %q inserted at offset %d (line %d col %d): error %q reported at line %d col %d", doc, ill, at, want.line, want.col, pe.Message, pe.Line, pe.Column), replay)
				}
				c15CheckError(rep, "js", input, nil, err, at, true)
				rep.Eval(key, true, "js-insert")
			}
		}
	}
	// every parser: malformed inputs; each *parse.Error must be a Position of a byte inside the input
	frags := []string{"<a b=c>", "<a ", "</a>", "<!--x-->", "<?xml ?>", "<![CDATA[x]]>", "<script>", "</script>", "<style>", "<svg>", "<math>", "</svg>", "<svg a=\"", "x", " ", "\n", "\r\n", "\x00", "é", "\u2028",
		"a{b:c}", "a{", "}", "@media x{", "b:c;", "b c;", ":", ";", "--v:{", "/*", "*/", "\"", "'", "(", ")", "[", "url(", "\\",
		"var x=1;", "x=`a${", "}`", "/re/", "0x", "1e", "08", "1a", "#", "'s", "if(", "{", "function", "=>", "...", "//c\n", "<!--", "\"k\":", "[1,", "tru", "-"}
	nm := 4000
	if tier == "thorough" {
		nm = 150000
	}
	// directed inputs (parser index, text): errors after text that the lexers rewrite in place
	directed := []struct {
		which int
		text  string
	}{
		{1, "<a b=\"x\ny\" \x00>"}, {1, "<a b='\t' \x00"}, {1, "<a b=\"1\r\n2\"\n \x00"}, {1, "<a b=c\n\x00"}, {1, "<a>\n<b \x00"},
		{2, "</A><svg>\x00"}, {2, "<DIV\nCLASS=X><svg>\x00"}, {2, "<p>\n<svg>\x00"}, {2, "<math>\r\n<a \x00"},
		{0, "{\"a\":\n[1,\n#]}"}, {6, "var x = 1;\nlet \x00"}, {5, "a\n\"b"}, {3, "a{b:c}\nd{e;f:g}"}, {4, "a:b;\nc d"},
	}
	for i := -len(directed); i < nm; i++ {
		var input []byte
		which := 0
		if i < 0 {
			input = []byte(directed[-i-1].text)
			which = directed[-i-1].which
		} else {
			for n := 1 + r.Intn(6); n > 0; n-- {
				input = append(input, frags[r.Intn(len(frags))]...)
			}
			which = i % 7
		}
		key := fmt.Sprintf("m%d:%x", which, input)
		cp := func() *parse.Input { return parse.NewInputBytes(append([]byte{}, input...)) }
		var err error
		var curBuf []byte
		stop, exact := -1, false
		who := ""
		p := catch(func() {
			switch which {
			case 0:
				who = "json"
				err, stop, _ = c15RunJSON(input)
				exact = true
			case 1:
				who = "xml"
				in := cp()
				l := xml.NewLexer(in)
				for k := 0; k < len(input)+5; k++ {
					if tt, _ := l.Next(); tt == xml.ErrorToken {
						err, stop, exact, curBuf = l.Err(), in.Offset(), true, in.Bytes()
						break
					}
				}
			case 2:
				who = "html"
				in := cp()
				l := html.NewLexer(in)
				for k := 0; k < len(input)+5; k++ {
					if tt, _ := l.Next(); tt == html.ErrorToken {
						err, stop, exact, curBuf = l.Err(), in.Offset(), true, in.Bytes()
						break
					}
				}
			case 3, 4:
				who = "css"
				in := cp()
				pr := css.NewParser(in, which == 4)
				before, prev := 0, 0 // the parser looks one token ahead: the window is the last two calls
				for k := 0; k < 3*len(input)+10; k++ {
					prev, before = before, in.Offset()
					gt, _, _ := pr.Next()
					if gt == css.ErrorGrammar {
						e := pr.Err()
						if _, ok := e.(*parse.Error); ok {
							// a parse error does not stop the css parser: check it and go on
							c15CheckErrorIn(rep, who, input, in.Bytes(), e, prev, in.Offset(), false)
							rep.Eval(key+fmt.Sprint(k), true, "css-parse-error")
							continue
						}
						err = e
						break
					}
				}
			case 5:
				who = "js-lexer"
				in := cp()
				l := js.NewLexer(in)
				for k := 0; k < len(input)+5; k++ {
					before := in.Offset()
					tt, _ := l.Next()
					if tt == js.ErrorToken {
						e := l.Err()
						if _, ok := e.(*parse.Error); ok {
							c15CheckErrorIn(rep, who, input, in.Bytes(), e, before, in.Offset(), false)
							rep.Eval(key+fmt.Sprint(k), true, "js-lexer-error")
							continue
						}
						break
					}
				}
			default:
				who = "js"
				in := cp()
				_, err = js.Parse(in, js.Options{})
				curBuf = in.Bytes()
			}
		})
		if p != nil {
			rep.Eval(key, false, who+"-panic(C01)")
			continue
		}
		_, isPE := err.(*parse.Error)
		if isPE {
			c15CheckError(rep, who, input, curBuf, err, stop, exact)
		}
		b := who + "-noerror"
		if isPE {
			b = who + "-error"
		}
		rep.Eval(key, isPE, b)
	}
}

func init() {
	props["C15"] = &PropSpec{
		Models: []*Model{c15PositionModel, c15ErrLexerModel, c15Fmt5dModel},
		Oracles: []*Oracle{
			{Name: "c15-position-text", Run: c15PositionOracle},
			{Name: "c15-error-offsets", Run: c15ErrorOracle},
		},
	}
}
