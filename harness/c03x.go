//go:build verif

package main

// C03, size independence (integrator's addition after seed C03-1): a statement list of N copies of a grammatical
// statement is grammatical, and its tree is N copies of the statement's tree — for N beyond every internal limit
// (nesting counters must count nesting, not the number of constructs seen so far).

import (
	"fmt"
	"strings"
)

var c03xUnits = []string{
	"(a)", "x=(a,b)", "(a)=>a", "x=(a,b)=>a", "async(a)=>a", "async(a)", "f((a))", "[a]=[b]", "({a}={a})", "a?.b", "a?.(b)",
	"`${a}`", "`${(a)}`", "a**b", "new a(b)", "new (a)", "{ }", "{(a)}", "if(a)(b)", "for(;;)break", "a:b", "do a;while(b)",
	"try{}catch{}", "(function(){})", "(class{})", "(class{static{}})", "x=function*(){yield (a)}", "x=async function(){await (a)}",
	"x=async()=>{await (a)}", "[(a),(b)]", "x={a:(b)}", "a?(b):(c)", "a=(b)", "(a)(b)", "(a).b", "(a)[b]", "!(a)", "typeof (a)",
	"x=[...(a)]", "f(...(a))", "a,(b)", "(a),b", "((a))", "function f(a=(b)){}", "class A{}", "var v=(a)", "switch(a){case (b):}",
	"while(a)(b)", "with(a)(b)", "throw (a)", "label:for(;;)break label",
}

func c03xSizeIndependence(r *Rng, tier string, rep *Report) {
	ns := []int{1100, 2600}
	if tier == "thorough" {
		ns = append(ns, 20011)
	}
	for _, u := range c03xUnits {
		redecl := strings.HasPrefix(u, "class A")
		for o := 0; o < 4; o++ {
			one, err, pan := c03ParseJS([]byte(u), o)
			if pan != nil || err != nil {
				rep.Violate("c03-accept:"+u, fmt.Sprintf("grammatical statement rejected: %q: %v %v", u, err, pan), map[string]interface{}{"src": u, "opts": o})
				continue
			}
			want1 := c03AstString(one)
			for _, n := range ns {
				var sb, wb strings.Builder
				for i := 0; i < n; i++ {
					if i > 0 {
						sb.WriteString(";\n")
						wb.WriteString(" ")
					}
					if redecl {
						// a lexical declaration must not repeat its name: put each copy in its own block
						sb.WriteString("{" + u + "}")
						wb.WriteString("Stmt({ " + want1 + " })")
					} else {
						sb.WriteString(u)
						wb.WriteString(want1)
					}
				}
				src := sb.String()
				ast, err, pan := c03ParseJS([]byte(src), o)
				key := fmt.Sprintf("c03-size:%s*%d", u, n)
				rp := map[string]interface{}{"unit": u, "n": n, "opts": o}
				switch {
				case pan != nil:
					rep.Violate(key, fmt.Sprintf("js.Parse panics on %d copies of %q: %v", n, u, pan), rp)
				case err != nil:
					rep.Violate(key, fmt.Sprintf("grammatical program rejected: %d copies of the statement %q (one copy is accepted): %v", n, u, c03FirstLine(err)), rp)
				default:
					if got := c03AstString(ast); c03NoEmpty(got) != c03NoEmpty(wb.String()) {
						rep.Violate(key, fmt.Sprintf("%d copies of the statement %q do not parse to %d copies of its tree %s", n, u, n, want1), rp)
					}
				}
				rep.Eval(key+fmt.Sprint(o), true, "size-independence")
			}
		}
	}
}

// redeclarations that js.Parse must reject, and their single-declaration counterparts that it must accept, in every kind of
// scope (seed C03-6: a named function expression whose body declares the function's own name twice was accepted)
func c03xRedeclarations(r *Rng, tier string, rep *Report) {
	scopes := []string{"%s", "{%s}", "function f(){%s}", "x=function(){%s}", "x=function b(){%s}", "x=function a(){%s}", "x=()=>{%s}", "class C{m(){%s}}",
		"class C{static{%s}}", "for(;;){%s}", "if(x){%s}", "switch(x){case 1:%s}", "try{%s}catch(e){}", "try{}catch(e){%s}", "try{}finally{%s}", "l:{%s}",
		"x={m(){%s}}", "x={get g(){%s}}", "x=async function b(){%s}", "x=function*b(){%s}"}
	dups := []string{"let b;let b", "let b;const b=1", "const b=1;let b", "let b;class b{}", "class b{};let b", "class b{};class b{}", "let b;var b", "let b,b", "const b=1,b=2",
		"let b;function b(){}", "let a;let a"}
	singles := []string{"let b", "const b=1", "class b{}", "var b;var b", "function b(){};var b", "let a;let b", "var a;let b"}
	params := []string{"x=function b(b){let b}", "function f(b){let b}", "x=(b)=>{let b}", "x=function b(b){const b=1}", "class C{m(b){let b}}", "function f(b,b){'use strict'}", "x=(b,b)=>1", "function f([b],b){let c}"}
	for o := 0; o < 4; o++ {
		for _, sc := range scopes {
			for _, d := range dups {
				src := fmt.Sprintf(sc, d)
				ast, err, pan := c03ParseJS([]byte(src), o)
				_ = ast
				if pan != nil {
					rep.Violate("c03-panic:"+src, fmt.Sprintf("js.Parse panics on %q: %v", src, pan), map[string]interface{}{"src": src, "opts": o})
				} else if err == nil {
					rep.Violate("c03-reject:redeclaration:"+src, fmt.Sprintf("ill-formed program accepted (a lexical declaration repeats a name of its scope): %q", src), map[string]interface{}{"src": src, "opts": o})
				}
				rep.Eval(fmt.Sprintf("redecl:%s/%d", src, o), true, "reject-redeclaration")
			}
			for _, d := range singles {
				src := fmt.Sprintf(sc, d)
				_, err, pan := c03ParseJS([]byte(src), o)
				if pan != nil || err != nil {
					rep.Violate("c03-accept:"+src, fmt.Sprintf("grammatical program rejected: %q: %v %v", src, err, pan), map[string]interface{}{"src": src, "opts": o})
				}
				rep.Eval(fmt.Sprintf("single:%s/%d", src, o), true, "accept-declaration")
			}
		}
		for _, src := range params {
			_, err, pan := c03ParseJS([]byte(src), o)
			if pan != nil {
				rep.Violate("c03-panic:"+src, fmt.Sprintf("js.Parse panics on %q: %v", src, pan), map[string]interface{}{"src": src, "opts": o})
			} else if err == nil && !strings.Contains(src, "(b,b)=>1") && !strings.Contains(src, "f(b,b)") && !strings.Contains(src, "[b],b") {
				rep.Violate("c03-reject:redeclaration:"+src, fmt.Sprintf("ill-formed program accepted (a lexical declaration repeats a parameter): %q", src), map[string]interface{}{"src": src, "opts": o})
			}
			rep.Eval(fmt.Sprintf("param:%s/%d", src, o), true, "reject-redeclaration")
		}
	}
}

func init() {
	addC03x := func() {
		if p, ok := props["C03"]; ok {
			p.Oracles = append(p.Oracles, &Oracle{Name: "c03-size-independence", Run: c03xSizeIndependence})
			p.Oracles = append(p.Oracles, &Oracle{Name: "c03-redeclarations", Run: c03xRedeclarations})
		}
	}
	c03xHook = addC03x
}

var c03xHook func()
