package main

import (
	"bytes"
	"fmt"
	"strings"

	"github.com/tdewolff/parse/v2/js"
)

// Whole-language program generator for the C03 oracle (search, not proof): statements, declarations, classes,
// functions / arrows / async / generators, destructuring, templates, optional chaining, ASI positions.
// Every generated piece carries its tokens, the places where a line break is forbidden or required, and its
// expected String() form, built here from the grammar (not by the parser).

const (
	c03Free   = 0 // any white space
	c03NoLT   = 1 // no line terminator before this token (restricted productions)
	c03MustLT = 2 // a line terminator before this token (automatic semicolon insertion)
)

type c03Piece struct {
	toks []c03Jtok
	mode []int8
	str  string
}

func (p c03Piece) first() js.TokenType {
	if len(p.toks) == 0 {
		return js.ErrorToken
	}
	return p.toks[0].ty
}

// c03Lex turns source text into tokens with the real lexer (text with a single spelling, no comments).
func c03Lex(s string) []c03Jtok {
	ts, ok := c03Relex([]byte(s))
	if !ok {
		panic("c03Lex: " + s)
	}
	for i := range ts {
		ts[i].lt = false
	}
	return ts
}

// c03B concatenates strings (lexed), tokens and pieces; the int8 constants set the mode of the next token.
func c03B(parts ...interface{}) c03Piece {
	var out c03Piece
	next := int8(c03Free)
	add := func(t c03Jtok, m int8) {
		if next != c03Free {
			m = next
			next = c03Free
		}
		out.toks = append(out.toks, t)
		out.mode = append(out.mode, m)
	}
	for _, p := range parts {
		switch x := p.(type) {
		case string:
			for _, t := range c03Lex(x) {
				add(t, c03Free)
			}
		case c03Jtok:
			add(x, c03Free)
		case []c03Jtok:
			for _, t := range x {
				add(t, c03Free)
			}
		case c03Piece:
			for i, t := range x.toks {
				add(t, x.mode[i])
			}
		case int:
			next = int8(x)
		case int8:
			next = x
		}
	}
	return out
}

func c03S(str string, parts ...interface{}) c03Piece {
	p := c03B(parts...)
	p.str = str
	return p
}

// c03Spell3 writes the tokens with varied white space / comments / line breaks respecting the modes; if the
// text does not lex back to the same tokens the plain spelling (one space, or one newline where required) is used.
func c03Spell3(r *Rng, p c03Piece) []byte {
	free := []string{"", " ", " ", "\t", "  ", "/*c*/", " /* c\n d */ ", "\n", " // c\n", "\r\n", "\n\n  "}
	nolt := []string{"", " ", " ", "\t", "/*c*/", "  "}
	must := []string{"\n", " \n ", "\r\n", " // c\n", "/* a\n b */", "\n\n"}
	var b bytes.Buffer
	for i, t := range p.toks {
		var s string
		switch p.mode[i] {
		case c03NoLT:
			s = nolt[r.Intn(len(nolt))]
		case c03MustLT:
			s = must[r.Intn(len(must))]
		default:
			s = free[r.Intn(len(free))]
		}
		if i == 0 && p.mode[i] != c03MustLT && r.Bool() {
			s = ""
		}
		b.WriteString(s)
		b.Write(t.data)
	}
	if r.Chance(1, 4) {
		b.WriteString(free[r.Intn(len(free))])
	}
	if c03SameSpelling(b.Bytes(), p) {
		return b.Bytes()
	}
	b.Reset()
	for i, t := range p.toks {
		if p.mode[i] == c03MustLT {
			b.WriteByte('\n')
		} else if i > 0 {
			b.WriteByte(' ')
		}
		b.Write(t.data)
	}
	return b.Bytes()
}

func c03SameSpelling(src []byte, p c03Piece) bool {
	got, ok := c03Relex(src)
	if !ok || len(got) != len(p.toks) {
		return false
	}
	for i := range got {
		if got[i].ty != p.toks[i].ty || !bytes.Equal(got[i].data, p.toks[i].data) {
			return false
		}
		if p.mode[i] == c03NoLT && got[i].lt || p.mode[i] == c03MustLT && !got[i].lt {
			return false
		}
	}
	return true
}

// ---------------------------------------------------------------------------------------- generator

type c03ProgGen struct {
	r        *Rng
	opts     int
	eg       *c03ExprGen
	nameN    int
	inFunc   bool
	inGen    bool
	inAsync  bool
	inLoop   bool
	inSw     bool
	inMeth   bool
	inStat   bool // inside a class static block: no return, no await
	modItems bool // the statement list being generated is the top level of a module
	forHead  bool // inside the head of a for statement (the initializers and computed keys inside a binding pattern are [+In] there too; rejected before 4c9b0c4)
	labels   []string
}

func c03NewProgGen(r *Rng, opts int) *c03ProgGen {
	g := &c03ProgGen{r: r, opts: opts}
	g.eg = &c03ExprGen{r: r, trailing: true, strictTargets: true}
	g.eg.raws = func(_ *c03ExprGen, depth int) *c03Gx { return g.rawPrimary(depth) }
	g.eg.rawsAssign = func(_ *c03ExprGen, depth int, in bool) *c03Gx { return g.rawAssign(depth, in) }
	g.eg.rawsUnary = func(_ *c03ExprGen, depth int, in bool) *c03Gx { return g.rawUnary(depth, in) }
	return g
}

func (g *c03ProgGen) fresh() string {
	g.nameN++
	return fmt.Sprintf("v%d", g.nameN)
}

var c03LitNames = []string{"p", "q", "'s'", "1", "if", "get", "static", "'a b'", "'12'", "2.5", "\"q\"", "''"}

func c03RawOf(p c03Piece) *c03Gx {
	return &c03Gx{kind: c03GxRaw, raw: p.toks, rawMode: p.mode, rawS: p.str}
}

// expr returns an expression derivable from nonterminal nt
func (g *c03ProgGen) expr(nt, depth int, in bool) c03Piece {
	e := g.eg.gen(nt, depth, in)
	ts := g.eg.toks(e)
	mode := make([]int8, len(ts)+1)
	c03MarkModes(e, 0, mode)
	return c03Piece{toks: ts, mode: mode[:len(ts)], str: e.str()}
}

// c03MarkModes fills the restricted positions of an expression tree (postfix operators, raw pieces)
func c03MarkModes(e *c03Gx, pos int, mode []int8) int {
	switch e.kind {
	case c03GxLeaf:
		return pos + 1
	case c03GxRaw:
		for i := range e.raw {
			if i < len(e.rawMode) {
				mode[pos+i] = e.rawMode[i]
			}
		}
		return pos + len(e.raw)
	case c03GxPostfix:
		p := c03MarkModes(e.kids[0], pos, mode)
		mode[p] = c03NoLT
		return p + 1
	case c03GxGroup:
		return c03MarkModes(e.kids[0], pos+1, mode) + 1
	case c03GxPrefix:
		return c03MarkModes(e.kids[0], pos+1, mode)
	case c03GxBinary:
		p := c03MarkModes(e.kids[0], pos, mode)
		return c03MarkModes(e.kids[1], p+1, mode)
	case c03GxCond:
		p := c03MarkModes(e.kids[0], pos, mode)
		p = c03MarkModes(e.kids[1], p+1, mode)
		return c03MarkModes(e.kids[2], p+1, mode)
	case c03GxDot:
		return c03MarkModes(e.kids[0], pos, mode) + 2
	case c03GxIndex:
		p := c03MarkModes(e.kids[0], pos, mode)
		return c03MarkModes(e.kids[1], p+1, mode) + 1
	case c03GxCall:
		p := c03MarkModes(e.kids[0], pos, mode) + 1
		for i, a := range e.kids[1:] {
			if i > 0 {
				p++
			}
			p = c03MarkModes(a, p, mode)
		}
		if e.trail {
			p++
		}
		return p + 1
	case c03GxComma:
		p := pos
		for i, a := range e.kids {
			if i > 0 {
				p++
			}
			p = c03MarkModes(a, p, mode)
		}
		return p
	}
	return pos
}

func c03Join(ps []c03Piece, sep string) string {
	var ss []string
	for _, p := range ps {
		ss = append(ss, p.str)
	}
	return strings.Join(ss, sep)
}

// ---- primaries outside the operator fragment

func (g *c03ProgGen) rawPrimary(depth int) *c03Gx {
	r := g.r
	switch r.Intn(9) {
	case 0: // array literal
		n := r.Intn(4)
		parts := []interface{}{"["}
		var strs []string
		for i := 0; i < n; i++ {
			if i > 0 {
				parts = append(parts, ",")
			}
			switch {
			case r.Chance(1, 6): // elision
				strs = append(strs, "")
			case r.Chance(1, 6):
				e := g.expr(c03NtAssignment, depth-1, true)
				parts = append(parts, "...", e)
				strs = append(strs, "..."+e.str)
			default:
				e := g.expr(c03NtAssignment, depth-1, true)
				parts = append(parts, e)
				strs = append(strs, e.str)
			}
		}
		s := "[" + strings.Join(strs, ", ")
		if n > 0 && strs[n-1] == "" {
			// a trailing elision needs its own comma
			parts = append(parts, ",")
			s += ","
		}
		parts = append(parts, "]")
		return c03RawOf(c03S(s+"]", parts...))
	case 1: // object literal
		n := r.Intn(4)
		parts := []interface{}{"{"}
		var strs []string
		for i := 0; i < n; i++ {
			if i > 0 {
				parts = append(parts, ",")
			}
			switch r.Intn(7) {
			case 0: // shorthand
				nm := []string{"a", "b", "c", "d"}[r.Intn(4)]
				parts = append(parts, nm)
				strs = append(strs, nm)
			case 1: // computed
				k := g.expr(c03NtAssignment, depth-1, true)
				v := g.expr(c03NtAssignment, depth-1, true)
				parts = append(parts, "[", k, "]", ":", v)
				strs = append(strs, c03PropName(k.str)+": "+v.str)
			case 2: // spread
				v := g.expr(c03NtAssignment, depth-1, true)
				parts = append(parts, "...", v)
				strs = append(strs, "..."+v.str)
			case 3: // method
				m := g.method(depth-1, false)
				parts = append(parts, m)
				strs = append(strs, m.str)
			default:
				nm := c03LitNames[r.Intn(len(c03LitNames))]
				v := g.expr(c03NtAssignment, depth-1, true)
				parts = append(parts, nm, ":", v)
				strs = append(strs, c03LitName(nm)+": "+v.str)
			}
		}
		if n > 0 && r.Chance(1, 5) {
			parts = append(parts, ",")
		}
		parts = append(parts, "}")
		return c03RawOf(c03S("{"+strings.Join(strs, ", ")+"}", parts...))
	case 2: // template literal, possibly over several lines
		texts := []string{"", "a", "x y", "l1\nl2", "\\n", "$", "{}", "a\n  b\n"}
		n := r.Intn(3)
		var sb strings.Builder
		var strb strings.Builder
		sb.WriteString("`" + texts[r.Intn(len(texts))])
		var exprs []c03Piece
		var chunks []string
		cur := sb.String()
		for i := 0; i < n; i++ {
			e := g.expr(c03NtExpression, depth-1, true)
			exprs = append(exprs, e)
			chunks = append(chunks, cur+"${")
			cur = "}" + texts[r.Intn(len(texts))]
		}
		chunks = append(chunks, cur+"`")
		var toks []c03Jtok
		var mode []int8
		for i, c := range chunks {
			ty := js.TemplateMiddleToken
			switch {
			case len(chunks) == 1:
				ty = js.TemplateToken
			case i == 0:
				ty = js.TemplateStartToken
			case i == len(chunks)-1:
				ty = js.TemplateEndToken
			}
			toks = append(toks, c03Jtok{ty: ty, data: []byte(c)})
			mode = append(mode, c03Free)
			strb.WriteString(c)
			if i < len(exprs) {
				toks = append(toks, exprs[i].toks...)
				mode = append(mode, exprs[i].mode...)
				strb.WriteString(exprs[i].str)
			}
		}
		return &c03Gx{kind: c03GxRaw, raw: toks, rawMode: mode, rawS: strb.String()}
	case 3: // function expression
		f := g.function(depth-1, r.Chance(1, 4), r.Chance(1, 4), r.Chance(1, 2), false)
		return c03RawOf(f)
	case 4: // class expression
		return c03RawOf(g.class(depth-1, r.Bool(), false))
	case 5: // new MemberExpression Arguments
		callee := g.newCallee(depth - 1)
		args, astr := g.args(depth - 1)
		if astr == "()" {
			return c03RawOf(c03S("(new "+callee.str+")", "new", callee, args))
		}
		return c03RawOf(c03S("(new "+callee.str+astr+")", "new", callee, args))
	case 6:
		if g.inFunc {
			return c03RawOf(c03S("(new.target)", "new . target"))
		}
		if g.opts&2 != 0 {
			return nil
		}
		return c03RawOf(c03S("(import.meta)", "import . meta"))
	case 7: // dynamic import
		e := g.expr(c03NtAssignment, depth-1, true)
		return c03RawOf(c03S("(import("+e.str+"))", "import (", e, ")"))
	default: // tagged template
		tag := []string{"a", "b", "f"}[r.Intn(3)]
		return c03RawOf(c03S(tag+"`x`", tag, c03Jtok{ty: js.TemplateToken, data: []byte("`x`")}))
	}
}

// c03LitName: the expected rendering of a literal property name.  A string literal whose value is an
// IdentifierName or a canonical decimal number names the same property as that identifier / number, and the
// parser stores it that way; any other string stays a string.
func c03LitName(lit string) string {
	if len(lit) >= 2 && (lit[0] == '\'' || lit[0] == '"') {
		v := lit[1 : len(lit)-1]
		if js.AsIdentifierName([]byte(v)) {
			return v
		}
		if c03CanonicalNumber(v) {
			return v
		}
	}
	return lit
}

// c03CanonicalNumber: v is what Number::toString gives for a non-negative integer or simple decimal (so that
// the property key of the numeric literal v is the string v)
func c03CanonicalNumber(v string) bool {
	if v == "0" {
		return true
	}
	if len(v) == 0 || v[0] < '1' || v[0] > '9' {
		return false
	}
	i := 0
	for i < len(v) && v[i] >= '0' && v[i] <= '9' {
		i++
	}
	if i == len(v) {
		return len(v) <= 15
	}
	if v[i] != '.' || i+1 == len(v) || v[len(v)-1] == '0' {
		return false
	}
	for j := i + 1; j < len(v); j++ {
		if v[j] < '0' || v[j] > '9' {
			return false
		}
	}
	return len(v) <= 15
}

// newCallee: a MemberExpression that may follow `new`
func (g *c03ProgGen) newCallee(depth int) c03Piece {
	if depth > 0 && g.r.Chance(1, 4) {
		e := g.expr(c03NtExpression, depth-1, true)
		return c03S("("+e.str+")", "(", e, ")")
	}
	e := g.eg.target(depth, true)
	ts := g.eg.toks(e)
	return c03Piece{toks: ts, mode: make([]int8, len(ts)), str: e.str()}
}

// PropertyName.String() of a computed name
func c03PropName(v string) string {
	if len(v) > 0 && v[0] == '(' {
		return "[" + v[1:len(v)-1] + "]"
	}
	return "[" + v + "]"
}

// constructs at AssignmentExpression level: arrow functions, yield
func (g *c03ProgGen) rawAssign(depth int, in bool) *c03Gx {
	r := g.r
	if g.inGen && r.Chance(1, 3) {
		switch r.Intn(3) {
		case 0:
			return c03RawOf(c03S("(yield)", "yield"))
		case 1:
			e := g.expr(c03NtAssignment, depth-1, in)
			return c03RawOf(c03S("(yield "+e.str+")", "yield", c03NoLT, e))
		default:
			e := g.expr(c03NtAssignment, depth-1, in)
			return c03RawOf(c03S("(yield* "+e.str+")", "yield", c03NoLT, "*", e))
		}
	}
	return c03RawOf(g.arrow(depth-1, in))
}

// constructs at UnaryExpression level: await, optional chains
func (g *c03ProgGen) rawUnary(depth int, in bool) *c03Gx {
	r := g.r
	if (g.inAsync || !g.inFunc) && !g.inStat && r.Chance(1, 3) {
		e := g.expr(c03NtUnary, depth-1, in)
		return c03RawOf(c03S("(await "+e.str+")", "await", e))
	}
	if r.Chance(1, 4) {
		// NewExpression without arguments (cannot be followed by a call or member access)
		callee := g.newCallee(depth - 1)
		if r.Chance(1, 3) {
			return c03RawOf(c03S("(new (new "+callee.str+"))", "new new", callee))
		}
		return c03RawOf(c03S("(new "+callee.str+")", "new", callee))
	}
	// optional chain
	e := g.expr(c03NtLHS, depth-1, in)
	if e.first() == js.OpenBraceToken || e.first() == js.FunctionToken || e.first() == js.ClassToken {
		return nil
	}
	cur := e
	for n := 1 + r.Intn(2); n > 0; n-- {
		switch r.Intn(3) {
		case 0:
			cur = c03S("("+cur.str+"?.p)", cur, "?.", "p")
		case 1:
			i := g.expr(c03NtExpression, depth-1, true)
			cur = c03S("("+cur.str+"?.["+i.str+"])", cur, "?.", "[", i, "]")
		default:
			a, astr := g.args(depth - 1)
			cur = c03S("("+cur.str+"?."+astr+")", cur, "?.", a)
		}
	}
	return c03RawOf(cur)
}

// args returns `( ... )` and Args.String()
func (g *c03ProgGen) args(depth int) (c03Piece, string) {
	r := g.r
	n := r.Intn(3)
	parts := []interface{}{"("}
	var strs []string
	for i := 0; i < n; i++ {
		if i > 0 {
			parts = append(parts, ",")
		}
		e := g.expr(c03NtAssignment, depth, true)
		if r.Chance(1, 5) {
			parts = append(parts, "...", e)
			strs = append(strs, "..."+e.str)
		} else {
			parts = append(parts, e)
			strs = append(strs, e.str)
		}
	}
	if n > 0 && r.Chance(1, 6) {
		parts = append(parts, ",")
	}
	parts = append(parts, ")")
	return c03B(parts...), "(" + strings.Join(strs, ", ") + ")"
}

// ---- bindings

// binding returns a BindingIdentifier or pattern and IBinding.String(); names collects the bound names
func (g *c03ProgGen) binding(depth int, names *[]string) c03Piece {
	r := g.r
	if depth <= 0 || r.Chance(3, 5) {
		nm := g.fresh()
		*names = append(*names, nm)
		return c03S(nm, nm)
	}
	if r.Bool() { // array pattern
		n := 1 + r.Intn(3)
		parts := []interface{}{"["}
		var strs []string
		rest := ""
		lastHole := false
		for i := 0; i < n; i++ {
			if i > 0 {
				parts = append(parts, ",")
			}
			lastHole = false
			if i < n-1 && r.Chance(1, 6) {
				strs = append(strs, " Binding()")
				continue
			}
			if i == n-1 && r.Chance(1, 4) {
				b := g.binding(depth-1, names)
				parts = append(parts, "...", b)
				rest = b.str
				continue
			}
			be := g.bindingElement(depth-1, names)
			parts = append(parts, be)
			strs = append(strs, " "+be.str)
		}
		s := "[" + strings.Join(strs, ",")
		if rest != "" {
			if len(strs) != 0 {
				s += ","
			}
			s += " ...Binding(" + rest + ")"
		} else if lastHole {
			parts = append(parts, ",")
			s += ","
		}
		parts = append(parts, "]")
		return c03S(s+" ]", parts...)
	}
	// object pattern
	n := 1 + r.Intn(3)
	parts := []interface{}{"{"}
	var strs []string
	rest := ""
	for i := 0; i < n; i++ {
		if i > 0 {
			parts = append(parts, ",")
		}
		switch {
		case i == n-1 && r.Chance(1, 4):
			nm := g.fresh()
			*names = append(*names, nm)
			parts = append(parts, "...", nm)
			rest = nm
		case r.Chance(1, 3): // shorthand, maybe with default
			nm := g.fresh()
			*names = append(*names, nm)
			if r.Chance(1, 3) {
				d := g.expr(c03NtAssignment, depth-1, true)
				parts = append(parts, nm, "=", d)
				strs = append(strs, " Binding("+nm+" = "+d.str+")")
			} else {
				parts = append(parts, nm)
				strs = append(strs, " Binding("+nm+")")
			}
		case r.Chance(1, 4): // computed key
			k := g.expr(c03NtAssignment, depth-1, true)
			be := g.bindingElement(depth-1, names)
			parts = append(parts, "[", k, "]", ":", be)
			strs = append(strs, " "+c03PropName(k.str)+": "+be.str)
		default:
			key := c03LitNames[r.Intn(len(c03LitNames))]
			be := g.bindingElement(depth-1, names)
			parts = append(parts, key, ":", be)
			strs = append(strs, " "+c03LitName(key)+": "+be.str)
		}
	}
	s := "{" + strings.Join(strs, ",")
	if rest != "" {
		if len(strs) != 0 {
			s += ","
		}
		s += " ...Binding(" + rest + ")"
	} else if r.Chance(1, 6) {
		parts = append(parts, ",")
	}
	parts = append(parts, "}")
	return c03S(s+" }", parts...)
}

func (g *c03ProgGen) bindingElement(depth int, names *[]string) c03Piece {
	b := g.binding(depth, names)
	if g.r.Chance(1, 3) {
		d := g.expr(c03NtAssignment, depth-1, true)
		return c03S("Binding("+b.str+" = "+d.str+")", b, "=", d)
	}
	return c03S("Binding("+b.str+")", b)
}

// params returns `( ... )` and Params.String()
func (g *c03ProgGen) params(depth int) (c03Piece, string) {
	r := g.r
	n := r.Intn(3)
	parts := []interface{}{"("}
	var strs []string
	var names []string
	rest := ""
	for i := 0; i < n; i++ {
		if i > 0 {
			parts = append(parts, ",")
		}
		if i == n-1 && r.Chance(1, 4) {
			b := g.binding(depth-1, &names)
			parts = append(parts, "...", b)
			rest = b.str
			continue
		}
		be := g.bindingElement(depth-1, &names)
		parts = append(parts, be)
		strs = append(strs, be.str)
	}
	s := "Params(" + strings.Join(strs, ", ")
	if rest != "" {
		if len(strs) != 0 {
			s += ", "
		}
		s += "...Binding(" + rest + ")"
	} else if n > 0 && r.Chance(1, 6) {
		parts = append(parts, ",")
	}
	parts = append(parts, ")")
	return c03B(parts...), s + ")"
}

// ---- functions and classes

type c03Ctx struct {
	inFunc, inGen, inAsync, inLoop, inSw, inMeth, inStat, forHead bool
	labels                                                        []string
}

func (g *c03ProgGen) save() c03Ctx {
	return c03Ctx{g.inFunc, g.inGen, g.inAsync, g.inLoop, g.inSw, g.inMeth, g.inStat, g.forHead, g.labels}
}
func (g *c03ProgGen) restore(c c03Ctx) {
	g.inFunc, g.inGen, g.inAsync, g.inLoop, g.inSw, g.inMeth, g.inStat, g.forHead, g.labels = c.inFunc, c.inGen, c.inAsync, c.inLoop, c.inSw, c.inMeth, c.inStat, c.forHead, c.labels
}

// body returns `{ statements }` of a function and BlockStmt.String()
func (g *c03ProgGen) body(depth int, async, gen, meth bool) c03Piece {
	c := g.save()
	g.inFunc, g.inAsync, g.inGen, g.inLoop, g.inSw, g.labels = true, async, gen, false, false, nil
	g.inMeth, g.inStat, g.forHead = meth, false, false
	b := g.block(depth)
	g.restore(c)
	return b
}

// function: declaration (named) or expression
func (g *c03ProgGen) function(depth int, async, gen, named, decl bool) c03Piece {
	parts := []interface{}{}
	s := "Decl("
	if async {
		parts = append(parts, "async", c03NoLT)
		s += "async function"
	} else {
		s += "function"
	}
	parts = append(parts, "function")
	if gen {
		parts = append(parts, "*")
		s += "*"
	}
	if named || decl {
		nm := g.fresh()
		parts = append(parts, nm)
		s += " " + nm
	}
	c := g.save()
	g.inFunc, g.inAsync, g.inGen = true, false, false
	ps, pstr := g.params(depth)
	g.restore(c)
	b := g.body(depth, async, gen, false)
	parts = append(parts, ps, b)
	return c03S(s+" "+pstr+" "+b.str+")", parts...)
}

func (g *c03ProgGen) arrow(depth int, in bool) c03Piece {
	r := g.r
	async := r.Chance(1, 4)
	parts := []interface{}{}
	s := "("
	if async {
		parts = append(parts, "async", c03NoLT)
		s += "async "
	}
	var pstr string
	c := g.save()
	g.inFunc, g.inAsync, g.inGen = true, false, false
	if r.Chance(1, 3) {
		nm := g.fresh()
		parts = append(parts, nm)
		pstr = "Params(Binding(" + nm + "))"
	} else {
		var ps c03Piece
		ps, pstr = g.params(depth)
		parts = append(parts, ps)
	}
	g.restore(c)
	parts = append(parts, c03NoLT, "=>")
	if r.Bool() {
		b := g.body(depth, async, false, g.inMeth)
		parts = append(parts, b)
		return c03S(s+pstr+" => "+b.str+")", parts...)
	}
	c = g.save()
	g.inFunc, g.inAsync, g.inGen = true, async, false
	e := g.expr(c03NtAssignment, depth, in)
	g.restore(c)
	if e.first() == js.OpenBraceToken {
		e = c03S("("+e.str+")", "(", e, ")")
	}
	parts = append(parts, e)
	return c03S(s+pstr+" => Stmt({ Stmt(return "+e.str+") }))", parts...)
}

// method: `[static] [async] [*] [get|set] name (params) { body }` and MethodDecl.String()
func (g *c03ProgGen) method(depth int, static bool) c03Piece {
	r := g.r
	parts := []interface{}{}
	s := ""
	if static {
		parts = append(parts, "static")
		s += " static"
	}
	async, gen, get, set := false, false, false, false
	switch r.Intn(6) {
	case 0:
		async = true
	case 1:
		gen = true
	case 2:
		get = true
	case 3:
		set = true
	case 4:
		async, gen = true, true
	}
	if async {
		parts = append(parts, "async", c03NoLT)
		s += " async"
	}
	if gen {
		parts = append(parts, "*")
		s += " *"
	}
	if get {
		parts = append(parts, "get")
		s += " get"
	}
	if set {
		parts = append(parts, "set")
		s += " set"
	}
	name, nstr := g.propName(depth)
	parts = append(parts, name)
	var ps c03Piece
	var pstr string
	c := g.save()
	g.inFunc, g.inAsync, g.inGen = true, false, false
	switch {
	case get:
		ps, pstr = c03B("(", ")"), "Params()"
	case set:
		nm := g.fresh()
		ps, pstr = c03B("(", nm, ")"), "Params(Binding("+nm+"))"
	default:
		ps, pstr = g.params(depth)
	}
	g.restore(c)
	b := g.body(depth, async, gen, true)
	parts = append(parts, ps, b)
	s += " " + nstr + " " + pstr + " " + b.str
	return c03S("Method("+s[1:]+")", parts...)
}

func (g *c03ProgGen) propName(depth int) (c03Piece, string) {
	r := g.r
	if depth > 0 && r.Chance(1, 5) {
		k := g.expr(c03NtAssignment, depth-1, true)
		return c03B("[", k, "]"), c03PropName(k.str)
	}
	nm := []string{"m", "p", "'s'", "3", "if", "get", "set", "static", "async", "of", "'a b'", "'12'"}[r.Intn(12)]
	return c03B(nm), c03LitName(nm)
}

func (g *c03ProgGen) class(depth int, named, decl bool) c03Piece {
	r := g.r
	parts := []interface{}{"class"}
	s := "Decl(class"
	if named || decl {
		nm := g.fresh()
		parts = append(parts, nm)
		s += " " + nm
	}
	if r.Chance(1, 3) {
		e := g.expr(c03NtLHS, depth-1, true)
		if e.first() != js.OpenBraceToken {
			parts = append(parts, "extends", e)
			s += " extends " + e.str
		}
	}
	parts = append(parts, "{")
	for n := r.Intn(4); n > 0; n-- {
		static := r.Chance(1, 4)
		switch r.Intn(4) {
		case 0: // field
			nm := []string{"f", "#" + g.fresh(), "'s'", "5", "h", "'a b'", "async", "async"}[r.Intn(8)]
			fs := "Field("
			if static {
				parts = append(parts, "static")
				fs += "static "
			}
			parts = append(parts, nm)
			fs += c03LitName(nm)
			init := r.Bool()
			if init {
				c := g.save()
				g.inFunc, g.inAsync, g.inGen = true, false, false
				e := g.expr(c03NtAssignment, depth-1, true)
				g.restore(c)
				parts = append(parts, "=", e)
				fs += " = " + e.str
			}
			if !init && r.Chance(1, 2) {
				// no ';': the field ends at the line break (automatic semicolon insertion; for `async` the line break is
				// what makes it a name: `async [no LineTerminator here] m(){}` would be an async method)
				parts = append(parts, c03MustLT)
			} else {
				parts = append(parts, ";")
			}
			s += " " + fs + ")"
		case 1: // static block (or a private getter / setter pair: the one way a private name is declared twice)
			if r.Chance(1, 3) {
				pn := "#" + g.fresh()
				vn := g.fresh()
				st, sts := "", ""
				if static {
					st, sts = "static ", "static "
				}
				gb := g.body(depth-1, false, false, true)
				sb := g.body(depth-1, false, false, true)
				getter := c03S("Method("+sts+"get "+pn+" Params() "+gb.str+")", st+"get", pn, "(", ")", gb)
				setter := c03S("Method("+sts+"set "+pn+" Params(Binding("+vn+")) "+sb.str+")", st+"set", pn, "(", vn, ")", sb)
				if r.Bool() {
					getter, setter = setter, getter
				}
				parts = append(parts, getter, setter)
				s += " " + getter.str + " " + setter.str
				break
			}
			sv := g.save()
			g.inFunc, g.inAsync, g.inGen, g.inLoop, g.inSw, g.labels, g.inStat = true, false, false, false, false, nil, true
			b := g.block(depth - 1)
			g.restore(sv)
			parts = append(parts, "static", b)
			s += " Static(" + b.str + ")"
		default:
			m := g.method(depth-1, static)
			parts = append(parts, m)
			s += " " + m.str
			if r.Chance(1, 5) {
				parts = append(parts, ";")
			}
		}
	}
	parts = append(parts, "}")
	return c03S(s+")", parts...)
}

// ---- statements

// block returns `{ ... }` and BlockStmt.String()
func (g *c03ProgGen) block(depth int) c03Piece {
	n := g.r.Intn(3)
	if depth <= 0 {
		n = g.r.Intn(2)
	}
	list := g.stmtList(depth-1, n, true)
	return c03S("Stmt({"+c03Prefixed(list.str)+" })", "{", list, "}")
}

func c03Prefixed(s string) string {
	if s == "" {
		return ""
	}
	return " " + s
}

// c03StartsContinuation: a statement starting with such a token would continue the previous expression
func c03StartsContinuation(t js.TokenType) bool {
	switch t {
	case js.OpenParenToken, js.OpenBracketToken, js.AddToken, js.SubToken, js.DivToken, js.DivEqToken,
		js.TemplateToken, js.TemplateStartToken, js.MulToken, js.DotToken, js.OptChainToken, js.LtToken,
		js.InToken, js.InstanceofToken, js.IncrToken, js.DecrToken:
		return true
	}
	return false
}

type c03Stmt struct {
	p       c03Piece
	needEnd bool // ends with an expression / keyword: needs ';', a line break, '}' or the end of input after it
	openIf  bool // ends with an `if` that has no `else` (a following `else` would attach to it)
}

// stmtList: n statements joined with ';' or line breaks (automatic semicolon insertion).  braceFollows: a '}' or
// the end of input follows the list, so the last statement needs no terminator of its own.
func (g *c03ProgGen) stmtList(depth, n int, braceFollows bool) c03Piece {
	var sts []c03Stmt
	top := g.modItems
	g.modItems = false
	for i := 0; i < n; i++ {
		if top && g.r.Chance(1, 2) {
			sts = append(sts, g.moduleItem(depth))
		} else {
			sts = append(sts, g.stmt(depth))
		}
	}
	var out c03Piece
	var strs []string
	for i, st := range sts {
		p := st.p
		if i > 0 && sts[i-1].needEnd {
			prev := &out
			// (a ';' after the line break would be the terminator of the previous statement, not an EmptyStatement)
			asi := g.r.Chance(1, 3) && !c03StartsContinuation(p.first()) && len(p.toks) > 0 && p.first() != js.SemicolonToken
			if asi {
				p = c03B(int8(c03MustLT), p)
			} else {
				*prev = c03B(*prev, ";")
			}
		}
		out = c03B(out, p)
		strs = append(strs, st.p.str)
	}
	if n > 0 && sts[n-1].needEnd && !(braceFollows && g.r.Bool()) {
		out = c03B(out, ";")
	}
	out.str = strings.Join(strs, " ")
	return out
}

func (g *c03ProgGen) stmt(depth int) c03Stmt {
	r := g.r
	k := r.Intn(20)
	if depth <= 0 && k >= 6 && k <= 15 {
		k = r.Intn(6)
	}
	switch k {
	case 6: // if
		c := g.expr(c03NtExpression, depth-1, true)
		b := g.subStmt(depth - 1)
		if r.Bool() {
			for b.openIf {
				b = g.subStmt(depth - 1)
			}
			e := g.subStmt(depth - 1)
			return c03Stmt{c03S("Stmt(if "+c.str+" "+b.p.str+" else "+e.p.str+")", "if (", c, ")", g.closed(b), "else", e.p), e.needEnd, e.openIf}
		}
		return c03Stmt{c03S("Stmt(if "+c.str+" "+b.p.str+")", "if (", c, ")", b.p), b.needEnd, true}
	case 7: // while
		c := g.expr(c03NtExpression, depth-1, true)
		b := g.loopBody(depth - 1)
		if g.opts&1 != 0 {
			bs := b.p.str
			if !strings.HasPrefix(bs, "Stmt({") || b.p.first() != js.OpenBraceToken {
				bs = "Stmt({ " + bs + " })"
			}
			return c03Stmt{c03S("Stmt(for ; "+c.str+" ; "+bs+")", "while (", c, ")", b.p), b.needEnd, b.openIf}
		}
		return c03Stmt{c03S("Stmt(while "+c.str+" "+b.p.str+")", "while (", c, ")", b.p), b.needEnd, b.openIf}
	case 8: // do-while
		b := g.loopBody(depth - 1)
		c := g.expr(c03NtExpression, depth-1, true)
		// `do S while ( E ) ;` : the ';' is part of the statement (it may be left out: automatic semicolon insertion
		// after the ')' even on the same line, see c03FixedPrograms); without it the statement list adds a terminator
		if r.Bool() {
			return c03Stmt{c03S("Stmt(do "+b.p.str+" while "+c.str+")", "do", g.closed(b), "while (", c, ")", ";"), false, false}
		}
		return c03Stmt{c03S("Stmt(do "+b.p.str+" while "+c.str+")", "do", g.closed(b), "while (", c, ")"), true, false}
	case 9: // for
		return g.forStmt(depth)
	case 10: // switch
		c := g.expr(c03NtExpression, depth-1, true)
		parts := []interface{}{"switch (", c, ") {"}
		s := "Stmt(switch " + c.str
		sv := g.save()
		g.inSw = true
		hasDefault := false
		for n := r.Intn(3); n > 0; n-- {
			if !hasDefault && r.Chance(1, 3) {
				hasDefault = true
				l := g.stmtList(depth-1, r.Intn(2), false)
				parts = append(parts, "default :", l)
				s += " Clause(default" + c03Prefixed(l.str) + ")"
			} else {
				e := g.expr(c03NtExpression, depth-1, true)
				l := g.stmtList(depth-1, r.Intn(2), false)
				parts = append(parts, "case", e, ":", l)
				s += " Clause(case " + e.str + c03Prefixed(l.str) + ")"
			}
		}
		g.restore(sv)
		parts = append(parts, "}")
		return c03Stmt{c03S(s+")", parts...), false, false}
	case 11: // try
		b := g.block(depth - 1)
		parts := []interface{}{"try", b}
		s := "Stmt(try " + b.str
		mode := r.Intn(3)
		if mode != 2 {
			parts = append(parts, "catch")
			s += " catch"
			if r.Bool() {
				var names []string
				bd := g.binding(depth-1, &names)
				parts = append(parts, "(", bd, ")")
				s += " Binding(" + bd.str + ")"
			}
			cb := g.block(depth - 1)
			parts = append(parts, cb)
			s += " " + cb.str
		}
		if mode != 0 {
			fb := g.block(depth - 1)
			parts = append(parts, "finally", fb)
			s += " finally " + fb.str
		}
		return c03Stmt{c03S(s+")", parts...), false, false}
	case 12: // labelled statement
		lb := g.fresh()
		sv := g.save()
		g.labels = append(append([]string{}, g.labels...), lb)
		b := g.subStmt(depth - 1)
		g.restore(sv)
		return c03Stmt{c03S("Stmt("+lb+" : "+b.p.str+")", lb, ":", b.p), b.needEnd, b.openIf}
	case 13: // block
		return c03Stmt{g.block(depth - 1), false, false}
	case 14: // function declaration
		return c03Stmt{g.function(depth-1, r.Chance(1, 4), r.Chance(1, 4), true, true), false, false}
	case 15: // class declaration
		return c03Stmt{g.class(depth-1, true, true), false, false}
	case 0, 1: // variable declaration
		return g.varDecl(depth, true)
	case 2: // empty / debugger
		if r.Bool() {
			return c03Stmt{c03S("Stmt()", ";"), false, false}
		}
		return c03Stmt{c03S("Stmt(debugger)", "debugger"), true, false}
	case 3: // return / throw
		if g.inFunc && !g.inStat && r.Bool() {
			if r.Chance(1, 3) {
				return c03Stmt{c03S("Stmt(return)", "return"), true, false}
			}
			e := g.expr(c03NtExpression, depth, true)
			return c03Stmt{c03S("Stmt(return "+e.str+")", "return", c03NoLT, e), true, false}
		}
		e := g.expr(c03NtExpression, depth, true)
		return c03Stmt{c03S("Stmt(throw "+e.str+")", "throw", c03NoLT, e), true, false}
	case 4: // break / continue
		if g.inLoop && r.Bool() {
			if len(g.labels) > 0 && r.Bool() {
				return c03Stmt{c03S("Stmt(break "+g.labels[0]+")", "break", c03NoLT, g.labels[0]), true, false}
			}
			if r.Bool() {
				return c03Stmt{c03S("Stmt(continue)", "continue"), true, false}
			}
			return c03Stmt{c03S("Stmt(break)", "break"), true, false}
		}
		if g.inSw {
			return c03Stmt{c03S("Stmt(break)", "break"), true, false}
		}
		fallthrough
	default: // expression statement
		for try := 0; try < 20; try++ {
			e := g.expr(c03NtExpression, depth, true)
			switch e.first() {
			case js.OpenBraceToken, js.FunctionToken, js.ClassToken, js.AsyncToken, js.LetToken, js.ImportToken:
				continue
			}
			if len(e.toks) > 1 && e.toks[1].ty == js.ColonToken {
				continue
			}
			return c03Stmt{c03S(c03ExprStmtString(e.str), e), true, false}
		}
		return c03Stmt{c03S("Stmt(a)", "a"), true, false}
	}
}

// closed: a statement followed by `else` / `while` inside a statement needs its own terminator
func (g *c03ProgGen) closed(s c03Stmt) c03Piece {
	if s.needEnd {
		return c03B(s.p, ";")
	}
	return s.p
}

// subStmt: the body of if / label (no declarations)
func (g *c03ProgGen) subStmt(depth int) c03Stmt {
	for {
		s := g.stmt(depth)
		switch s.p.first() {
		case js.LetToken, js.ConstToken, js.ClassToken, js.FunctionToken, js.AsyncToken:
			continue
		}
		if strings.HasPrefix(s.p.str, "Stmt(v") && strings.Contains(s.p.str, " : ") && len(s.p.toks) > 1 && s.p.toks[1].ty == js.ColonToken {
			// a labelled function declaration would be an error in strict code; plain labels are fine
		}
		return s
	}
}

func (g *c03ProgGen) loopBody(depth int) c03Stmt {
	sv := g.save()
	g.inLoop = true
	s := g.subStmt(depth)
	g.restore(sv)
	return s
}

func (g *c03ProgGen) varDecl(depth int, in bool) c03Stmt {
	r := g.r
	kw := []string{"var", "let", "const"}[r.Intn(3)]
	n := 1 + r.Intn(2)
	parts := []interface{}{kw}
	s := "Decl(" + kw
	var names []string
	for i := 0; i < n; i++ {
		if i > 0 {
			parts = append(parts, ",")
		}
		b := g.binding(depth-1, &names)
		pattern := b.first() == js.OpenBraceToken || b.first() == js.OpenBracketToken
		if kw == "const" || pattern || r.Bool() {
			e := g.expr(c03NtAssignment, depth-1, in)
			parts = append(parts, b, "=", e)
			s += " Binding(" + b.str + " = " + e.str + ")"
		} else {
			parts = append(parts, b)
			s += " Binding(" + b.str + ")"
		}
	}
	return c03Stmt{c03S(s+")", parts...), true, false}
}

func (g *c03ProgGen) forBody(depth int) (c03Piece, string, bool, bool) {
	b := g.loopBody(depth)
	// ForStmt.Body is always a block holding the statement(s)
	if b.p.first() == js.OpenBraceToken && strings.HasPrefix(b.p.str, "Stmt({") {
		return b.p, b.p.str, false, false
	}
	if len(b.p.toks) == 1 && b.p.toks[0].ty == js.SemicolonToken {
		return b.p, "Stmt({ })", false, false
	}
	return b.p, "Stmt({ " + b.p.str + " })", b.needEnd, b.openIf
}

func (g *c03ProgGen) forStmt(depth int) c03Stmt {
	r := g.r
	switch r.Intn(4) {
	case 0: // for (init; cond; post)
		parts := []interface{}{"for ("}
		s := "Stmt(for"
		switch r.Intn(3) {
		case 0:
			g.forHead = true
			d := g.varDecl(depth-1, false)
			g.forHead = false
			parts = append(parts, d.p)
			s += " " + d.p.str
		case 1:
			e := g.expr(c03NtExpression, depth-1, false)
			if e.first() != js.LetToken && e.first() != js.OpenBraceToken {
				parts = append(parts, e)
				s += " " + e.str
			}
		}
		parts = append(parts, ";")
		s += " ;"
		if r.Bool() {
			e := g.expr(c03NtExpression, depth-1, true)
			parts = append(parts, e)
			s += " " + e.str
		}
		parts = append(parts, ";")
		s += " ;"
		if r.Bool() {
			e := g.expr(c03NtExpression, depth-1, true)
			parts = append(parts, e)
			s += " " + e.str
		}
		parts = append(parts, ")")
		b, bs, ne, oi := g.forBody(depth - 1)
		parts = append(parts, b)
		return c03Stmt{c03S(s+" "+bs+")", parts...), ne, oi}
	case 1, 2: // for (decl in/of expr)
		of := r.Bool()
		kw := []string{"var", "let", "const"}[r.Intn(3)]
		var names []string
		g.forHead = true
		bd := g.binding(depth-1, &names)
		g.forHead = false
		parts := []interface{}{"for"}
		s := "Stmt(for"
		await := of && (g.inAsync || !g.inFunc) && r.Chance(1, 4)
		if await {
			parts = append(parts, "await")
			s += " await"
		}
		parts = append(parts, "(", kw, bd)
		s += " Decl(" + kw + " Binding(" + bd.str + "))"
		var e c03Piece
		if of {
			e = g.expr(c03NtAssignment, depth-1, true)
			parts = append(parts, "of", e, ")")
			s += " of " + e.str
		} else {
			e = g.expr(c03NtExpression, depth-1, true)
			parts = append(parts, "in", e, ")")
			s += " in " + e.str
		}
		b, bs, ne, oi := g.forBody(depth - 1)
		parts = append(parts, b)
		return c03Stmt{c03S(s+" "+bs+")", parts...), ne, oi}
	default: // for (lhs in/of expr)
		of := r.Bool()
		t := []string{"a", "b.p", "c[0]"}[r.Intn(3)]
		ts := map[string]string{"a": "a", "b.p": "(b.p)", "c[0]": "(c[0])"}[t]
		parts := []interface{}{"for (", t}
		s := "Stmt(for " + ts
		if of {
			e := g.expr(c03NtAssignment, depth-1, true)
			parts = append(parts, "of", e, ")")
			s += " of " + e.str
		} else {
			e := g.expr(c03NtExpression, depth-1, true)
			parts = append(parts, "in", e, ")")
			s += " in " + e.str
		}
		b, bs, ne, oi := g.forBody(depth - 1)
		parts = append(parts, b)
		return c03Stmt{c03S(s+" "+bs+")", parts...), ne, oi}
	}
}

// moduleItem: import / export declarations (module code only)
func (g *c03ProgGen) moduleItem(depth int) c03Stmt {
	r := g.r
	mod := []string{"\"m\"", "'./x.js'"}[r.Intn(2)]
	specs := func(imp bool) (c03Piece, string) {
		n := r.Intn(3)
		parts := []interface{}{"{"}
		var strs []string
		for i := 0; i < n; i++ {
			if i > 0 {
				parts = append(parts, ",")
			}
			ext := []string{"e1", "e2", "default", "if"}[r.Intn(4)]
			if imp {
				loc := g.fresh()
				if r.Bool() && ext != "default" && ext != "if" {
					loc = g.fresh()
					parts = append(parts, loc)
					strs = append(strs, loc)
				} else {
					parts = append(parts, ext, "as", loc)
					strs = append(strs, ext+" as "+loc)
				}
			} else {
				loc := []string{"a", "b", "c"}[r.Intn(3)]
				if r.Bool() {
					parts = append(parts, loc)
					strs = append(strs, loc)
				} else {
					parts = append(parts, loc, "as", ext)
					strs = append(strs, loc+" as "+ext)
				}
			}
		}
		tail := ""
		if n > 0 && r.Chance(1, 5) {
			// ImportStmt/ExportStmt.String() shows a trailing comma of the specifier list
			parts = append(parts, ",")
			tail = " ,"
		}
		parts = append(parts, "}")
		if n == 0 {
			return c03B(parts...), ""
		}
		return c03B(parts...), " { " + strings.Join(strs, " , ") + tail + " }"
	}
	switch r.Intn(10) {
	case 0:
		return c03Stmt{c03S("Stmt(import "+mod+")", "import", mod), true, false}
	case 1:
		nm := g.fresh()
		return c03Stmt{c03S("Stmt(import "+nm+" from "+mod+")", "import", nm, "from", mod), true, false}
	case 2:
		nm := g.fresh()
		return c03Stmt{c03S("Stmt(import * as "+nm+" from "+mod+")", "import * as", nm, "from", mod), true, false}
	case 3:
		sp, ss := specs(true)
		if ss == "" {
			ss = " { }"
		}
		return c03Stmt{c03S("Stmt(import"+ss+" from "+mod+")", "import", sp, "from", mod), true, false}
	case 4:
		nm := g.fresh()
		sp, ss := specs(true)
		if ss == "" {
			ss = " { }"
		}
		return c03Stmt{c03S("Stmt(import "+nm+" ,"+ss+" from "+mod+")", "import", nm, ",", sp, "from", mod), true, false}
	case 5:
		sp, ss := specs(false)
		if r.Bool() {
			return c03Stmt{c03S("Stmt(export"+ss+" from "+mod+")", "export", sp, "from", mod), true, false}
		}
		return c03Stmt{c03S("Stmt(export"+ss+")", "export", sp), true, false}
	case 6:
		if r.Bool() {
			return c03Stmt{c03S("Stmt(export * from "+mod+")", "export * from", mod), true, false}
		}
		return c03Stmt{c03S("Stmt(export * as ns from "+mod+")", "export * as ns from", mod), true, false}
	case 7:
		d := g.varDecl(depth, true)
		return c03Stmt{c03S("Stmt(export "+d.p.str+")", "export", d.p), true, false}
	case 8:
		// export [default] function / class declaration: not terminated by ';' — a ';' after it, on the same or on the
		// next line, is an EmptyStatement (dropped before def2553)
		deflt := r.Chance(1, 3)
		named := !deflt || r.Bool()
		var d c03Piece
		if r.Bool() {
			d = g.function(depth-1, r.Chance(1, 4), r.Chance(1, 4), named, false)
		} else {
			d = g.class(depth-1, named, false)
		}
		parts := []interface{}{"export"}
		str := "Stmt(export "
		if deflt {
			parts = append(parts, "default")
			str += "default "
		}
		parts = append(parts, d)
		str += d.str + ")"
		switch r.Intn(4) {
		case 0:
			parts = append(parts, c03NoLT, ";")
			str += " Stmt()"
		case 1:
			parts = append(parts, c03MustLT, ";")
			str += " Stmt()"
		}
		return c03Stmt{c03S(str, parts...), false, false}
	default:
		for {
			e := g.expr(c03NtAssignment, depth, true)
			switch e.first() {
			case js.FunctionToken, js.ClassToken, js.AsyncToken:
				continue
			}
			return c03Stmt{c03S("Stmt(export default "+e.str+")", "export default", e), true, false}
		}
	}
}

// program: module items
func (g *c03ProgGen) program(n, depth int) c03Piece {
	if g.opts&2 == 0 && g.r.Chance(1, 3) {
		// a module: import / export declarations between the statements
		g.modItems = true
	}
	p := g.stmtList(depth, n, true)
	g.modItems = false
	return p
}

// c03WholeLanguage: programs over the whole statement / declaration / function / class grammar.
func c03WholeLanguage(r *Rng, tier string, rep *Report) {
	n := 4000
	if tier == "thorough" {
		n = 200000
	}
	for i := 0; i < n; i++ {
		o := r.Intn(4)
		g := c03NewProgGen(r, o)
		p := g.program(1+r.Intn(3), 1+r.Intn(4))
		if r.Chance(1, 3) {
			// a third of the programs keep every ';' on the line of the statement it ends
			for j, t := range p.toks {
				if t.ty == js.SemicolonToken && p.mode[j] == c03Free {
					p.mode[j] = c03NoLT
				}
			}
		}
		src := c03Spell3(r, p)
		c03ProgramCheck(rep, r, p, src, o)
	}
}

// c03NoEmpty removes the EmptyStmt nodes from a String() form
func c03NoEmpty(s string) string {
	s = strings.ReplaceAll(s, " Stmt()", "")
	s = strings.ReplaceAll(s, "Stmt() ", "")
	return s
}

// c03ProgramCheck: c03AcceptCheck for a generated program (the classification of the remaining statement-terminator
// deviation is done there)
func c03ProgramCheck(rep *Report, r *Rng, p c03Piece, src []byte, o int) {
	c03AcceptCheck(rep, src, o, p.str, "program", true)
}

// c03SpellPlain: one space between tokens, one newline where a line break is required
func c03SpellPlain(p c03Piece) []byte {
	var b bytes.Buffer
	for i, t := range p.toks {
		if p.mode[i] == c03MustLT {
			b.WriteByte('\n')
		} else if i > 0 {
			b.WriteByte(' ')
		}
		b.Write(t.data)
	}
	return b.Bytes()
}

// c03ProgramRejections: single-bracket mutations of whole programs and duplicate lexical declarations.
func c03ProgramRejections(r *Rng, tier string, rep *Report) {
	n := 1500
	if tier == "thorough" {
		n = 60000
	}
	isBracket := func(t js.TokenType) bool {
		switch t {
		case js.OpenParenToken, js.CloseParenToken, js.OpenBracketToken, js.CloseBracketToken, js.OpenBraceToken, js.CloseBraceToken:
			return true
		}
		return false
	}
	for i := 0; i < n; i++ {
		g := c03NewProgGen(r, 0)
		p := g.program(1+r.Intn(2), 1+r.Intn(3))
		skip := false
		var br []int
		for j, t := range p.toks {
			switch t.ty {
			case js.DivToken, js.DivEqToken, js.TemplateToken, js.TemplateStartToken, js.TemplateMiddleToken, js.TemplateEndToken:
				skip = true // a regular expression or template could swallow a bracket
			}
			if isBracket(t.ty) {
				br = append(br, j)
			}
		}
		if skip || len(p.toks) == 0 {
			continue
		}
		q := c03Piece{str: p.str}
		if len(br) > 0 && r.Bool() {
			j := br[r.Intn(len(br))]
			q.toks = append(append([]c03Jtok{}, p.toks[:j]...), p.toks[j+1:]...)
			q.mode = append(append([]int8{}, p.mode[:j]...), p.mode[j+1:]...)
			c03RejectCheck(rep, "bracket-deleted", c03SpellPlain(q))
		} else {
			j := r.Intn(len(p.toks) + 1)
			b := c03Lex([]string{"(", ")", "[", "]", "{", "}"}[r.Intn(6)])[0]
			q.toks = append(append(append([]c03Jtok{}, p.toks[:j]...), b), p.toks[j:]...)
			q.mode = append(append(append([]int8{}, p.mode[:j]...), c03Free), p.mode[j:]...)
			c03RejectCheck(rep, "bracket-added", c03SpellPlain(q))
		}
	}
	// one lexical name declared twice in one scope
	dups := []string{
		"let N; let N;", "let N; const N = 1;", "const N = 1; let N;", "class N {} let N;", "let N; class N {}",
		"let N; var N;", "var N; let N;", "const N = 1; var N;", "let N, N;", "let [N, N] = a;", "const {N, p: N} = a;",
		"let N; { var N }", "{ let N; { var N } }", "class N {} class N {}", "let N; function N() {}", "function N() {} let N;",
		"switch (a) { case 1: let N; case 2: let N; }", "let {p: [N], ...N} = a;", "const N = 1, M = 2, N = 3;",
		"class C { #N; #N; }", "class C { #N() {} #N; }", "class C { get #N() {} get #N() {} }", "class C { static get #N() {} set #N(v) {} }",
		"class C { get #N() {} set #N(v) {} #N; }", "class C { static #N; #N; }", "class C { set #N(v) {} set #N(v) {} }",
	}
	funcLike := map[string]bool{"S": true, "function f() { S }": true, "x = () => { S };": true, "class C { m() { S } }": true, "async function* f() { S }": true}
	ctx := []string{"S", "{ S }", "function f() { S }", "x = () => { S };", "class C { m() { S } }", "for (;;) { S }", "if (a) { S }",
		"try { S } finally {}", "try {} catch { S }", "l: { S }", "async function* f() { S }", "class C { static { S } }", "switch (a) { default: S }"}
	paramDups := []string{"function f(N) { let N; }", "x = (N) => { let N; };", "x = N => { const N = 1; };", "function f([N]) { let N; }",
		"function f({N}) { class N {} }", "try {} catch (N) { let N; }", "try {} catch ([N]) { const N = 1; }",
		"class C { m(N) { let N; } }", "x = { m(N) { let N; } };", "x = function (N) { let N; };"}
	names := []string{"a", "b", "x1", "$y", "_z", "v", "of", "async", "get"}
	m := 6
	if tier == "thorough" {
		m = 200
	}
	for k := 0; k < m; k++ {
		for _, d := range dups {
			nm := names[r.Intn(len(names))]
			s := strings.ReplaceAll(strings.ReplaceAll(d, "N", nm), "M", "m"+nm)
			c := ctx[r.Intn(len(ctx))]
			if strings.Contains(d, "#") && strings.Contains(c, "class") {
				c = "S"
			}
			src := strings.Replace(c, "S", s, 1)
			kind := "declared-twice"
			if strings.Contains(d, "#") {
				// private names are not lexical declarations; duplicates are an early error all the same
				kind = "private-name-twice"
			} else if (d == "var N; let N;" || d == "function N() {} let N;") && !funcLike[c] {
				// a var / function declaration inside a block, then a lexical declaration of the name in that block
				kind = "var-then-let-in-block"
			}
			c03RejectCheck(rep, kind, c03Respell(r, src))
		}
		for _, d := range paramDups {
			nm := names[r.Intn(len(names))]
			c03RejectCheck(rep, "declared-twice", c03Respell(r, strings.ReplaceAll(d, "N", nm)))
		}
	}
	// and the look-alikes that are fine: shadowing in an inner scope, var twice, parameter and var
	fine := []string{"let N; { let N; }", "var N; var N;", "function f(N) { var N; }", "let N; function f() { let N; }",
		"for (let N;;) { let N; }", "let N; x = (N) => N;", "class C { #N; } class D { #N; }", "try {} catch (N) { { let N; } }",
		"switch (a) { case 1: { let N; } case 2: { let N; } }", "let N; class C { N() {} }", "let N; x = { N: 1 };",
		"class C { get #N() {} set #N(v) {} }", "class C { set #N(v) {} static #q9; get #N() {} }", "class C { static get #N() {} static set #N(v) {} }",
		"class C { #N; m() { class B { #N } } }"}
	for k := 0; k < m; k++ {
		for _, d := range fine {
			nm := names[r.Intn(len(names))]
			src := c03Respell(r, strings.ReplaceAll(d, "N", nm))
			for o := 0; o < 4; o++ {
				_, err, pan := c03ParseJS(src, o)
				if pan != nil || err != nil {
					rep.Violate("c03-accept:"+string(src), fmt.Sprintf("grammatical program rejected: %q: %v %v", src, err, pan), map[string]interface{}{"src": string(src), "opts": o})
				}
				rep.Eval(fmt.Sprintf("fine:%q/%d", src, o), true, "redeclaration-allowed")
			}
		}
	}
}

// c03Respell lexes src and writes it again with varied white space
func c03Respell(r *Rng, src string) []byte {
	ts := c03Lex(src)
	p := c03Piece{toks: ts, mode: make([]int8, len(ts))}
	for i, t := range ts {
		// keep restricted productions on one line
		if i > 0 && (ts[i-1].ty == js.AsyncToken || t.ty == js.ArrowToken) {
			p.mode[i] = c03NoLT
		}
	}
	return c03Spell3(r, p)
}
