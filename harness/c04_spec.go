package main

import (
	"bytes"
	"fmt"
	"reflect"
	"regexp"
	"sort"
	"strings"

	"github.com/tdewolff/parse/v2/js"
)

// ---- C04, Go side of the specification: an ECMAScript resolver for binding programs written
// independently of the Coq one (scope objects and maps instead of environments and counters),
// the early-error check, the syntactic c04Features under which /repo is known to deviate from
// ECMAScript, program generators, the two end-to-end models and the oracle of the property text.

func c04LexNames(l []*c04Item) []int {
	var out []int
	for _, it := range l {
		if it.kind == c04KDecl && it.d == c04DLex {
			out = append(out, it.x)
		}
	}
	return out
}

func c04HeadNames(l []*c04Item) []int {
	var out []int
	for _, it := range l {
		if it.kind == c04KDecl && (it.d == c04DParam || it.d == c04DCatch) {
			out = append(out, it.x)
		}
	}
	return out
}

// names that hoist to the enclosing function: var / function declarations of this list and of
// nested blocks, loops and catch clauses
func c04VarNames(l []*c04Item) []int {
	var out []int
	for _, it := range l {
		switch it.kind {
		case c04KDecl:
			if it.d == c04DVar || it.d == c04DFun {
				out = append(out, it.x)
			}
		case c04KBlock:
			out = append(out, c04VarNames(it.b)...)
		case c04KFor, c04KCatch:
			out = append(out, c04VarNames(it.a)...)
			out = append(out, c04VarNames(it.b)...)
		}
	}
	return out
}

type c04EsScope struct {
	id     int
	names  map[int]bool
	parent *c04EsScope
}

type c04EsResolver struct {
	next int
	out  []string
}

func (e *c04EsResolver) scope(parent *c04EsScope, names ...[]int) *c04EsScope {
	s := &c04EsScope{id: e.next, names: map[int]bool{}, parent: parent}
	e.next++
	for _, l := range names {
		for _, n := range l {
			s.names[n] = true
		}
	}
	return s
}

func c04EsLookup(s *c04EsScope, x int) string {
	for ; s != nil; s = s.parent {
		if s.names[x] {
			return fmt.Sprintf("%d:%d", s.id, x)
		}
	}
	return fmt.Sprintf("g:%d", x)
}

func (e *c04EsResolver) walk(l []*c04Item, env, fs, cur *c04EsScope) {
	for _, it := range l {
		switch it.kind {
		case c04KRef, c04KPRef:
			e.out = append(e.out, c04EsLookup(env, it.x))
		case c04KDecl:
			if it.d == c04DVar || it.d == c04DFun {
				e.out = append(e.out, fmt.Sprintf("%d:%d", fs.id, it.x))
			} else {
				e.out = append(e.out, fmt.Sprintf("%d:%d", cur.id, it.x))
			}
		case c04KBlock:
			s := e.scope(env, c04LexNames(it.b))
			e.walk(it.b, s, fs, s)
		case c04KFunc, c04KArrow:
			outer := env
			if it.kind == c04KFunc && it.nm >= 0 {
				n := e.scope(env, []int{it.nm})
				e.out = append(e.out, fmt.Sprintf("%d:%d", n.id, it.nm))
				outer = n
			}
			f := e.scope(outer, c04HeadNames(it.a))
			e.walk(it.a, f, f, f) // default values see every parameter, nothing of the body
			for _, n := range append(c04VarNames(it.b), c04LexNames(it.b)...) {
				f.names[n] = true
			}
			e.walk(it.b, f, f, f)
		case c04KArrowId:
			f := e.scope(env, []int{it.x}, c04VarNames(it.b), c04LexNames(it.b))
			e.out = append(e.out, fmt.Sprintf("%d:%d", f.id, it.x))
			e.walk(it.b, f, f, f)
		case c04KParen:
			e.walk(it.a, env, fs, cur)
		case c04KFor:
			h := e.scope(env, c04LexNames(it.a))
			e.walk(it.a, h, fs, h)
			b := e.scope(h, c04LexNames(it.b))
			e.walk(it.b, b, fs, b)
		case c04KCatch:
			c := e.scope(env, c04HeadNames(it.a))
			e.walk(it.a, c, fs, c)
			for _, n := range c04LexNames(it.b) {
				c.names[n] = true
			}
			e.walk(it.b, c, fs, c)
		case c04KClass:
			outer := env
			if it.nm >= 0 {
				k := e.scope(env, []int{it.nm})
				e.out = append(e.out, fmt.Sprintf("%d:%d", k.id, it.nm))
				outer = k
			}
			e.walk(it.a, outer, fs, cur)
		}
	}
}

// c04EsResolve: for every identifier occurrence, in source order, the declaration it denotes
// ("scope:name") or "g:name" when it is bound nowhere
func c04EsResolve(l []*c04Item) []string {
	e := &c04EsResolver{}
	m := e.scope(nil, c04VarNames(l), c04LexNames(l))
	e.walk(l, m, m, m)
	return e.out
}

func c04CanonStrings(l []string) []int64 {
	idx := map[string]int{}
	out := make([]int64, len(l))
	for i, s := range l {
		id, ok := idx[s]
		if !ok {
			id = len(idx)
			idx[s] = id
		}
		out[i] = int64(id)
	}
	return out
}

func c04HasDup(l []int) bool {
	m := map[int]bool{}
	for _, x := range l {
		if m[x] {
			return true
		}
		m[x] = true
	}
	return false
}

func c04Intersects(a, b []int) bool {
	m := map[int]bool{}
	for _, x := range a {
		m[x] = true
	}
	for _, x := range b {
		if m[x] {
			return true
		}
	}
	return false
}

// redeclaration early errors, with function declarations var-like everywhere (the property's
// reading: "var and function hoisting to the enclosing function")
func c04ScopeOK(head []int, b []*c04Item) bool {
	lx := c04LexNames(b)
	return !c04HasDup(lx) && !c04Intersects(lx, c04VarNames(b)) && !c04Intersects(lx, head)
}

func c04EsOKrec(l []*c04Item) bool {
	for _, it := range l {
		switch it.kind {
		case c04KBlock:
			if !c04ScopeOK(nil, it.b) || !c04EsOKrec(it.b) {
				return false
			}
		case c04KFunc, c04KArrow:
			hn := c04HeadNames(it.a)
			if c04HasDup(hn) || !c04ScopeOK(hn, it.b) || !c04EsOKrec(it.a) || !c04EsOKrec(it.b) {
				return false
			}
		case c04KArrowId:
			if !c04ScopeOK([]int{it.x}, it.b) || !c04EsOKrec(it.b) {
				return false
			}
		case c04KParen, c04KClass:
			if !c04EsOKrec(it.a) {
				return false
			}
		case c04KFor:
			hl := c04LexNames(it.a)
			if c04HasDup(hl) || c04Intersects(hl, c04VarNames(it.b)) || !c04ScopeOK(nil, it.b) || !c04EsOKrec(it.a) || !c04EsOKrec(it.b) {
				return false
			}
		case c04KCatch:
			hn := c04HeadNames(it.a)
			if c04HasDup(hn) || !c04ScopeOK(hn, it.b) || !c04EsOKrec(it.a) || !c04EsOKrec(it.b) {
				return false
			}
		}
	}
	return true
}

func c04EsOK(l []*c04Item) bool { return c04ScopeOK(nil, l) && c04EsOKrec(l) }

// ---- known deviations of /repo from ECMAScript, as syntactic c04Features of the program ------------

// c04Mentions: every name that occurs in l (over-approximation of "free in l")
func c04Mentions(l []*c04Item, m map[int]bool) {
	for _, x := range c04OccNames(l, nil) {
		m[x] = true
	}
}

func c04FeaturesRec(l []*c04Item, f map[string]bool, oracle bool) {
	for _, it := range l {
		switch it.kind {
		case c04KFunc, c04KArrow:
			// default values that mention a later parameter, or a name the body declares
			_, gs := c04Groups(it.a)
			later := map[int]bool{}
			for i := len(gs) - 1; i >= 0; i-- {
				m := map[int]bool{}
				c04Mentions(gs[i][1:], m)
				for x := range m {
					if later[x] {
						f["fwd-param"] = true
					}
				}
				later[gs[i][0].x] = true
			}
			if it.kind == c04KFunc && it.nm >= 0 {
				for _, x := range append(append(c04VarNames(it.b), c04LexNames(it.b)...), c04HeadNames(it.a)...) {
					if x == it.nm {
						f["funcexpr-name-redeclared"] = true
					}
				}
			}
		case c04KCatch:
			// Annex B: var / function redeclaring the catch parameter; ECMAScript resolves references
			// in the catch block to the parameter, /repo to whichever it finds first
			if c04Intersects(c04HeadNames(it.a), c04VarNames(it.b)) {
				f["catch-param-var-redeclared"] = true
			}
		case c04KFor:
			// the loop head and the body block share one Scope in /repo: a name the head DECLARES (let / const /
			// var) and the body block declares lexically (a name the head only mentions is kept apart by the
			// NumArgUses mark since /repo 6a9c7af)
			m := map[int]bool{}
			for _, h := range it.a {
				if h.kind == c04KDecl {
					m[h.x] = true
				}
			}
			for _, x := range c04LexNames(it.b) {
				if m[x] {
					f["loop-head-shadowed-in-body"] = true
				}
			}
		}
		c04FeaturesRec(it.a, f, oracle)
		c04FeaturesRec(it.b, f, oracle)
	}
}

func c04Features(l []*c04Item) []string { return c04FeaturesMode(l, false) }

func c04FeaturesMode(l []*c04Item, oracle bool) []string {
	f := map[string]bool{}
	c04FeaturesRec(l, f, oracle)
	var out []string
	for k := range f {
		out = append(out, k)
	}
	sort.Strings(out)
	return out
}

// ---- program generators --------------------------------------------------------------------------

type c04ProgGen struct {
	r     *Rng
	names int
	core  bool // only Block / Func (no name, no defaults) / Decl var,let,function,param / Ref
	left  int
}

func (g *c04ProgGen) name() int { return g.r.Intn(g.names) }

func (g *c04ProgGen) style() int { return g.r.Intn(1 << 20) }

func (g *c04ProgGen) mk(kind int) *c04Item { return &c04Item{kind: kind, nm: -1, style: g.style()} }

func (g *c04ProgGen) exprItem(depth int) *c04Item {
	g.left--
	x := g.r.Intn(100)
	if depth <= 0 || g.left <= 0 || x < 45 {
		it := g.mk(c04KRef)
		it.x = g.name()
		return it
	}
	switch {
	case x < 60:
		return g.fn(depth, true)
	case x < 70:
		it := g.mk(c04KArrow)
		it.a = g.params(depth - 1)
		it.b = g.stmts(depth-1, 3)
		return it
	case x < 80:
		it := g.mk(c04KArrowId)
		it.x = g.name()
		it.b = g.stmts(depth-1, 3)
		return it
	case x < 92:
		return g.paren(depth)
	default:
		it := g.mk(c04KClass)
		if g.r.Bool() {
			it.nm = g.name()
		}
		it.a = g.members(depth - 1)
		return it
	}
}

func (g *c04ProgGen) exprItems(depth, max int) []*c04Item {
	n := g.r.Intn(max + 1)
	var l []*c04Item
	for i := 0; i < n; i++ {
		l = append(l, g.exprItem(depth))
	}
	return l
}

func (g *c04ProgGen) fn(depth int, allowName bool) *c04Item {
	it := g.mk(c04KFunc)
	if allowName && !g.core && g.r.Chance(1, 3) {
		it.nm = g.name()
	}
	it.a = g.params(depth - 1)
	it.b = g.stmts(depth-1, 4)
	return it
}

func (g *c04ProgGen) params(depth int) []*c04Item {
	var l []*c04Item
	n := g.r.Intn(3)
	for i := 0; i < n; i++ {
		d := g.mk(c04KDecl)
		d.d = c04DParam
		d.x = g.name()
		l = append(l, d)
		if !g.core && g.r.Chance(1, 3) {
			l = append(l, g.exprItems(depth, 2)...)
		}
	}
	return l
}

func (g *c04ProgGen) paren(depth int) *c04Item {
	it := g.mk(c04KParen)
	if g.r.Chance(2, 3) {
		n := 1 + g.r.Intn(3)
		for i := 0; i < n; i++ {
			p := g.mk(c04KPRef)
			p.x = g.name()
			it.a = append(it.a, p)
			if g.r.Chance(1, 4) {
				it.a = append(it.a, g.exprItems(depth-1, 2)...)
			}
		}
	} else {
		it.a = append(it.a, g.exprItem(depth-1))
		it.a = append(it.a, g.exprItems(depth-1, 2)...)
	}
	return it
}

func (g *c04ProgGen) members(depth int) []*c04Item {
	var l []*c04Item
	n := g.r.Intn(3)
	for i := 0; i < n; i++ {
		if g.r.Chance(1, 4) {
			// a static block: a function scope without parameters (rendered as static{...}: style bit 2)
			it := g.mk(c04KFunc)
			it.b = g.stmts(depth-1, 4)
			it.style |= 4
			l = append(l, it)
		} else if g.r.Bool() {
			l = append(l, g.fn(depth, false))
		} else {
			l = append(l, g.exprItem(depth))
		}
	}
	return l
}

func (g *c04ProgGen) stmts(depth int, max int) []*c04Item {
	var l []*c04Item
	n := g.r.Intn(max + 1)
	for i := 0; i < n && g.left > 0; i++ {
		g.left--
		x := g.r.Intn(100)
		decl := func(d int) *c04Item {
			it := g.mk(c04KDecl)
			it.d = d
			it.x = g.name()
			return it
		}
		switch {
		case x < 30 || depth <= 0:
			it := g.mk(c04KRef)
			it.x = g.name()
			l = append(l, it)
		case x < 40:
			l = append(l, decl(c04DVar))
		case x < 50:
			l = append(l, decl(c04DLex))
		case x < 57:
			l = append(l, decl(c04DFun), g.fn(depth, false))
		case x < 67:
			it := g.mk(c04KBlock)
			it.b = g.stmts(depth-1, 4)
			l = append(l, it)
		case x < 74:
			l = append(l, g.fn(depth, true))
		case g.core:
			it := g.mk(c04KRef)
			it.x = g.name()
			l = append(l, it)
		case x < 79:
			it := g.mk(c04KArrow)
			it.a = g.params(depth - 1)
			it.b = g.stmts(depth-1, 3)
			l = append(l, it)
		case x < 83:
			it := g.mk(c04KArrowId)
			it.x = g.name()
			it.b = g.stmts(depth-1, 3)
			l = append(l, it)
		case x < 88:
			l = append(l, g.paren(depth))
		case x < 93:
			it := g.mk(c04KFor)
			if g.r.Chance(2, 3) {
				d := []int{c04DVar, c04DLex}[g.r.Intn(2)]
				nd := 1 + g.r.Intn(2)
				for j := 0; j < nd; j++ {
					de := g.mk(c04KDecl)
					de.d = d
					de.x = g.name()
					it.a = append(it.a, de)
					it.a = append(it.a, g.exprItems(depth-1, 2)...)
				}
			} else {
				it.a = g.exprItems(depth-1, 2)
			}
			it.b = g.stmts(depth-1, 4)
			l = append(l, it)
		case x < 97:
			b := g.mk(c04KBlock)
			b.b = g.stmts(depth-1, 2)
			c := g.mk(c04KCatch)
			nc := g.r.Intn(3)
			if nc == 2 && g.r.Bool() {
				nc = 1
			}
			for j := 0; j < nc; j++ {
				de := g.mk(c04KDecl)
				de.d = c04DCatch
				de.x = g.name()
				c.a = append(c.a, de)
				if g.r.Chance(1, 5) {
					c.a = append(c.a, g.exprItems(depth-1, 1)...)
				}
			}
			c.b = g.stmts(depth-1, 4)
			l = append(l, b, c)
		default:
			if g.r.Bool() {
				l = append(l, decl(c04DLex))
			}
			it := g.mk(c04KClass)
			if len(l) == 0 || l[len(l)-1].kind != c04KDecl {
				if g.r.Bool() {
					it.nm = g.name()
				}
			}
			it.a = g.members(depth - 1)
			l = append(l, it)
		}
	}
	return l
}

func c04GenProgram(r *Rng, size int, core bool) []*c04Item {
	g := &c04ProgGen{r: r, names: 2 + r.Intn(3), core: core, left: size}
	for try := 0; ; try++ {
		g.left = size
		l := g.stmts(2+r.Intn(3), 2+size/3)
		if !c04Renderable(l, 0) {
			continue
		}
		// mostly programs without redeclaration errors
		if c04EsOK(l) || try > 6 || r.Chance(1, 8) {
			return l
		}
	}
}

// exhaustive small scope: every statement list of total size <= n over two names and the core
// constructs plus one representative of every other construct
func c04EnumProgs(n int, emit func([]*c04Item)) {
	leaf := func(kind, d, x int) *c04Item { return &c04Item{kind: kind, d: d, x: x, nm: -1} }
	type shape struct {
		size int
		mk   func(body []*c04Item) []*c04Item
	}
	var rec func(budget int, prefix []*c04Item)
	bodies := func(budget int, f func([]*c04Item)) {
		var r2 func(b int, p []*c04Item)
		r2 = func(b int, p []*c04Item) {
			f(append([]*c04Item{}, p...))
			if b <= 0 {
				return
			}
			for _, lf := range []*c04Item{leaf(c04KRef, 0, 0), leaf(c04KRef, 0, 1), leaf(c04KDecl, c04DVar, 0), leaf(c04KDecl, c04DLex, 0)} {
				r2(b-1, append(p, lf))
			}
			if b >= 2 {
				// one level of nesting inside bodies
				r2(b-2, append(p, &c04Item{kind: c04KBlock, nm: -1, b: []*c04Item{leaf(c04KRef, 0, 0)}}))
				r2(b-2, append(p, &c04Item{kind: c04KBlock, nm: -1, b: []*c04Item{leaf(c04KDecl, c04DVar, 0)}}))
				r2(b-2, append(p, &c04Item{kind: c04KFunc, nm: -1, b: []*c04Item{leaf(c04KRef, 0, 0)}}))
			}
		}
		r2(budget, nil)
	}
	rec = func(budget int, prefix []*c04Item) {
		emit(append([]*c04Item{}, prefix...))
		if budget <= 0 {
			return
		}
		for _, lf := range []*c04Item{leaf(c04KRef, 0, 0), leaf(c04KRef, 0, 1), leaf(c04KDecl, c04DVar, 0), leaf(c04KDecl, c04DLex, 0), leaf(c04KDecl, c04DLex, 1)} {
			rec(budget-1, append(prefix, lf))
		}
		if budget >= 2 {
			bodies(budget-2, func(b []*c04Item) {
				rest := budget - 2 - len(c04FlatSize(b))
				rec(rest, append(prefix, leaf(c04KDecl, c04DFun, 0), &c04Item{kind: c04KFunc, nm: -1, b: b}))
			})
		}
		bodies(budget-1, func(b []*c04Item) {
			rest := budget - 1 - len(c04FlatSize(b))
			rec(rest, append(prefix, &c04Item{kind: c04KBlock, nm: -1, b: b}))
			rec(rest, append(prefix, &c04Item{kind: c04KFunc, nm: -1, b: b}))
			if rest >= 0 && budget >= 2 {
				rec(rest-1, append(prefix, &c04Item{kind: c04KFunc, nm: -1, a: []*c04Item{leaf(c04KDecl, c04DParam, 0)}, b: b}))
				rec(rest-1, append(prefix, &c04Item{kind: c04KArrowId, x: 0, nm: -1, b: b}))
				rec(rest-1, append(prefix, &c04Item{kind: c04KFor, nm: -1, a: []*c04Item{leaf(c04KDecl, c04DLex, 0)}, b: b}))
				rec(rest-1, append(prefix, &c04Item{kind: c04KFunc, nm: 0, b: b}))
			}
		})
		rec(budget-1, append(prefix, &c04Item{kind: c04KParen, nm: -1, a: []*c04Item{leaf(c04KPRef, 0, 0)}}))
		if budget >= 2 {
			rec(budget-2, append(prefix, &c04Item{kind: c04KParen, nm: -1, a: []*c04Item{leaf(c04KPRef, 0, 0), leaf(c04KPRef, 0, 1)}}))
			rec(budget-2, append(prefix, &c04Item{kind: c04KBlock, nm: -1}, &c04Item{kind: c04KCatch, nm: -1, a: []*c04Item{leaf(c04KDecl, c04DCatch, 0)}, b: []*c04Item{leaf(c04KDecl, c04DVar, 0)}}))
		}
	}
	rec(n, nil)
}

// c04FlatSize returns one element per c04Item of l, nested ones included (only its length is used)
func c04FlatSize(l []*c04Item) []int {
	var out []int
	for _, it := range l {
		out = append(out, 0)
		out = append(out, c04FlatSize(it.a)...)
		out = append(out, c04FlatSize(it.b)...)
	}
	return out
}

func c04DescribeProg(l []*c04Item) string { return c04RenderProg(l, false) }

func c04E2eCase(fn string, l []*c04Item, note string) Case {
	return Case{Fn: fn, Args: c04StylesOf(l, c04EncodeProg(l, nil)), Note: note + c04RenderProg(l, false)}
}

func c04RemoveOne(l []*c04Item, k *int) ([]*c04Item, bool) {
	for i, it := range l {
		if *k == 0 {
			out := append(append([]*c04Item{}, l[:i]...), l[i+1:]...)
			return out, true
		}
		*k--
		for _, sub := range []*[]*c04Item{&it.a, &it.b} {
			if nl, ok := c04RemoveOne(*sub, k); ok {
				c := *it
				if sub == &it.a {
					c.a = nl
				} else {
					c.b = nl
				}
				out := append([]*c04Item{}, l...)
				out[i] = &c
				return out, true
			}
		}
	}
	return l, false
}

func c04ShrinkProg(c Case) []Case {
	l := c04ProgOfCase(c)
	var out []Case
	for k := 0; k < 200; k++ {
		kk := k
		nl, ok := c04RemoveOne(l, &kk)
		if !ok {
			break
		}
		if !c04Renderable(nl, 0) {
			continue
		}
		out = append(out, c04E2eCase(c.Fn, nl, "shrunk: "))
	}
	return out
}

func c04E2eClass(c Case, out []int64) string {
	l := c04ProgOfCase(c)
	kinds := map[int]bool{}
	var rec func(l []*c04Item)
	rec = func(l []*c04Item) {
		for _, it := range l {
			kinds[it.kind] = true
			rec(it.a)
			rec(it.b)
		}
	}
	rec(l)
	s := "core"
	for k := range kinds {
		if k != c04KRef && k != c04KDecl && k != c04KBlock && k != c04KFunc {
			s = "full"
		}
	}
	if f := c04Features(l); len(f) > 0 {
		s += "/quirk"
	}
	switch {
	case len(out) == 0:
		s += "/empty"
	case out[0] == 1:
		s += "/resolved"
	case out[0] == 0:
		s += "/rejected"
	default:
		s += fmt.Sprintf("/code%d", out[0])
	}
	return s
}

var c04ScopeE2EAlgoModel = &Model{
	Name: "scope_e2e_algo",
	Gen: func(r *Rng, tier string, emit func(Case)) {
		k, n := 4, 4000
		if tier == "thorough" {
			k, n = 5, 200000
		}
		c04EnumProgs(k, func(l []*c04Item) {
			if c04Renderable(l, 0) {
				emit(c04E2eCase("scope_e2e_algo", l, "exhaustive: "))
			}
		})
		for i := 0; i < n; i++ {
			l := c04GenProgram(r, 3+i%30, i%4 == 0)
			emit(c04E2eCase("scope_e2e_algo", l, "random: "))
		}
	},
	Impl:   c04E2eAlgoImpl,
	Shrink: c04ShrinkProg,
	Class:  c04E2eClass,
}

var c04ScopeE2ESpecModel = &Model{
	Name: "scope_e2e_spec",
	Gen: func(r *Rng, tier string, emit func(Case)) {
		k, n := 4, 4000
		if tier == "thorough" {
			k, n = 5, 200000
		}
		c04EnumProgs(k, func(l []*c04Item) {
			if c04Renderable(l, 0) && len(c04Features(l)) == 0 {
				emit(c04E2eCase("scope_e2e_spec", l, "exhaustive: "))
			}
		})
		for i := 0; i < n; i++ {
			l := c04GenProgram(r, 3+i%30, i%4 == 0)
			if len(c04Features(l)) == 0 {
				emit(c04E2eCase("scope_e2e_spec", l, "random: "))
			}
		}
	},
	Impl:   c04E2eSpecImpl,
	Shrink: c04ShrinkProg,
	Class:  c04E2eClass,
}

// c04InCore: the fragment the Coq label machine (and resolution_correct) covers: Block, anonymous
// Func whose parameter list has no default values, Decl var/let/function/param, Ref
// c04AllNames mirrors Spec.allnames: every name that occurs in the list
func c04AllNames(l []*c04Item) []int {
	var out []int
	for _, it := range l {
		switch it.kind {
		case c04KRef, c04KPRef, c04KDecl, c04KArrowId:
			out = append(out, it.x)
		case c04KFunc, c04KClass:
			if it.nm >= 0 {
				out = append(out, it.nm)
			}
		}
		out = append(out, c04AllNames(it.a)...)
		out = append(out, c04AllNames(it.b)...)
	}
	return out
}

// c04DefaultNames mirrors Spec.default_names: the names mentioned by the default values of a parameter list
func c04DefaultNames(ps []*c04Item) []int {
	var out []int
	for _, it := range ps {
		if it.kind != c04KDecl {
			out = append(out, c04AllNames([]*c04Item{it})...)
		}
	}
	return out
}

func c04FuncInCore(it *c04Item) bool {
	// a default value may mention a name the body declares (frozen by MarkFuncArgs; /repo 6a9c7af)
	return c04InCore(it.a, 1) && c04InCore(it.b, 0)
}

// c04InCore mirrors Spec.core_x (ctx 0), Spec.hcore_x false = pcore_x (ctx 1: a parameter list) and Spec.hcore_x true
// (ctx 2: the parameter pattern of a catch clause, where default values may mention later names of the pattern): the
// fragment for which resolution_correct is proved
func c04InCore(l []*c04Item, ctx int) bool {
	for i, it := range l {
		switch it.kind {
		case c04KRef:
			if ctx == 1 && c04Intersects([]int{it.x}, c04HeadNames(l[i+1:])) {
				return false
			}
		case c04KDecl:
			if ctx == 1 && it.d != c04DParam || ctx == 2 && it.d != c04DCatch || ctx == 0 && (it.d == c04DParam || it.d == c04DCatch) {
				return false
			}
		case c04KBlock:
			if ctx != 0 || !c04InCore(it.b, 0) {
				return false
			}
		case c04KFunc, c04KArrow:
			if !c04FuncInCore(it) {
				return false
			}
			if ctx == 1 && c04Intersects(append(c04AllNames(it.a), c04AllNames(it.b)...), c04HeadNames(l[i+1:])) {
				return false
			}
			if it.kind == c04KFunc && it.nm >= 0 {
				// the expression name is neither a parameter nor a declaration of the body (nor a later parameter)
				own := append(append(c04HeadNames(it.a), c04VarNames(it.b)...), c04LexNames(it.b)...)
				if c04Intersects([]int{it.nm}, own) || ctx == 1 && c04Intersects([]int{it.nm}, c04HeadNames(l[i+1:])) {
					return false
				}
			}
		case c04KFor:
			// the body declares lexically no name the head declares (let / const / var); var names of the head differ
			// from the lexical ones
			if ctx != 0 || !c04InCore(it.a, 0) || !c04InCore(it.b, 0) ||
				c04Intersects(c04LexNames(it.a), c04LexNames(it.b)) ||
				c04Intersects(c04VarNames(it.a), append(c04LexNames(it.a), c04LexNames(it.b)...)) {
				return false
			}
		case c04KCatch:
			if ctx != 0 || !c04InCore(it.a, 2) || !c04InCore(it.b, 0) || c04Intersects(c04HeadNames(it.a), c04VarNames(it.b)) {
				return false
			}
		case c04KClass:
			// a class body without class-expression name; the members declare nothing (no var in static blocks)
			if it.nm >= 0 || !c04InCore(it.a, 0) || len(c04LexNames(it.a)) != 0 || len(c04VarNames(it.a)) != 0 {
				return false
			}
			if ctx == 1 && c04Intersects(c04AllNames(it.a), c04HeadNames(l[i+1:])) {
				return false
			}
		default:
			return false
		}
	}
	return true
}

// c04ParenShadowFamily: `for(var b of c){let b;(b)}`, `try{}catch(b){var b;(b)}`, `var b;{let b;(b)}`,
// `var b;function f(b){(b)}`, `var b;for(let b of c){(b)}`, `var b;try{}catch(b){(b)}` with the parenthesised lists
// (b), (b,b), (a,b), (b,a), over three choices of names, bare, inside a function, and followed by a use of the name
func c04ParenShadowFamily(emit func([]*c04Item)) {
	leaf := func(kind, d, x int) *c04Item { return &c04Item{kind: kind, d: d, x: x, nm: -1} }
	for _, nm := range [][3]int{{1, 2, 0}, {0, 1, 2}, {2, 0, 1}} {
		x, y, a := nm[0], nm[1], nm[2]
		for _, ps := range [][]int{{x}, {x, x}, {a, x}, {x, a}} {
			paren := func() *c04Item {
				it := &c04Item{kind: c04KParen, nm: -1}
				for _, p := range ps {
					it.a = append(it.a, leaf(c04KPRef, 0, p))
				}
				return it
			}
			progs := [][]*c04Item{
				{&c04Item{kind: c04KFor, nm: -1, a: []*c04Item{leaf(c04KDecl, c04DVar, x), leaf(c04KRef, 0, y)}, b: []*c04Item{leaf(c04KDecl, c04DLex, x), paren()}}},
				{&c04Item{kind: c04KBlock, nm: -1}, &c04Item{kind: c04KCatch, nm: -1, a: []*c04Item{leaf(c04KDecl, c04DCatch, x)}, b: []*c04Item{leaf(c04KDecl, c04DVar, x), paren()}}},
				{leaf(c04KDecl, c04DVar, x), &c04Item{kind: c04KBlock, nm: -1, b: []*c04Item{leaf(c04KDecl, c04DLex, x), paren()}}},
				{leaf(c04KDecl, c04DVar, x), &c04Item{kind: c04KFunc, nm: -1, a: []*c04Item{leaf(c04KDecl, c04DParam, x)}, b: []*c04Item{paren()}}},
				{leaf(c04KDecl, c04DVar, x), &c04Item{kind: c04KFor, nm: -1, a: []*c04Item{leaf(c04KDecl, c04DLex, x), leaf(c04KRef, 0, y)}, b: []*c04Item{paren()}}},
				{leaf(c04KDecl, c04DVar, x), &c04Item{kind: c04KBlock, nm: -1}, &c04Item{kind: c04KCatch, nm: -1, a: []*c04Item{leaf(c04KDecl, c04DCatch, x)}, b: []*c04Item{paren()}}},
			}
			for _, l := range progs {
				emit(l)
				emit(append(append([]*c04Item{}, l...), leaf(c04KRef, 0, x)))
				emit([]*c04Item{{kind: c04KFunc, nm: -1, b: l}, leaf(c04KRef, 0, x)})
			}
		}
	}
}

// c04Unmodelled: constructs the label machine of the proof has no step for: class-expression names (the merge of the
// pending uses into the name), x => ... and the parenthesised arrow cover (UndeclareScope)
func c04Unmodelled(l []*c04Item) bool {
	for _, it := range l {
		switch it.kind {
		case c04KArrowId, c04KParen, c04KPRef:
			return true
		case c04KClass:
			if it.nm >= 0 {
				return true
			}
		}
		if c04Unmodelled(it.a) || c04Unmodelled(it.b) {
			return true
		}
	}
	return false
}

// c04HasLoopOrName: some loop or function-expression name occurs
func c04HasLoopOrName(l []*c04Item) bool {
	for _, it := range l {
		if it.kind == c04KFor || it.kind == c04KFunc && it.nm >= 0 || c04HasLoopOrName(it.a) || c04HasLoopOrName(it.b) {
			return true
		}
	}
	return false
}

// c04HasClass: some class body occurs
func c04HasClass(l []*c04Item) bool {
	for _, it := range l {
		if it.kind == c04KClass || c04HasClass(it.a) || c04HasClass(it.b) {
			return true
		}
	}
	return false
}

// c04HasDefaults: some parameter list has a default value (the newest part of the fragment)
func c04HasDefaults(l []*c04Item) bool {
	for _, it := range l {
		if it.kind == c04KFunc || it.kind == c04KArrow {
			for _, q := range it.a {
				if q.kind != c04KDecl {
					return true
				}
			}
		}
		if c04HasDefaults(it.a) || c04HasDefaults(it.b) {
			return true
		}
	}
	return false
}

// c04InCoreOld: no arrow, no catch (to steer the generator towards the newer part of the fragment)
func c04InCoreOld(l []*c04Item) bool {
	for _, it := range l {
		if it.kind == c04KArrow || it.kind == c04KCatch {
			return false
		}
		if !c04InCoreOld(it.a) || !c04InCoreOld(it.b) {
			return false
		}
	}
	return true
}

func c04E2eAMImpl(c Case) []int64 {
	l := c04ProgOfCase(c)
	out, p, _ := c04E2eObserve(l, false)
	if len(out) == 0 || out[0] != 1 {
		return out
	}
	n := int(out[1])
	res := append([]int64{}, out[:2+n]...)
	_, reps := c04CanonVars(p.roots)
	for _, r := range reps {
		g := int64(0)
		if r.Decl == js.NoDecl {
			g = 1
		}
		res = append(res, g)
	}
	// the harness's reading of the fragment must not be wider than Spec.core_d
	if c04InCore(l, 0) {
		res = append(res, 1)
	} else {
		res = append(res, 0)
	}
	return res
}

var c04ScopeE2EAMModel = &Model{
	Name: "scope_e2e_am",
	Gen: func(r *Rng, tier string, emit func(Case)) {
		k, n := 4, 6000
		if tier == "thorough" {
			k, n = 5, 200000
		}
		c04EnumProgs(k, func(l []*c04Item) {
			if c04Renderable(l, 0) && c04InCore(l, 0) {
				emit(c04E2eCase("scope_e2e_am", l, "exhaustive: "))
			}
		})
		for i := 0; i < n; i++ {
			l := c04GenProgram(r, 3+i%40, i%2 == 0)
			if c04InCore(l, 0) {
				emit(c04E2eCase("scope_e2e_am", l, "random: "))
			}
		}
		// the fragment with arrows and catch clauses: generate until enough programs qualify
		for i, got := 0, 0; i < 20*n && got < n/2; i++ {
			l := c04GenProgram(r, 3+i%25, false)
			if c04InCore(l, 0) && !c04InCoreOld(l) {
				got++
				emit(c04E2eCase("scope_e2e_am", l, "random: "))
			}
		}
		// the fragment with default values
		for i, got := 0, 0; i < 40*n && got < n/2; i++ {
			l := c04GenProgram(r, 3+i%25, false)
			if c04HasDefaults(l) && c04InCore(l, 0) {
				got++
				emit(c04E2eCase("scope_e2e_am", l, "random: "))
			}
		}
		// the fragment with loops and function-expression names
		for i, got := 0, 0; i < 40*n && got < n/2; i++ {
			l := c04GenProgram(r, 3+i%25, false)
			if c04HasLoopOrName(l) && c04InCore(l, 0) {
				got++
				emit(c04E2eCase("scope_e2e_am", l, "random: "))
			}
		}
		// the fragment with class bodies
		for i, got := 0, 0; i < 40*n && got < n/3; i++ {
			l := c04GenProgram(r, 3+i%25, false)
			if c04HasClass(l) && c04InCore(l, 0) {
				got++
				emit(c04E2eCase("scope_e2e_am", l, "random: "))
			}
		}
	},
	Impl:   c04E2eAMImpl,
	Shrink: c04ShrinkProg,
	Class:  c04E2eClass,
}

// ---- oracle: the property text on the implementation ---------------------------------------------

func c04CollectAll(p *c04Parsed) []*js.Var {
	var occ []*js.Var
	c04CollectVars(reflect.ValueOf(p.ast.List), &occ)
	return occ
}

func c04PrintJS(ast *js.AST) string {
	var buf bytes.Buffer
	ast.JS(&buf)
	return buf.String()
}

func c04CountWord(s, w string) int {
	n := 0
	for i := 0; ; {
		j := strings.Index(s[i:], w)
		if j < 0 {
			return n
		}
		n++
		i += j + len(w)
	}
}

func c04Oracle(r *Rng, tier string, rep *Report) {
	n := 6000
	if tier == "thorough" {
		n = 300000
	}
	// strictKey != "": the program belongs to a family on which /repo follows ECMAScript although a syntactic feature
	// of a known deviation is present; every mismatch is reported under strictKey
	strictKey := ""
	check := func(l []*c04Item, origin string) {
		if !c04Renderable(l, 0) {
			return
		}
		src := c04RenderProgOracle(l)
		feats := c04FeaturesMode(l, true)
		bucket := "plain"
		if len(feats) > 0 {
			bucket = strings.Join(feats, "+")
		}
		ok := c04EsOK(l)
		if !ok {
			bucket = "early-error"
		}
		replay := map[string]interface{}{"source": src, "program": fmtInts(c04EncodeProg(l, nil)), "origin": origin}
		// the fragment of resolution_correct_partial (c04InCore mirrors Spec.core_x) is the complement of the known
		// deviations and of the constructs the proof does not model, on programs without redeclaration error
		if ok {
			if core, want := c04InCore(l, 0), len(feats) == 0 && !c04Unmodelled(l); core != want {
				rep.Violate("c04-harness:fragment-not-exact", fmt.Sprintf("%q: in the fragment of the theorem: %v, free of known deviations %v and of unmodelled constructs: %v", src, core, feats, !c04Unmodelled(l)), replay)
			}
		}
		p := c04ParseJS(src)
		if p.pan != nil {
			rep.Violate("c04-panic:"+src, fmt.Sprintf("js.Parse panics on %q: %v", src, p.pan), replay)
			rep.Eval(src, true, "panic")
			return
		}
		if !ok {
			rep.Eval(src, false, bucket)
			return
		}
		if p.err != nil {
			// a deviation is attributed to a known finding only when exactly one of the known
			// c04Features is present; with none it is a new violation
			switch len(feats) {
			case 0:
				rep.Violate("c04-reject:unclassified:"+src, fmt.Sprintf("a program without redeclaration error is rejected: %q: %v", src, p.err), replay)
			case 1:
				rep.Violate("c04-reject:"+feats[0], fmt.Sprintf("a program without redeclaration error is rejected: %q: %v", src, p.err), replay)
			}
			rep.Eval(src, true, "rejected/"+bucket)
			return
		}
		want := c04OccNames(l, nil)
		if len(want) != len(p.occ) {
			rep.Violate("c04-harness:occurrences", fmt.Sprintf("%q: expected %d identifier occurrences, tree has %d", src, len(want), len(p.occ)), replay)
			return
		}
		// (1) ECMAScript resolution: same partition, globals are undeclared variables of the module scope
		es := c04EsResolve(l)
		esCanon := c04CanonStrings(es)
		implCanon, reps := c04CanonVars(p.roots)
		nontrivial := len(reps) < len(p.roots) && len(reps) > 1
		mismatch := ""
		if fmtInts(esCanon) != fmtInts(implCanon) {
			mismatch = fmt.Sprintf("occurrences %v: ECMAScript partition %v, *Var partition %v", c04NamesOf(want), esCanon, implCanon)
		} else {
			for i, t := range es {
				root := p.roots[i]
				if strings.HasPrefix(t, "g:") != (root.Decl == js.NoDecl) {
					mismatch = fmt.Sprintf("occurrence %d (%s): resolves to %s but Decl=%v", i, c04JsName(want[i]), t, root.Decl)
				} else if strings.HasPrefix(t, "g:") && c04InVarList(root, p.ast.Scope.Undeclared) == 0 {
					mismatch = fmt.Sprintf("occurrence %d (%s) is bound nowhere but its Var is not an undeclared variable of the outermost scope", i, c04JsName(want[i]))
				}
			}
		}
		if mismatch != "" && strictKey != "" {
			rep.Violate(strictKey+":"+src, fmt.Sprintf("%q: %s", src, mismatch), replay)
			bucket = "deviates/" + bucket
		} else if mismatch != "" {
			switch len(feats) {
			case 0:
				rep.Violate("c04-es:unclassified:"+src, fmt.Sprintf("%q: %s", src, mismatch), replay)
			case 1:
				rep.Violate("c04-es:"+feats[0], fmt.Sprintf("%q: %s", src, mismatch), replay)
			}
			bucket = "deviates/" + bucket
		}
		// (2) every Var's Uses equals the number of occurrences that denote it
		cnt := map[*js.Var]int{}
		for _, v := range p.roots {
			cnt[v]++
		}
		for _, v := range reps {
			if int(v.Uses) != cnt[v] {
				rep.Violate("c04-uses:"+src, fmt.Sprintf("%q: Var %s has Uses=%d but %d occurrences", src, v.Data, v.Uses, cnt[v]), replay)
			}
		}
		// (3) rename every declared Var, print, count, re-parse, compare structure
		before := c04PrintJS(p.ast)
		orig := map[*js.Var][]byte{}
		fresh := map[*js.Var]string{}
		for i, v := range reps {
			if v.Decl != js.NoDecl {
				orig[v] = v.Data
				fresh[v] = fmt.Sprintf("q%04dq", i)
				v.Data = []byte(fresh[v])
			}
		}
		renamed := c04PrintJS(p.ast)
		for v, f := range fresh {
			if c := c04CountWord(renamed, f); c != int(v.Uses) {
				rep.Violate("c04-print-count:"+src, fmt.Sprintf("%q: Var %s (renamed %s) has Uses=%d but its name is printed %d times in %q", src, orig[v], f, v.Uses, c, renamed), replay)
			}
		}
		p2 := c04ParseJS(renamed)
		if p2.pan != nil || p2.err != nil {
			rep.Violate("c04-rename-reparse:"+src, fmt.Sprintf("%q renamed to %q does not parse: %v %v", src, renamed, p2.err, p2.pan), replay)
		} else {
			c2, reps2 := c04CanonVars(p2.roots)
			if fmtInts(c2) != fmtInts(implCanon) {
				rep.Violate("c04-rename-structure:"+src, fmt.Sprintf("%q renamed to %q: partition %v became %v", src, renamed, implCanon, c2), replay)
			} else {
				for i := range reps2 {
					if reps2[i].Decl != reps[i].Decl || reps2[i].Uses != reps[i].Uses {
						rep.Violate("c04-rename-structure:"+src, fmt.Sprintf("%q renamed to %q: class %d kind/uses %v/%d became %v/%d", src, renamed, i, reps[i].Decl, reps[i].Uses, reps2[i].Decl, reps2[i].Uses), replay)
					}
				}
				// rename back through the second tree's own binding structure
				for i, v := range reps2 {
					if o, ok := orig[reps[i]]; ok {
						v.Data = o
					}
				}
				if back := c04PrintJS(p2.ast); c04Unshort(back) != c04Unshort(before) {
					rep.Violate("c04-rename-roundtrip:"+src, fmt.Sprintf("%q: renaming, re-parsing and renaming back prints %q instead of %q", src, back, before), replay)
				}
			}
		}
		rep.Eval(src, nontrivial, bucket)
	}
	// hand-written programs outside the generator's grammar, with the partition ECMAScript prescribes
	for _, w := range []struct {
		key, src string
		want     []int64
	}{
		// a class static block is a var scope of its own (fixed in /repo 12a26e4)
		{"c04-es:class-static-block-var", "class A{static{var x;}}x;", []int64{0, 1, 2}},
		{"c04-es:class-static-block-var", "var x;class A{static{x;var x;function f(){}f;}}f;x;", []int64{0, 1, 2, 2, 3, 3, 4, 0}},
		{"c04-es:class-static-block-var", "let y;(class{static{{var y;}y;}static{y;}});y;", []int64{0, 1, 1, 0, 0}},
		// the default value after a pattern in a parenthesised list is an ordinary expression (fixed in /repo dce4c26)
		{"c04-es:arrow-head-pattern-default", "({k:c}=[a,b])=>{};", []int64{0, 1, 2}},
		{"c04-reject:arrow-head-pattern-default", "([c]=[c,b])=>{};", []int64{0, 0, 1}},
		{"c04-es:arrow-head-pattern-default", "var a;({k:c}=[a,c],d=c)=>{a;c;d;};", []int64{0, 1, 0, 1, 2, 1, 0, 1, 2}},
		{"c04-es:arrow-head-pattern-default", "var a,c;({k:c}=[a,c]);", []int64{0, 1, 1, 0, 1}},
		{"c04-es:arrow-head-pattern-default", "(a,[b=a,{c=b}]=[d,x=>{(y)=>[z]}])=>{};z;", []int64{0, 1, 0, 2, 1, 3, 4, 5, 6, 6}},
		{"c04-es:arrow-head-pattern-default", "({a}=x=>{(y)=>[z]});z;", []int64{0, 1, 2, 3, 3}},
		{"c04-es:class-static-block-let", "class A{static{let x;x;}}x;", []int64{0, 1, 1, 2}},
		// labels and property names are not variables
		{"c04-es:label", "a:{break a;}a;", []int64{0}},
		{"c04-es:property", "a.b;({b:a});b;", []int64{0, 0, 1}},
		// class declaration: heritage is resolved outside, methods inside
		{"c04-es:class-decl", "class A extends B{m(A){A;B;}}A;B;", []int64{0, 1, 2, 2, 1, 0, 1}},
		// a rest element ends the parameter list like any other parameter: the uses made by the default values stay
		// outside the body's declarations (fixed in /repo fbb8f20: MarkFuncArgs was skipped after a rest element)
		{"c04-es:rest-param-skips-markfuncargs", "function f(a=b,...r){var b;}b;", []int64{0, 1, 2, 3, 4, 2}},
		{"c04-es:rest-param-skips-markfuncargs", "var b;function f(a=b,...r){let b;r;}", []int64{0, 1, 2, 0, 3, 4, 3}},
		{"c04-es:rest-param-skips-markfuncargs", "function f(a=b,...[x,y]){var b;x;y;}", []int64{0, 1, 2, 3, 4, 5, 3, 4}},
		{"c04-es:rest-param-skips-markfuncargs", "(function(a=b,...{length:n}){var b;n;});b;", []int64{0, 1, 2, 3, 2, 1}},
		// a use frozen by MarkFuncArgs is not adopted by a declaration of the body (fixed in /repo 6a9c7af:
		// findUndeclared skips the NoDecl entries below NumArgUses)
		{"c04-es:default-captures-body-ref", "var b;function f(a=b){b=2;var b;}", []int64{0, 1, 2, 0, 3, 3}},
		{"c04-es:default-captures-body-ref", "var b;function f(a=function(){b;}){b;let b;}", []int64{0, 1, 2, 0, 3, 3}},
		{"c04-es:default-captures-body-ref", "(a=b)=>{{b;}var b;};b;", []int64{0, 1, 2, 2, 1}},
		{"c04-es:default-captures-body-ref", "var c;for(let b of c){c;let c;}", []int64{0, 1, 0, 2, 2}},
		// the catch parameter pattern is marked like a parameter list (fixed in /repo 8db4a8d)
		{"c04-es:catch-head-ref-shadowed-in-body", "var a;try{}catch({b=a}){let a;a;}", []int64{0, 1, 0, 2, 2}},
		{"c04-es:catch-head-ref-shadowed-in-body", "var a;try{}catch([b=a,c=b]){a;let a;}", []int64{0, 1, 0, 2, 1, 3, 3}},
		// the name of a class expression binds the references inside the class (fixed in /repo faa3812)
		{"c04-es:classexpr-name", "(class A{m(){A;}});A;", []int64{0, 0, 1}},
		{"c04-es:classexpr-name", "let A;(class A{static{A;}m(B){A;B;}});A;", []int64{0, 1, 1, 2, 1, 2, 0}},
		// while / do / if / switch bodies are blocks
		{"c04-es:stmt-blocks", "let a;if(a){let a;a;}else{a;}switch(a){case a:let b;b;}b;", []int64{0, 0, 1, 1, 0, 0, 0, 2, 2, 3}},
	} {
		p := c04ParseJS(w.src)
		if p.pan != nil || p.err != nil {
			rep.Violate(w.key+":parse", fmt.Sprintf("%q does not parse: %v %v", w.src, p.err, p.pan), map[string]interface{}{"source": w.src})
			continue
		}
		got, _ := c04CanonVars(p.roots)
		if fmtInts(got) != fmtInts(w.want) {
			rep.Violate(w.key, fmt.Sprintf("%q: ECMAScript partition %v, *Var partition %v", w.src, w.want, got), map[string]interface{}{"source": w.src})
		}
		rep.Eval(w.src, true, "hand-written")
	}
	// parenthesised identifiers and comma lists that turn out not to be arrow heads (UndeclareScope) in a scope that
	// declares the name itself while an enclosing scope has a var of the same name: the uses follow the declaration, so
	// /repo resolves them as ECMAScript does even where the shape of a known deviation is present
	strictKey = "c04-es:paren-cover-shadowed-var"
	c04ParenShadowFamily(func(l []*c04Item) { check(l, "paren-shadow") })
	strictKey = ""
	c04EnumProgs(3, func(l []*c04Item) { check(l, "exhaustive") })
	for i := 0; i < n; i++ {
		check(c04GenProgram(r, 4+i%40, i%5 == 0), "random")
	}
}

// the printer writes the shorthand {c = b} of an object literal under a parenthesis back as it was parsed, and
// {c: c = b} once the property has been a renamed {c: x = b}: the same tree shape, two spellings
var c04ShortInit = regexp.MustCompile(`\b([A-Za-z_$][A-Za-z0-9_$]*): ([A-Za-z_$][A-Za-z0-9_$]*) = `)

func c04Unshort(s string) string {
	return c04ShortInit.ReplaceAllStringFunc(s, func(m string) string {
		g := c04ShortInit.FindStringSubmatch(m)
		if g[1] == g[2] {
			return g[1] + " = "
		}
		return m
	})
}

func c04NamesOf(l []int) []string {
	var out []string
	for _, x := range l {
		out = append(out, c04JsName(x))
	}
	return out
}

func init() {
	props["C04"] = &PropSpec{
		Models:  []*Model{c04ScopeAPIModel, c04ScopeE2EAlgoModel, c04ScopeE2ESpecModel, c04ScopeE2EAMModel},
		Oracles: []*Oracle{{Name: "c04-rename-reprint", Run: c04Oracle}},
	}
}
