package main

import (
	"bytes"
	"fmt"
	"reflect"
	"sort"
	"strings"

	"github.com/tdewolff/parse/v2/js"
)

// ---- C04, Go side of the specification: an ECMAScript resolver for binding programs written
// independently of the Coq one (scope objects and maps instead of environments and counters),
// the early-error check, the syntactic features under which /repo is known to deviate from
// ECMAScript, program generators, the two end-to-end models and the oracle of the property text.

func lexNames(l []*item) []int {
	var out []int
	for _, it := range l {
		if it.kind == kDecl && it.d == dLex {
			out = append(out, it.x)
		}
	}
	return out
}

func headNames(l []*item) []int {
	var out []int
	for _, it := range l {
		if it.kind == kDecl && (it.d == dParam || it.d == dCatch) {
			out = append(out, it.x)
		}
	}
	return out
}

// names that hoist to the enclosing function: var / function declarations of this list and of
// nested blocks, loops and catch clauses
func varNames(l []*item) []int {
	var out []int
	for _, it := range l {
		switch it.kind {
		case kDecl:
			if it.d == dVar || it.d == dFun {
				out = append(out, it.x)
			}
		case kBlock:
			out = append(out, varNames(it.b)...)
		case kFor, kCatch:
			out = append(out, varNames(it.a)...)
			out = append(out, varNames(it.b)...)
		}
	}
	return out
}

type esScope struct {
	id     int
	names  map[int]bool
	parent *esScope
}

type esResolver struct {
	next int
	out  []string
}

func (e *esResolver) scope(parent *esScope, names ...[]int) *esScope {
	s := &esScope{id: e.next, names: map[int]bool{}, parent: parent}
	e.next++
	for _, l := range names {
		for _, n := range l {
			s.names[n] = true
		}
	}
	return s
}

func esLookup(s *esScope, x int) string {
	for ; s != nil; s = s.parent {
		if s.names[x] {
			return fmt.Sprintf("%d:%d", s.id, x)
		}
	}
	return fmt.Sprintf("g:%d", x)
}

func (e *esResolver) walk(l []*item, env, fs, cur *esScope) {
	for _, it := range l {
		switch it.kind {
		case kRef, kPRef:
			e.out = append(e.out, esLookup(env, it.x))
		case kDecl:
			if it.d == dVar || it.d == dFun {
				e.out = append(e.out, fmt.Sprintf("%d:%d", fs.id, it.x))
			} else {
				e.out = append(e.out, fmt.Sprintf("%d:%d", cur.id, it.x))
			}
		case kBlock:
			s := e.scope(env, lexNames(it.b))
			e.walk(it.b, s, fs, s)
		case kFunc, kArrow:
			outer := env
			if it.kind == kFunc && it.nm >= 0 {
				n := e.scope(env, []int{it.nm})
				e.out = append(e.out, fmt.Sprintf("%d:%d", n.id, it.nm))
				outer = n
			}
			f := e.scope(outer, headNames(it.a))
			e.walk(it.a, f, f, f) // default values see every parameter, nothing of the body
			for _, n := range append(varNames(it.b), lexNames(it.b)...) {
				f.names[n] = true
			}
			e.walk(it.b, f, f, f)
		case kArrowId:
			f := e.scope(env, []int{it.x}, varNames(it.b), lexNames(it.b))
			e.out = append(e.out, fmt.Sprintf("%d:%d", f.id, it.x))
			e.walk(it.b, f, f, f)
		case kParen:
			e.walk(it.a, env, fs, cur)
		case kFor:
			h := e.scope(env, lexNames(it.a))
			e.walk(it.a, h, fs, h)
			b := e.scope(h, lexNames(it.b))
			e.walk(it.b, b, fs, b)
		case kCatch:
			c := e.scope(env, headNames(it.a))
			e.walk(it.a, c, fs, c)
			for _, n := range lexNames(it.b) {
				c.names[n] = true
			}
			e.walk(it.b, c, fs, c)
		case kClass:
			outer := env
			if it.nm >= 0 {
				k := e.scope(env, []int{it.nm})
				e.out = append(e.out, fmt.Sprintf("%d:%d", k.id, it.nm))
				outer = k
			}
			e.walk(it.a, outer, fs, cur)
		}
	}
}

// esResolve: for every identifier occurrence, in source order, the declaration it denotes
// ("scope:name") or "g:name" when it is bound nowhere
func esResolve(l []*item) []string {
	e := &esResolver{}
	m := e.scope(nil, varNames(l), lexNames(l))
	e.walk(l, m, m, m)
	return e.out
}

func canonStrings(l []string) []int64 {
	idx := map[string]int{}
	out := make([]int64, len(l))
	for i, s := range l {
		id, ok := idx[s]
		if !ok {
			id = len(idx)
			idx[s] = id
		}
		out[i] = int64(id)
	}
	return out
}

func hasDup(l []int) bool {
	m := map[int]bool{}
	for _, x := range l {
		if m[x] {
			return true
		}
		m[x] = true
	}
	return false
}

func intersects(a, b []int) bool {
	m := map[int]bool{}
	for _, x := range a {
		m[x] = true
	}
	for _, x := range b {
		if m[x] {
			return true
		}
	}
	return false
}

// redeclaration early errors, with function declarations var-like everywhere (the property's
// reading: "var and function hoisting to the enclosing function")
func scopeOK(head []int, b []*item) bool {
	lx := lexNames(b)
	return !hasDup(lx) && !intersects(lx, varNames(b)) && !intersects(lx, head)
}

func esOKrec(l []*item) bool {
	for _, it := range l {
		switch it.kind {
		case kBlock:
			if !scopeOK(nil, it.b) || !esOKrec(it.b) {
				return false
			}
		case kFunc, kArrow:
			hn := headNames(it.a)
			if hasDup(hn) || !scopeOK(hn, it.b) || !esOKrec(it.a) || !esOKrec(it.b) {
				return false
			}
		case kArrowId:
			if !scopeOK([]int{it.x}, it.b) || !esOKrec(it.b) {
				return false
			}
		case kParen, kClass:
			if !esOKrec(it.a) {
				return false
			}
		case kFor:
			hl := lexNames(it.a)
			if hasDup(hl) || intersects(hl, varNames(it.b)) || !scopeOK(nil, it.b) || !esOKrec(it.a) || !esOKrec(it.b) {
				return false
			}
		case kCatch:
			hn := headNames(it.a)
			if hasDup(hn) || !scopeOK(hn, it.b) || !esOKrec(it.a) || !esOKrec(it.b) {
				return false
			}
		}
	}
	return true
}

func esOK(l []*item) bool { return scopeOK(nil, l) && esOKrec(l) }

// ---- known deviations of /repo from ECMAScript, as syntactic features of the program ------------

// mentions: every name that occurs in l (over-approximation of "free in l")
func mentions(l []*item, m map[int]bool) {
	for _, x := range occNames(l, nil) {
		m[x] = true
	}
}

func featuresRec(l []*item, f map[string]bool, oracle bool) {
	for _, it := range l {
		switch it.kind {
		case kParen:
			if oracle {
				_, gs := groups(it.a)
				for _, g := range gs {
					if patternDefaultHazard(g, 4) {
						f["arrow-head-pattern-default"] = true
					}
				}
			}
		case kFunc, kArrow:
			if oracle && it.kind == kFunc && restHazard(it.a) {
				f["rest-param-skips-markfuncargs"] = true
			}
			if oracle && it.kind == kArrow {
				_, gs := groups(it.a)
				for _, g := range gs {
					if patternDefaultHazard(g, 5) {
						f["arrow-head-pattern-default"] = true
					}
				}
			}
			// default values that mention a later parameter, or a name the body declares
			_, gs := groups(it.a)
			later := map[int]bool{}
			for i := len(gs) - 1; i >= 0; i-- {
				m := map[int]bool{}
				mentions(gs[i][1:], m)
				for x := range m {
					if later[x] {
						f["fwd-param"] = true
					}
				}
				later[gs[i][0].x] = true
			}
			m := map[int]bool{}
			for _, g := range gs {
				mentions(g[1:], m)
			}
			for _, x := range append(varNames(it.b), lexNames(it.b)...) {
				if m[x] && !later[x] && !(oracle && it.kind == kFunc && restHazard(it.a)) {
					f["default-captures-body-ref"] = true
				}
			}
			if it.kind == kFunc && it.nm >= 0 {
				for _, x := range append(append(varNames(it.b), lexNames(it.b)...), headNames(it.a)...) {
					if x == it.nm {
						f["funcexpr-name-redeclared"] = true
					}
				}
			}
		case kClass:
			if it.nm >= 0 {
				m := map[int]bool{}
				mentions(it.a, m)
				if m[it.nm] {
					f["classexpr-name"] = true
				}
			}
		case kCatch:
			// Annex B: var / function redeclaring the catch parameter; ECMAScript resolves references
			// in the catch block to the parameter, /repo to whichever it finds first
			if intersects(headNames(it.a), varNames(it.b)) {
				f["catch-param-var-redeclared"] = true
			}
			// the catch parameter and the catch block share one Scope in /repo: a default value in
			// the parameter pattern that mentions a name the block declares lexically
			{
				m := map[int]bool{}
				mentions(it.a, m)
				for _, x := range lexNames(it.b) {
					if m[x] {
						f["catch-head-ref-shadowed-in-body"] = true
					}
				}
			}
		case kFor:
			// the loop head and the body block share one Scope in /repo: a name the head mentions
			// (declaration or reference) and the body block declares lexically
			m := map[int]bool{}
			mentions(it.a, m)
			for _, x := range lexNames(it.b) {
				if m[x] {
					f["loop-head-shadowed-in-body"] = true
				}
			}
		}
		featuresRec(it.a, f, oracle)
		featuresRec(it.b, f, oracle)
	}
}

func features(l []*item) []string { return featuresMode(l, false) }

func featuresMode(l []*item, oracle bool) []string {
	f := map[string]bool{}
	featuresRec(l, f, oracle)
	var out []string
	for k := range f {
		out = append(out, k)
	}
	sort.Strings(out)
	return out
}

// ---- program generators --------------------------------------------------------------------------

type progGen struct {
	r     *Rng
	names int
	core  bool // only Block / Func (no name, no defaults) / Decl var,let,function,param / Ref
	left  int
}

func (g *progGen) name() int { return g.r.Intn(g.names) }

func (g *progGen) style() int { return g.r.Intn(1 << 20) }

func (g *progGen) mk(kind int) *item { return &item{kind: kind, nm: -1, style: g.style()} }

func (g *progGen) exprItem(depth int) *item {
	g.left--
	x := g.r.Intn(100)
	if depth <= 0 || g.left <= 0 || x < 45 {
		it := g.mk(kRef)
		it.x = g.name()
		return it
	}
	switch {
	case x < 60:
		return g.fn(depth, true)
	case x < 70:
		it := g.mk(kArrow)
		it.a = g.params(depth - 1)
		it.b = g.stmts(depth-1, 3)
		return it
	case x < 80:
		it := g.mk(kArrowId)
		it.x = g.name()
		it.b = g.stmts(depth-1, 3)
		return it
	case x < 92:
		return g.paren(depth)
	default:
		it := g.mk(kClass)
		if g.r.Bool() {
			it.nm = g.name()
		}
		it.a = g.members(depth - 1)
		return it
	}
}

func (g *progGen) exprItems(depth, max int) []*item {
	n := g.r.Intn(max + 1)
	var l []*item
	for i := 0; i < n; i++ {
		l = append(l, g.exprItem(depth))
	}
	return l
}

func (g *progGen) fn(depth int, allowName bool) *item {
	it := g.mk(kFunc)
	if allowName && !g.core && g.r.Chance(1, 3) {
		it.nm = g.name()
	}
	it.a = g.params(depth - 1)
	it.b = g.stmts(depth-1, 4)
	return it
}

func (g *progGen) params(depth int) []*item {
	var l []*item
	n := g.r.Intn(3)
	for i := 0; i < n; i++ {
		d := g.mk(kDecl)
		d.d = dParam
		d.x = g.name()
		l = append(l, d)
		if !g.core && g.r.Chance(1, 3) {
			l = append(l, g.exprItems(depth, 2)...)
		}
	}
	return l
}

func (g *progGen) paren(depth int) *item {
	it := g.mk(kParen)
	if g.r.Chance(2, 3) {
		n := 1 + g.r.Intn(3)
		for i := 0; i < n; i++ {
			p := g.mk(kPRef)
			p.x = g.name()
			it.a = append(it.a, p)
			if g.r.Chance(1, 4) {
				it.a = append(it.a, g.exprItems(depth-1, 2)...)
			}
		}
	} else {
		it.a = append(it.a, g.exprItem(depth-1))
		it.a = append(it.a, g.exprItems(depth-1, 2)...)
	}
	return it
}

func (g *progGen) members(depth int) []*item {
	var l []*item
	n := g.r.Intn(3)
	for i := 0; i < n; i++ {
		if g.r.Bool() {
			l = append(l, g.fn(depth, false))
		} else {
			l = append(l, g.exprItem(depth))
		}
	}
	return l
}

func (g *progGen) stmts(depth int, max int) []*item {
	var l []*item
	n := g.r.Intn(max + 1)
	for i := 0; i < n && g.left > 0; i++ {
		g.left--
		x := g.r.Intn(100)
		decl := func(d int) *item {
			it := g.mk(kDecl)
			it.d = d
			it.x = g.name()
			return it
		}
		switch {
		case x < 30 || depth <= 0:
			it := g.mk(kRef)
			it.x = g.name()
			l = append(l, it)
		case x < 40:
			l = append(l, decl(dVar))
		case x < 50:
			l = append(l, decl(dLex))
		case x < 57:
			l = append(l, decl(dFun), g.fn(depth, false))
		case x < 67:
			it := g.mk(kBlock)
			it.b = g.stmts(depth-1, 4)
			l = append(l, it)
		case x < 74:
			l = append(l, g.fn(depth, true))
		case g.core:
			it := g.mk(kRef)
			it.x = g.name()
			l = append(l, it)
		case x < 79:
			it := g.mk(kArrow)
			it.a = g.params(depth - 1)
			it.b = g.stmts(depth-1, 3)
			l = append(l, it)
		case x < 83:
			it := g.mk(kArrowId)
			it.x = g.name()
			it.b = g.stmts(depth-1, 3)
			l = append(l, it)
		case x < 88:
			l = append(l, g.paren(depth))
		case x < 93:
			it := g.mk(kFor)
			if g.r.Chance(2, 3) {
				d := []int{dVar, dLex}[g.r.Intn(2)]
				nd := 1 + g.r.Intn(2)
				for j := 0; j < nd; j++ {
					de := g.mk(kDecl)
					de.d = d
					de.x = g.name()
					it.a = append(it.a, de)
					it.a = append(it.a, g.exprItems(depth-1, 2)...)
				}
			} else {
				it.a = g.exprItems(depth-1, 2)
			}
			it.b = g.stmts(depth-1, 4)
			l = append(l, it)
		case x < 97:
			b := g.mk(kBlock)
			b.b = g.stmts(depth-1, 2)
			c := g.mk(kCatch)
			nc := g.r.Intn(3)
			if nc == 2 && g.r.Bool() {
				nc = 1
			}
			for j := 0; j < nc; j++ {
				de := g.mk(kDecl)
				de.d = dCatch
				de.x = g.name()
				c.a = append(c.a, de)
				if g.r.Chance(1, 5) {
					c.a = append(c.a, g.exprItems(depth-1, 1)...)
				}
			}
			c.b = g.stmts(depth-1, 4)
			l = append(l, b, c)
		default:
			if g.r.Bool() {
				l = append(l, decl(dLex))
			}
			it := g.mk(kClass)
			if len(l) == 0 || l[len(l)-1].kind != kDecl {
				if g.r.Bool() {
					it.nm = g.name()
				}
			}
			it.a = g.members(depth - 1)
			l = append(l, it)
		}
	}
	return l
}

func genProgram(r *Rng, size int, core bool) []*item {
	g := &progGen{r: r, names: 2 + r.Intn(3), core: core, left: size}
	for try := 0; ; try++ {
		g.left = size
		l := g.stmts(2+r.Intn(3), 2+size/3)
		if !renderable(l, 0) {
			continue
		}
		// mostly programs without redeclaration errors
		if esOK(l) || try > 6 || r.Chance(1, 8) {
			return l
		}
	}
}

// exhaustive small scope: every statement list of total size <= n over two names and the core
// constructs plus one representative of every other construct
func enumProgs(n int, emit func([]*item)) {
	leaf := func(kind, d, x int) *item { return &item{kind: kind, d: d, x: x, nm: -1} }
	type shape struct {
		size int
		mk   func(body []*item) []*item
	}
	var rec func(budget int, prefix []*item)
	bodies := func(budget int, f func([]*item)) {
		var r2 func(b int, p []*item)
		r2 = func(b int, p []*item) {
			f(append([]*item{}, p...))
			if b <= 0 {
				return
			}
			for _, lf := range []*item{leaf(kRef, 0, 0), leaf(kRef, 0, 1), leaf(kDecl, dVar, 0), leaf(kDecl, dLex, 0)} {
				r2(b-1, append(p, lf))
			}
			if b >= 2 {
				// one level of nesting inside bodies
				r2(b-2, append(p, &item{kind: kBlock, nm: -1, b: []*item{leaf(kRef, 0, 0)}}))
				r2(b-2, append(p, &item{kind: kBlock, nm: -1, b: []*item{leaf(kDecl, dVar, 0)}}))
				r2(b-2, append(p, &item{kind: kFunc, nm: -1, b: []*item{leaf(kRef, 0, 0)}}))
			}
		}
		r2(budget, nil)
	}
	rec = func(budget int, prefix []*item) {
		emit(append([]*item{}, prefix...))
		if budget <= 0 {
			return
		}
		for _, lf := range []*item{leaf(kRef, 0, 0), leaf(kRef, 0, 1), leaf(kDecl, dVar, 0), leaf(kDecl, dLex, 0), leaf(kDecl, dLex, 1)} {
			rec(budget-1, append(prefix, lf))
		}
		if budget >= 2 {
			bodies(budget-2, func(b []*item) {
				rest := budget - 2 - len(flatSize(b))
				rec(rest, append(prefix, leaf(kDecl, dFun, 0), &item{kind: kFunc, nm: -1, b: b}))
			})
		}
		bodies(budget-1, func(b []*item) {
			rest := budget - 1 - len(flatSize(b))
			rec(rest, append(prefix, &item{kind: kBlock, nm: -1, b: b}))
			rec(rest, append(prefix, &item{kind: kFunc, nm: -1, b: b}))
			if rest >= 0 && budget >= 2 {
				rec(rest-1, append(prefix, &item{kind: kFunc, nm: -1, a: []*item{leaf(kDecl, dParam, 0)}, b: b}))
				rec(rest-1, append(prefix, &item{kind: kArrowId, x: 0, nm: -1, b: b}))
				rec(rest-1, append(prefix, &item{kind: kFor, nm: -1, a: []*item{leaf(kDecl, dLex, 0)}, b: b}))
				rec(rest-1, append(prefix, &item{kind: kFunc, nm: 0, b: b}))
			}
		})
		rec(budget-1, append(prefix, &item{kind: kParen, nm: -1, a: []*item{leaf(kPRef, 0, 0)}}))
		if budget >= 2 {
			rec(budget-2, append(prefix, &item{kind: kParen, nm: -1, a: []*item{leaf(kPRef, 0, 0), leaf(kPRef, 0, 1)}}))
			rec(budget-2, append(prefix, &item{kind: kBlock, nm: -1}, &item{kind: kCatch, nm: -1, a: []*item{leaf(kDecl, dCatch, 0)}, b: []*item{leaf(kDecl, dVar, 0)}}))
		}
	}
	rec(n, nil)
}

// flatSize returns one element per item of l, nested ones included (only its length is used)
func flatSize(l []*item) []int {
	var out []int
	for _, it := range l {
		out = append(out, 0)
		out = append(out, flatSize(it.a)...)
		out = append(out, flatSize(it.b)...)
	}
	return out
}

func describeProg(l []*item) string { return renderProg(l, false) }

func e2eCase(fn string, l []*item, note string) Case {
	return Case{Fn: fn, Args: stylesOf(l, encodeProg(l, nil)), Note: note + renderProg(l, false)}
}

func removeOne(l []*item, k *int) ([]*item, bool) {
	for i, it := range l {
		if *k == 0 {
			out := append(append([]*item{}, l[:i]...), l[i+1:]...)
			return out, true
		}
		*k--
		for _, sub := range []*[]*item{&it.a, &it.b} {
			if nl, ok := removeOne(*sub, k); ok {
				c := *it
				if sub == &it.a {
					c.a = nl
				} else {
					c.b = nl
				}
				out := append([]*item{}, l...)
				out[i] = &c
				return out, true
			}
		}
	}
	return l, false
}

func shrinkProg(c Case) []Case {
	l := progOfCase(c)
	var out []Case
	for k := 0; k < 200; k++ {
		kk := k
		nl, ok := removeOne(l, &kk)
		if !ok {
			break
		}
		if !renderable(nl, 0) {
			continue
		}
		out = append(out, e2eCase(c.Fn, nl, "shrunk: "))
	}
	return out
}

func e2eClass(c Case, out []int64) string {
	l := progOfCase(c)
	kinds := map[int]bool{}
	var rec func(l []*item)
	rec = func(l []*item) {
		for _, it := range l {
			kinds[it.kind] = true
			rec(it.a)
			rec(it.b)
		}
	}
	rec(l)
	s := "core"
	for k := range kinds {
		if k != kRef && k != kDecl && k != kBlock && k != kFunc {
			s = "full"
		}
	}
	if f := features(l); len(f) > 0 {
		s += "/quirk"
	}
	switch {
	case len(out) == 0:
		s += "/empty"
	case out[0] == 1:
		s += "/resolved"
	case out[0] == 0:
		s += "/rejected"
	default:
		s += fmt.Sprintf("/code%d", out[0])
	}
	return s
}

var scopeE2EAlgoModel = &Model{
	Name: "scope_e2e_algo",
	Gen: func(r *Rng, tier string, emit func(Case)) {
		k, n := 4, 4000
		if tier == "thorough" {
			k, n = 5, 200000
		}
		enumProgs(k, func(l []*item) {
			if renderable(l, 0) {
				emit(e2eCase("scope_e2e_algo", l, "exhaustive: "))
			}
		})
		for i := 0; i < n; i++ {
			l := genProgram(r, 3+i%30, i%4 == 0)
			emit(e2eCase("scope_e2e_algo", l, "random: "))
		}
	},
	Impl:   e2eAlgoImpl,
	Shrink: shrinkProg,
	Class:  e2eClass,
}

var scopeE2ESpecModel = &Model{
	Name: "scope_e2e_spec",
	Gen: func(r *Rng, tier string, emit func(Case)) {
		k, n := 4, 4000
		if tier == "thorough" {
			k, n = 5, 200000
		}
		enumProgs(k, func(l []*item) {
			if renderable(l, 0) && len(features(l)) == 0 {
				emit(e2eCase("scope_e2e_spec", l, "exhaustive: "))
			}
		})
		for i := 0; i < n; i++ {
			l := genProgram(r, 3+i%30, i%4 == 0)
			if len(features(l)) == 0 {
				emit(e2eCase("scope_e2e_spec", l, "random: "))
			}
		}
	},
	Impl:   e2eSpecImpl,
	Shrink: shrinkProg,
	Class:  e2eClass,
}

// inCore: the fragment the Coq label machine (and resolution_correct) covers: Block, anonymous
// Func whose parameter list has no default values, Decl var/let/function/param, Ref
func inCore(l []*item, ctx int) bool {
	for _, it := range l {
		switch it.kind {
		case kRef:
			if ctx != 0 {
				return false
			}
		case kDecl:
			if ctx == 1 && it.d != dParam || ctx == 0 && (it.d == dParam || it.d == dCatch) {
				return false
			}
		case kBlock:
			if ctx != 0 || !inCore(it.b, 0) {
				return false
			}
		case kFunc:
			if ctx != 0 || it.nm >= 0 || !inCore(it.a, 1) || !inCore(it.b, 0) {
				return false
			}
		default:
			return false
		}
	}
	return true
}

func e2eAMImpl(c Case) []int64 {
	l := progOfCase(c)
	out, p, _ := e2eObserve(l, false)
	if len(out) == 0 || out[0] != 1 {
		return out
	}
	n := int(out[1])
	res := append([]int64{}, out[:2+n]...)
	_, reps := canonVars(p.roots)
	for _, r := range reps {
		g := int64(0)
		if r.Decl == js.NoDecl {
			g = 1
		}
		res = append(res, g)
	}
	return res
}

var scopeE2EAMModel = &Model{
	Name: "scope_e2e_am",
	Gen: func(r *Rng, tier string, emit func(Case)) {
		k, n := 4, 6000
		if tier == "thorough" {
			k, n = 5, 200000
		}
		enumProgs(k, func(l []*item) {
			if renderable(l, 0) && inCore(l, 0) {
				emit(e2eCase("scope_e2e_am", l, "exhaustive: "))
			}
		})
		for i := 0; i < n; i++ {
			l := genProgram(r, 3+i%40, true)
			if inCore(l, 0) {
				emit(e2eCase("scope_e2e_am", l, "random: "))
			}
		}
	},
	Impl:   e2eAMImpl,
	Shrink: shrinkProg,
	Class:  e2eClass,
}

// ---- oracle: the property text on the implementation ---------------------------------------------

func collectAll(p *parsed) []*js.Var {
	var occ []*js.Var
	collectVars(reflect.ValueOf(p.ast.List), &occ)
	return occ
}

func printJS(ast *js.AST) string {
	var buf bytes.Buffer
	ast.JS(&buf)
	return buf.String()
}

func countWord(s, w string) int {
	n := 0
	for i := 0; ; {
		j := strings.Index(s[i:], w)
		if j < 0 {
			return n
		}
		n++
		i += j + len(w)
	}
}

func c04Oracle(r *Rng, tier string, rep *Report) {
	n := 6000
	if tier == "thorough" {
		n = 300000
	}
	check := func(l []*item, origin string) {
		if !renderable(l, 0) {
			return
		}
		src := renderProgOracle(l)
		feats := featuresMode(l, true)
		bucket := "plain"
		if len(feats) > 0 {
			bucket = strings.Join(feats, "+")
		}
		ok := esOK(l)
		if !ok {
			bucket = "early-error"
		}
		replay := map[string]interface{}{"source": src, "program": fmtInts(encodeProg(l, nil)), "origin": origin}
		p := parseJS(src)
		if p.pan != nil {
			rep.Violate("c04-panic:"+src, fmt.Sprintf("js.Parse panics on %q: %v", src, p.pan), replay)
			rep.Eval(src, true, "panic")
			return
		}
		if !ok {
			rep.Eval(src, false, bucket)
			return
		}
		if p.err != nil {
			// a deviation is attributed to a known finding only when exactly one of the known
			// features is present; with none it is a new violation
			switch len(feats) {
			case 0:
				rep.Violate("c04-reject:unclassified:"+src, fmt.Sprintf("a program without redeclaration error is rejected: %q: %v", src, p.err), replay)
			case 1:
				rep.Violate("c04-reject:"+feats[0], fmt.Sprintf("a program without redeclaration error is rejected: %q: %v", src, p.err), replay)
			}
			rep.Eval(src, true, "rejected/"+bucket)
			return
		}
		want := occNames(l, nil)
		if len(want) != len(p.occ) {
			rep.Violate("c04-harness:occurrences", fmt.Sprintf("%q: expected %d identifier occurrences, tree has %d", src, len(want), len(p.occ)), replay)
			return
		}
		// (1) ECMAScript resolution: same partition, globals are undeclared variables of the module scope
		es := esResolve(l)
		esCanon := canonStrings(es)
		implCanon, reps := canonVars(p.roots)
		nontrivial := len(reps) < len(p.roots) && len(reps) > 1
		mismatch := ""
		if fmtInts(esCanon) != fmtInts(implCanon) {
			mismatch = fmt.Sprintf("occurrences %v: ECMAScript partition %v, *Var partition %v", namesOf(want), esCanon, implCanon)
		} else {
			for i, t := range es {
				root := p.roots[i]
				if strings.HasPrefix(t, "g:") != (root.Decl == js.NoDecl) {
					mismatch = fmt.Sprintf("occurrence %d (%s): resolves to %s but Decl=%v", i, jsName(want[i]), t, root.Decl)
				} else if strings.HasPrefix(t, "g:") && inVarList(root, p.ast.Scope.Undeclared) == 0 {
					mismatch = fmt.Sprintf("occurrence %d (%s) is bound nowhere but its Var is not an undeclared variable of the outermost scope", i, jsName(want[i]))
				}
			}
		}
		if mismatch != "" {
			switch len(feats) {
			case 0:
				rep.Violate("c04-es:unclassified:"+src, fmt.Sprintf("%q: %s", src, mismatch), replay)
			case 1:
				rep.Violate("c04-es:"+feats[0], fmt.Sprintf("%q: %s", src, mismatch), replay)
			}
			bucket = "deviates/" + bucket
		}
		// (2) every Var's Uses equals the number of occurrences that denote it
		cnt := map[*js.Var]int{}
		for _, v := range p.roots {
			cnt[v]++
		}
		for _, v := range reps {
			if int(v.Uses) != cnt[v] {
				rep.Violate("c04-uses:"+src, fmt.Sprintf("%q: Var %s has Uses=%d but %d occurrences", src, v.Data, v.Uses, cnt[v]), replay)
			}
		}
		// (3) rename every declared Var, print, count, re-parse, compare structure
		before := printJS(p.ast)
		orig := map[*js.Var][]byte{}
		fresh := map[*js.Var]string{}
		for i, v := range reps {
			if v.Decl != js.NoDecl {
				orig[v] = v.Data
				fresh[v] = fmt.Sprintf("q%04dq", i)
				v.Data = []byte(fresh[v])
			}
		}
		renamed := printJS(p.ast)
		for v, f := range fresh {
			if c := countWord(renamed, f); c != int(v.Uses) {
				rep.Violate("c04-print-count:"+src, fmt.Sprintf("%q: Var %s (renamed %s) has Uses=%d but its name is printed %d times in %q", src, orig[v], f, v.Uses, c, renamed), replay)
			}
		}
		p2 := parseJS(renamed)
		if p2.pan != nil || p2.err != nil {
			rep.Violate("c04-rename-reparse:"+src, fmt.Sprintf("%q renamed to %q does not parse: %v %v", src, renamed, p2.err, p2.pan), replay)
		} else {
			c2, reps2 := canonVars(p2.roots)
			if fmtInts(c2) != fmtInts(implCanon) {
				rep.Violate("c04-rename-structure:"+src, fmt.Sprintf("%q renamed to %q: partition %v became %v", src, renamed, implCanon, c2), replay)
			} else {
				for i := range reps2 {
					if reps2[i].Decl != reps[i].Decl || reps2[i].Uses != reps[i].Uses {
						rep.Violate("c04-rename-structure:"+src, fmt.Sprintf("%q renamed to %q: class %d kind/uses %v/%d became %v/%d", src, renamed, i, reps[i].Decl, reps[i].Uses, reps2[i].Decl, reps2[i].Uses), replay)
					}
				}
				// rename back through the second tree's own binding structure
				for i, v := range reps2 {
					if o, ok := orig[reps[i]]; ok {
						v.Data = o
					}
				}
				if back := printJS(p2.ast); back != before {
					rep.Violate("c04-rename-roundtrip:"+src, fmt.Sprintf("%q: renaming, re-parsing and renaming back prints %q instead of %q", src, back, before), replay)
				}
			}
		}
		rep.Eval(src, nontrivial, bucket)
	}
	enumProgs(3, func(l []*item) { check(l, "exhaustive") })
	for i := 0; i < n; i++ {
		check(genProgram(r, 4+i%40, i%5 == 0), "random")
	}
}

func namesOf(l []int) []string {
	var out []string
	for _, x := range l {
		out = append(out, jsName(x))
	}
	return out
}

func init() {
	props["C04"] = &PropSpec{
		Models:  []*Model{scopeAPIModel, scopeE2EAlgoModel, scopeE2ESpecModel, scopeE2EAMModel},
		Oracles: []*Oracle{{Name: "c04-rename-reprint", Run: c04Oracle}},
	}
}
