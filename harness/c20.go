package main

import (
	"bytes"
	"fmt"
	"os"
	"os/exec"
	"regexp"
	"runtime"
	"strings"
	"sync"

	"verifharness/c20ep"
)

// ---- C20: independence and race freedom -----------------------------------------------------------------
//
// No hand-written model of control flow is tied to the code here (the Coq side is an abstract action
// semantics instantiated by translator T5's scan of the source), so there is no correspondence model.
// The oracles check the property text on the implementation:
//   c20-concurrent   N goroutines x every entry point on private data, under a GOMAXPROCS sweep and with
//                    runtime.Gosched injected between library calls; every result must equal the result
//                    of the same call made alone (sequential baseline)
//   c20-order        the same calls made sequentially in random orders, and repeated: results must not
//                    depend on what ran before
//   c20-race         the same workload built with `go build -race` and run as a separate binary; any
//                    report of the race detector is a violation

type c20Task struct {
	ep   int
	seed uint64
}

func c20Tasks(r *Rng, n int) []c20Task {
	var ts []c20Task
	for i := 0; i < n; i++ {
		for e := range c20ep.EPs {
			ts = append(ts, c20Task{e, r.U64()})
		}
	}
	return ts
}

func c20Baseline(ts []c20Task) ([]uint64, []string) {
	base := make([]uint64, len(ts))
	pan := make([]string, len(ts))
	for i, t := range ts {
		base[i], pan[i] = c20ep.RunSafe(c20ep.EPs[t.ep], t.seed, func() {})
	}
	return base, pan
}

// set by the race-detector oracle (which runs first, in a separate process) when it saw a race or a
// fatal runtime error: the in-process concurrent run could then kill the harness itself
var c20Unsafe bool

func c20Concurrent(r *Rng, tier string, rep *Report) {
	if c20Unsafe {
		rep.Histogram["skipped: the race-detector run already failed"]++
		return
	}
	rounds := 500
	if tier == "thorough" {
		rounds = 10000
	}
	ts := c20Tasks(r, rounds)
	base, pan := c20Baseline(ts)
	for i, p := range pan {
		if p != "" {
			rep.Histogram["panic:"+c20ep.EPs[ts[i].ep].Name]++
		}
	}
	old := runtime.GOMAXPROCS(0)
	defer runtime.GOMAXPROCS(old)
	for _, procs := range []int{1, 2, 4, 8} {
		for _, inject := range []bool{false, true} {
			runtime.GOMAXPROCS(procs)
			ng := 8
			var wg sync.WaitGroup
			var mu sync.Mutex
			type diff struct {
				i   int
				got uint64
			}
			var diffs []diff
			for g := 0; g < ng; g++ {
				wg.Add(1)
				perm := make([]int, len(ts))
				for k := range perm {
					perm[k] = k
				}
				for k := len(perm) - 1; k > 0; k-- {
					j := r.Intn(k + 1)
					perm[k], perm[j] = perm[j], perm[k]
				}
				go func(perm []int) {
					defer wg.Done()
					yield := func() {}
					if inject {
						yield = runtime.Gosched
					}
					for _, i := range perm {
						h, _ := c20ep.RunSafe(c20ep.EPs[ts[i].ep], ts[i].seed, yield)
						if h != base[i] {
							mu.Lock()
							diffs = append(diffs, diff{i, h})
							mu.Unlock()
						}
					}
				}(perm)
			}
			wg.Wait()
			for _, d := range diffs {
				name := c20ep.EPs[ts[d.i].ep].Name
				rep.Violate("c20:concurrent-differs:"+name,
					fmt.Sprintf("%s(seed=%d) returned fingerprint %x under %d goroutines (GOMAXPROCS=%d, gosched=%v) but %x when run alone", name, ts[d.i].seed, d.got, ng, procs, inject, base[d.i]),
					map[string]interface{}{"entry_point": name, "seed": ts[d.i].seed, "gomaxprocs": procs, "gosched": inject})
			}
			for i := range ts {
				rep.Eval(fmt.Sprintf("%s/%d/p%d/%v", c20ep.EPs[ts[i].ep].Name, ts[i].seed, procs, inject), true,
					fmt.Sprintf("%s/procs=%d/gosched=%v", c20ep.EPs[ts[i].ep].Name, procs, inject))
			}
		}
	}
}

func c20Order(r *Rng, tier string, rep *Report) {
	rounds := 300
	perms := 6
	if tier == "thorough" {
		rounds, perms = 5000, 20
	}
	ts := c20Tasks(r, rounds)
	base, _ := c20Baseline(ts)
	for p := 0; p < perms; p++ {
		perm := make([]int, len(ts))
		for k := range perm {
			perm[k] = k
		}
		for k := len(perm) - 1; k > 0; k-- {
			j := r.Intn(k + 1)
			perm[k], perm[j] = perm[j], perm[k]
		}
		for pos, i := range perm {
			// every call is made twice in a row as well: the second result must equal the first
			for rpt := 0; rpt < 2; rpt++ {
				h, _ := c20ep.RunSafe(c20ep.EPs[ts[i].ep], ts[i].seed, func() {})
				if h != base[i] {
					name := c20ep.EPs[ts[i].ep].Name
					prev := "(first call)"
					if pos > 0 {
						prev = c20ep.EPs[ts[perm[pos-1]].ep].Name
					}
					rep.Violate("c20:order-differs:"+name,
						fmt.Sprintf("%s(seed=%d) returned %x after %s, but %x in the baseline order", name, ts[i].seed, h, prev, base[i]),
						map[string]interface{}{"entry_point": name, "seed": ts[i].seed, "previous": prev})
				}
			}
			rep.Eval(fmt.Sprintf("%s/%d/perm%d", c20ep.EPs[ts[i].ep].Name, ts[i].seed, p), true, c20ep.EPs[ts[i].ep].Name)
		}
	}
}

var raceFrameRe = regexp.MustCompile(`(?m)^\s+(github\.com/tdewolff/parse/v2[^\s(]*)\(`)

func c20Race(r *Rng, tier string, rep *Report) {
	bin := verifRoot + "/harness/bin/c20race"
	env := append(os.Environ(), "CGO_ENABLED=1", "GOFLAGS=-mod=mod", "GOPROXY=off", "GOSUMDB=off", "GOTOOLCHAIN=local")
	args := []string{"build", "-race", "-tags", "verif"}
	if os.Getenv("VERIF_REPO") != "" {
		// the check wrote go.alt.mod (replace => $VERIF_REPO) for a run against a scratch copy of the library
		if _, err := os.Stat(verifRoot + "/harness/go.alt.mod"); err == nil {
			args = append(args, "-modfile", verifRoot+"/harness/go.alt.mod")
		}
	}
	build := exec.Command("go", append(args, "-o", bin, "./cmd/c20race")...)
	build.Dir = verifRoot + "/harness"
	build.Env = env
	if out, err := build.CombinedOutput(); err != nil {
		// no race detector on this machine: say so in the evidence, do not pretend
		rep.Histogram["race-detector-unavailable"]++
		rep.Samples = append(rep.Samples, "go build -race failed: "+trunc(strings.TrimSpace(string(out)), 300))
		return
	}
	rounds := "60"
	if tier == "thorough" {
		rounds = "1500"
	}
	for _, procs := range []string{"2", "8"} {
		cmd := exec.Command(bin, "-seed", fmt.Sprint(r.U64()%1000000), "-goroutines", "8", "-rounds", rounds, "-procs", procs)
		cmd.Env = append(env, "GORACE=exitcode=66 halt_on_error=0")
		var stdout, stderr bytes.Buffer
		cmd.Stdout, cmd.Stderr = &stdout, &stderr
		err := cmd.Run()
		out := stdout.String()
		n := 0
		fmt.Sscanf(out[strings.LastIndex(out, "DONE")+len("DONE "):], "tasks=%d", &n)
		if i := strings.Index(stderr.String(), "fatal error:"); i >= 0 {
			c20Unsafe = true
			msg := stderr.String()[i:]
			if j := strings.Index(msg, "\n"); j >= 0 {
				msg = msg[:j]
			}
			rep.Violate("c20:"+msg, "the concurrent workload died with a Go runtime "+msg+": "+trunc(stderr.String()[i:], 1500),
				map[string]interface{}{"cmd": strings.Join(cmd.Args, " ")})
		}
		if strings.Contains(stderr.String(), "WARNING: DATA RACE") {
			c20Unsafe = true
			for _, blk := range strings.Split(stderr.String(), "==================") {
				if !strings.Contains(blk, "DATA RACE") {
					continue
				}
				frame := "unknown"
				if m := raceFrameRe.FindStringSubmatch(blk); m != nil {
					frame = m[1]
				}
				rep.Violate("c20:race:"+frame, "the race detector reports a data race in "+frame+": "+trunc(strings.TrimSpace(blk), 1200),
					map[string]interface{}{"cmd": strings.Join(cmd.Args, " "), "frame": frame})
			}
		} else if err != nil && !c20Unsafe {
			rep.Violate("c20:race-run-failed", "c20race failed: "+err.Error()+" "+trunc(out+stderr.String(), 600),
				map[string]interface{}{"cmd": strings.Join(cmd.Args, " ")})
		}
		for i := 0; i < n*8; i++ {
			rep.Eval(fmt.Sprintf("race/p%s/%d", procs, i), true, "race-detector/procs="+procs)
		}
	}
}

// ---- correspondence model "conc": the abstract interleaving semantics against real goroutines ----------
//
// The Coq semantics (Conc/Model.v: run) executes little programs over Global / Owned locations under a
// schedule.  Here the same programs are executed by real goroutines on a shared Go map; the schedule is
// enforced by handing a token over channels (so every step happens-before the next and the execution is
// the sequentially consistent interleaving the model describes).  This ties the meaning of "interleaving
// of atomic actions" in the theorems to what goroutines do; it says nothing about /repo.

type concLoc struct{ tag, a, b int64 }

func concInit(l concLoc) int64 {
	if l.tag == 0 {
		return 10 + l.a
	}
	return 100*l.a + l.b
}

func concImpl(c Case) []int64 {
	a := c.Args
	if len(a) == 0 {
		return []int64{-1}
	}
	nt := int(a[0])
	a = a[1:]
	type instr struct{ op, a, b, c int64 }
	progs := make([][]instr, nt)
	for t := 0; t < nt; t++ {
		if len(a) == 0 {
			progs = progs[:t]
			break
		}
		ni := int(a[0])
		a = a[1:]
		for k := 0; k < ni; k++ {
			if len(a) < 4 {
				// the Coq decoder drops a truncated thread list entirely
				return concTruncated(c)
			}
			progs[t] = append(progs[t], instr{a[0], a[1], a[2], a[3]})
			a = a[4:]
		}
	}
	sched := a
	mem := map[concLoc]int64{}
	get := func(l concLoc) int64 {
		if v, ok := mem[l]; ok {
			return v
		}
		return concInit(l)
	}
	loc := func(i instr) concLoc {
		if i.a == 0 {
			return concLoc{0, max64(i.b, 0), 0}
		}
		return concLoc{1, max64(i.b, 0), max64(i.c, 0)}
	}
	type turn struct{ done chan []int64 }
	n := len(progs)
	tokens := make([]chan turn, n)
	finished := make([]bool, n)
	results := make([]int64, n)
	var wg sync.WaitGroup
	for t := 0; t < n; t++ {
		tokens[t] = make(chan turn)
		wg.Add(1)
		go func(t int) {
			defer wg.Done()
			acc := int64(0)
			pc := 0
			ins := progs[t]
			for tk := range tokens[t] {
				// skip over the control-flow instructions: they are not atomic actions of the model
				for pc < len(ins) && ins[pc].op != 0 && ins[pc].op != 1 {
					if acc%2 != 0 {
						pc += int(max64(ins[pc].a, 0))
					}
					pc++
				}
				if pc >= len(ins) {
					finished[t], results[t] = true, acc
					tk.done <- nil
					continue
				}
				i := ins[pc]
				pc++
				l := loc(i)
				if i.op == 0 {
					acc = get(l)
					tk.done <- []int64{int64(t), 0, l.tag, l.a, l.b, acc}
				} else {
					mem[l] = acc + 1
					tk.done <- []int64{int64(t), 1, l.tag, l.a, l.b, acc + 1}
				}
			}
			// after the schedule: has the thread reached its end?
			for pc < len(ins) && ins[pc].op != 0 && ins[pc].op != 1 {
				if acc%2 != 0 {
					pc += int(max64(ins[pc].a, 0))
				}
				pc++
			}
			if pc >= len(ins) {
				finished[t], results[t] = true, acc
			}
		}(t)
	}
	var out []int64
	for _, s := range sched {
		if s < 0 || int(s) >= n {
			continue
		}
		tk := turn{done: make(chan []int64)}
		tokens[s] <- tk
		out = append(out, <-tk.done...)
	}
	for t := 0; t < n; t++ {
		close(tokens[t])
	}
	wg.Wait()
	out = append(out, -1)
	for t := 0; t < n; t++ {
		if finished[t] {
			out = append(out, results[t])
		} else {
			out = append(out, -2)
		}
	}
	return out
}

func concTruncated(c Case) []int64 { return []int64{-1} }

func max64(a, b int64) int64 {
	if a > b {
		return a
	}
	return b
}

func concCase(progs [][][4]int64, sched []int64, note string) Case {
	args := []int64{int64(len(progs))}
	for _, p := range progs {
		args = append(args, int64(len(p)))
		for _, i := range p {
			args = append(args, i[0], i[1], i[2], i[3])
		}
	}
	args = append(args, sched...)
	return Case{Fn: "conc", Args: args, Note: note}
}

func concGen(r *Rng, tier string, emit func(Case)) {
	// exhaustive small scope: 2 threads x 2 instructions over a 5-letter alphabet x all schedules of length 4
	alpha := func(t int64) [][4]int64 {
		return [][4]int64{{0, 0, 0, 0}, {0, 1, t, 0}, {1, 1, t, 0}, {1, 0, 0, 0}, {2, 1, 0, 0}, {0, 1, 1 - t, 0}}
	}
	a0, a1 := alpha(0), alpha(1)
	k := 4
	if tier == "thorough" {
		k = 6
	}
	for _, i0 := range a0 {
		for _, i1 := range a0 {
			for _, j0 := range a1 {
				for _, j1 := range a1 {
					for s := 0; s < 1<<k; s++ {
						if tier != "thorough" && (s*7+int(i0[0]+i1[0]*3+j0[0]*5+j1[0]*11))%2 == 1 {
							continue // quick: every other schedule
						}
						sched := make([]int64, k)
						for b := 0; b < k; b++ {
							sched[b] = int64(s >> b & 1)
						}
						emit(concCase([][][4]int64{{i0, i1}, {j0, j1}}, sched, "exhaustive 2x2"))
					}
				}
			}
		}
	}
	// seeded: more threads, longer programs, safe (own data + globals read-only) and unsafe ones
	n := 6000
	if tier == "thorough" {
		n = 300000
	}
	for it := 0; it < n; it++ {
		nt := 1 + r.Intn(4)
		safe := it%2 == 0
		progs := make([][][4]int64, nt)
		total := 0
		for t := range progs {
			ni := r.Intn(7)
			total += ni
			for q := 0; q < ni; q++ {
				var in [4]int64
				switch r.Intn(5) {
				case 0, 1:
					in = [4]int64{0, int64(r.Intn(2)), int64(r.Intn(3)), int64(r.Intn(3))}
				case 2, 3:
					in = [4]int64{1, int64(r.Intn(2)), int64(r.Intn(3)), int64(r.Intn(3))}
				default:
					in = [4]int64{2, int64(r.Intn(3)), 0, 0}
				}
				if safe && in[0] != 2 {
					if in[1] == 1 {
						in[2] = int64(t) // only its own data
					} else if in[0] == 1 {
						in[0] = 0 // globals are read-only
					}
				}
				progs[t] = append(progs[t], in)
			}
		}
		sched := make([]int64, r.Intn(total+3))
		for q := range sched {
			sched[q] = int64(r.Intn(nt))
		}
		note := "random unsafe"
		if safe {
			note = "random safe"
		}
		emit(concCase(progs, sched, note))
	}
}

var concModel = &Model{
	Name: "conc",
	Gen:  concGen,
	Impl: concImpl,
	Class: func(c Case, out []int64) string {
		s := c.Note
		for _, v := range out {
			if v == -2 {
				return s + "/unfinished"
			}
		}
		return s + "/all-finished"
	},
}

func init() {
	props["C20"] = &PropSpec{
		Models: []*Model{concModel},
		Oracles: []*Oracle{
			{Name: "c20-race", Run: c20Race},
			{Name: "c20-concurrent", Run: c20Concurrent},
			{Name: "c20-order", Run: c20Order},
		},
	}
}
