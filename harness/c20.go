package main

import (
	"bytes"
	"fmt"
	"os"
	"os/exec"
	"regexp"
	"runtime"
	"strings"
	"sync"

	"verifharness/c20ep"
)

// ---- C20: independence and race freedom -----------------------------------------------------------------
//
// No hand-written model of control flow is tied to the code here (the Coq side is an abstract action
// semantics instantiated by translator T5's scan of the source), so there is no correspondence model.
// The oracles check the property text on the implementation:
//   c20-concurrent   N goroutines x every entry point on private data, under a GOMAXPROCS sweep and with
//                    runtime.Gosched injected between library calls; every result must equal the result
//                    of the same call made alone (sequential baseline)
//   c20-order        the same calls made sequentially in random orders, and repeated: results must not
//                    depend on what ran before
//   c20-race         the same workload built with `go build -race` and run as a separate binary; any
//                    report of the race detector is a violation

type c20Task struct {
	ep   int
	seed uint64
}

func c20Tasks(r *Rng, n int) []c20Task {
	var ts []c20Task
	for i := 0; i < n; i++ {
		for e := range c20ep.EPs {
			ts = append(ts, c20Task{e, r.U64()})
		}
	}
	return ts
}

func c20Baseline(ts []c20Task) ([]uint64, []string) {
	base := make([]uint64, len(ts))
	pan := make([]string, len(ts))
	for i, t := range ts {
		base[i], pan[i] = c20ep.RunSafe(c20ep.EPs[t.ep], t.seed, func() {})
	}
	return base, pan
}

// set by the race-detector oracle (which runs first, in a separate process) when it saw a race or a
// fatal runtime error: the in-process concurrent run could then kill the harness itself
var c20Unsafe bool

func c20Concurrent(r *Rng, tier string, rep *Report) {
	if c20Unsafe {
		rep.Histogram["skipped: the race-detector run already failed"]++
		return
	}
	rounds := 500
	if tier == "thorough" {
		rounds = 10000
	}
	ts := c20Tasks(r, rounds)
	base, pan := c20Baseline(ts)
	for i, p := range pan {
		if p != "" {
			rep.Histogram["panic:"+c20ep.EPs[ts[i].ep].Name]++
		}
	}
	old := runtime.GOMAXPROCS(0)
	defer runtime.GOMAXPROCS(old)
	for _, procs := range []int{1, 2, 4, 8} {
		for _, inject := range []bool{false, true} {
			runtime.GOMAXPROCS(procs)
			ng := 8
			var wg sync.WaitGroup
			var mu sync.Mutex
			type diff struct {
				i    int
				got  uint64
			}
			var diffs []diff
			for g := 0; g < ng; g++ {
				wg.Add(1)
				perm := make([]int, len(ts))
				for k := range perm {
					perm[k] = k
				}
				for k := len(perm) - 1; k > 0; k-- {
					j := r.Intn(k + 1)
					perm[k], perm[j] = perm[j], perm[k]
				}
				go func(perm []int) {
					defer wg.Done()
					yield := func() {}
					if inject {
						yield = runtime.Gosched
					}
					for _, i := range perm {
						h, _ := c20ep.RunSafe(c20ep.EPs[ts[i].ep], ts[i].seed, yield)
						if h != base[i] {
							mu.Lock()
							diffs = append(diffs, diff{i, h})
							mu.Unlock()
						}
					}
				}(perm)
			}
			wg.Wait()
			for _, d := range diffs {
				name := c20ep.EPs[ts[d.i].ep].Name
				rep.Violate("c20:concurrent-differs:"+name,
					fmt.Sprintf("%s(seed=%d) returned fingerprint %x under %d goroutines (GOMAXPROCS=%d, gosched=%v) but %x when run alone", name, ts[d.i].seed, d.got, ng, procs, inject, base[d.i]),
					map[string]interface{}{"entry_point": name, "seed": ts[d.i].seed, "gomaxprocs": procs, "gosched": inject})
			}
			for i := range ts {
				rep.Eval(fmt.Sprintf("%s/%d/p%d/%v", c20ep.EPs[ts[i].ep].Name, ts[i].seed, procs, inject), true,
					fmt.Sprintf("%s/procs=%d/gosched=%v", c20ep.EPs[ts[i].ep].Name, procs, inject))
			}
		}
	}
}

func c20Order(r *Rng, tier string, rep *Report) {
	rounds := 300
	perms := 6
	if tier == "thorough" {
		rounds, perms = 5000, 20
	}
	ts := c20Tasks(r, rounds)
	base, _ := c20Baseline(ts)
	for p := 0; p < perms; p++ {
		perm := make([]int, len(ts))
		for k := range perm {
			perm[k] = k
		}
		for k := len(perm) - 1; k > 0; k-- {
			j := r.Intn(k + 1)
			perm[k], perm[j] = perm[j], perm[k]
		}
		for pos, i := range perm {
			// every call is made twice in a row as well: the second result must equal the first
			for rpt := 0; rpt < 2; rpt++ {
				h, _ := c20ep.RunSafe(c20ep.EPs[ts[i].ep], ts[i].seed, func() {})
				if h != base[i] {
					name := c20ep.EPs[ts[i].ep].Name
					prev := "(first call)"
					if pos > 0 {
						prev = c20ep.EPs[ts[perm[pos-1]].ep].Name
					}
					rep.Violate("c20:order-differs:"+name,
						fmt.Sprintf("%s(seed=%d) returned %x after %s, but %x in the baseline order", name, ts[i].seed, h, prev, base[i]),
						map[string]interface{}{"entry_point": name, "seed": ts[i].seed, "previous": prev})
				}
			}
			rep.Eval(fmt.Sprintf("%s/%d/perm%d", c20ep.EPs[ts[i].ep].Name, ts[i].seed, p), true, c20ep.EPs[ts[i].ep].Name)
		}
	}
}

var raceFrameRe = regexp.MustCompile(`(?m)^\s+(github\.com/tdewolff/parse/v2[^\s(]*)\(`)

func c20Race(r *Rng, tier string, rep *Report) {
	bin := verifRoot + "/harness/bin/c20race"
	env := append(os.Environ(), "CGO_ENABLED=1", "GOFLAGS=-mod=mod", "GOPROXY=off", "GOSUMDB=off", "GOTOOLCHAIN=local")
	build := exec.Command("go", "build", "-race", "-tags", "verif", "-o", bin, "./cmd/c20race")
	build.Dir = verifRoot + "/harness"
	build.Env = env
	if out, err := build.CombinedOutput(); err != nil {
		// no race detector on this machine: say so in the evidence, do not pretend
		rep.Histogram["race-detector-unavailable"]++
		rep.Samples = append(rep.Samples, "go build -race failed: "+trunc(strings.TrimSpace(string(out)), 300))
		return
	}
	rounds := "60"
	if tier == "thorough" {
		rounds = "1500"
	}
	for _, procs := range []string{"2", "8"} {
		cmd := exec.Command(bin, "-seed", fmt.Sprint(r.U64()%1000000), "-goroutines", "8", "-rounds", rounds, "-procs", procs)
		cmd.Env = append(env, "GORACE=exitcode=66 halt_on_error=0")
		var stdout, stderr bytes.Buffer
		cmd.Stdout, cmd.Stderr = &stdout, &stderr
		err := cmd.Run()
		out := stdout.String()
		n := 0
		fmt.Sscanf(out[strings.LastIndex(out, "DONE")+len("DONE "):], "tasks=%d", &n)
		if i := strings.Index(stderr.String(), "fatal error:"); i >= 0 {
			c20Unsafe = true
			msg := stderr.String()[i:]
			if j := strings.Index(msg, "\n"); j >= 0 {
				msg = msg[:j]
			}
			rep.Violate("c20:"+msg, "the concurrent workload died with a Go runtime "+msg+": "+trunc(stderr.String()[i:], 1500),
				map[string]interface{}{"cmd": strings.Join(cmd.Args, " ")})
		}
		if strings.Contains(stderr.String(), "WARNING: DATA RACE") {
			c20Unsafe = true
			for _, blk := range strings.Split(stderr.String(), "==================") {
				if !strings.Contains(blk, "DATA RACE") {
					continue
				}
				frame := "unknown"
				if m := raceFrameRe.FindStringSubmatch(blk); m != nil {
					frame = m[1]
				}
				rep.Violate("c20:race:"+frame, "the race detector reports a data race in "+frame+": "+trunc(strings.TrimSpace(blk), 1200),
					map[string]interface{}{"cmd": strings.Join(cmd.Args, " "), "frame": frame})
			}
		} else if err != nil && !c20Unsafe {
			rep.Violate("c20:race-run-failed", "c20race failed: "+err.Error()+" "+trunc(out+stderr.String(), 600),
				map[string]interface{}{"cmd": strings.Join(cmd.Args, " ")})
		}
		for i := 0; i < n*8; i++ {
			rep.Eval(fmt.Sprintf("race/p%s/%d", procs, i), true, "race-detector/procs="+procs)
		}
	}
}

func init() {
	props["C20"] = &PropSpec{
		Oracles: []*Oracle{
			{Name: "c20-race", Run: c20Race},
			{Name: "c20-concurrent", Run: c20Concurrent},
			{Name: "c20-order", Run: c20Order},
		},
	}
}
