package main

import (
	"bytes"
	"fmt"
	"go/ast"
	"go/parser"
	"go/printer"
	"go/token"
	"os"
	"regexp"
	"strconv"
	"strings"

	"github.com/tdewolff/parse/v2/js"
)

// T3: read the operator arms of parseExpressionSuffix / parseExpression (js/parse.go), the OpPrec order
// (js/table.go) and the TokenType constants (js/tokentype.go) with go/parser and emit Gen/PrattTable.v.
//
// Every `case` of the two switches must either match one of the arm templates below (its numbers are
// then emitted as a row) or be named in prattOutside (arms that are outside the modelled fragment).
// Anything else is a translation failure.

// arm templates: the case body printed by go/printer with all white space collapsed; $X are placeholders
// for identifiers. The shape code is what the Coq model dispatches on.
// prattRepoRoot is the tree the translator reads (VERIF_REPO, default /repo)
var prattRepoRoot = func() string {
	if r := os.Getenv("VERIF_REPO"); r != "" {
		return r
	}
	return "/repo"
}()

type prattArmTemplate struct {
	shape  int
	name   string
	text   string
	params []string // placeholder names in the order they are emitted
}

const (
	prattShapeBinary   = 1
	prattShapeCompare  = 2
	prattShapeCoalesce = 3
	prattShapeDot      = 4
	prattShapeIndex    = 5
	prattShapeCall     = 6
	prattShapePostfix  = 7
	prattShapeCond     = 8
	prattShapeComma    = 9
	prattShapeOutside  = 0

	prattPshapeUnary   = 1
	prattPshapeLiteral = 2
	prattPshapeGroup   = 3
)

var prattSuffixTemplates = []prattArmTemplate{
	{prattShapeBinary, "binary",
		`if $L < prec { return left } else if precLeft < $R { p.fail("expression") return nil } p.next() left = &BinaryExpr{tt, left, p.parseExpression($S)} precLeft = $N`,
		[]string{"L", "R", "S", "N"}},
	{prattShapeCompare, "compare",
		`if $L < prec || !p.in && tt == $T { return left } else if precLeft < $R { p.fail("expression") return nil } p.next() left = &BinaryExpr{tt, left, p.parseExpression($S)} precLeft = $N`,
		[]string{"L", "R", "S", "N", "T"}},
	{prattShapeCoalesce, "coalesce",
		`if $L < prec { return left } else if precLeft < $R && precLeft != $X { p.fail("expression") return nil } p.next() left = &BinaryExpr{tt, left, p.parseExpression($S)} precLeft = $N`,
		[]string{"L", "R", "X", "S", "N"}},
	{prattShapeDot, "dot",
		`if precLeft < $R { p.fail("expression") return nil } else if $C < precLeft { precLeft = $C } p.next() if !IsIdentifierName(p.tt) && p.tt != PrivateIdentifierToken { p.fail("dot expression", IdentifierToken) return nil } if p.tt == PrivateIdentifierToken { left = &DotExpr{left, p.scope.Use(p.data), precLeft, false} } else { left = &DotExpr{left, LiteralExpr{IdentifierToken, p.data}, precLeft, false} } p.next()`,
		[]string{"R", "C"}},
	{prattShapeIndex, "index",
		`if precLeft < $R { p.fail("expression") return nil } else if $C < precLeft { precLeft = $C } p.next() prevIn := p.in p.in = true left = &IndexExpr{left, p.parseExpression($S), precLeft, false} p.in = prevIn if !p.consume("index expression", CloseBracketToken) { return nil }`,
		[]string{"R", "C", "S"}},
	{prattShapeCall, "call",
		`if $L < prec { return left } else if precLeft < $R { p.fail("expression") return nil } else if $C < precLeft { precLeft = $C } prevIn := p.in p.in = true left = &CallExpr{left, p.parseArguments(), precLeft, false} p.in = prevIn`,
		[]string{"L", "R", "C"}},
	{prattShapePostfix, "postfix",
		`if p.prevLT || $L < prec { return left } else if precLeft < $R { p.fail("expression") return nil } p.next() left = &UnaryExpr{$O, left} precLeft = $N`,
		[]string{"L", "R", "O", "N"}},
	{prattShapeCond, "cond",
		`if $L < prec { return left } else if precLeft < $R { p.fail("expression") return nil } p.next() prevIn := p.in p.in = true ifExpr := p.parseExpression($S) p.in = prevIn if !p.consume("conditional expression", ColonToken) { return nil } elseExpr := p.parseExpression($E) left = &CondExpr{left, ifExpr, elseExpr} precLeft = $N`,
		[]string{"L", "R", "S", "E", "N"}},
	{prattShapeComma, "comma",
		`if $L < prec { return left } p.next() if commaExpr, ok := left.(*CommaExpr); ok { commaExpr.List = append(commaExpr.List, p.parseExpression($S)) i-- } else { left = &CommaExpr{[]IExpr{left, p.parseExpression($S)}} } precLeft = $N`,
		[]string{"L", "S", "N"}},
}

// arms of parseExpressionSuffix that are outside the modelled fragment (first token of the case list)
var prattSuffixOutside = map[string]string{
	"TemplateToken": "tagged template",
	"OptChainToken": "optional chaining",
	"ArrowToken":    "identifier arrow function",
}

var prattPrefixTemplates = []prattArmTemplate{
	{prattPshapeUnary, "unary",
		`if $G < prec { p.fail("expression") return nil } p.next() left = &UnaryExpr{$O, p.parseExpression($S)} precLeft = $N`,
		[]string{"G", "O", "S", "N"}},
	{prattPshapeLiteral, "literal",
		`left = &LiteralExpr{p.tt, p.data} p.next()`,
		nil},
	{prattPshapeGroup, "group",
		`if $G < prec { p.next() prevIn := p.in p.in = true left = &GroupExpr{p.parseExpression($S)} p.in = prevIn if !p.consume("expression", CloseParenToken) { return nil } break } suffix := p.parseParenthesizedExpression(prec, nil) p.exprLevel-- return suffix`,
		[]string{"G", "S"}},
}

// arms of parseExpression that are outside the modelled fragment
var prattPrefixOutside = map[string]string{
	"OpenBracketToken":       "array literal",
	"OpenBraceToken":         "object literal",
	"AwaitToken":             "await expression / identifier",
	"NewToken":               "new expression, new.target",
	"ImportToken":            "import call, import.meta",
	"SuperToken":             "super property / call",
	"YieldToken":             "yield expression / identifier",
	"AsyncToken":             "async function / arrow / identifier",
	"ClassToken":             "class expression",
	"FunctionToken":          "function expression",
	"TemplateToken":          "template literal",
	"PrivateIdentifierToken": "#x in obj",
}

// the statements of parseExpression before its switch (depth guard, regexp re-lex, identifier and numeric arms)
const prattPrefixPrologue = `p.exprLevel++ if NestedExprLimit < p.exprLevel { p.failMessage("too many nested expressions") return nil } if p.tt == DivToken || p.tt == DivEqToken { p.tt, p.data = p.l.RegExp() if p.tt == ErrorToken { p.fail("regular expression") return nil } } var left IExpr precLeft := $P if IsIdentifier(p.tt) && p.tt != AsyncToken { left = p.scope.Use(p.data) p.next() suffix := p.parseExpressionSuffix(left, prec, precLeft) p.exprLevel-- return suffix } else if IsNumeric(p.tt) { left = &LiteralExpr{p.tt, p.data} p.next() suffix := p.parseExpressionSuffix(left, prec, precLeft) p.exprLevel-- return suffix }`

// the statements after the switch.  The first block (dce4c26) only concerns a left operand that is an array or object
// literal (a possible arrow parameter pattern: what follows it is parsed with assumeArrowFunc off); both literals are in
// the outside list of the switch, and the flag only steers scope bookkeeping, so the block adds no row.
const prattPrefixEpilogue = `if p.assumeArrowFunc { switch left.(type) { case *ArrayExpr, *ObjectExpr: p.assumeArrowFunc = false suffix := p.parseExpressionSuffix(left, prec, precLeft) p.assumeArrowFunc = true p.exprLevel-- return suffix } } suffix := p.parseExpressionSuffix(left, prec, precLeft) p.exprLevel-- return suffix`

const prattPrefixDefault = `p.fail("expression") return nil`

const prattArgumentsBody = `p.next() args.List = make([]Arg, 0, 4) for p.tt != CloseParenToken && p.tt != ErrorToken { rest := p.tt == EllipsisToken if rest { p.next() } args.List = append(args.List, Arg{ Value: p.parseExpression($S), Rest: rest, }) if p.tt != CloseParenToken { if p.tt != CommaToken { p.fail("arguments", CommaToken, CloseParenToken) return } else { p.next() } } } p.consume("arguments", CloseParenToken) return`

var prattPlaceholderRe = regexp.MustCompile(`\\\$[A-Z]`)

func prattCompileTemplate(text string) (*regexp.Regexp, []string) {
	qm := regexp.QuoteMeta(text)
	var names []string
	rx := prattPlaceholderRe.ReplaceAllStringFunc(qm, func(s string) string {
		names = append(names, s[2:])
		return `(\w+)`
	})
	return regexp.MustCompile("^" + rx + "$"), names
}

// prattMatchTemplate returns placeholder -> identifier; repeated placeholders must agree.
func prattMatchTemplate(text, src string) (map[string]string, bool) {
	re, names := prattCompileTemplate(text)
	m := re.FindStringSubmatch(src)
	if m == nil {
		return nil, false
	}
	out := map[string]string{}
	for i, n := range names {
		if old, ok := out[n]; ok && old != m[i+1] {
			return nil, false
		}
		out[n] = m[i+1]
	}
	return out, true
}

func prattPrintStmts(fset *token.FileSet, stmts []ast.Stmt) string {
	var sb strings.Builder
	for _, s := range stmts {
		var b bytes.Buffer
		printer.Fprint(&b, fset, s)
		sb.WriteString(b.String())
		sb.WriteString(" ")
	}
	return strings.Join(strings.Fields(sb.String()), " ")
}

// prattConstBlocks evaluates `Name T = base + iota` blocks of one type.
func prattConstBlocks(path, typ string) ([]string, map[string]int, error) {
	fset := token.NewFileSet()
	f, err := parser.ParseFile(fset, path, nil, 0)
	if err != nil {
		return nil, nil, err
	}
	vals := map[string]int{}
	var order []string
	for _, d := range f.Decls {
		gd, ok := d.(*ast.GenDecl)
		if !ok || gd.Tok != token.CONST || len(gd.Specs) == 0 {
			continue
		}
		first := gd.Specs[0].(*ast.ValueSpec)
		id, ok := first.Type.(*ast.Ident)
		if !ok || id.Name != typ {
			continue
		}
		if len(first.Values) != 1 {
			return nil, nil, fmt.Errorf("%s: const block of %s: unexpected first value", path, typ)
		}
		base := 0
		switch v := first.Values[0].(type) {
		case *ast.Ident:
			if v.Name != "iota" {
				return nil, nil, fmt.Errorf("%s: const block of %s does not start with iota", path, typ)
			}
		case *ast.BinaryExpr:
			bl, ok1 := v.X.(*ast.BasicLit)
			io, ok2 := v.Y.(*ast.Ident)
			if !ok1 || !ok2 || v.Op != token.ADD || io.Name != "iota" {
				return nil, nil, fmt.Errorf("%s: const block of %s: expected <literal> + iota", path, typ)
			}
			b, err := strconv.ParseInt(bl.Value, 0, 32)
			if err != nil {
				return nil, nil, err
			}
			base = int(b)
		default:
			return nil, nil, fmt.Errorf("%s: const block of %s: unexpected first value", path, typ)
		}
		for i, s := range gd.Specs {
			vs := s.(*ast.ValueSpec)
			if i > 0 && (vs.Type != nil || len(vs.Values) != 0) {
				return nil, nil, fmt.Errorf("%s: const %s has its own type/value", path, vs.Names[0].Name)
			}
			if len(vs.Names) != 1 {
				return nil, nil, fmt.Errorf("%s: multi-name const spec", path)
			}
			vals[vs.Names[0].Name] = base + i
			order = append(order, vs.Names[0].Name)
		}
	}
	if len(order) == 0 {
		return nil, nil, fmt.Errorf("%s: no constants of type %s", path, typ)
	}
	return order, vals, nil
}

func prattFindMethod(f *ast.File, name string) *ast.FuncDecl {
	for _, d := range f.Decls {
		if fd, ok := d.(*ast.FuncDecl); ok && fd.Recv != nil && fd.Name.Name == name {
			return fd
		}
	}
	return nil
}

type prattRow struct {
	shape  int
	toks   []string
	params []string
	what   string
}

func prattCaseTokens(cc *ast.CaseClause) ([]string, error) {
	var out []string
	for _, e := range cc.List {
		id, ok := e.(*ast.Ident)
		if !ok {
			return nil, fmt.Errorf("case label is not an identifier")
		}
		out = append(out, id.Name)
	}
	return out, nil
}

func prattMatchArms(fset *token.FileSet, sw *ast.SwitchStmt, templates []prattArmTemplate, outside map[string]string, defaultText, where string) ([]prattRow, error) {
	var rows []prattRow
	seenDefault := false
	for _, s := range sw.Body.List {
		cc := s.(*ast.CaseClause)
		body := prattPrintStmts(fset, cc.Body)
		if cc.List == nil {
			seenDefault = true
			if body != defaultText {
				return nil, fmt.Errorf("%s: default arm is %q, expected %q", where, body, defaultText)
			}
			continue
		}
		toks, err := prattCaseTokens(cc)
		if err != nil {
			return nil, fmt.Errorf("%s: %v", where, err)
		}
		matched := false
		for _, t := range templates {
			if m, ok := prattMatchTemplate(t.text, body); ok {
				r := prattRow{shape: t.shape, toks: toks, what: t.name}
				for _, p := range t.params {
					r.params = append(r.params, m[p])
				}
				rows = append(rows, r)
				matched = true
				break
			}
		}
		if matched {
			continue
		}
		if why, ok := outside[toks[0]]; ok {
			rows = append(rows, prattRow{shape: prattShapeOutside, toks: toks, what: "outside the fragment: " + why})
			continue
		}
		return nil, fmt.Errorf("%s: arm `case %s` has an unrecognised shape: %s", where, strings.Join(toks, ", "), trunc(body, 400))
	}
	if !seenDefault {
		return nil, fmt.Errorf("%s: no default arm", where)
	}
	return rows, nil
}

func genPratt(out string) error {
	precOrder, precVals, err := prattConstBlocks(prattRepoRoot+"/js/table.go", "OpPrec")
	if err != nil {
		return err
	}
	ttOrder, ttVals, err := prattConstBlocks(prattRepoRoot+"/js/tokentype.go", "TokenType")
	if err != nil {
		return err
	}
	// cross-check the evaluated constants against the compiled package on a few anchors
	anchors := map[string]int{"AddToken": int(js.AddToken), "IdentifierToken": int(js.IdentifierToken), "OpenParenToken": int(js.OpenParenToken),
		"TypeofToken": int(js.TypeofToken), "IntegerToken": int(js.IntegerToken), "PostDecrToken": int(js.PostDecrToken), "NullishEqToken": int(js.NullishEqToken)}
	for n, v := range anchors {
		if ttVals[n] != v {
			return fmt.Errorf("tokentype.go: evaluated %s = %d but the compiled package has %d", n, ttVals[n], v)
		}
	}
	if precVals["OpPrimary"] != int(js.OpPrimary) || precVals["OpAssign"] != int(js.OpAssign) || precVals["OpLHS"] != int(js.OpLHS) {
		return fmt.Errorf("table.go: evaluated OpPrec constants disagree with the compiled package")
	}

	fset := token.NewFileSet()
	f, err := parser.ParseFile(fset, prattRepoRoot+"/js/parse.go", nil, 0)
	if err != nil {
		return err
	}

	// ---- parseExpressionSuffix
	fd := prattFindMethod(f, "parseExpressionSuffix")
	if fd == nil {
		return fmt.Errorf("parse.go: parseExpressionSuffix not found")
	}
	if len(fd.Body.List) != 1 {
		return fmt.Errorf("parseExpressionSuffix: expected a single for statement")
	}
	loop, ok := fd.Body.List[0].(*ast.ForStmt)
	if !ok || len(loop.Body.List) != 2 {
		return fmt.Errorf("parseExpressionSuffix: expected `for i := 0; ; i++ { <depth guard>; switch ... }`")
	}
	if g := prattPrintStmts(fset, loop.Body.List[:1]); g != `if 1000 < p.exprLevel+i { p.failMessage("too many nested expressions") return nil }` {
		return fmt.Errorf("parseExpressionSuffix: unexpected depth guard %q", g)
	}
	sw, ok := loop.Body.List[1].(*ast.SwitchStmt)
	if !ok || prattPrintStmts(fset, []ast.Stmt{sw.Init}) != "tt := p.tt" {
		return fmt.Errorf("parseExpressionSuffix: expected `switch tt := p.tt; tt`")
	}
	srows, err := prattMatchArms(fset, sw, prattSuffixTemplates, prattSuffixOutside, "return left", "parseExpressionSuffix")
	if err != nil {
		return err
	}

	// ---- parseExpression
	fd = prattFindMethod(f, "parseExpression")
	if fd == nil {
		return fmt.Errorf("parse.go: parseExpression not found")
	}
	n := len(fd.Body.List)
	var psw *ast.SwitchStmt
	swAt := -1
	for i, s := range fd.Body.List {
		if x, ok := s.(*ast.SwitchStmt); ok {
			psw, swAt = x, i
		}
	}
	if psw == nil || prattPrintStmts(fset, []ast.Stmt{psw.Init}) != "tt := p.tt" {
		return fmt.Errorf("parseExpression: expected `switch tt := p.tt; tt`")
	}
	pro, ok := prattMatchTemplate(prattPrefixPrologue, prattPrintStmts(fset, fd.Body.List[:swAt]))
	if !ok {
		return fmt.Errorf("parseExpression: the statements before the switch changed: %s", trunc(prattPrintStmts(fset, fd.Body.List[:swAt]), 600))
	}
	if e := prattPrintStmts(fset, fd.Body.List[swAt+1:n]); e != prattPrefixEpilogue {
		return fmt.Errorf("parseExpression: the statements after the switch changed: %s", e)
	}
	prows, err := prattMatchArms(fset, psw, prattPrefixTemplates, prattPrefixOutside, prattPrefixDefault, "parseExpression")
	if err != nil {
		return err
	}

	// ---- parseArguments
	fd = prattFindMethod(f, "parseArguments")
	if fd == nil {
		return fmt.Errorf("parse.go: parseArguments not found")
	}
	am, ok := prattMatchTemplate(prattArgumentsBody, prattPrintStmts(fset, fd.Body.List))
	if !ok {
		return fmt.Errorf("parseArguments changed: %s", trunc(prattPrintStmts(fset, fd.Body.List), 600))
	}

	// ---- emit
	var sb strings.Builder
	sb.WriteString("(* GENERATED by harness gen pratt from /repo/js/parse.go, js/table.go, js/tokentype.go. Do not edit. *)\n")
	sb.WriteString("From Coq Require Import List ZArith.\nImport ListNotations.\nOpen Scope Z_scope.\n\n")
	sb.WriteString("(* OpPrec constants of js/table.go *)\n")
	for _, nme := range precOrder {
		fmt.Fprintf(&sb, "Definition prec_%s : Z := %d.\n", nme, precVals[nme])
	}
	sb.WriteString("Definition prec_names : list Z := [")
	for i, nme := range precOrder {
		if i > 0 {
			sb.WriteString("; ")
		}
		sb.WriteString("prec_" + nme)
	}
	sb.WriteString("].\n\n(* TokenType constants of js/tokentype.go *)\n")
	for _, nme := range ttOrder {
		fmt.Fprintf(&sb, "Definition tt_%s : Z := %d.\n", nme, ttVals[nme])
	}
	resolve := func(s string) (string, error) {
		if _, ok := precVals[s]; ok {
			return "prec_" + s, nil
		}
		if _, ok := ttVals[s]; ok {
			return "tt_" + s, nil
		}
		if s == "tt" {
			return "(-1)", nil // the arm's own token
		}
		return "", fmt.Errorf("unknown identifier %q in an operator arm", s)
	}
	emitRows := func(name string, rows []prattRow) error {
		fmt.Fprintf(&sb, "\n(* (shape, tokens, parameters); shape 0 = arm outside the modelled fragment *)\nDefinition %s : list (Z * list Z * list Z) :=\n  [", name)
		for i, r := range rows {
			if i > 0 {
				sb.WriteString(";\n   ")
			}
			var ts, ps []string
			for _, t := range r.toks {
				x, err := resolve(t)
				if err != nil {
					return err
				}
				ts = append(ts, x)
			}
			for _, p := range r.params {
				x, err := resolve(p)
				if err != nil {
					return err
				}
				ps = append(ps, x)
			}
			fmt.Fprintf(&sb, "(%d, [%s], [%s]) (* %s *)", r.shape, strings.Join(ts, "; "), strings.Join(ps, "; "), r.what)
		}
		sb.WriteString("].\n")
		return nil
	}
	sb.WriteString("\n(* parseExpressionSuffix: binary [L;R;S;N]  compare [L;R;S;N;T]  coalesce [L;R;X;S;N]  dot [R;C]  index [R;C;S]\n   call [L;R;C]  postfix [L;R;O;N]  cond [L;R;S;E;N]  comma [L;S;N] *)")
	if err := emitRows("pratt_suffix_rows", srows); err != nil {
		return err
	}
	sb.WriteString("\n(* parseExpression: unary [G;O;S;N] (O = -1: the token itself)  literal []  group [G;S] *)")
	if err := emitRows("pratt_prefix_rows", prows); err != nil {
		return err
	}
	x, err := resolve(pro["P"])
	if err != nil {
		return err
	}
	fmt.Fprintf(&sb, "\n(* precLeft of an identifier / numeric literal / literal arm *)\nDefinition pratt_primary_level : Z := %s.\n", x)
	x, err = resolve(am["S"])
	if err != nil {
		return err
	}
	fmt.Fprintf(&sb, "(* parseArguments: level of each argument *)\nDefinition pratt_args_level : Z := %s.\n", x)
	return writeIfChanged(out, []byte(sb.String()))
}

func init() { gens["pratt"] = genPratt }
