// Package c20ep holds the entry points of tdewolff/parse that the C20 oracles drive: every lexer and
// parser, strconv, the helpers, Input / StreamLexer / binary reader and writer.  Each entry point builds
// its own private input from a seed, calls the library, and folds everything it observes into a 64-bit
// fingerprint.  `yield` is called between library calls (runtime.Gosched injection).
//
// The package is shared by the harness (sequential baselines, concurrent runs, order permutations) and by
// cmd/c20race (the same workload compiled with the race detector).
package c20ep

import (
	"bytes"
	"fmt"
	"io"
	"math"

	"github.com/tdewolff/parse/v2"
	"github.com/tdewolff/parse/v2/buffer"
	"github.com/tdewolff/parse/v2/css"
	"github.com/tdewolff/parse/v2/html"
	"github.com/tdewolff/parse/v2/js"
	"github.com/tdewolff/parse/v2/json"
	"github.com/tdewolff/parse/v2/strconv"
	"github.com/tdewolff/parse/v2/xml"
)

type rng struct{ s uint64 }

func (r *rng) u64() uint64 {
	r.s += 0x9E3779B97F4A7C15
	z := r.s
	z = (z ^ (z >> 30)) * 0xBF58476D1CE4E5B9
	z = (z ^ (z >> 27)) * 0x94D049BB133111EB
	return z ^ (z >> 31)
}
func (r *rng) n(n int) int             { return int(r.u64() % uint64(n)) }
func (r *rng) pick(ss []string) string { return ss[r.n(len(ss))] }

type fp struct{ h uint64 }

func newFP() *fp { return &fp{h: 14695981039346656037} }
func (f *fp) b(b []byte) {
	for _, c := range b {
		f.h = (f.h ^ uint64(c)) * 1099511628211
	}
	f.h = (f.h ^ 0xFF) * 1099511628211
}
func (f *fp) s(s string) { f.b([]byte(s)) }
func (f *fp) i(v int64)  { f.s(fmt.Sprint(v)) }
func (f *fp) e(err error) {
	if err == nil {
		f.s("<nil>")
	} else {
		f.s(err.Error())
	}
}

func build(r *rng, frags []string, n int) []byte {
	var sb bytes.Buffer
	for k := 1 + r.n(n); k > 0; k-- {
		if r.n(12) == 0 {
			sb.WriteByte(byte(r.n(256)))
		} else {
			sb.WriteString(r.pick(frags))
		}
	}
	return sb.Bytes()
}

var cssFrags = []string{"a", "{", "}", "color", ":", "red", ";", " ", "@media", "(", ")", "screen", ",", "#id", ".cls", "10px", "1.5e3", "url(x)", "\"s\"", "/*c*/", "!important", "+", ">", "~", "[a=b]", "--v", "u+1F", "*", "\\41 ", "<!--", "-->", "@import", "\n", "50%"}
var htmlFrags = []string{"<a", " href=", "\"x\"", ">", "text", "</a>", "<!--c-->", "<script>", "</script>", "<br/>", " b='c'", " d=e", "<!DOCTYPE html>", "&amp;", "{{x}}", "<svg>", "</svg>", "<?php x ?>", "<![CDATA[y]]>", "<STYLE>", "</STYLE>", " ", "\n", "<", "<%=z%>"}
var xmlFrags = []string{"<a", " b=", "\"x\"", ">", "text", "</a>", "<!--c-->", "<?xml v?>", "<![CDATA[y]]>", "<!DOCTYPE a [<!ENTITY e \"v\">]>", "/>", " c='d'", "&lt;", " ", "\n", "<"}
var jsonFrags = []string{"{", "}", "[", "]", ":", ",", "\"k\"", "1", "-2.5e3", "true", "false", "null", " ", "\"\\u00e9\\\"\"", "\n"}
var jsFrags = []string{"a", "=", "1", ";", "(", ")", "{", "}", "[", "]", ",", "=>", "...", ".", "?", ":", "+", "`t${", "}`", "class A", " extends B", "function f", "if", "else ", "for", "var ", "let ", "new ", "#p", "static ", "async ", "*", "yield ", "return ", " in ", " of ", "/re/g", "'s'", "\"d\"", "0x1F", "1n", "//c\n", "/*c*/", "?.", "??", "**", ">>>=", "\n", " "}
var numFrags = []string{"0", "1", "9", "12", ".", "e", "E", "+", "-", ",", "x", "%", "px", "em", " "}
var miscFrags = []string{"  ", "\n", "\t", "a", "B", "&amp;", "&#x41;", "&#65;", "&quot;", "&lt;", "'", "\"", "%20", "%zz", "é", "text/html", ";", "charset=", "utf-8", "data:", "base64,", "aGk=", ",", " ", "=", "/", "?", "#", "<", ">", "&", "]]>"}

// EP is one entry point.
type EP struct {
	Name string
	Run  func(seed uint64, yield func()) uint64
}

type chunked struct {
	b []byte
	n int
}

func (c *chunked) Read(p []byte) (int, error) {
	if len(c.b) == 0 {
		return 0, io.EOF
	}
	n := c.n
	if n > len(p) {
		n = len(p)
	}
	if n > len(c.b) {
		n = len(c.b)
	}
	copy(p, c.b[:n])
	c.b = c.b[n:]
	return n, nil
}

type walkFP struct{ f *fp }

func (w *walkFP) Enter(n js.INode) js.IVisitor { w.f.s(fmt.Sprintf("+%T", n)); return w }
func (w *walkFP) Exit(n js.INode)              { w.f.s("-") }

// EPs is the list of entry points.
var EPs = []EP{
	{"css.Lexer", func(seed uint64, yield func()) uint64 {
		r := &rng{seed}
		f := newFP()
		l := css.NewLexer(parse.NewInputBytes(build(r, cssFrags, 40)))
		for i := 0; i < 1000; i++ {
			tt, data := l.Next()
			f.s(tt.String())
			f.b(data)
			if tt == css.ErrorToken {
				f.e(l.Err())
				break
			}
			yield()
		}
		return f.h
	}},
	{"css.Parser", func(seed uint64, yield func()) uint64 {
		r := &rng{seed}
		f := newFP()
		p := css.NewParser(parse.NewInputBytes(build(r, cssFrags, 40)), seed%5 == 0)
		for i := 0; i < 1000; i++ {
			gt, tt, data := p.Next()
			f.s(gt.String())
			f.s(tt.String())
			f.b(data)
			for _, v := range p.Values() {
				f.s(v.TokenType.String())
				f.b(v.Data)
			}
			f.i(int64(p.Offset()))
			if gt == css.ErrorGrammar {
				f.e(p.Err())
				break
			}
			yield()
		}
		f.s(css.Document.String())
		f.b(css.ToHash([]byte("media")).Bytes())
		return f.h
	}},
	{"html.Lexer", func(seed uint64, yield func()) uint64 {
		r := &rng{seed}
		f := newFP()
		in := parse.NewInputBytes(build(r, htmlFrags, 40))
		var l *html.Lexer
		switch seed % 4 {
		case 0:
			l = html.NewTemplateLexer(in, html.GoTemplate)
		case 1:
			l = html.NewTemplateLexer(in, html.PHPTemplate)
		default:
			l = html.NewLexer(in)
		}
		for i := 0; i < 1000; i++ {
			tt, data := l.Next()
			f.s(tt.String())
			f.b(data)
			f.b(l.Text())
			f.b(l.AttrVal())
			if l.HasTemplate() {
				f.s("T")
			}
			if tt == html.ErrorToken {
				f.e(l.Err())
				break
			}
			yield()
		}
		f.s(html.ToHash([]byte("script")).String())
		return f.h
	}},
	{"xml.Lexer", func(seed uint64, yield func()) uint64 {
		r := &rng{seed}
		f := newFP()
		l := xml.NewLexer(parse.NewInputBytes(build(r, xmlFrags, 40)))
		for i := 0; i < 1000; i++ {
			tt, data := l.Next()
			f.s(tt.String())
			f.b(data)
			f.b(l.Text())
			f.b(l.AttrVal())
			if tt == xml.ErrorToken {
				f.e(l.Err())
				break
			}
			yield()
		}
		return f.h
	}},
	{"json.Parser", func(seed uint64, yield func()) uint64 {
		r := &rng{seed}
		f := newFP()
		p := json.NewParser(parse.NewInputBytes(build(r, jsonFrags, 40)))
		for i := 0; i < 1000; i++ {
			gt, data := p.Next()
			f.s(gt.String())
			f.b(data)
			f.i(int64(p.State()))
			if gt == json.ErrorGrammar {
				f.e(p.Err())
				break
			}
			yield()
		}
		return f.h
	}},
	{"js.Lexer", func(seed uint64, yield func()) uint64 {
		r := &rng{seed}
		f := newFP()
		l := js.NewLexer(parse.NewInputBytes(build(r, jsFrags, 40)))
		for i := 0; i < 1000; i++ {
			tt, data := l.Next()
			f.s(tt.String())
			f.b(tt.Bytes())
			f.b(data)
			if tt == js.ErrorToken {
				f.e(l.Err())
				break
			}
			if (tt == js.DivToken || tt == js.DivEqToken) && i%2 == 0 {
				tt, data = l.RegExp()
				f.s(tt.String())
				f.b(data)
			}
			yield()
		}
		return f.h
	}},
	{"js.Parse", func(seed uint64, yield func()) uint64 {
		r := &rng{seed}
		f := newFP()
		ast, err := js.Parse(parse.NewInputBytes(build(r, jsFrags, 30)), js.Options{})
		f.e(err)
		yield()
		if ast != nil {
			f.s(ast.String())
			yield()
			f.s(ast.JSString())
			yield()
			js.Walk(&walkFP{f}, ast)
			var w bytes.Buffer
			f.e(ast.JSON(&w))
			f.b(w.Bytes())
		}
		return f.h
	}},
	{"strconv", func(seed uint64, yield func()) uint64 {
		r := &rng{seed}
		f := newFP()
		for k := 0; k < 8; k++ {
			b := build(r, numFrags, 8)
			i, n := strconv.ParseInt(b)
			f.i(i)
			f.i(int64(n))
			u, n2 := strconv.ParseUint(b)
			f.i(int64(u))
			f.i(int64(n2))
			fl, n3 := strconv.ParseFloat(b)
			f.i(int64(math.Float64bits(fl)))
			f.i(int64(n3))
			d, n4 := strconv.ParseDecimal(b)
			f.i(int64(math.Float64bits(d)))
			f.i(int64(n4))
			pn, pd, n5 := strconv.ParseNumber(b, ',', '.')
			f.i(pn)
			f.i(int64(pd))
			f.i(int64(n5))
			v := int64(r.u64())
			f.b(strconv.AppendInt(nil, v))
			f.i(int64(strconv.LenInt(v)))
			f.b(strconv.AppendNumber(nil, v>>20, r.n(4), 3, ',', '.'))
			x := math.Float64frombits(r.u64())
			if !math.IsNaN(x) && !math.IsInf(x, 0) {
				f.b(strconv.AppendFloat(nil, x, r.n(10)-1))
				f.b(strconv.AppendDecimal(nil, float64(v>>30)/1000, r.n(6)))
			}
			yield()
		}
		return f.h
	}},
	{"helpers", func(seed uint64, yield func()) uint64 {
		r := &rng{seed}
		f := newFP()
		entities := map[string][]byte{"amp": []byte("&"), "lt": []byte("<"), "quot": []byte("\""), "eacute": []byte("é")}
		rev := map[byte][]byte{'&': []byte("&amp;"), '<': []byte("&lt;")}
		for k := 0; k < 6; k++ {
			b := build(r, miscFrags, 10)
			f.i(int64(parse.Number(build(r, numFrags, 6))))
			n, m := parse.Dimension(build(r, numFrags, 6))
			f.i(int64(n*100 + m))
			mt, params := parse.Mediatype(parse.Copy(b))
			f.b(mt)
			f.i(int64(len(params)))
			mt2, data, err := parse.DataURI(append([]byte("data:"), b...))
			f.b(mt2)
			f.b(data)
			f.e(err)
			q, qn := parse.QuoteEntity(b)
			f.i(int64(q) + int64(qn)*256)
			f.b(parse.ReplaceMultipleWhitespace(parse.Copy(b)))
			f.b(parse.ReplaceEntities(parse.Copy(b), entities, rev))
			f.b(parse.ReplaceMultipleWhitespaceAndEntities(parse.Copy(b), entities, rev))
			f.b(parse.EncodeURL(parse.Copy(b), parse.URLEncodingTable))
			f.b(parse.DecodeURL(parse.Copy(b)))
			f.b(parse.ToLower(parse.Copy(b)))
			f.b(parse.TrimWhitespace(b))
			if parse.IsAllWhitespace(b) {
				f.s("ws")
			}
			if parse.EqualFold(b, []byte("text/html")) {
				f.s("eq")
			}
			var buf []byte
			f.b(html.EscapeAttrVal(&buf, b, byte("\"'"[r.n(2)]), r.n(2) == 0))
			var buf2 []byte
			f.b(xml.EscapeAttrVal(&buf2, b))
			var buf3 []byte
			c, ok := xml.EscapeCDATAVal(&buf3, b)
			f.b(c)
			if ok {
				f.s("cdata")
			}
			f.b(parse.AppendEscape(nil, b, []byte("\"\\"), '\\'))
			yield()
		}
		return f.h
	}},
	{"Input+StreamLexer", func(seed uint64, yield func()) uint64 {
		r := &rng{seed}
		f := newFP()
		data := build(r, miscFrags, 30)
		z := parse.NewInput(&chunked{b: parse.Copy(data), n: 1 + r.n(7)})
		s := buffer.NewStreamLexerSize(&chunked{b: parse.Copy(data), n: 1 + r.n(7)}, 4+r.n(16))
		l := buffer.NewLexerBytes(parse.Copy(data))
		for z.Err() == nil {
			k := 1 + r.n(4)
			for j := 0; j < k; j++ {
				c := z.Peek(j)
				f.i(int64(c))
				if c == 0 {
					break // never look past a 0: it may be the terminator
				}
			}
			rn, sz := z.PeekRune(0)
			f.i(int64(rn)*8 + int64(sz))
			z.Move(1)
			if r.n(3) == 0 {
				f.b(z.Shift())
			}
			yield()
		}
		f.e(z.Err())
		f.b(z.Bytes())
		for s.Err() == nil {
			f.i(int64(s.Peek(0)))
			s.Move(1)
			if r.n(3) == 0 {
				f.b(s.Shift())
				s.Free(s.ShiftLen())
			}
			yield()
		}
		f.e(s.Err())
		for l.Err() == nil {
			f.i(int64(l.Peek(0)))
			l.Move(1)
		}
		f.b(l.Lexeme())
		line, col, ctx := parse.Position(buffer.NewReader(data), r.n(len(data)+1))
		f.i(int64(line*1000 + col))
		f.s(ctx)
		f.s(parse.NewError(buffer.NewReader(data), r.n(len(data)+1), "bad %d", 7).Error())
		w := buffer.NewWriter(nil)
		w.Write(data)
		f.b(w.Bytes())
		return f.h
	}},
	{"binary", func(seed uint64, yield func()) uint64 {
		r := &rng{seed}
		f := newFP()
		w := parse.NewBinaryWriter(nil)
		n := 1 + r.n(10)
		for k := 0; k < n; k++ {
			w.WriteUint16(uint16(r.u64()))
			w.WriteInt24(int32(r.u64()) >> 8)
			w.WriteUint32(uint32(r.u64()))
			w.WriteInt64(int64(r.u64()))
			w.WriteString("s")
			yield()
		}
		f.b(w.Bytes())
		rd := parse.NewBinaryReaderBytes(parse.Copy(w.Bytes()))
		for k := 0; k < n; k++ {
			f.i(int64(rd.ReadUint16()))
			f.i(int64(rd.ReadInt24()))
			f.i(int64(rd.ReadUint32()))
			f.i(rd.ReadInt64())
			f.s(rd.ReadString(1))
			yield()
		}
		f.i(int64(rd.ReadUint8()))
		f.e(rd.Err())
		p, err := rd.Seek(-3, io.SeekEnd)
		f.i(p)
		f.e(err)
		bw := parse.NewBitmapWriter(nil)
		for k := 0; k < 13; k++ {
			bw.Write(r.n(2) == 0)
		}
		f.b(bw.Bytes())
		br := parse.NewBitmapReader(bw.Bytes())
		for k := 0; k < 13; k++ {
			if br.Read() {
				f.s("1")
			} else {
				f.s("0")
			}
		}
		return f.h
	}},
}

// RunSafe runs an entry point and turns a panic into a fingerprint of its message (a panic is a result
// too: it must be the same alone and under concurrency).
func RunSafe(ep EP, seed uint64, yield func()) (h uint64, panicked string) {
	defer func() {
		if e := recover(); e != nil {
			panicked = fmt.Sprint(e)
			f := newFP()
			f.s("panic:" + panicked)
			h = f.h
		}
	}()
	return ep.Run(seed, yield), ""
}
