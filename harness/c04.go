package main

import (
	"fmt"
	"reflect"
	"strconv"
	"strings"

	"github.com/tdewolff/parse/v2"
	"github.com/tdewolff/parse/v2/js"
)

// ---- C04: identifier resolution (js.Scope, js.Var, the parser's scope events) -----------------
//
// Three correspondence models
//   scope_api      random / exhaustive sequences of the exported Scope methods on real js.Scope
//                  objects (plus replicas of the parser's few inline edits), all fields dumped
//   scope_e2e_algo binding program -> JavaScript -> js.Parse -> partition of the identifier
//                  occurrences by *Var (after Link), vs the Coq algorithm on the linearisation
//   scope_e2e_spec the same partition vs the Coq declarative (ECMAScript) resolver
// and one oracle written from the property text (c04_oracle.go).

// ================================ API level ====================================================

const (
	apiEnter = iota
	apiExit
	apiDeclare
	apiUse
	apiMarkFor
	apiMarkArgs
	apiHoist
	apiUndeclare
	apiUnscope
	apiAddUndeclared
	apiSetUses
	apiArrowIdent
	apiExitUndeclare
)

var apiNames = []string{"Enter", "Exit", "Declare", "Use", "MarkFor", "MarkArgs", "Hoist", "UndeclareScope", "Unscope", "AddUndeclared", "SetUses", "ArrowIdent", "ExitUndeclare"}

var declNames = []string{"NoDecl", "var", "private", "function", "arg", "lexical", "catch", "expr"}

// scopeWorld drives real js.Scope objects; variables and scopes are numbered in creation order.
type scopeWorld struct {
	scopes []*js.Scope
	sidx   map[*js.Scope]int
	vars   []*js.Var
	vidx   map[*js.Var]int
	cur    *js.Scope
}

func newScopeWorld() *scopeWorld {
	return &scopeWorld{sidx: map[*js.Scope]int{}, vidx: map[*js.Var]int{}}
}

func (w *scopeWorld) vid(v *js.Var) int64 {
	if v == nil {
		return -1
	}
	if id, ok := w.vidx[v]; ok {
		return int64(id)
	}
	w.vidx[v] = len(w.vars)
	w.vars = append(w.vars, v)
	return int64(len(w.vars) - 1)
}

func nameBytes(n int64) []byte { return []byte(strconv.FormatInt(n, 10)) }

// apply performs one operation; obs is what the model must reproduce; stop is set after a panic
// or an impossible state.
func (w *scopeWorld) apply(code, a, b, c int64) (obs []int64, stop bool) {
	var res []int64
	p := catch(func() {
		switch code {
		case apiEnter:
			// replica of Parser.enterScope (parse.go:171-184)
			sc := &js.Scope{}
			parent := w.cur
			*sc = js.Scope{Parent: parent}
			if a != 0 {
				sc.Func = sc
			} else if parent != nil {
				sc.Func = parent.Func
			}
			w.cur = sc
			w.sidx[sc] = len(w.scopes)
			w.scopes = append(w.scopes, sc)
			res = []int64{0}
		case apiExit:
			// replica of Parser.exitScope (parse.go:186-189)
			w.cur.HoistUndeclared()
			w.cur = w.cur.Parent
			res = []int64{0}
		case apiDeclare:
			v, ok := w.scopes[a].Declare(js.DeclType(b), nameBytes(c))
			if ok {
				res = []int64{0, 1, w.vid(v)}
			} else {
				res = []int64{0, 0, -1}
			}
		case apiUse:
			v := w.scopes[a].Use(nameBytes(b))
			res = []int64{0, w.vid(v)}
		case apiMarkFor:
			w.scopes[a].MarkForStmt()
			res = []int64{0}
		case apiMarkArgs:
			w.scopes[a].MarkFuncArgs()
			res = []int64{0}
		case apiHoist:
			w.scopes[a].HoistUndeclared()
			res = []int64{0}
		case apiUndeclare:
			w.scopes[a].UndeclareScope()
			res = []int64{0}
		case apiUnscope:
			w.scopes[a].Unscope()
			res = []int64{0}
		case apiAddUndeclared:
			sc := w.scopes[a]
			if b < 0 || int(b) >= len(w.vars) {
				res = []int64{-8}
				return
			}
			sc.AddUndeclared(w.vars[b])
			res = []int64{0}
		case apiSetUses:
			if a < 0 || int(a) >= len(w.vars) {
				res = []int64{-8}
				return
			}
			w.vars[a].Uses = uint16(b)
			res = []int64{0}
		case apiArrowIdent:
			// replica of parse.go:1563-1571 (the arrow function's scope is w.cur)
			if a < 0 || int(a) >= len(w.vars) {
				res = []int64{-8}
				return
			}
			v := w.vars[a]
			if 1 < v.Uses {
				v.Uses--
				v, _ = w.cur.Declare(js.ArgumentDecl, parse.Copy(v.Data))
				if v == nil {
					res = []int64{-1} // a nil *Var would be stored in the tree
					return
				}
			} else {
				w.cur.Parent.Undeclared = w.cur.Parent.Undeclared[:len(w.cur.Parent.Undeclared)-1]
				v.Decl = js.ArgumentDecl
				w.cur.Declared = append(w.cur.Declared, v)
			}
			res = []int64{0, w.vid(v)}
		case apiExitUndeclare:
			// replica of parse.go:2303-2304
			old := w.cur
			w.cur.HoistUndeclared()
			w.cur = w.cur.Parent
			old.UndeclareScope()
			res = []int64{0}
		default:
			res = []int64{-5}
		}
	})
	if p != nil {
		return []int64{-1}, true
	}
	return res, len(res) > 0 && res[0] != 0
}

func (w *scopeWorld) sid(s *js.Scope) int64 {
	if s == nil {
		return 0
	}
	if i, ok := w.sidx[s]; ok {
		return int64(i) + 1
	}
	return -77
}

func (w *scopeWorld) dump() []int64 {
	out := []int64{-9, w.sid(w.cur), int64(len(w.scopes))}
	for _, s := range w.scopes {
		out = append(out, w.sid(s.Parent), w.sid(s.Func), int64(s.NumForDecls), int64(s.NumFuncArgs), int64(s.NumArgUses))
		out = append(out, int64(len(s.Declared)))
		for _, v := range s.Declared {
			out = append(out, w.vid(v))
		}
		out = append(out, int64(len(s.Undeclared)))
		for _, v := range s.Undeclared {
			out = append(out, w.vid(v))
		}
	}
	// every Var reachable from a list was returned by Declare/Use before, so numbering is complete
	out = append(out, int64(len(w.vars)))
	for _, v := range w.vars {
		n, _ := strconv.ParseInt(string(v.Data), 10, 64)
		link := int64(0)
		if v.Link != nil {
			link = w.vid(v.Link) + 1
		}
		out = append(out, n, link, int64(v.Uses), int64(v.Decl))
	}
	return out
}

func scopeAPIImpl(c Case) []int64 {
	w := newScopeWorld()
	var out []int64
	a := c.Args
	i := 0
	for ; i+3 < len(a); i += 4 {
		obs, stop := w.apply(a[i], a[i+1], a[i+2], a[i+3])
		out = append(out, obs...)
		if stop {
			return out
		}
	}
	return append(out, w.dump()...)
}

func describeAPI(a []int64) string {
	var sb strings.Builder
	for i := 0; i+3 < len(a); i += 4 {
		code := a[i]
		nm := "?"
		if code >= 0 && int(code) < len(apiNames) {
			nm = apiNames[code]
		}
		switch code {
		case apiEnter:
			fmt.Fprintf(&sb, "Enter(func=%d) ", a[i+1])
		case apiExit, apiExitUndeclare:
			sb.WriteString(nm + " ")
		case apiDeclare:
			d := "?"
			if a[i+2] >= 0 && int(a[i+2]) < len(declNames) {
				d = declNames[a[i+2]]
			}
			fmt.Fprintf(&sb, "s%d.Declare(%s,n%d) ", a[i+1], d, a[i+3])
		case apiUse:
			fmt.Fprintf(&sb, "s%d.Use(n%d) ", a[i+1], a[i+2])
		case apiAddUndeclared:
			fmt.Fprintf(&sb, "s%d.AddUndeclared(v%d) ", a[i+1], a[i+2])
		case apiSetUses:
			fmt.Fprintf(&sb, "v%d.Uses=%d ", a[i+1], a[i+2])
		case apiArrowIdent:
			fmt.Fprintf(&sb, "ArrowIdent(v%d) ", a[i+1])
		default:
			fmt.Fprintf(&sb, "s%d.%s() ", a[i+1], nm)
		}
	}
	return sb.String()
}

// apiGen builds operation sequences while running them on a live world, so that scope and
// variable indices are valid (the malformed stream then perturbs them deliberately only where the
// model and the implementation agree on the outcome: scope indices may be any existing scope).
type apiGen struct {
	w    *scopeWorld
	args []int64
	dead bool
}

func newAPIGen() *apiGen { return &apiGen{w: newScopeWorld()} }

func (g *apiGen) op(code, a, b, c int64) []int64 {
	if g.dead {
		return nil
	}
	g.args = append(g.args, code, a, b, c)
	obs, stop := g.w.apply(code, a, b, c)
	if stop {
		g.dead = true
	}
	return obs
}

func (g *apiGen) curIdx() int64 {
	if g.w.cur == nil {
		return 0
	}
	return int64(g.w.sidx[g.w.cur])
}

func (g *apiGen) kase(note string) Case {
	return Case{Fn: "scope_api", Args: g.args, Note: note + describeAPI(g.args)}
}

var apiDeclKinds = []int64{1, 3, 4, 5, 6, 7, 2, 0}

func genAPIStructured(r *Rng, n int, wild bool) Case {
	g := newAPIGen()
	g.op(apiEnter, 1, 0, 0)
	names := int64(2 + r.Intn(3))
	for k := 0; k < n && !g.dead; k++ {
		cur := g.curIdx()
		depth := 0
		for s := g.w.cur; s != nil; s = s.Parent {
			depth++
		}
		x := r.Intn(100)
		target := cur
		if wild && r.Chance(1, 5) && len(g.w.scopes) > 0 {
			target = int64(r.Intn(len(g.w.scopes)))
		}
		switch {
		case x < 30:
			g.op(apiUse, target, int64(r.Intn(int(names))), 0)
		case x < 55:
			kind := apiDeclKinds[r.Intn(4)]
			if r.Chance(1, 6) {
				kind = apiDeclKinds[r.Intn(len(apiDeclKinds))]
			}
			g.op(apiDeclare, target, kind, int64(r.Intn(int(names))))
		case x < 68:
			g.op(apiEnter, int64(r.Intn(2)), 0, 0)
		case x < 80:
			if depth > 1 || wild {
				if r.Chance(1, 6) {
					g.op(apiExitUndeclare, 0, 0, 0)
				} else {
					g.op(apiExit, 0, 0, 0)
				}
			}
		case x < 84:
			g.op(apiMarkArgs, target, 0, 0)
		case x < 88:
			g.op(apiMarkFor, target, 0, 0)
		case x < 92:
			// x => ... : Use, Enter(func), ArrowIdent on the Var that Use returned, MarkFuncArgs
			obs := g.op(apiUse, cur, int64(r.Intn(int(names))), 0)
			if g.dead || len(obs) < 2 {
				break
			}
			g.op(apiEnter, 1, 0, 0)
			g.op(apiArrowIdent, obs[1], 0, 0)
			g.op(apiMarkArgs, g.curIdx(), 0, 0)
		default:
			if !wild {
				g.op(apiUse, cur, int64(r.Intn(int(names))), 0)
				break
			}
			switch r.Intn(6) {
			case 0:
				g.op(apiHoist, target, 0, 0)
			case 1:
				g.op(apiUndeclare, target, 0, 0)
			case 2:
				g.op(apiUnscope, target, 0, 0)
			case 3:
				if len(g.w.vars) > 0 {
					g.op(apiAddUndeclared, target, int64(r.Intn(len(g.w.vars))), 0)
				}
			case 4:
				if len(g.w.vars) > 0 {
					u := []int64{0, 1, 2, 65534, 65535, 32768}[r.Intn(6)]
					g.op(apiSetUses, int64(r.Intn(len(g.w.vars))), u, 0)
				}
			case 5:
				if len(g.w.vars) > 0 {
					g.op(apiArrowIdent, int64(r.Intn(len(g.w.vars))), 0, 0)
				}
			}
		}
	}
	note := "structured: "
	if wild {
		note = "wild: "
	}
	return g.kase(note)
}

// exhaustive small scope: every sequence of at most k operations of a 13-letter alphabet acting on
// the current scope, after Enter(func)
func genAPIExhaustive(k int, emit func(Case)) {
	type letter struct{ code, b, c int64 }
	alpha := []letter{
		{apiEnter, 0, 0}, {apiEnter, 1, 0}, {apiExit, 0, 0},
		{apiDeclare, 1, 7}, {apiDeclare, 5, 7}, {apiDeclare, 4, 7}, {apiDeclare, 3, 7},
		{apiUse, 7, 0}, {apiUse, 8, 0},
		{apiMarkFor, 0, 0}, {apiMarkArgs, 0, 0}, {apiExitUndeclare, 0, 0}, {apiArrowIdent, 0, 0},
	}
	var rec func(prefix []int)
	rec = func(prefix []int) {
		if len(prefix) > 0 {
			g := newAPIGen()
			g.op(apiEnter, 1, 0, 0)
			for _, li := range prefix {
				l := alpha[li]
				switch l.code {
				case apiEnter:
					g.op(apiEnter, l.b, 0, 0)
				case apiExit, apiExitUndeclare:
					g.op(l.code, 0, 0, 0)
				case apiDeclare:
					g.op(apiDeclare, g.curIdx(), l.b, l.c)
				case apiUse:
					g.op(apiUse, g.curIdx(), l.b, 0)
				case apiArrowIdent:
					if len(g.w.vars) == 0 {
						g.dead = true
						break
					}
					g.op(apiArrowIdent, int64(len(g.w.vars)-1), 0, 0)
				default:
					g.op(l.code, g.curIdx(), 0, 0)
				}
			}
			if !g.dead || len(g.args) == 4*(len(prefix)+1) {
				emit(g.kase("exhaustive: "))
			}
			if g.dead {
				return // longer sequences with this prefix stop at the same point
			}
		}
		if len(prefix) == k {
			return
		}
		for i := range alpha {
			rec(append(prefix, i))
		}
	}
	rec(nil)
}

func shrinkAPI(c Case) []Case {
	var out []Case
	a := c.Args
	for i := 0; i+3 < len(a); i += 4 {
		na := append(append([]int64{}, a[:i]...), a[i+4:]...)
		out = append(out, Case{Fn: c.Fn, Args: na, Note: "shrunk: " + describeAPI(na)})
	}
	return out
}

var scopeAPIModel = &Model{
	Name: "scope_api",
	Gen: func(r *Rng, tier string, emit func(Case)) {
		k, n := 4, 6000
		if tier == "thorough" {
			k, n = 5, 200000
		}
		genAPIExhaustive(k, emit)
		for i := 0; i < n; i++ {
			emit(genAPIStructured(r, 3+i%40, i%3 == 2))
		}
	},
	Impl:   scopeAPIImpl,
	Shrink: shrinkAPI,
	Class: func(c Case, out []int64) string {
		kind := "structured"
		if strings.HasPrefix(c.Note, "wild") {
			kind = "wild"
		} else if strings.HasPrefix(c.Note, "exhaustive") {
			kind = "exhaustive"
		} else if strings.HasPrefix(c.Note, "corpus") {
			kind = "corpus"
		}
		for _, x := range out {
			if x == -9 {
				return kind + "/completed"
			}
		}
		if len(out) > 0 && out[len(out)-1] == -1 {
			return kind + "/panic"
		}
		return kind + "/other"
	},
}

// ================================ binding programs =============================================

const (
	kDone = iota
	kRef
	kPRef
	kDecl
	kBlock
	kFunc
	kArrow
	kArrowId
	kParen
	kFor
	kCatch
	kClass
)

const (
	dVar = iota
	dFun
	dLex
	dParam
	dCatch
)

// item is one element of a binding program (Spec.v's prog, with Go slices for the continuations).
type item struct {
	kind  int
	x     int     // name
	d     int     // declaration kind
	nm    int     // expression name of Func / Class, -1 if none
	a     []*item // ps / hd / ms
	b     []*item // body
	style int     // rendering variation (not part of the encoding)
}

func encodeProg(l []*item, out []int64) []int64 {
	for _, it := range l {
		switch it.kind {
		case kRef, kPRef, kArrowId:
			out = append(out, int64(it.kind), int64(it.x))
			if it.kind == kArrowId {
				out = encodeProg(it.b, out)
			}
		case kDecl:
			out = append(out, kDecl, int64(it.d), int64(it.x))
		case kBlock:
			out = append(out, kBlock)
			out = encodeProg(it.b, out)
		case kFunc, kClass:
			if it.nm >= 0 {
				out = append(out, int64(it.kind), 1, int64(it.nm))
			} else {
				out = append(out, int64(it.kind), 0, 0)
			}
			out = encodeProg(it.a, out)
			if it.kind == kFunc {
				out = encodeProg(it.b, out)
			}
		case kArrow, kFor, kCatch:
			out = append(out, int64(it.kind))
			out = encodeProg(it.a, out)
			out = encodeProg(it.b, out)
		case kParen:
			out = append(out, kParen)
			out = encodeProg(it.a, out)
		}
	}
	return append(out, kDone)
}

func decodeProg(a []int64) ([]*item, []int64) {
	var l []*item
	for len(a) > 0 {
		c := a[0]
		a = a[1:]
		at := func(i int) int {
			if i < len(a) {
				return int(a[i])
			}
			return 0
		}
		skip := func(n int) {
			if n > len(a) {
				n = len(a)
			}
			a = a[n:]
		}
		switch c {
		case kRef, kPRef:
			l = append(l, &item{kind: int(c), x: at(0), nm: -1})
			skip(1)
		case kDecl:
			d := at(0)
			if d < 0 || d > dCatch {
				d = dCatch
			}
			l = append(l, &item{kind: kDecl, d: d, x: at(1), nm: -1})
			skip(2)
		case kBlock:
			it := &item{kind: kBlock, nm: -1}
			it.b, a = decodeProg(a)
			l = append(l, it)
		case kFunc, kClass:
			it := &item{kind: int(c), nm: -1}
			if at(0) != 0 {
				it.nm = at(1)
			}
			skip(2)
			it.a, a = decodeProg(a)
			if c == kFunc {
				it.b, a = decodeProg(a)
			}
			l = append(l, it)
		case kArrow, kFor, kCatch:
			it := &item{kind: int(c), nm: -1}
			it.a, a = decodeProg(a)
			it.b, a = decodeProg(a)
			l = append(l, it)
		case kArrowId:
			it := &item{kind: kArrowId, x: at(0), nm: -1}
			skip(1)
			it.b, a = decodeProg(a)
			l = append(l, it)
		case kParen:
			it := &item{kind: kParen, nm: -1}
			it.a, a = decodeProg(a)
			l = append(l, it)
		default: // kDone or unknown
			return l, a
		}
	}
	return l, a
}

func jsName(n int) string {
	if n >= 0 && n < 8 {
		return string(rune('a' + n))
	}
	return "v" + strconv.Itoa(n)
}

func isExprKind(k int) bool {
	return k == kRef || k == kFunc || k == kArrow || k == kArrowId || k == kParen || k == kClass
}

// renderable reports whether the renderer can produce JavaScript whose scope events are exactly
// the linearisation of l (see render*). ctx: 0 statement list, 1 parameter list, 2 paren head,
// 3 loop head, 4 catch head, 5 class members, 6 expression list
func renderable(l []*item, ctx int) bool {
	for i, it := range l {
		switch it.kind {
		case kRef:
		case kPRef:
			if ctx != 2 {
				return false
			}
		case kDecl:
			switch ctx {
			case 0:
				if it.d == dParam || it.d == dCatch {
					return false
				}
				if it.d == dFun && !(i+1 < len(l) && l[i+1].kind == kFunc && l[i+1].nm < 0) {
					return false
				}
			case 1:
				if it.d != dParam {
					return false
				}
			case 3:
				if it.d != dVar && it.d != dLex {
					return false
				}
			case 4:
				if it.d != dCatch {
					return false
				}
			default:
				return false
			}
		case kBlock:
			if ctx != 0 {
				return false
			}
			if !renderable(it.b, 0) {
				return false
			}
		case kFunc:
			if !renderable(it.a, 1) || !renderable(it.b, 0) {
				return false
			}
			if ctx == 5 && it.nm >= 0 {
				// a named function expression as a field value is fine
			}
		case kArrow:
			if !renderable(it.a, 1) || !renderable(it.b, 0) {
				return false
			}
		case kArrowId:
			if !renderable(it.b, 0) {
				return false
			}
		case kParen:
			if len(it.a) == 0 || !renderable(it.a, 2) {
				return false
			}
		case kFor:
			if ctx != 0 || !renderable(it.a, 3) || !renderable(it.b, 0) {
				return false
			}
		case kCatch:
			if ctx != 0 || !renderable(it.a, 4) || !renderable(it.b, 0) {
				return false
			}
			if !(i > 0 && l[i-1].kind == kBlock) {
				return false
			}
		case kClass:
			if !renderable(it.a, 5) {
				return false
			}
		default:
			return false
		}
		if ctx != 0 && !isExprKind(it.kind) && it.kind != kDecl && it.kind != kPRef {
			return false
		}
	}
	switch ctx {
	case 1, 4:
		// defaults follow a parameter
		if len(l) > 0 && l[0].kind != kDecl {
			return false
		}
	case 2:
		// once an argument is not parameter-like the parser stops declaring
		hasP := false
		for _, it := range l {
			if it.kind == kPRef {
				hasP = true
			}
		}
		if hasP && l[0].kind != kPRef {
			return false
		}
	case 3:
		// all declarations of a loop head are of one kind; declarations come first or not at all
		kind := -1
		for _, it := range l {
			if it.kind == kDecl {
				if kind >= 0 && kind != it.d {
					return false
				}
				kind = it.d
			}
		}
		if kind >= 0 && l[0].kind != kDecl {
			return false
		}
	}
	return true
}

// ---- rendering ----------------------------------------------------------------------------------

type renderer struct {
	sb     strings.Builder
	plain  bool // no stylistic variation
	oracle bool // also render destructuring parameters with array-literal defaults in arrow heads
	// (there /repo declares the identifiers of the default value as parameters: known finding)
}

func (r *renderer) w(s string) { r.sb.WriteString(s) }

func (r *renderer) st(it *item, n int) int {
	if r.plain || n <= 0 {
		return 0
	}
	s := it.style
	if s < 0 {
		s = -s
	}
	return s % n
}

func (r *renderer) exprItem(it *item) {
	switch it.kind {
	case kRef:
		r.w(jsName(it.x))
	case kFunc:
		switch r.st(it, 3) {
		case 1:
			r.w("function*")
		case 2:
			r.w("async function")
		default:
			r.w("function")
		}
		if it.nm >= 0 {
			r.w(" " + jsName(it.nm))
		}
		r.w("(")
		r.params(it.a, false)
		r.w("){")
		r.stmts(it.b)
		r.w("}")
	case kArrow:
		if r.st(it, 4) == 3 && len(it.a) == 1 && it.a[0].kind == kDecl {
			// async x => ... : parseAsyncArrowFunc declares the parameter directly
			r.w("async " + jsName(it.a[0].x) + "=>")
		} else {
			if r.st(it, 4) == 2 {
				r.w("async")
			}
			r.w("(")
			r.params(it.a, true)
			r.w(")=>")
		}
		r.arrowBody(it)
	case kArrowId:
		r.w(jsName(it.x) + "=>")
		r.arrowBody(it)
	case kParen:
		r.w("(")
		r.parenHead(it.a)
		r.w(")")
	case kClass:
		r.w("class")
		if it.nm >= 0 {
			r.w(" " + jsName(it.nm))
		}
		r.w("{")
		r.members(it.a)
		r.w("}")
	default:
		r.w("0")
	}
}

func allExpr(l []*item) bool {
	for _, it := range l {
		if !isExprKind(it.kind) {
			return false
		}
	}
	return true
}

func (r *renderer) arrowBody(it *item) {
	if (it.style/4)%3 == 1 && !r.plain && allExpr(it.b) {
		// expression body; an object/array literal body would need care: use a wrapper that is
		// neither a parenthesised expression nor a block
		r.w("0+")
		r.w("[")
		for i, e := range it.b {
			if i > 0 {
				r.w(",")
			}
			r.exprItem(e)
		}
		r.w("]")
		return
	}
	r.w("{")
	r.stmts(it.b)
	r.w("}")
}

// exprList renders a (possibly empty) list of expression items as one AssignmentExpression
func (r *renderer) exprList(l []*item) {
	switch len(l) {
	case 0:
		r.w("0")
	case 1:
		r.exprItem(l[0])
	default:
		r.w("[")
		for i, e := range l {
			if i > 0 {
				r.w(",")
			}
			r.exprItem(e)
		}
		r.w("]")
	}
}

// split a head into groups: a declaration (or PRef) followed by the items of its initialiser
func groups(l []*item) (lead []*item, gs [][]*item) {
	i := 0
	for i < len(l) && l[i].kind != kDecl && l[i].kind != kPRef {
		lead = append(lead, l[i])
		i++
	}
	for i < len(l) {
		g := []*item{l[i]}
		i++
		for i < len(l) && l[i].kind != kDecl && l[i].kind != kPRef {
			g = append(g, l[i])
			i++
		}
		gs = append(gs, g)
	}
	return
}

func (r *renderer) pattern(it *item, allowRest bool, last bool, hasDefault bool) {
	n := jsName(it.x)
	switch r.st(it, 5) {
	case 1:
		r.w("{" + n + "}")
	case 2:
		r.w("[" + n + "]")
	case 3:
		r.w("{k:" + n + "}")
	case 4:
		if allowRest && last && !hasDefault {
			r.w("..." + n)
		} else {
			r.w("[," + n + "]")
		}
	default:
		r.w(n)
	}
}

// patternDefaultHazard: a destructuring parameter whose default value is rendered as an array
// literal, inside a parenthesised (possible) arrow head
func patternDefaultHazard(g []*item, mod int) bool {
	s := g[0].style
	if s < 0 {
		s = -s
	}
	return len(g) > 1 && s%mod != 0 && !(mod == 4 && s%mod == 3)
}

// restHazard: parseFuncParams returns before MarkFuncArgs when the list ends in a rest element,
// so a function (not an arrow) with a rest parameter and default values elsewhere behaves
// differently from the linearisation (known finding; rendered in oracle mode only)
func restHazard(l []*item) bool {
	_, gs := groups(l)
	if len(gs) == 0 {
		return false
	}
	last := gs[len(gs)-1]
	s := last[0].style
	if s < 0 {
		s = -s
	}
	if s%5 != 4 || len(last) > 1 {
		return false
	}
	for _, g := range gs {
		if len(g) > 1 {
			return true
		}
	}
	return false
}

func (r *renderer) params(l []*item, arrow bool) {
	_, gs := groups(l)
	for i, g := range gs {
		if i > 0 {
			r.w(",")
		}
		if arrow && !r.oracle && patternDefaultHazard(g, 5) {
			r.w(jsName(g[0].x))
		} else {
			r.pattern(g[0], arrow || r.oracle || !restHazard(l), i == len(gs)-1, len(g) > 1)
		}
		if len(g) > 1 {
			r.w("=")
			r.exprList(g[1:])
		}
	}
}

func (r *renderer) parenHead(l []*item) {
	lead, gs := groups(l)
	first := true
	for _, e := range lead {
		if !first {
			r.w(",")
		}
		if first && e.kind == kRef {
			r.w("+") // not parameter-like: the parser stops assuming an arrow head
		}
		r.exprItem(e)
		first = false
	}
	for _, g := range gs {
		if !first {
			r.w(",")
		}
		first = false
		n := jsName(g[0].x)
		sty := r.st(g[0], 4)
		if !r.oracle && patternDefaultHazard(g, 4) {
			sty = 0
		}
		switch sty {
		case 1:
			r.w("{" + n + "}")
		case 2:
			r.w("[" + n + "]")
		default:
			r.w(n)
		}
		if len(g) > 1 {
			r.w("=")
			r.exprList(g[1:])
		}
	}
	if first {
		r.w("0")
	}
}

func (r *renderer) members(l []*item) {
	for i, it := range l {
		switch it.kind {
		case kFunc:
			if it.nm < 0 {
				switch r.st(it, 4) {
				case 1:
					r.w("static ")
				case 2:
					r.w("*")
				case 3:
					r.w("async ")
				}
				r.w(fmt.Sprintf("m%d(", i))
				r.params(it.a, false)
				r.w("){")
				r.stmts(it.b)
				r.w("}")
				continue
			}
			r.w(fmt.Sprintf("f%d=", i))
			r.exprItem(it)
			r.w(";")
		case kRef:
			switch r.st(it, 3) {
			case 1:
				r.w("[" + jsName(it.x) + "]=0;")
			case 2:
				r.w(fmt.Sprintf("static f%d=%s;", i, jsName(it.x)))
			default:
				r.w(fmt.Sprintf("f%d=%s;", i, jsName(it.x)))
			}
		case kBlock:
			r.w("static{")
			r.stmts(it.b)
			r.w("}")
		default:
			r.w(fmt.Sprintf("f%d=", i))
			r.exprItem(it)
			r.w(";")
		}
	}
}

func (r *renderer) stmts(l []*item) {
	for i := 0; i < len(l); i++ {
		it := l[i]
		switch it.kind {
		case kRef:
			n := jsName(it.x)
			switch r.st(it, 7) {
			case 1:
				r.w(n + "=0;")
			case 2:
				r.w(n + "++;")
			case 3:
				r.w("if(" + n + ");")
			case 4:
				r.w(n + ".p();")
			case 5:
				r.w("while(" + n + ")break;")
			case 6:
				r.w("l:" + n + ";")
			default:
				r.w(n + ";")
			}
		case kPRef:
			r.w(jsName(it.x) + ";")
		case kDecl:
			n := jsName(it.x)
			switch it.d {
			case dVar:
				r.w("var " + []string{n, n + "=0", "[" + n + "]=0", "{" + n + "}=0"}[r.st(it, 4)] + ";")
			case dLex:
				if i+1 < len(l) && l[i+1].kind == kClass && l[i+1].nm < 0 && (r.st(it, 2) == 1 || r.plain) {
					r.w("class " + n + "{")
					r.members(l[i+1].a)
					r.w("}")
					i++
					break
				}
				r.w([]string{"let " + n, "const " + n + "=0", "let [" + n + "]=0", "const {" + n + "}=0"}[r.st(it, 4)] + ";")
			case dFun:
				if i+1 < len(l) && l[i+1].kind == kFunc && l[i+1].nm < 0 {
					f := l[i+1]
					r.w([]string{"function ", "function*", "async function "}[r.st(f, 3)] + n + "(")
					r.params(f.a, false)
					r.w("){")
					r.stmts(f.b)
					r.w("}")
					i++
				} else {
					r.w("function " + n + "(){}")
				}
			default:
				r.w("var " + n + ";")
			}
		case kBlock:
			if i+1 < len(l) && l[i+1].kind == kCatch {
				c := l[i+1]
				r.w("try{")
				r.stmts(it.b)
				r.w("}catch")
				_, gs := groups(c.a)
				if len(gs) == 1 && len(gs[0]) == 1 && (r.st(gs[0][0], 5) == 0 || r.st(gs[0][0], 5) == 4) {
					r.w("(" + jsName(gs[0][0].x) + ")")
				} else if len(gs) > 0 {
					r.w("([")
					for j, g := range gs {
						if j > 0 {
							r.w(",")
						}
						r.pattern(g[0], false, false, len(g) > 1)
						if len(g) > 1 {
							r.w("=")
							r.exprList(g[1:])
						}
					}
					r.w("])")
				}
				r.w("{")
				r.stmts(c.b)
				r.w("}")
				i++
				break
			}
			switch r.st(it, 6) {
			case 1:
				r.w("switch(0){case 0:")
				r.stmts(it.b)
				r.w("}")
			case 2:
				r.w("if(0){")
				r.stmts(it.b)
				r.w("}")
			case 3:
				r.w("do{")
				r.stmts(it.b)
				r.w("}while(0);")
			case 4:
				r.w("l:{")
				r.stmts(it.b)
				r.w("}")
			case 5:
				if i+1 < len(l) && l[i+1].kind == kBlock && !(i+2 < len(l) && l[i+2].kind == kCatch) {
					r.w("try{")
					r.stmts(it.b)
					r.w("}finally{")
					r.stmts(l[i+1].b)
					r.w("}")
					i++
					break
				}
				fallthrough
			default:
				r.w("{")
				r.stmts(it.b)
				r.w("}")
			}
		case kFunc:
			if it.nm < 0 && r.st(it, 7) >= 5 {
				r.w("0,{m(")
				r.params(it.a, false)
				r.w("){")
				r.stmts(it.b)
				r.w("}};")
				break
			}
			r.w([]string{"!", "0,", "a0="}[(it.style/7)%2])
			r.exprItem(it)
			r.w(";")
		case kArrow, kClass:
			r.w("0,")
			r.exprItem(it)
			r.w(";")
		case kArrowId:
			if r.st(it, 2) == 1 {
				r.w("0,")
			}
			r.exprItem(it)
			r.w(";")
		case kParen:
			if r.st(it, 2) == 1 {
				r.w("0,")
			}
			r.exprItem(it)
			r.w(";")
		case kFor:
			r.forStmt(it)
		case kCatch:
			// unpaired (not renderable exactly): keep the parser's events but for one empty block
			r.w("try{}catch")
			_, gs := groups(it.a)
			if len(gs) > 0 {
				r.w("(" + jsName(gs[0][0].x) + ")")
			}
			r.w("{")
			r.stmts(it.b)
			r.w("}")
		}
	}
}

func (r *renderer) forStmt(it *item) {
	lead, gs := groups(it.a)
	r.w("for(")
	if len(gs) == 0 {
		switch r.st(it, 3) {
		case 1:
			r.w(";")
			r.exprList(lead)
			r.w(";")
		case 2:
			r.w(";;")
			r.exprList(lead)
		default:
			r.exprList(lead)
			r.w(";;")
		}
	} else {
		kw := "var "
		if gs[0][0].d == dLex {
			kw = "let "
		}
		if len(gs) == 1 && (r.st(it, 4) == 1 || r.st(it, 4) == 2) {
			// for-of / for-in: the declaration has no initialiser, the rest is the iterated value
			if gs[0][0].d == dLex && it.style%8 >= 4 {
				kw = "const "
			}
			r.w(kw)
			r.pattern(gs[0][0], false, false, false)
			r.w([]string{"", " of ", " in "}[r.st(it, 4)])
			r.exprList(gs[0][1:])
		} else {
			r.w(kw)
			for j, g := range gs {
				if j > 0 {
					r.w(",")
				}
				rest := g[1:]
				var cond []*item
				if j == len(gs)-1 && r.st(it, 4) == 3 && len(rest) > 0 {
					cond = rest[len(rest)/2:]
					rest = rest[:len(rest)/2]
				}
				if len(rest) > 0 || r.st(g[0], 5) != 0 {
					r.pattern(g[0], false, false, true)
					r.w("=")
					r.exprList(rest)
				} else {
					r.w(jsName(g[0].x))
				}
				if j == len(gs)-1 {
					r.w(";")
					if len(cond) > 0 {
						r.exprList(cond)
					}
					r.w(";")
				}
			}
		}
	}
	r.w("){")
	r.stmts(it.b)
	r.w("}")
}

func renderProg(l []*item, plain bool) string {
	r := &renderer{plain: plain}
	r.stmts(l)
	return r.sb.String()
}

func renderProgOracle(l []*item) string {
	r := &renderer{oracle: true}
	r.stmts(l)
	return r.sb.String()
}

// occurrence names in source order (= the order of the model's log)
func occNames(l []*item, out []int) []int {
	for _, it := range l {
		switch it.kind {
		case kRef, kPRef, kDecl:
			out = append(out, it.x)
		case kBlock:
			out = occNames(it.b, out)
		case kFunc, kClass:
			if it.nm >= 0 {
				out = append(out, it.nm)
			}
			out = occNames(it.a, out)
			out = occNames(it.b, out)
		case kArrow, kFor, kCatch:
			out = occNames(it.a, out)
			out = occNames(it.b, out)
		case kArrowId:
			out = append(out, it.x)
			out = occNames(it.b, out)
		case kParen:
			out = occNames(it.a, out)
		}
	}
	return out
}

// ---- walking the tree of js.Parse -------------------------------------------------------------------

var jsScopeT = reflect.TypeOf(js.Scope{})
var jsVarT = reflect.TypeOf(js.Var{})

// collectVars appends every *Var stored in the tree in field order, which is source order for every
// node type of ast.go (checked against the expected names by the callers). Scope tables are skipped.
func collectVars(v reflect.Value, out *[]*js.Var) {
	switch v.Kind() {
	case reflect.Interface:
		if !v.IsNil() {
			collectVars(v.Elem(), out)
		}
	case reflect.Ptr:
		if v.IsNil() {
			return
		}
		if v.Type().Elem() == jsVarT {
			*out = append(*out, v.Interface().(*js.Var))
			return
		}
		if v.Type().Elem() == jsScopeT {
			return
		}
		collectVars(v.Elem(), out)
	case reflect.Struct:
		if v.Type() == jsScopeT || v.Type() == jsVarT {
			return
		}
		for i := 0; i < v.NumField(); i++ {
			collectVars(v.Field(i), out)
		}
	case reflect.Slice:
		if v.Type().Elem().Kind() == reflect.Uint8 {
			return
		}
		for i := 0; i < v.Len(); i++ {
			collectVars(v.Index(i), out)
		}
	}
}

func varRoot(v *js.Var) *js.Var {
	for n := 0; v.Link != nil && n < 1000000; n++ {
		v = v.Link
	}
	return v
}

type parsed struct {
	ast   *js.AST
	occ   []*js.Var // as stored in the tree
	roots []*js.Var
	err   error
	pan   interface{}
}

func parseJS(src string) *parsed {
	p := &parsed{}
	p.pan = catch(func() {
		p.ast, p.err = js.Parse(parse.NewInputString(src), js.Options{})
	})
	if p.pan != nil || p.err != nil {
		return p
	}
	collectVars(reflect.ValueOf(p.ast.List), &p.occ)
	for _, v := range p.occ {
		p.roots = append(p.roots, varRoot(v))
	}
	return p
}

func canonVars(roots []*js.Var) ([]int64, []*js.Var) {
	idx := map[*js.Var]int{}
	var reps []*js.Var
	out := make([]int64, len(roots))
	for i, r := range roots {
		id, ok := idx[r]
		if !ok {
			id = len(reps)
			idx[r] = id
			reps = append(reps, r)
		}
		out[i] = int64(id)
	}
	return out, reps
}

func inVarList(v *js.Var, l js.VarArray) int64 {
	for _, x := range l {
		if x == v {
			return 1
		}
	}
	return 0
}

// e2eObserve: what the implementation says about the program: 0 = rejected, -1 = panic,
// -7 = the tree's identifiers do not line up with the program (harness problem), else
// 1, n, classes, then per class Decl, Uses, in module Declared, in module Undeclared
func e2eObserve(l []*item, plain bool) ([]int64, *parsed, string) {
	src := renderProg(l, plain)
	p := parseJS(src)
	if p.pan != nil {
		return []int64{-1}, p, src
	}
	if p.err != nil {
		return []int64{0}, p, src
	}
	want := occNames(l, nil)
	if len(want) != len(p.occ) {
		return []int64{-7, int64(len(want)), int64(len(p.occ))}, p, src
	}
	for i, v := range p.roots {
		if string(v.Data) != jsName(want[i]) {
			return []int64{-7, int64(i)}, p, src
		}
	}
	classes, reps := canonVars(p.roots)
	out := []int64{1, int64(len(classes))}
	out = append(out, classes...)
	for _, r := range reps {
		out = append(out, int64(r.Decl), int64(r.Uses), inVarList(r, p.ast.Scope.Declared), inVarList(r, p.ast.Scope.Undeclared))
	}
	return out, p, src
}

// a case is the prefix code of the program (all the Coq side reads) followed by the rendering
// styles of its items in pre-order
func progOfCase(c Case) []*item {
	l, rest := decodeProg(c.Args)
	var set func(l []*item)
	set = func(l []*item) {
		for _, it := range l {
			if len(rest) > 0 {
				it.style = int(rest[0])
				rest = rest[1:]
			}
			set(it.a)
			set(it.b)
		}
	}
	set(l)
	return l
}

func stylesOf(l []*item, out []int64) []int64 {
	for _, it := range l {
		out = append(out, int64(it.style))
		out = stylesOf(it.a, out)
		out = stylesOf(it.b, out)
	}
	return out
}

func e2eAlgoImpl(c Case) []int64 {
	out, _, _ := e2eObserve(progOfCase(c), false)
	return out
}

// the declarative side is compared on the partition and on which classes are global only
func e2eSpecImpl(c Case) []int64 {
	l := progOfCase(c)
	if !esOK(l) {
		return []int64{0}
	}
	out, p, _ := e2eObserve(l, false)
	if len(out) == 0 || out[0] != 1 {
		return append([]int64{-6}, out...)
	}
	n := int(out[1])
	res := append([]int64{}, out[:2+n]...)
	_, reps := canonVars(p.roots)
	for _, r := range reps {
		g := int64(0)
		if r.Decl == js.NoDecl {
			g = 1
		}
		res = append(res, g)
	}
	return res
}
