package main

import (
	"fmt"
	"reflect"
	"strconv"
	"strings"

	"github.com/tdewolff/parse/v2"
	"github.com/tdewolff/parse/v2/js"
)

// ---- C04: identifier resolution (js.Scope, js.Var, the parser's scope events) -----------------
//
// Three correspondence models
//   scope_api      random / exhaustive sequences of the exported Scope methods on real js.Scope
//                  objects (plus replicas of the parser's few inline edits), all fields dumped
//   scope_e2e_algo binding program -> JavaScript -> js.Parse -> partition of the identifier
//                  occurrences by *Var (after Link), vs the Coq algorithm on the linearisation
//   scope_e2e_spec the same partition vs the Coq declarative (ECMAScript) resolver
// and one oracle written from the property text (c04_oracle.go).

// ================================ API level ====================================================

const (
	c04ApiEnter = iota
	c04ApiExit
	c04ApiDeclare
	c04ApiUse
	c04ApiMarkFor
	c04ApiMarkArgs
	c04ApiHoist
	c04ApiUndeclare
	c04ApiUnscope
	c04ApiAddUndeclared
	c04ApiSetUses
	c04ApiArrowIdent
	c04ApiExitUndeclare
)

var c04ApiNames = []string{"Enter", "Exit", "Declare", "Use", "MarkFor", "MarkArgs", "Hoist", "UndeclareScope", "Unscope", "AddUndeclared", "SetUses", "ArrowIdent", "ExitUndeclare"}

var c04DeclNames = []string{"NoDecl", "var", "private", "function", "arg", "lexical", "catch", "expr"}

// c04ScopeWorld drives real js.Scope objects; variables and scopes are numbered in creation order.
type c04ScopeWorld struct {
	scopes []*js.Scope
	sidx   map[*js.Scope]int
	vars   []*js.Var
	vidx   map[*js.Var]int
	cur    *js.Scope
}

func c04NewScopeWorld() *c04ScopeWorld {
	return &c04ScopeWorld{sidx: map[*js.Scope]int{}, vidx: map[*js.Var]int{}}
}

func (w *c04ScopeWorld) vid(v *js.Var) int64 {
	if v == nil {
		return -1
	}
	if id, ok := w.vidx[v]; ok {
		return int64(id)
	}
	w.vidx[v] = len(w.vars)
	w.vars = append(w.vars, v)
	return int64(len(w.vars) - 1)
}

func c04NameBytes(n int64) []byte { return []byte(strconv.FormatInt(n, 10)) }

// apply performs one operation; obs is what the model must reproduce; stop is set after a panic
// or an impossible state.
func (w *c04ScopeWorld) apply(code, a, b, c int64) (obs []int64, stop bool) {
	var res []int64
	p := catch(func() {
		switch code {
		case c04ApiEnter:
			// replica of Parser.enterScope (parse.go:171-184)
			sc := &js.Scope{}
			parent := w.cur
			*sc = js.Scope{Parent: parent}
			if a != 0 {
				sc.Func = sc
			} else if parent != nil {
				sc.Func = parent.Func
			}
			w.cur = sc
			w.sidx[sc] = len(w.scopes)
			w.scopes = append(w.scopes, sc)
			res = []int64{0}
		case c04ApiExit:
			// replica of Parser.exitScope (parse.go:186-189)
			w.cur.HoistUndeclared()
			w.cur = w.cur.Parent
			res = []int64{0}
		case c04ApiDeclare:
			v, ok := w.scopes[a].Declare(js.DeclType(b), c04NameBytes(c))
			if ok {
				res = []int64{0, 1, w.vid(v)}
			} else {
				res = []int64{0, 0, -1}
			}
		case c04ApiUse:
			v := w.scopes[a].Use(c04NameBytes(b))
			res = []int64{0, w.vid(v)}
		case c04ApiMarkFor:
			w.scopes[a].MarkForStmt()
			res = []int64{0}
		case c04ApiMarkArgs:
			w.scopes[a].MarkFuncArgs()
			res = []int64{0}
		case c04ApiHoist:
			w.scopes[a].HoistUndeclared()
			res = []int64{0}
		case c04ApiUndeclare:
			w.scopes[a].UndeclareScope()
			res = []int64{0}
		case c04ApiUnscope:
			w.scopes[a].Unscope()
			res = []int64{0}
		case c04ApiAddUndeclared:
			sc := w.scopes[a]
			if b < 0 || int(b) >= len(w.vars) {
				res = []int64{-8}
				return
			}
			sc.AddUndeclared(w.vars[b])
			res = []int64{0}
		case c04ApiSetUses:
			if a < 0 || int(a) >= len(w.vars) {
				res = []int64{-8}
				return
			}
			w.vars[a].Uses = uint16(b)
			res = []int64{0}
		case c04ApiArrowIdent:
			// replica of parse.go:1563-1571 (the arrow function's scope is w.cur)
			if a < 0 || int(a) >= len(w.vars) {
				res = []int64{-8}
				return
			}
			v := w.vars[a]
			if 1 < v.Uses {
				v.Uses--
				v, _ = w.cur.Declare(js.ArgumentDecl, parse.Copy(v.Data))
				if v == nil {
					res = []int64{-1} // a nil *Var would be stored in the tree
					return
				}
			} else {
				w.cur.Parent.Undeclared = w.cur.Parent.Undeclared[:len(w.cur.Parent.Undeclared)-1]
				v.Decl = js.ArgumentDecl
				w.cur.Declared = append(w.cur.Declared, v)
			}
			res = []int64{0, w.vid(v)}
		case c04ApiExitUndeclare:
			// replica of parse.go:2303-2304
			old := w.cur
			w.cur.HoistUndeclared()
			w.cur = w.cur.Parent
			old.UndeclareScope()
			res = []int64{0}
		default:
			res = []int64{-5}
		}
	})
	if p != nil {
		return []int64{-1}, true
	}
	return res, len(res) > 0 && res[0] != 0
}

func (w *c04ScopeWorld) sid(s *js.Scope) int64 {
	if s == nil {
		return 0
	}
	if i, ok := w.sidx[s]; ok {
		return int64(i) + 1
	}
	return -77
}

func (w *c04ScopeWorld) dump() []int64 {
	out := []int64{-9, w.sid(w.cur), int64(len(w.scopes))}
	for _, s := range w.scopes {
		out = append(out, w.sid(s.Parent), w.sid(s.Func), int64(s.NumForDecls), int64(s.NumFuncArgs), int64(s.NumArgUses))
		out = append(out, int64(len(s.Declared)))
		for _, v := range s.Declared {
			out = append(out, w.vid(v))
		}
		out = append(out, int64(len(s.Undeclared)))
		for _, v := range s.Undeclared {
			out = append(out, w.vid(v))
		}
	}
	// every Var reachable from a list was returned by Declare/Use before, so numbering is complete
	out = append(out, int64(len(w.vars)))
	for _, v := range w.vars {
		n, _ := strconv.ParseInt(string(v.Data), 10, 64)
		link := int64(0)
		if v.Link != nil {
			link = w.vid(v.Link) + 1
		}
		out = append(out, n, link, int64(v.Uses), int64(v.Decl))
	}
	return out
}

func c04ScopeAPIImpl(c Case) []int64 {
	w := c04NewScopeWorld()
	var out []int64
	a := c.Args
	i := 0
	for ; i+3 < len(a); i += 4 {
		obs, stop := w.apply(a[i], a[i+1], a[i+2], a[i+3])
		out = append(out, obs...)
		if stop {
			return out
		}
	}
	return append(out, w.dump()...)
}

func c04DescribeAPI(a []int64) string {
	var sb strings.Builder
	for i := 0; i+3 < len(a); i += 4 {
		code := a[i]
		nm := "?"
		if code >= 0 && int(code) < len(c04ApiNames) {
			nm = c04ApiNames[code]
		}
		switch code {
		case c04ApiEnter:
			fmt.Fprintf(&sb, "Enter(func=%d) ", a[i+1])
		case c04ApiExit, c04ApiExitUndeclare:
			sb.WriteString(nm + " ")
		case c04ApiDeclare:
			d := "?"
			if a[i+2] >= 0 && int(a[i+2]) < len(c04DeclNames) {
				d = c04DeclNames[a[i+2]]
			}
			fmt.Fprintf(&sb, "s%d.Declare(%s,n%d) ", a[i+1], d, a[i+3])
		case c04ApiUse:
			fmt.Fprintf(&sb, "s%d.Use(n%d) ", a[i+1], a[i+2])
		case c04ApiAddUndeclared:
			fmt.Fprintf(&sb, "s%d.AddUndeclared(v%d) ", a[i+1], a[i+2])
		case c04ApiSetUses:
			fmt.Fprintf(&sb, "v%d.Uses=%d ", a[i+1], a[i+2])
		case c04ApiArrowIdent:
			fmt.Fprintf(&sb, "ArrowIdent(v%d) ", a[i+1])
		default:
			fmt.Fprintf(&sb, "s%d.%s() ", a[i+1], nm)
		}
	}
	return sb.String()
}

// c04ApiGen builds operation sequences while running them on a live world, so that scope and
// variable indices are valid (the malformed stream then perturbs them deliberately only where the
// model and the implementation agree on the outcome: scope indices may be any existing scope).
type c04ApiGen struct {
	w    *c04ScopeWorld
	args []int64
	dead bool
}

func c04NewAPIGen() *c04ApiGen { return &c04ApiGen{w: c04NewScopeWorld()} }

func (g *c04ApiGen) op(code, a, b, c int64) []int64 {
	if g.dead {
		return nil
	}
	g.args = append(g.args, code, a, b, c)
	obs, stop := g.w.apply(code, a, b, c)
	if stop {
		g.dead = true
	}
	return obs
}

func (g *c04ApiGen) curIdx() int64 {
	if g.w.cur == nil {
		return 0
	}
	return int64(g.w.sidx[g.w.cur])
}

func (g *c04ApiGen) kase(note string) Case {
	return Case{Fn: "scope_api", Args: g.args, Note: note + c04DescribeAPI(g.args)}
}

var c04ApiDeclKinds = []int64{1, 3, 4, 5, 6, 7, 2, 0}

func c04GenAPIStructured(r *Rng, n int, wild bool) Case {
	g := c04NewAPIGen()
	g.op(c04ApiEnter, 1, 0, 0)
	names := int64(2 + r.Intn(3))
	for k := 0; k < n && !g.dead; k++ {
		cur := g.curIdx()
		depth := 0
		for s := g.w.cur; s != nil; s = s.Parent {
			depth++
		}
		x := r.Intn(100)
		target := cur
		if wild && r.Chance(1, 5) && len(g.w.scopes) > 0 {
			target = int64(r.Intn(len(g.w.scopes)))
		}
		switch {
		case x < 30:
			g.op(c04ApiUse, target, int64(r.Intn(int(names))), 0)
		case x < 55:
			kind := c04ApiDeclKinds[r.Intn(4)]
			if r.Chance(1, 6) {
				kind = c04ApiDeclKinds[r.Intn(len(c04ApiDeclKinds))]
			}
			g.op(c04ApiDeclare, target, kind, int64(r.Intn(int(names))))
		case x < 68:
			g.op(c04ApiEnter, int64(r.Intn(2)), 0, 0)
		case x < 80:
			if depth > 1 || wild {
				if r.Chance(1, 6) {
					g.op(c04ApiExitUndeclare, 0, 0, 0)
				} else {
					g.op(c04ApiExit, 0, 0, 0)
				}
			}
		case x < 84:
			g.op(c04ApiMarkArgs, target, 0, 0)
		case x < 88:
			g.op(c04ApiMarkFor, target, 0, 0)
		case x < 92:
			// x => ... : Use, Enter(func), ArrowIdent on the Var that Use returned, MarkFuncArgs
			obs := g.op(c04ApiUse, cur, int64(r.Intn(int(names))), 0)
			if g.dead || len(obs) < 2 {
				break
			}
			g.op(c04ApiEnter, 1, 0, 0)
			g.op(c04ApiArrowIdent, obs[1], 0, 0)
			g.op(c04ApiMarkArgs, g.curIdx(), 0, 0)
		default:
			if !wild {
				g.op(c04ApiUse, cur, int64(r.Intn(int(names))), 0)
				break
			}
			switch r.Intn(6) {
			case 0:
				g.op(c04ApiHoist, target, 0, 0)
			case 1:
				g.op(c04ApiUndeclare, target, 0, 0)
			case 2:
				g.op(c04ApiUnscope, target, 0, 0)
			case 3:
				if len(g.w.vars) > 0 {
					g.op(c04ApiAddUndeclared, target, int64(r.Intn(len(g.w.vars))), 0)
				}
			case 4:
				if len(g.w.vars) > 0 {
					u := []int64{0, 1, 2, 65534, 65535, 32768}[r.Intn(6)]
					g.op(c04ApiSetUses, int64(r.Intn(len(g.w.vars))), u, 0)
				}
			case 5:
				if len(g.w.vars) > 0 {
					g.op(c04ApiArrowIdent, int64(r.Intn(len(g.w.vars))), 0, 0)
				}
			}
		}
	}
	note := "structured: "
	if wild {
		note = "wild: "
	}
	return g.kase(note)
}

// exhaustive small scope: every sequence of at most k operations of a 13-letter alphabet acting on
// the current scope, after Enter(func)
func c04GenAPIExhaustive(k int, emit func(Case)) {
	type letter struct{ code, b, c int64 }
	alpha := []letter{
		{c04ApiEnter, 0, 0}, {c04ApiEnter, 1, 0}, {c04ApiExit, 0, 0},
		{c04ApiDeclare, 1, 7}, {c04ApiDeclare, 5, 7}, {c04ApiDeclare, 4, 7}, {c04ApiDeclare, 3, 7},
		{c04ApiUse, 7, 0}, {c04ApiUse, 8, 0},
		{c04ApiMarkFor, 0, 0}, {c04ApiMarkArgs, 0, 0}, {c04ApiExitUndeclare, 0, 0}, {c04ApiArrowIdent, 0, 0},
	}
	var rec func(prefix []int)
	rec = func(prefix []int) {
		if len(prefix) > 0 {
			g := c04NewAPIGen()
			g.op(c04ApiEnter, 1, 0, 0)
			for _, li := range prefix {
				l := alpha[li]
				switch l.code {
				case c04ApiEnter:
					g.op(c04ApiEnter, l.b, 0, 0)
				case c04ApiExit, c04ApiExitUndeclare:
					g.op(l.code, 0, 0, 0)
				case c04ApiDeclare:
					g.op(c04ApiDeclare, g.curIdx(), l.b, l.c)
				case c04ApiUse:
					g.op(c04ApiUse, g.curIdx(), l.b, 0)
				case c04ApiArrowIdent:
					if len(g.w.vars) == 0 {
						g.dead = true
						break
					}
					g.op(c04ApiArrowIdent, int64(len(g.w.vars)-1), 0, 0)
				default:
					g.op(l.code, g.curIdx(), 0, 0)
				}
			}
			if !g.dead || len(g.args) == 4*(len(prefix)+1) {
				emit(g.kase("exhaustive: "))
			}
			if g.dead {
				return // longer sequences with this prefix stop at the same point
			}
		}
		if len(prefix) == k {
			return
		}
		for i := range alpha {
			rec(append(prefix, i))
		}
	}
	rec(nil)
}

func c04ShrinkAPI(c Case) []Case {
	var out []Case
	a := c.Args
	for i := 0; i+3 < len(a); i += 4 {
		na := append(append([]int64{}, a[:i]...), a[i+4:]...)
		out = append(out, Case{Fn: c.Fn, Args: na, Note: "shrunk: " + c04DescribeAPI(na)})
	}
	return out
}

var c04ScopeAPIModel = &Model{
	Name: "scope_api",
	Gen: func(r *Rng, tier string, emit func(Case)) {
		k, n := 4, 6000
		if tier == "thorough" {
			k, n = 5, 200000
		}
		c04GenAPIExhaustive(k, emit)
		for i := 0; i < n; i++ {
			emit(c04GenAPIStructured(r, 3+i%40, i%3 == 2))
		}
	},
	Impl:   c04ScopeAPIImpl,
	Shrink: c04ShrinkAPI,
	Class: func(c Case, out []int64) string {
		kind := "structured"
		if strings.HasPrefix(c.Note, "wild") {
			kind = "wild"
		} else if strings.HasPrefix(c.Note, "exhaustive") {
			kind = "exhaustive"
		} else if strings.HasPrefix(c.Note, "corpus") {
			kind = "corpus"
		}
		for _, x := range out {
			if x == -9 {
				return kind + "/completed"
			}
		}
		if len(out) > 0 && out[len(out)-1] == -1 {
			return kind + "/panic"
		}
		return kind + "/other"
	},
}

// ================================ binding programs =============================================

const (
	c04KDone = iota
	c04KRef
	c04KPRef
	c04KDecl
	c04KBlock
	c04KFunc
	c04KArrow
	c04KArrowId
	c04KParen
	c04KFor
	c04KCatch
	c04KClass
)

const (
	c04DVar = iota
	c04DFun
	c04DLex
	c04DParam
	c04DCatch
)

// c04Item is one element of a binding program (Spec.v's prog, with Go slices for the continuations).
type c04Item struct {
	kind  int
	x     int        // name
	d     int        // declaration kind
	nm    int        // expression name of Func / Class, -1 if none
	a     []*c04Item // ps / hd / ms
	b     []*c04Item // body
	style int        // rendering variation (not part of the encoding)
}

func c04EncodeProg(l []*c04Item, out []int64) []int64 {
	for _, it := range l {
		switch it.kind {
		case c04KRef, c04KPRef, c04KArrowId:
			out = append(out, int64(it.kind), int64(it.x))
			if it.kind == c04KArrowId {
				out = c04EncodeProg(it.b, out)
			}
		case c04KDecl:
			out = append(out, c04KDecl, int64(it.d), int64(it.x))
		case c04KBlock:
			out = append(out, c04KBlock)
			out = c04EncodeProg(it.b, out)
		case c04KFunc, c04KClass:
			if it.nm >= 0 {
				out = append(out, int64(it.kind), 1, int64(it.nm))
			} else {
				out = append(out, int64(it.kind), 0, 0)
			}
			out = c04EncodeProg(it.a, out)
			if it.kind == c04KFunc {
				out = c04EncodeProg(it.b, out)
			}
		case c04KArrow, c04KFor, c04KCatch:
			out = append(out, int64(it.kind))
			out = c04EncodeProg(it.a, out)
			out = c04EncodeProg(it.b, out)
		case c04KParen:
			out = append(out, c04KParen)
			out = c04EncodeProg(it.a, out)
		}
	}
	return append(out, c04KDone)
}

func c04DecodeProg(a []int64) ([]*c04Item, []int64) {
	var l []*c04Item
	for len(a) > 0 {
		c := a[0]
		a = a[1:]
		at := func(i int) int {
			if i < len(a) {
				return int(a[i])
			}
			return 0
		}
		skip := func(n int) {
			if n > len(a) {
				n = len(a)
			}
			a = a[n:]
		}
		switch c {
		case c04KRef, c04KPRef:
			l = append(l, &c04Item{kind: int(c), x: at(0), nm: -1})
			skip(1)
		case c04KDecl:
			d := at(0)
			if d < 0 || d > c04DCatch {
				d = c04DCatch
			}
			l = append(l, &c04Item{kind: c04KDecl, d: d, x: at(1), nm: -1})
			skip(2)
		case c04KBlock:
			it := &c04Item{kind: c04KBlock, nm: -1}
			it.b, a = c04DecodeProg(a)
			l = append(l, it)
		case c04KFunc, c04KClass:
			it := &c04Item{kind: int(c), nm: -1}
			if at(0) != 0 {
				it.nm = at(1)
			}
			skip(2)
			it.a, a = c04DecodeProg(a)
			if c == c04KFunc {
				it.b, a = c04DecodeProg(a)
			}
			l = append(l, it)
		case c04KArrow, c04KFor, c04KCatch:
			it := &c04Item{kind: int(c), nm: -1}
			it.a, a = c04DecodeProg(a)
			it.b, a = c04DecodeProg(a)
			l = append(l, it)
		case c04KArrowId:
			it := &c04Item{kind: c04KArrowId, x: at(0), nm: -1}
			skip(1)
			it.b, a = c04DecodeProg(a)
			l = append(l, it)
		case c04KParen:
			it := &c04Item{kind: c04KParen, nm: -1}
			it.a, a = c04DecodeProg(a)
			l = append(l, it)
		default: // c04KDone or unknown
			return l, a
		}
	}
	return l, a
}

func c04JsName(n int) string {
	if n >= 0 && n < 8 {
		return string(rune('a' + n))
	}
	return "v" + strconv.Itoa(n)
}

func c04IsExprKind(k int) bool {
	return k == c04KRef || k == c04KFunc || k == c04KArrow || k == c04KArrowId || k == c04KParen || k == c04KClass
}

// c04Renderable reports whether the c04Renderer can produce JavaScript whose scope events are exactly
// the linearisation of l (see render*). ctx: 0 statement list, 1 parameter list, 2 paren head,
// 3 loop head, 4 catch head, 5 class members, 6 expression list
func c04Renderable(l []*c04Item, ctx int) bool {
	for i, it := range l {
		switch it.kind {
		case c04KRef:
		case c04KPRef:
			if ctx != 2 {
				return false
			}
		case c04KDecl:
			switch ctx {
			case 0:
				if it.d == c04DParam || it.d == c04DCatch {
					return false
				}
				if it.d == c04DFun && !(i+1 < len(l) && l[i+1].kind == c04KFunc && l[i+1].nm < 0) {
					return false
				}
			case 1:
				if it.d != c04DParam {
					return false
				}
			case 3:
				if it.d != c04DVar && it.d != c04DLex {
					return false
				}
			case 4:
				if it.d != c04DCatch {
					return false
				}
			default:
				return false
			}
		case c04KBlock:
			if ctx != 0 {
				return false
			}
			if !c04Renderable(it.b, 0) {
				return false
			}
		case c04KFunc:
			if !c04Renderable(it.a, 1) || !c04Renderable(it.b, 0) {
				return false
			}
			if ctx == 5 && it.nm >= 0 {
				// a named function expression as a field value is fine
			}
		case c04KArrow:
			if !c04Renderable(it.a, 1) || !c04Renderable(it.b, 0) {
				return false
			}
		case c04KArrowId:
			if !c04Renderable(it.b, 0) {
				return false
			}
		case c04KParen:
			if len(it.a) == 0 || !c04Renderable(it.a, 2) {
				return false
			}
		case c04KFor:
			if ctx != 0 || !c04Renderable(it.a, 3) || !c04Renderable(it.b, 0) {
				return false
			}
		case c04KCatch:
			if ctx != 0 || !c04Renderable(it.a, 4) || !c04Renderable(it.b, 0) {
				return false
			}
			if !(i > 0 && l[i-1].kind == c04KBlock) {
				return false
			}
		case c04KClass:
			if !c04Renderable(it.a, 5) {
				return false
			}
		default:
			return false
		}
		if ctx != 0 && !c04IsExprKind(it.kind) && it.kind != c04KDecl && it.kind != c04KPRef {
			return false
		}
	}
	switch ctx {
	case 1, 4:
		// defaults follow a parameter
		if len(l) > 0 && l[0].kind != c04KDecl {
			return false
		}
	case 2:
		// once an argument is not parameter-like the parser stops declaring
		hasP := false
		for _, it := range l {
			if it.kind == c04KPRef {
				hasP = true
			}
		}
		if hasP && l[0].kind != c04KPRef {
			return false
		}
	case 3:
		// all declarations of a loop head are of one kind; declarations come first or not at all
		kind := -1
		for _, it := range l {
			if it.kind == c04KDecl {
				if kind >= 0 && kind != it.d {
					return false
				}
				kind = it.d
			}
		}
		if kind >= 0 && l[0].kind != c04KDecl {
			return false
		}
	}
	return true
}

// ---- rendering ----------------------------------------------------------------------------------

type c04Renderer struct {
	sb     strings.Builder
	plain  bool // no stylistic variation
	oracle bool // rendering for the oracle (since /repo dce4c26 the same as for the correspondence runs)
}

func (r *c04Renderer) w(s string) { r.sb.WriteString(s) }

func (r *c04Renderer) st(it *c04Item, n int) int {
	if r.plain || n <= 0 {
		return 0
	}
	s := it.style
	if s < 0 {
		s = -s
	}
	return s % n
}

func (r *c04Renderer) exprItem(it *c04Item) {
	switch it.kind {
	case c04KRef:
		r.w(c04JsName(it.x))
	case c04KFunc:
		switch r.st(it, 3) {
		case 1:
			r.w("function*")
		case 2:
			r.w("async function")
		default:
			r.w("function")
		}
		if it.nm >= 0 {
			r.w(" " + c04JsName(it.nm))
		}
		r.w("(")
		r.params(it.a, false)
		r.w("){")
		r.stmts(it.b)
		r.w("}")
	case c04KArrow:
		if r.st(it, 4) == 3 && len(it.a) == 1 && it.a[0].kind == c04KDecl {
			// async x => ... : parseAsyncArrowFunc declares the parameter directly
			r.w("async " + c04JsName(it.a[0].x) + "=>")
		} else {
			if r.st(it, 4) == 2 {
				r.w("async")
			}
			r.w("(")
			r.params(it.a, true)
			r.w(")=>")
		}
		r.arrowBody(it)
	case c04KArrowId:
		r.w(c04JsName(it.x) + "=>")
		r.arrowBody(it)
	case c04KParen:
		r.w("(")
		r.parenHead(it.a)
		r.w(")")
	case c04KClass:
		r.w("class")
		if it.nm >= 0 {
			r.w(" " + c04JsName(it.nm))
		}
		r.w("{")
		r.members(it.a)
		r.w("}")
	default:
		r.w("0")
	}
}

func c04AllExpr(l []*c04Item) bool {
	for _, it := range l {
		if !c04IsExprKind(it.kind) {
			return false
		}
	}
	return true
}

func (r *c04Renderer) arrowBody(it *c04Item) {
	if (it.style/4)%3 == 1 && !r.plain && c04AllExpr(it.b) {
		// expression body; an object/array literal body would need care: use a wrapper that is
		// neither a parenthesised expression nor a block
		r.w("0+")
		r.w("[")
		for i, e := range it.b {
			if i > 0 {
				r.w(",")
			}
			r.exprItem(e)
		}
		r.w("]")
		return
	}
	r.w("{")
	r.stmts(it.b)
	r.w("}")
}

// exprList renders a (possibly empty) list of expression items as one AssignmentExpression
func (r *c04Renderer) exprList(l []*c04Item) {
	switch len(l) {
	case 0:
		r.w("0")
	case 1:
		r.exprItem(l[0])
	default:
		r.w("[")
		for i, e := range l {
			if i > 0 {
				r.w(",")
			}
			r.exprItem(e)
		}
		r.w("]")
	}
}

// split a head into c04Groups: a declaration (or PRef) followed by the items of its initialiser
func c04Groups(l []*c04Item) (lead []*c04Item, gs [][]*c04Item) {
	i := 0
	for i < len(l) && l[i].kind != c04KDecl && l[i].kind != c04KPRef {
		lead = append(lead, l[i])
		i++
	}
	for i < len(l) {
		g := []*c04Item{l[i]}
		i++
		for i < len(l) && l[i].kind != c04KDecl && l[i].kind != c04KPRef {
			g = append(g, l[i])
			i++
		}
		gs = append(gs, g)
	}
	return
}

func (r *c04Renderer) pattern(it *c04Item, allowRest bool, last bool, hasDefault bool, inner *c04Item) {
	n := c04JsName(it.x)
	w := func(pre, post string) {
		r.w(pre + n)
		if inner != nil {
			r.w("=")
			r.exprItem(inner)
		}
		r.w(post)
	}
	switch r.st(it, 5) {
	case 1:
		w("{", "}")
	case 2:
		if r.st(it, 10) >= 5 {
			w("[[", "]]")
		} else {
			w("[", "]")
		}
	case 3:
		if r.st(it, 10) >= 5 {
			w("{k:[", "]}")
		} else {
			w("{k:", "}")
		}
	case 4:
		if inner != nil {
			w("[,", "]")
			return
		}
		if allowRest && last && !hasDefault {
			// a rest element, plain or destructured (MarkFuncArgs must follow it as it follows any other list)
			switch r.st(it, 15) / 5 {
			case 1:
				r.w("...[" + n + "]")
			case 2:
				r.w("...{length:" + n + "}")
			default:
				r.w("..." + n)
			}
		} else {
			r.w("[," + n + "]")
		}
	default:
		r.w(n)
	}
}

func (r *c04Renderer) params(l []*c04Item, arrow bool) {
	_, gs := c04Groups(l)
	for i, g := range gs {
		if i > 0 {
			r.w(",")
		}
		// a default value inside the pattern ([c=a]=b, {k:[c=a]}=b) when the group has two or more initialiser items
		def := g[1:]
		var inner *c04Item
		if len(def) >= 2 && r.st(g[0], 5) != 0 && r.st(def[0], 2) == 1 {
			inner, def = def[0], def[1:]
		}
		r.pattern(g[0], true, i == len(gs)-1, len(g) > 1, inner)
		if len(def) > 0 {
			r.w("=")
			r.exprList(def)
		}
	}
}

func (r *c04Renderer) parenHead(l []*c04Item) {
	lead, gs := c04Groups(l)
	first := true
	for _, e := range lead {
		if !first {
			r.w(",")
		}
		if first && e.kind == c04KRef {
			r.w("+") // not parameter-like: the parser stops assuming an arrow head
		}
		r.exprItem(e)
		first = false
	}
	for _, g := range gs {
		if !first {
			r.w(",")
		}
		first = false
		n := c04JsName(g[0].x)
		sty := r.st(g[0], 4)
		def := g[1:]
		in := ""
		if len(def) >= 2 && sty != 0 && sty != 3 && r.st(def[0], 2) == 1 && def[0].kind == c04KRef {
			in, def = "="+c04JsName(def[0].x), def[1:]
		}
		switch sty {
		case 1:
			r.w("{" + n + in + "}")
		case 2:
			r.w("[" + n + in + "]")
		default:
			r.w(n)
		}
		if len(def) > 0 {
			r.w("=")
			r.exprList(def)
		}
	}
	if first {
		r.w("0")
	}
}

func (r *c04Renderer) members(l []*c04Item) {
	for i, it := range l {
		switch it.kind {
		case c04KFunc:
			if it.nm < 0 && len(it.a) == 0 && r.st(it, 8) >= 4 {
				// a class static block: a function scope without parameters (parse.go parseClassElement)
				r.w("static{")
				r.stmts(it.b)
				r.w("}")
				continue
			}
			if it.nm < 0 {
				switch r.st(it, 4) {
				case 1:
					r.w("static ")
				case 2:
					r.w("*")
				case 3:
					r.w("async ")
				}
				r.w(fmt.Sprintf("m%d(", i))
				r.params(it.a, false)
				r.w("){")
				r.stmts(it.b)
				r.w("}")
				continue
			}
			r.w(fmt.Sprintf("f%d=", i))
			r.exprItem(it)
			r.w(";")
		case c04KRef:
			switch r.st(it, 3) {
			case 1:
				r.w("[" + c04JsName(it.x) + "]=0;")
			case 2:
				r.w(fmt.Sprintf("static f%d=%s;", i, c04JsName(it.x)))
			default:
				r.w(fmt.Sprintf("f%d=%s;", i, c04JsName(it.x)))
			}
		default:
			r.w(fmt.Sprintf("f%d=", i))
			r.exprItem(it)
			r.w(";")
		}
	}
}

func (r *c04Renderer) stmts(l []*c04Item) {
	for i := 0; i < len(l); i++ {
		it := l[i]
		switch it.kind {
		case c04KRef:
			n := c04JsName(it.x)
			switch r.st(it, 7) {
			case 1:
				r.w(n + "=0;")
			case 2:
				r.w(n + "++;")
			case 3:
				r.w("if(" + n + ");")
			case 4:
				r.w(n + ".p();")
			case 5:
				r.w("while(" + n + ")break;")
			case 6:
				r.w("l:" + n + ";")
			default:
				r.w(n + ";")
			}
		case c04KPRef:
			r.w(c04JsName(it.x) + ";")
		case c04KDecl:
			n := c04JsName(it.x)
			switch it.d {
			case c04DVar:
				r.w("var " + []string{n, n + "=0", "[" + n + "]=0", "{" + n + "}=0"}[r.st(it, 4)] + ";")
			case c04DLex:
				if i+1 < len(l) && l[i+1].kind == c04KClass && l[i+1].nm < 0 && (r.st(it, 2) == 1 || r.plain) {
					r.w("class " + n + "{")
					r.members(l[i+1].a)
					r.w("}")
					i++
					break
				}
				r.w([]string{"let " + n, "const " + n + "=0", "let [" + n + "]=0", "const {" + n + "}=0"}[r.st(it, 4)] + ";")
			case c04DFun:
				if i+1 < len(l) && l[i+1].kind == c04KFunc && l[i+1].nm < 0 {
					f := l[i+1]
					r.w([]string{"function ", "function*", "async function "}[r.st(f, 3)] + n + "(")
					r.params(f.a, false)
					r.w("){")
					r.stmts(f.b)
					r.w("}")
					i++
				} else {
					r.w("function " + n + "(){}")
				}
			default:
				r.w("var " + n + ";")
			}
		case c04KBlock:
			if i+1 < len(l) && l[i+1].kind == c04KCatch {
				c := l[i+1]
				r.w("try{")
				r.stmts(it.b)
				r.w("}catch")
				_, gs := c04Groups(c.a)
				if len(gs) == 1 && len(gs[0]) == 1 && (r.st(gs[0][0], 5) == 0 || r.st(gs[0][0], 5) == 4) {
					r.w("(" + c04JsName(gs[0][0].x) + ")")
				} else if len(gs) > 0 {
					r.w("([")
					for j, g := range gs {
						if j > 0 {
							r.w(",")
						}
						r.pattern(g[0], false, false, len(g) > 1, nil)
						if len(g) > 1 {
							r.w("=")
							r.exprList(g[1:])
						}
					}
					r.w("])")
				}
				r.w("{")
				r.stmts(c.b)
				r.w("}")
				i++
				break
			}
			switch r.st(it, 6) {
			case 1:
				r.w("switch(0){case 0:")
				r.stmts(it.b)
				r.w("}")
			case 2:
				r.w("if(0){")
				r.stmts(it.b)
				r.w("}")
			case 3:
				r.w("do{")
				r.stmts(it.b)
				r.w("}while(0);")
			case 4:
				r.w("l:{")
				r.stmts(it.b)
				r.w("}")
			case 5:
				if i+1 < len(l) && l[i+1].kind == c04KBlock && !(i+2 < len(l) && l[i+2].kind == c04KCatch) {
					r.w("try{")
					r.stmts(it.b)
					r.w("}finally{")
					r.stmts(l[i+1].b)
					r.w("}")
					i++
					break
				}
				fallthrough
			default:
				r.w("{")
				r.stmts(it.b)
				r.w("}")
			}
		case c04KFunc:
			if it.nm < 0 && r.st(it, 7) >= 5 {
				r.w("0,{m(")
				r.params(it.a, false)
				r.w("){")
				r.stmts(it.b)
				r.w("}};")
				break
			}
			r.w([]string{"!", "0,", "a0="}[(it.style/7)%2])
			r.exprItem(it)
			r.w(";")
		case c04KArrow, c04KClass:
			r.w("0,")
			r.exprItem(it)
			r.w(";")
		case c04KArrowId:
			if r.st(it, 2) == 1 {
				r.w("0,")
			}
			r.exprItem(it)
			r.w(";")
		case c04KParen:
			if r.st(it, 2) == 1 {
				r.w("0,")
			}
			r.exprItem(it)
			r.w(";")
		case c04KFor:
			r.forStmt(it)
		case c04KCatch:
			// unpaired (not c04Renderable exactly): keep the parser's events but for one empty block
			r.w("try{}catch")
			_, gs := c04Groups(it.a)
			if len(gs) > 0 {
				r.w("(" + c04JsName(gs[0][0].x) + ")")
			}
			r.w("{")
			r.stmts(it.b)
			r.w("}")
		}
	}
}

func (r *c04Renderer) forStmt(it *c04Item) {
	lead, gs := c04Groups(it.a)
	r.w("for(")
	if len(gs) == 0 {
		switch r.st(it, 3) {
		case 1:
			r.w(";")
			r.exprList(lead)
			r.w(";")
		case 2:
			r.w(";;")
			r.exprList(lead)
		default:
			r.exprList(lead)
			r.w(";;")
		}
	} else {
		kw := "var "
		if gs[0][0].d == c04DLex {
			kw = "let "
		}
		if len(gs) == 1 && (r.st(it, 4) == 1 || r.st(it, 4) == 2) {
			// for-of / for-in: the declaration has no initialiser, the rest is the iterated value
			if gs[0][0].d == c04DLex && it.style%8 >= 4 {
				kw = "const "
			}
			r.w(kw)
			r.pattern(gs[0][0], false, false, false, nil)
			r.w([]string{"", " of ", " in "}[r.st(it, 4)])
			r.exprList(gs[0][1:])
		} else {
			r.w(kw)
			for j, g := range gs {
				if j > 0 {
					r.w(",")
				}
				rest := g[1:]
				var cond []*c04Item
				if j == len(gs)-1 && r.st(it, 4) == 3 && len(rest) > 0 {
					cond = rest[len(rest)/2:]
					rest = rest[:len(rest)/2]
				}
				if len(rest) > 0 || r.st(g[0], 5) != 0 {
					r.pattern(g[0], false, false, true, nil)
					r.w("=")
					r.exprList(rest)
				} else {
					r.w(c04JsName(g[0].x))
				}
				if j == len(gs)-1 {
					r.w(";")
					if len(cond) > 0 {
						r.exprList(cond)
					}
					r.w(";")
				}
			}
		}
	}
	r.w("){")
	r.stmts(it.b)
	r.w("}")
}

func c04RenderProg(l []*c04Item, plain bool) string {
	r := &c04Renderer{plain: plain}
	r.stmts(l)
	return r.sb.String()
}

func c04RenderProgOracle(l []*c04Item) string {
	r := &c04Renderer{oracle: true}
	r.stmts(l)
	return r.sb.String()
}

// occurrence names in source order (= the order of the model's log)
func c04OccNames(l []*c04Item, out []int) []int {
	for _, it := range l {
		switch it.kind {
		case c04KRef, c04KPRef, c04KDecl:
			out = append(out, it.x)
		case c04KBlock:
			out = c04OccNames(it.b, out)
		case c04KFunc, c04KClass:
			if it.nm >= 0 {
				out = append(out, it.nm)
			}
			out = c04OccNames(it.a, out)
			out = c04OccNames(it.b, out)
		case c04KArrow, c04KFor, c04KCatch:
			out = c04OccNames(it.a, out)
			out = c04OccNames(it.b, out)
		case c04KArrowId:
			out = append(out, it.x)
			out = c04OccNames(it.b, out)
		case c04KParen:
			out = c04OccNames(it.a, out)
		}
	}
	return out
}

// ---- walking the tree of js.Parse -------------------------------------------------------------------

var c04JsScopeT = reflect.TypeOf(js.Scope{})
var c04JsVarT = reflect.TypeOf(js.Var{})

// c04CollectVars appends every *Var stored in the tree in field order, which is source order for every
// node type of ast.go (checked against the expected names by the callers). Scope tables are skipped.
func c04CollectVars(v reflect.Value, out *[]*js.Var) {
	switch v.Kind() {
	case reflect.Interface:
		if !v.IsNil() {
			c04CollectVars(v.Elem(), out)
		}
	case reflect.Ptr:
		if v.IsNil() {
			return
		}
		if v.Type().Elem() == c04JsVarT {
			*out = append(*out, v.Interface().(*js.Var))
			return
		}
		if v.Type().Elem() == c04JsScopeT {
			return
		}
		c04CollectVars(v.Elem(), out)
	case reflect.Struct:
		if v.Type() == c04JsScopeT || v.Type() == c04JsVarT {
			return
		}
		for i := 0; i < v.NumField(); i++ {
			c04CollectVars(v.Field(i), out)
		}
	case reflect.Slice:
		if v.Type().Elem().Kind() == reflect.Uint8 {
			return
		}
		for i := 0; i < v.Len(); i++ {
			c04CollectVars(v.Index(i), out)
		}
	}
}

func c04VarRoot(v *js.Var) *js.Var {
	for n := 0; v.Link != nil && n < 1000000; n++ {
		v = v.Link
	}
	return v
}

type c04Parsed struct {
	ast   *js.AST
	occ   []*js.Var // as stored in the tree
	roots []*js.Var
	err   error
	pan   interface{}
}

func c04ParseJS(src string) *c04Parsed {
	p := &c04Parsed{}
	p.pan = catch(func() {
		p.ast, p.err = js.Parse(parse.NewInputString(src), js.Options{})
	})
	if p.pan != nil || p.err != nil {
		return p
	}
	c04CollectVars(reflect.ValueOf(p.ast.List), &p.occ)
	for _, v := range p.occ {
		p.roots = append(p.roots, c04VarRoot(v))
	}
	return p
}

func c04CanonVars(roots []*js.Var) ([]int64, []*js.Var) {
	idx := map[*js.Var]int{}
	var reps []*js.Var
	out := make([]int64, len(roots))
	for i, r := range roots {
		id, ok := idx[r]
		if !ok {
			id = len(reps)
			idx[r] = id
			reps = append(reps, r)
		}
		out[i] = int64(id)
	}
	return out, reps
}

func c04InVarList(v *js.Var, l js.VarArray) int64 {
	for _, x := range l {
		if x == v {
			return 1
		}
	}
	return 0
}

// c04E2eObserve: what the implementation says about the program: 0 = rejected, -1 = panic,
// -7 = the tree's identifiers do not line up with the program (harness problem), else
// 1, n, classes, then per class Decl, Uses, in module Declared, in module Undeclared
func c04E2eObserve(l []*c04Item, plain bool) ([]int64, *c04Parsed, string) {
	src := c04RenderProg(l, plain)
	p := c04ParseJS(src)
	if p.pan != nil {
		return []int64{-1}, p, src
	}
	if p.err != nil {
		return []int64{0}, p, src
	}
	want := c04OccNames(l, nil)
	if len(want) != len(p.occ) {
		return []int64{-7, int64(len(want)), int64(len(p.occ))}, p, src
	}
	for i, v := range p.roots {
		if string(v.Data) != c04JsName(want[i]) {
			return []int64{-7, int64(i)}, p, src
		}
	}
	classes, reps := c04CanonVars(p.roots)
	out := []int64{1, int64(len(classes))}
	out = append(out, classes...)
	for _, r := range reps {
		out = append(out, int64(r.Decl), int64(r.Uses), c04InVarList(r, p.ast.Scope.Declared), c04InVarList(r, p.ast.Scope.Undeclared))
	}
	return out, p, src
}

// a case is the prefix code of the program (all the Coq side reads) followed by the rendering
// styles of its items in pre-order
func c04ProgOfCase(c Case) []*c04Item {
	l, rest := c04DecodeProg(c.Args)
	var set func(l []*c04Item)
	set = func(l []*c04Item) {
		for _, it := range l {
			if len(rest) > 0 {
				it.style = int(rest[0])
				rest = rest[1:]
			}
			set(it.a)
			set(it.b)
		}
	}
	set(l)
	return l
}

func c04StylesOf(l []*c04Item, out []int64) []int64 {
	for _, it := range l {
		out = append(out, int64(it.style))
		out = c04StylesOf(it.a, out)
		out = c04StylesOf(it.b, out)
	}
	return out
}

func c04E2eAlgoImpl(c Case) []int64 {
	l := c04ProgOfCase(c)
	out, _, _ := c04E2eObserve(l, false)
	if len(out) > 0 && out[0] == 1 {
		// the harness's reading of the fragment of resolution_correct_partial (c04InCore) is Spec.core_x, on every program
		out = append(append([]int64{}, out...), c04B2i(c04InCore(l, 0)))
	}
	return out
}

func c04B2i(b bool) int64 {
	if b {
		return 1
	}
	return 0
}

// the declarative side is compared on the partition and on which classes are global only
func c04E2eSpecImpl(c Case) []int64 {
	l := c04ProgOfCase(c)
	if !c04EsOK(l) {
		return []int64{0}
	}
	out, p, _ := c04E2eObserve(l, false)
	if len(out) == 0 || out[0] != 1 {
		return append([]int64{-6}, out...)
	}
	n := int(out[1])
	res := append([]int64{}, out[:2+n]...)
	_, reps := c04CanonVars(p.roots)
	for _, r := range reps {
		g := int64(0)
		if r.Decl == js.NoDecl {
			g = 1
		}
		res = append(res, g)
	}
	return res
}
