package main

import (
	"bytes"
	"encoding/binary"
	"errors"
	"fmt"
	"io"
	"os"
	"strings"

	"github.com/tdewolff/parse/v2"
)

// ---- C19: BinaryReader / BinaryWriter / BitmapReader / BitmapWriter -------------------------

var errSrc = errors.New("source failed")

// schedSrc is the underlying source of the stream backends: data delivered according to a read
// schedule (Binary/Model.v src_read / src_readat).
//   sched  upper bound on the bytes delivered by the next Read calls that find data (one entry per
//          call; exhausted => fill the caller's buffer); an entry 0 is a (0, nil) read
//   ewl    the final error is delivered together with the last bytes
//   fe     the final error (io.EOF, or errSrc for a failing source)
type schedSrc struct {
	data  []byte
	sched []int
	ewl   bool
	fe    error
	pos   int64 // sequential / seek position
}

func (s *schedSrc) read(p []byte) (int, error) {
	var rem []byte
	if s.pos < int64(len(s.data)) {
		rem = s.data[s.pos:]
	}
	if len(rem) == 0 {
		return 0, s.fe
	}
	want := len(p)
	if len(s.sched) > 0 {
		c := s.sched[0]
		s.sched = s.sched[1:]
		if c < want {
			want = c
		}
	}
	m := want
	if len(rem) < m {
		m = len(rem)
	}
	if m < 0 {
		m = 0
	}
	copy(p, rem[:m])
	s.pos += int64(m)
	if s.pos >= int64(len(s.data)) && s.ewl {
		return m, s.fe
	}
	return m, nil
}

func (s *schedSrc) seek(off int64, whence int) (int64, error) {
	var abs int64
	switch whence {
	case io.SeekStart:
		abs = off
	case io.SeekCurrent:
		abs = s.pos + off
	case io.SeekEnd:
		abs = int64(len(s.data)) + off
	default:
		return 0, errSrc
	}
	if abs < 0 {
		return 0, errSrc
	}
	s.pos = abs
	return abs, nil
}

func (s *schedSrc) readAt(b []byte, off int64) (int, error) {
	n := len(b)
	if off < 0 {
		return 0, errSrc
	}
	if int64(len(s.data)) <= off {
		return 0, s.fe
	}
	avail := len(s.data) - int(off)
	m0 := n
	if avail < m0 {
		m0 = avail
	}
	m := m0
	if len(s.sched) > 0 {
		c := s.sched[0]
		s.sched = s.sched[1:]
		if c < m0 {
			m = c
		}
	}
	if m < 0 {
		m = 0
	}
	var err error
	switch {
	case m < m0:
	case m0 < n:
		err = s.fe
	case s.ewl && int(off)+m0 == len(s.data):
		err = s.fe
	}
	copy(b, s.data[off:int(off)+m])
	return m, err
}

// the three capability sets NewBinaryReaderReader distinguishes
type plainReader struct{ s *schedSrc }

func (r plainReader) Read(p []byte) (int, error) { return r.s.read(p) }

type seekReader struct{ s *schedSrc }

func (r seekReader) Read(p []byte) (int, error)         { return r.s.read(p) }
func (r seekReader) Seek(o int64, w int) (int64, error) { return r.s.seek(o, w) }

type atReader struct{ s *schedSrc }

func (r atReader) Read(p []byte) (int, error)            { return r.s.read(p) }
func (r atReader) ReadAt(p []byte, o int64) (int, error) { return r.s.readAt(p, o) }

func binErrKind(e error) int64 {
	if e == nil {
		return 0
	}
	if e == io.EOF {
		return 1
	}
	if e == errSrc {
		return 5
	}
	m := e.Error()
	switch {
	case strings.Contains(m, "invalid range"):
		return 2
	case strings.Contains(m, "does not implement io.Seeker"):
		return 3
	case strings.Contains(m, "could not read all bytes"):
		return 4
	case strings.Contains(m, "mmap: closed"):
		return 6
	case strings.Contains(m, "invalid offset"):
		return 7
	case strings.Contains(m, "invalid whence"):
		return 8
	}
	return 5 // an error of the underlying file (closed, EINVAL)
}

const (
	bkBytes = iota
	bkMmap
	bkFile
	bkPlain
	bkSeeker
	bkReaderAt
	bkHasBytes
)

var bkNames = []string{"bytes", "mmap", "file", "reader", "readseeker", "readerat", "hasbytes"}

// backendName names the backend NewBinaryReaderReader picks (for histograms and finding keys).
func backendName(kind int, n int64) string {
	switch kind {
	case bkPlain:
		if n < 0 {
			return "readall"
		}
	case bkReaderAt:
		if n < 0 {
			return "readall"
		} else if n == 0 {
			return "reader"
		}
	}
	return bkNames[kind]
}

const (
	roSeek = iota
	roRead
	roReadAt
	roReadBytes
	roReadByte
	roU8
	roU16
	roU24
	roU32
	roU64
	roI8
	roI16
	roI24
	roI32
	roI64
	roPos
	roLen
	roErr
	roOrder
	roClone
	roSwap
	roClose
	roInPageCache
	roReadString
	roCount
)

var roNames = []string{"Seek", "Read", "ReadAt", "ReadBytes", "ReadByte", "U8", "U16", "U24", "U32", "U64", "I8", "I16", "I24", "I32", "I64", "Pos", "Len", "Err", "Order", "Clone", "Swap", "Close", "InPageCache", "ReadString"}

// openBackend builds the real reader for a case; cleanup removes temp files.
func openBackend(kind int, n int64, data []byte, sched []int, ewl, failing bool) (r *parse.BinaryReader, cleanup func(), err error) {
	cleanup = func() {}
	fe := io.EOF
	if failing {
		fe = errSrc
	}
	src := &schedSrc{data: data, sched: append([]int{}, sched...), ewl: ewl, fe: fe}
	switch kind {
	case bkBytes:
		return parse.NewBinaryReaderBytes(data), cleanup, nil
	case bkMmap, bkFile:
		dir, e := os.MkdirTemp("", "verif-c19-")
		if e != nil {
			panic(e)
		}
		path := dir + "/f"
		var f *os.File
		cleanup = func() {
			if r != nil {
				r.IBinaryReader().Close()
			}
			if f != nil {
				f.Close()
			}
			os.RemoveAll(dir)
		}
		if kind == bkMmap {
			if e := os.WriteFile(path, data, 0o600); e != nil {
				panic(e)
			}
			if len(data)%2 == 0 {
				if f, e = os.Open(path); e != nil {
					panic(e)
				}
				r, err = parse.NewBinaryReaderMmapFile(f)
			} else {
				r, err = parse.NewBinaryReaderMmapPath(path)
			}
			return r, cleanup, err
		}
		// file: Stat().Size() = n at open time, the file holds data when it is read
		first := make([]byte, n)
		copy(first, data)
		if e := os.WriteFile(path, first, 0o600); e != nil {
			panic(e)
		}
		if len(data)%2 == 0 {
			if f, e = os.Open(path); e != nil {
				panic(e)
			}
			r, err = parse.NewBinaryReaderFile(f)
		} else {
			r, err = parse.NewBinaryReaderPath(path)
		}
		if !bytes.Equal(first, data) {
			if e := os.WriteFile(path, data, 0o600); e != nil {
				panic(e)
			}
		}
		return r, cleanup, err
	case bkPlain:
		r, err = parse.NewBinaryReaderReader(plainReader{src}, n)
	case bkSeeker:
		r, err = parse.NewBinaryReaderReader(seekReader{src}, n)
	case bkReaderAt:
		r, err = parse.NewBinaryReaderReader(atReader{src}, n)
	default:
		r, err = parse.NewBinaryReaderReader(bytes.NewBuffer(data), n)
	}
	return r, cleanup, err
}

func bytesObs(b []byte) []int64 {
	out := make([]int64, len(b))
	for i, c := range b {
		out[i] = int64(c)
	}
	return out
}

func b2i(b bool) int64 {
	if b {
		return 1
	}
	return 0
}

// doReadOp applies one operation; cur/oth are the reader and its clone.
func doReadOp(cur, oth **parse.BinaryReader, code int, a, b int64) (obs []int64) {
	r := *cur
	switch code {
	case roSeek:
		p, e := r.Seek(a, int(b))
		obs = []int64{p, binErrKind(e)}
	case roRead:
		buf := make([]byte, a)
		n, e := r.Read(buf)
		obs = append([]int64{int64(n), binErrKind(e)}, bytesObs(buf[:n])...)
	case roReadAt:
		buf := make([]byte, a)
		n, e := r.ReadAt(buf, b)
		obs = append([]int64{int64(n), binErrKind(e)}, bytesObs(buf[:n])...)
	case roReadBytes:
		d := r.ReadBytes(a)
		obs = append([]int64{b2i(d == nil)}, bytesObs(d)...)
	case roReadString:
		s := r.ReadString(a)
		obs = append([]int64{0}, bytesObs([]byte(s))...)
	case roReadByte:
		c, e := r.ReadByte()
		obs = []int64{int64(c), binErrKind(e)}
	case roU8:
		obs = []int64{int64(r.ReadUint8())}
	case roU16:
		obs = []int64{int64(r.ReadUint16())}
	case roU24:
		obs = []int64{int64(r.ReadUint24())}
	case roU32:
		obs = []int64{int64(r.ReadUint32())}
	case roU64:
		v := r.ReadUint64()
		obs = []int64{int64(v >> 32), int64(v & 0xFFFFFFFF)}
	case roI8:
		obs = []int64{int64(r.ReadInt8())}
	case roI16:
		obs = []int64{int64(r.ReadInt16())}
	case roI24:
		obs = []int64{int64(r.ReadInt24())}
	case roI32:
		obs = []int64{int64(r.ReadInt32())}
	case roI64:
		obs = []int64{r.ReadInt64()}
	case roPos:
		obs = []int64{r.Pos()}
	case roLen:
		obs = []int64{r.Len()}
	case roErr:
		obs = []int64{binErrKind(r.Err())}
	case roOrder:
		if a != 0 {
			r.ByteOrder = binary.LittleEndian
		} else {
			r.ByteOrder = binary.BigEndian
		}
	case roClone:
		*oth = r.Clone()
	case roSwap:
		*cur, *oth = *oth, *cur
	case roClose:
		obs = []int64{binErrKind(r.Close())}
	case roInPageCache:
		obs = []int64{b2i(r.InPageCache(a, b))}
	}
	return obs
}

func parseBinread(a []int64) (kind int, n int64, ewl, failing bool, data []byte, sched []int, ops []int64) {
	kind, n, ewl, failing = int(a[0]), a[1], a[2] != 0, a[3] != 0
	dv, rest := takeList(a[4:])
	sv, ops := takeList(rest)
	data = toBytes(dv)
	for _, x := range sv {
		sched = append(sched, int(x))
	}
	return
}

func binreadImpl(c Case) []int64 {
	kind, n, ewl, failing, data, sched, ops := parseBinread(c.Args)
	r, cleanup, err := openBackend(kind, n, data, sched, ewl, failing)
	defer cleanup()
	if err != nil || r == nil {
		return []int64{-3}
	}
	cur := r
	oth := r.Clone() // the model's initial "other" reader: position 0, no error, big endian
	var out []int64
	for i := 0; i+2 < len(ops); i += 3 {
		var obs []int64
		if p := catch(func() { obs = doReadOp(&cur, &oth, int(ops[i]), ops[i+1], ops[i+2]) }); p != nil {
			return append(out, -1)
		}
		out = append(out, int64(len(obs)))
		out = append(out, obs...)
	}
	return append(out, -2)
}

func mkBinread(kind int, n int64, ewl, failing bool, data []byte, sched []int, ops []int64) Case {
	args := []int64{int64(kind), n, b2i(ewl), b2i(failing)}
	args = append(args, bytesToArgs(data)...)
	args = append(args, int64(len(sched)))
	for _, s := range sched {
		args = append(args, int64(s))
	}
	args = append(args, ops...)
	return Case{Fn: "binread", Args: args, Note: describeBinread(args)}
}

func describeBinread(a []int64) string {
	kind, n, ewl, failing, data, sched, ops := parseBinread(a)
	s := fmt.Sprintf("%s n=%d ewl=%v failing=%v data=%x sched=%v ops=", backendName(kind, n), n, ewl, failing, data, sched)
	for i := 0; i+2 < len(ops); i += 3 {
		code := int(ops[i])
		name := "?"
		if code >= 0 && code < len(roNames) {
			name = roNames[code]
		}
		s += fmt.Sprintf("%s(%d,%d) ", name, ops[i+1], ops[i+2])
	}
	return s
}

// ---- typed values ----------------------------------------------------------------------------

type tval struct {
	typ int // 0..4 u8,u16,u24,u32,u64 ; 5..9 i8..i64 ; 10 bytes
	u   uint64
	i   int64
	b   []byte
}

var tvalWidth = []int{1, 2, 3, 4, 8, 1, 2, 3, 4, 8}

func (v tval) size() int {
	if v.typ == 10 {
		return len(v.b)
	} else if v.typ == 11 { // ReadByte (oracle only)
		return 1
	}
	return tvalWidth[v.typ]
}

func (v tval) readOp() (int64, int64) {
	if v.typ == 10 {
		return roReadBytes, int64(len(v.b))
	}
	return int64(roU8 + v.typ), 0
}

func randTval(r *Rng) tval {
	t := r.Intn(11)
	v := tval{typ: t}
	bits := []uint{8, 16, 24, 32, 64, 8, 16, 24, 32, 64}
	if t == 10 {
		n := r.Intn(6)
		if r.Chance(1, 6) {
			n = 0
		}
		v.b = make([]byte, n)
		for i := range v.b {
			v.b[i] = byte(r.U64())
		}
		return v
	}
	w := bits[t]
	x := r.U64()
	switch r.Intn(4) {
	case 0: // boundary patterns
		x = []uint64{0, 1, 0x7F, 0x80, 0xFF, 0x7FFF, 0x8000, 0xFFFF, 0x7FFFFF, 0x800000, 0xFFFFFF, 0x7FFFFFFF, 0x80000000, 0xFFFFFFFF, 0x7FFFFFFFFFFFFFFF, 0x8000000000000000, 0xFFFFFFFFFFFFFFFF, 0x0102030405060708}[r.Intn(18)]
	case 1:
		x = x >> uint(r.Intn(64))
	}
	if w < 64 {
		x &= (1 << w) - 1
	}
	if t < 5 {
		v.u = x
	} else {
		// sign-extend from w bits
		v.i = int64(x<<(64-w)) >> (64 - w)
	}
	return v
}

func writeTval(w *parse.BinaryWriter, v tval) {
	switch v.typ {
	case 0:
		w.WriteUint8(uint8(v.u))
	case 1:
		w.WriteUint16(uint16(v.u))
	case 2:
		w.WriteUint24(uint32(v.u))
	case 3:
		w.WriteUint32(uint32(v.u))
	case 4:
		w.WriteUint64(v.u)
	case 5:
		w.WriteInt8(int8(v.i))
	case 6:
		w.WriteInt16(int16(v.i))
	case 7:
		w.WriteInt24(int32(v.i))
	case 8:
		w.WriteInt32(int32(v.i))
	case 9:
		w.WriteInt64(v.i)
	default:
		w.WriteBytes(v.b)
	}
}

// refEncode: the reference encoding, written with encoding/binary only.
func refEncode(little bool, v tval) []byte {
	var bo binary.ByteOrder = binary.BigEndian
	if little {
		bo = binary.LittleEndian
	}
	u := v.u
	if v.typ >= 5 {
		u = uint64(v.i)
	}
	switch v.typ {
	case 0, 5:
		return []byte{byte(u)}
	case 1, 6:
		b := make([]byte, 2)
		bo.PutUint16(b, uint16(u))
		return b
	case 2, 7:
		b := make([]byte, 4)
		bo.PutUint32(b, uint32(u)&0xFFFFFF)
		if little {
			return b[:3]
		}
		return b[1:]
	case 3, 8:
		b := make([]byte, 4)
		bo.PutUint32(b, uint32(u))
		return b
	case 4, 9:
		b := make([]byte, 8)
		bo.PutUint64(b, u)
		return b
	}
	return v.b
}

// expected observation of reading v back (as doReadOp encodes it)
func (v tval) wantObs() []int64 {
	switch {
	case v.typ == 10:
		return bytesObs(v.b)
	case v.typ == 4:
		return []int64{int64(v.u >> 32), int64(v.u & 0xFFFFFFFF)}
	case v.typ < 5:
		return []int64{int64(v.u)}
	}
	return []int64{v.i}
}

// ---- generators for the reader model -------------------------------------------------------------

func randSched(r *Rng, n int) []int {
	switch r.Intn(5) {
	case 0:
		return nil
	case 1: // one byte per Read
		s := make([]int, n+2)
		for i := range s {
			s[i] = 1
		}
		return s
	case 2: // with zero-length reads
		s := make([]int, r.Intn(6)+1)
		for i := range s {
			s[i] = r.Intn(4)
		}
		return s
	}
	s := make([]int, r.Intn(8))
	for i := range s {
		s[i] = 1 + r.Intn(5)
	}
	return s
}

// randKindN picks a backend and the n handed to the constructor (claimed size).
func randKindN(r *Rng, dataLen int) (int, int64) {
	kind := r.Intn(7)
	n := int64(dataLen)
	switch r.Intn(6) {
	case 0:
		n = int64(r.Intn(dataLen + 4))
	case 1:
		n = -1
	case 2:
		if r.Bool() {
			n = 0
		}
	}
	if kind == bkFile && n < 0 {
		n = int64(dataLen)
	}
	return kind, n
}

func randReadOps(r *Rng, dataLen int, k int, wild bool) []int64 {
	var ops []int64
	for j := 0; j < k; j++ {
		code := r.Intn(roCount)
		var a, b int64
		switch code {
		case roSeek:
			b = int64(r.Intn(3))
			a = int64(r.Intn(dataLen+3)) - 1
			if b == 2 {
				a = -int64(r.Intn(dataLen+3)) + 1
			} else if b == 1 {
				a = int64(r.Intn(2*dataLen+3) - dataLen - 1)
			}
			if wild && r.Chance(1, 4) {
				b = int64(r.Intn(6) - 1)
				a = []int64{0, 1, -1, 1 << 62, -(1 << 62), 9223372036854775807, -9223372036854775808}[r.Intn(7)]
			}
		case roRead, roReadBytes, roReadString:
			a = int64(r.Intn(6))
			if r.Chance(1, 8) {
				a = int64(r.Intn(dataLen + 3))
			}
			if wild && code != roRead && r.Chance(1, 6) {
				a = -int64(r.Intn(3)) - 1
			}
		case roReadAt:
			a = int64(r.Intn(6))
			b = int64(r.Intn(dataLen + 3))
			if wild && r.Chance(1, 5) {
				b = -int64(r.Intn(3)) - 1
			}
		case roOrder:
			a = int64(r.Intn(2))
		case roInPageCache:
			a = int64(r.Intn(3*4096)) - 4096
			b = int64(r.Intn(3*4096)) - 4096
		case roClose:
			if !r.Chance(1, 4) {
				code = roErr
			}
		}
		ops = append(ops, int64(code), a, b)
	}
	return ops
}

// genRoundTrip: a written program read back (with optional truncation / seeks), on a random backend.
func genRoundTrip(r *Rng, emit func(Case)) {
	little := r.Bool()
	w := parse.NewBinaryWriter(nil)
	if little {
		w.ByteOrder = binary.LittleEndian
	}
	nv := 1 + r.Intn(8)
	vals := make([]tval, nv)
	for i := range vals {
		vals[i] = randTval(r)
		writeTval(w, vals[i])
	}
	full := w.Bytes()
	data := full
	if r.Chance(1, 3) {
		data = full[:r.Intn(len(full)+1)]
	}
	kind, n := randKindN(r, len(full))
	if r.Chance(2, 3) {
		n = int64(len(full))
	}
	ops := []int64{roOrder, b2i(little), 0}
	for _, v := range vals {
		c, a := v.readOp()
		ops = append(ops, c, a, 0)
		if r.Chance(1, 4) {
			ops = append(ops, roErr, 0, 0, roPos, 0, 0, roLen, 0, 0)
		}
		if r.Chance(1, 10) {
			ops = append(ops, randReadOps(r, len(full), 1, false)...)
		}
	}
	// run past the end
	for j := r.Intn(4); j > 0; j-- {
		ops = append(ops, int64(roReadBytes+r.Intn(12)), int64(r.Intn(4)), 0)
	}
	ops = append(ops, roErr, 0, 0, roPos, 0, 0, roLen, 0, 0)
	emit(mkBinread(kind, n, r.Chance(1, 5), r.Chance(1, 8), append([]byte{}, data...), randSched(r, len(data)), ops))
}

var smallOps = [][3]int64{
	{roU8, 0, 0}, {roI8, 0, 0}, {roReadByte, 0, 0}, {roU16, 0, 0}, {roI24, 0, 0}, {roU32, 0, 0},
	{roReadBytes, 0, 0}, {roReadBytes, 2, 0}, {roReadString, 3, 0}, {roRead, 0, 0}, {roRead, 2, 0},
	{roReadAt, 2, 1}, {roReadAt, 1, 0}, {roSeek, 1, 0}, {roSeek, -1, 2}, {roSeek, 1, 1}, {roSeek, 0, 2},
	{roClone, 0, 0}, {roSwap, 0, 0}, {roClose, 0, 0}, {roOrder, 1, 0},
}

func genBinread(r *Rng, tier string, emit func(Case)) {
	tail := []int64{roErr, 0, 0, roPos, 0, 0, roLen, 0, 0}
	pattern := []byte{0x81, 0x02, 0xF3, 0x04}
	type cfg struct {
		kind  int
		n     func(l int) int64
		sched []int
		ewl   bool
	}
	exact := func(l int) int64 { return int64(l) }
	neg := func(l int) int64 { return -1 }
	zero := func(l int) int64 { return 0 }
	more := func(l int) int64 { return int64(l + 1) }
	cfgs := []cfg{
		{bkBytes, exact, nil, false}, {bkMmap, exact, nil, false}, {bkFile, exact, nil, false}, {bkFile, more, nil, false},
		{bkPlain, exact, nil, false}, {bkPlain, exact, []int{1, 1, 1, 1, 1}, false}, {bkPlain, exact, []int{1, 0, 1}, false},
		{bkPlain, exact, nil, true}, {bkPlain, neg, []int{1, 0, 2}, true}, {bkPlain, more, nil, false},
		{bkSeeker, exact, nil, false}, {bkSeeker, exact, []int{1, 1, 1, 1, 1}, false}, {bkSeeker, neg, nil, true}, {bkSeeker, exact, []int{0}, false},
		{bkReaderAt, exact, nil, false}, {bkReaderAt, exact, nil, true}, {bkReaderAt, exact, []int{1}, false}, {bkReaderAt, zero, nil, false}, {bkReaderAt, neg, nil, false},
		{bkHasBytes, exact, nil, false},
	}
	// (ii) exhaustive small scope: every configuration x data length 0..4 x every op sequence of length <= 2
	for _, c := range cfgs {
		for l := 0; l <= 4; l++ {
			data := pattern[:l]
			var seqs [][]int64
			seqs = append(seqs, nil)
			for _, o1 := range smallOps {
				seqs = append(seqs, o1[:])
				for _, o2 := range smallOps {
					seqs = append(seqs, append(append([]int64{}, o1[:]...), o2[:]...))
				}
			}
			for _, s := range seqs {
				ops := append(append([]int64{}, s...), tail...)
				emit(mkBinread(c.kind, c.n(l), c.ewl, false, data, c.sched, ops))
			}
		}
	}
	// truncation of written data at every byte, on every configuration
	for _, c := range cfgs {
		for rep := 0; rep < 3; rep++ {
			w := parse.NewBinaryWriter(nil)
			little := rep == 1
			if little {
				w.ByteOrder = binary.LittleEndian
			}
			ops := []int64{roOrder, b2i(little), 0}
			for k := 0; k < 4; k++ {
				v := randTval(r)
				writeTval(w, v)
				code, a := v.readOp()
				ops = append(ops, code, a, 0, roErr, 0, 0)
			}
			ops = append(ops, roU16, 0, 0)
			ops = append(ops, tail...)
			full := w.Bytes()
			for t := 0; t <= len(full); t++ {
				n := c.n(len(full))
				if c.kind == bkFile {
					n = int64(len(full))
				}
				emit(mkBinread(c.kind, n, c.ewl, false, append([]byte{}, full[:t]...), c.sched, ops))
			}
		}
	}
	// (iii) structured + malformed random streams
	n := 6000
	if tier == "thorough" {
		n = 300000
	}
	for i := 0; i < n; i++ {
		if i%2 == 0 {
			genRoundTrip(r, emit)
			continue
		}
		l := r.Intn(12)
		data := make([]byte, l)
		for j := range data {
			data[j] = byte(r.U64())
		}
		kind, nn := randKindN(r, l)
		ops := randReadOps(r, l, 1+r.Intn(10), i%4 == 1)
		ops = append(ops, tail...)
		emit(mkBinread(kind, nn, r.Chance(1, 4), r.Chance(1, 6), data, randSched(r, l), ops))
	}
}

func shrinkBinread(c Case) []Case {
	kind, n, ewl, failing, data, sched, ops := parseBinread(c.Args)
	var out []Case
	for i := 0; i+2 < len(ops); i += 3 {
		no := append(append([]int64{}, ops[:i]...), ops[i+3:]...)
		out = append(out, mkBinread(kind, n, ewl, failing, data, sched, no))
	}
	for i := range sched {
		ns := append(append([]int{}, sched[:i]...), sched[i+1:]...)
		out = append(out, mkBinread(kind, n, ewl, failing, data, ns, ops))
	}
	if kind != bkFile {
		for i := range data {
			nd := append(append([]byte{}, data[:i]...), data[i+1:]...)
			out = append(out, mkBinread(kind, n, ewl, failing, nd, sched, ops))
		}
	}
	return out
}

var binreadModel = &Model{
	Name:   "binread",
	Gen:    genBinread,
	Impl:   binreadImpl,
	Shrink: shrinkBinread,
	Class: func(c Case, out []int64) string {
		s := backendName(int(c.Args[0]), c.Args[1])
		switch {
		case len(out) > 0 && out[len(out)-1] == -1:
			s += "/panic"
		case len(out) > 0 && out[0] == -3:
			s += "/ctor-error"
		case len(out) >= 8 && out[len(out)-6] != 0:
			s += fmt.Sprintf("/err%d", out[len(out)-6])
		default:
			s += "/ok"
		}
		return s
	},
}

// ---- writer model ----------------------------------------------------------------------------------

func tvalArgs(v tval) []int64 {
	switch {
	case v.typ == 10:
		return append([]int64{10}, bytesToArgs(v.b)...)
	case v.typ == 4:
		return []int64{4, int64(v.u >> 32), int64(v.u & 0xFFFFFFFF)}
	case v.typ == 9:
		return []int64{9, v.i >> 32, v.i & 0xFFFFFFFF}
	case v.typ < 5:
		return []int64{int64(v.typ), int64(v.u), 0}
	}
	return []int64{int64(v.typ), v.i, 0}
}

func binwriteImpl(c Case) []int64 {
	iv, ops := takeList(c.Args)
	var w *parse.BinaryWriter
	if len(iv) == 0 {
		w = parse.NewBinaryWriter(nil)
	} else {
		w = parse.NewBinaryWriter(toBytes(iv))
	}
	var out []int64
	for i := 0; i+1 < len(ops); {
		code, a := ops[i], ops[i+1]
		switch {
		case code == 10 || code == 11:
			n := int(a)
			if n < 0 {
				n = 0
			}
			if i+2+n > len(ops) {
				n = len(ops) - i - 2
			}
			b := toBytes(ops[i+2 : i+2+n])
			if code == 10 {
				if len(b)%2 == 0 {
					w.WriteBytes(b)
				} else {
					w.WriteString(string(b))
				}
			} else {
				k, e := w.Write(b)
				out = append(out, int64(k), binErrKind(e))
			}
			i += 2 + n
		case code == 12:
			if a != 0 {
				w.ByteOrder = binary.LittleEndian
			} else {
				w.ByteOrder = binary.BigEndian
			}
			i += 2
		default:
			if i+2 >= len(ops) {
				i = len(ops)
				break
			}
			b := ops[i+2]
			switch code {
			case 0:
				if a%2 == 0 {
					w.WriteUint8(uint8(a))
				} else {
					w.WriteByte(byte(a))
				}
			case 1:
				w.WriteUint16(uint16(a))
			case 2:
				w.WriteUint24(uint32(a))
			case 3:
				w.WriteUint32(uint32(a))
			case 4:
				w.WriteUint64(uint64(a)<<32 | uint64(b))
			case 5:
				w.WriteInt8(int8(a))
			case 6:
				w.WriteInt16(int16(a))
			case 7:
				w.WriteInt24(int32(a))
			case 8:
				w.WriteInt32(int32(a))
			default:
				w.WriteInt64(a<<32 + b)
			}
			i += 3
		}
	}
	out = append(out, -2, w.Len())
	return append(out, bytesObs(w.Bytes())...)
}

func genBinwrite(r *Rng, tier string, emit func(Case)) {
	mk := func(init []byte, ops []int64, note string) {
		args := append(bytesToArgs(init), ops...)
		emit(Case{Fn: "binwrite", Args: args, Note: note})
	}
	// exhaustive: every type x both orders x boundary values
	bounds := []uint64{0, 1, 0x7F, 0x80, 0xFF, 0x100, 0x7FFF, 0x8000, 0xFFFF, 0x10000, 0x7FFFFF, 0x800000, 0xFFFFFF, 0x1000000,
		0x7FFFFFFF, 0x80000000, 0xFFFFFFFF, 0x100000000, 0x7FFFFFFFFFFFFFFF, 0x8000000000000000, 0xFFFFFFFFFFFFFFFF, 0x0102030405060708, 0xF1E2D3C4B5A69788}
	bits := []uint{8, 16, 24, 32, 64}
	for t := 0; t < 10; t++ {
		for _, x := range bounds {
			w := bits[t%5]
			// WriteUint24 takes a uint32 and truncates it: keep 32 bits there
			if t == 2 || t == 7 {
				w = 32
			}
			if w < 64 {
				x &= (1 << w) - 1
			}
			v := tval{typ: t, u: x}
			if t >= 5 {
				v.i = int64(x<<(64-w)) >> (64 - w)
			}
			for o := int64(0); o < 2; o++ {
				mk(nil, append([]int64{12, o}, tvalArgs(v)...), fmt.Sprintf("type %d value %#x order %d", t, x, o))
			}
		}
	}
	n := 3000
	if tier == "thorough" {
		n = 200000
	}
	for i := 0; i < n; i++ {
		var init []byte
		if r.Chance(1, 4) {
			init = make([]byte, r.Intn(4))
			for j := range init {
				init[j] = byte(r.U64())
			}
		}
		var ops []int64
		for k := r.Intn(10); k >= 0; k-- {
			switch r.Intn(8) {
			case 0:
				ops = append(ops, 12, int64(r.Intn(2)))
			case 1:
				b := make([]byte, r.Intn(5))
				for j := range b {
					b[j] = byte(r.U64())
				}
				ops = append(ops, 11)
				ops = append(ops, bytesToArgs(b)...)
			default:
				v := randTval(r)
				if (v.typ == 2 || v.typ == 7) && r.Chance(1, 3) {
					// a uint32/int32 that does not fit 24 bits is truncated by WriteUint24
					x := uint32(r.U64())
					v.u, v.i = uint64(x), int64(int32(x))
				}
				ops = append(ops, tvalArgs(v)...)
			}
		}
		mk(init, ops, "")
	}
}

var binwriteModel = &Model{
	Name: "binwrite",
	Gen:  genBinwrite,
	Impl: binwriteImpl,
	Class: func(c Case, out []int64) string {
		return fmt.Sprintf("len<=%d", (len(out)/16+1)*16)
	},
}

// ---- bitmap models ---------------------------------------------------------------------------------

func encBitReads(r *parse.BitmapReader, k int) []int64 {
	var out []int64
	for i := 0; i < k; i++ {
		bit := r.Read()
		out = append(out, b2i(bit), int64(r.Pos()), b2i(r.EOF()))
	}
	return out
}

func bitreadImpl(c Case) (out []int64) {
	k := int(c.Args[0])
	bv, _ := takeList(c.Args[1:])
	defer func() {
		if recover() != nil {
			out = []int64{-1}
		}
	}()
	return encBitReads(parse.NewBitmapReader(toBytes(bv)), k)
}

func bitwriteImpl(c Case) (out []int64) {
	k := int(c.Args[0])
	iv, bits := takeList(c.Args[1:])
	defer func() {
		if recover() != nil {
			out = []int64{-1}
		}
	}()
	var w *parse.BitmapWriter
	if len(iv) == 0 {
		w = parse.NewBitmapWriter(nil)
	} else {
		w = parse.NewBitmapWriter(toBytes(iv))
	}
	for _, b := range bits {
		w.Write(b != 0)
	}
	out = append([]int64{w.Len()}, bytesObs(w.Bytes())...)
	out = append(out, -2)
	return append(out, encBitReads(parse.NewBitmapReader(w.Bytes()), k)...)
}

func genBitread(r *Rng, tier string, emit func(Case)) {
	alpha := []byte{0x00, 0xFF, 0xA5, 0x01, 0x80}
	allStrings(alpha, 3, func(b []byte) {
		emit(Case{Fn: "bitread", Args: append([]int64{int64(8*len(b) + 3)}, bytesToArgs(b)...), Note: fmt.Sprintf("buf=%x", b)})
	})
	n := 2000
	if tier == "thorough" {
		n = 100000
	}
	for i := 0; i < n; i++ {
		b := make([]byte, r.Intn(9))
		for j := range b {
			b[j] = byte(r.U64())
		}
		k := r.Intn(8*len(b) + 6)
		emit(Case{Fn: "bitread", Args: append([]int64{int64(k)}, bytesToArgs(b)...), Note: fmt.Sprintf("k=%d buf=%x", k, b)})
	}
}

func genBitwrite(r *Rng, tier string, emit func(Case)) {
	mk := func(k int, init []byte, bits []int64) {
		args := append([]int64{int64(k)}, bytesToArgs(init)...)
		args = append(args, bits...)
		emit(Case{Fn: "bitwrite", Args: args, Note: fmt.Sprintf("k=%d init=%x bits=%v", k, init, bits)})
	}
	// exhaustive: every bit string of length <= 10 written to an empty writer
	maxLen := 10
	if tier == "thorough" {
		maxLen = 16
	}
	for l := 0; l <= maxLen; l++ {
		for x := 0; x < 1<<uint(l); x++ {
			bits := make([]int64, l)
			for j := range bits {
				bits[j] = int64(x >> uint(j) & 1)
			}
			mk(l+10, nil, bits)
		}
	}
	n := 2000
	if tier == "thorough" {
		n = 100000
	}
	for i := 0; i < n; i++ {
		var init []byte
		if r.Chance(1, 3) {
			init = make([]byte, r.Intn(4))
			for j := range init {
				init[j] = byte(r.U64())
			}
		}
		bits := make([]int64, r.Intn(40))
		for j := range bits {
			bits[j] = int64(r.Intn(2))
		}
		mk(len(bits)+r.Intn(20), init, bits)
	}
}

var bitreadModel = &Model{Name: "bitread", Gen: genBitread, Impl: bitreadImpl,
	Class: func(c Case, out []int64) string { return fmt.Sprintf("len=%d", c.Args[1]) }}
var bitwriteModel = &Model{Name: "bitwrite", Gen: genBitwrite, Impl: bitwriteImpl,
	Class: func(c Case, out []int64) string {
		iv, bits := takeList(c.Args[1:])
		return fmt.Sprintf("init=%d/bits<=%d", len(iv), (len(bits)/8+1)*8)
	}}

func init() {
	props["C19"] = &PropSpec{
		Models:  []*Model{binreadModel, binwriteModel, bitreadModel, bitwriteModel},
		Oracles: []*Oracle{{Name: "c19-property", Run: c19Oracle}},
	}
}
