package main

import (
	"bytes"
	"encoding/binary"
	"errors"
	"fmt"
	"io"
	"os"
	"strings"

	"github.com/tdewolff/parse/v2"
)

// ---- C19: BinaryReader / BinaryWriter / BitmapReader / BitmapWriter -------------------------

var c19ErrSrc = errors.New("source failed")

// c19SchedSrc is the underlying source of the stream backends: data delivered according to a read
// schedule (Binary/Model.v src_read / src_readat).
//
//	sched  upper bound on the bytes delivered by the next Read calls that find data (one entry per
//	       call; exhausted => fill the caller's buffer); an entry 0 is a (0, nil) read
//	ewl    the final error is delivered together with the last bytes
//	fe     the final error (io.EOF, or c19ErrSrc for a failing source)
type c19SchedSrc struct {
	data  []byte
	sched []int
	ewl   bool
	fe    error
	pos   int64 // sequential / seek position
}

func (s *c19SchedSrc) read(p []byte) (int, error) {
	var rem []byte
	if s.pos < int64(len(s.data)) {
		rem = s.data[s.pos:]
	}
	if len(rem) == 0 {
		return 0, s.fe
	}
	want := len(p)
	if len(s.sched) > 0 {
		c := s.sched[0]
		s.sched = s.sched[1:]
		if c < want {
			want = c
		}
	}
	m := want
	if len(rem) < m {
		m = len(rem)
	}
	if m < 0 {
		m = 0
	}
	copy(p, rem[:m])
	s.pos += int64(m)
	if s.pos >= int64(len(s.data)) && s.ewl {
		return m, s.fe
	}
	return m, nil
}

func (s *c19SchedSrc) seek(off int64, whence int) (int64, error) {
	var abs int64
	switch whence {
	case io.SeekStart:
		abs = off
	case io.SeekCurrent:
		abs = s.pos + off
	case io.SeekEnd:
		abs = int64(len(s.data)) + off
	default:
		return 0, c19ErrSrc
	}
	if abs < 0 {
		return 0, c19ErrSrc
	}
	s.pos = abs
	return abs, nil
}

func (s *c19SchedSrc) readAt(b []byte, off int64) (int, error) {
	n := len(b)
	if off < 0 {
		return 0, c19ErrSrc
	}
	if int64(len(s.data)) <= off {
		return 0, s.fe
	}
	avail := len(s.data) - int(off)
	m0 := n
	if avail < m0 {
		m0 = avail
	}
	m := m0
	if len(s.sched) > 0 {
		c := s.sched[0]
		s.sched = s.sched[1:]
		if c < m0 {
			m = c
		}
	}
	if m < 0 {
		m = 0
	}
	var err error
	switch {
	case m < m0:
	case m0 < n:
		err = s.fe
	case s.ewl && int(off)+m0 == len(s.data):
		err = s.fe
	}
	copy(b, s.data[off:int(off)+m])
	return m, err
}

// the three capability sets NewBinaryReaderReader distinguishes
type c19PlainReader struct{ s *c19SchedSrc }

func (r c19PlainReader) Read(p []byte) (int, error) { return r.s.read(p) }

type c19SeekReader struct{ s *c19SchedSrc }

func (r c19SeekReader) Read(p []byte) (int, error)         { return r.s.read(p) }
func (r c19SeekReader) Seek(o int64, w int) (int64, error) { return r.s.seek(o, w) }

type c19AtReader struct{ s *c19SchedSrc }

func (r c19AtReader) Read(p []byte) (int, error)            { return r.s.read(p) }
func (r c19AtReader) ReadAt(p []byte, o int64) (int, error) { return r.s.readAt(p, o) }

func c19BinErrKind(e error) int64 {
	if e == nil {
		return 0
	}
	if e == io.EOF {
		return 1
	}
	if e == c19ErrSrc {
		return 5
	}
	if e == io.ErrNoProgress {
		return 9
	}
	m := e.Error()
	switch {
	case strings.Contains(m, "invalid range"):
		return 2
	case strings.Contains(m, "does not implement io.Seeker"):
		return 3
	case strings.Contains(m, "could not read all bytes"):
		return 4
	case strings.Contains(m, "mmap: closed"):
		return 6
	case strings.Contains(m, "invalid offset"):
		return 7
	case strings.Contains(m, "invalid whence"):
		return 8
	}
	return 5 // an error of the underlying file (closed, EINVAL)
}

const (
	c19BkBytes = iota
	c19BkMmap
	c19BkFile
	c19BkPlain
	c19BkSeeker
	c19BkReaderAt
	c19BkHasBytes
)

var c19BkNames = []string{"bytes", "mmap", "file", "reader", "readseeker", "readerat", "hasbytes"}

// c19BackendName names the backend NewBinaryReaderReader picks (for histograms and finding keys).
func c19BackendName(kind int, n int64) string {
	switch kind {
	case c19BkPlain:
		if n < 0 {
			return "readall"
		}
	case c19BkReaderAt:
		if n < 0 {
			return "readall"
		} else if n == 0 {
			return "reader"
		}
	}
	return c19BkNames[kind]
}

const (
	c19RoSeek = iota
	c19RoRead
	c19RoReadAt
	c19RoReadBytes
	c19RoReadByte
	c19RoU8
	c19RoU16
	c19RoU24
	c19RoU32
	c19RoU64
	c19RoI8
	c19RoI16
	c19RoI24
	c19RoI32
	c19RoI64
	c19RoPos
	c19RoLen
	c19RoErr
	c19RoOrder
	c19RoClone
	c19RoSwap
	c19RoClose
	c19RoInPageCache
	c19RoReadString
	c19RoCount
)

var c19RoNames = []string{"Seek", "Read", "ReadAt", "ReadBytes", "ReadByte", "U8", "U16", "U24", "U32", "U64", "I8", "I16", "I24", "I32", "I64", "Pos", "Len", "Err", "Order", "Clone", "Swap", "Close", "InPageCache", "ReadString"}

// c19OpenBackend builds the real reader for a case; cleanup removes temp files.
func c19OpenBackend(kind int, n int64, data []byte, sched []int, ewl, failing bool) (r *parse.BinaryReader, cleanup func(), err error) {
	cleanup = func() {}
	fe := io.EOF
	if failing {
		fe = c19ErrSrc
	}
	src := &c19SchedSrc{data: data, sched: append([]int{}, sched...), ewl: ewl, fe: fe}
	switch kind {
	case c19BkBytes:
		return parse.NewBinaryReaderBytes(data), cleanup, nil
	case c19BkMmap, c19BkFile:
		dir, e := os.MkdirTemp("", "verif-c19-")
		if e != nil {
			panic(e)
		}
		path := dir + "/f"
		var f *os.File
		cleanup = func() {
			if r != nil {
				r.IBinaryReader().Close()
			}
			if f != nil {
				f.Close()
			}
			os.RemoveAll(dir)
		}
		if kind == c19BkMmap {
			if e := os.WriteFile(path, data, 0o600); e != nil {
				panic(e)
			}
			if len(data)%2 == 0 {
				if f, e = os.Open(path); e != nil {
					panic(e)
				}
				r, err = parse.NewBinaryReaderMmapFile(f)
			} else {
				r, err = parse.NewBinaryReaderMmapPath(path)
			}
			return r, cleanup, err
		}
		// file: Stat().Size() = n at open time, the file holds data when it is read
		first := make([]byte, n)
		copy(first, data)
		if e := os.WriteFile(path, first, 0o600); e != nil {
			panic(e)
		}
		if len(data)%2 == 0 {
			if f, e = os.Open(path); e != nil {
				panic(e)
			}
			r, err = parse.NewBinaryReaderFile(f)
		} else {
			r, err = parse.NewBinaryReaderPath(path)
		}
		if !bytes.Equal(first, data) {
			if e := os.WriteFile(path, data, 0o600); e != nil {
				panic(e)
			}
		}
		return r, cleanup, err
	case c19BkPlain:
		r, err = parse.NewBinaryReaderReader(c19PlainReader{src}, n)
	case c19BkSeeker:
		r, err = parse.NewBinaryReaderReader(c19SeekReader{src}, n)
	case c19BkReaderAt:
		r, err = parse.NewBinaryReaderReader(c19AtReader{src}, n)
	default:
		r, err = parse.NewBinaryReaderReader(bytes.NewBuffer(data), n)
	}
	return r, cleanup, err
}

func c19BytesObs(b []byte) []int64 {
	out := make([]int64, len(b))
	for i, c := range b {
		out[i] = int64(c)
	}
	return out
}

func c19B2i(b bool) int64 {
	if b {
		return 1
	}
	return 0
}

// c19DoReadOp applies one operation; cur/oth are the reader and its clone.
func c19DoReadOp(cur, oth **parse.BinaryReader, code int, a, b int64) (obs []int64) {
	r := *cur
	switch code {
	case c19RoSeek:
		p, e := r.Seek(a, int(b))
		obs = []int64{p, c19BinErrKind(e)}
	case c19RoRead:
		buf := make([]byte, a)
		n, e := r.Read(buf)
		obs = append([]int64{int64(n), c19BinErrKind(e)}, c19BytesObs(buf[:n])...)
	case c19RoReadAt:
		buf := make([]byte, a)
		n, e := r.ReadAt(buf, b)
		obs = append([]int64{int64(n), c19BinErrKind(e)}, c19BytesObs(buf[:n])...)
	case c19RoReadBytes:
		d := r.ReadBytes(a)
		obs = append([]int64{c19B2i(d == nil)}, c19BytesObs(d)...)
	case c19RoReadString:
		s := r.ReadString(a)
		obs = append([]int64{0}, c19BytesObs([]byte(s))...)
	case c19RoReadByte:
		c, e := r.ReadByte()
		obs = []int64{int64(c), c19BinErrKind(e)}
	case c19RoU8:
		obs = []int64{int64(r.ReadUint8())}
	case c19RoU16:
		obs = []int64{int64(r.ReadUint16())}
	case c19RoU24:
		obs = []int64{int64(r.ReadUint24())}
	case c19RoU32:
		obs = []int64{int64(r.ReadUint32())}
	case c19RoU64:
		v := r.ReadUint64()
		obs = []int64{int64(v >> 32), int64(v & 0xFFFFFFFF)}
	case c19RoI8:
		obs = []int64{int64(r.ReadInt8())}
	case c19RoI16:
		obs = []int64{int64(r.ReadInt16())}
	case c19RoI24:
		obs = []int64{int64(r.ReadInt24())}
	case c19RoI32:
		obs = []int64{int64(r.ReadInt32())}
	case c19RoI64:
		obs = []int64{r.ReadInt64()}
	case c19RoPos:
		obs = []int64{r.Pos()}
	case c19RoLen:
		obs = []int64{r.Len()}
	case c19RoErr:
		obs = []int64{c19BinErrKind(r.Err())}
	case c19RoOrder:
		if a != 0 {
			r.ByteOrder = binary.LittleEndian
		} else {
			r.ByteOrder = binary.BigEndian
		}
	case c19RoClone:
		*oth = r.Clone()
	case c19RoSwap:
		*cur, *oth = *oth, *cur
	case c19RoClose:
		obs = []int64{c19BinErrKind(r.Close())}
	case c19RoInPageCache:
		obs = []int64{c19B2i(r.InPageCache(a, b))}
	}
	return obs
}

func c19ParseBinread(a []int64) (kind int, n int64, ewl, failing bool, data []byte, sched []int, ops []int64) {
	kind, n, ewl, failing = int(a[0]), a[1], a[2] != 0, a[3] != 0
	dv, rest := takeList(a[4:])
	sv, ops := takeList(rest)
	data = toBytes(dv)
	for _, x := range sv {
		sched = append(sched, int(x))
	}
	return
}

func c19BinreadImpl(c Case) []int64 {
	kind, n, ewl, failing, data, sched, ops := c19ParseBinread(c.Args)
	r, cleanup, err := c19OpenBackend(kind, n, data, sched, ewl, failing)
	defer cleanup()
	if err != nil || r == nil {
		return []int64{-3}
	}
	cur := r
	oth := r.Clone() // the model's initial "other" reader: position 0, no error, big endian
	var out []int64
	for i := 0; i+2 < len(ops); i += 3 {
		var obs []int64
		if p := catch(func() { obs = c19DoReadOp(&cur, &oth, int(ops[i]), ops[i+1], ops[i+2]) }); p != nil {
			return append(out, -1)
		}
		out = append(out, int64(len(obs)))
		out = append(out, obs...)
	}
	return append(out, -2)
}

func c19MkBinread(kind int, n int64, ewl, failing bool, data []byte, sched []int, ops []int64) Case {
	args := []int64{int64(kind), n, c19B2i(ewl), c19B2i(failing)}
	args = append(args, bytesToArgs(data)...)
	args = append(args, int64(len(sched)))
	for _, s := range sched {
		args = append(args, int64(s))
	}
	args = append(args, ops...)
	return Case{Fn: "binread", Args: args, Note: c19DescribeBinread(args)}
}

func c19DescribeBinread(a []int64) string {
	kind, n, ewl, failing, data, sched, ops := c19ParseBinread(a)
	s := fmt.Sprintf("%s n=%d ewl=%v failing=%v data=%x sched=%v ops=", c19BackendName(kind, n), n, ewl, failing, data, sched)
	for i := 0; i+2 < len(ops); i += 3 {
		code := int(ops[i])
		name := "?"
		if code >= 0 && code < len(c19RoNames) {
			name = c19RoNames[code]
		}
		s += fmt.Sprintf("%s(%d,%d) ", name, ops[i+1], ops[i+2])
	}
	return s
}

// ---- typed values ----------------------------------------------------------------------------

type c19Tval struct {
	typ int // 0..4 u8,u16,u24,u32,u64 ; 5..9 i8..i64 ; 10 bytes
	u   uint64
	i   int64
	b   []byte
}

var c19TvalWidth = []int{1, 2, 3, 4, 8, 1, 2, 3, 4, 8}

func (v c19Tval) size() int {
	if v.typ == 10 {
		return len(v.b)
	} else if v.typ == 11 { // ReadByte (oracle only)
		return 1
	}
	return c19TvalWidth[v.typ]
}

func (v c19Tval) readOp() (int64, int64) {
	if v.typ == 10 {
		return c19RoReadBytes, int64(len(v.b))
	}
	return int64(c19RoU8 + v.typ), 0
}

func c19RandTval(r *Rng) c19Tval {
	t := r.Intn(11)
	v := c19Tval{typ: t}
	bits := []uint{8, 16, 24, 32, 64, 8, 16, 24, 32, 64}
	if t == 10 {
		n := r.Intn(6)
		if r.Chance(1, 6) {
			n = 0
		}
		v.b = make([]byte, n)
		for i := range v.b {
			v.b[i] = byte(r.U64())
		}
		return v
	}
	w := bits[t]
	x := r.U64()
	switch r.Intn(4) {
	case 0: // boundary patterns
		x = []uint64{0, 1, 0x7F, 0x80, 0xFF, 0x7FFF, 0x8000, 0xFFFF, 0x7FFFFF, 0x800000, 0xFFFFFF, 0x7FFFFFFF, 0x80000000, 0xFFFFFFFF, 0x7FFFFFFFFFFFFFFF, 0x8000000000000000, 0xFFFFFFFFFFFFFFFF, 0x0102030405060708}[r.Intn(18)]
	case 1:
		x = x >> uint(r.Intn(64))
	}
	if w < 64 {
		x &= (1 << w) - 1
	}
	if t < 5 {
		v.u = x
	} else {
		// sign-extend from w bits
		v.i = int64(x<<(64-w)) >> (64 - w)
	}
	return v
}

func c19WriteTval(w *parse.BinaryWriter, v c19Tval) {
	switch v.typ {
	case 0:
		w.WriteUint8(uint8(v.u))
	case 1:
		w.WriteUint16(uint16(v.u))
	case 2:
		w.WriteUint24(uint32(v.u))
	case 3:
		w.WriteUint32(uint32(v.u))
	case 4:
		w.WriteUint64(v.u)
	case 5:
		w.WriteInt8(int8(v.i))
	case 6:
		w.WriteInt16(int16(v.i))
	case 7:
		w.WriteInt24(int32(v.i))
	case 8:
		w.WriteInt32(int32(v.i))
	case 9:
		w.WriteInt64(v.i)
	default:
		w.WriteBytes(v.b)
	}
}

// c19RefEncode: the reference encoding, written with encoding/binary only.
func c19RefEncode(little bool, v c19Tval) []byte {
	var bo binary.ByteOrder = binary.BigEndian
	if little {
		bo = binary.LittleEndian
	}
	u := v.u
	if v.typ >= 5 {
		u = uint64(v.i)
	}
	switch v.typ {
	case 0, 5:
		return []byte{byte(u)}
	case 1, 6:
		b := make([]byte, 2)
		bo.PutUint16(b, uint16(u))
		return b
	case 2, 7:
		b := make([]byte, 4)
		bo.PutUint32(b, uint32(u)&0xFFFFFF)
		if little {
			return b[:3]
		}
		return b[1:]
	case 3, 8:
		b := make([]byte, 4)
		bo.PutUint32(b, uint32(u))
		return b
	case 4, 9:
		b := make([]byte, 8)
		bo.PutUint64(b, u)
		return b
	}
	return v.b
}

// expected observation of reading v back (as c19DoReadOp encodes it)
func (v c19Tval) wantObs() []int64 {
	switch {
	case v.typ == 10:
		return c19BytesObs(v.b)
	case v.typ == 4:
		return []int64{int64(v.u >> 32), int64(v.u & 0xFFFFFFFF)}
	case v.typ < 5:
		return []int64{int64(v.u)}
	}
	return []int64{v.i}
}

// ---- generators for the reader model -------------------------------------------------------------

// c19EmptyRuns builds a read script: runs[i] consecutive (0, nil) reads, each run followed by one read of
// chunk[i%len(chunk)] bytes.  binaryReaderReader/Seeker retry empty reads and give up (io.ErrNoProgress) at the
// 100th consecutive one within a Bytes call.
func c19EmptyRuns(runs []int, chunk []int) []int {
	var s []int
	for i, k := range runs {
		for j := 0; j < k; j++ {
			s = append(s, 0)
		}
		s = append(s, chunk[i%len(chunk)])
	}
	return s
}

func c19RandSched(r *Rng, n int) []int {
	switch r.Intn(7) {
	case 0:
		return nil
	case 5: // runs of empty reads around the give-up limit: 1..99 succeed, >= 100 is io.ErrNoProgress
		runs := make([]int, 1+r.Intn(4))
		for i := range runs {
			runs[i] = []int{1, 2, 7, 50, 98, 99, 99, 100, 100, 101, 150, 199, 200, 201}[r.Intn(14)]
		}
		return c19EmptyRuns(runs, []int{1 + r.Intn(3), 1, 4})
	case 6: // only runs that must succeed
		runs := make([]int, 1+r.Intn(6))
		for i := range runs {
			runs[i] = []int{1, 3, 20, 99, 99}[r.Intn(5)]
		}
		return c19EmptyRuns(runs, []int{1, 2 + r.Intn(3)})
	case 1: // one byte per Read
		s := make([]int, n+2)
		for i := range s {
			s[i] = 1
		}
		return s
	case 2: // with zero-length reads
		s := make([]int, r.Intn(6)+1)
		for i := range s {
			s[i] = r.Intn(4)
		}
		return s
	}
	s := make([]int, r.Intn(8))
	for i := range s {
		s[i] = 1 + r.Intn(5)
	}
	return s
}

// c19RandKindN picks a backend and the n handed to the constructor (claimed size).
func c19RandKindN(r *Rng, dataLen int) (int, int64) {
	kind := r.Intn(7)
	n := int64(dataLen)
	switch r.Intn(6) {
	case 0:
		n = int64(r.Intn(dataLen + 4))
	case 1:
		n = -1
	case 2:
		if r.Bool() {
			n = 0
		}
	}
	if kind == c19BkFile && n < 0 {
		n = int64(dataLen)
	}
	return kind, n
}

func c19RandReadOps(r *Rng, dataLen int, k int, wild bool) []int64 {
	var ops []int64
	for j := 0; j < k; j++ {
		code := r.Intn(c19RoCount)
		var a, b int64
		switch code {
		case c19RoSeek:
			b = int64(r.Intn(3))
			a = int64(r.Intn(dataLen+3)) - 1
			if b == 2 {
				a = -int64(r.Intn(dataLen+3)) + 1
			} else if b == 1 {
				a = int64(r.Intn(2*dataLen+3) - dataLen - 1)
			}
			if wild && r.Chance(1, 4) {
				b = int64(r.Intn(6) - 1)
				a = []int64{0, 1, -1, 1 << 62, -(1 << 62), 9223372036854775807, -9223372036854775808}[r.Intn(7)]
			}
		case c19RoRead, c19RoReadBytes, c19RoReadString:
			a = int64(r.Intn(6))
			if r.Chance(1, 8) {
				a = int64(r.Intn(dataLen + 3))
			}
			if wild && code != c19RoRead && r.Chance(1, 6) {
				a = -int64(r.Intn(3)) - 1
			}
		case c19RoReadAt:
			a = int64(r.Intn(6))
			b = int64(r.Intn(dataLen + 3))
			if wild && r.Chance(1, 5) {
				b = -int64(r.Intn(3)) - 1
			}
		case c19RoOrder:
			a = int64(r.Intn(2))
		case c19RoInPageCache:
			a = int64(r.Intn(3*4096)) - 4096
			b = int64(r.Intn(3*4096)) - 4096
		case c19RoClose:
			if !r.Chance(1, 4) {
				code = c19RoErr
			}
		}
		ops = append(ops, int64(code), a, b)
	}
	return ops
}

// c19GenRoundTrip: a written program read back (with optional truncation / seeks), on a random backend.
func c19GenRoundTrip(r *Rng, emit func(Case)) {
	little := r.Bool()
	w := parse.NewBinaryWriter(nil)
	if little {
		w.ByteOrder = binary.LittleEndian
	}
	nv := 1 + r.Intn(8)
	vals := make([]c19Tval, nv)
	for i := range vals {
		vals[i] = c19RandTval(r)
		c19WriteTval(w, vals[i])
	}
	full := w.Bytes()
	data := full
	if r.Chance(1, 3) {
		data = full[:r.Intn(len(full)+1)]
	}
	kind, n := c19RandKindN(r, len(full))
	if r.Chance(2, 3) {
		n = int64(len(full))
	}
	ops := []int64{c19RoOrder, c19B2i(little), 0}
	for _, v := range vals {
		c, a := v.readOp()
		ops = append(ops, c, a, 0)
		if r.Chance(1, 4) {
			ops = append(ops, c19RoErr, 0, 0, c19RoPos, 0, 0, c19RoLen, 0, 0)
		}
		if r.Chance(1, 10) {
			ops = append(ops, c19RandReadOps(r, len(full), 1, false)...)
		}
	}
	// run past the end
	for j := r.Intn(4); j > 0; j-- {
		ops = append(ops, int64(c19RoReadBytes+r.Intn(12)), int64(r.Intn(4)), 0)
	}
	ops = append(ops, c19RoErr, 0, 0, c19RoPos, 0, 0, c19RoLen, 0, 0)
	emit(c19MkBinread(kind, n, r.Chance(1, 5), r.Chance(1, 8), append([]byte{}, data...), c19RandSched(r, len(data)), ops))
}

var c19SmallOps = [][3]int64{
	{c19RoU8, 0, 0}, {c19RoI8, 0, 0}, {c19RoReadByte, 0, 0}, {c19RoU16, 0, 0}, {c19RoI24, 0, 0}, {c19RoU32, 0, 0},
	{c19RoReadBytes, 0, 0}, {c19RoReadBytes, 2, 0}, {c19RoReadString, 3, 0}, {c19RoRead, 0, 0}, {c19RoRead, 2, 0},
	{c19RoReadAt, 2, 1}, {c19RoReadAt, 1, 0}, {c19RoSeek, 1, 0}, {c19RoSeek, -1, 2}, {c19RoSeek, 1, 1}, {c19RoSeek, 0, 2},
	{c19RoClone, 0, 0}, {c19RoSwap, 0, 0}, {c19RoClose, 0, 0}, {c19RoOrder, 1, 0},
}

func c19GenBinread(r *Rng, tier string, emit func(Case)) {
	tail := []int64{c19RoErr, 0, 0, c19RoPos, 0, 0, c19RoLen, 0, 0}
	pattern := []byte{0x81, 0x02, 0xF3, 0x04}
	type cfg struct {
		kind  int
		n     func(l int) int64
		sched []int
		ewl   bool
	}
	exact := func(l int) int64 { return int64(l) }
	neg := func(l int) int64 { return -1 }
	zero := func(l int) int64 { return 0 }
	more := func(l int) int64 { return int64(l + 1) }
	cfgs := []cfg{
		{c19BkBytes, exact, nil, false}, {c19BkMmap, exact, nil, false}, {c19BkFile, exact, nil, false}, {c19BkFile, more, nil, false},
		{c19BkPlain, exact, nil, false}, {c19BkPlain, exact, []int{1, 1, 1, 1, 1}, false}, {c19BkPlain, exact, []int{1, 0, 1}, false},
		{c19BkPlain, exact, nil, true}, {c19BkPlain, neg, []int{1, 0, 2}, true}, {c19BkPlain, more, nil, false},
		{c19BkSeeker, exact, nil, false}, {c19BkSeeker, exact, []int{1, 1, 1, 1, 1}, false}, {c19BkSeeker, neg, nil, true}, {c19BkSeeker, exact, []int{0}, false},
		// runs of (0, nil) reads: 99 are retried, the 100th gives up, the counter restarts with every Bytes call
		{c19BkPlain, exact, c19EmptyRuns([]int{99, 99, 99, 99, 99}, []int{1}), false},
		{c19BkPlain, exact, c19EmptyRuns([]int{100, 0, 99}, []int{1, 2}), false},
		{c19BkPlain, exact, c19EmptyRuns([]int{1, 101, 2}, []int{1}), true},
		{c19BkSeeker, exact, c19EmptyRuns([]int{99, 100, 99}, []int{2, 1}), false},
		{c19BkSeeker, exact, c19EmptyRuns([]int{250}, []int{1}), true},
		{c19BkReaderAt, exact, nil, false}, {c19BkReaderAt, exact, nil, true}, {c19BkReaderAt, exact, []int{1}, false}, {c19BkReaderAt, zero, nil, false}, {c19BkReaderAt, neg, nil, false},
		{c19BkHasBytes, exact, nil, false},
	}
	// (ii) exhaustive small scope: every configuration x data length 0..4 x every op sequence of length <= 2
	for _, c := range cfgs {
		for l := 0; l <= 4; l++ {
			data := pattern[:l]
			var seqs [][]int64
			seqs = append(seqs, nil)
			for _, o1 := range c19SmallOps {
				seqs = append(seqs, o1[:])
				for _, o2 := range c19SmallOps {
					seqs = append(seqs, append(append([]int64{}, o1[:]...), o2[:]...))
				}
			}
			for _, s := range seqs {
				ops := append(append([]int64{}, s...), tail...)
				emit(c19MkBinread(c.kind, c.n(l), c.ewl, false, data, c.sched, ops))
			}
		}
	}
	// truncation of written data at every byte, on every configuration
	for _, c := range cfgs {
		for rep := 0; rep < 3; rep++ {
			w := parse.NewBinaryWriter(nil)
			little := rep == 1
			if little {
				w.ByteOrder = binary.LittleEndian
			}
			ops := []int64{c19RoOrder, c19B2i(little), 0}
			for k := 0; k < 4; k++ {
				v := c19RandTval(r)
				c19WriteTval(w, v)
				code, a := v.readOp()
				ops = append(ops, code, a, 0, c19RoErr, 0, 0)
			}
			ops = append(ops, c19RoU16, 0, 0)
			ops = append(ops, tail...)
			full := w.Bytes()
			for t := 0; t <= len(full); t++ {
				n := c.n(len(full))
				if c.kind == c19BkFile {
					n = int64(len(full))
				}
				emit(c19MkBinread(c.kind, n, c.ewl, false, append([]byte{}, full[:t]...), c.sched, ops))
			}
		}
	}
	// fixed 8-byte pattern decoded by every typed read in both byte orders, at every offset, on every configuration
	pat8 := []byte{0x81, 0x02, 0xF3, 0x04, 0x95, 0x06, 0xE7, 0x08, 0x79}
	for _, c := range cfgs {
		for code := int64(c19RoU8); code <= c19RoI64; code++ {
			for o := int64(0); o < 2; o++ {
				for off := int64(0); off < 2; off++ {
					ops := []int64{c19RoOrder, o, 0, c19RoReadBytes, off, 0, code, 0, 0}
					ops = append(ops, tail...)
					emit(c19MkBinread(c.kind, c.n(len(pat8)), c.ewl, false, pat8, c.sched, ops))
				}
			}
		}
	}
	// Clone/Swap programs: byte order, position and error are copied, the backend is shared
	for i := 0; i < 600; i++ {
		l := 4 + r.Intn(12)
		data := make([]byte, l)
		for j := range data {
			data[j] = byte(r.U64())
		}
		kind, nn := c19RandKindN(r, l)
		if i%3 != 0 {
			nn = int64(l)
		}
		ops := []int64{c19RoOrder, int64(r.Intn(2)), 0}
		for k := 0; k < 3+r.Intn(6); k++ {
			switch r.Intn(6) {
			case 0:
				ops = append(ops, c19RoClone, 0, 0)
			case 1:
				ops = append(ops, c19RoSwap, 0, 0)
			case 2:
				ops = append(ops, c19RoOrder, int64(r.Intn(2)), 0)
			case 3:
				ops = append(ops, c19RoSeek, int64(r.Intn(l+1)), 0)
			default:
				ops = append(ops, int64(c19RoU8+r.Intn(10)), 0, 0, c19RoPos, 0, 0)
			}
		}
		ops = append(ops, c19RoSwap, 0, 0, c19RoU16, 0, 0, c19RoErr, 0, 0, c19RoPos, 0, 0, c19RoSwap, 0, 0)
		ops = append(ops, tail...)
		emit(c19MkBinread(kind, nn, false, false, data, c19RandSched(r, l), ops))
	}
	// InPageCache around page boundaries (PageSize = 4096)
	big := make([]byte, 9000)
	for j := range big {
		big[j] = byte(j * 7)
	}
	for _, pos := range []int64{0, 1, 4095, 4096, 4097, 8191, 8192, 9000} {
		for _, ab := range [][2]int64{{0, 0}, {0, 4095}, {4095, 4096}, {4096, 8191}, {4096, 8192}, {8192, 8999}, {-1, 0}, {-4096, -1}, {pos, pos}, {pos - 1, pos + 1}} {
			ops := []int64{c19RoSeek, pos, 0, c19RoInPageCache, ab[0], ab[1], c19RoU16, 0, 0, c19RoInPageCache, ab[0], ab[1]}
			emit(c19MkBinread(c19BkBytes, int64(len(big)), false, false, big, nil, append(ops, tail...)))
		}
	}
	// (iii) structured + malformed random streams
	n := 6000
	if tier == "thorough" {
		n = 300000
	}
	for i := 0; i < n; i++ {
		if i%2 == 0 {
			c19GenRoundTrip(r, emit)
			continue
		}
		l := r.Intn(12)
		data := make([]byte, l)
		for j := range data {
			data[j] = byte(r.U64())
		}
		kind, nn := c19RandKindN(r, l)
		ops := c19RandReadOps(r, l, 1+r.Intn(10), i%4 == 1)
		ops = append(ops, tail...)
		emit(c19MkBinread(kind, nn, r.Chance(1, 4), r.Chance(1, 6), data, c19RandSched(r, l), ops))
	}
}

func c19ShrinkBinread(c Case) []Case {
	kind, n, ewl, failing, data, sched, ops := c19ParseBinread(c.Args)
	var out []Case
	for i := 0; i+2 < len(ops); i += 3 {
		no := append(append([]int64{}, ops[:i]...), ops[i+3:]...)
		out = append(out, c19MkBinread(kind, n, ewl, failing, data, sched, no))
	}
	for i := range sched {
		ns := append(append([]int{}, sched[:i]...), sched[i+1:]...)
		out = append(out, c19MkBinread(kind, n, ewl, failing, data, ns, ops))
	}
	if kind != c19BkFile {
		for i := range data {
			nd := append(append([]byte{}, data[:i]...), data[i+1:]...)
			out = append(out, c19MkBinread(kind, n, ewl, failing, nd, sched, ops))
		}
	}
	return out
}

var c19BinreadModel = &Model{
	Name:   "binread",
	Gen:    c19GenBinread,
	Impl:   c19BinreadImpl,
	Shrink: c19ShrinkBinread,
	Class: func(c Case, out []int64) string {
		s := c19BackendName(int(c.Args[0]), c.Args[1])
		switch {
		case len(out) > 0 && out[len(out)-1] == -1:
			s += "/panic"
		case len(out) > 0 && out[0] == -3:
			s += "/ctor-error"
		case len(out) >= 8 && out[len(out)-6] != 0:
			s += fmt.Sprintf("/err%d", out[len(out)-6])
		default:
			s += "/ok"
		}
		return s
	},
}

// ---- writer model ----------------------------------------------------------------------------------

func c19TvalArgs(v c19Tval) []int64 {
	switch {
	case v.typ == 10:
		return append([]int64{10}, bytesToArgs(v.b)...)
	case v.typ == 4:
		return []int64{4, int64(v.u >> 32), int64(v.u & 0xFFFFFFFF)}
	case v.typ == 9:
		return []int64{9, v.i >> 32, v.i & 0xFFFFFFFF}
	case v.typ < 5:
		return []int64{int64(v.typ), int64(v.u), 0}
	}
	return []int64{int64(v.typ), v.i, 0}
}

func c19BinwriteImpl(c Case) []int64 {
	iv, ops := takeList(c.Args)
	var w *parse.BinaryWriter
	if len(iv) == 0 {
		w = parse.NewBinaryWriter(nil)
	} else {
		w = parse.NewBinaryWriter(toBytes(iv))
	}
	var out []int64
	for i := 0; i+1 < len(ops); {
		code, a := ops[i], ops[i+1]
		switch {
		case code == 10 || code == 11:
			n := int(a)
			if n < 0 {
				n = 0
			}
			if i+2+n > len(ops) {
				n = len(ops) - i - 2
			}
			b := toBytes(ops[i+2 : i+2+n])
			if code == 10 {
				if len(b)%2 == 0 {
					w.WriteBytes(b)
				} else {
					w.WriteString(string(b))
				}
			} else {
				k, e := w.Write(b)
				out = append(out, int64(k), c19BinErrKind(e))
			}
			i += 2 + n
		case code == 12:
			if a != 0 {
				w.ByteOrder = binary.LittleEndian
			} else {
				w.ByteOrder = binary.BigEndian
			}
			i += 2
		default:
			if i+2 >= len(ops) {
				i = len(ops)
				break
			}
			b := ops[i+2]
			switch code {
			case 0:
				if a%2 == 0 {
					w.WriteUint8(uint8(a))
				} else {
					w.WriteByte(byte(a))
				}
			case 1:
				w.WriteUint16(uint16(a))
			case 2:
				w.WriteUint24(uint32(a))
			case 3:
				w.WriteUint32(uint32(a))
			case 4:
				w.WriteUint64(uint64(a)<<32 | uint64(b))
			case 5:
				w.WriteInt8(int8(a))
			case 6:
				w.WriteInt16(int16(a))
			case 7:
				w.WriteInt24(int32(a))
			case 8:
				w.WriteInt32(int32(a))
			default:
				w.WriteInt64(a<<32 + b)
			}
			i += 3
		}
	}
	out = append(out, -2, w.Len())
	return append(out, c19BytesObs(w.Bytes())...)
}

func c19GenBinwrite(r *Rng, tier string, emit func(Case)) {
	mk := func(init []byte, ops []int64, note string) {
		args := append(bytesToArgs(init), ops...)
		emit(Case{Fn: "binwrite", Args: args, Note: note})
	}
	// exhaustive: every type x both orders x boundary values
	bounds := []uint64{0, 1, 0x7F, 0x80, 0xFF, 0x100, 0x7FFF, 0x8000, 0xFFFF, 0x10000, 0x7FFFFF, 0x800000, 0xFFFFFF, 0x1000000,
		0x7FFFFFFF, 0x80000000, 0xFFFFFFFF, 0x100000000, 0x7FFFFFFFFFFFFFFF, 0x8000000000000000, 0xFFFFFFFFFFFFFFFF, 0x0102030405060708, 0xF1E2D3C4B5A69788}
	bits := []uint{8, 16, 24, 32, 64}
	for t := 0; t < 10; t++ {
		for _, x := range bounds {
			w := bits[t%5]
			// WriteUint24 takes a uint32 and truncates it: keep 32 bits there
			if t == 2 || t == 7 {
				w = 32
			}
			if w < 64 {
				x &= (1 << w) - 1
			}
			v := c19Tval{typ: t, u: x}
			if t >= 5 {
				v.i = int64(x<<(64-w)) >> (64 - w)
			}
			for o := int64(0); o < 2; o++ {
				mk(nil, append([]int64{12, o}, c19TvalArgs(v)...), fmt.Sprintf("type %d value %#x order %d", t, x, o))
			}
		}
	}
	n := 3000
	if tier == "thorough" {
		n = 200000
	}
	for i := 0; i < n; i++ {
		var init []byte
		if r.Chance(1, 4) {
			init = make([]byte, r.Intn(4))
			for j := range init {
				init[j] = byte(r.U64())
			}
		}
		var ops []int64
		for k := r.Intn(10); k >= 0; k-- {
			switch r.Intn(8) {
			case 0:
				ops = append(ops, 12, int64(r.Intn(2)))
			case 1:
				b := make([]byte, r.Intn(5))
				for j := range b {
					b[j] = byte(r.U64())
				}
				ops = append(ops, 11)
				ops = append(ops, bytesToArgs(b)...)
			default:
				v := c19RandTval(r)
				if (v.typ == 2 || v.typ == 7) && r.Chance(1, 3) {
					// a uint32/int32 that does not fit 24 bits is truncated by WriteUint24
					x := uint32(r.U64())
					v.u, v.i = uint64(x), int64(int32(x))
				}
				ops = append(ops, c19TvalArgs(v)...)
			}
		}
		mk(init, ops, "")
	}
}

var c19BinwriteModel = &Model{
	Name: "binwrite",
	Gen:  c19GenBinwrite,
	Impl: c19BinwriteImpl,
	Class: func(c Case, out []int64) string {
		return fmt.Sprintf("len<=%d", (len(out)/16+1)*16)
	},
}

// ---- bitmap models ---------------------------------------------------------------------------------

func c19EncBitReads(r *parse.BitmapReader, k int) []int64 {
	var out []int64
	for i := 0; i < k; i++ {
		bit := r.Read()
		out = append(out, c19B2i(bit), int64(r.Pos()), c19B2i(r.EOF()))
	}
	return out
}

func c19BitreadImpl(c Case) (out []int64) {
	k := int(c.Args[0])
	bv, _ := takeList(c.Args[1:])
	defer func() {
		if recover() != nil {
			out = []int64{-1}
		}
	}()
	return c19EncBitReads(parse.NewBitmapReader(toBytes(bv)), k)
}

func c19BitwriteImpl(c Case) (out []int64) {
	k := int(c.Args[0])
	iv, bits := takeList(c.Args[1:])
	defer func() {
		if recover() != nil {
			out = []int64{-1}
		}
	}()
	var w *parse.BitmapWriter
	if len(iv) == 0 && k%2 == 0 {
		w = parse.NewBitmapWriter(nil)
	} else {
		// a recycled buffer: spare capacity full of stale non-zero bytes (append must not expose them)
		dirty := bytes.Repeat([]byte{0xFF}, len(iv)+24)
		copy(dirty, toBytes(iv))
		w = parse.NewBitmapWriter(dirty[:len(iv)])
	}
	for _, b := range bits {
		w.Write(b != 0)
	}
	out = append([]int64{w.Len()}, c19BytesObs(w.Bytes())...)
	out = append(out, -2)
	return append(out, c19EncBitReads(parse.NewBitmapReader(w.Bytes()), k)...)
}

func c19GenBitread(r *Rng, tier string, emit func(Case)) {
	alpha := []byte{0x00, 0xFF, 0xA5, 0x01, 0x80}
	allStrings(alpha, 3, func(b []byte) {
		emit(Case{Fn: "bitread", Args: append([]int64{int64(8*len(b) + 3)}, bytesToArgs(b)...), Note: fmt.Sprintf("buf=%x", b)})
	})
	n := 2000
	if tier == "thorough" {
		n = 100000
	}
	for i := 0; i < n; i++ {
		b := make([]byte, r.Intn(9))
		for j := range b {
			b[j] = byte(r.U64())
		}
		k := r.Intn(8*len(b) + 6)
		emit(Case{Fn: "bitread", Args: append([]int64{int64(k)}, bytesToArgs(b)...), Note: fmt.Sprintf("k=%d buf=%x", k, b)})
	}
}

func c19GenBitwrite(r *Rng, tier string, emit func(Case)) {
	mk := func(k int, init []byte, bits []int64) {
		args := append([]int64{int64(k)}, bytesToArgs(init)...)
		args = append(args, bits...)
		emit(Case{Fn: "bitwrite", Args: args, Note: fmt.Sprintf("k=%d init=%x bits=%v", k, init, bits)})
	}
	// exhaustive: every bit string of length <= 10 written to an empty writer
	maxLen := 10
	if tier == "thorough" {
		maxLen = 16
	}
	for l := 0; l <= maxLen; l++ {
		for x := 0; x < 1<<uint(l); x++ {
			bits := make([]int64, l)
			for j := range bits {
				bits[j] = int64(x >> uint(j) & 1)
			}
			mk(l+10, nil, bits)
		}
	}
	n := 2000
	if tier == "thorough" {
		n = 100000
	}
	for i := 0; i < n; i++ {
		var init []byte
		if r.Chance(1, 3) {
			init = make([]byte, r.Intn(4))
			for j := range init {
				init[j] = byte(r.U64())
			}
		}
		bits := make([]int64, r.Intn(40))
		for j := range bits {
			bits[j] = int64(r.Intn(2))
		}
		mk(len(bits)+r.Intn(20), init, bits)
	}
}

var c19BitreadModel = &Model{Name: "bitread", Gen: c19GenBitread, Impl: c19BitreadImpl,
	Class: func(c Case, out []int64) string { return fmt.Sprintf("len=%d", c.Args[1]) }}
var c19BitwriteModel = &Model{Name: "bitwrite", Gen: c19GenBitwrite, Impl: c19BitwriteImpl,
	Class: func(c Case, out []int64) string {
		iv, bits := takeList(c.Args[1:])
		return fmt.Sprintf("init=%d/bits<=%d", len(iv), (len(bits)/8+1)*8)
	}}

func init() {
	props["C19"] = &PropSpec{
		Models:  []*Model{c19BinreadModel, c19BinwriteModel, c19BitreadModel, c19BitwriteModel},
		Oracles: []*Oracle{{Name: "c19-property", Run: c19Oracle}},
	}
}
