package main

import (
	"bytes"
	"fmt"
	"math"
	"math/big"
	gostrconv "strconv"
	"unicode/utf8"

	"github.com/tdewolff/parse/v2/strconv"
)

// ---- C14: strconv (int.go, number.go, decimal.go, float.go) -----------------------------------

func c14U64halves(x uint64) (int64, int64) { return int64(x >> 32), int64(x & 0xFFFFFFFF) }

// c14EncBytesOrPanic runs f and encodes its result like Strconv/Harness.v enc_bytes.
func c14EncBytesOrPanic(f func() []byte) []int64 {
	var res []byte
	if p := catch(func() { res = f() }); p != nil {
		return []int64{-1}
	}
	return bytesToArgs(res)
}

// c14WithSpare returns a slice with contents b whose backing array continues with spare (cap = len(b)+len(spare)).
func c14WithSpare(b, spare []byte) []byte {
	arr := make([]byte, len(b)+len(spare))
	copy(arr, b)
	copy(arr[len(b):], spare)
	return arr[:len(b):len(arr)]
}

// ---- generators shared by the correspondence models and the oracles -----------------------------

var c14IntAlphabet = []byte{'+', '-', '0', '1', '9', 'a', '.'}

var c14IntBoundary = []string{
	"9223372036854775807", "9223372036854775808", "9223372036854775809", "9223372036854775806",
	"9223372036854775799", "9223372036854775800", "9223372036854775810", "922337203685477580", "922337203685477581",
	"18446744073709551615", "18446744073709551616", "18446744073709551614", "18446744073709551609", "18446744073709551610",
	"1844674407370955161", "1844674407370955162", "18446744073709551620", "184467440737095516150", "99999999999999999999",
	"9999999999999999999", "10000000000000000000", "999999999999999999", "1000000000000000000",
	"27670116110564327424", "36893488147419103232", "92233720368547758070", "92233720368547758080",
}

// c14GenIntString produces a numeric byte string directed at the 64-bit limits.
func c14GenIntString(r *Rng) []byte {
	var b []byte
	switch r.Intn(8) {
	case 0, 1: // boundary constant, possibly perturbed in one digit
		s := []byte(r.PickStr(c14IntBoundary))
		if r.Chance(1, 3) {
			k := r.Intn(len(s))
			s[k] = byte('0' + r.Intn(10))
		}
		b = s
	case 2: // random digits, 17..22 long
		n := 17 + r.Intn(6)
		for i := 0; i < n; i++ {
			b = append(b, byte('0'+r.Intn(10)))
		}
	case 3: // random uint64 value printed
		b = []byte(gostrconv.FormatUint(r.U64()>>uint(r.Intn(64)), 10))
	case 4: // near a power of two
		v := uint64(1) << uint(r.Intn(64))
		v += uint64(r.Intn(5)) - 2
		b = []byte(gostrconv.FormatUint(v, 10))
	default: // short
		n := r.Intn(6)
		for i := 0; i < n; i++ {
			b = append(b, byte('0'+r.Intn(10)))
		}
	}
	if r.Chance(1, 3) { // leading zeros
		z := bytes.Repeat([]byte{'0'}, 1+r.Intn(25))
		b = append(z, b...)
	}
	switch r.Intn(6) {
	case 0:
		b = append([]byte{'+'}, b...)
	case 1, 2:
		b = append([]byte{'-'}, b...)
	}
	switch r.Intn(8) { // tails and malformations
	case 0:
		b = append(b, 'a')
	case 1:
		b = append(b, '.', byte('0'+r.Intn(10)))
	case 2:
		b = append(b, byte(r.Intn(256)))
	case 3:
		if len(b) > 0 {
			k := r.Intn(len(b))
			b[k] = []byte{'-', '+', ' ', 0, '/', ':', 'e', 0xFF}[r.Intn(8)]
		}
	case 4:
		if len(b) > 0 {
			k := r.Intn(len(b))
			b = append(b[:k], b[k+1:]...)
		}
	}
	return b
}

var c14IntValues = func() []int64 {
	v := []int64{0, 1, -1, 9, 10, -9, -10, math.MaxInt64, math.MinInt64, math.MaxInt64 - 1, math.MinInt64 + 1}
	p := int64(1)
	for k := 0; k < 19; k++ {
		v = append(v, p, p-1, p+1, -p, -p+1, -p-1)
		if k < 18 {
			p *= 10
		}
	}
	for k := uint(0); k < 63; k++ {
		v = append(v, int64(1)<<k, -(int64(1) << k), int64(1)<<k-1)
	}
	return v
}()

func c14GenInt64(r *Rng) int64 {
	switch r.Intn(4) {
	case 0:
		return c14IntValues[r.Intn(len(c14IntValues))]
	case 1:
		return int64(r.U64())
	default:
		v := int64(r.U64() >> uint(1+r.Intn(63)))
		if r.Bool() {
			v = -v
		}
		return v
	}
}

func c14GenPrefixSpare(r *Rng) ([]byte, []byte) {
	var b, sp []byte
	if r.Chance(1, 2) {
		for i, n := 0, r.Intn(4); i < n; i++ {
			b = append(b, byte(1+r.Intn(255)))
		}
	}
	if r.Chance(1, 2) {
		for i, n := 0, r.Intn(40); i < n; i++ {
			sp = append(sp, byte(1+r.Intn(255)))
		}
	}
	return b, sp
}

// symbols for ParseNumber / AppendNumber: 1-4 byte runes, invalid runes, digits and '-'
var c14Runes = []rune{'.', ',', ' ', '\'', '_', 0xA0, 0x2009, 0x202F, 0x66C, 0x7FF, 0x800, 0xFFFD, 0xFFFF, 0x10000, 0x10FFFF, 0x1F600, 0, 0x7F, 0x80}
var c14BadRunes = []rune{-1, 0xD800, 0xDFFF, 0x110000, math.MaxInt32, math.MinInt32, '0', '9', '-', '5'}

func c14GenRune(r *Rng, bad bool) rune {
	if bad && r.Chance(1, 6) {
		return c14BadRunes[r.Intn(len(c14BadRunes))]
	}
	if r.Chance(1, 8) {
		return rune(r.Intn(0x110000))
	}
	return c14Runes[r.Intn(len(c14Runes))]
}

// ---- correspondence models -----------------------------------------------------------------------------

func c14BytesCase(fn string, b []byte, pre ...int64) Case {
	args := append([]int64{}, pre...)
	args = append(args, bytesToArgs(b)...)
	return Case{Fn: fn, Args: args, Note: fmt.Sprintf("%s %v %q", fn, pre, b)}
}

func c14ShrinkLastBytes(nfixed int) func(c Case) []Case {
	// the case is nfixed integers followed by one length-prefixed byte string (and possibly more lists, kept)
	return func(c Case) []Case {
		a := c.Args
		bv, rest := takeList(a[nfixed:])
		var out []Case
		for i := range bv {
			nb := append(append([]int64{}, bv[:i]...), bv[i+1:]...)
			args := append([]int64{}, a[:nfixed]...)
			args = append(args, int64(len(nb)))
			args = append(args, nb...)
			args = append(args, rest...)
			out = append(out, Case{Fn: c.Fn, Args: args, Note: fmt.Sprintf("%s %v %q", c.Fn, a[:nfixed], toBytes(nb))})
		}
		return out
	}
}

func c14LenClass(n int) string {
	switch {
	case n == 0:
		return "len0"
	case n <= 5:
		return "len1-5"
	case n <= 16:
		return "len6-16"
	case n <= 20:
		return "len17-20"
	}
	return "len21+"
}

var c14ScParseInt = &Model{
	Name: "sc_parseint",
	Gen: func(r *Rng, tier string, emit func(Case)) {
		k := 5
		n := 6000
		if tier == "thorough" {
			k, n = 7, 400000
		}
		allStrings(c14IntAlphabet, k, func(b []byte) { emit(c14BytesCase("sc_parseint", b)) })
		for _, s := range c14IntBoundary {
			for _, p := range []string{"", "+", "-", "-000", "00"} {
				emit(c14BytesCase("sc_parseint", []byte(p+s)))
				emit(c14BytesCase("sc_parseint", []byte(p+s+"0")))
				emit(c14BytesCase("sc_parseint", []byte(p+s+"x")))
			}
		}
		for i := 0; i < n; i++ {
			emit(c14BytesCase("sc_parseint", c14GenIntString(r)))
		}
	},
	Impl: func(c Case) []int64 {
		bv, _ := takeList(c.Args)
		v, n := strconv.ParseInt(toBytes(bv))
		return []int64{v, int64(n)}
	},
	Shrink: c14ShrinkLastBytes(0),
	Class: func(c Case, out []int64) string {
		s := c14LenClass(int(c.Args[0]))
		if len(out) == 2 && out[1] == 0 {
			return s + "/zero"
		}
		return s + "/ok"
	},
}

var c14ScParseUint = &Model{
	Name: "sc_parseuint",
	Gen: func(r *Rng, tier string, emit func(Case)) {
		k := 4
		n := 5000
		if tier == "thorough" {
			k, n = 6, 400000
		}
		allStrings(c14IntAlphabet, k, func(b []byte) { emit(c14BytesCase("sc_parseuint", b)) })
		for _, s := range c14IntBoundary {
			for _, p := range []string{"", "+", "000"} {
				emit(c14BytesCase("sc_parseuint", []byte(p+s)))
				emit(c14BytesCase("sc_parseuint", []byte(p+s+"0")))
				emit(c14BytesCase("sc_parseuint", []byte(p+s+"x")))
			}
		}
		for i := 0; i < n; i++ {
			emit(c14BytesCase("sc_parseuint", c14GenIntString(r)))
		}
	},
	Impl: func(c Case) []int64 {
		bv, _ := takeList(c.Args)
		v, n := strconv.ParseUint(toBytes(bv))
		hi, lo := c14U64halves(v)
		return []int64{hi, lo, int64(n)}
	},
	Shrink: c14ShrinkLastBytes(0),
	Class: func(c Case, out []int64) string {
		s := c14LenClass(int(c.Args[0]))
		if len(out) == 3 && out[2] == 0 {
			return s + "/zero"
		}
		return s + "/ok"
	},
}

var c14ScLenUint = &Model{
	Name: "sc_lenuint",
	Gen: func(r *Rng, tier string, emit func(Case)) {
		mk := func(v uint64) {
			hi, lo := c14U64halves(v)
			emit(Case{Fn: "sc_lenuint", Args: []int64{hi, lo}, Note: fmt.Sprintf("LenUint(%d)", v)})
		}
		p := uint64(1)
		for k := 0; k < 20; k++ {
			mk(p)
			mk(p - 1)
			mk(p + 1)
			if k < 19 {
				p *= 10
			}
		}
		mk(math.MaxUint64)
		mk(math.MaxUint64 - 1)
		mk(0)
		n := 500
		if tier == "thorough" {
			n = 50000
		}
		for i := 0; i < n; i++ {
			mk(r.U64() >> uint(r.Intn(64)))
		}
	},
	Impl: func(c Case) []int64 {
		return []int64{int64(strconv.LenUint(uint64(c.Args[0])<<32 | uint64(c.Args[1])))}
	},
	Class: func(c Case, out []int64) string { return fmt.Sprintf("digits%02d", out[0]) },
}

func c14AppendIntCase(num int64, b, sp []byte) Case {
	args := []int64{num}
	args = append(args, bytesToArgs(b)...)
	args = append(args, bytesToArgs(sp)...)
	return Case{Fn: "sc_appendint", Args: args, Note: fmt.Sprintf("AppendInt(%q cap+%d, %d)", b, len(sp), num)}
}

var c14ScAppendInt = &Model{
	Name: "sc_appendint",
	Gen: func(r *Rng, tier string, emit func(Case)) {
		for _, v := range c14IntValues {
			emit(c14AppendIntCase(v, nil, nil))
			b, sp := c14GenPrefixSpare(r)
			emit(c14AppendIntCase(v, b, sp))
		}
		for v := int64(-1100); v <= 1100; v++ {
			emit(c14AppendIntCase(v, nil, nil))
		}
		n := 3000
		if tier == "thorough" {
			n = 300000
		}
		for i := 0; i < n; i++ {
			b, sp := c14GenPrefixSpare(r)
			emit(c14AppendIntCase(c14GenInt64(r), b, sp))
		}
	},
	Impl: func(c Case) []int64 {
		num := c.Args[0]
		bv, rest := takeList(c.Args[1:])
		sv, _ := takeList(rest)
		out := []int64{int64(strconv.LenInt(num))}
		return append(out, c14EncBytesOrPanic(func() []byte { return strconv.AppendInt(c14WithSpare(toBytes(bv), toBytes(sv)), num) })...)
	},
	Class: func(c Case, out []int64) string {
		s := fmt.Sprintf("len%02d", out[0])
		if c.Args[0] < 0 {
			s += "/neg"
		}
		return s
	},
}

func c14GenNumberString(r *Rng, gs, ds rune) []byte {
	var b []byte
	if r.Chance(1, 3) {
		b = append(b, '-')
	}
	parts := 1 + r.Intn(6)
	for p := 0; p < parts; p++ {
		switch r.Intn(10) {
		case 0, 1, 2, 3:
			for i, n := 0, 1+r.Intn(7); i < n; i++ {
				b = append(b, byte('0'+r.Intn(10)))
			}
		case 4:
			b = append(b, []byte(r.PickStr(c14IntBoundary))...)
		case 5, 6:
			b = utf8.AppendRune(b, gs)
		case 7:
			b = utf8.AppendRune(b, ds)
		case 8:
			b = append(b, []byte{0x80, 0xFF, 0xC3, 0xE2, 0x82, 0xF0, 0x9F, 'a', '-', '+', 0, ' '}[r.Intn(12)])
		case 9:
			b = utf8.AppendRune(b, c14GenRune(r, false))
		}
	}
	if r.Chance(1, 6) && len(b) > 0 { // truncate inside a multi-byte symbol
		b = b[:len(b)-1]
	}
	return b
}

var c14ScParseNumber = &Model{
	Name: "sc_parsenumber",
	Gen: func(r *Rng, tier string, emit func(Case)) {
		k := 4
		n := 6000
		if tier == "thorough" {
			k, n = 6, 400000
		}
		// exhaustive over a small alphabet with a 2-byte group symbol U+00A0 (C2 A0) and ',' as decimal symbol
		allStrings([]byte{'-', '0', '9', ',', 0xC2, 0xA0, 'x'}, k, func(b []byte) {
			emit(c14BytesCase("sc_parsenumber", b, 0xA0, ','))
		})
		for _, s := range c14IntBoundary {
			for _, p := range []string{"", "-", "-0", "0.", "-0,"} {
				emit(c14BytesCase("sc_parsenumber", []byte(p+s), '.', ','))
				emit(c14BytesCase("sc_parsenumber", []byte(p+s[:len(s)/2]+"."+s[len(s)/2:]), '.', ','))
				emit(c14BytesCase("sc_parsenumber", []byte(p+s[:len(s)/2]+","+s[len(s)/2:]+"1"), '.', ','))
			}
		}
		for i := 0; i < n; i++ {
			gs, ds := c14GenRune(r, true), c14GenRune(r, true)
			emit(c14BytesCase("sc_parsenumber", c14GenNumberString(r, gs, ds), int64(gs), int64(ds)))
		}
	},
	Impl: func(c Case) []int64 {
		bv, _ := takeList(c.Args[2:])
		var out []int64
		if p := catch(func() {
			num, dec, n := strconv.ParseNumber(toBytes(bv), rune(c.Args[0]), rune(c.Args[1]))
			out = []int64{num, int64(dec), int64(n)}
		}); p != nil {
			return []int64{-1}
		}
		return out
	},
	Shrink: c14ShrinkLastBytes(2),
	Class: func(c Case, out []int64) string {
		if len(out) != 3 {
			return "panic"
		}
		s := "dec0"
		if out[1] > 0 {
			s = "dec+"
		}
		if int(out[2]) == int(c.Args[2]) {
			return s + "/all"
		}
		return s + "/prefix"
	},
}

func c14AppendNumberCase(num int64, dec, gsize int, gs, ds rune, b, sp []byte) Case {
	args := []int64{num, int64(dec), int64(gsize), int64(gs), int64(ds)}
	args = append(args, bytesToArgs(b)...)
	args = append(args, bytesToArgs(sp)...)
	return Case{Fn: "sc_appendnumber", Args: args, Note: fmt.Sprintf("AppendNumber(%q cap+%d, %d, dec=%d, group=%d, %U, %U)", b, len(sp), num, dec, gsize, gs, ds)}
}

func c14GenNumberConfig(r *Rng, bad bool) (num int64, dec, gsize int, gs, ds rune) {
	num = c14GenInt64(r)
	dec = r.Intn(20)
	if r.Chance(1, 10) {
		dec = r.Intn(45) - 3
	}
	gsize = r.Intn(7)
	if bad && r.Chance(1, 12) {
		gsize = -1 - r.Intn(3)
	}
	gs = c14GenRune(r, bad)
	ds = c14GenRune(r, bad)
	for !bad && (ds == gs) {
		ds = c14GenRune(r, false)
	}
	return
}

var c14ScAppendNumber = &Model{
	Name: "sc_appendnumber",
	Gen: func(r *Rng, tier string, emit func(Case)) {
		// small scope: every digit count 1..8 x dec 0..9 x group size 0..4 x symbol widths
		for _, gs := range []rune{'.', 0xA0, 0x2009, 0x1F600, 0} {
			for _, ds := range []rune{',', 0x66C} {
				for gsize := 0; gsize <= 4; gsize++ {
					for dec := 0; dec <= 9; dec++ {
						p := int64(1)
						for k := 0; k < 8; k++ {
							emit(c14AppendNumberCase(p*7+3, dec, gsize, gs, ds, nil, nil))
							emit(c14AppendNumberCase(-(p*7 + 3), dec, gsize, gs, ds, nil, nil))
							p *= 10
						}
						emit(c14AppendNumberCase(0, dec, gsize, gs, ds, nil, nil))
					}
				}
			}
		}
		n := 4000
		if tier == "thorough" {
			n = 300000
		}
		for i := 0; i < n; i++ {
			num, dec, gsize, gs, ds := c14GenNumberConfig(r, true)
			b, sp := c14GenPrefixSpare(r)
			emit(c14AppendNumberCase(num, dec, gsize, gs, ds, b, sp))
		}
	},
	Impl: func(c Case) []int64 {
		a := c.Args
		bv, rest := takeList(a[5:])
		sv, _ := takeList(rest)
		return c14EncBytesOrPanic(func() []byte {
			return strconv.AppendNumber(c14WithSpare(toBytes(bv), toBytes(sv)), a[0], int(a[1]), int(a[2]), rune(a[3]), rune(a[4]))
		})
	},
	Class: func(c Case, out []int64) string {
		if len(out) == 1 && out[0] < 0 {
			return "panic"
		}
		g := "group0"
		if c.Args[2] > 0 {
			g = "group+"
		} else if c.Args[2] < 0 {
			g = "group-"
		}
		return fmt.Sprintf("gs%d/ds%d/%s", utf8.RuneLen(rune(c.Args[3])), utf8.RuneLen(rune(c.Args[4])), g)
	},
}

// ---- oracles: the property text checked on the implementation, against the standard library ---------------

// longest prefix of [+-]?[0-9]+ (signed) or [0-9]+; 0 if there is no digit
func c14IntPrefix(b []byte, signed bool) int {
	i := 0
	if signed && len(b) > 0 && (b[0] == '+' || b[0] == '-') {
		i = 1
	}
	s := i
	for i < len(b) && '0' <= b[i] && b[i] <= '9' {
		i++
	}
	if i == s {
		return 0
	}
	return i
}

func c14IntOracle(r *Rng, tier string, rep *Report) {
	checkInt := func(b []byte) {
		v, n := strconv.ParseInt(b)
		k := c14IntPrefix(b, true)
		var wv int64
		wn := 0
		if k > 0 {
			if x, err := gostrconv.ParseInt(string(b[:k]), 10, 64); err == nil {
				wv, wn = x, k
			}
		}
		if v != wv || n != wn {
			rep.Violate(fmt.Sprintf("ParseInt:%q", b), fmt.Sprintf("ParseInt(%q) = (%d,%d), the longest [+-]digits prefix has value/length (%d,%d) by the standard library", b, v, n, wv, wn),
				map[string]interface{}{"fn": "ParseInt", "input": hx(b)})
		}
		rep.Eval("i:"+string(b), k > 0, "ParseInt/"+c14LenClass(len(b)))
	}
	checkUint := func(b []byte) {
		v, n := strconv.ParseUint(b)
		k := c14IntPrefix(b, false)
		var wv uint64
		wn := 0
		if k > 0 {
			if x, err := gostrconv.ParseUint(string(b[:k]), 10, 64); err == nil {
				wv, wn = x, k
			}
		}
		if v != wv || n != wn {
			rep.Violate(fmt.Sprintf("ParseUint:%q", b), fmt.Sprintf("ParseUint(%q) = (%d,%d), the longest digits prefix has value/length (%d,%d) by the standard library", b, v, n, wv, wn),
				map[string]interface{}{"fn": "ParseUint", "input": hx(b)})
		}
		rep.Eval("u:"+string(b), k > 0, "ParseUint/"+c14LenClass(len(b)))
	}
	checkAppend := func(num int64, pre, sp []byte) {
		want := gostrconv.AppendInt(append([]byte{}, pre...), num, 10)
		var got []byte
		p := catch(func() { got = strconv.AppendInt(c14WithSpare(pre, sp), num) })
		if p != nil || !bytes.Equal(got, want) {
			rep.Violate(fmt.Sprintf("AppendInt:%d:%x:%d", num, pre, len(sp)), fmt.Sprintf("AppendInt(%q cap+%d, %d) = %q (panic=%v), standard library %q", pre, len(sp), num, got, p, want),
				map[string]interface{}{"fn": "AppendInt", "num": num, "prefix": hx(pre), "spare": len(sp)})
		}
		if l := strconv.LenInt(num); l != len(want)-len(pre) {
			rep.Violate(fmt.Sprintf("LenInt:%d", num), fmt.Sprintf("LenInt(%d) = %d, standard library prints %d bytes", num, l, len(want)-len(pre)), map[string]interface{}{"fn": "LenInt", "num": num})
		}
		if num >= 0 {
			if l := strconv.LenUint(uint64(num)); l != len(want)-len(pre) {
				rep.Violate(fmt.Sprintf("LenUint:%d", num), fmt.Sprintf("LenUint(%d) = %d", num, l), map[string]interface{}{"fn": "LenUint", "num": num})
			}
		}
		rep.Eval(fmt.Sprintf("a:%d:%x:%d", num, pre, len(sp)), true, fmt.Sprintf("AppendInt/len%02d", len(want)-len(pre)))
	}
	k, n := 5, 40000
	if tier == "thorough" {
		k, n = 7, 2000000
	}
	allStrings(c14IntAlphabet, k, func(b []byte) { checkInt(b); checkUint(b) })
	for _, s := range c14IntBoundary {
		for _, p := range []string{"", "+", "-", "-000", "00"} {
			for _, t := range []string{"", "0", "x", "."} {
				checkInt([]byte(p + s + t))
				checkUint([]byte(p + s + t))
			}
		}
	}
	for i := 0; i < n; i++ {
		b := c14GenIntString(r)
		checkInt(b)
		checkUint(b)
	}
	for _, v := range c14IntValues {
		checkAppend(v, nil, nil)
		checkAppend(v, []byte("ab"), bytes.Repeat([]byte{'#'}, 30))
	}
	for v := int64(-20000); v <= 20000; v++ {
		checkAppend(v, nil, nil)
	}
	for i := 0; i < n; i++ {
		b, sp := c14GenPrefixSpare(r)
		checkAppend(c14GenInt64(r), b, sp)
	}
	for v := uint64(1); ; v *= 10 { // LenUint at every power of ten, also above MaxInt64
		for _, x := range []uint64{v - 1, v, v + 1} {
			if l := strconv.LenUint(x); l != len(gostrconv.FormatUint(x, 10)) {
				rep.Violate(fmt.Sprintf("LenUint:%d", x), fmt.Sprintf("LenUint(%d) = %d", x, l), map[string]interface{}{"fn": "LenUint", "num": fmt.Sprint(x)})
			}
			rep.Eval(fmt.Sprintf("lu:%d", x), true, "LenUint")
		}
		if v > math.MaxUint64/10 {
			break
		}
	}
}

// c14RefNumber renders num with dec decimals, groups of gsize separated by gs and decimal symbol ds,
// written from the documentation with math/big and string operations only.
func c14RefNumber(num int64, dec, gsize int, gs, ds rune) []byte {
	if dec < 0 {
		dec = 0
	}
	digits := new(big.Int).Abs(big.NewInt(num)).String()
	for len(digits) <= dec {
		digits = "0" + digits
	}
	ip, fp := digits[:len(digits)-dec], digits[len(digits)-dec:]
	var out []byte
	if num < 0 {
		out = append(out, '-')
	}
	for i := 0; i < len(ip); i++ {
		if i > 0 && gsize > 0 && gs != 0 && (len(ip)-i)%gsize == 0 {
			out = utf8.AppendRune(out, gs)
		}
		out = append(out, ip[i])
	}
	if dec > 0 {
		out = utf8.AppendRune(out, ds)
		out = append(out, fp...)
	}
	return out
}

func c14BadSym(r rune) bool { return r == '-' || ('0' <= r && r <= '9') }

func c14NumberOracle(r *Rng, tier string, rep *Report) {
	check := func(num int64, dec, gsize int, gs, ds rune, pre, sp []byte) {
		key := fmt.Sprintf("number:%d:%d:%d:%U:%U", num, dec, gsize, gs, ds)
		rp := map[string]interface{}{"fn": "AppendNumber", "num": num, "dec": dec, "group": gsize, "groupSym": int(gs), "decSym": int(ds), "prefix": hx(pre), "spare": len(sp)}
		var out []byte
		if p := catch(func() { out = strconv.AppendNumber(c14WithSpare(pre, sp), num, dec, gsize, gs, ds) }); p != nil {
			rep.Violate(key, fmt.Sprintf("AppendNumber(%d, dec=%d, group=%d, %U, %U) panics: %v", num, dec, gsize, gs, ds, p), rp)
			return
		}
		if !bytes.HasPrefix(out, pre) {
			rep.Violate(key, fmt.Sprintf("AppendNumber(%q, %d, ...) = %q does not preserve the destination prefix", pre, num, out), rp)
			return
		}
		body := out[len(pre):]
		if want := c14RefNumber(num, dec, gsize, gs, ds); !bytes.Equal(body, want) {
			rep.Violate(key, fmt.Sprintf("AppendNumber(%d, dec=%d, group=%d, %U, %U) = %q, expected %q", num, dec, gsize, gs, ds, body, want), rp)
		}
		n2, d2, l2 := strconv.ParseNumber(body, gs, ds)
		if n2 != num || d2 != dec || l2 != len(body) {
			rep.Violate(key, fmt.Sprintf("ParseNumber(AppendNumber(%d, dec=%d, group=%d, %U, %U) = %q) = (%d,%d,%d), expected (%d,%d,%d)", num, dec, gsize, gs, ds, body, n2, d2, l2, num, dec, len(body)), rp)
		}
		rep.Eval(key, true, fmt.Sprintf("roundtrip/gs%d/ds%d", utf8.RuneLen(gs), utf8.RuneLen(ds)))
	}
	// the property's quantifier: int64 x decimals 0..18 x group size 0..6 x distinct symbols of 1-4 bytes (not digits, not '-')
	for _, gs := range []rune{'.', 0xA0, 0x2009, 0x1F600} {
		for _, ds := range []rune{',', 0x66C, 0x20AC, 0x10000} {
			for gsize := 0; gsize <= 6; gsize++ {
				for dec := 0; dec <= 18; dec++ {
					for _, v := range []int64{0, 5, -5, 123456, -123456, 1234567, 999999999, -1000000000, math.MaxInt64, math.MinInt64} {
						check(v, dec, gsize, gs, ds, nil, nil)
					}
				}
			}
		}
	}
	n := 40000
	if tier == "thorough" {
		n = 2000000
	}
	for i := 0; i < n; i++ {
		num, dec, gsize, gs, ds := c14GenNumberConfig(r, false)
		if dec > 18 || dec < 0 || utf8.RuneLen(gs) < 0 || utf8.RuneLen(ds) < 0 || gs == ds || c14BadSym(gs) || c14BadSym(ds) {
			continue
		}
		b, sp := c14GenPrefixSpare(r)
		check(num, dec, gsize, gs, ds, b, sp)
	}
}

func init() {
	props["C14"] = &PropSpec{
		Models: []*Model{c14ScParseInt, c14ScParseUint, c14ScLenUint, c14ScAppendInt, c14ScParseNumber, c14ScAppendNumber},
		Oracles: []*Oracle{
			{Name: "c14-int-stdlib", Run: c14IntOracle},
			{Name: "c14-number-roundtrip", Run: c14NumberOracle},
		},
	}
}

// ---- floats: correspondence models (bit-for-bit, math.Float64bits) -----------------------------------------

func c14CanonBits(f float64) uint64 {
	if f != f {
		return 0x7FF8000000000000
	}
	return math.Float64bits(f)
}

func c14FloatRes(f float64, n int) []int64 {
	hi, lo := c14U64halves(c14CanonBits(f))
	return []int64{hi, lo, int64(n)}
}

var c14FloatAlphabet = []byte{'-', '+', '0', '1', '9', '.', 'e'}

func c14DigitsN(r *Rng, n int) []byte {
	b := make([]byte, n)
	for i := range b {
		b[i] = byte('0' + r.Intn(10))
	}
	return b
}

// c14GenFloatString: [sign] digits [. digits] [e [sign] digits] directed at digit-count and exponent boundaries.
func c14GenFloatString(r *Rng) []byte {
	var b []byte
	switch r.Intn(6) {
	case 0:
		b = append(b, '-')
	case 1:
		b = append(b, '+')
	}
	mant := func() {
		ni := []int{0, 0, 1, 1, 2, 5, 15, 16, 17, 19, 20, 21, 25, 40}[r.Intn(14)]
		if r.Chance(1, 4) {
			ni = r.Intn(24)
		}
		ip := c14DigitsN(r, ni)
		if r.Chance(1, 4) {
			for i := 0; i < len(ip) && i < 1+r.Intn(6); i++ {
				ip[i] = '0'
			}
		}
		if r.Chance(1, 8) && ni > 0 {
			ip = []byte(r.PickStr(c14IntBoundary))
		}
		if r.Chance(1, 10) { // long run of zeros: large positive decimal exponent without 'e'
			ip = append(ip, bytes.Repeat([]byte{'0'}, []int{3, 22, 37, 300, 310, 330}[r.Intn(6)])...)
		}
		b = append(b, ip...)
		if r.Chance(3, 5) {
			b = append(b, '.')
			nf := []int{0, 1, 2, 3, 8, 15, 17, 18, 19, 20, 22, 30}[r.Intn(12)]
			fp := c14DigitsN(r, nf)
			if r.Chance(1, 5) { // many zeros after the dot: mantExp beyond Pow10's domain
				z := []int{1, 5, 22, 300, 308, 323, 324, 330, 400}[r.Intn(9)]
				fp = append(bytes.Repeat([]byte{'0'}, z), fp...)
			}
			b = append(b, fp...)
		}
	}
	mant()
	if r.Chance(1, 2) {
		if r.Bool() {
			b = append(b, 'e')
		} else {
			b = append(b, 'E')
		}
		switch r.Intn(4) {
		case 0:
			b = append(b, '-')
		case 1:
			b = append(b, '+')
		}
		var e int
		switch r.Intn(7) {
		case 0:
			e = r.Intn(45) // around 22 and 15+22
		case 1:
			e = 280 + r.Intn(60) // 280..339: around 308, 323
		case 2:
			e = r.Intn(400)
		case 3:
			e = []int{0, 1, 15, 21, 22, 23, 37, 38, 307, 308, 309, 310, 322, 323, 324, 325, 326, 400, 616, 617, 631, 632, 5000}[r.Intn(23)]
		case 4:
			b = append(b, []byte(r.PickStr(c14IntBoundary))...)
			e = -1
		case 5:
			if r.Bool() { // 19..25 exponent digits
				b = append(b, c14DigitsN(r, 19+r.Intn(7))...)
			}
			e = -1 // or no exponent digits
		default:
			e = r.Intn(30)
		}
		if e >= 0 {
			if r.Chance(1, 6) {
				b = append(b, '0', '0')
			}
			b = append(b, []byte(gostrconv.Itoa(e))...)
		}
	}
	switch r.Intn(10) { // tails / malformations
	case 0:
		b = append(b, '.')
	case 1:
		b = append(b, 'e', '5')
	case 2:
		b = append(b, byte(r.Intn(256)))
	case 3:
		if len(b) > 0 {
			b[r.Intn(len(b))] = []byte{'.', 'e', '-', '+', 'E', 'x', 0, ','}[r.Intn(8)]
		}
	case 4:
		if len(b) > 0 {
			k := r.Intn(len(b))
			b = append(b[:k], b[k+1:]...)
		}
	}
	return b
}

// genDecimalFromFloat: a decimal literal that is the shortest or a long rendering of a random double.
func c14GenFloatLiteral(r *Rng) []byte {
	f := c14GenFloat64(r)
	if math.IsNaN(f) || math.IsInf(f, 0) {
		f = 1.5
	}
	switch r.Intn(4) {
	case 0:
		return []byte(gostrconv.FormatFloat(f, 'e', -1, 64))
	case 1:
		return []byte(gostrconv.FormatFloat(f, 'e', 5+r.Intn(25), 64))
	case 2:
		if math.Abs(f) < 1e40 && math.Abs(f) > 1e-40 {
			return []byte(gostrconv.FormatFloat(f, 'f', -1, 64))
		}
		return []byte(gostrconv.FormatFloat(f, 'g', -1, 64))
	default:
		if math.Abs(f) < 1e25 {
			return []byte(gostrconv.FormatFloat(f, 'f', r.Intn(30), 64))
		}
		return []byte(gostrconv.FormatFloat(f, 'g', 17, 64))
	}
}

var c14FloatValues = func() []float64 {
	v := []float64{0, math.Copysign(0, -1), 1, -1, 0.5, -0.5, 0.1, -0.096, 0.096, 1e-300, 1e-291, 1e-292, 1e300, math.MaxFloat64, -math.MaxFloat64,
		math.SmallestNonzeroFloat64, -math.SmallestNonzeroFloat64, 2.2250738585072014e-308, 2.225073858507201e-308, math.NaN(), math.Inf(1), math.Inf(-1),
		9007199254740992, 9007199254740993, 9007199254740991, 9.223372036854775e18, 9.223372036854776e18, -9.223372036854776e18, 1e17, 1e18, 1e19, 123456789.125,
		0.285, 1.005, 2.5, 0.125, 0.375, 1e-5, 1e-4, 1e-3, 0.00099, 999.9995, 0.9995, 99999.5, 4.35, 0.045, 1e15, 1e16, 1e-7, 1e21, 1e22, 1e23,
		100, 1000, 10000, 1200, 120000, 1e6, 1.5e6, 12345678, 0.001234, 0.0001234, 0.00001234, 5e-324, 1.7976931348623157e308, 4.9e-324, 1e-323, 1e-310, 3e-320}
	for k := -325; k <= 310; k += 1 {
		f, _ := gostrconv.ParseFloat(fmt.Sprintf("1e%d", k), 64)
		v = append(v, f)
	}
	return v
}()

func c14GenFloat64(r *Rng) float64 {
	switch r.Intn(10) {
	case 0, 1:
		f := c14FloatValues[r.Intn(len(c14FloatValues))]
		switch r.Intn(4) {
		case 0:
			return math.Nextafter(f, math.Inf(1))
		case 1:
			return math.Nextafter(f, math.Inf(-1))
		case 2:
			return -f
		}
		return f
	case 2: // random bits
		return math.Float64frombits(r.U64())
	case 3: // few decimal digits: d * 10^k
		d := float64(r.Intn(100000))
		k := r.Intn(25) - 12
		f := d * math.Pow10(k)
		if k < 0 {
			f = d / math.Pow10(-k)
		}
		if r.Bool() {
			f = -f
		}
		return f
	case 4: // integers around powers of two up to 2^66
		k := uint(r.Intn(67))
		f := math.Ldexp(1, int(k)) + float64(r.Intn(5)-2)
		if r.Bool() {
			f = -f
		}
		return f
	case 5: // ties for AppendDecimal: (2m+1)/2 * 10^-dec
		m := float64(2*r.Intn(100000) + 1)
		f := m / 2 / math.Pow10(r.Intn(8))
		if r.Bool() {
			f = -f
		}
		return f
	case 6: // subnormals
		return math.Float64frombits(r.U64() >> uint(12+r.Intn(52)))
	default: // random mantissa, exponent in a window
		e := r.Intn(140) - 70
		if r.Chance(1, 4) {
			e = r.Intn(2098) - 1074
		}
		f := math.Ldexp(1+float64(r.U64()>>11)/float64(uint64(1)<<53), e)
		if r.Bool() {
			f = -f
		}
		return f
	}
}

func c14FloatCase(fn string, f float64, p int, b, sp []byte) Case {
	hi, lo := c14U64halves(math.Float64bits(f))
	args := []int64{hi, lo, int64(p)}
	args = append(args, bytesToArgs(b)...)
	args = append(args, bytesToArgs(sp)...)
	return Case{Fn: fn, Args: args, Note: fmt.Sprintf("%s(%q cap+%d, %v [%#x], %d)", fn, b, len(sp), f, math.Float64bits(f), p)}
}

func c14CaseFloat(c Case) float64 {
	return math.Float64frombits(uint64(c.Args[0])<<32 | uint64(c.Args[1]))
}

func c14ParseFloatGen(fn string) func(r *Rng, tier string, emit func(Case)) {
	return func(r *Rng, tier string, emit func(Case)) {
		k, n := 5, 9000
		if tier == "thorough" {
			k, n = 7, 500000
		}
		allStrings(c14FloatAlphabet, k, func(b []byte) { emit(c14BytesCase(fn, b)) })
		for _, s := range []string{"", "-", ".", "-.", "+.", "e", "1e", "1e+", "1e-", "1.e1", ".e1", "1..2", "1.2.3", "-0", "-0.0", "0e400", "1e400", "1e-400",
			"18446744073709551615", "18446744073709551616", "1844674407370955161.5", "184467440737095516150", "0.18446744073709551616", "18446744073709551616e-5",
			"1e22", "1e23", "1e37", "1e38", "1000000000000000e22", "1000000000000001e22", "9007199254740993", "1e-22", "1e-23", "123456789012345678e-22",
			"1e308", "1e309", "1.797693134862315708e+308", "1.7976931348623157e308", "17976931348623157e292", "1e-323", "1e-324", "2e-324", "3e-324", "1e-308", "2.2250738585072014e-308", "4.9e-324", "17976931348623157e292", "17976931348623159e292",
			"1e9223372036854775807", "1e-9223372036854775808", "1e9223372036854775808", "0.000001e9223372036854775807", "1000000e-9223372036854775808",
			"8.25e-9223372036854775807", "22915023670756279951e9223372036854775807", "1e99999999999999999999", "1e-99999999999999999999", "1e+18446744073709551616",
			"1e1000000000000000000000000", "1.5e-1000000000000000000000000", "0e99999999999999999999", "0.0e-99999999999999999999", "1e999999999999999", "1e1000000000000000",
			"1e1000000000000001", "1e-999999999999999", "1e-1000000000000000", "12.5e9999999999999999", "1e0000000000000000000000000000000000012", "1E-0000000000000000000000003",
			"1e99999999999999999999x", "1e9999999999999999999.5", "1e-", "1e+", "1e+x"} {
			emit(c14BytesCase(fn, []byte(s)))
			emit(c14BytesCase(fn, []byte("-"+s)))
		}
		// mantissas at the uint64 truncation boundary (MaxUint64/10 = 1844674407370955161), every next digit, dot at every place
		for _, m := range []string{"1844674407370955161", "1844674407370955160", "1844674407370955162", "922337203685477580", "900719925474099", "1000000000000000", "999999999999999"} {
			for d := 0; d <= 9; d++ {
				full := m + gostrconv.Itoa(d)
				for _, suf := range []string{"", "7", "e3", "e-3", "e22", "e-22", "e23", "00e-5"} {
					emit(c14BytesCase(fn, []byte(full+suf)))
				}
				for k := 0; k <= len(full); k += 3 {
					emit(c14BytesCase(fn, []byte(full[:k]+"."+full[k:])))
					emit(c14BytesCase(fn, []byte("-"+full[:k]+"."+full[k:]+"5e10")))
				}
			}
		}
		for _, z := range []int{300, 307, 308, 309, 322, 323, 324, 325, 400} {
			zs := string(bytes.Repeat([]byte{'0'}, z))
			emit(c14BytesCase(fn, []byte("0."+zs+"1")))
			emit(c14BytesCase(fn, []byte("0."+zs+"1e400")))
			emit(c14BytesCase(fn, []byte("0."+zs+"1e"+gostrconv.Itoa(z))))
			emit(c14BytesCase(fn, []byte("1"+zs)))
			emit(c14BytesCase(fn, []byte("1"+zs+"e-"+gostrconv.Itoa(z))))
			emit(c14BytesCase(fn, []byte("1"+zs+"e-400")))
		}
		for i := 0; i < n; i++ {
			if i%4 == 3 {
				emit(c14BytesCase(fn, c14GenFloatLiteral(r)))
			} else {
				emit(c14BytesCase(fn, c14GenFloatString(r)))
			}
		}
	}
}

func c14FloatResClass(c Case, out []int64) string {
	if len(out) != 3 {
		return "panic"
	}
	f := math.Float64frombits(uint64(out[0])<<32 | uint64(out[1]))
	s := "normal"
	switch {
	case f != f:
		s = "nan"
	case math.IsInf(f, 0):
		s = "inf"
	case f == 0:
		s = "zero"
	case math.Abs(f) < 2.2250738585072014e-308:
		s = "subnormal"
	}
	if out[2] == 0 {
		return s + "/len0"
	}
	if int(out[2]) == int(c.Args[0]) {
		return s + "/all"
	}
	return s + "/prefix"
}

var c14ScParseFloat = &Model{
	Name: "sc_parsefloat",
	Gen:  c14ParseFloatGen("sc_parsefloat"),
	Impl: func(c Case) []int64 {
		bv, _ := takeList(c.Args)
		var out []int64
		if p := catch(func() { f, n := strconv.ParseFloat(toBytes(bv)); out = c14FloatRes(f, n) }); p != nil {
			return []int64{-1}
		}
		return out
	},
	Shrink: c14ShrinkLastBytes(0),
	Class:  c14FloatResClass,
}

var c14ScParseDecimal = &Model{
	Name: "sc_parsedecimal",
	Gen:  c14ParseFloatGen("sc_parsedecimal"),
	Impl: func(c Case) []int64 {
		bv, _ := takeList(c.Args)
		var out []int64
		if p := catch(func() { f, n := strconv.ParseDecimal(toBytes(bv)); out = c14FloatRes(f, n) }); p != nil {
			return []int64{-1}
		}
		return out
	},
	Shrink: c14ShrinkLastBytes(0),
	Class:  c14FloatResClass,
}

// c14BigDecimalCases: (f, dec) with |f|*10^dec at or beyond the int64 range (AppendDecimal's standard-library branch),
// ordinary values with dec = -1 / 17, the threshold 9e18 and 2^63 for every dec, and exact ties of the half-even rounding.
func c14BigDecimalCases(emit func(f float64, dec int)) {
	for _, f := range []float64{123.456, -123.456, 90, 89.99999999999999, 90.00000000000001, 92.23372036854775, 92.23372036854776, 92.23372036854777, 100, 1234.5, 1e6, 0.5, 1e300, -1e300, 9.3e18, 9.2e18, 9e18, 8.999999999999999e18, math.MaxFloat64, 1 << 53, 1<<53 + 2} {
		for _, d := range []int{-1, 0, 1, 5, 15, 16, 17, 18} {
			emit(f, d)
		}
	}
	for d := 0; d <= 17; d++ {
		for _, t := range []float64{9e18, 9223372036854775808.0} {
			f := t / math.Pow10(d)
			for k := 0; k < 3; k++ {
				emit(f, d)
				emit(-f, d)
				emit(math.Nextafter(f, 0), d)
				f = math.Nextafter(f, math.Inf(1))
			}
		}
	}
	for k := 7; k <= 17; k++ { // fraction with k binary digits ends in ...5 at decimal k: a tie at dec = k-1
		for j := 0; j < 6; j++ {
			ip := math.Ldexp(1, 52-k) + float64(j)
			f := ip + float64(2*j+1)/math.Ldexp(1, k)
			emit(f, k-1)
			emit(-f, k-1)
			emit(f, k-2)
			emit(f, k)
		}
	}
}

// c14HundredsCases: 100 <= |f| < 1000 with prec 0..2 (the "d.d" + exponent 2 layout repaired by bb4d2f1), both signs,
// empty destination and destinations ending in '.'.
func c14HundredsCases(emit func(f float64, prec int, pre []byte)) {
	vals := []float64{100, 101, 109, 110, 111, 119, 120, 123, 125, 150, 155, 199, 200, 250, 499, 500, 511, 512, 513, 550, 599.5, 600, 900, 909, 990, 998, 999, 999.4, 999.9995, 123.456, 100.5, 101.99}
	for _, f := range vals {
		for p := 0; p <= 2; p++ {
			for _, pre := range [][]byte{nil, []byte("."), []byte("1."), []byte("x..")} {
				emit(f, p, pre)
				emit(-f, p, pre)
			}
		}
	}
	for k := 100; k < 1000; k += 7 {
		emit(float64(k), 1, []byte("."))
		emit(-float64(k)-0.25, 2, []byte("0."))
	}
}

// c14OverestimateCases: for every decade 10^m the floats in [2^n, 10^m) (n = floor(m*log2(10))) where float64exp's
// estimate is one too large (repaired by 4092954): both ends, the middle, and the power of ten itself.
func c14OverestimateCases(emit func(f float64)) {
	for m := -307; m <= 308; m++ {
		p10, _ := gostrconv.ParseFloat(fmt.Sprintf("1e%d", m), 64)
		n := int(math.Floor(float64(m) * math.Log2(10)))
		lo := math.Ldexp(1, n)
		if lo >= p10 {
			lo = math.Ldexp(1, n-1)
		}
		emit(lo)
		emit(math.Nextafter(p10, 0))
		emit((lo + p10) / 2)
		emit(p10)
		emit(math.Nextafter(lo, 0))
	}
}

func c14AppendFloatGen(fn string, lo, hi int) func(r *Rng, tier string, emit func(Case)) {
	return func(r *Rng, tier string, emit func(Case)) {
		if fn == "sc_appendfloat" {
			c14HundredsCases(func(f float64, p int, pre []byte) { emit(c14FloatCase(fn, f, p, pre, bytes.Repeat([]byte{'.'}, 12))) })
			k := 0
			c14OverestimateCases(func(f float64) {
				for _, p := range []int{0, 1, 2, 16, 17, 3 + k%13} {
					emit(c14FloatCase(fn, f, p, nil, nil))
				}
				emit(c14FloatCase(fn, -f, k%19-1, []byte("x."), nil))
				k++
			})
		}
		c14BigDecimalCases(func(f float64, dec int) { emit(c14FloatCase(fn, f, dec, nil, nil)) })
		for i, f := range c14FloatValues {
			if fn == "sc_appenddecimal" && math.Abs(f) >= 1e25 && !math.IsInf(f, 0) {
				// hundreds of digits through the model's exact decimal expansion: a thinner sample
				emit(c14FloatCase(fn, f, i%3*9-1, nil, nil))
				if i%16 == 0 {
					emit(c14FloatCase(fn, -f, 17, []byte("x"), bytes.Repeat([]byte{'#'}, 30)))
				}
				continue
			}
			for p := lo; p <= hi; p++ {
				emit(c14FloatCase(fn, f, p, nil, nil))
			}
			emit(c14FloatCase(fn, -f, lo+r.Intn(hi-lo+1), []byte("x"), bytes.Repeat([]byte{'#'}, 30)))
		}
		// small scope: every k/1000 for |k| <= 1100 and every precision 0..4
		for k := -1100; k <= 1100; k++ {
			for p := 0; p <= 4; p++ {
				emit(c14FloatCase(fn, float64(k)/1000, p, nil, nil))
			}
		}
		n := 6000
		if tier == "thorough" {
			n = 400000
		}
		for i := 0; i < n; i++ {
			b, sp := c14GenPrefixSpare(r)
			emit(c14FloatCase(fn, c14GenFloat64(r), lo+r.Intn(hi-lo+1), b, sp))
		}
	}
}

func c14AppendResClass(c Case, out []int64) string {
	if len(out) == 1 && out[0] < 0 {
		return "panic"
	}
	f := c14CaseFloat(c)
	s := "normal"
	switch {
	case f != f || math.IsInf(f, 0):
		s = "naninf"
	case f == 0:
		s = "zero"
	case math.Abs(f) < 2.2250738585072014e-308:
		s = "subnormal"
	case math.Abs(f) >= 9.3e18:
		s = "huge"
	case math.Abs(f) < 1e-5:
		s = "tiny"
	}
	body := toBytes(out[1:])
	if bytes.IndexByte(body, 'e') >= 0 {
		s += "/exp"
	} else if bytes.IndexByte(body, '.') >= 0 {
		s += "/dot"
	} else {
		s += "/int"
	}
	return s
}

var c14ScAppendDecimal = &Model{
	Name: "sc_appenddecimal",
	Gen:  c14AppendFloatGen("sc_appenddecimal", -1, 19),
	Impl: func(c Case) []int64 {
		bv, rest := takeList(c.Args[3:])
		sv, _ := takeList(rest)
		return c14EncBytesOrPanic(func() []byte {
			return strconv.AppendDecimal(c14WithSpare(toBytes(bv), toBytes(sv)), c14CaseFloat(c), int(c.Args[2]))
		})
	},
	Class: c14AppendResClass,
}

var c14ScAppendFloat = &Model{
	Name: "sc_appendfloat",
	Gen:  c14AppendFloatGen("sc_appendfloat", -1, 19),
	Impl: func(c Case) []int64 {
		bv, rest := takeList(c.Args[3:])
		sv, _ := takeList(rest)
		return c14EncBytesOrPanic(func() []byte {
			return strconv.AppendFloat(c14WithSpare(toBytes(bv), toBytes(sv)), c14CaseFloat(c), int(c.Args[2]))
		})
	},
	Class: c14AppendResClass,
}

var c14ScFloat64exp = &Model{
	Name: "sc_float64exp",
	Gen: func(r *Rng, tier string, emit func(Case)) {
		mk := func(f float64) {
			if f != f || math.IsInf(f, 0) {
				return
			}
			hi, lo := c14U64halves(math.Float64bits(f))
			emit(Case{Fn: "sc_float64exp", Args: []int64{hi, lo}, Note: fmt.Sprintf("float64exp(%v)", f)})
		}
		for _, f := range c14FloatValues {
			mk(math.Abs(f))
		}
		for e := -1074; e <= 1023; e++ {
			mk(math.Ldexp(1, e))
			mk(math.Nextafter(math.Ldexp(1, e), 0))
		}
		n := 500
		if tier == "thorough" {
			n = 50000
		}
		for i := 0; i < n; i++ {
			mk(math.Abs(c14GenFloat64(r)))
		}
	},
	Impl:  func(c Case) []int64 { return []int64{int64(strconv.VerifFloat64exp(c14CaseFloat(c)))} },
	Class: func(c Case, out []int64) string { return fmt.Sprintf("exp%+04d", out[0]/50*50) },
}

func init() {
	p := props["C14"]
	p.Models = append(p.Models, c14ScParseFloat, c14ScParseDecimal, c14ScAppendDecimal, c14ScAppendFloat, c14ScFloat64exp)
}

// ---- float oracles: the property text against math/big and the standard library ------------------------------
//
// Violation keys are "<function>-<symptom>:<class>:<input>".  <class> names the independently computed
// condition on the INPUT under which the failure occurs ("" = none known); for a classified failure only the
// first witness of each (function, symptom, class) is reported per run, so that KNOWN_FINDINGS.txt can list the
// class and every failure outside the listed classes is still a VIOLATION.

type c14ClassOnce struct{ seen map[string]bool }

func (c *c14ClassOnce) violate(rep *Report, fnSymptom, class, input, desc string, rp map[string]interface{}) {
	if class != "" {
		k := fnSymptom + ":" + class
		if c.seen[k] {
			return
		}
		c.seen[k] = true
	}
	rep.Violate(fnSymptom+":"+class+":"+input, desc, rp)
}

// c14FloatSyntax scans the longest prefix matching [+-]?(d+(.d*)?|.d+)([eE][+-]?d+)? (decimalOnly: -?(d+(.d*)?|.d+))
// and returns its length (0 if none), the number of integer and fractional digits and the exponent value.
func c14FloatSyntax(b []byte, decimalOnly bool) (n, intDigits, fracDigits int, exp *big.Int) {
	exp = new(big.Int)
	i := 0
	if len(b) > 0 && (b[0] == '-' || (!decimalOnly && b[0] == '+')) {
		i = 1
	}
	for i < len(b) && '0' <= b[i] && b[i] <= '9' {
		i++
		intDigits++
	}
	if i < len(b) && b[i] == '.' {
		j := i + 1
		for j < len(b) && '0' <= b[j] && b[j] <= '9' {
			j++
		}
		if intDigits > 0 || j > i+1 {
			fracDigits = j - i - 1
			i = j
		}
	}
	if intDigits+fracDigits == 0 {
		return 0, 0, 0, exp
	}
	if !decimalOnly && i < len(b) && (b[i] == 'e' || b[i] == 'E') {
		j := i + 1
		if j < len(b) && (b[j] == '+' || b[j] == '-') {
			j++
		}
		k := j
		for k < len(b) && '0' <= b[k] && b[k] <= '9' {
			k++
		}
		if k > j {
			exp.SetString(string(b[i+1:k]), 10)
			i = k
		}
	}
	return i, intDigits, fracDigits, exp
}

func c14FloatPrefix(b []byte, decimalOnly bool) int {
	n, _, _, _ := c14FloatSyntax(b, decimalOnly)
	return n
}

const c14MinNormal = 2.2250738585072014e-308

// c14Abbrev renders a literal with long runs of one byte written as c{xN}
func c14Abbrev(b []byte) string {
	var out []byte
	for i := 0; i < len(b); {
		j := i
		for j < len(b) && b[j] == b[i] {
			j++
		}
		if j-i >= 12 {
			out = append(out, fmt.Sprintf("%c{x%d}", b[i], j-i)...)
		} else {
			out = append(out, b[i:j]...)
		}
		i = j
	}
	return fmt.Sprintf("%q", out)
}

func c14BigF(f float64) *big.Float { return new(big.Float).SetPrec(400).SetFloat64(f) }

// c14RelDist = |got - want| / |want| (want != 0, both finite)
func c14RelDist(got float64, want *big.Float) float64 {
	d := new(big.Float).SetPrec(400).Sub(c14BigF(got), want)
	d.Abs(d)
	d.Quo(d, new(big.Float).SetPrec(400).Abs(want))
	q, _ := d.Float64()
	return q
}

func c14ParseFloatOracle(r *Rng, tier string, rep *Report) {
	once := &c14ClassOnce{seen: map[string]bool{}}
	lim15 := new(big.Int).Exp(big.NewInt(10), big.NewInt(15), nil)
	check := func(b []byte, decimal bool) {
		name, fn := "ParseFloat", strconv.ParseFloat
		if decimal {
			name, fn = "ParseDecimal", strconv.ParseDecimal
		}
		k, nInt, nFrac, exp := c14FloatSyntax(b, decimal)
		if decimal && k == 0 {
			// the clause covers inputs that begin with a decimal number only
			rep.Eval(name+":"+string(b), false, name+"/not-a-number")
			return
		}
		// classes of inputs (conditions on the literal, computed here from its syntax)
		class := ""
		absExp := new(big.Int).Abs(exp)
		switch {
		case nFrac > 300 || nInt > 300:
			class = "extreme" // a digit count beyond 300: outside math.Pow10's normal range
		case absExp.Cmp(lim15) >= 0:
			class = "exp64" // an exponent at or beyond the saturation bound 1e15 (repaired by 7fd1303: must pass)
		case absExp.Cmp(big.NewInt(308)) > 0:
			class = "extreme" // a decimal exponent beyond 308: outside math.Pow10's normal range
		}
		var f float64
		var n int
		rp := map[string]interface{}{"fn": name, "input": hx(b), "text": c14Abbrev(b)}
		if p := catch(func() { f, n = fn(b) }); p != nil {
			rep.Violate(fmt.Sprintf("%s-panic::%q", name, b), fmt.Sprintf("%s(%s) panics: %v", name, c14Abbrev(b), p), rp)
			return
		}
		if n != k {
			once.violate(rep, name+"-length", class, fmt.Sprintf("%q", b), fmt.Sprintf("%s(%s) consumed %d bytes, the longest prefix of the documented syntax has %d", name, c14Abbrev(b), n, k), rp)
			rep.Eval(name+":"+string(b), true, name+"/length")
			return
		}
		bucket := name + "/none"
		if k > 0 {
			want, _ := gostrconv.ParseFloat(string(b[:k]), 64) // correctly rounded
			bad := ""
			switch {
			case math.IsInf(want, 0):
				bucket = name + "/inf"
				if f != want {
					bad = fmt.Sprintf("%s(%s) = %v, correctly rounded value is %v", name, c14Abbrev(b), f, want)
				}
			case want == 0:
				bucket = name + "/zero"
				if f != 0 {
					bad = fmt.Sprintf("%s(%s) = %v, correctly rounded value is 0", name, c14Abbrev(b), f)
				}
			default:
				bucket = name + "/normal"
				if class == "" && math.Abs(want) >= math.MaxFloat64*(1-1e-15) {
					class = "near-max" // the correctly rounded value is within 1e-15 of MaxFloat64
				}
				if math.Abs(want) < c14MinNormal {
					bucket = name + "/subnormal"
					if class == "" {
						class = "subnormal" // the correctly rounded value is subnormal
					}
				}
				e := math.Inf(1)
				if f == f && !math.IsInf(f, 0) {
					e = c14RelDist(f, c14BigF(want))
				}
				if e > 1e-14 {
					bad = fmt.Sprintf("%s(%s) = %v, correctly rounded value is %v (relative error %.3g > 1e-14)", name, c14Abbrev(b), f, want, e)
				}
			}
			if bad != "" {
				once.violate(rep, name+"-value", class, fmt.Sprintf("%q", b), bad, rp)
			}
			if class != "" {
				bucket += "/" + class
			}
		} else if f != 0 {
			rep.Violate(fmt.Sprintf("%s-value::%q", name, b), fmt.Sprintf("%s(%s) = (%v, 0)", name, c14Abbrev(b), f), rp)
		}
		rep.Eval(name+":"+string(b), k > 0, bucket)
	}
	k, n := 5, 40000
	if tier == "thorough" {
		k, n = 7, 2000000
	}
	allStrings(c14FloatAlphabet, k, func(b []byte) { check(b, false); check(b, true) })
	c14ParseFloatGen("x")(r, "quick", func(c Case) {
		bv, _ := takeList(c.Args)
		check(toBytes(bv), false)
		check(toBytes(bv), true)
	})
	for i := 0; i < n; i++ {
		var b []byte
		if i%3 == 0 {
			b = c14GenFloatLiteral(r)
		} else {
			b = c14GenFloatString(r)
		}
		check(b, false)
		check(b, true)
	}
}

// c14IsLiteral: -?(digits(.digits)?|.digits)(e-?digits)? (allowExp, leading dot allowed) or -?digits(.digits)?
func c14IsLiteral(s []byte, allowExp, allowLeadingDot bool) bool {
	i := 0
	if i < len(s) && s[i] == '-' {
		i++
	}
	nd := 0
	for i < len(s) && '0' <= s[i] && s[i] <= '9' {
		i++
		nd++
	}
	if nd == 0 && !allowLeadingDot {
		return false
	}
	if i < len(s) && s[i] == '.' {
		i++
		nf := 0
		for i < len(s) && '0' <= s[i] && s[i] <= '9' {
			i++
			nf++
		}
		if nf == 0 {
			return false
		}
		nd += nf
	}
	if nd == 0 {
		return false
	}
	if allowExp && i < len(s) && s[i] == 'e' {
		i++
		if i < len(s) && s[i] == '-' {
			i++
		}
		ne := 0
		for i < len(s) && '0' <= s[i] && s[i] <= '9' {
			i++
			ne++
		}
		if ne == 0 {
			return false
		}
	}
	return i == len(s)
}

func c14BigOf(s []byte) (*big.Float, bool) {
	f, _, err := big.ParseFloat(string(s), 10, 400, big.ToNearestEven)
	return f, err == nil
}

func c14Pow10Big(k int) *big.Float {
	p := new(big.Float).SetPrec(400).SetInt(new(big.Int).Exp(big.NewInt(10), big.NewInt(int64(c14Abs(k))), nil))
	if k < 0 {
		return new(big.Float).SetPrec(400).Quo(big.NewFloat(1).SetPrec(400), p)
	}
	return p
}

func c14Abs(x int) int {
	if x < 0 {
		return -x
	}
	return x
}

// c14FloorLog10 of a positive finite float64, exactly
func c14FloorLog10(f float64) int {
	e := int(math.Floor(math.Log10(f)))
	x := c14BigF(f)
	for x.Cmp(c14Pow10Big(e)) < 0 {
		e--
	}
	for x.Cmp(c14Pow10Big(e+1)) >= 0 {
		e++
	}
	return e
}

func c14AppendOracle(r *Rng, tier string, rep *Report) {
	once := &c14ClassOnce{seen: map[string]bool{}}
	lim63 := new(big.Float).SetPrec(400).SetInt(new(big.Int).Lsh(big.NewInt(1), 63))
	checkDecimal := func(f float64, dec int, pre, sp []byte) {
		in := fmt.Sprintf("%#x:%d", math.Float64bits(f), dec)
		rp := map[string]interface{}{"fn": "AppendDecimal", "bits": fmt.Sprintf("%#x", math.Float64bits(f)), "f": fmt.Sprint(f), "dec": dec}
		var out []byte
		if p := catch(func() { out = strconv.AppendDecimal(c14WithSpare(pre, sp), f, dec) }); p != nil {
			rep.Violate("AppendDecimal-panic::"+in, fmt.Sprintf("AppendDecimal(%v, %d) panics: %v", f, dec, p), rp)
			return
		}
		if !bytes.HasPrefix(out, pre) {
			rep.Violate("AppendDecimal-prefix::"+in, fmt.Sprintf("AppendDecimal(%q, %v, %d) = %q: destination prefix not preserved", pre, f, dec, out), rp)
			return
		}
		body := out[len(pre):]
		if f != f || math.IsInf(f, 0) {
			if len(body) != 0 {
				rep.Violate("AppendDecimal-naninf::"+in, fmt.Sprintf("AppendDecimal(%v, %d) appended %q", f, dec, body), rp)
			}
			rep.Eval("d:"+in, true, "AppendDecimal/naninf")
			return
		}
		d := dec
		if d < 0 || d > 17 {
			d = 17
		}
		scaled := new(big.Float).SetPrec(400).Mul(c14BigF(f), c14Pow10Big(d))
		absScaled := new(big.Float).Abs(scaled)
		class, bucket := "", "AppendDecimal/int64"
		if absScaled.Cmp(lim63) >= 0 {
			bucket = "AppendDecimal/int64-overflow" // |f| * 10^dec does not fit int64: standard-library branch (2eb440d), must pass
			// there the output is the exact value rounded half-even at d decimals, trailing zeros removed
			want := []byte(c14BigF(f).Text('f', d))
			if d > 0 {
				want = bytes.TrimRight(want, "0")
				want = bytes.TrimSuffix(want, []byte("."))
			}
			if !bytes.Equal(body, want) {
				once.violate(rep, "AppendDecimal-value", "", in, fmt.Sprintf("AppendDecimal(%v, %d) = %q, the exact value rounded half-even at %d decimals is %q", f, dec, body, d, want), rp)
			}
		}
		bad := func(symptom, desc string) { once.violate(rep, "AppendDecimal-"+symptom, class, in, desc, rp) }
		defer rep.Eval("d:"+in, true, bucket)
		if !c14IsLiteral(body, false, false) {
			bad("shape", fmt.Sprintf("AppendDecimal(%v, %d) = %q is not -?digits(.digits)?", f, dec, body))
			return
		}
		if k := bytes.IndexByte(body, '.'); k >= 0 {
			if body[len(body)-1] == '0' {
				bad("shape", fmt.Sprintf("AppendDecimal(%v, %d) = %q has a trailing zero after the dot", f, dec, body))
			}
			if len(body)-k-1 > d {
				bad("shape", fmt.Sprintf("AppendDecimal(%v, %d) = %q has more than %d decimals", f, dec, body, d))
			}
		}
		if len(body) > 1 && body[0] == '0' && body[1] != '.' || len(body) > 2 && body[0] == '-' && body[1] == '0' && body[2] != '.' {
			bad("shape", fmt.Sprintf("AppendDecimal(%v, %d) = %q has a leading zero", f, dec, body))
		}
		v, ok := c14BigOf(body)
		if !ok {
			bad("shape", fmt.Sprintf("AppendDecimal(%v, %d) = %q does not parse", f, dec, body))
			return
		}
		if (body[0] == '-') != (v.Sign() < 0) || (v.Sign() < 0 && f > 0) || (v.Sign() > 0 && f < 0) {
			bad("sign", fmt.Sprintf("AppendDecimal(%v, %d) = %q has the wrong sign", f, dec, body))
		}
		// parses back within the requested digits: |v - f| * 10^dec <= 0.5 (+ the float64 rounding of f*10^dec: 2^-51 relative)
		diff := new(big.Float).SetPrec(400).Sub(v, c14BigF(f))
		diff.Abs(diff)
		diff.Mul(diff, c14Pow10Big(d))
		tol := new(big.Float).SetPrec(400).Mul(absScaled, big.NewFloat(math.Ldexp(1, -51)))
		tol.Add(tol, big.NewFloat(0.5))
		if diff.Cmp(tol) > 0 {
			dd, _ := diff.Float64()
			bad("value", fmt.Sprintf("AppendDecimal(%v, %d) = %q is %.6g units of the last requested digit away from the argument (more than 0.5)", f, dec, body, dd))
		}
	}
	checkFloat := func(f float64, prec int, pre, sp []byte) {
		in := fmt.Sprintf("%#x:%d", math.Float64bits(f), prec)
		rp := map[string]interface{}{"fn": "AppendFloat", "bits": fmt.Sprintf("%#x", math.Float64bits(f)), "f": fmt.Sprint(f), "prec": prec}
		var out []byte
		if p := catch(func() { out = strconv.AppendFloat(c14WithSpare(pre, sp), f, prec) }); p != nil {
			rep.Violate("AppendFloat-panic::"+in, fmt.Sprintf("AppendFloat(%v, %d) panics: %v", f, prec, p), rp)
			return
		}
		if !bytes.HasPrefix(out, pre) {
			rep.Violate("AppendFloat-prefix::"+in, fmt.Sprintf("AppendFloat(%q, %v, %d) = %q: destination prefix not preserved", pre, f, prec, out), rp)
			return
		}
		body := out[len(pre):]
		if f != f || math.IsInf(f, 0) {
			if len(body) != 0 {
				rep.Violate("AppendFloat-naninf::"+in, fmt.Sprintf("AppendFloat(%v, %d) appended %q", f, prec, body), rp)
			}
			rep.Eval("f:"+in, true, "AppendFloat/naninf")
			return
		}
		p := prec
		if p < 0 || p > 17 {
			p = 17
		}
		a := math.Abs(f)
		class, bucket := "", "AppendFloat/normal"
		e10, over := 0, false
		switch {
		case f == 0:
			bucket = "AppendFloat/zero"
		case a < c14MinNormal:
			class, bucket = "subnormal", "AppendFloat/subnormal"
		default:
			e10 = c14FloorLog10(a)
			// float64exp estimates the decimal exponent from the binary one: floor(exp2*log10(2)), which is one too
			// large for 2^(exp2-1) <= |f| < 10^est; the output then has one significant digit fewer than requested
			_, exp2 := math.Frexp(a)
			est := math.Floor(float64(exp2) * 0.3010299956639812)
			over = int(est) > e10
			if over {
				bucket = "AppendFloat/exp-overestimate"
			}
		}
		bad := func(symptom, desc string) { once.violate(rep, "AppendFloat-"+symptom, class, in, desc, rp) }
		defer rep.Eval("f:"+in, true, bucket)
		if !c14IsLiteral(body, true, true) {
			bad("shape", fmt.Sprintf("AppendFloat(%v, %d) = %q is not a well-formed literal", f, prec, body))
			return
		}
		if c14FloatPrefix(body, false) != len(body) {
			bad("shape", fmt.Sprintf("AppendFloat(%v, %d) = %q is not matched entirely by ParseFloat's syntax", f, prec, body))
		}
		txt := body
		if len(txt) > 0 && txt[0] == '-' {
			txt = txt[1:]
		}
		if len(txt) > 0 && txt[0] == '.' {
			txt = append([]byte{'0'}, txt...)
		}
		v, ok := c14BigOf(txt)
		if !ok {
			bad("shape", fmt.Sprintf("AppendFloat(%v, %d) = %q does not parse", f, prec, body))
			return
		}
		if (body[0] == '-') != (f < 0 && v.Sign() != 0) {
			bad("sign", fmt.Sprintf("AppendFloat(%v, %d) = %q has the wrong sign", f, prec, body))
		}
		if f == 0 {
			if v.Sign() != 0 {
				bad("value", fmt.Sprintf("AppendFloat(%v, %d) = %q", f, prec, body))
			}
			return
		}
		// parses back to the argument truncated to prec+1 significant digits: 0 <= |f| - v < one unit of that digit
		// (+- 2^-50 relative for the float64 scaling)
		diff := new(big.Float).SetPrec(400).Sub(c14BigF(a), v)
		slack := new(big.Float).SetPrec(400).Mul(c14BigF(a), big.NewFloat(math.Ldexp(1, -50)))
		unit := c14Pow10Big(e10 - p)
		hi := new(big.Float).SetPrec(400).Add(unit, slack)
		lo := new(big.Float).SetPrec(400).Neg(slack)
		if class == "subnormal" {
			e10 = c14FloorLog10(a)
			unit = c14Pow10Big(e10 - p)
			hi.Add(unit, slack)
		}
		if diff.Cmp(hi) >= 0 || diff.Cmp(lo) < 0 {
			if class == "" {
				// |f| is one of the three doubles around a power of ten 10^m: the comparison f < math.Pow10(exp10) and the
				// scaling f*10^prec are then decided by the rounding of 10^m itself; verified on this output: at most one
				// significant digit is lost
				hi10 := new(big.Float).SetPrec(400).Add(new(big.Float).SetPrec(400).Mul(unit, big.NewFloat(10)), slack)
				for _, m := range []int{e10, e10 + 1} {
					cr, _ := gostrconv.ParseFloat(fmt.Sprintf("1e%d", m), 64)
					if a >= math.Nextafter(cr, 0) && a <= math.Nextafter(cr, math.Inf(1)) && diff.Cmp(hi10) < 0 && diff.Cmp(lo) >= 0 {
						class = "pow10-boundary"
					}
				}
			}
			dd, _ := new(big.Float).Quo(diff, unit).Float64()
			bad("value", fmt.Sprintf("AppendFloat(%v, %d) = %q: the argument minus the result is %.4g units of the last requested significant digit (truncation allows [0,1))", f, prec, body, dd))
		}
	}
	checkFloat(1e23, 3, nil, nil) // first witness of the pow10-boundary class
	checkFloat(123, 1, nil, nil)
	checkFloat(9.56, 2, nil, nil)
	checkFloat(0.5, 0, nil, nil)
	c14HundredsCases(func(f float64, p int, pre []byte) { checkFloat(f, p, pre, bytes.Repeat([]byte{'.'}, 12)) })
	c14OverestimateCases(func(f float64) {
		for p := 0; p <= 17; p++ {
			checkFloat(f, p, nil, nil)
		}
		checkFloat(-f, -1, []byte("x."), nil)
	})
	c14BigDecimalCases(func(f float64, dec int) {
		checkDecimal(f, dec, nil, nil)
		checkDecimal(f, dec, []byte("ab"), bytes.Repeat([]byte{'0'}, 40))
	})
	for _, f := range c14FloatValues {
		for p := -1; p <= 18; p++ {
			checkDecimal(f, p, nil, nil)
			checkDecimal(-f, p, []byte("ab"), bytes.Repeat([]byte{'#'}, 40))
			checkFloat(f, p, nil, nil)
			checkFloat(-f, p, []byte("ab"), bytes.Repeat([]byte{'#'}, 40))
		}
	}
	for k := -2200; k <= 2200; k++ {
		for p := 0; p <= 4; p++ {
			checkDecimal(float64(k)/1000, p, nil, nil)
			checkFloat(float64(k)/1000, p, nil, nil)
			checkFloat(float64(k), p, nil, nil)
		}
	}
	n := 40000
	if tier == "thorough" {
		n = 2000000
	}
	for i := 0; i < n; i++ {
		b, sp := c14GenPrefixSpare(r)
		f := c14GenFloat64(r)
		checkDecimal(f, r.Intn(20)-1, b, sp)
		checkFloat(f, r.Intn(20)-1, b, sp)
	}
}

func init() {
	p := props["C14"]
	p.Oracles = append(p.Oracles,
		&Oracle{Name: "c14-parsefloat-bigref", Run: c14ParseFloatOracle},
		&Oracle{Name: "c14-append-bigref", Run: c14AppendOracle})
}
