package main

import (
	"bytes"
	"fmt"
	"math"
	"math/big"
	gostrconv "strconv"
	"unicode/utf8"

	"github.com/tdewolff/parse/v2/strconv"
)

// ---- C14: strconv (int.go, number.go, decimal.go, float.go) -----------------------------------

func u64halves(x uint64) (int64, int64) { return int64(x >> 32), int64(x & 0xFFFFFFFF) }

// encBytesOrPanic runs f and encodes its result like Strconv/Harness.v enc_bytes.
func encBytesOrPanic(f func() []byte) []int64 {
	var res []byte
	if p := catch(func() { res = f() }); p != nil {
		return []int64{-1}
	}
	return bytesToArgs(res)
}

// withSpare returns a slice with contents b whose backing array continues with spare (cap = len(b)+len(spare)).
func withSpare(b, spare []byte) []byte {
	arr := make([]byte, len(b)+len(spare))
	copy(arr, b)
	copy(arr[len(b):], spare)
	return arr[:len(b):len(arr)]
}

// ---- generators shared by the correspondence models and the oracles -----------------------------

var c14IntAlphabet = []byte{'+', '-', '0', '1', '9', 'a', '.'}

var c14IntBoundary = []string{
	"9223372036854775807", "9223372036854775808", "9223372036854775809", "9223372036854775806",
	"9223372036854775799", "9223372036854775800", "9223372036854775810", "922337203685477580", "922337203685477581",
	"18446744073709551615", "18446744073709551616", "18446744073709551614", "18446744073709551609", "18446744073709551610",
	"1844674407370955161", "1844674407370955162", "18446744073709551620", "184467440737095516150", "99999999999999999999",
	"9999999999999999999", "10000000000000000000", "999999999999999999", "1000000000000000000",
	"27670116110564327424", "36893488147419103232", "92233720368547758070", "92233720368547758080",
}

// genIntString produces a numeric byte string directed at the 64-bit limits.
func genIntString(r *Rng) []byte {
	var b []byte
	switch r.Intn(8) {
	case 0, 1: // boundary constant, possibly perturbed in one digit
		s := []byte(r.PickStr(c14IntBoundary))
		if r.Chance(1, 3) {
			k := r.Intn(len(s))
			s[k] = byte('0' + r.Intn(10))
		}
		b = s
	case 2: // random digits, 17..22 long
		n := 17 + r.Intn(6)
		for i := 0; i < n; i++ {
			b = append(b, byte('0'+r.Intn(10)))
		}
	case 3: // random uint64 value printed
		b = []byte(gostrconv.FormatUint(r.U64()>>uint(r.Intn(64)), 10))
	case 4: // near a power of two
		v := uint64(1) << uint(r.Intn(64))
		v += uint64(r.Intn(5)) - 2
		b = []byte(gostrconv.FormatUint(v, 10))
	default: // short
		n := r.Intn(6)
		for i := 0; i < n; i++ {
			b = append(b, byte('0'+r.Intn(10)))
		}
	}
	if r.Chance(1, 3) { // leading zeros
		z := bytes.Repeat([]byte{'0'}, 1+r.Intn(25))
		b = append(z, b...)
	}
	switch r.Intn(6) {
	case 0:
		b = append([]byte{'+'}, b...)
	case 1, 2:
		b = append([]byte{'-'}, b...)
	}
	switch r.Intn(8) { // tails and malformations
	case 0:
		b = append(b, 'a')
	case 1:
		b = append(b, '.', byte('0'+r.Intn(10)))
	case 2:
		b = append(b, byte(r.Intn(256)))
	case 3:
		if len(b) > 0 {
			k := r.Intn(len(b))
			b[k] = []byte{'-', '+', ' ', 0, '/', ':', 'e', 0xFF}[r.Intn(8)]
		}
	case 4:
		if len(b) > 0 {
			k := r.Intn(len(b))
			b = append(b[:k], b[k+1:]...)
		}
	}
	return b
}

var c14IntValues = func() []int64 {
	v := []int64{0, 1, -1, 9, 10, -9, -10, math.MaxInt64, math.MinInt64, math.MaxInt64 - 1, math.MinInt64 + 1}
	p := int64(1)
	for k := 0; k < 19; k++ {
		v = append(v, p, p-1, p+1, -p, -p+1, -p-1)
		if k < 18 {
			p *= 10
		}
	}
	for k := uint(0); k < 63; k++ {
		v = append(v, int64(1)<<k, -(int64(1) << k), int64(1)<<k-1)
	}
	return v
}()

func genInt64(r *Rng) int64 {
	switch r.Intn(4) {
	case 0:
		return c14IntValues[r.Intn(len(c14IntValues))]
	case 1:
		return int64(r.U64())
	default:
		v := int64(r.U64() >> uint(1+r.Intn(63)))
		if r.Bool() {
			v = -v
		}
		return v
	}
}

func genPrefixSpare(r *Rng) ([]byte, []byte) {
	var b, sp []byte
	if r.Chance(1, 2) {
		for i, n := 0, r.Intn(4); i < n; i++ {
			b = append(b, byte(1+r.Intn(255)))
		}
	}
	if r.Chance(1, 2) {
		for i, n := 0, r.Intn(40); i < n; i++ {
			sp = append(sp, byte(1+r.Intn(255)))
		}
	}
	return b, sp
}

// symbols for ParseNumber / AppendNumber: 1-4 byte runes, invalid runes, digits and '-'
var c14Runes = []rune{'.', ',', ' ', '\'', '_', 0xA0, 0x2009, 0x202F, 0x66C, 0x7FF, 0x800, 0xFFFD, 0xFFFF, 0x10000, 0x10FFFF, 0x1F600, 0, 0x7F, 0x80}
var c14BadRunes = []rune{-1, 0xD800, 0xDFFF, 0x110000, math.MaxInt32, math.MinInt32, '0', '9', '-', '5'}

func genRune(r *Rng, bad bool) rune {
	if bad && r.Chance(1, 6) {
		return c14BadRunes[r.Intn(len(c14BadRunes))]
	}
	if r.Chance(1, 8) {
		return rune(r.Intn(0x110000))
	}
	return c14Runes[r.Intn(len(c14Runes))]
}

// ---- correspondence models -----------------------------------------------------------------------------

func bytesCase(fn string, b []byte, pre ...int64) Case {
	args := append([]int64{}, pre...)
	args = append(args, bytesToArgs(b)...)
	return Case{Fn: fn, Args: args, Note: fmt.Sprintf("%s %v %q", fn, pre, b)}
}

func shrinkLastBytes(nfixed int) func(c Case) []Case {
	// the case is nfixed integers followed by one length-prefixed byte string (and possibly more lists, kept)
	return func(c Case) []Case {
		a := c.Args
		bv, rest := takeList(a[nfixed:])
		var out []Case
		for i := range bv {
			nb := append(append([]int64{}, bv[:i]...), bv[i+1:]...)
			args := append([]int64{}, a[:nfixed]...)
			args = append(args, int64(len(nb)))
			args = append(args, nb...)
			args = append(args, rest...)
			out = append(out, Case{Fn: c.Fn, Args: args, Note: fmt.Sprintf("%s %v %q", c.Fn, a[:nfixed], toBytes(nb))})
		}
		return out
	}
}

func lenClass(n int) string {
	switch {
	case n == 0:
		return "len0"
	case n <= 5:
		return "len1-5"
	case n <= 16:
		return "len6-16"
	case n <= 20:
		return "len17-20"
	}
	return "len21+"
}

var scParseInt = &Model{
	Name: "sc_parseint",
	Gen: func(r *Rng, tier string, emit func(Case)) {
		k := 5
		n := 6000
		if tier == "thorough" {
			k, n = 7, 400000
		}
		allStrings(c14IntAlphabet, k, func(b []byte) { emit(bytesCase("sc_parseint", b)) })
		for _, s := range c14IntBoundary {
			for _, p := range []string{"", "+", "-", "-000", "00"} {
				emit(bytesCase("sc_parseint", []byte(p+s)))
				emit(bytesCase("sc_parseint", []byte(p+s+"0")))
				emit(bytesCase("sc_parseint", []byte(p+s+"x")))
			}
		}
		for i := 0; i < n; i++ {
			emit(bytesCase("sc_parseint", genIntString(r)))
		}
	},
	Impl: func(c Case) []int64 {
		bv, _ := takeList(c.Args)
		v, n := strconv.ParseInt(toBytes(bv))
		return []int64{v, int64(n)}
	},
	Shrink: shrinkLastBytes(0),
	Class: func(c Case, out []int64) string {
		s := lenClass(int(c.Args[0]))
		if len(out) == 2 && out[1] == 0 {
			return s + "/zero"
		}
		return s + "/ok"
	},
}

var scParseUint = &Model{
	Name: "sc_parseuint",
	Gen: func(r *Rng, tier string, emit func(Case)) {
		k := 4
		n := 5000
		if tier == "thorough" {
			k, n = 6, 400000
		}
		allStrings(c14IntAlphabet, k, func(b []byte) { emit(bytesCase("sc_parseuint", b)) })
		for _, s := range c14IntBoundary {
			for _, p := range []string{"", "+", "000"} {
				emit(bytesCase("sc_parseuint", []byte(p+s)))
				emit(bytesCase("sc_parseuint", []byte(p+s+"0")))
				emit(bytesCase("sc_parseuint", []byte(p+s+"x")))
			}
		}
		for i := 0; i < n; i++ {
			emit(bytesCase("sc_parseuint", genIntString(r)))
		}
	},
	Impl: func(c Case) []int64 {
		bv, _ := takeList(c.Args)
		v, n := strconv.ParseUint(toBytes(bv))
		hi, lo := u64halves(v)
		return []int64{hi, lo, int64(n)}
	},
	Shrink: shrinkLastBytes(0),
	Class: func(c Case, out []int64) string {
		s := lenClass(int(c.Args[0]))
		if len(out) == 3 && out[2] == 0 {
			return s + "/zero"
		}
		return s + "/ok"
	},
}

var scLenUint = &Model{
	Name: "sc_lenuint",
	Gen: func(r *Rng, tier string, emit func(Case)) {
		mk := func(v uint64) {
			hi, lo := u64halves(v)
			emit(Case{Fn: "sc_lenuint", Args: []int64{hi, lo}, Note: fmt.Sprintf("LenUint(%d)", v)})
		}
		p := uint64(1)
		for k := 0; k < 20; k++ {
			mk(p)
			mk(p - 1)
			mk(p + 1)
			if k < 19 {
				p *= 10
			}
		}
		mk(math.MaxUint64)
		mk(math.MaxUint64 - 1)
		mk(0)
		n := 500
		if tier == "thorough" {
			n = 50000
		}
		for i := 0; i < n; i++ {
			mk(r.U64() >> uint(r.Intn(64)))
		}
	},
	Impl: func(c Case) []int64 {
		return []int64{int64(strconv.LenUint(uint64(c.Args[0])<<32 | uint64(c.Args[1])))}
	},
	Class: func(c Case, out []int64) string { return fmt.Sprintf("digits%02d", out[0]) },
}

func appendIntCase(num int64, b, sp []byte) Case {
	args := []int64{num}
	args = append(args, bytesToArgs(b)...)
	args = append(args, bytesToArgs(sp)...)
	return Case{Fn: "sc_appendint", Args: args, Note: fmt.Sprintf("AppendInt(%q cap+%d, %d)", b, len(sp), num)}
}

var scAppendInt = &Model{
	Name: "sc_appendint",
	Gen: func(r *Rng, tier string, emit func(Case)) {
		for _, v := range c14IntValues {
			emit(appendIntCase(v, nil, nil))
			b, sp := genPrefixSpare(r)
			emit(appendIntCase(v, b, sp))
		}
		for v := int64(-1100); v <= 1100; v++ {
			emit(appendIntCase(v, nil, nil))
		}
		n := 3000
		if tier == "thorough" {
			n = 300000
		}
		for i := 0; i < n; i++ {
			b, sp := genPrefixSpare(r)
			emit(appendIntCase(genInt64(r), b, sp))
		}
	},
	Impl: func(c Case) []int64 {
		num := c.Args[0]
		bv, rest := takeList(c.Args[1:])
		sv, _ := takeList(rest)
		out := []int64{int64(strconv.LenInt(num))}
		return append(out, encBytesOrPanic(func() []byte { return strconv.AppendInt(withSpare(toBytes(bv), toBytes(sv)), num) })...)
	},
	Class: func(c Case, out []int64) string {
		s := fmt.Sprintf("len%02d", out[0])
		if c.Args[0] < 0 {
			s += "/neg"
		}
		return s
	},
}

func genNumberString(r *Rng, gs, ds rune) []byte {
	var b []byte
	if r.Chance(1, 3) {
		b = append(b, '-')
	}
	parts := 1 + r.Intn(6)
	for p := 0; p < parts; p++ {
		switch r.Intn(10) {
		case 0, 1, 2, 3:
			for i, n := 0, 1+r.Intn(7); i < n; i++ {
				b = append(b, byte('0'+r.Intn(10)))
			}
		case 4:
			b = append(b, []byte(r.PickStr(c14IntBoundary))...)
		case 5, 6:
			b = utf8.AppendRune(b, gs)
		case 7:
			b = utf8.AppendRune(b, ds)
		case 8:
			b = append(b, []byte{0x80, 0xFF, 0xC3, 0xE2, 0x82, 0xF0, 0x9F, 'a', '-', '+', 0, ' '}[r.Intn(12)])
		case 9:
			b = utf8.AppendRune(b, genRune(r, false))
		}
	}
	if r.Chance(1, 6) && len(b) > 0 { // truncate inside a multi-byte symbol
		b = b[:len(b)-1]
	}
	return b
}

var scParseNumber = &Model{
	Name: "sc_parsenumber",
	Gen: func(r *Rng, tier string, emit func(Case)) {
		k := 4
		n := 6000
		if tier == "thorough" {
			k, n = 6, 400000
		}
		// exhaustive over a small alphabet with a 2-byte group symbol U+00A0 (C2 A0) and ',' as decimal symbol
		allStrings([]byte{'-', '0', '9', ',', 0xC2, 0xA0, 'x'}, k, func(b []byte) {
			emit(bytesCase("sc_parsenumber", b, 0xA0, ','))
		})
		for _, s := range c14IntBoundary {
			for _, p := range []string{"", "-", "-0", "0.", "-0,"} {
				emit(bytesCase("sc_parsenumber", []byte(p+s), '.', ','))
				emit(bytesCase("sc_parsenumber", []byte(p+s[:len(s)/2]+"."+s[len(s)/2:]), '.', ','))
				emit(bytesCase("sc_parsenumber", []byte(p+s[:len(s)/2]+","+s[len(s)/2:]+"1"), '.', ','))
			}
		}
		for i := 0; i < n; i++ {
			gs, ds := genRune(r, true), genRune(r, true)
			emit(bytesCase("sc_parsenumber", genNumberString(r, gs, ds), int64(gs), int64(ds)))
		}
	},
	Impl: func(c Case) []int64 {
		bv, _ := takeList(c.Args[2:])
		var out []int64
		if p := catch(func() {
			num, dec, n := strconv.ParseNumber(toBytes(bv), rune(c.Args[0]), rune(c.Args[1]))
			out = []int64{num, int64(dec), int64(n)}
		}); p != nil {
			return []int64{-1}
		}
		return out
	},
	Shrink: shrinkLastBytes(2),
	Class: func(c Case, out []int64) string {
		if len(out) != 3 {
			return "panic"
		}
		s := "dec0"
		if out[1] > 0 {
			s = "dec+"
		}
		if int(out[2]) == int(c.Args[2]) {
			return s + "/all"
		}
		return s + "/prefix"
	},
}

func appendNumberCase(num int64, dec, gsize int, gs, ds rune, b, sp []byte) Case {
	args := []int64{num, int64(dec), int64(gsize), int64(gs), int64(ds)}
	args = append(args, bytesToArgs(b)...)
	args = append(args, bytesToArgs(sp)...)
	return Case{Fn: "sc_appendnumber", Args: args, Note: fmt.Sprintf("AppendNumber(%q cap+%d, %d, dec=%d, group=%d, %U, %U)", b, len(sp), num, dec, gsize, gs, ds)}
}

func genNumberConfig(r *Rng, bad bool) (num int64, dec, gsize int, gs, ds rune) {
	num = genInt64(r)
	dec = r.Intn(20)
	if r.Chance(1, 10) {
		dec = r.Intn(45) - 3
	}
	gsize = r.Intn(7)
	if bad && r.Chance(1, 12) {
		gsize = -1 - r.Intn(3)
	}
	gs = genRune(r, bad)
	ds = genRune(r, bad)
	for !bad && (ds == gs) {
		ds = genRune(r, false)
	}
	return
}

var scAppendNumber = &Model{
	Name: "sc_appendnumber",
	Gen: func(r *Rng, tier string, emit func(Case)) {
		// small scope: every digit count 1..8 x dec 0..9 x group size 0..4 x symbol widths
		for _, gs := range []rune{'.', 0xA0, 0x2009, 0x1F600, 0} {
			for _, ds := range []rune{',', 0x66C} {
				for gsize := 0; gsize <= 4; gsize++ {
					for dec := 0; dec <= 9; dec++ {
						p := int64(1)
						for k := 0; k < 8; k++ {
							emit(appendNumberCase(p*7+3, dec, gsize, gs, ds, nil, nil))
							emit(appendNumberCase(-(p*7 + 3), dec, gsize, gs, ds, nil, nil))
							p *= 10
						}
						emit(appendNumberCase(0, dec, gsize, gs, ds, nil, nil))
					}
				}
			}
		}
		n := 4000
		if tier == "thorough" {
			n = 300000
		}
		for i := 0; i < n; i++ {
			num, dec, gsize, gs, ds := genNumberConfig(r, true)
			b, sp := genPrefixSpare(r)
			emit(appendNumberCase(num, dec, gsize, gs, ds, b, sp))
		}
	},
	Impl: func(c Case) []int64 {
		a := c.Args
		bv, rest := takeList(a[5:])
		sv, _ := takeList(rest)
		return encBytesOrPanic(func() []byte {
			return strconv.AppendNumber(withSpare(toBytes(bv), toBytes(sv)), a[0], int(a[1]), int(a[2]), rune(a[3]), rune(a[4]))
		})
	},
	Class: func(c Case, out []int64) string {
		if len(out) == 1 && out[0] < 0 {
			return "panic"
		}
		return fmt.Sprintf("gs%d/ds%d/group%d", utf8.RuneLen(rune(c.Args[3])), utf8.RuneLen(rune(c.Args[4])), c.Args[2])
	},
}

// ---- oracles: the property text checked on the implementation, against the standard library ---------------

// longest prefix of [+-]?[0-9]+ (signed) or [0-9]+; 0 if there is no digit
func intPrefix(b []byte, signed bool) int {
	i := 0
	if signed && len(b) > 0 && (b[0] == '+' || b[0] == '-') {
		i = 1
	}
	s := i
	for i < len(b) && '0' <= b[i] && b[i] <= '9' {
		i++
	}
	if i == s {
		return 0
	}
	return i
}

func c14IntOracle(r *Rng, tier string, rep *Report) {
	checkInt := func(b []byte) {
		v, n := strconv.ParseInt(b)
		k := intPrefix(b, true)
		var wv int64
		wn := 0
		if k > 0 {
			if x, err := gostrconv.ParseInt(string(b[:k]), 10, 64); err == nil {
				wv, wn = x, k
			}
		}
		if v != wv || n != wn {
			rep.Violate(fmt.Sprintf("ParseInt:%q", b), fmt.Sprintf("ParseInt(%q) = (%d,%d), the longest [+-]digits prefix has value/length (%d,%d) by the standard library", b, v, n, wv, wn),
				map[string]interface{}{"fn": "ParseInt", "input": hx(b)})
		}
		rep.Eval("i:"+string(b), k > 0, "ParseInt/"+lenClass(len(b)))
	}
	checkUint := func(b []byte) {
		v, n := strconv.ParseUint(b)
		k := intPrefix(b, false)
		var wv uint64
		wn := 0
		if k > 0 {
			if x, err := gostrconv.ParseUint(string(b[:k]), 10, 64); err == nil {
				wv, wn = x, k
			}
		}
		if v != wv || n != wn {
			rep.Violate(fmt.Sprintf("ParseUint:%q", b), fmt.Sprintf("ParseUint(%q) = (%d,%d), the longest digits prefix has value/length (%d,%d) by the standard library", b, v, n, wv, wn),
				map[string]interface{}{"fn": "ParseUint", "input": hx(b)})
		}
		rep.Eval("u:"+string(b), k > 0, "ParseUint/"+lenClass(len(b)))
	}
	checkAppend := func(num int64, pre, sp []byte) {
		want := gostrconv.AppendInt(append([]byte{}, pre...), num, 10)
		var got []byte
		p := catch(func() { got = strconv.AppendInt(withSpare(pre, sp), num) })
		if p != nil || !bytes.Equal(got, want) {
			rep.Violate(fmt.Sprintf("AppendInt:%d:%x:%d", num, pre, len(sp)), fmt.Sprintf("AppendInt(%q cap+%d, %d) = %q (panic=%v), standard library %q", pre, len(sp), num, got, p, want),
				map[string]interface{}{"fn": "AppendInt", "num": num, "prefix": hx(pre), "spare": len(sp)})
		}
		if l := strconv.LenInt(num); l != len(want)-len(pre) {
			rep.Violate(fmt.Sprintf("LenInt:%d", num), fmt.Sprintf("LenInt(%d) = %d, standard library prints %d bytes", num, l, len(want)-len(pre)), map[string]interface{}{"fn": "LenInt", "num": num})
		}
		if num >= 0 {
			if l := strconv.LenUint(uint64(num)); l != len(want)-len(pre) {
				rep.Violate(fmt.Sprintf("LenUint:%d", num), fmt.Sprintf("LenUint(%d) = %d", num, l), map[string]interface{}{"fn": "LenUint", "num": num})
			}
		}
		rep.Eval(fmt.Sprintf("a:%d:%x:%d", num, pre, len(sp)), true, fmt.Sprintf("AppendInt/len%02d", len(want)-len(pre)))
	}
	k, n := 5, 40000
	if tier == "thorough" {
		k, n = 7, 2000000
	}
	allStrings(c14IntAlphabet, k, func(b []byte) { checkInt(b); checkUint(b) })
	for _, s := range c14IntBoundary {
		for _, p := range []string{"", "+", "-", "-000", "00"} {
			for _, t := range []string{"", "0", "x", "."} {
				checkInt([]byte(p + s + t))
				checkUint([]byte(p + s + t))
			}
		}
	}
	for i := 0; i < n; i++ {
		b := genIntString(r)
		checkInt(b)
		checkUint(b)
	}
	for _, v := range c14IntValues {
		checkAppend(v, nil, nil)
		checkAppend(v, []byte("ab"), bytes.Repeat([]byte{'#'}, 30))
	}
	for v := int64(-20000); v <= 20000; v++ {
		checkAppend(v, nil, nil)
	}
	for i := 0; i < n; i++ {
		b, sp := genPrefixSpare(r)
		checkAppend(genInt64(r), b, sp)
	}
	for v := uint64(1); ; v *= 10 { // LenUint at every power of ten, also above MaxInt64
		for _, x := range []uint64{v - 1, v, v + 1} {
			if l := strconv.LenUint(x); l != len(gostrconv.FormatUint(x, 10)) {
				rep.Violate(fmt.Sprintf("LenUint:%d", x), fmt.Sprintf("LenUint(%d) = %d", x, l), map[string]interface{}{"fn": "LenUint", "num": fmt.Sprint(x)})
			}
			rep.Eval(fmt.Sprintf("lu:%d", x), true, "LenUint")
		}
		if v > math.MaxUint64/10 {
			break
		}
	}
}

// refNumber renders num with dec decimals, groups of gsize separated by gs and decimal symbol ds,
// written from the documentation with math/big and string operations only.
func refNumber(num int64, dec, gsize int, gs, ds rune) []byte {
	if dec < 0 {
		dec = 0
	}
	digits := new(big.Int).Abs(big.NewInt(num)).String()
	for len(digits) <= dec {
		digits = "0" + digits
	}
	ip, fp := digits[:len(digits)-dec], digits[len(digits)-dec:]
	var out []byte
	if num < 0 {
		out = append(out, '-')
	}
	for i := 0; i < len(ip); i++ {
		if i > 0 && gsize > 0 && gs != 0 && (len(ip)-i)%gsize == 0 {
			out = utf8.AppendRune(out, gs)
		}
		out = append(out, ip[i])
	}
	if dec > 0 {
		out = utf8.AppendRune(out, ds)
		out = append(out, fp...)
	}
	return out
}

func badSym(r rune) bool { return r == '-' || ('0' <= r && r <= '9') }

func c14NumberOracle(r *Rng, tier string, rep *Report) {
	check := func(num int64, dec, gsize int, gs, ds rune, pre, sp []byte) {
		key := fmt.Sprintf("number:%d:%d:%d:%U:%U", num, dec, gsize, gs, ds)
		rp := map[string]interface{}{"fn": "AppendNumber", "num": num, "dec": dec, "group": gsize, "groupSym": int(gs), "decSym": int(ds), "prefix": hx(pre), "spare": len(sp)}
		var out []byte
		if p := catch(func() { out = strconv.AppendNumber(withSpare(pre, sp), num, dec, gsize, gs, ds) }); p != nil {
			rep.Violate(key, fmt.Sprintf("AppendNumber(%d, dec=%d, group=%d, %U, %U) panics: %v", num, dec, gsize, gs, ds, p), rp)
			return
		}
		if !bytes.HasPrefix(out, pre) {
			rep.Violate(key, fmt.Sprintf("AppendNumber(%q, %d, ...) = %q does not preserve the destination prefix", pre, num, out), rp)
			return
		}
		body := out[len(pre):]
		if want := refNumber(num, dec, gsize, gs, ds); !bytes.Equal(body, want) {
			rep.Violate(key, fmt.Sprintf("AppendNumber(%d, dec=%d, group=%d, %U, %U) = %q, expected %q", num, dec, gsize, gs, ds, body, want), rp)
		}
		n2, d2, l2 := strconv.ParseNumber(body, gs, ds)
		if n2 != num || d2 != dec || l2 != len(body) {
			rep.Violate(key, fmt.Sprintf("ParseNumber(AppendNumber(%d, dec=%d, group=%d, %U, %U) = %q) = (%d,%d,%d), expected (%d,%d,%d)", num, dec, gsize, gs, ds, body, n2, d2, l2, num, dec, len(body)), rp)
		}
		rep.Eval(key, true, fmt.Sprintf("roundtrip/gs%d/ds%d", utf8.RuneLen(gs), utf8.RuneLen(ds)))
	}
	// the property's quantifier: int64 x decimals 0..18 x group size 0..6 x distinct symbols of 1-4 bytes (not digits, not '-')
	for _, gs := range []rune{'.', 0xA0, 0x2009, 0x1F600} {
		for _, ds := range []rune{',', 0x66C, 0x20AC, 0x10000} {
			for gsize := 0; gsize <= 6; gsize++ {
				for dec := 0; dec <= 18; dec++ {
					for _, v := range []int64{0, 5, -5, 123456, -123456, 1234567, 999999999, -1000000000, math.MaxInt64, math.MinInt64} {
						check(v, dec, gsize, gs, ds, nil, nil)
					}
				}
			}
		}
	}
	n := 40000
	if tier == "thorough" {
		n = 2000000
	}
	for i := 0; i < n; i++ {
		num, dec, gsize, gs, ds := genNumberConfig(r, false)
		if dec > 18 || dec < 0 || utf8.RuneLen(gs) < 0 || utf8.RuneLen(ds) < 0 || gs == ds || badSym(gs) || badSym(ds) {
			continue
		}
		b, sp := genPrefixSpare(r)
		check(num, dec, gsize, gs, ds, b, sp)
	}
}

func init() {
	props["C14"] = &PropSpec{
		Models: []*Model{scParseInt, scParseUint, scLenUint, scAppendInt, scParseNumber, scAppendNumber},
		Oracles: []*Oracle{
			{Name: "c14-int-stdlib", Run: c14IntOracle},
			{Name: "c14-number-roundtrip", Run: c14NumberOracle},
		},
	}
}
