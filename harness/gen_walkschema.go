package main

import (
	"fmt"
	"go/ast"
	"go/parser"
	"go/token"
	"os"
	"path/filepath"
	"sort"
	"strings"
)

// T2 (walkschema): reads js/ast.go (type declarations) and js/walk.go (the switch arms of Walk) with
// go/parser + go/ast and emits Gen/WalkSchema.v: node types, per type the node-valued fields with their
// multiplicity (schema) and the fields Walk visits, in order, with the syntactic shape of each visit.
// Anything that is not one of the recognised shapes is a translation failure.
//
// The same in-memory schema (loadWalkSchema) drives the tree exporter of harness/c18.go, so the Coq
// tables and the encoding of the correspondence cases cannot drift apart.

// field kinds (multiplicity and representation of a node-valued field)
const (
	wkOne   = iota // struct value (named or embedded): always exactly one; visited through &n.F
	wkOptI         // interface value (INode/IStmt/IExpr/IBinding): nil or one
	wkOptP         // pointer to a node struct: nil or one
	wkListI        // slice of interface values
	wkListS        // slice of node structs (visited through &n.F[i])
	wkListW        // slice of wrapper structs (ClassDecl.List): elements are never passed to Enter
)

var wkNames = []string{"KOne", "KOptI", "KOptP", "KListI", "KListS", "KListW"}

// visit shapes
const (
	wsDirect       = iota // Walk(v, X.F)
	wsAddr                // Walk(v, &X.F)
	wsGuard               // if X.F != nil { Walk(v, X.F) }
	wsLoopIdx             // [if n.F != nil {] for i := 0; i < len(n.F); i++ { Walk(v, n.F[i]) } [}]
	wsLoopIdxAddr         // same with Walk(v, &n.F[i])
	wsLoopRange           // for _, item := range n.F { Walk(v, item) }
	wsLoopWrap            // for _, item := range n.F { if item.A != nil {..} else if .. else { Walk(v, &item.C) } }   (item is a COPY)
	wsLoopWrapAddr        // for i := range n.F { item := &n.F[i]; if item.A != nil {..} else if .. else { Walk(v, &item.C) } }
)

var wsNames = []string{"SDirect", "SAddr", "SGuard", "SLoopIdx", "SLoopIdxAddr", "SLoopRange", "SLoopWrap", "SLoopWrapAddr"}

type wField struct {
	Name     string
	Kind     int
	Target   int  // index of the static node struct type, -1 for interface-typed fields
	Embedded bool // promoted (anonymous) field
}

type wVisit struct {
	Alt    bool  // if/else-if/else chain: the first alternative whose field is non-nil, else the last
	Shapes []int // one per alternative (len 1 when !Alt)
	Fields []int // field index within the type's schema
}

type wType struct {
	Name    string
	Fields  []wField
	Wrapper bool // implements INode syntactically but is walked inline by its parent's loop
	HasArm  bool // walk.go has `case *Name:` (or, for a wrapper, the inline chain)
	Visits  []wVisit
	Alts    [][]int // groups of fields of which at most one is set (from the if/else chains)
}

type wExcluded struct{ Type, Field, GoType, Reason string }

type WalkSchema struct {
	Types    []*wType
	Index    map[string]int
	Ifaces   []string // node interfaces
	Excluded []wExcluded
}

func parseJSPackage() (*token.FileSet, map[string]*ast.File, error) {
	fset := token.NewFileSet()
	dir := filepath.Join(repoRoot, "js")
	ents, err := os.ReadDir(dir)
	if err != nil {
		return nil, nil, err
	}
	files := map[string]*ast.File{}
	for _, e := range ents {
		n := e.Name()
		if !strings.HasSuffix(n, ".go") || strings.HasSuffix(n, "_test.go") {
			continue
		}
		src, err := os.ReadFile(filepath.Join(dir, n))
		if err != nil {
			return nil, nil, err
		}
		if hasVerifTag(src) {
			continue
		}
		f, err := parser.ParseFile(fset, filepath.Join(dir, n), src, parser.ParseComments)
		if err != nil {
			return nil, nil, err
		}
		files[n] = f
	}
	return fset, files, nil
}

// hasVerifTag reports whether the file is behind the add-only `verif` build tag.
func hasVerifTag(src []byte) bool {
	for _, ln := range strings.Split(string(src), "\n") {
		t := strings.TrimSpace(ln)
		if strings.HasPrefix(t, "package ") {
			return false
		}
		if strings.HasPrefix(t, "//go:build") || strings.HasPrefix(t, "// +build") {
			for _, w := range strings.FieldsFunc(t, func(r rune) bool {
				return !(r == '_' || r >= 'a' && r <= 'z' || r >= 'A' && r <= 'Z' || r >= '0' && r <= '9')
			}) {
				if w == "verif" {
					return true
				}
			}
		}
	}
	return false
}

// names of fields excluded from the schema, with the reason printed into the generated file
func walkExcludedReason(typ, field, gotype string) (string, bool) {
	if gotype == "Scope" || gotype == "*Scope" {
		return "scope table (Declared/Undeclared/VarDecls/Parent/Func): variables and declarations reachable only through a Scope are not part of the syntax tree", true
	}
	if typ == "Var" && field == "Link" {
		return "Var.Link is the scope-resolution link of an undeclared variable to its declaration, not a child", true
	}
	return "", false
}

func typeString(e ast.Expr) string {
	switch t := e.(type) {
	case *ast.Ident:
		return t.Name
	case *ast.StarExpr:
		return "*" + typeString(t.X)
	case *ast.ArrayType:
		if t.Len == nil {
			return "[]" + typeString(t.Elt)
		}
		return "[...]" + typeString(t.Elt)
	case *ast.SelectorExpr:
		return typeString(t.X) + "." + t.Sel.Name
	case *ast.MapType:
		return "map[" + typeString(t.Key) + "]" + typeString(t.Value)
	case *ast.InterfaceType:
		return "interface{...}"
	case *ast.FuncType:
		return "func(...)"
	case *ast.StructType:
		return "struct{...}"
	}
	return fmt.Sprintf("%T", e)
}

func loadWalkSchema() (*WalkSchema, error) {
	fset, files, err := parseJSPackage()
	if err != nil {
		return nil, err
	}
	astFile, ok := files["ast.go"]
	if !ok {
		return nil, fmt.Errorf("js/ast.go not found")
	}
	walkFile, ok := files["walk.go"]
	if !ok {
		return nil, fmt.Errorf("js/walk.go not found")
	}
	// all type declarations and methods of the package
	typeDecl := map[string]ast.Expr{}
	methods := map[string]map[string]bool{}
	var names []string
	for _, fn := range sortedKeys(files) {
		for _, d := range files[fn].Decls {
			switch d := d.(type) {
			case *ast.GenDecl:
				if d.Tok != token.TYPE {
					continue
				}
				for _, s := range d.Specs {
					ts := s.(*ast.TypeSpec)
					typeDecl[ts.Name.Name] = ts.Type
				}
			case *ast.FuncDecl:
				if d.Recv == nil || len(d.Recv.List) != 1 {
					continue
				}
				rt := d.Recv.List[0].Type
				if st, ok := rt.(*ast.StarExpr); ok {
					rt = st.X
				}
				id, ok := rt.(*ast.Ident)
				if !ok {
					continue
				}
				if methods[id.Name] == nil {
					methods[id.Name] = map[string]bool{}
				}
				methods[id.Name][d.Name.Name] = true
			}
		}
	}
	// struct types in the order of their declaration in ast.go (stable numbering)
	for _, d := range astFile.Decls {
		gd, ok := d.(*ast.GenDecl)
		if !ok || gd.Tok != token.TYPE {
			continue
		}
		for _, s := range gd.Specs {
			ts := s.(*ast.TypeSpec)
			if _, ok := ts.Type.(*ast.StructType); ok {
				names = append(names, ts.Name.Name)
			}
		}
	}
	// INode and the interfaces that embed it
	inode, ok := typeDecl["INode"].(*ast.InterfaceType)
	if !ok {
		return nil, fmt.Errorf("ast.go: interface INode not found")
	}
	var inodeMethods []string
	for _, m := range inode.Methods.List {
		if len(m.Names) != 1 {
			return nil, fmt.Errorf("ast.go: INode embeds another interface; not supported")
		}
		inodeMethods = append(inodeMethods, m.Names[0].Name)
	}
	ws := &WalkSchema{Index: map[string]int{}}
	isIface := map[string]bool{"INode": true}
	for _, n := range sortedKeysE(typeDecl) {
		it, ok := typeDecl[n].(*ast.InterfaceType)
		if !ok || n == "INode" {
			continue
		}
		for _, m := range it.Methods.List {
			if len(m.Names) == 0 {
				if id, ok := m.Type.(*ast.Ident); ok && id.Name == "INode" {
					isIface[n] = true
				}
			}
		}
	}
	for n := range isIface {
		ws.Ifaces = append(ws.Ifaces, n)
	}
	sort.Strings(ws.Ifaces)
	// method sets with promotion through embedded struct fields
	var methodSet func(n string, seen map[string]bool) map[string]bool
	methodSet = func(n string, seen map[string]bool) map[string]bool {
		out := map[string]bool{}
		if seen[n] {
			return out
		}
		seen[n] = true
		for m := range methods[n] {
			out[m] = true
		}
		if st, ok := typeDecl[n].(*ast.StructType); ok {
			for _, f := range st.Fields.List {
				if len(f.Names) != 0 {
					continue
				}
				t := f.Type
				if s, ok := t.(*ast.StarExpr); ok {
					t = s.X
				}
				if id, ok := t.(*ast.Ident); ok {
					for m := range methodSet(id.Name, seen) {
						out[m] = true
					}
				}
			}
		}
		return out
	}
	isNode := map[string]bool{}
	for _, n := range names {
		ms := methodSet(n, map[string]bool{})
		all := true
		for _, m := range inodeMethods {
			if !ms[m] {
				all = false
			}
		}
		if all {
			isNode[n] = true
			ws.Index[n] = len(ws.Types)
			ws.Types = append(ws.Types, &wType{Name: n})
		}
	}
	// does a type expression mention node types at all (through non-node helper structs, slices, ...)?
	var mentionsNodes func(e ast.Expr, seen map[string]bool) bool
	mentionsNodes = func(e ast.Expr, seen map[string]bool) bool {
		switch t := e.(type) {
		case *ast.Ident:
			if isNode[t.Name] || isIface[t.Name] {
				return true
			}
			if seen[t.Name] {
				return false
			}
			seen[t.Name] = true
			if d, ok := typeDecl[t.Name]; ok {
				return mentionsNodes(d, seen)
			}
			return false
		case *ast.StarExpr:
			return mentionsNodes(t.X, seen)
		case *ast.ArrayType:
			return mentionsNodes(t.Elt, seen)
		case *ast.MapType:
			return mentionsNodes(t.Key, seen) || mentionsNodes(t.Value, seen)
		case *ast.StructType:
			for _, f := range t.Fields.List {
				if mentionsNodes(f.Type, seen) {
					return true
				}
			}
			return false
		case *ast.InterfaceType, *ast.FuncType, *ast.SelectorExpr:
			return false
		}
		return true // unknown type syntax: be conservative
	}
	// schema
	for _, wt := range ws.Types {
		st := typeDecl[wt.Name].(*ast.StructType)
		for _, f := range st.Fields.List {
			fnames := []string{}
			emb := len(f.Names) == 0
			if emb {
				t := f.Type
				if s, ok := t.(*ast.StarExpr); ok {
					t = s.X
				}
				id, ok := t.(*ast.Ident)
				if !ok {
					if mentionsNodes(f.Type, map[string]bool{}) {
						return nil, fmt.Errorf("%s: embedded field of type %s is not supported", wt.Name, typeString(f.Type))
					}
					continue
				}
				fnames = append(fnames, id.Name)
			} else {
				for _, n := range f.Names {
					fnames = append(fnames, n.Name)
				}
			}
			for _, fname := range fnames {
				kind, target := -1, -1
				switch t := f.Type.(type) {
				case *ast.Ident:
					if isIface[t.Name] {
						kind = wkOptI
					} else if isNode[t.Name] {
						kind, target = wkOne, ws.Index[t.Name]
					}
				case *ast.StarExpr:
					if id, ok := t.X.(*ast.Ident); ok && isNode[id.Name] {
						kind, target = wkOptP, ws.Index[id.Name]
					}
				case *ast.ArrayType:
					if t.Len == nil {
						if id, ok := t.Elt.(*ast.Ident); ok {
							if isIface[id.Name] {
								kind = wkListI
							} else if isNode[id.Name] {
								kind, target = wkListS, ws.Index[id.Name]
							}
						}
					}
				}
				if reason, ex := walkExcludedReason(wt.Name, fname, typeString(f.Type)); ex {
					ws.Excluded = append(ws.Excluded, wExcluded{wt.Name, fname, typeString(f.Type), reason})
					continue
				}
				if kind < 0 {
					if mentionsNodes(f.Type, map[string]bool{}) {
						return nil, fmt.Errorf("%s.%s: type %s contains AST nodes in a shape the schema cannot express (not T, *T, []T, I, []I) and is not excluded by name", wt.Name, fname, typeString(f.Type))
					}
					continue
				}
				wt.Fields = append(wt.Fields, wField{Name: fname, Kind: kind, Target: target, Embedded: emb})
			}
		}
	}
	if err := ws.readWalk(fset, walkFile); err != nil {
		return nil, err
	}
	return ws, nil
}

func sortedKeys(m map[string]*ast.File) []string {
	var ks []string
	for k := range m {
		ks = append(ks, k)
	}
	sort.Strings(ks)
	return ks
}

func sortedKeysE(m map[string]ast.Expr) []string {
	var ks []string
	for k := range m {
		ks = append(ks, k)
	}
	sort.Strings(ks)
	return ks
}

func (ws *WalkSchema) fieldIndex(t *wType, name string) int {
	for i, f := range t.Fields {
		if f.Name == name {
			return i
		}
	}
	return -1
}

// ---- walk.go ------------------------------------------------------------------------------------

type walkReader struct {
	ws   *WalkSchema
	fset *token.FileSet
	v, n string // names of the visitor and node parameters
}

func (r *walkReader) errf(n ast.Node, format string, a ...interface{}) error {
	return fmt.Errorf("%s: %s", r.fset.Position(n.Pos()), fmt.Sprintf(format, a...))
}

func isIdent(e ast.Expr, name string) bool {
	id, ok := e.(*ast.Ident)
	return ok && id.Name == name
}

// selOf matches `base.F` and returns F.
func selOf(e ast.Expr, base string) (string, bool) {
	s, ok := e.(*ast.SelectorExpr)
	if !ok || !isIdent(s.X, base) {
		return "", false
	}
	return s.Sel.Name, true
}

// walkCall matches `Walk(v, <arg>)` as a statement and returns <arg>.
func (r *walkReader) walkCall(s ast.Stmt) (ast.Expr, bool) {
	es, ok := s.(*ast.ExprStmt)
	if !ok {
		return nil, false
	}
	c, ok := es.X.(*ast.CallExpr)
	if !ok || !isIdent(c.Fun, "Walk") || len(c.Args) != 2 || !isIdent(c.Args[0], r.v) || c.Ellipsis.IsValid() {
		return nil, false
	}
	return c.Args[1], true
}

// neNil matches `base.F != nil` and returns F.
func neNil(e ast.Expr, base string) (string, bool) {
	b, ok := e.(*ast.BinaryExpr)
	if !ok || b.Op != token.NEQ || !isIdent(b.Y, "nil") {
		return "", false
	}
	return selOf(b.X, base)
}

// simpleVisit matches Walk(v, base.F) / Walk(v, &base.F).
func (r *walkReader) simpleVisit(s ast.Stmt, base string) (field string, addr bool, ok bool) {
	arg, ok := r.walkCall(s)
	if !ok {
		return "", false, false
	}
	if u, isU := arg.(*ast.UnaryExpr); isU && u.Op == token.AND {
		f, ok := selOf(u.X, base)
		return f, true, ok
	}
	f, ok := selOf(arg, base)
	return f, false, ok
}

// altChain matches  if base.A != nil { Walk(v, base.A) } else if base.B != nil { Walk(v, base.B) } else { Walk(v, [&]base.C) }
func (r *walkReader) altChain(s *ast.IfStmt, base string) (fields []string, shapes []int, err error) {
	for {
		if s.Init != nil {
			return nil, nil, r.errf(s, "if statement with an init clause")
		}
		g, ok := neNil(s.Cond, base)
		if !ok {
			return nil, nil, r.errf(s, "if condition is not `%s.F != nil`", base)
		}
		if len(s.Body.List) != 1 {
			return nil, nil, r.errf(s, "guarded block is not a single Walk call")
		}
		f, addr, ok := r.simpleVisit(s.Body.List[0], base)
		if !ok || addr || f != g {
			return nil, nil, r.errf(s, "guarded block is not `Walk(%s, %s.%s)`", r.v, base, g)
		}
		fields = append(fields, f)
		shapes = append(shapes, wsGuard)
		switch e := s.Else.(type) {
		case nil:
			return fields, shapes, nil
		case *ast.IfStmt:
			s = e
		case *ast.BlockStmt:
			if len(e.List) != 1 {
				return nil, nil, r.errf(e, "else block is not a single Walk call")
			}
			f, addr, ok := r.simpleVisit(e.List[0], base)
			if !ok {
				return nil, nil, r.errf(e, "else block is not `Walk(%s, [&]%s.F)`", r.v, base)
			}
			fields = append(fields, f)
			if addr {
				shapes = append(shapes, wsAddr)
			} else {
				shapes = append(shapes, wsDirect)
			}
			return fields, shapes, nil
		default:
			return nil, nil, r.errf(s, "unsupported else")
		}
	}
}

// idxLoop matches  for i := 0; i < len(n.F); i++ { Walk(v, [&]n.F[i]) }
func (r *walkReader) idxLoop(s *ast.ForStmt) (field string, addr bool, err error) {
	as, ok := s.Init.(*ast.AssignStmt)
	if !ok || as.Tok != token.DEFINE || len(as.Lhs) != 1 || len(as.Rhs) != 1 {
		return "", false, r.errf(s, "loop init is not `i := 0`")
	}
	iv, ok := as.Lhs[0].(*ast.Ident)
	if lit, ok2 := as.Rhs[0].(*ast.BasicLit); !ok || !ok2 || lit.Value != "0" {
		return "", false, r.errf(s, "loop init is not `i := 0`")
	}
	c, ok := s.Cond.(*ast.BinaryExpr)
	if !ok || c.Op != token.LSS || !isIdent(c.X, iv.Name) {
		return "", false, r.errf(s, "loop condition is not `i < len(n.F)`")
	}
	lc, ok := c.Y.(*ast.CallExpr)
	if !ok || !isIdent(lc.Fun, "len") || len(lc.Args) != 1 {
		return "", false, r.errf(s, "loop condition is not `i < len(n.F)`")
	}
	f, ok := selOf(lc.Args[0], r.n)
	if !ok {
		return "", false, r.errf(s, "loop condition is not `i < len(n.F)`")
	}
	inc, ok := s.Post.(*ast.IncDecStmt)
	if !ok || inc.Tok != token.INC || !isIdent(inc.X, iv.Name) {
		return "", false, r.errf(s, "loop post statement is not `i++`")
	}
	if len(s.Body.List) != 1 {
		return "", false, r.errf(s, "loop body is not a single Walk call")
	}
	arg, ok := r.walkCall(s.Body.List[0])
	if !ok {
		return "", false, r.errf(s, "loop body is not a single Walk call")
	}
	if u, isU := arg.(*ast.UnaryExpr); isU && u.Op == token.AND {
		arg, addr = u.X, true
	}
	ix, ok := arg.(*ast.IndexExpr)
	if !ok || !isIdent(ix.Index, iv.Name) {
		return "", false, r.errf(s, "loop body does not walk n.%s[i]", f)
	}
	if g, ok := selOf(ix.X, r.n); !ok || g != f {
		return "", false, r.errf(s, "loop body does not walk n.%s[i]", f)
	}
	return f, addr, nil
}

func (r *walkReader) readArm(t *wType, body []ast.Stmt) error {
	ws := r.ws
	add := func(n ast.Node, shape int, fname string) error {
		fi := ws.fieldIndex(t, fname)
		if fi < 0 {
			return r.errf(n, "%s.%s is walked but is not a node-valued field of the schema", t.Name, fname)
		}
		t.Visits = append(t.Visits, wVisit{Shapes: []int{shape}, Fields: []int{fi}})
		return nil
	}
	if len(body) == 1 {
		if rs, ok := body[0].(*ast.ReturnStmt); ok && len(rs.Results) == 0 {
			return nil
		}
	}
	for _, s := range body {
		switch s := s.(type) {
		case *ast.ExprStmt:
			f, addr, ok := r.simpleVisit(s, r.n)
			if !ok {
				return r.errf(s, "statement is not `Walk(%s, [&]%s.F)`", r.v, r.n)
			}
			sh := wsDirect
			if addr {
				sh = wsAddr
			}
			if err := add(s, sh, f); err != nil {
				return err
			}
		case *ast.IfStmt:
			if s.Init != nil {
				return r.errf(s, "if statement with an init clause")
			}
			g, ok := neNil(s.Cond, r.n)
			if !ok {
				return r.errf(s, "if condition is not `%s.F != nil`", r.n)
			}
			// `if n.F != nil { for ... }` : the guard of a loop over a slice changes nothing
			if len(s.Body.List) == 1 && s.Else == nil {
				if fs, ok := s.Body.List[0].(*ast.ForStmt); ok {
					f, addr, err := r.idxLoop(fs)
					if err != nil {
						return err
					}
					if f != g {
						return r.errf(s, "guard on %s around a loop over %s", g, f)
					}
					sh := wsLoopIdx
					if addr {
						sh = wsLoopIdxAddr
					}
					if err := add(s, sh, f); err != nil {
						return err
					}
					continue
				}
			}
			fields, shapes, err := r.altChain(s, r.n)
			if err != nil {
				return err
			}
			if len(fields) == 1 {
				if err := add(s, wsGuard, fields[0]); err != nil {
					return err
				}
				continue
			}
			v := wVisit{Alt: true}
			var grp []int
			for i, f := range fields {
				fi := ws.fieldIndex(t, f)
				if fi < 0 {
					return r.errf(s, "%s.%s is walked but is not a node-valued field of the schema", t.Name, f)
				}
				v.Fields = append(v.Fields, fi)
				v.Shapes = append(v.Shapes, shapes[i])
				grp = append(grp, fi)
			}
			t.Visits = append(t.Visits, v)
			t.Alts = append(t.Alts, grp)
		case *ast.ForStmt:
			f, addr, err := r.idxLoop(s)
			if err != nil {
				return err
			}
			sh := wsLoopIdx
			if addr {
				sh = wsLoopIdxAddr
			}
			if err := add(s, sh, f); err != nil {
				return err
			}
		case *ast.RangeStmt:
			if s.Tok != token.DEFINE {
				return r.errf(s, "range loop does not define its variables")
			}
			f, ok2 := selOf(s.X, r.n)
			if !ok2 {
				return r.errf(s, "range loop is not over a field of %s", r.n)
			}
			var item *ast.Ident
			var ifs *ast.IfStmt
			wrapShape := wsLoopWrap
			if key, isId := s.Key.(*ast.Ident); isId && key.Name != "_" && s.Value == nil {
				// for i := range n.F { item := &n.F[i]; if item.A != nil ... }
				if len(s.Body.List) != 2 {
					return r.errf(s, "index range loop is not `for i := range n.F { item := &n.F[i]; <if/else chain> }`")
				}
				as, ok := s.Body.List[0].(*ast.AssignStmt)
				if !ok || as.Tok != token.DEFINE || len(as.Lhs) != 1 || len(as.Rhs) != 1 {
					return r.errf(s, "first statement of the index range loop is not `item := &n.F[i]`")
				}
				it, ok := as.Lhs[0].(*ast.Ident)
				u, ok1 := as.Rhs[0].(*ast.UnaryExpr)
				if !ok || !ok1 || u.Op != token.AND {
					return r.errf(s, "first statement of the index range loop is not `item := &n.F[i]`")
				}
				ix, ok := u.X.(*ast.IndexExpr)
				if !ok || !isIdent(ix.Index, key.Name) {
					return r.errf(s, "first statement of the index range loop is not `item := &n.F[i]`")
				}
				if g, ok := selOf(ix.X, r.n); !ok || g != f {
					return r.errf(s, "first statement of the index range loop is not `item := &n.%s[i]`", f)
				}
				ifs, ok = s.Body.List[1].(*ast.IfStmt)
				if !ok {
					return r.errf(s, "second statement of the index range loop is not an if/else chain over the element")
				}
				item = it
				wrapShape = wsLoopWrapAddr
			} else {
				if !isIdent(s.Key, "_") || s.Value == nil {
					return r.errf(s, "range loop is not `for _, item := range n.F`")
				}
				it, ok := s.Value.(*ast.Ident)
				if !ok || len(s.Body.List) != 1 {
					return r.errf(s, "range loop is not `for _, item := range n.F { <one statement> }`")
				}
				item = it
				if arg, ok := r.walkCall(s.Body.List[0]); ok {
					if !isIdent(arg, item.Name) {
						return r.errf(s, "range loop body is not `Walk(%s, %s)`", r.v, item.Name)
					}
					if err := add(s, wsLoopRange, f); err != nil {
						return err
					}
					continue
				}
				ifs, ok = s.Body.List[0].(*ast.IfStmt)
				if !ok {
					return r.errf(s, "range loop body is neither a Walk call nor an if/else chain over the element")
				}
			}
			fields, shapes, err := r.altChain(ifs, item.Name)
			if err != nil {
				return err
			}
			// the element type must be a struct implementing INode that has no case arm: a wrapper
			fi := -1
			for i, fd := range t.Fields {
				if fd.Name == f {
					fi = i
				}
			}
			if fi < 0 || t.Fields[fi].Kind != wkListS {
				return r.errf(s, "element loop over %s.%s, which is not a slice of structs of the schema", t.Name, f)
			}
			wt := ws.Types[t.Fields[fi].Target]
			if wt.HasArm || wt.Wrapper {
				return r.errf(s, "element type %s of %s.%s is walked inline but also elsewhere", wt.Name, t.Name, f)
			}
			if len(shapes) < 2 || shapes[len(shapes)-1] == wsGuard {
				return r.errf(s, "element loop over %s.%s: the if/else chain has no final else", t.Name, f)
			}
			wt.Wrapper, wt.HasArm = true, true
			v := wVisit{Alt: true}
			var grp []int
			for i, fn := range fields {
				k := ws.fieldIndex(wt, fn)
				if k < 0 {
					return r.errf(s, "%s.%s is walked but is not a node-valued field of the schema", wt.Name, fn)
				}
				v.Fields = append(v.Fields, k)
				v.Shapes = append(v.Shapes, shapes[i])
				grp = append(grp, k)
			}
			wt.Visits = []wVisit{v}
			wt.Alts = [][]int{grp}
			t.Fields[fi].Kind = wkListW
			if err := add(s, wrapShape, f); err != nil {
				return err
			}
		default:
			return r.errf(s, "unsupported statement in a switch arm of Walk")
		}
	}
	return nil
}

func (ws *WalkSchema) readWalk(fset *token.FileSet, f *ast.File) error {
	var fd *ast.FuncDecl
	for _, d := range f.Decls {
		if x, ok := d.(*ast.FuncDecl); ok && x.Name.Name == "Walk" && x.Recv == nil {
			fd = x
		}
	}
	if fd == nil {
		return fmt.Errorf("walk.go: func Walk not found")
	}
	r := &walkReader{ws: ws, fset: fset}
	ps := fd.Type.Params.List
	if len(ps) != 2 || len(ps[0].Names) != 1 || len(ps[1].Names) != 1 || !isIdent(ps[0].Type, "IVisitor") || !isIdent(ps[1].Type, "INode") {
		return r.errf(fd, "Walk is not func(v IVisitor, n INode)")
	}
	r.v, r.n = ps[0].Names[0].Name, ps[1].Names[0].Name
	b := fd.Body.List
	if len(b) != 4 {
		return r.errf(fd, "Walk's body is not: nil check; Enter; defer Exit; type switch (%d statements)", len(b))
	}
	// 1. if n == nil { return }
	if s, ok := b[0].(*ast.IfStmt); !ok || s.Init != nil || s.Else != nil || !isRetOnly(s.Body) || !isBin(s.Cond, token.EQL, r.n, "nil") {
		return r.errf(b[0], "first statement is not `if %s == nil { return }`", r.n)
	}
	// 2. if v = v.Enter(n); v == nil { return }
	okEnter := false
	if s, ok := b[1].(*ast.IfStmt); ok && s.Else == nil && isRetOnly(s.Body) && isBin(s.Cond, token.EQL, r.v, "nil") {
		if as, ok := s.Init.(*ast.AssignStmt); ok && as.Tok == token.ASSIGN && len(as.Lhs) == 1 && len(as.Rhs) == 1 && isIdent(as.Lhs[0], r.v) {
			okEnter = isMethodCall(as.Rhs[0], r.v, "Enter", r.n)
		}
	}
	if !okEnter {
		return r.errf(b[1], "second statement is not `if %s = %s.Enter(%s); %s == nil { return }`", r.v, r.v, r.n, r.v)
	}
	// 3. defer v.Exit(n)
	if s, ok := b[2].(*ast.DeferStmt); !ok || !isMethodCall(s.Call, r.v, "Exit", r.n) {
		return r.errf(b[2], "third statement is not `defer %s.Exit(%s)`", r.v, r.n)
	}
	// 4. switch n := n.(type) { ... }
	sw, ok := b[3].(*ast.TypeSwitchStmt)
	if !ok || sw.Init != nil {
		return r.errf(b[3], "fourth statement is not a type switch")
	}
	as, ok := sw.Assign.(*ast.AssignStmt)
	if !ok || len(as.Lhs) != 1 || len(as.Rhs) != 1 || !isIdent(as.Lhs[0], r.n) {
		return r.errf(sw, "type switch is not `switch %s := %s.(type)`", r.n, r.n)
	}
	if ta, ok := as.Rhs[0].(*ast.TypeAssertExpr); !ok || ta.Type != nil || !isIdent(ta.X, r.n) {
		return r.errf(sw, "type switch is not `switch %s := %s.(type)`", r.n, r.n)
	}
	seenDefault := false
	for _, cs := range sw.Body.List {
		cc := cs.(*ast.CaseClause)
		if cc.List == nil {
			if !isRetOnly(&ast.BlockStmt{List: cc.Body}) {
				return r.errf(cc, "default arm is not `return`")
			}
			seenDefault = true
			continue
		}
		if len(cc.List) != 1 {
			return r.errf(cc, "case with several types")
		}
		st, ok := cc.List[0].(*ast.StarExpr)
		if !ok {
			return r.errf(cc, "case type is not a pointer to a node struct")
		}
		id, ok := st.X.(*ast.Ident)
		if !ok {
			return r.errf(cc, "case type is not a pointer to a node struct")
		}
		ti, ok := ws.Index[id.Name]
		if !ok {
			return r.errf(cc, "case *%s: not a struct type of ast.go that implements INode", id.Name)
		}
		t := ws.Types[ti]
		if t.HasArm {
			return r.errf(cc, "case *%s: second arm / type is also walked inline", id.Name)
		}
		t.HasArm = true
		if err := r.readArm(t, cc.Body); err != nil {
			return err
		}
	}
	_ = seenDefault
	return nil
}

func isRetOnly(b *ast.BlockStmt) bool {
	if len(b.List) != 1 {
		return false
	}
	rs, ok := b.List[0].(*ast.ReturnStmt)
	return ok && len(rs.Results) == 0
}

func isBin(e ast.Expr, op token.Token, x, y string) bool {
	b, ok := e.(*ast.BinaryExpr)
	return ok && b.Op == op && isIdent(b.X, x) && isIdent(b.Y, y)
}

func isMethodCall(e ast.Expr, recv, meth, arg string) bool {
	c, ok := e.(*ast.CallExpr)
	if !ok || len(c.Args) != 1 || !isIdent(c.Args[0], arg) {
		return false
	}
	s, ok := c.Fun.(*ast.SelectorExpr)
	return ok && isIdent(s.X, recv) && s.Sel.Name == meth
}

// ---- emission -----------------------------------------------------------------------------------

func (ws *WalkSchema) coq() string {
	var sb strings.Builder
	sb.WriteString("(* GENERATED by `harness gen walkschema` from /repo/js/ast.go and /repo/js/walk.go. Do not edit.\n")
	sb.WriteString("   Node types = struct types of ast.go whose method set (with promotion through embedded structs)\n")
	sb.WriteString("   contains the methods of INode. Node interfaces: " + strings.Join(ws.Ifaces, ", ") + ".\n")
	sb.WriteString("   Fields are numbered per type in declaration order, node-valued fields only.\n\n")
	sb.WriteString("   EXCLUDED BY NAME (not part of the schema; Walk is expected not to visit them):\n")
	for _, e := range ws.Excluded {
		fmt.Fprintf(&sb, "     %s.%s : %s -- %s\n", e.Type, e.Field, e.GoType, e.Reason)
	}
	sb.WriteString("   The struct Scope itself is not a node type (it has no JS method).\n\n")
	sb.WriteString("   WRAPPER types implement INode syntactically but are never passed to Enter: Walk handles them\n")
	sb.WriteString("   inline in the element loop of their parent (`for i := range n.List { item := &n.List[i]; if item.A != nil ... }`;\n")
	sb.WriteString("   the by-value form `for _, item := range n.List { ... }` is translated as SLoopWrap: its elements are COPIES).\n")
	sb.WriteString("   ALTERNATIVE groups are the fields of one if/else-if/else chain of walk.go (at most one is set). *)\n")
	sb.WriteString("From Coq Require Import List.\nFrom Verif Require Import Walk.Schema.\nImport ListNotations.\n\n")
	fmt.Fprintf(&sb, "Definition gen_ntypes : nat := %d.\n\n", len(ws.Types))
	for i, t := range ws.Types {
		fmt.Fprintf(&sb, "Definition T_%s : ty := %d.\n", t.Name, i)
	}
	sb.WriteString("\n")
	for _, t := range ws.Types {
		for j, f := range t.Fields {
			fmt.Fprintf(&sb, "Definition F_%s_%s : field := %d.\n", t.Name, f.Name, j)
		}
	}
	sb.WriteString("\n(* schema: per node type the node-valued fields (ast.go) *)\nDefinition gen_schema : list (list fdesc) :=\n  [")
	for i, t := range ws.Types {
		if i > 0 {
			sb.WriteString(";\n   ")
		}
		fmt.Fprintf(&sb, "(* %d %s *) [", i, t.Name)
		for j, f := range t.Fields {
			if j > 0 {
				sb.WriteString("; ")
			}
			tg := "None"
			if f.Target >= 0 {
				tg = fmt.Sprintf("(Some T_%s)", ws.Types[f.Target].Name)
			}
			fmt.Fprintf(&sb, "mkf F_%s_%s %s %s", t.Name, f.Name, wkNames[f.Kind], tg)
		}
		sb.WriteString("]")
	}
	sb.WriteString("].\n\n(* wrapper types *)\nDefinition gen_wrapper : list bool :=\n  [")
	for i, t := range ws.Types {
		if i > 0 {
			sb.WriteString("; ")
		}
		if t.Wrapper {
			sb.WriteString("true")
		} else {
			sb.WriteString("false")
		}
	}
	sb.WriteString("].\n\n(* alternative groups per type *)\nDefinition gen_alts : list (list (list field)) :=\n  [")
	for i, t := range ws.Types {
		if i > 0 {
			sb.WriteString("; ")
		}
		sb.WriteString("[")
		for j, g := range t.Alts {
			if j > 0 {
				sb.WriteString("; ")
			}
			sb.WriteString("[")
			for k, f := range g {
				if k > 0 {
					sb.WriteString("; ")
				}
				fmt.Fprintf(&sb, "F_%s_%s", t.Name, t.Fields[f].Name)
			}
			sb.WriteString("]")
		}
		sb.WriteString("]")
	}
	sb.WriteString("].\n\n(* walk.go: per node type the switch arm (None = no arm: `default: return`), visits in source order *)\nDefinition gen_table : list (option (list visit)) :=\n  [")
	for i, t := range ws.Types {
		if i > 0 {
			sb.WriteString(";\n   ")
		}
		fmt.Fprintf(&sb, "(* %d %s *) ", i, t.Name)
		if !t.HasArm {
			sb.WriteString("None")
			continue
		}
		sb.WriteString("Some [")
		for j, v := range t.Visits {
			if j > 0 {
				sb.WriteString("; ")
			}
			if !v.Alt {
				fmt.Fprintf(&sb, "V1 %s F_%s_%s", wsNames[v.Shapes[0]], t.Name, t.Fields[v.Fields[0]].Name)
			} else {
				sb.WriteString("VAlt [")
				for k := range v.Fields {
					if k > 0 {
						sb.WriteString("; ")
					}
					fmt.Fprintf(&sb, "(%s, F_%s_%s)", wsNames[v.Shapes[k]], t.Name, t.Fields[v.Fields[k]].Name)
				}
				sb.WriteString("]")
			}
		}
		sb.WriteString("]")
	}
	sb.WriteString("].\n")
	return sb.String()
}

func genWalkSchema(out string) error {
	ws, err := loadWalkSchema()
	if err != nil {
		return err
	}
	return writeIfChanged(out, []byte(ws.coq()))
}

func init() { gens["walkschema"] = genWalkSchema }
