package main

import (
	"bytes"
	"fmt"
	"io"
	"unicode/utf8"
	"unsafe"

	"github.com/tdewolff/parse/v2"
	"github.com/tdewolff/parse/v2/css"
	"github.com/tdewolff/parse/v2/html"
	"github.com/tdewolff/parse/v2/js"
	"github.com/tdewolff/parse/v2/xml"
)

// ---- C02: tokens are faithful, ordered, non-empty slices of the input (oracle on the real lexers) ---------

// c02Off returns the offset of tok inside buf, or -1 if it does not lie inside.
func c02Off(tok, buf []byte) int {
	if len(tok) == 0 || cap(buf) == 0 {
		return -1
	}
	base := uintptr(unsafe.Pointer(&buf[:1][0]))
	p := uintptr(unsafe.Pointer(&tok[0]))
	if p < base || p+uintptr(len(tok)) > base+uintptr(len(buf)) {
		return -1
	}
	return int(p - base)
}

func c02Sub(part, tok []byte) bool {
	if len(part) == 0 {
		return true
	}
	return c02Off(part, tok) >= 0
}

func c02IsWS(c byte) bool { return c == ' ' || c == '\t' || c == '\n' || c == '\r' || c == '\f' }

type c02Fail struct{ key, msg string }

// appendCheck appends to the token and verifies that the lexer's buffer is untouched.
func c02AppendCheck(tok []byte, in *parse.Input) bool {
	if len(tok) == 0 {
		return true
	}
	before := append([]byte{}, in.Bytes()...)
	_ = append(tok, 0xAA, 0xBB)
	return bytes.Equal(before, in.Bytes())
}

func c02CSS(src []byte) *c02Fail {
	in := parse.NewInputBytes(append([]byte{}, src...))
	l := css.NewLexer(in)
	pos := 0
	for i := 0; i < 4*len(src)+8; i++ {
		tt, tok := l.Next()
		if tt == css.ErrorToken {
			if l.Err() == io.EOF && pos != len(src) {
				return &c02Fail{"c02-css-tiling", fmt.Sprintf("css: EOF at %d but tokens cover only %d of %d bytes", in.Offset(), pos, len(src))}
			}
			return nil
		}
		if len(tok) == 0 {
			return &c02Fail{"c02-css-empty", fmt.Sprintf("css: empty %v token at %d", tt, pos)}
		}
		if off := c02Off(tok, in.Bytes()); off != pos || pos+len(tok) != in.Offset() {
			return &c02Fail{"c02-css-tiling", fmt.Sprintf("css: token %v %q at offset %d, expected to start at %d and end at the cursor %d", tt, tok, off, pos, in.Offset())}
		}
		if !bytes.Equal(tok, src[pos:pos+len(tok)]) {
			return &c02Fail{"c02-css-altered", fmt.Sprintf("css: token %q differs from input %q", tok, src[pos:pos+len(tok)])}
		}
		if !c02AppendCheck(tok, in) {
			return &c02Fail{"c02-css-append", fmt.Sprintf("css: appending to token %q overwrote input bytes", tok)}
		}
		// re-lex the token's text on its own
		l2 := css.NewLexer(parse.NewInputBytes(append([]byte{}, tok...)))
		t2, b2 := l2.Next()
		t3, _ := l2.Next()
		if t2 != tt || !bytes.Equal(b2, tok) || t3 != css.ErrorToken {
			return &c02Fail{"c02-css-relex:" + tt.String(), fmt.Sprintf("css: token %v %q lexed on its own gives %v %q then %v", tt, tok, t2, b2, t3)}
		}
		pos += len(tok)
	}
	return &c02Fail{"c02-css-hang", "css: no end"}
}

func c02JS(src []byte) *c02Fail {
	in := parse.NewInputBytes(append([]byte{}, src...))
	l := js.NewLexer(in)
	pos := 0
	for i := 0; i < 4*len(src)+8; i++ {
		tt, tok := l.Next()
		if tt == js.ErrorToken {
			if l.Err() == io.EOF && pos != len(src) {
				return &c02Fail{"c02-js-tiling", fmt.Sprintf("js: EOF but tokens cover only %d of %d bytes", pos, len(src))}
			}
			return nil // first lexical error: the claim ends here
		}
		if len(tok) == 0 {
			return &c02Fail{"c02-js-empty", fmt.Sprintf("js: empty %v token at %d", tt, pos)}
		}
		if off := c02Off(tok, in.Bytes()); off != pos || pos+len(tok) != in.Offset() {
			return &c02Fail{"c02-js-tiling", fmt.Sprintf("js: token %v %q at offset %d, expected to start at %d and end at the cursor %d", tt, tok, off, pos, in.Offset())}
		}
		if !bytes.Equal(tok, src[pos:pos+len(tok)]) {
			return &c02Fail{"c02-js-altered", fmt.Sprintf("js: token %q differs from input", tok)}
		}
		if !c02AppendCheck(tok, in) {
			return &c02Fail{"c02-js-append", fmt.Sprintf("js: appending to token %q overwrote input bytes", tok)}
		}
		l2 := js.NewLexer(parse.NewInputBytes(append([]byte{}, tok...)))
		t2, b2 := l2.Next()
		t3, _ := l2.Next()
		if t2 != tt || !bytes.Equal(b2, tok) || t3 != js.ErrorToken || l2.Err() != io.EOF {
			return &c02Fail{"c02-js-relex:" + tt.String(), fmt.Sprintf("js: token %v %q lexed on its own gives %v %q then %v (%v)", tt, tok, t2, b2, t3, l2.Err())}
		}
		pos += len(tok)
	}
	return &c02Fail{"c02-js-hang", "js: no end"}
}

func c02HTML(src []byte, tmpl *[2]string) *c02Fail {
	in := parse.NewInputBytes(append([]byte{}, src...))
	var l *html.Lexer
	if tmpl == nil {
		l = html.NewLexer(in)
	} else {
		l = html.NewTemplateLexer(in, *tmpl)
	}
	pos := 0
	inTag := false
	for i := 0; i < 4*len(src)+8; i++ {
		tt, tok := l.Next()
		if tt == html.ErrorToken {
			// bytes after the last token up to the cursor may only be whitespace inside a tag
			for _, c := range src[pos:in.Offset()] {
				if !c02IsWS(c) || !inTag {
					gap := bytes.ToLower(src[pos:in.Offset()])
					if l.Err() != io.EOF && (bytes.HasPrefix(gap, []byte("<svg")) || bytes.HasPrefix(gap, []byte("<math"))) {
						return &c02Fail{"c02-html-gap:nul-in-svg-math", fmt.Sprintf("html: an embedded NUL inside svg/math content is reported as an error and the bytes %q read so far are not returned as a token", src[pos:in.Offset()])}
					}
					return &c02Fail{"c02-html-gap", fmt.Sprintf("html: bytes %q before the end are not covered by a token", src[pos:in.Offset()])}
				}
			}
			return nil
		}
		if len(tok) == 0 {
			return &c02Fail{"c02-html-empty", fmt.Sprintf("html: empty %v token at %d", tt, pos)}
		}
		off := c02Off(tok, in.Bytes())
		if off < pos || off+len(tok) != in.Offset() {
			return &c02Fail{"c02-html-order", fmt.Sprintf("html: token %v %q at offset %d (previous end %d, cursor %d)", tt, tok, off, pos, in.Offset())}
		}
		for _, c := range src[pos:off] {
			if !c02IsWS(c) || !inTag {
				return &c02Fail{"c02-html-gap", fmt.Sprintf("html: bytes %q between tokens are not whitespace inside a tag", src[pos:off])}
			}
		}
		text, key, val := l.Text(), l.AttrKey(), l.AttrVal()
		if !c02Sub(text, tok) || (tt == html.AttributeToken && (!c02Sub(key, tok) || !c02Sub(val, tok))) {
			return &c02Fail{"c02-html-subslice", fmt.Sprintf("html: Text/AttrKey/AttrVal of %v %q is not a sub-slice of the token", tt, tok)}
		}
		// altered bytes: only the ASCII case of tag and attribute names
		orig := src[off : off+len(tok)]
		for k := range tok {
			if tok[k] == orig[k] {
				continue
			}
			lower := orig[k] >= 'A' && orig[k] <= 'Z' && tok[k] == orig[k]+('a'-'A')
			okRegion := false
			switch tt {
			case html.StartTagToken:
				okRegion = true
			case html.AttributeToken:
				if ko := c02Off(key, tok); ko >= 0 {
					okRegion = k >= ko && k < ko+len(key)
				}
			case html.EndTagToken:
				nameEnd := 2
				for nameEnd < len(orig) && !c02IsWS(orig[nameEnd]) && orig[nameEnd] != '>' && orig[nameEnd] != '/' {
					nameEnd++
				}
				okRegion = k < nameEnd
				if lower && !okRegion {
					return &c02Fail{"c02-case:endtag", fmt.Sprintf("html: end tag %q is lower-cased beyond its name: %q", orig, tok)}
				}
			}
			if !lower || !okRegion {
				return &c02Fail{"c02-html-altered:" + tt.String(), fmt.Sprintf("html: token %v alters input %q to %q at byte %d", tt, orig, tok, k)}
			}
		}
		if !c02AppendCheck(tok, in) {
			return &c02Fail{"c02-html-append", fmt.Sprintf("html: appending to token %q overwrote input bytes", tok)}
		}
		switch tt {
		case html.StartTagToken:
			inTag = true
		case html.StartTagCloseToken, html.StartTagVoidToken:
			inTag = false
		}
		pos = off + len(tok)
	}
	return &c02Fail{"c02-html-hang", "html: no end"}
}

func c02XML(src []byte) *c02Fail {
	in := parse.NewInputBytes(append([]byte{}, src...))
	l := xml.NewLexer(in)
	pos := 0
	inTag := false
	for i := 0; i < 4*len(src)+8; i++ {
		tt, tok := l.Next()
		if tt == xml.ErrorToken {
			for _, c := range src[pos:in.Offset()] {
				if !c02IsWS(c) || !inTag {
					return &c02Fail{"c02-xml-gap", fmt.Sprintf("xml: bytes %q before the end are not covered by a token", src[pos:in.Offset()])}
				}
			}
			return nil
		}
		if len(tok) == 0 {
			return &c02Fail{"c02-xml-empty", fmt.Sprintf("xml: empty %v token at %d", tt, pos)}
		}
		off := c02Off(tok, in.Bytes())
		if off < pos || off+len(tok) != in.Offset() {
			return &c02Fail{"c02-xml-order", fmt.Sprintf("xml: token %v %q at offset %d (previous end %d, cursor %d)", tt, tok, off, pos, in.Offset())}
		}
		for _, c := range src[pos:off] {
			if !c02IsWS(c) || !inTag {
				return &c02Fail{"c02-xml-gap", fmt.Sprintf("xml: bytes %q between tokens are not whitespace inside a tag", src[pos:off])}
			}
		}
		text, val := l.Text(), l.AttrVal()
		if !c02Sub(text, tok) || (tt == xml.AttributeToken && !c02Sub(val, tok)) {
			return &c02Fail{"c02-xml-subslice", fmt.Sprintf("xml: Text/AttrVal of %v %q is not a sub-slice of the token", tt, tok)}
		}
		orig := src[off : off+len(tok)]
		valOff := -1
		if tt == xml.AttributeToken && len(val) > 0 {
			valOff = c02Off(val, tok)
		}
		for k := range tok {
			if tok[k] == orig[k] {
				continue
			}
			inQuoted := valOff >= 0 && (val[0] == '"' || val[0] == '\'') && k > valOff && k < valOff+len(val) // the value may be unterminated (NUL or end of input), so its last byte counts
			if !(inQuoted && tok[k] == ' ' && (orig[k] == '\t' || orig[k] == '\n' || orig[k] == '\r')) {
				return &c02Fail{"c02-xml-altered:" + tt.String(), fmt.Sprintf("xml: token %v alters input %q to %q at byte %d", tt, orig, tok, k)}
			}
		}
		if !c02AppendCheck(tok, in) {
			return &c02Fail{"c02-xml-append", fmt.Sprintf("xml: appending to token %q overwrote input bytes", tok)}
		}
		switch tt {
		case xml.StartTagToken, xml.StartTagPIToken:
			inTag = true
		case xml.StartTagCloseToken, xml.StartTagCloseVoidToken, xml.StartTagClosePIToken:
			inTag = false
		}
		pos = off + len(tok)
	}
	return &c02Fail{"c02-xml-hang", "xml: no end"}
}

var c02CSSFrags = []string{"a", "-b", "--c", "\\66 ", "1", "1.5", "1e3", "-2.5e-3px", "50%", "#f0f", "@media", "url(x)", "url( 'y' )", "url(a b)", "URL(", "f(", "\"s\"", "'t\\'u'", "\"v\n", "/* c */", "/*", "<!--", "-->", " ", "\t\n", ":", ";", ",", "{", "}", "(", ")", "[", "]", "~=", "|=", "^=", "$=", "*=", "||", "u+1f??", "U+0-7F", "+", "-", ".", "!important", "\\", "é", "\xF0", "\x00"}
var c02JSFrags = []string{"a", "$b", "\\u0061", "é", "#p", "1", "1.5e3", "0x1F", "0b1n", "1_0", ".5", "1.", "'s'", "\"t\\\"\"", "'u\\\n'", "`v`", "`w${", "}x${", "}y`", "/", "/=", "//c\n", "/*d*/", "/*e\n*/", "<!--f\n", "-->g\n", " ", "\n", " ", "\t", "+", "++", "+=", "=>", "===", "!==", "**=", ">>>=", "??=", "?.", "?.5", "...", "(", ")", "[", "]", "{", "}", ";", ",", ":", "?", "~", "function", "await", "of", "\x00", "\xF0"}
var c02HTMLFrags = []string{"text", " ", "\n", "&amp;", "<a", "<A", "<DiV", " b", " B=c", " d='e'", " F=\"G\"", " h = i", ">", "/>", "</a>", "</A >", "</a X=Y>", "<!--c-->", "<!-- ", "-->", "<!DOCTYPE html>", "<![CDATA[x]]>", "<script>", "</script>", "</SCRIPT>", "<!--", "<script", "x<y", "i<LENGTH;", "'</SCRIPT>'", "<SCRIPT", "</Script ", "<STYLES", "</TITLEx", "<style>", "</style>", "<textarea>", "</textarea>", "<title>", "</title>", "<plaintext>", "<svg>", "</svg>", "<math>", "</math>", "<br/>", "<", ">", "=", "'", "\"", "/", "{{", "}}", "{{ \"}}\" }}", "<%", "%>", "<?", "?>", "\x00", "é"}
var c02XMLFrags = []string{"text", " ", "\n", "\t", "&amp;", "<a", "<b:c", " d='e'", " f=\"g\"", " h=\"i\nj\tk\rl\"", " m", " =", " n\n=\t\"o\"", " p =\n'q'", " r\t=\r\n\"s\tt\"", ">", "/>", "</a>", "</a >", "<!--c-->", "<!--", "-->", "<?xml version=\"1.0\"?>", "<?pi x?>", "?>", "<!DOCTYPE a>", "<!DOCTYPE a [<!ENTITY e \"x>y\">]>", "<![CDATA[x]]>", "]]>", "<", ">", "'", "\"", "/", "\x00", "é"}

func c02Build(r *Rng, frags []string, n int) []byte {
	var b []byte
	for k := 1 + r.Intn(n); k > 0; k-- {
		b = append(b, frags[r.Intn(len(frags))]...)
	}
	return b
}

func c02Oracle(r *Rng, tier string, rep *Report) {
	n := 12000
	if tier == "thorough" {
		n = 400000
	}
	report := func(lexer string, src []byte, f *c02Fail) {
		if f != nil {
			rep.Violate(f.key, f.msg+fmt.Sprintf(" [input %q]", src), map[string]interface{}{"lexer": lexer, "input": hx(src)})
		}
	}
	run := func(src []byte) {
		report("css", src, c02CSS(src))
		if utf8.Valid(src) {
			report("js", src, c02JS(src))
		}
		report("html", src, c02HTML(src, nil))
		report("xml", src, c02XML(src))
		rep.Eval(hx(src), len(src) >= 3, "all")
	}
	// exhaustive small scope over a mixed alphabet
	k := 3
	if tier == "thorough" {
		k = 4
	}
	allStrings([]byte("a1 \n<>/=\"'-!{}(:;.\\*#@`$e+?"), k, run)
	for i := 0; i < n; i++ {
		switch i % 4 {
		case 0:
			src := c02Build(r, c02CSSFrags, 10)
			report("css", src, c02CSS(src))
			rep.Eval(hx(src), len(src) >= 3, "css")
		case 1:
			src := c02Build(r, c02JSFrags, 10)
			if utf8.Valid(src) {
				report("js", src, c02JS(src))
			}
			rep.Eval(hx(src), len(src) >= 3, "js")
		case 2:
			src := c02Build(r, c02HTMLFrags, 12)
			report("html", src, c02HTML(src, nil))
			if i%8 == 2 {
				t := htmlTemplates[r.Intn(len(htmlTemplates))]
				report("html-template", src, c02HTML(src, &t))
			}
			rep.Eval(hx(src), len(src) >= 3, "html")
		default:
			src := c02Build(r, c02XMLFrags, 12)
			report("xml", src, c02XML(src))
			rep.Eval(hx(src), len(src) >= 3, "xml")
		}
	}
	for _, p := range c01Programs {
		run([]byte(p))
	}
}

func init() {
	props["C02"] = &PropSpec{
		Oracles: []*Oracle{{Name: "c02-token-slices", Run: c02Oracle}},
	}
}
