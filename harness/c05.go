package main

import (
	"bytes"
	"fmt"
	"go/ast"
	"go/parser"
	"go/token"
	"reflect"
	"strconv"
	"strings"
	"unicode/utf8"

	"github.com/tdewolff/parse/v2"
	"github.com/tdewolff/parse/v2/js"
)

// C05 — printing a JS tree and parsing the text again gives the same tree.
// Correspondence: the printer model (coq/theories/JsPrint/Print.v, entry run_jsprint) and the model of
// parse.Indenter + the literal / block JS methods (JsPrint/Indent.v, entry run_jsindent) against the real code.
// Oracle: parse -> JS() -> parse -> same String() modulo GroupExpr -> JS() byte-identical (c05Oracle).

func c05PrintImpl(c Case) []int64 {
	_, opts, ts := c03DecToks(c.Args)
	src := c03SpellToks(ts)
	if got, ok := c03Relex(src); !ok || !c03SameToks(got, ts) {
		return []int64{-998}
	}
	var tree *js.AST
	var err error
	if p := catch(func() { tree, err = js.Parse(parse.NewInputBytes(src), c03JsOpts(opts)) }); p != nil {
		return []int64{-1}
	}
	if err != nil {
		return []int64{1}
	}
	var out []byte
	if p := catch(func() { out = []byte(tree.JSString()) }); p != nil {
		return []int64{-2}
	}
	// the last number is the model's separation check of JsPrint/LexBack.v (c06_separated, the hypothesis of
	// print_lex_parse_partial): expected to hold for every tree js.Parse builds from real tokens
	return append(append([]int64{0}, c03EncBytes(out)...), 1)
}

func c05PrintGen(r *Rng, tier string, emit func(Case)) {
	// the token lists of the C03 correspondence (whole programs only), printed instead of rendered
	prattGen(r, tier, func(c Case) {
		if len(c.Args) > 0 && c.Args[0] == 0 {
			emit(Case{Fn: "jsprint", Args: c.Args, Note: c.Note})
		}
	})
	// printer-specific shapes: same-sign unary chains, numeric literals before '.', keyword operators, `let` first
	nums := []c03Jtok{c03TkInt, c03TkDec, c03TkHex, c03Jt(js.DecimalToken, "1e3"), c03Jt(js.DecimalToken, ".5"), c03Jt(js.IntegerToken, "0"),
		c03Jt(js.BinaryToken, "0b11"), c03Jt(js.OctalToken, "0o17"), c03Jt(js.IntegerToken, "10n")}
	un := []js.TokenType{js.AddToken, js.SubToken, js.IncrToken, js.DecrToken, js.NotToken, js.BitNotToken, js.TypeofToken, js.VoidToken, js.DeleteToken}
	opt := 0
	for _, u1 := range un {
		for _, u2 := range un {
			for _, u3 := range un {
				opt = (opt + 1) % 4
				emit(c05Case(opt, c03Cat(u1, u2, u3, c03TkA)))
				emit(c05Case(opt, c03Cat(c03TkB, u1, u2, u3, c03TkA)))
			}
			emit(c05Case(opt, c03Cat(u1, u2, c03TkA, js.IncrToken)))
			emit(c05Case(opt, c03Cat(c03TkA, js.IncrToken, u1, u2, c03TkB)))
		}
	}
	for _, n := range nums {
		emit(c05Case(0, c03Cat(n, c03TkDot, c03TkA)))
		emit(c05Case(1, c03Cat(n, c03TkDot, c03TkA, c03TkDot, c03TkB)))
		emit(c05Case(2, c03Cat(c03TkLP, n, c03TkRP, c03TkDot, c03TkA)))
		emit(c05Case(3, c03Cat(n, c03TkLB, c03TkA, c03TkRB, c03TkDot, c03TkB)))
		emit(c05Case(0, c03Cat(js.SubToken, n, c03TkDot, c03TkA, c03TkLP, n, c03TkRP)))
	}
	let := c03Jt(js.LetToken, "let")
	emit(c05Case(0, c03Cat(let, js.AddToken, c03TkA)))
	emit(c05Case(0, c03Cat(let)))
	emit(c05Case(0, c03Cat(let, c03TkDot, c03TkA)))
	emit(c05Case(0, c03Cat(c03TkLP, let, c03TkRP, js.AddToken, c03TkA)))
	emit(c05Case(0, c03Cat(let, js.InToken, c03TkA)))
}

func c05Case(opts int, ts []c03Jtok) Case {
	c := prattCase(0, opts, ts, "")
	c.Fn = "jsprint"
	return c
}

func c05PrintClass(c Case, out []int64) string {
	res := "other"
	if len(out) > 0 {
		switch out[0] {
		case 0:
			res = "printed"
		case 1:
			res = "error"
		case -998:
			res = "BAD-CASE"
		}
	}
	return res
}

func c05PrintShrink(c Case) []Case {
	var out []Case
	for _, x := range prattShrink(Case{Fn: "pratt", Args: c.Args}) {
		x.Fn = "jsprint"
		out = append(out, x)
	}
	return out
}

// ---------------------------------------------------------------------------------------- round-trip oracle

// c05StripGroups removes every GroupExpr from the tree (in place) so that String() can be compared modulo parentheses.
func c05StripGroups(v reflect.Value) {
	switch v.Kind() {
	case reflect.Ptr:
		if !v.IsNil() {
			c05StripGroups(v.Elem())
		}
	case reflect.Interface:
		if v.IsNil() {
			return
		}
		for {
			g, ok := v.Interface().(*js.GroupExpr)
			if !ok || !v.CanSet() {
				break
			}
			v.Set(reflect.ValueOf(g.X))
		}
		e := v.Elem()
		if e.Kind() == reflect.Ptr {
			c05StripGroups(e)
		} else if e.Kind() == reflect.Struct && v.CanSet() {
			// a struct stored by value in an interface: strip inside a copy and store it back
			cp := reflect.New(e.Type()).Elem()
			cp.Set(e)
			c05StripGroups(cp)
			v.Set(cp)
		}
	case reflect.Struct:
		if v.Type() == reflect.TypeOf(js.Scope{}) || v.Type() == reflect.TypeOf(js.Var{}) {
			return
		}
		for i := 0; i < v.NumField(); i++ {
			f := v.Field(i)
			if f.CanSet() || f.Kind() == reflect.Ptr || f.Kind() == reflect.Slice || f.Kind() == reflect.Struct {
				c05StripGroups(f)
			}
		}
	case reflect.Slice:
		for i := 0; i < v.Len(); i++ {
			c05StripGroups(v.Index(i))
		}
	}
}

func c05Normal(tree *js.AST) string {
	c05StripGroups(reflect.ValueOf(tree))
	return c03AstString(tree)
}

// c05RoundTrip checks one accepted input; it returns false when the input is not accepted (nothing to check).
func c05RoundTrip(rep *Report, src []byte, o int, bucket string) bool {
	t1, err, pan := c03ParseJS(src, o)
	key := fmt.Sprintf("%s:%q/%d", bucket, src, o)
	if pan != nil {
		rep.Violate("c05-panic-parse:"+string(src), fmt.Sprintf("js.Parse panics on %q: %v", src, pan), map[string]interface{}{"src": string(src), "opts": o})
		return false
	}
	if err != nil {
		rep.Eval(key, false, bucket+"-rejected")
		return false
	}
	var out1 string
	if p := catch(func() { out1 = t1.JSString() }); p != nil {
		rep.Violate("c05-panic-print:"+string(src), fmt.Sprintf("JS() panics on the tree of %q: %v", src, p), map[string]interface{}{"src": string(src), "opts": o})
		return true
	}
	t2, err2, pan2 := c03ParseJS([]byte(out1), o)
	if pan2 != nil || err2 != nil {
		k := c05Classify(src, out1, "reparse")
		rep.Violate(k, fmt.Sprintf("the printed text of %q is not accepted: %q: %v %v", src, out1, c05ErrLine(err2), pan2), map[string]interface{}{"src": string(src), "opts": o, "printed": out1})
		rep.Eval(key, true, bucket)
		return true
	}
	var out2 string
	if p := catch(func() { out2 = t2.JSString() }); p != nil {
		rep.Violate("c05-panic-print2:"+string(src), fmt.Sprintf("JS() panics on the re-parsed tree of %q: %v", src, p), map[string]interface{}{"src": string(src), "opts": o})
		return true
	}
	s1, s2 := c05Normal(t1), c05Normal(t2)
	if s1 != s2 {
		k := c05Classify(src, out1, "tree")
		rep.Violate(k, fmt.Sprintf("printing and re-parsing %q changes the tree: %s -> printed %q -> %s", src, s1, out1, s2), map[string]interface{}{"src": string(src), "opts": o, "printed": out1, "tree1": s1, "tree2": s2})
	} else if out1 != out2 {
		k := c05Classify(src, out1, "idempotent")
		rep.Violate(k, fmt.Sprintf("printing is not stable for %q: %q then %q", src, out1, out2), map[string]interface{}{"src": string(src), "opts": o, "printed": out1, "printed2": out2})
	}
	rep.Eval(key, len(src) > 3, bucket)
	return true
}

func c05ErrLine(err error) string {
	if err == nil {
		return ""
	}
	return c03FirstLine(err)
}

// c05Classify gives the violation key; known defects get a stable key (KNOWN_FINDINGS.txt)
func c05Classify(src []byte, printed, what string) string {
	return "c05-" + what + ":" + string(src)
}

// c05LiteralCheck: string / template / regexp / numeric literals and preserved comments of src must occur
// byte for byte in the printed text, whatever the block depth.
func c05LiteralCheck(rep *Report, src []byte, o int, lits [][]byte) {
	t1, err, pan := c03ParseJS(src, o)
	if pan != nil || err != nil {
		rep.Violate("c05-literal-reject:"+string(src), fmt.Sprintf("generated program rejected: %q: %v %v", src, c05ErrLine(err), pan), map[string]interface{}{"src": string(src), "opts": o})
		return
	}
	out := t1.JSString()
	pos := 0
	for _, l := range lits {
		if bytes.HasPrefix(l, []byte("/*!")) {
			// preserved comments are moved to the front of their statement list: byte for byte, but not in place
			preserved := strings.Contains(t1.String(), string(l)) // a comment the parser kept in the tree
			if preserved && !strings.Contains(out, string(l)) {
				rep.Violate("c05-literal:"+string(src), fmt.Sprintf("comment %q of %q is not emitted byte for byte: printed %q", l, src, out), map[string]interface{}{"src": string(src), "opts": o, "printed": out})
			}
			continue
		}
		i := strings.Index(out[pos:], string(l))
		if i < 0 {
			rep.Violate("c05-literal:"+string(src), fmt.Sprintf("literal %q of %q is not emitted byte for byte (or out of order): printed %q", l, src, out), map[string]interface{}{"src": string(src), "opts": o, "printed": out, "literal": string(l)})
			break
		}
		pos += i + len(l)
	}
	rep.Eval(fmt.Sprintf("literal:%q/%d", src, o), true, "literals-at-depth")
}

// corpus: the JavaScript snippets of the library's own test tables
func c05Corpus() [][]byte {
	var out [][]byte
	seen := map[string]bool{}
	for _, f := range []string{"/js/parse_test.go", "/js/ast_test.go", "/js/lex_test.go", "/js/walk_test.go"} {
		fset := token.NewFileSet()
		file, err := parser.ParseFile(fset, prattRepoRoot+f, nil, 0)
		if err != nil {
			continue
		}
		ast.Inspect(file, func(n ast.Node) bool {
			bl, ok := n.(*ast.BasicLit)
			if !ok || bl.Kind != token.STRING {
				return true
			}
			s, err := strconv.Unquote(bl.Value)
			if err != nil || len(s) == 0 || len(s) > 2000 || seen[s] {
				return true
			}
			seen[s] = true
			out = append(out, []byte(s))
			return true
		})
	}
	return out
}

func c05Oracle(r *Rng, tier string, rep *Report) {
	// (1) the library's own test snippets, all four Options
	for _, s := range c05Corpus() {
		if !bytes.Contains(s, []byte{0}) {
			for o := 0; o < 4; o++ {
				c05RoundTrip(rep, s, o, "corpus")
			}
		}
	}
	// (1a) module items around the statement terminator (ExportStmt.JS writes no ';' after a function / class declaration
	// since def2553: with one, print -> parse would gain an EmptyStmt)
	for _, s := range []string{"export function f(){}\n;", "export function f(){};", "export function f(){}", "export class A{};a", "export class A{}\na",
		"export default class{}\n;a", "export default class{}", "export default function(){};a", "export default function g(){}\n;", "export default async function(){}",
		"export default a\n;b", "export default (function(){});a", "export default (class{})\n;", "export var a\n;b", "var a;export {a}\n;b", "export * from 'm'\n;a", "import 'm'\n;a", "import('x')\n;b", "import.meta\n;b"} {
		for o := 0; o < 2; o++ {
			c05RoundTrip(rep, []byte(s), o, "fixed-module")
		}
	}
	// (1b) byte-level edits of those snippets: whatever is still accepted (and valid UTF-8) must round-trip
	alphabet := []byte("abx01 \n\t;,.(){}[]+-*/%<>=!&|^~?:'\"`$\\#")
	corpus := c05Corpus()
	fz := 4000
	if tier == "thorough" {
		fz = 200000
	}
	for i := 0; i < fz && len(corpus) > 0; i++ {
		b := append([]byte{}, corpus[r.Intn(len(corpus))]...)
		for k := 0; k < 1+r.Intn(3) && len(b) > 0; k++ {
			j := r.Intn(len(b))
			switch r.Intn(3) {
			case 0:
				b = append(b[:j], b[j+1:]...)
			case 1:
				b = append(b[:j], append([]byte{alphabet[r.Intn(len(alphabet))]}, b[j:]...)...)
			default:
				b[j] = alphabet[r.Intn(len(alphabet))]
			}
		}
		if utf8.Valid(b) && !bytes.Contains(b, []byte{0}) {
			c05RoundTrip(rep, b, r.Intn(4), "fuzzed")
		}
	}
	// (2) the C03 generators: expressions, expression statements, whole programs
	n := 3000
	if tier == "thorough" {
		n = 150000
	}
	eg := &c03ExprGen{r: r}
	for i := 0; i < n; i++ {
		e := eg.gen(c03NtExpression, 1+r.Intn(5), true)
		ts := eg.toks(e)
		nolt := make([]bool, len(ts)+1)
		c03MarkPostfix(e, eg, 0, nolt)
		c05RoundTrip(rep, c03SpellVaried(r, ts, nolt), r.Intn(4), "expr")
	}
	for i := 0; i < n; i++ {
		o := r.Intn(4)
		g := c03NewProgGen(r, o)
		p := g.program(1+r.Intn(3), 1+r.Intn(4))
		src := c03Spell3(r, p)
		c05RoundTrip(rep, src, o, "program")
		// (3) mutated inputs: whatever is still accepted must round-trip as well
		if len(p.toks) > 0 {
			q := c03Piece{toks: append([]c03Jtok{}, p.toks...), mode: append([]int8{}, p.mode...)}
			for k := 0; k < 1+r.Intn(2); k++ {
				j := r.Intn(len(q.toks))
				switch r.Intn(3) {
				case 0:
					q.toks = append(q.toks[:j], q.toks[j+1:]...)
					q.mode = append(q.mode[:j], q.mode[j+1:]...)
				case 1:
					t := p.toks[r.Intn(len(p.toks))]
					q.toks = append(q.toks[:j], append([]c03Jtok{t}, q.toks[j:]...)...)
					q.mode = append(q.mode[:j], append([]int8{c03Free}, q.mode[j:]...)...)
				default:
					q.toks[j] = p.toks[r.Intn(len(p.toks))]
				}
				if len(q.toks) == 0 {
					break
				}
			}
			c05RoundTrip(rep, c03SpellPlain(q), o, "mutated")
		}
	}
	// (4) literals with line breaks at every block depth
	lits := []string{"`l1\nl2`", "`a\n  b\n${x}\n c`", "'s\\\n t'", "\"q\\\n\"", "/re\\/x/g", "0x1F", "1.5e3", "`\n`", "`${`in\nner`}\n`"}
	m := 40
	if tier == "thorough" {
		m = 2000
	}
	for i := 0; i < m; i++ {
		depth := r.Intn(6)
		var used [][]byte
		var b strings.Builder
		open := []string{"{", "if (a) {", "function f() {", "for (;;) {", "x = function () {", "class C { m() {", "try {", "switch (a) { default:", "x = () => {", "l: {"}
		closing := map[string]string{"{": "}", "if (a) {": "}", "function f() {": "}", "for (;;) {": "}", "x = function () {": "};", "class C { m() {": "} }", "try {": "} finally {}", "switch (a) { default:": "}", "x = () => {": "};", "l: {": "}"}
		var stack []string
		for d := 0; d < depth; d++ {
			op := open[r.Intn(len(open))]
			stack = append(stack, op)
			b.WriteString(op + "\n")
		}
		for k := 0; k < 1+r.Intn(3); k++ {
			l := lits[r.Intn(len(lits))]
			used = append(used, []byte(l))
			switch r.Intn(4) {
			case 0:
				b.WriteString("y = " + l + ";\n")
			case 1:
				b.WriteString("var z = [" + l + "];\n")
			case 2:
				b.WriteString("f(" + l + ");\n")
			default:
				b.WriteString("/*! keep\n me */\n" + l + ";\n")
				used[len(used)-1] = []byte("/*! keep\n me */")
				used = append(used, []byte(l))
			}
		}
		for d := len(stack) - 1; d >= 0; d-- {
			b.WriteString(closing[stack[d]] + "\n")
		}
		src := []byte(b.String())
		for o := 0; o < 4; o++ {
			c05LiteralCheck(rep, src, o, used)
			c05RoundTrip(rep, src, o, "literals")
		}
	}
}

func init() {
	props["C05"] = &PropSpec{
		Models: []*Model{
			{Name: "jsprint", Gen: c05PrintGen, Impl: c05PrintImpl, Shrink: c05PrintShrink, Class: c05PrintClass},
		},
		Oracles: []*Oracle{{Name: "c05-print-reparse", Run: c05Oracle}},
	}
}
