//go:build verif

package main

// C05, integrator's additions after seeds C05-1 and C05-3:
// (a) literals containing line breaks and preserved comments at EVERY block depth 0..48 (thorough: ..160), not only small ones
// (b) a shebang line together with preserved comments at module level, before and after the first token

import (
	"fmt"
	"strings"
)

func c05xOracle(r *Rng, tier string, rep *Report) {
	lits := []string{"`l1\nl2`", "`a\n  b\n${x}\n c`", "'s\\\n t'", "\"q\\\n\"", "`\n`", "`${`in\nner`}\n`", "/re\\/x/g", "1.5e3"}
	openers := []string{"{", "if (a) {", "function f() {", "for (;;) {", "x = function () {", "try {", "x = () => {", "l: {", "while (a) {", "else_"}
	closing := map[string]string{"{": "}", "if (a) {": "}", "function f() {": "}", "for (;;) {": "}", "x = function () {": "};", "try {": "} finally {}", "x = () => {": "};", "l: {": "}", "while (a) {": "}", "else_": "}"}
	maxDepth := 48
	if tier == "thorough" {
		maxDepth = 160
	}
	for depth := 0; depth <= maxDepth; depth++ {
		for variant := 0; variant < 2; variant++ {
			var b strings.Builder
			var stack []string
			for d := 0; d < depth; d++ {
				op := "{"
				if variant == 1 {
					op = openers[r.Intn(len(openers))]
				}
				stack = append(stack, op)
				if op == "else_" {
					b.WriteString("if (a) b; else {\n")
				} else {
					b.WriteString(op + "\n")
				}
			}
			var used [][]byte
			for k, l := range lits {
				if variant == 1 && r.Intn(2) == 0 {
					continue
				}
				switch k % 3 {
				case 0:
					b.WriteString("y = " + l + ";\n")
				case 1:
					b.WriteString("f(" + l + ", [" + l + "]);\n")
					used = append(used, []byte(l))
				default:
					b.WriteString("/*! keep\n me */\n" + l + ";\n")
					used = append(used, []byte("/*! keep\n me */"))
				}
				used = append(used, []byte(l))
			}
			for d := len(stack) - 1; d >= 0; d-- {
				b.WriteString(closing[stack[d]] + "\n")
			}
			src := []byte(b.String())
			for o := 0; o < 4; o++ {
				c05LiteralCheck(rep, src, o, used)
				c05RoundTrip(rep, src, o, fmt.Sprintf("literals-depth"))
			}
		}
	}
	// (b) shebang with preserved comments
	she := []string{"#!/usr/bin/env node\n", "#!x\n", "#!\n"}
	bang := []string{"/*! a */", "//! b\n", "/*! multi\n line */"}
	body := []string{"", "a;", "a;\nb;", "function f(){ %s return 1 }", "{ %s a }", "var v = 1;"}
	for _, s := range she {
		for _, c1 := range append([]string{""}, bang...) {
			for _, c2 := range append([]string{""}, bang...) {
				for _, bd := range body {
					inner := bd
					if strings.Contains(bd, "%s") {
						inner = fmt.Sprintf(bd, c2)
					}
					for _, src := range []string{s + c1 + inner, s + c1 + inner + "\n" + c2, s + inner + c2 + "\nz;", s + c1 + "\n" + c2 + inner} {
						for o := 0; o < 4; o++ {
							c05RoundTrip(rep, []byte(src), o, "shebang")
						}
					}
				}
			}
		}
	}
	// (c) export default <expression> followed by a statement that could continue the expression if the ';' were lost
	// (seed C05-6: ExportStmt.JS dropping the ';' after an arrow function)
	defaults := []string{"a => b", "async a => b", "(a, b) => { return a }", "a", "f(a)", "a + b", "{a: 1}", "[a]", "`t`", "(function () {})", "(class {})", "a ? b : c", "new A", "a.b", "1"}
	follow := []string{"(c)", "(c);", "[c]", "[c].d;", "`u`", "+c", "-c", "/r/.test(c)", ";", ";;", "c", "function g() {}", "export {c}"}
	for _, d := range defaults {
		for _, f := range follow {
			for _, sep := range []string{";", ";\n", "\n;", ";\n\n"} {
				src := "export default " + d + sep + f
				for o := 0; o < 4; o += 2 { // the two non-Inline options (module code)
					c05RoundTrip(rep, []byte(src), o, "export-default")
				}
			}
		}
	}
	for _, pre := range []string{"export var v = a => b", "export const k = a => b", "export let l = () => {}", "var w = a => b", "x = a => b", "return_ = async () => {}"} {
		for _, f := range follow {
			c05RoundTrip(rep, []byte(pre+";"+f), 0, "arrow-then-statement")
			c05RoundTrip(rep, []byte(pre+"\n;"+f), 0, "arrow-then-statement")
		}
	}
}

func init() {
	c05xHook = func() {
		if p, ok := props["C05"]; ok {
			p.Oracles = append(p.Oracles, &Oracle{Name: "c05-depths-and-shebang", Run: c05xOracle})
		}
	}
}

var c05xHook func()
