package main

import (
	"bytes"
	"fmt"
	"io"
	"strings"

	"github.com/tdewolff/parse/v2"
	"github.com/tdewolff/parse/v2/css"
)

// ---- C08: CSS parser ---------------------------------------------------------------------------

func c08CssParseArgs(inline bool, b []byte) []int64 {
	return append([]int64{c07B2i(inline)}, bytesToArgs(b)...)
}

func c08CssParseCase(inline bool, b []byte, note string) Case {
	if note == "" {
		note = fmt.Sprintf("cssparse inline=%v %q", inline, b)
	}
	return Case{Fn: "cssparse", Args: c08CssParseArgs(inline, b), Note: note}
}

func c08ParserErrKind(p *css.Parser) int64 {
	if p.HasParseError() {
		return 2
	}
	return errCode(p.Err())
}

// c08CssParseImpl runs the real parser; the encoding mirrors CssParse/Harness.v parse_enc.
func c08CssParseImpl(c Case) []int64 {
	inline := c.Args[0] != 0
	dv, _ := takeList(c.Args[1:])
	d := toBytes(dv)
	var out []int64
	p := catch(func() {
		in := parse.NewInputBytes(append(make([]byte, 0, len(d)+1), d...))
		ps := css.NewParser(in, inline)
		budget := 2*len(d) + 8
		extra := 2
		for {
			if budget == 0 {
				out = append(out, -3)
				return
			}
			budget--
			gt, tt, data := ps.Next()
			out = append(out, int64(gt), int64(tt), int64(len(data)))
			for _, x := range data {
				out = append(out, int64(x))
			}
			vals := ps.Values()
			out = append(out, int64(len(vals)))
			for _, v := range vals {
				out = append(out, int64(v.TokenType), int64(len(v.Data)))
				for _, x := range v.Data {
					out = append(out, int64(x))
				}
			}
			out = append(out, c08ParserErrKind(ps), int64(ps.Offset()))
			if gt == css.ErrorGrammar && !ps.HasParseError() {
				if extra == 0 {
					out = append(out, -2)
					return
				}
				extra--
			}
		}
	})
	if p != nil {
		out = append(out, -1)
	}
	return out
}

func c08CssHashImpl(c Case) []int64 {
	dv, _ := takeList(c.Args)
	d := toBytes(dv)
	out := []int64{-1}
	catch(func() { out[0] = int64(css.ToHash(d)) })
	return out
}

// fragments for the exhaustive small-scope enumeration (each is one or two tokens)
var c08CssFragsFull = []string{"a", "{", "}", ";", ":", "*", "@media", "@x", "(", ")", ",", " ", "--v", "!", "/**/", "[", "]", "@font-face", "1", "\"s\"", "f(", "<!--", "#b", "&", "::b"}
var c08CssFragsCore = []string{"a", "{", "}", ";", ":", "*", "@media", "@x", "(", ")", " ", "--v", "@page", "[", "#b"}

func c08AllFragSeqs(frags []string, k int, f func([]byte)) {
	var rec func(cur []byte, n int)
	rec = func(cur []byte, n int) {
		f(append([]byte{}, cur...))
		if n == k {
			return
		}
		for _, fr := range frags {
			rec(append(cur, fr...), n+1)
		}
	}
	rec(nil, 0)
}

// ---- stylesheet generator with the expected unit stream ----------------------------------------

type c08CssUnit struct {
	gt   css.GrammarType
	name string   // expected data (lower-cased where the parser lower-cases)
	vals []c07CssTok // expected Values(); nil = not checked
}

type c08SheetGen struct {
	r     *Rng
	text  []byte
	units []c08CssUnit
	depth int // > 0 inside a block: comments are not units there
}

func (g *c08SheetGen) ws(must bool) bool {
	if must || g.r.Chance(1, 2) {
		g.text = append(g.text, c07GenWS(g.r)...)
		if g.depth > 0 && g.r.Chance(1, 8) {
			g.text = append(g.text, c07GenComment(g.r)...)
			g.text = append(g.text, ' ')
		}
		return true
	}
	return false
}

func c08WsTok() c07CssTok { return c07CssTok{css.WhitespaceToken, []byte(" ")} }

func c08GenSimpleIdent(r *Rng) []byte {
	n := 1 + r.Intn(5)
	b := []byte{"abcdfghxyz"[r.Intn(10)]}
	for i := 1; i < n; i++ {
		b = append(b, "abcdefxyz-_0123"[r.Intn(15)])
	}
	if c07IsURLName(b) {
		b = append(b, 'x')
	}
	return b
}

// a value / prelude word: (type, text)
func c08GenWord(r *Rng) c07CssTok {
	switch r.Intn(8) {
	case 0:
		return c07CssTok{css.NumberToken, c07GenNumber(r)}
	case 1:
		u := c08GenSimpleIdent(r)
		for !c07UnitOK(u) {
			u = c08GenSimpleIdent(r)
		}
		return c07CssTok{css.DimensionToken, append(c07GenNumber(r), u...)}
	case 2:
		return c07CssTok{css.PercentageToken, append(c07GenNumber(r), '%')}
	case 3:
		return c07CssTok{css.HashToken, append([]byte{'#'}, c08GenSimpleIdent(r)...)}
	case 4:
		return c07CssTok{css.StringToken, c07GenString(r)}
	case 5:
		return c07CssTok{css.URLToken, c07GenURL(r)}
	default:
		return c07CssTok{css.IdentToken, c08GenSimpleIdent(r)}
	}
}

// declaration value: words separated by whitespace, with optional punctuation , / ! whose surrounding
// whitespace disappears; functions f(a, b)
func (g *c08SheetGen) genValue() []c07CssTok {
	var vals []c07CssTok
	n := 1 + g.r.Intn(4)
	prevWord := false
	for i := 0; i < n; i++ {
		if prevWord {
			// separator between two words
			switch g.r.Intn(5) {
			case 0:
				g.ws(false)
				p := ",/"[g.r.Intn(2)]
				g.text = append(g.text, p)
				tt := css.CommaToken
				if p == '/' {
					tt = css.DelimToken
				}
				vals = append(vals, c07CssTok{tt, []byte{p}})
				g.ws(false)
			default:
				g.ws(true)
				vals = append(vals, c08WsTok())
			}
		}
		if g.r.Chance(1, 6) {
			// function call
			name := append(c08GenSimpleIdent(g.r), '(')
			g.text = append(g.text, name...)
			vals = append(vals, c07CssTok{css.FunctionToken, name})
			m := 1 + g.r.Intn(3)
			for j := 0; j < m; j++ {
				if j > 0 {
					g.text = append(g.text, ',')
					vals = append(vals, c07CssTok{css.CommaToken, []byte(",")})
					g.ws(false)
				}
				w := c08GenWord(g.r)
				g.text = append(g.text, w.text...)
				vals = append(vals, w)
			}
			g.text = append(g.text, ')')
			vals = append(vals, c07CssTok{css.RightParenthesisToken, []byte(")")})
		} else {
			w := c08GenWord(g.r)
			g.text = append(g.text, w.text...)
			vals = append(vals, w)
		}
		prevWord = true
	}
	if g.r.Chance(1, 6) {
		g.ws(false)
		g.text = append(g.text, '!')
		vals = append(vals, c07CssTok{css.DelimToken, []byte("!")})
		g.ws(false)
		g.text = append(g.text, "important"...)
		vals = append(vals, c07CssTok{css.IdentToken, []byte("important")})
	}
	return vals
}

// declaration list inside a block; last=true ends with '}' (already consumed by the caller otherwise)
// declJunk writes what may stand at the start of a declaration without being reported: comments and stray
// semicolons (empty declarations), adjacent in either order, with optional whitespace between them.
func (g *c08SheetGen) declJunk() {
	if !g.r.Chance(1, 3) {
		return
	}
	k := 1 + g.r.Intn(3)
	for j := 0; j < k; j++ {
		if g.r.Bool() {
			g.text = append(g.text, c07GenComment(g.r)...)
		} else {
			g.text = append(g.text, ';')
		}
		if g.r.Chance(1, 3) {
			g.text = append(g.text, c07GenWS(g.r)...)
		}
	}
}

func (g *c08SheetGen) genDeclarations(depth int, allowNested bool) {
	n := g.r.Intn(4)
	for i := 0; i < n; i++ {
		g.ws(false)
		g.declJunk()
		switch {
		case g.r.Chance(1, 8):
			// custom property: the value is the exact source text
			name := append([]byte("--"), c08GenSimpleIdent(g.r)...)
			g.text = append(g.text, name...)
			g.ws(false)
			g.text = append(g.text, ':')
			start := len(g.text)
			m := g.r.Intn(4)
			for j := 0; j < m; j++ {
				g.text = append(g.text, ' ')
				g.text = append(g.text, c08GenWord(g.r).text...)
			}
			val := append([]byte{}, g.text[start:]...)
			g.text = append(g.text, ';')
			g.units = append(g.units, c08CssUnit{css.CustomPropertyGrammar, string(name), []c07CssTok{{css.CustomPropertyValueToken, val}}})
		case allowNested && depth < 2 && g.r.Chance(1, 8):
			g.genRuleset(depth+1, true)
		default:
			name := c08GenSimpleIdent(g.r)
			if g.r.Chance(1, 4) {
				name = bytes.ToUpper(name)
			}
			g.text = append(g.text, name...)
			g.ws(false)
			g.text = append(g.text, ':')
			g.ws(false)
			vals := g.genValue()
			g.ws(false)
			g.text = append(g.text, ';')
			g.units = append(g.units, c08CssUnit{css.DeclarationGrammar, strings.ToLower(string(name)), vals})
		}
	}
	g.ws(false)
	g.declJunk()
}

func (g *c08SheetGen) genSelector(nested bool) []c07CssTok {
	var vals []c07CssTok
	n := 1 + g.r.Intn(3)
	for i := 0; i < n; i++ {
		if i > 0 {
			switch g.r.Intn(4) {
			case 0:
				g.ws(false)
				p := ",>+~"[g.r.Intn(4)]
				g.text = append(g.text, p)
				tt := css.DelimToken
				if p == ',' {
					tt = css.CommaToken
				}
				vals = append(vals, c07CssTok{tt, []byte{p}})
				g.ws(false)
			default:
				g.ws(true)
				vals = append(vals, c08WsTok())
			}
		}
		// compound selector; a nested ruleset may start with an identifier, a delimiter (. & >), #id, :pseudo,
		// ::pseudo or [attr] (Values() of nested rulesets are not compared: vals is dropped by the caller)
		k := g.r.Intn(4)
		if nested && i == 0 {
			switch g.r.Intn(8) {
			case 0:
				g.text = append(g.text, '&')
			case 1:
				g.text = append(g.text, '>')
				g.ws(false)
			case 2:
				g.text = append(g.text, ':')
				g.text = append(g.text, c08GenSimpleIdent(g.r)...)
				g.ws(true)
			case 3:
				g.text = append(g.text, ':', ':')
				g.text = append(g.text, c08GenSimpleIdent(g.r)...)
				g.ws(true)
			case 4:
				g.text = append(g.text, "[x=\"]\"]"...)
			}
		}
		switch k {
		case 0:
			id := c08GenSimpleIdent(g.r)
			g.text = append(g.text, '.')
			g.text = append(g.text, id...)
			vals = append(vals, c07CssTok{css.DelimToken, []byte(".")}, c07CssTok{css.IdentToken, id})
		case 1:
			h := append([]byte{'#'}, c08GenSimpleIdent(g.r)...)
			g.text = append(g.text, h...)
			vals = append(vals, c07CssTok{css.HashToken, h})
		case 2:
			id := c08GenSimpleIdent(g.r)
			at := c08GenSimpleIdent(g.r)
			g.text = append(g.text, id...)
			g.text = append(g.text, '[')
			g.text = append(g.text, at...)
			vals = append(vals, c07CssTok{css.IdentToken, id}, c07CssTok{css.LeftBracketToken, []byte("[")}, c07CssTok{css.IdentToken, at})
			if g.r.Bool() {
				g.text = append(g.text, '=')
				s := c07GenString(g.r)
				g.text = append(g.text, s...)
				vals = append(vals, c07CssTok{css.DelimToken, []byte("=")}, c07CssTok{css.StringToken, s})
			}
			g.text = append(g.text, ']')
			vals = append(vals, c07CssTok{css.RightBracketToken, []byte("]")})
		default:
			id := c08GenSimpleIdent(g.r)
			g.text = append(g.text, id...)
			vals = append(vals, c07CssTok{css.IdentToken, id})
			if g.r.Chance(1, 3) {
				ps := c08GenSimpleIdent(g.r)
				g.text = append(g.text, ':')
				g.text = append(g.text, ps...)
				vals = append(vals, c07CssTok{css.ColonToken, []byte(":")}, c07CssTok{css.IdentToken, ps})
			}
		}
	}
	return vals
}

func (g *c08SheetGen) genRuleset(depth int, nested bool) {
	vals := g.genSelector(nested)
	if nested {
		vals = nil // a nested ruleset keeps every whitespace / comment as a token: not checked here
	}
	g.ws(false)
	g.text = append(g.text, '{')
	g.units = append(g.units, c08CssUnit{css.BeginRulesetGrammar, "", vals})
	g.depth++
	g.genDeclarations(depth, true)
	g.depth--
	g.text = append(g.text, '}')
	g.units = append(g.units, c08CssUnit{css.EndRulesetGrammar, "", nil})
}

var c08CssAtRuleList = []string{"media", "supports", "document", "layer", "-webkit-keyframes", "keyframes", "-moz-document"}
var c08CssAtDeclList = []string{"font-face", "page"}

func (g *c08SheetGen) genAtRule(depth int) {
	switch g.r.Intn(4) {
	case 0: // statement at-rule
		name := []string{"import", "charset", "namespace", "IMPORT"}[g.r.Intn(4)]
		g.text = append(g.text, '@')
		g.text = append(g.text, name...)
		g.ws(true)
		s := c07GenString(g.r)
		g.text = append(g.text, s...)
		g.ws(false)
		g.text = append(g.text, ';')
		g.units = append(g.units, c08CssUnit{css.AtRuleGrammar, "@" + strings.ToLower(name), []c07CssTok{c08WsTok(), {css.StringToken, s}}})
	case 1: // rule-list at-rule with a prelude
		name := c08CssAtRuleList[g.r.Intn(len(c08CssAtRuleList))]
		if g.r.Chance(1, 4) {
			name = strings.ToUpper(name)
		}
		g.text = append(g.text, '@')
		g.text = append(g.text, name...)
		g.ws(true)
		var vals []c07CssTok
		id := c08GenSimpleIdent(g.r)
		g.text = append(g.text, id...)
		vals = append(vals, c08WsTok(), c07CssTok{css.IdentToken, id})
		if g.r.Bool() {
			g.ws(true)
			g.text = append(g.text, "and"...)
			vals = append(vals, c08WsTok(), c07CssTok{css.IdentToken, []byte("and")})
			g.ws(true)
			g.text = append(g.text, '(')
			vals = append(vals, c08WsTok(), c07CssTok{css.LeftParenthesisToken, []byte("(")})
			g.ws(false)
			f := c08GenSimpleIdent(g.r)
			g.text = append(g.text, f...)
			vals = append(vals, c07CssTok{css.IdentToken, f})
			g.ws(false)
			g.text = append(g.text, ':')
			vals = append(vals, c07CssTok{css.ColonToken, []byte(":")})
			g.ws(false)
			w := c07CssTok{css.DimensionToken, append(c07GenNumber(g.r), "px"...)}
			g.text = append(g.text, w.text...)
			vals = append(vals, w)
			g.ws(false)
			g.text = append(g.text, ')')
			vals = append(vals, c07CssTok{css.RightParenthesisToken, []byte(")")})
		}
		g.ws(false)
		g.text = append(g.text, '{')
		g.units = append(g.units, c08CssUnit{css.BeginAtRuleGrammar, "@" + strings.ToLower(name), vals})
		g.depth++
		m := g.r.Intn(3)
		for i := 0; i < m; i++ {
			g.ws(false)
			if depth < 2 && g.r.Chance(1, 5) {
				g.genAtRule(depth + 1)
			} else {
				g.genRuleset(depth+1, false)
			}
		}
		g.ws(false)
		g.depth--
		g.text = append(g.text, '}')
		g.units = append(g.units, c08CssUnit{css.EndAtRuleGrammar, "", nil})
	case 2: // declaration-list at-rule
		name := c08CssAtDeclList[g.r.Intn(len(c08CssAtDeclList))]
		g.text = append(g.text, '@')
		g.text = append(g.text, name...)
		g.ws(false)
		g.text = append(g.text, '{')
		g.units = append(g.units, c08CssUnit{css.BeginAtRuleGrammar, "@" + name, []c07CssTok{}})
		g.depth++
		g.genDeclarations(depth, false)
		g.depth--
		g.text = append(g.text, '}')
		g.units = append(g.units, c08CssUnit{css.EndAtRuleGrammar, "", nil})
	default: // unknown at-rule: every token of the block is a Token unit (whitespace kept)
		name := "x-" + string(c08GenSimpleIdent(g.r))
		g.text = append(g.text, '@')
		g.text = append(g.text, name...)
		g.text = append(g.text, '{')
		g.units = append(g.units, c08CssUnit{css.BeginAtRuleGrammar, "@" + name, []c07CssTok{}})
		m := g.r.Intn(4)
		for i := 0; i < m; i++ {
			w := c08GenWord(g.r)
			g.text = append(g.text, w.text...)
			g.units = append(g.units, c08CssUnit{css.TokenGrammar, string(w.text), nil})
			g.text = append(g.text, ' ')
			g.units = append(g.units, c08CssUnit{css.TokenGrammar, " ", nil})
		}
		g.text = append(g.text, '}')
		g.units = append(g.units, c08CssUnit{css.EndAtRuleGrammar, "", nil})
	}
}

func c08GenStylesheet(r *Rng, n int) ([]byte, []c08CssUnit) {
	g := &c08SheetGen{r: r}
	for i := 0; i < n; i++ {
		g.ws(false)
		switch g.r.Intn(8) {
		case 0:
			c := c07GenComment(g.r)
			g.text = append(g.text, c...)
			g.units = append(g.units, c08CssUnit{css.CommentGrammar, string(c), nil})
		case 1:
			t := []string{"<!--", "-->"}[g.r.Intn(2)]
			g.text = append(g.text, t...)
			g.units = append(g.units, c08CssUnit{css.TokenGrammar, t, nil})
			g.text = append(g.text, ' ')
		case 2, 3:
			g.genAtRule(0)
		default:
			g.genRuleset(0, false)
		}
	}
	g.ws(false)
	return g.text, g.units
}

func c08GenInline(r *Rng) ([]byte, []c08CssUnit) {
	g := &c08SheetGen{r: r, depth: 1}
	g.genDeclarations(5, false)
	return g.text, g.units
}

var c08CssParseModel = &Model{
	Name: "cssparse",
	Gen: func(r *Rng, tier string, emit func(Case)) {
		kFull, kCore := 3, 4
		if tier == "thorough" {
			kFull, kCore = 4, 5
		}
		for _, inline := range []bool{false, true} {
			il := inline
			c08AllFragSeqs(c08CssFragsFull, kFull, func(b []byte) { emit(c08CssParseCase(il, b, "")) })
			c08AllFragSeqs(c08CssFragsCore, kCore, func(b []byte) { emit(c08CssParseCase(il, b, "")) })
		}
		n := 6000
		if tier == "thorough" {
			n = 200000
		}
		for i := 0; i < n; i++ {
			var text []byte
			inline := i%4 == 3
			if inline {
				text, _ = c08GenInline(r)
			} else {
				text, _ = c08GenStylesheet(r, 1+i%4)
			}
			switch i % 3 {
			case 1:
				text = c07MutateBytes(r, text)
				// structural mutations: drop / duplicate / insert a brace, semicolon or colon
				if len(text) > 0 && r.Bool() {
					j := r.Intn(len(text))
					ins := "{};:*@()[],! "[r.Intn(13)]
					text = append(text[:j], append([]byte{ins}, text[j:]...)...)
				}
			case 2:
				if len(text) > 0 {
					text = text[:r.Intn(len(text)+1)]
				}
			}
			emit(c08CssParseCase(inline, text, ""))
			if i%7 == 0 {
				emit(c08CssParseCase(!inline, text, ""))
			}
		}
	},
	Impl: c08CssParseImpl,
	Shrink: func(c Case) []Case {
		dv, _ := takeList(c.Args[1:])
		d := toBytes(dv)
		var out []Case
		for i := range d {
			nd := append(append([]byte{}, d[:i]...), d[i+1:]...)
			out = append(out, c08CssParseCase(c.Args[0] != 0, nd, ""))
		}
		return out
	},
	Class: func(c Case, out []int64) string {
		s := "stylesheet"
		if c.Args[0] != 0 {
			s = "inline"
		}
		if len(out) > 0 && out[len(out)-1] == -1 {
			return s + "/panic"
		}
		if len(out) > 0 {
			s += "/first=" + css.GrammarType(out[0]).String()
		}
		return s
	},
}

var c08CssHashModel = &Model{
	Name: "csshash",
	Gen: func(r *Rng, tier string, emit func(Case)) {
		words := []string{"", "document", "font-face", "keyframes", "layer", "media", "page", "supports", "medi", "mediax", "Media", "pag", "layers", "supportss", "font-fac", "abcdefghi", "abcdefghij", "x"}
		for _, w := range words {
			emit(c07CssCase("csshash", []byte(w), ""))
		}
		n := 2000
		if tier == "thorough" {
			n = 100000
		}
		for i := 0; i < n; i++ {
			w := []byte(words[r.Intn(len(words))])
			if i%2 == 0 {
				w = c07MutateBytes(r, w)
			} else {
				w = c08GenSimpleIdent(r)
			}
			emit(c07CssCase("csshash", w, ""))
		}
	},
	Impl:   c08CssHashImpl,
	Shrink: c07ShrinkBytesCase,
	Class: func(c Case, out []int64) string {
		if out[0] == 0 {
			return "miss"
		}
		return "hit"
	},
}

// ---- C08 oracles (on the implementation only) -------------------------------------------------

type c08ParsedUnit struct {
	gt       css.GrammarType
	tt       css.TokenType
	data     []byte
	vals     []c07CssTok
	parseErr bool
	err      error
	off      int
}

// c08RunParser drives the real parser until the first ErrorGrammar without a parse error (ok=false if the
// call budget 2*len+8 is exhausted), then calls Next twice more (returned in tail).
func c08RunParser(b []byte, inline bool) (units []c08ParsedUnit, tail []c08ParsedUnit, ok bool) {
	in := parse.NewInputBytes(append(make([]byte, 0, len(b)+1), b...))
	p := css.NewParser(in, inline)
	one := func() c08ParsedUnit {
		gt, tt, data := p.Next()
		u := c08ParsedUnit{gt: gt, tt: tt, data: append([]byte{}, data...), parseErr: p.HasParseError(), err: p.Err(), off: p.Offset()}
		for _, v := range p.Values() {
			u.vals = append(u.vals, c07CssTok{v.TokenType, append([]byte{}, v.Data...)})
		}
		return u
	}
	for i := 0; i < 2*len(b)+8; i++ {
		u := one()
		units = append(units, u)
		if u.gt == css.ErrorGrammar && !u.parseErr {
			tail = append(tail, one(), one())
			return units, tail, true
		}
	}
	return units, nil, false
}

func c08IsBegin(gt css.GrammarType) bool {
	return gt == css.BeginAtRuleGrammar || gt == css.BeginRulesetGrammar
}
func c08IsEnd(gt css.GrammarType) bool { return gt == css.EndAtRuleGrammar || gt == css.EndRulesetGrammar }

func c08LowerASCII(b []byte) []byte {
	o := append([]byte{}, b...)
	for i, c := range o {
		if c >= 'A' && c <= 'Z' {
			o[i] = c + 32
		}
	}
	return o
}

func c08CssCheckParse(rep *Report, b []byte, inline bool, bucket string) {
	mode := "s"
	if inline {
		mode = "i"
	}
	key := mode + ":" + hx(b)
	rp := map[string]interface{}{"input": hx(b), "inline": inline}
	var units, tail []c08ParsedUnit
	var ok bool
	if p := catch(func() { units, tail, ok = c08RunParser(b, inline) }); p != nil {
		rep.Violate("panic:"+key, fmt.Sprintf("css parser panics on %q (inline=%v): %v", b, inline, p), rp)
		return
	}
	if !ok {
		rep.Violate("hang:"+key, fmt.Sprintf("css parser did not report the end of %q within 2*len+8 calls", b), rp)
		return
	}
	last := units[len(units)-1]
	if last.err != io.EOF {
		rep.Violate("eof:"+key, fmt.Sprintf("css parser ends %q with Err()=%v", b, last.err), rp)
	}
	for _, u := range tail {
		if u.gt != css.ErrorGrammar || u.parseErr || u.err != io.EOF {
			rep.Violate("sticky:"+key, fmt.Sprintf("css parser on %q: a call after the end report returned %v", b, u.gt), rp)
		}
	}
	// nesting, as long as no parse error has been reported
	var stack []css.GrammarType
	for _, u := range units {
		if u.parseErr {
			break
		}
		if c08IsBegin(u.gt) {
			stack = append(stack, u.gt)
		} else if c08IsEnd(u.gt) {
			if len(stack) == 0 {
				rep.Violate("nesting-depth:"+key, fmt.Sprintf("css parser on %q: %v with no open unit", b, u.gt), rp)
				break
			}
			top := stack[len(stack)-1]
			if (top == css.BeginAtRuleGrammar) != (u.gt == css.EndAtRuleGrammar) {
				rep.Violate("nesting-kind:"+key, fmt.Sprintf("css parser on %q: %v closes %v", b, u.gt, top), rp)
				break
			}
			stack = stack[:len(stack)-1]
		} else if u.gt == css.ErrorGrammar && len(stack) != 0 {
			rep.Violate("nesting-eof:"+key, fmt.Sprintf("css parser on %q: end of input reported with %d open units", b, len(stack)), rp)
		}
	}
	// conservation against the real lexer
	toks, _, _, _ := c07LexAll(b)
	for _, u := range units {
		// Values(): a subsequence of the lexer tokens that end at or before Offset(), in source order
		i := 0
		for _, v := range u.vals {
			if v.tt == css.WhitespaceToken && string(v.text) == " " {
				continue
			}
			if v.tt == css.CustomPropertyValueToken {
				if u.off > len(b) || !bytes.Contains(b[:u.off], v.text) {
					rep.Violate("conservation-custom:"+key, fmt.Sprintf("css parser on %q: custom property value %q is not source text", b, v.text), rp)
				}
				continue
			}
			found := false
			saved := i
			for i < len(toks) && toks[i].off <= u.off {
				if toks[i].tt == v.tt && bytes.Equal(toks[i].data, v.text) {
					found = true
					i++
					break
				}
				i++
			}
			if !found {
				i = saved
			}
			if !found && len(v.text) > 1 && v.text[0] == '*' && v.tt != css.SubstringMatchToken {
				// the IE hack: parseDeclarationList glues "*" and the next token (whitespace and comments between
				// them dropped) into one token that is not a token of the input
				rep.Violate("conservation-iehack", fmt.Sprintf("css parser on %q: value %v(%q) of a %v unit is \"*\" glued to the following token, not a lexer token of the input", b, v.tt, v.text, u.gt), rp)
				continue
			}
			if !found {
				rep.Violate("conservation-values:"+key, fmt.Sprintf("css parser on %q: value %v(%q) of a %v unit is not a lexer token in source order", b, v.tt, v.text, u.gt), rp)
				break
			}
		}
		// data: a lexer token (lower-cased for at-rules and declarations), '}' / "" synthesised, or '*' glued to the next token
		if len(u.data) == 0 || (u.tt == css.RightBraceToken && string(u.data) == "}") {
			continue
		}
		found := false
		for j, t := range toks {
			if t.off > u.off {
				break
			}
			d := t.data
			// at-rule names and property names are lower-cased (also when the unit ends in an error)
			if bytes.Equal(d, u.data) || bytes.Equal(c08LowerASCII(d), u.data) {
				found = true
				break
			}
			if t.tt == css.DelimToken && string(t.data) == "*" {
				// IE hack: "*" + the next token that is not whitespace or a comment
				for k := j + 1; k < len(toks); k++ {
					if toks[k].tt == css.WhitespaceToken || toks[k].tt == css.CommentToken {
						continue
					}
					g := append([]byte("*"), toks[k].data...)
					if bytes.Equal(g, u.data) || bytes.Equal(c08LowerASCII(g), u.data) {
						found = true
					}
					break
				}
				if found {
					break
				}
			}
		}
		if !found {
			rep.Violate("conservation-data:"+key, fmt.Sprintf("css parser on %q: data %q of a %v unit is not a lexer token", b, u.data, u.gt), rp)
		}
	}
	rep.Eval(key, len(units) >= 2, bucket)
}

func c08OracleStreams(r *Rng, tier string, rep *Report) {
	k := 3
	if tier == "thorough" {
		k = 4
	}
	for _, inline := range []bool{false, true} {
		il := inline
		c08AllFragSeqs(c08CssFragsCore, k+1, func(b []byte) { c08CssCheckParse(rep, b, il, "exhaustive") })
		c08AllFragSeqs(c08CssFragsFull, k, func(b []byte) { c08CssCheckParse(rep, b, il, "exhaustive") })
	}
	n := 6000
	if tier == "thorough" {
		n = 300000
	}
	for i := 0; i < n; i++ {
		text, _ := c08GenStylesheet(r, 1+i%4)
		inline := i%5 == 4
		if inline {
			text, _ = c08GenInline(r)
		}
		bucket := "generated"
		if i%2 == 1 {
			text = c07MutateBytes(r, text)
			bucket = "mutated"
		}
		c08CssCheckParse(rep, text, inline, bucket)
	}
}

func c08FmtUnits(us []c08CssUnit) string {
	var s []string
	for _, u := range us {
		s = append(s, fmt.Sprintf("%v(%q)", u.gt, u.name))
	}
	return strings.Join(s, " ")
}

// well-formed stylesheets yield exactly the units the source contains
func c08OracleWellFormed(r *Rng, tier string, rep *Report) {
	c08DeclJunkProbes(rep)
	c08NestedProbes(rep)
	c08StaleValuesProbe(rep)
	n := 8000
	if tier == "thorough" {
		n = 400000
	}
	for i := 0; i < n; i++ {
		inline := i%5 == 4
		var text []byte
		var want []c08CssUnit
		if inline {
			text, want = c08GenInline(r)
		} else {
			text, want = c08GenStylesheet(r, 1+i%4)
		}
		key := hx(text)
		rp := map[string]interface{}{"input": key, "inline": inline}
		var units []c08ParsedUnit
		var ok bool
		if p := catch(func() { units, _, ok = c08RunParser(text, inline) }); p != nil || !ok {
			rep.Violate("wf-run:"+key, fmt.Sprintf("css parser fails on the well-formed %q", text), rp)
			continue
		}
		got := units[:len(units)-1]
		bad := len(got) != len(want)
		desc := ""
		for j := 0; !bad && j < len(want); j++ {
			u, w := got[j], want[j]
			if u.gt != w.gt || u.parseErr {
				bad, desc = true, fmt.Sprintf("unit %d is %v, expected %v", j, u.gt, w.gt)
				break
			}
			switch w.gt {
			case css.AtRuleGrammar, css.BeginAtRuleGrammar, css.DeclarationGrammar, css.CustomPropertyGrammar, css.CommentGrammar, css.TokenGrammar:
				if string(u.data) != w.name {
					bad, desc = true, fmt.Sprintf("unit %d %v has data %q, expected %q", j, u.gt, u.data, w.name)
				}
			}
			if !bad && w.vals != nil {
				if len(u.vals) != len(w.vals) {
					bad = true
				} else {
					for k := range w.vals {
						if u.vals[k].tt != w.vals[k].tt || !bytes.Equal(u.vals[k].text, w.vals[k].text) {
							bad = true
						}
					}
				}
				if bad {
					desc = fmt.Sprintf("unit %d %v(%q) has Values %v, expected %v", j, u.gt, u.data, c08FmtToks(u.vals), c08FmtToks(w.vals))
				}
			}
		}
		if bad {
			if desc == "" {
				var g []string
				for _, u := range got {
					g = append(g, fmt.Sprintf("%v(%q)", u.gt, u.data))
				}
				desc = fmt.Sprintf("units %s, expected %s", strings.Join(g, " "), c08FmtUnits(want))
			}
			rep.Violate("wellformed:"+key, fmt.Sprintf("%q (inline=%v): %s", text, inline, desc), rp)
		}
		rep.Eval(key, len(want) >= 2, fmt.Sprintf("units=%d", min(len(want), 12)))
	}
}

// Values() after a unit that does not fill them: the property counts every token reported through data or Values();
// a unit that has no values of its own (EndRuleset, EndAtRule, Comment, Token, the end-of-input ErrorGrammar) must not
// hand out the tokens of an earlier unit again.
func c08StaleValuesProbe(rep *Report) {
	for _, in := range []string{"a{b:c}", "a{b:c;}", "@import x;", "a{--x:1}", "a{}", "a{b:c}/**/", "@media x{a{b:c}}"} {
		units, _, ok := c08RunParser([]byte(in), false)
		if !ok {
			continue
		}
		for i, u := range units {
			sets := u.gt == css.AtRuleGrammar || u.gt == css.BeginAtRuleGrammar || u.gt == css.BeginRulesetGrammar ||
				u.gt == css.DeclarationGrammar || u.gt == css.CustomPropertyGrammar || u.gt == css.QualifiedRuleGrammar || (u.gt == css.ErrorGrammar && u.parseErr)
			if !sets && len(u.vals) != 0 {
				rep.Violate("conservation-stale-values", fmt.Sprintf("css parser on %q: unit %d (%v) has no values of its own but Values() returns %s, the tokens of an earlier unit (reported twice)", in, i, u.gt, c08FmtToks(u.vals)), map[string]interface{}{"input": in})
				break
			}
		}
		rep.Eval("probe-stale:"+in, true, "probe")
	}
}

// fixed probes for what may stand at the start of a declaration without being reported: comments and stray semicolons,
// adjacent in either order, in an inline declaration list and in a declaration block
func c08DeclJunkProbes(rep *Report) {
	lists := []struct {
		text  string
		names []string
	}{
		{"color:red;/*x*/;margin:0", []string{"color", "margin"}}, {"/*x*/;a:b", []string{"a"}}, {"a:b;/*x*/;", []string{"a"}},
		{";/*x*/a:b", []string{"a"}}, {"/*x*/a:b", []string{"a"}}, {";;a:b;;", []string{"a"}}, {"a:b; /*x*/ ; c:d", []string{"a", "c"}},
		{"a:b;;/*x*/;/*y*/;c:d", []string{"a", "c"}}, {"/*x*/;", nil}, {";/*x*/", nil}, {"a:b;/*x*//*y*/;;c:d;/*z*/", []string{"a", "c"}},
	}
	for _, l := range lists {
		for _, inline := range []bool{true, false} {
			in := l.text
			if !inline {
				in = "s{" + l.text + "}"
			}
			units, _, ok := c08RunParser([]byte(in), inline)
			var got []string
			bad := !ok
			for _, u := range units {
				switch {
				case u.gt == css.DeclarationGrammar:
					got = append(got, string(u.data))
				case u.gt == css.ErrorGrammar && u.parseErr:
					bad = true
					got = append(got, fmt.Sprintf("Error(%v)", u.err))
				case u.gt == css.BeginRulesetGrammar || u.gt == css.EndRulesetGrammar || u.gt == css.ErrorGrammar:
				default:
					bad = true
					got = append(got, fmt.Sprintf("%v(%q)", u.gt, u.data))
				}
			}
			if !bad && strings.Join(got, ",") != strings.Join(l.names, ",") {
				bad = true
			}
			if bad {
				rep.Violate("wellformed-decl-junk:"+in, fmt.Sprintf("css parser on %q (inline=%v): comments and stray semicolons at the start of a declaration are skipped, expected the declarations %q, got %q", in, inline, l.names, got), map[string]interface{}{"input": in, "inline": inline})
			}
			rep.Eval("probe-decl-junk:"+in, true, "probe")
		}
	}
}

// fixed probes for nested rulesets (the property text asks for "rulesets including nested ones")
func c08NestedProbes(rep *Report) {
	show := func(us []c08ParsedUnit) string {
		var g []string
		for _, u := range us {
			g = append(g, fmt.Sprintf("%v(%q)%s", u.gt, u.data, c08FmtToks(u.vals)))
		}
		return strings.Join(g, " ")
	}
	// 1. a nested ruleset whose selector does not start with an identifier or a delimiter
	for _, in := range []string{"a{#b{c:d}}", "a{:hover{c:d}}", "a{[x]{c:d}}", "a{::before{c:d}}", "a{[x=\"]\"]{c:d}}", "a{&b{c:d}}", "a{.b{c:d}}", "a{>b{c:d}}"} {
		units, _, ok := c08RunParser([]byte(in), false)
		want := []css.GrammarType{css.BeginRulesetGrammar, css.BeginRulesetGrammar, css.DeclarationGrammar, css.EndRulesetGrammar, css.EndRulesetGrammar, css.ErrorGrammar}
		bad := !ok || len(units) != len(want)
		for i := 0; !bad && i < len(want); i++ {
			bad = units[i].gt != want[i] || units[i].parseErr
		}
		if bad {
			rep.Violate("wellformed-nested-start", fmt.Sprintf("css parser on %q: a nested ruleset whose selector starts with a hash, colon or bracket is reported as a parse error: %s", in, show(units)), map[string]interface{}{"input": in})
		}
		rep.Eval("probe:"+in, true, "probe")
	}
	// 1b. declarations directly inside an at-rule that is nested in a ruleset (CSS Nesting: "a{@media x{b:c}}")
	for _, in := range []string{"a{@media x{b:c}}", "a{@supports (x:y){b:c;d:e}}"} {
		units, _, ok := c08RunParser([]byte(in), false)
		bad := !ok
		for _, u := range units {
			if u.parseErr {
				bad = true
			}
		}
		if bad {
			rep.Violate("wellformed-nested-at-decl", fmt.Sprintf("css parser on %q: declarations directly inside an at-rule nested in a ruleset are read as a qualified rule and reported as a parse error: %s", in, show(units)), map[string]interface{}{"input": in})
		}
		rep.Eval("probe:"+in, true, "probe")
	}
	// 1c. a comment is not whitespace: Values() must not contain a Whitespace token where the source has only a comment
	for _, in := range []string{"a{b:c/*m*/d}", "a{b:c/**//**/d;}", "a{x/**/y{}}"} {
		units, _, ok := c08RunParser([]byte(in), false)
		bad := !ok
		for _, u := range units {
			for _, v := range u.vals {
				if v.tt == css.WhitespaceToken {
					bad = true
				}
			}
		}
		if bad {
			rep.Violate("wellformed-comment-space", fmt.Sprintf("css parser on %q: a dropped comment between two tokens is reported as a Whitespace(\" \") token that is not in the input: %s", in, show(units)), map[string]interface{}{"input": in})
		}
		rep.Eval("probe:"+in, true, "probe")
	}
	// 2. whitespace next to punctuation in the selector of a nested ruleset
	var nestedWs []string
	for _, c := range []string{",", ">", "+", "~"} {
		nestedWs = append(nestedWs, "a{b "+c+"c{}}", "a{b"+c+" c{}}", "a{b "+c+" c{}}", "a{b\n"+c+"\t c{}}", "a{#b "+c+" .c{}}", "a{& "+c+" c{}}")
	}
	nestedWs = append(nestedWs, "a{b[ x = y ]{}}", "a{b[ x ]{}}", "a{[ x=\"y\" ] , c{}}", "a{b [ x ] > c[ y ]{}}")
	for _, in := range nestedWs {
		units, _, ok := c08RunParser([]byte(in), false)
		bad := !ok || len(units) < 2 || units[1].gt != css.BeginRulesetGrammar
		if !bad {
			// no whitespace next to a combinator or inside [ ]; "b [" keeps its single space
			inAttr := false
			vs := units[1].vals
			for i, v := range vs {
				comb := func(t c07CssTok) bool { return len(t.text) == 1 && strings.IndexByte(",>+~", t.text[0]) >= 0 }
				if v.tt == css.WhitespaceToken && (inAttr || i == 0 || i+1 == len(vs) || comb(vs[i-1]) || comb(vs[i+1])) {
					bad = true
				}
				if v.tt == css.LeftBracketToken {
					inAttr = true
				} else if v.tt == css.RightBracketToken {
					inAttr = false
				}
			}
		}
		if bad {
			rep.Violate("wellformed-nested-ws", fmt.Sprintf("css parser on %q: the selector of a nested ruleset keeps whitespace next to punctuation: %s", in, show(units)), map[string]interface{}{"input": in})
		}
		rep.Eval("probe:"+in, true, "probe")
	}
}

func c08FmtToks(ts []c07CssTok) string {
	var s []string
	for _, t := range ts {
		s = append(s, fmt.Sprintf("%v(%q)", t.tt, t.text))
	}
	return "[" + strings.Join(s, " ") + "]"
}

func init() {
	props["C08"] = &PropSpec{
		Models: []*Model{c08CssParseModel, c08CssHashModel},
		Oracles: []*Oracle{
			{Name: "c08-nesting-conservation-eof", Run: c08OracleStreams},
			{Name: "c08-wellformed", Run: c08OracleWellFormed},
		},
	}
}
