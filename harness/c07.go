package main

import (
	"bytes"
	"fmt"
	"io"
	"strings"
	"unicode/utf8"

	"github.com/tdewolff/parse/v2"
	"github.com/tdewolff/parse/v2/css"
)

// ---- C07: CSS lexer, IsIdent, IsURLUnquoted ---------------------------------------------------

// cssLexImpl runs the real lexer; the encoding mirrors Css/Harness.v lex_enc.
func cssLexImpl(c Case) []int64 {
	dv, _ := takeList(c.Args)
	d := toBytes(dv)
	var out []int64
	p := catch(func() {
		in := parse.NewInputBytes(append(make([]byte, 0, len(d)+1), d...))
		l := css.NewLexer(in)
		budget := len(d) + 4
		extra := 2
		for {
			if budget == 0 {
				out = append(out, -3)
				return
			}
			budget--
			tt, data := l.Next()
			out = append(out, int64(tt), int64(in.Offset()), int64(len(data)))
			for _, x := range data {
				out = append(out, int64(x))
			}
			if tt == css.ErrorToken {
				out = append(out, errCode(l.Err()))
				if extra == 0 {
					out = append(out, -2)
					return
				}
				extra--
			}
		}
	})
	if p != nil {
		out = append(out, -1)
	}
	return out
}

func b2i(b bool) int64 {
	if b {
		return 1
	}
	return 0
}

func cssUtilImpl(c Case) []int64 {
	dv, _ := takeList(c.Args)
	d := toBytes(dv)
	out := []int64{-1, -1}
	if p := catch(func() { out[0] = b2i(css.IsIdent(append([]byte{}, d...))) }); p != nil {
		out[0] = -1
	}
	if p := catch(func() { out[1] = b2i(css.IsURLUnquoted(append([]byte{}, d...))) }); p != nil {
		out[1] = -1
	}
	return out
}

// byte classes of the lexer: one representative per class that any consume* function distinguishes
var cssAlphaFull = []byte{'a', 'u', 'e', 'F', '-', '+', '.', '1', '\\', '(', ')', '"', '\'', ' ', '\n', '\r',
	'/', '*', '#', '@', '|', '=', '<', '!', '>', '?', '%', 0, 0xE2, ':', '~', '_', '\f', '\t'}
var cssAlphaCore = []byte{'a', 'u', 'e', '-', '+', '.', '1', '\\', '(', ')', '"', ' ', '\n', '/', '*', 0, 0xE2, '?'}
var cssAlphaIdent = []byte{'a', '-', '\\', '1', 'f', ' ', '\n', 0, 0xC3, 0xE2, 0xF0, 0x80, '(', ')', '"', '_', 0x7F, '\t', '\r'}

var cssBoundary = []string{
	"u+123456", "u+1234567", "u+12345?", "u+123456?", "u+??????", "u+???????", "U+123456-123456", "U+123456-1234567",
	"U+1234567-1", "u+-1", "u+1-", "u+1-g", "u+?-1", "u+1?-2", "u+g",
	"\\12345", "\\123456", "\\1234567", "a\\12345 6", "a\\123456 7", "a\\1234567 8", "\\12345\n6", "\\1\r\n2", "\\\xe2\x82\xac", "\\\xe2\x82", "\\\xf0\x90\x8d", "\\\xc3",
	"1e5", "1e+5", "1e-5", "1e+", "1e-", "1e", "1E5", "1.5e5", "1.e5", "1.5.5", ".5", ".5e5", "+.5", "-.5", "+.", "-.", "+5", "-5", "+-5", "1.", "1..5",
	"-->", "--", "--a", "-a", "-1", "-\\a", "--\\", "<!--", "<!-", "<!", "||", "|=", "|", "~=", "^=", "$=", "*=",
	"url(", "url()", "url( )", "url(a", "url(a)", "url( a )", "url(a b)", "url(a\\)", "url(a\\))", "url('a')", "url('a' )", "url('a'b)", "url('a\nb)", "url(a\"b)", "url(a(b)", "URL(a)", "uRl(a)", "\\url(a)", "u\\rl(a)", "url\\(a)", "urlx(a)", "ur(a)",
	"\"a\"", "\"a", "\"a\\", "\"a\\\nb\"", "\"a\\\r\nb\"", "\"a\nb\"", "'a\\'b'", "\"\\", "/**/", "/*", "/* *", "/* */", "/**", "/*/", "/***/",
	"#a", "#", "#-", "#1", "#\\a", "#\\\n", "@a", "@", "@-a", "@--a", "@-", "@1", "@\\a",
}

func cssCase(fn string, b []byte, note string) Case {
	if note == "" {
		note = fmt.Sprintf("%s %q", fn, b)
	}
	return Case{Fn: fn, Args: bytesToArgs(b), Note: note}
}

// ---- token grammar generator (CSS Syntax railroad diagrams; shared by correspondence and oracle) ----

type cssTok struct {
	tt   css.TokenType
	text []byte
}

var cssRunes = []rune{0xE9, 0x20AC, 0x10348, 0x80, 0x7FF, 0xFFFD, 0x554A}

func genEscape(r *Rng, atEnd bool) []byte {
	var b []byte
	b = append(b, '\\')
	switch r.Intn(4) {
	case 0, 1: // hex escape
		n := 1 + r.Intn(6)
		for i := 0; i < n; i++ {
			b = append(b, "0123456789abcdefABCDEF"[r.Intn(22)])
		}
		if atEnd || r.Bool() {
			b = append(b, " \t\n\f"[r.Intn(4)])
		} else {
			b = append(b, 'g'+byte(r.Intn(10))) // a non-hex identifier character ends the escape
		}
	case 2:
		esc := "!#$%&()*+,./:;<=>?@[]^`{|}~ghzGZ_-\" '"
		b = append(b, esc[r.Intn(len(esc))])
	default:
		b = utf8.AppendRune(b, cssRunes[r.Intn(len(cssRunes))])
	}
	return b
}

func genIdentChars(r *Rng, b []byte, n int) []byte {
	for i := 0; i < n; i++ {
		switch r.Intn(12) {
		case 0:
			b = append(b, '-')
		case 1:
			b = append(b, '_')
		case 2:
			b = append(b, byte('0'+r.Intn(10)))
		case 3:
			b = utf8.AppendRune(b, cssRunes[r.Intn(len(cssRunes))])
		case 4:
			b = append(b, genEscape(r, i == n-1)...)
		default:
			b = append(b, "abcdefuUrlLxyzEXe"[r.Intn(17)])
		}
	}
	return b
}

func genIdent(r *Rng) []byte {
	var b []byte
	if r.Chance(1, 5) {
		b = append(b, '-')
	}
	n := r.Intn(5)
	switch r.Intn(8) {
	case 0:
		b = append(b, '_')
	case 1:
		b = utf8.AppendRune(b, cssRunes[r.Intn(len(cssRunes))])
	case 2:
		b = append(b, genEscape(r, n == 0)...)
	default:
		b = append(b, "abcdefuUrlLxyzXg"[r.Intn(16)])
	}
	return genIdentChars(r, b, n)
}

func genCustomProp(r *Rng) []byte {
	return genIdentChars(r, []byte("--"), r.Intn(5))
}

func genDigits(r *Rng, b []byte) []byte {
	n := 1 + r.Intn(3)
	for i := 0; i < n; i++ {
		b = append(b, byte('0'+r.Intn(10)))
	}
	return b
}

func genNumber(r *Rng) []byte {
	var b []byte
	if r.Chance(1, 3) {
		b = append(b, "+-"[r.Intn(2)])
	}
	switch r.Intn(3) {
	case 0:
		b = genDigits(r, b)
	case 1:
		b = genDigits(r, b)
		b = append(b, '.')
		b = genDigits(r, b)
	default:
		b = append(b, '.')
		b = genDigits(r, b)
	}
	if r.Chance(1, 3) {
		b = append(b, "eE"[r.Intn(2)])
		if r.Bool() {
			b = append(b, "+-"[r.Intn(2)])
		}
		b = genDigits(r, b)
	}
	return b
}

func isDigitB(c byte) bool { return c >= '0' && c <= '9' }

// a unit must not read as an exponent: e[+-]?digit
func unitOK(u []byte) bool {
	if len(u) >= 2 && (u[0] == 'e' || u[0] == 'E') {
		if isDigitB(u[1]) {
			return false
		}
		if len(u) >= 3 && (u[1] == '-' || u[1] == '+') && isDigitB(u[2]) {
			return false
		}
	}
	return true
}

func isURLName(name []byte) bool {
	s := bytes.ToLower(bytes.ReplaceAll(name, []byte{'\\'}, nil))
	return string(s) == "url"
}

func genStringBody(r *Rng, q byte) []byte {
	var b []byte
	n := r.Intn(6)
	for i := 0; i < n; i++ {
		switch r.Intn(10) {
		case 0:
			b = append(b, genEscape(r, false)...)
		case 1:
			b = append(b, '\\')
			b = append(b, []string{"\n", "\r\n", "\f", "\r"}[r.Intn(4)]...)
		case 2:
			b = utf8.AppendRune(b, cssRunes[r.Intn(len(cssRunes))])
		case 3:
			if q == '"' {
				b = append(b, '\'')
			} else {
				b = append(b, '"')
			}
		case 4:
			b = append(b, " \t/*(){};:0"[r.Intn(11)])
		default:
			b = append(b, byte('a'+r.Intn(26)))
		}
	}
	// "\r" as a line continuation followed by "\n" would read as "\r\n": fine, both are skipped
	return b
}

func genString(r *Rng) []byte {
	q := "\"'"[r.Intn(2)]
	b := []byte{q}
	b = append(b, genStringBody(r, q)...)
	return append(b, q)
}

func genURLWord(r *Rng) []byte {
	w := []byte("url")
	for i := range w {
		if r.Bool() {
			w[i] -= 32
		}
	}
	return w
}

func genUnquotedURL(r *Rng) []byte {
	var b []byte
	n := 1 + r.Intn(6)
	for i := 0; i < n; i++ {
		switch r.Intn(8) {
		case 0:
			b = append(b, genEscape(r, false)...)
		case 1:
			b = utf8.AppendRune(b, cssRunes[r.Intn(len(cssRunes))])
		case 2:
			pc := "/:.?&=#-_~%!*+,;@[]{}|<>$^`"
			b = append(b, pc[r.Intn(len(pc))])
		default:
			b = append(b, byte('a'+r.Intn(26)))
		}
	}
	return b
}

func genWS(r *Rng) []byte {
	n := 1 + r.Intn(3)
	var b []byte
	for i := 0; i < n; i++ {
		b = append(b, " \t\n\r\f"[r.Intn(5)])
	}
	return b
}

func genURL(r *Rng) []byte {
	b := genURLWord(r)
	b = append(b, '(')
	if r.Chance(1, 3) {
		b = append(b, genWS(r)...)
	}
	switch r.Intn(3) {
	case 0:
		b = append(b, genString(r)...)
	case 1:
		b = append(b, genUnquotedURL(r)...)
	default: // empty url
	}
	if r.Chance(1, 3) {
		b = append(b, genWS(r)...)
	}
	return append(b, ')')
}

// malformed url( ... ) ending at the first unescaped ')'
func genBadURL(r *Rng) []byte {
	b := genURLWord(r)
	b = append(b, '(')
	switch r.Intn(5) {
	case 0: // whitespace inside an unquoted url
		b = append(b, genUnquotedURL(r)...)
		b = append(b, ' ')
		b = append(b, genUnquotedURL(r)...)
	case 1: // quote / parenthesis / control character inside
		b = append(b, genUnquotedURL(r)...)
		b = append(b, "\"'(\x01\x7f"[r.Intn(5)])
		b = append(b, 'x')
	case 2: // junk after a quoted url
		b = append(b, genString(r)...)
		b = append(b, ' ', 'x')
	case 3: // bad string inside
		b = append(b, '"', 'a', '\n', 'b')
	default: // escaped ')' inside the remnants
		b = append(b, 'a', ' ', 'b', '\\', ')', 'c')
	}
	return append(b, ')')
}

func genHexN(r *Rng, b []byte, n int) []byte {
	for i := 0; i < n; i++ {
		b = append(b, "0123456789abcdefABCDEF"[r.Intn(22)])
	}
	return b
}

func genUnicodeRange(r *Rng) []byte {
	b := []byte{"uU"[r.Intn(2)], '+'}
	switch r.Intn(3) {
	case 0:
		b = genHexN(r, b, 1+r.Intn(6))
	case 1:
		k := r.Intn(6)
		b = genHexN(r, b, k)
		q := 1 + r.Intn(6-k)
		for i := 0; i < q; i++ {
			b = append(b, '?')
		}
	default:
		b = genHexN(r, b, 1+r.Intn(6))
		b = append(b, '-')
		b = genHexN(r, b, 1+r.Intn(6))
	}
	return b
}

func genComment(r *Rng) []byte {
	b := []byte("/*")
	n := r.Intn(5)
	for i := 0; i < n; i++ {
		b = append(b, "ab */\n\\\"'x"[r.Intn(10)])
	}
	// no accidental terminator inside
	s := strings.ReplaceAll(string(b[2:]), "*/", "* ")
	return append(append([]byte("/*"), s...), '*', '/')
}

var cssFixedToks = []cssTok{
	{css.IncludeMatchToken, []byte("~=")}, {css.DashMatchToken, []byte("|=")}, {css.PrefixMatchToken, []byte("^=")},
	{css.SuffixMatchToken, []byte("$=")}, {css.SubstringMatchToken, []byte("*=")}, {css.ColumnToken, []byte("||")},
	{css.CDOToken, []byte("<!--")}, {css.CDCToken, []byte("-->")}, {css.ColonToken, []byte(":")},
	{css.SemicolonToken, []byte(";")}, {css.CommaToken, []byte(",")}, {css.LeftBracketToken, []byte("[")},
	{css.RightBracketToken, []byte("]")}, {css.LeftParenthesisToken, []byte("(")}, {css.RightParenthesisToken, []byte(")")},
	{css.LeftBraceToken, []byte("{")}, {css.RightBraceToken, []byte("}")},
}

var cssDelims = []byte("!&=>~^$*.+</|#@%?-`")

func genToken(r *Rng) cssTok {
	for {
		switch r.Intn(20) {
		case 0, 1:
			return cssTok{css.IdentToken, genIdent(r)}
		case 2:
			return cssTok{css.CustomPropertyNameToken, genCustomProp(r)}
		case 3:
			n := genIdent(r)
			if isURLName(n) {
				continue
			}
			return cssTok{css.FunctionToken, append(n, '(')}
		case 4:
			return cssTok{css.AtKeywordToken, append([]byte{'@'}, genIdent(r)...)}
		case 5:
			return cssTok{css.HashToken, genIdentChars(r, []byte{'#'}, 1+r.Intn(4))}
		case 6:
			return cssTok{css.StringToken, genString(r)}
		case 7:
			return cssTok{css.URLToken, genURL(r)}
		case 8:
			return cssTok{css.NumberToken, genNumber(r)}
		case 9:
			return cssTok{css.PercentageToken, append(genNumber(r), '%')}
		case 10:
			u := genIdent(r)
			if r.Chance(1, 6) {
				u = genCustomProp(r)
			}
			if !unitOK(u) {
				continue
			}
			return cssTok{css.DimensionToken, append(genNumber(r), u...)}
		case 11:
			return cssTok{css.UnicodeRangeToken, genUnicodeRange(r)}
		case 12, 13, 14:
			return cssFixedToks[r.Intn(len(cssFixedToks))]
		case 15:
			return cssTok{css.DelimToken, []byte{cssDelims[r.Intn(len(cssDelims))]}}
		case 16:
			return cssTok{css.CommentToken, genComment(r)}
		case 17:
			return cssTok{css.BadURLToken, genBadURL(r)}
		case 18:
			q := "\"'"[r.Intn(2)]
			b := append([]byte{q}, genStringBody(r, q)...)
			// a line continuation directly before the raw newline would swallow it
			b = append(b, 'x')
			return cssTok{css.BadStringToken, append(b, "\n\r\f"[r.Intn(3)])}
		default:
			return cssTok{css.IdentToken, genIdent(r)}
		}
	}
}

func isIdentCharB(c byte) bool {
	return c >= 'a' && c <= 'z' || c >= 'A' && c <= 'Z' || c >= '0' && c <= '9' || c == '_' || c == '-' || c >= 0x80
}

// cssSafeAdjacent: may next follow prev without a separator (conservative version of the
// serialisation table of CSS Syntax, extended to this lexer's extra token kinds)?
func cssSafeAdjacent(prev, next cssTok) bool {
	n0 := next.text[0]
	if next.tt == css.WhitespaceToken {
		return prev.tt != css.WhitespaceToken
	}
	switch prev.tt {
	case css.ColonToken, css.SemicolonToken, css.CommaToken, css.LeftBracketToken, css.RightBracketToken,
		css.LeftParenthesisToken, css.RightParenthesisToken, css.LeftBraceToken, css.RightBraceToken,
		css.StringToken, css.URLToken, css.BadURLToken, css.FunctionToken, css.CommentToken, css.CDOToken, css.CDCToken,
		css.IncludeMatchToken, css.DashMatchToken, css.PrefixMatchToken, css.SuffixMatchToken, css.SubstringMatchToken,
		css.ColumnToken, css.PercentageToken, css.WhitespaceToken:
		return true
	case css.BadStringToken:
		// "\r" ending the bad string followed by "\n" is still two tokens; always safe
		return true
	case css.IdentToken, css.AtKeywordToken, css.HashToken, css.DimensionToken, css.CustomPropertyNameToken:
		return !(isIdentCharB(n0) || n0 == '\\' || n0 == '(' || n0 == '+')
	case css.NumberToken:
		return !(isIdentCharB(n0) || n0 == '\\' || n0 == '%' || n0 == '.')
	case css.UnicodeRangeToken:
		return !(isIdentCharB(n0) || n0 == '?' || n0 == '\\')
	case css.DelimToken:
		return next.tt == css.CommentToken
	}
	return false
}

// genTokenSeq returns the expected token sequence (separators included) and its text.
func genTokenSeq(r *Rng, n int) ([]cssTok, []byte) {
	var seq []cssTok
	var text []byte
	for i := 0; i < n; i++ {
		t := genToken(r)
		if len(seq) > 0 {
			prev := seq[len(seq)-1]
			if !(cssSafeAdjacent(prev, t) && r.Chance(2, 3)) {
				var seps []cssTok
				switch r.Intn(6) {
				case 0:
					seps = []cssTok{{css.CommentToken, genComment(r)}}
				case 1:
					seps = []cssTok{{css.WhitespaceToken, genWS(r)}, {css.CommentToken, genComment(r)}}
				case 2:
					seps = []cssTok{{css.CommentToken, genComment(r)}, {css.WhitespaceToken, genWS(r)}}
				default:
					seps = []cssTok{{css.WhitespaceToken, genWS(r)}}
				}
				for _, sp := range seps {
					seq = append(seq, sp)
					text = append(text, sp.text...)
				}
			}
		}
		seq = append(seq, t)
		text = append(text, t.text...)
	}
	return seq, text
}

func mutateBytes(r *Rng, b []byte) []byte {
	b = append([]byte{}, b...)
	k := 1 + r.Intn(3)
	for i := 0; i < k; i++ {
		switch r.Intn(6) {
		case 0:
			if len(b) > 0 {
				b[r.Intn(len(b))] = byte(r.Intn(256))
			}
		case 1:
			if len(b) > 0 {
				j := r.Intn(len(b))
				b = append(b[:j], b[j+1:]...)
			}
		case 2:
			j := r.Intn(len(b) + 1)
			ins := []byte{0, 0x80, 0xC3, 0xE2, 0xF0, 0xFF, '\\', '\n', '"', '(', ')', '-', 'e', '.', '+', '/', '*', 'u', '?'}[r.Intn(19)]
			b = append(b[:j], append([]byte{ins}, b[j:]...)...)
		case 3:
			if len(b) > 0 {
				b = b[:r.Intn(len(b))]
			}
		case 4:
			if len(b) > 0 {
				j := r.Intn(len(b))
				b[j] = cssAlphaFull[r.Intn(len(cssAlphaFull))]
			}
		default:
			if len(b) > 1 {
				j := r.Intn(len(b) - 1)
				b[j], b[j+1] = b[j+1], b[j]
			}
		}
	}
	return b
}

func shrinkBytesCase(c Case) []Case {
	dv, _ := takeList(c.Args)
	d := toBytes(dv)
	var out []Case
	for i := range d {
		nd := append(append([]byte{}, d[:i]...), d[i+1:]...)
		out = append(out, cssCase(c.Fn, nd, ""))
	}
	return out
}

var cssLexModel = &Model{
	Name: "csslex",
	Gen: func(r *Rng, tier string, emit func(Case)) {
		// exhaustive small scope
		kFull, kCore := 3, 4
		if tier == "thorough" {
			kFull, kCore = 4, 5
		}
		allStrings(cssAlphaFull, kFull, func(b []byte) { emit(cssCase("csslex", b, "")) })
		allStrings(cssAlphaCore, kCore, func(b []byte) {
			if len(b) > kFull {
				emit(cssCase("csslex", b, ""))
			}
		})
		// look-ahead triples after every first byte of the switch, followed by a tail
		for _, tail := range []string{"", "a", "1", ")"} {
			for _, s := range []string{"url(", "URL( ", "u+", "U+1-", "1e", "1e+", "1.", "-.", "+.", "--", "-\\", "#\\", "@-", "@\\", "<!-", "--", "\\\r", "\"\\", "url(\\", "url(a\\", "url('", "url( a ", "1e-", "\\1", "\\123456", "\\1234567"} {
				for _, c := range cssAlphaFull {
					emit(cssCase("csslex", append(append([]byte(s), c), tail...), ""))
				}
			}
		}
		// boundary cases of the counting loops and of the look-ahead
		for _, s := range cssBoundary {
			emit(cssCase("csslex", []byte(s), ""))
			for _, c := range cssAlphaCore {
				emit(cssCase("csslex", append([]byte(s), c), ""))
				emit(cssCase("csslex", append([]byte(s), ' ', c), ""))
			}
		}
		n := 12000
		if tier == "thorough" {
			n = 300000
		}
		for i := 0; i < n; i++ {
			_, text := genTokenSeq(r, 1+i%6)
			switch i % 3 {
			case 0:
				emit(cssCase("csslex", text, fmt.Sprintf("structured %q", text)))
			case 1:
				m := mutateBytes(r, text)
				emit(cssCase("csslex", m, fmt.Sprintf("malformed %q", m)))
			default:
				// every truncation point is interesting: pick one
				if len(text) > 0 {
					text = text[:r.Intn(len(text)+1)]
				}
				emit(cssCase("csslex", text, fmt.Sprintf("truncated %q", text)))
			}
		}
	},
	Impl:   cssLexImpl,
	Shrink: shrinkBytesCase,
	Class: func(c Case, out []int64) string {
		if len(out) > 0 && out[len(out)-1] == -1 {
			return "panic"
		}
		if len(out) == 0 {
			return "empty"
		}
		return "first=" + css.TokenType(out[0]).String()
	},
}

var cssUtilModel = &Model{
	Name: "cssutil",
	Gen: func(r *Rng, tier string, emit func(Case)) {
		k := 3
		if tier == "thorough" {
			k = 4
		}
		allStrings(cssAlphaIdent, k, func(b []byte) { emit(cssCase("cssutil", b, "")) })
		n := 4000
		if tier == "thorough" {
			n = 200000
		}
		for i := 0; i < n; i++ {
			var b []byte
			switch i % 4 {
			case 0:
				b = genIdent(r)
			case 1:
				b = genUnquotedURL(r)
			case 2:
				b = genCustomProp(r)
			default:
				b = genToken(r).text
			}
			if i%2 == 1 {
				b = mutateBytes(r, b)
			}
			emit(cssCase("cssutil", b, ""))
		}
	},
	Impl:   cssUtilImpl,
	Shrink: shrinkBytesCase,
	Class: func(c Case, out []int64) string {
		return fmt.Sprintf("ident=%d url=%d", out[0], out[1])
	},
}

// ---- C07 oracles (on the implementation only) ------------------------------------------------

type lexedTok struct {
	tt   css.TokenType
	data []byte
	off  int
}

// lexAll drives the real lexer; ok=false if it did not reach ErrorToken within len+2 calls.
func lexAll(b []byte) (toks []lexedTok, err error, ok bool, capBad bool) {
	in := parse.NewInputBytes(append(make([]byte, 0, len(b)+1), b...))
	l := css.NewLexer(in)
	for i := 0; i < len(b)+2; i++ {
		tt, data := l.Next()
		if tt == css.ErrorToken {
			return toks, l.Err(), true, capBad
		}
		if cap(data) != len(data) {
			capBad = true
		}
		toks = append(toks, lexedTok{tt, data, in.Offset()})
	}
	return toks, nil, false, capBad
}

func cssCheckInput(rep *Report, b []byte, bucket string) {
	key := hx(b)
	var toks []lexedTok
	var err error
	var ok, capBad bool
	if p := catch(func() { toks, err, ok, capBad = lexAll(b) }); p != nil {
		rep.Violate("panic:"+key, fmt.Sprintf("css lexer panics on %q: %v", b, p), map[string]interface{}{"input": key})
		return
	}
	if !ok {
		rep.Violate("hang:"+key, fmt.Sprintf("css lexer did not report the end of %q within len+2 calls", b), map[string]interface{}{"input": key})
		return
	}
	if err != io.EOF {
		rep.Violate("err:"+key, fmt.Sprintf("css lexer ends %q with Err()=%v, not io.EOF", b, err), map[string]interface{}{"input": key})
	}
	if capBad {
		rep.Violate("cap:"+key, fmt.Sprintf("a token of %q has cap != len", b), map[string]interface{}{"input": key})
	}
	// tiling, order, non-empty, offsets
	var cat []byte
	off := 0
	for _, t := range toks {
		if len(t.data) == 0 {
			rep.Violate("empty:"+key, fmt.Sprintf("empty %v token in %q", t.tt, b), map[string]interface{}{"input": key})
		}
		off += len(t.data)
		if t.off != off {
			rep.Violate("offset:"+key, fmt.Sprintf("token %v %q of %q ends at offset %d, expected %d", t.tt, t.data, b, t.off, off), map[string]interface{}{"input": key})
		}
		cat = append(cat, t.data...)
	}
	if !bytes.Equal(cat, b) {
		rep.Violate("tiling:"+key, fmt.Sprintf("tokens of %q concatenate to %q", b, cat), map[string]interface{}{"input": key})
	}
	// re-lexing every token on its own
	for _, t := range toks {
		var again []lexedTok
		if p := catch(func() { again, _, _, _ = lexAll(t.data) }); p != nil {
			rep.Violate("relex-panic:"+hx(t.data), fmt.Sprintf("re-lexing %q panics", t.data), map[string]interface{}{"input": key, "token": hx(t.data)})
			continue
		}
		if len(again) != 1 || again[0].tt != t.tt || !bytes.Equal(again[0].data, t.data) {
			rep.Violate("relex:"+hx(t.data), fmt.Sprintf("token %v %q of %q re-lexes to %v", t.tt, t.data, b, again), map[string]interface{}{"input": key, "token": hx(t.data)})
		}
	}
	rep.Eval(key, len(toks) >= 1, bucket)
}

func cssCheckUtil(rep *Report, b []byte) {
	key := hx(b)
	var id, ur bool
	if p := catch(func() { id = css.IsIdent(append([]byte{}, b...)); ur = css.IsURLUnquoted(append([]byte{}, b...)) }); p != nil {
		rep.Violate("util-panic:"+key, fmt.Sprintf("IsIdent/IsURLUnquoted panics on %q", b), map[string]interface{}{"input": key})
		return
	}
	if len(b) > 0 {
		toks, _, _, _ := lexAll(b)
		one := len(toks) == 1 && (toks[0].tt == css.IdentToken || toks[0].tt == css.CustomPropertyNameToken) && bytes.Equal(toks[0].data, b)
		if id != one {
			rep.Violate("isident:"+key, fmt.Sprintf("IsIdent(%q)=%v but the lexer gives %v", b, id, toks), map[string]interface{}{"input": key})
		}
	}
	if ur {
		u := append(append([]byte("url("), b...), ')')
		toks, _, _, _ := lexAll(u)
		if !(len(toks) == 1 && toks[0].tt == css.URLToken && bytes.Equal(toks[0].data, u)) {
			rep.Violate("isurl:"+key, fmt.Sprintf("IsURLUnquoted(%q)=true but url(...) lexes to %v", b, toks), map[string]interface{}{"input": key})
		}
	}
	bucket := "ident=f"
	if id {
		bucket = "ident=t"
	}
	if ur {
		bucket += " url=t"
	} else {
		bucket += " url=f"
	}
	rep.Eval("util:"+key, id || ur, bucket)
}

func c07OracleSlices(r *Rng, tier string, rep *Report) {
	k := 3
	if tier == "thorough" {
		k = 4
	}
	allStrings(cssAlphaFull, k, func(b []byte) { cssCheckInput(rep, b, "exhaustive") })
	n := 8000
	if tier == "thorough" {
		n = 400000
	}
	for i := 0; i < n; i++ {
		_, text := genTokenSeq(r, 1+i%8)
		if i%2 == 1 {
			text = mutateBytes(r, text)
			cssCheckInput(rep, text, "malformed")
		} else {
			cssCheckInput(rep, text, "structured")
		}
	}
}

func c07OracleUtil(r *Rng, tier string, rep *Report) {
	k := 3
	if tier == "thorough" {
		k = 4
	}
	allStrings(cssAlphaIdent, k, func(b []byte) { cssCheckUtil(rep, b) })
	n := 8000
	if tier == "thorough" {
		n = 400000
	}
	for i := 0; i < n; i++ {
		var b []byte
		switch i % 4 {
		case 0:
			b = genIdent(r)
		case 1:
			b = genUnquotedURL(r)
		case 2:
			b = genCustomProp(r)
		default:
			b = genToken(r).text
		}
		if i%3 == 2 {
			b = mutateBytes(r, b)
		}
		cssCheckUtil(rep, b)
	}
}

// token sequences written according to the token grammar lex to exactly that sequence
func c07OracleGrammar(r *Rng, tier string, rep *Report) {
	n := 12000
	if tier == "thorough" {
		n = 600000
	}
	for i := 0; i < n; i++ {
		seq, text := genTokenSeq(r, 1+i%7)
		key := hx(text)
		var toks []lexedTok
		if p := catch(func() { toks, _, _, _ = lexAll(text) }); p != nil {
			rep.Violate("panic:"+key, fmt.Sprintf("css lexer panics on %q: %v", text, p), map[string]interface{}{"input": key})
			continue
		}
		bad := len(toks) != len(seq)
		for j := 0; !bad && j < len(seq); j++ {
			if toks[j].tt != seq[j].tt || !bytes.Equal(toks[j].data, seq[j].text) {
				bad = true
			}
		}
		if bad {
			var want []string
			for _, t := range seq {
				want = append(want, fmt.Sprintf("%v(%q)", t.tt, t.text))
			}
			var got []string
			for _, t := range toks {
				got = append(got, fmt.Sprintf("%v(%q)", t.tt, t.data))
			}
			rep.Violate("grammar:"+key, fmt.Sprintf("%q: written as %v, lexed as %v", text, want, got), map[string]interface{}{"input": key})
		}
		rep.Eval(key, len(seq) >= 2, fmt.Sprintf("tokens=%d", len(seq)))
	}
}

func init() {
	props["C07"] = &PropSpec{
		Models: []*Model{cssLexModel, cssUtilModel},
		Oracles: []*Oracle{
			{Name: "c07-tiling-relex", Run: c07OracleSlices},
			{Name: "c07-isident-isurl", Run: c07OracleUtil},
			{Name: "c07-token-grammar", Run: c07OracleGrammar},
		},
	}
}
