package main

import (
	"bytes"
	"fmt"
	"io"
	"strings"
	"unicode/utf8"

	"github.com/tdewolff/parse/v2"
	"github.com/tdewolff/parse/v2/css"
)

// ---- C07: CSS lexer, IsIdent, IsURLUnquoted ---------------------------------------------------

// c07CssLexImpl runs the real lexer; the encoding mirrors Css/Harness.v lex_enc.
func c07CssLexImpl(c Case) []int64 {
	dv, _ := takeList(c.Args)
	d := toBytes(dv)
	var out []int64
	p := catch(func() {
		in := parse.NewInputBytes(append(make([]byte, 0, len(d)+1), d...))
		l := css.NewLexer(in)
		budget := len(d) + 4
		extra := 2
		for {
			if budget == 0 {
				out = append(out, -3)
				return
			}
			budget--
			tt, data := l.Next()
			out = append(out, int64(tt), int64(in.Offset()), int64(len(data)))
			for _, x := range data {
				out = append(out, int64(x))
			}
			if tt == css.ErrorToken {
				out = append(out, errCode(l.Err()))
				if extra == 0 {
					out = append(out, -2)
					return
				}
				extra--
			}
		}
	})
	if p != nil {
		out = append(out, -1)
	}
	return out
}

func c07B2i(b bool) int64 {
	if b {
		return 1
	}
	return 0
}

func c07CssUtilImpl(c Case) []int64 {
	dv, _ := takeList(c.Args)
	d := toBytes(dv)
	out := []int64{-1, -1}
	if p := catch(func() { out[0] = c07B2i(css.IsIdent(append([]byte{}, d...))) }); p != nil {
		out[0] = -1
	}
	if p := catch(func() { out[1] = c07B2i(css.IsURLUnquoted(append([]byte{}, d...))) }); p != nil {
		out[1] = -1
	}
	return out
}

// byte classes of the lexer: one representative per class that any consume* function distinguishes
var c07CssAlphaFull = []byte{'a', 'u', 'e', 'F', '-', '+', '.', '1', '\\', '(', ')', '"', '\'', ' ', '\n', '\r',
	'/', '*', '#', '@', '|', '=', '<', '!', '>', '?', '%', 0, 0xE2, ':', '~', '_', '\f', '\t'}
var c07CssAlphaCore = []byte{'a', 'u', 'e', '-', '+', '.', '1', '\\', '(', ')', '"', ' ', '\n', '/', '*', 0, 0xE2, '?'}
var c07CssAlphaIdent = []byte{'a', '-', '\\', '1', 'f', ' ', '\n', 0, 0xC3, 0xE2, 0xF0, 0x80, '(', ')', '"', '_', 0x7F, '\t', '\r'}

var c07CssBoundary = []string{
	"u+123456", "u+1234567", "u+12345?", "u+123456?", "u+??????", "u+???????", "U+123456-123456", "U+123456-1234567",
	"U+1234567-1", "u+-1", "u+1-", "u+1-g", "u+?-1", "u+1?-2", "u+g",
	"\\12345", "\\123456", "\\1234567", "a\\12345 6", "a\\123456 7", "a\\1234567 8", "\\12345\n6", "\\1\r\n2", "\\\xe2\x82\xac", "\\\xe2\x82", "\\\xf0\x90\x8d", "\\\xc3",
	"1e5", "1e+5", "1e-5", "1e+", "1e-", "1e", "1E5", "1.5e5", "1.e5", "1.5.5", ".5", ".5e5", "+.5", "-.5", "+.", "-.", "+5", "-5", "+-5", "1.", "1..5",
	"-->", "--", "--a", "-a", "-1", "-\\a", "--\\", "<!--", "<!-", "<!", "||", "|=", "|", "~=", "^=", "$=", "*=",
	"url(", "url()", "url( )", "url(a", "url(a)", "url( a )", "url(a b)", "url(a\\)", "url(a\\))", "url('a')", "url('a' )", "url('a'b)", "url('a\nb)", "url(a\"b)", "url(a(b)", "URL(a)", "uRl(a)", "\\url(a)", "u\\rl(a)", "url\\(a)", "urlx(a)", "ur(a)",
	"\"a\"", "\"a", "\"a\\", "\"a\\\nb\"", "\"a\\\r\nb\"", "\"a\nb\"", "'a\\'b'", "\"\\", "/**/", "/*", "/* *", "/* */", "/**", "/*/", "/***/",
	"#a", "#", "#-", "#1", "#\\a", "#\\\n", "@a", "@", "@-a", "@--a", "@-", "@1", "@\\a",
}

func c07CssCase(fn string, b []byte, note string) Case {
	if note == "" {
		note = fmt.Sprintf("%s %q", fn, b)
	}
	return Case{Fn: fn, Args: bytesToArgs(b), Note: note}
}

// ---- token grammar generator (CSS Syntax railroad diagrams; shared by correspondence and oracle) ----

type c07CssTok struct {
	tt   css.TokenType
	text []byte
}

var c07CssRunes = []rune{0xE9, 0x20AC, 0x10348, 0x80, 0x7FF, 0xFFFD, 0x554A}

func c07GenEscape(r *Rng, atEnd bool) []byte {
	var b []byte
	b = append(b, '\\')
	switch r.Intn(4) {
	case 0, 1: // hex escape
		n := 1 + r.Intn(6)
		for i := 0; i < n; i++ {
			b = append(b, "0123456789abcdefABCDEF"[r.Intn(22)])
		}
		if atEnd || r.Bool() {
			b = append(b, []string{" ", "\t", "\n", "\f", "\r\n"}[r.Intn(5)]...) // CR LF is one whitespace
		} else {
			b = append(b, 'g'+byte(r.Intn(10))) // a non-hex identifier character ends the escape
		}
	case 2:
		esc := "!#$%&()*+,./:;<=>?@[]^`{|}~ghzGZ_-\" '"
		b = append(b, esc[r.Intn(len(esc))])
	default:
		b = utf8.AppendRune(b, c07CssRunes[r.Intn(len(c07CssRunes))])
	}
	return b
}

func c07GenIdentChars(r *Rng, b []byte, n int) []byte {
	for i := 0; i < n; i++ {
		switch r.Intn(12) {
		case 0:
			b = append(b, '-')
		case 1:
			b = append(b, '_')
		case 2:
			b = append(b, byte('0'+r.Intn(10)))
		case 3:
			b = utf8.AppendRune(b, c07CssRunes[r.Intn(len(c07CssRunes))])
		case 4:
			b = append(b, c07GenEscape(r, i == n-1)...)
		default:
			b = append(b, "abcdefuUrlLxyzEXe"[r.Intn(17)])
		}
	}
	return b
}

func c07GenIdent(r *Rng) []byte {
	var b []byte
	if r.Chance(1, 5) {
		b = append(b, '-')
	}
	n := r.Intn(5)
	switch r.Intn(8) {
	case 0:
		b = append(b, '_')
	case 1:
		b = utf8.AppendRune(b, c07CssRunes[r.Intn(len(c07CssRunes))])
	case 2:
		b = append(b, c07GenEscape(r, n == 0)...)
	default:
		b = append(b, "abcdefuUrlLxyzXg"[r.Intn(16)])
	}
	return c07GenIdentChars(r, b, n)
}

func c07GenCustomProp(r *Rng) []byte {
	return c07GenIdentChars(r, []byte("--"), r.Intn(5))
}

func c07GenDigits(r *Rng, b []byte) []byte {
	n := 1 + r.Intn(3)
	for i := 0; i < n; i++ {
		b = append(b, byte('0'+r.Intn(10)))
	}
	return b
}

func c07GenNumber(r *Rng) []byte {
	var b []byte
	if r.Chance(1, 3) {
		b = append(b, "+-"[r.Intn(2)])
	}
	switch r.Intn(3) {
	case 0:
		b = c07GenDigits(r, b)
	case 1:
		b = c07GenDigits(r, b)
		b = append(b, '.')
		b = c07GenDigits(r, b)
	default:
		b = append(b, '.')
		b = c07GenDigits(r, b)
	}
	if r.Chance(1, 3) {
		b = append(b, "eE"[r.Intn(2)])
		if r.Bool() {
			b = append(b, "+-"[r.Intn(2)])
		}
		b = c07GenDigits(r, b)
	}
	return b
}

func c07IsDigitB(c byte) bool { return c >= '0' && c <= '9' }

// a unit must not read as an exponent: e[+-]?digit
func c07UnitOK(u []byte) bool {
	if len(u) >= 2 && (u[0] == 'e' || u[0] == 'E') {
		if c07IsDigitB(u[1]) {
			return false
		}
		if len(u) >= 3 && (u[1] == '-' || u[1] == '+') && c07IsDigitB(u[2]) {
			return false
		}
	}
	return true
}

func c07IsURLName(name []byte) bool {
	s := bytes.ToLower(bytes.ReplaceAll(name, []byte{'\\'}, nil))
	return string(s) == "url"
}

func c07GenStringBody(r *Rng, q byte) []byte {
	var b []byte
	n := r.Intn(6)
	for i := 0; i < n; i++ {
		switch r.Intn(10) {
		case 0:
			b = append(b, c07GenEscape(r, false)...)
		case 1:
			b = append(b, '\\')
			b = append(b, []string{"\n", "\r\n", "\f", "\r"}[r.Intn(4)]...)
		case 2:
			b = utf8.AppendRune(b, c07CssRunes[r.Intn(len(c07CssRunes))])
		case 3:
			if q == '"' {
				b = append(b, '\'')
			} else {
				b = append(b, '"')
			}
		case 4:
			b = append(b, " \t/*(){};:0"[r.Intn(11)])
		default:
			b = append(b, byte('a'+r.Intn(26)))
		}
	}
	// "\r" as a line continuation followed by "\n" would read as "\r\n": fine, both are skipped
	return b
}

func c07GenString(r *Rng) []byte {
	q := "\"'"[r.Intn(2)]
	b := []byte{q}
	b = append(b, c07GenStringBody(r, q)...)
	return append(b, q)
}

func c07GenURLWord(r *Rng) []byte {
	w := []byte("url")
	for i := range w {
		if r.Bool() {
			w[i] -= 32
		}
	}
	return w
}

func c07GenUnquotedURL(r *Rng) []byte {
	var b []byte
	n := 1 + r.Intn(6)
	for i := 0; i < n; i++ {
		switch r.Intn(8) {
		case 0:
			b = append(b, c07GenEscape(r, false)...)
		case 1:
			b = utf8.AppendRune(b, c07CssRunes[r.Intn(len(c07CssRunes))])
		case 2:
			pc := "/:.?&=#-_~%!*+,;@[]{}|<>$^`"
			b = append(b, pc[r.Intn(len(pc))])
		default:
			b = append(b, byte('a'+r.Intn(26)))
		}
	}
	return b
}

func c07GenWS(r *Rng) []byte {
	n := 1 + r.Intn(3)
	var b []byte
	for i := 0; i < n; i++ {
		b = append(b, " \t\n\r\f"[r.Intn(5)])
	}
	return b
}

func c07GenURL(r *Rng) []byte {
	b := c07GenURLWord(r)
	b = append(b, '(')
	if r.Chance(1, 3) {
		b = append(b, c07GenWS(r)...)
	}
	switch r.Intn(3) {
	case 0:
		b = append(b, c07GenString(r)...)
	case 1:
		b = append(b, c07GenUnquotedURL(r)...)
	default: // empty url
	}
	if r.Chance(1, 3) {
		b = append(b, c07GenWS(r)...)
	}
	return append(b, ')')
}

// malformed url( ... ) ending at the first unescaped ')'
func c07GenBadURL(r *Rng) []byte {
	b := c07GenURLWord(r)
	b = append(b, '(')
	switch r.Intn(5) {
	case 0: // whitespace inside an unquoted url
		b = append(b, c07GenUnquotedURL(r)...)
		b = append(b, ' ')
		b = append(b, c07GenUnquotedURL(r)...)
	case 1: // quote / parenthesis / control character inside
		b = append(b, c07GenUnquotedURL(r)...)
		b = append(b, "\"'(\x01\x7f"[r.Intn(5)])
		b = append(b, 'x')
	case 2: // junk after a quoted url
		b = append(b, c07GenString(r)...)
		b = append(b, ' ', 'x')
	case 3: // bad string inside
		b = append(b, '"', 'a', '\n', 'b')
	default: // escaped ')' inside the remnants
		b = append(b, 'a', ' ', 'b', '\\', ')', 'c')
	}
	return append(b, ')')
}

func c07GenHexN(r *Rng, b []byte, n int) []byte {
	for i := 0; i < n; i++ {
		b = append(b, "0123456789abcdefABCDEF"[r.Intn(22)])
	}
	return b
}

func c07GenUnicodeRange(r *Rng) []byte {
	b := []byte{"uU"[r.Intn(2)], '+'}
	switch r.Intn(3) {
	case 0:
		b = c07GenHexN(r, b, 1+r.Intn(6))
	case 1:
		k := r.Intn(6)
		b = c07GenHexN(r, b, k)
		q := 1 + r.Intn(6-k)
		for i := 0; i < q; i++ {
			b = append(b, '?')
		}
	default:
		b = c07GenHexN(r, b, 1+r.Intn(6))
		b = append(b, '-')
		b = c07GenHexN(r, b, 1+r.Intn(6))
	}
	return b
}

func c07GenComment(r *Rng) []byte {
	b := []byte("/*")
	n := r.Intn(5)
	for i := 0; i < n; i++ {
		b = append(b, "ab */\n\\\"'x"[r.Intn(10)])
	}
	// no accidental terminator inside
	s := strings.ReplaceAll(string(b[2:]), "*/", "* ")
	return append(append([]byte("/*"), s...), '*', '/')
}

var c07CssFixedToks = []c07CssTok{
	{css.IncludeMatchToken, []byte("~=")}, {css.DashMatchToken, []byte("|=")}, {css.PrefixMatchToken, []byte("^=")},
	{css.SuffixMatchToken, []byte("$=")}, {css.SubstringMatchToken, []byte("*=")}, {css.ColumnToken, []byte("||")},
	{css.CDOToken, []byte("<!--")}, {css.CDCToken, []byte("-->")}, {css.ColonToken, []byte(":")},
	{css.SemicolonToken, []byte(";")}, {css.CommaToken, []byte(",")}, {css.LeftBracketToken, []byte("[")},
	{css.RightBracketToken, []byte("]")}, {css.LeftParenthesisToken, []byte("(")}, {css.RightParenthesisToken, []byte(")")},
	{css.LeftBraceToken, []byte("{")}, {css.RightBraceToken, []byte("}")},
}

var c07CssDelims = []byte("!&=>~^$*.+</|#@%?-`")

func c07GenToken(r *Rng) c07CssTok {
	for {
		switch r.Intn(20) {
		case 0, 1:
			return c07CssTok{css.IdentToken, c07GenIdent(r)}
		case 2:
			return c07CssTok{css.CustomPropertyNameToken, c07GenCustomProp(r)}
		case 3:
			n := c07GenIdent(r)
			if c07IsURLName(n) {
				continue
			}
			return c07CssTok{css.FunctionToken, append(n, '(')}
		case 4:
			return c07CssTok{css.AtKeywordToken, append([]byte{'@'}, c07GenIdent(r)...)}
		case 5:
			return c07CssTok{css.HashToken, c07GenIdentChars(r, []byte{'#'}, 1+r.Intn(4))}
		case 6:
			return c07CssTok{css.StringToken, c07GenString(r)}
		case 7:
			return c07CssTok{css.URLToken, c07GenURL(r)}
		case 8:
			return c07CssTok{css.NumberToken, c07GenNumber(r)}
		case 9:
			return c07CssTok{css.PercentageToken, append(c07GenNumber(r), '%')}
		case 10:
			u := c07GenIdent(r)
			if r.Chance(1, 6) {
				u = c07GenCustomProp(r)
			}
			if !c07UnitOK(u) {
				continue
			}
			return c07CssTok{css.DimensionToken, append(c07GenNumber(r), u...)}
		case 11:
			return c07CssTok{css.UnicodeRangeToken, c07GenUnicodeRange(r)}
		case 12, 13, 14:
			return c07CssFixedToks[r.Intn(len(c07CssFixedToks))]
		case 15:
			return c07CssTok{css.DelimToken, []byte{c07CssDelims[r.Intn(len(c07CssDelims))]}}
		case 16:
			return c07CssTok{css.CommentToken, c07GenComment(r)}
		case 17:
			return c07CssTok{css.BadURLToken, c07GenBadURL(r)}
		case 18:
			q := "\"'"[r.Intn(2)]
			b := append([]byte{q}, c07GenStringBody(r, q)...)
			// a line continuation directly before the raw newline would swallow it
			b = append(b, 'x')
			return c07CssTok{css.BadStringToken, append(b, "\n\r\f"[r.Intn(3)])}
		default:
			return c07CssTok{css.IdentToken, c07GenIdent(r)}
		}
	}
}

func c07IsIdentCharB(c byte) bool {
	return c >= 'a' && c <= 'z' || c >= 'A' && c <= 'Z' || c >= '0' && c <= '9' || c == '_' || c == '-' || c >= 0x80
}

// c07CssSafeAdjacent: may next follow prev without a separator (conservative version of the
// serialisation table of CSS Syntax, extended to this lexer's extra token kinds)?
func c07CssSafeAdjacent(prev, next c07CssTok) bool {
	n0 := next.text[0]
	if next.tt == css.WhitespaceToken {
		return prev.tt != css.WhitespaceToken
	}
	switch prev.tt {
	case css.ColonToken, css.SemicolonToken, css.CommaToken, css.LeftBracketToken, css.RightBracketToken,
		css.LeftParenthesisToken, css.RightParenthesisToken, css.LeftBraceToken, css.RightBraceToken,
		css.StringToken, css.URLToken, css.BadURLToken, css.FunctionToken, css.CommentToken, css.CDOToken, css.CDCToken,
		css.IncludeMatchToken, css.DashMatchToken, css.PrefixMatchToken, css.SuffixMatchToken, css.SubstringMatchToken,
		css.ColumnToken, css.PercentageToken, css.WhitespaceToken:
		return true
	case css.BadStringToken:
		// "\r" ending the bad string followed by "\n" is still two tokens; always safe
		return true
	case css.IdentToken, css.AtKeywordToken, css.HashToken, css.DimensionToken, css.CustomPropertyNameToken:
		if string(prev.text) == "--" && n0 == '>' {
			return false // "-->" is CDC
		}
		return !(c07IsIdentCharB(n0) || n0 == '\\' || n0 == '(' || n0 == '+')
	case css.NumberToken:
		return !(c07IsIdentCharB(n0) || n0 == '\\' || n0 == '%' || n0 == '.')
	case css.UnicodeRangeToken:
		return !(c07IsIdentCharB(n0) || n0 == '?' || n0 == '\\')
	case css.DelimToken:
		return next.tt == css.CommentToken
	}
	return false
}

// c07GenTokenSeq returns the expected token sequence (separators included) and its text.
func c07GenTokenSeq(r *Rng, n int) ([]c07CssTok, []byte) {
	var seq []c07CssTok
	var text []byte
	for i := 0; i < n; i++ {
		t := c07GenToken(r)
		if len(seq) > 0 {
			prev := seq[len(seq)-1]
			if !(c07CssSafeAdjacent(prev, t) && r.Chance(2, 3)) {
				var seps []c07CssTok
				switch r.Intn(6) {
				case 0:
					seps = []c07CssTok{{css.CommentToken, c07GenComment(r)}}
				case 1:
					seps = []c07CssTok{{css.WhitespaceToken, c07GenWS(r)}, {css.CommentToken, c07GenComment(r)}}
				case 2:
					seps = []c07CssTok{{css.CommentToken, c07GenComment(r)}, {css.WhitespaceToken, c07GenWS(r)}}
				default:
					seps = []c07CssTok{{css.WhitespaceToken, c07GenWS(r)}}
				}
				for _, sp := range seps {
					seq = append(seq, sp)
					text = append(text, sp.text...)
				}
			}
		}
		seq = append(seq, t)
		text = append(text, t.text...)
	}
	return seq, text
}

func c07MutateBytes(r *Rng, b []byte) []byte {
	b = append([]byte{}, b...)
	k := 1 + r.Intn(3)
	for i := 0; i < k; i++ {
		switch r.Intn(6) {
		case 0:
			if len(b) > 0 {
				b[r.Intn(len(b))] = byte(r.Intn(256))
			}
		case 1:
			if len(b) > 0 {
				j := r.Intn(len(b))
				b = append(b[:j], b[j+1:]...)
			}
		case 2:
			j := r.Intn(len(b) + 1)
			ins := []byte{0, 0x80, 0xC3, 0xE2, 0xF0, 0xFF, '\\', '\n', '"', '(', ')', '-', 'e', '.', '+', '/', '*', 'u', '?'}[r.Intn(19)]
			b = append(b[:j], append([]byte{ins}, b[j:]...)...)
		case 3:
			if len(b) > 0 {
				b = b[:r.Intn(len(b))]
			}
		case 4:
			if len(b) > 0 {
				j := r.Intn(len(b))
				b[j] = c07CssAlphaFull[r.Intn(len(c07CssAlphaFull))]
			}
		default:
			if len(b) > 1 {
				j := r.Intn(len(b) - 1)
				b[j], b[j+1] = b[j+1], b[j]
			}
		}
	}
	return b
}

func c07ShrinkBytesCase(c Case) []Case {
	dv, _ := takeList(c.Args)
	d := toBytes(dv)
	var out []Case
	for i := range d {
		nd := append(append([]byte{}, d[:i]...), d[i+1:]...)
		out = append(out, c07CssCase(c.Fn, nd, ""))
	}
	return out
}

var c07CssLexModel = &Model{
	Name: "csslex",
	Gen: func(r *Rng, tier string, emit func(Case)) {
		// exhaustive small scope
		kFull, kCore := 3, 4
		if tier == "thorough" {
			kFull, kCore = 4, 5
		}
		allStrings(c07CssAlphaFull, kFull, func(b []byte) { emit(c07CssCase("csslex", b, "")) })
		allStrings(c07CssAlphaCore, kCore, func(b []byte) {
			if len(b) > kFull {
				emit(c07CssCase("csslex", b, ""))
			}
		})
		// look-ahead triples after every first byte of the switch, followed by a tail
		for _, tail := range []string{"", "a", "1", ")"} {
			for _, s := range []string{"url(", "URL( ", "u+", "U+1-", "1e", "1e+", "1.", "-.", "+.", "--", "-\\", "#\\", "@-", "@\\", "<!-", "--", "\\\r", "\"\\", "url(\\", "url(a\\", "url('", "url( a ", "1e-", "\\1", "\\123456", "\\1234567"} {
				for _, c := range c07CssAlphaFull {
					emit(c07CssCase("csslex", append(append([]byte(s), c), tail...), ""))
				}
			}
		}
		for _, e := range c07EscapeCases(r) {
			emit(c07CssCase("csslex", e.text, ""))
			emit(c07CssCase("csslex", append(append([]byte{}, e.text[:len(e.text)/2]...), '\r', '\n', 'x'), ""))
		}
		for _, e := range c07BadURLCases() {
			emit(c07CssCase("csslex", e.text, ""))
		}
		// boundary cases of the counting loops and of the look-ahead
		for _, s := range c07CssBoundary {
			emit(c07CssCase("csslex", []byte(s), ""))
			for _, c := range c07CssAlphaCore {
				emit(c07CssCase("csslex", append([]byte(s), c), ""))
				emit(c07CssCase("csslex", append([]byte(s), ' ', c), ""))
			}
		}
		n := 12000
		if tier == "thorough" {
			n = 300000
		}
		for i := 0; i < n; i++ {
			_, text := c07GenTokenSeq(r, 1+i%6)
			switch i % 3 {
			case 0:
				emit(c07CssCase("csslex", text, fmt.Sprintf("structured %q", text)))
			case 1:
				m := c07MutateBytes(r, text)
				emit(c07CssCase("csslex", m, fmt.Sprintf("malformed %q", m)))
			default:
				// every truncation point is interesting: pick one
				if len(text) > 0 {
					text = text[:r.Intn(len(text)+1)]
				}
				emit(c07CssCase("csslex", text, fmt.Sprintf("truncated %q", text)))
			}
		}
	},
	Impl:   c07CssLexImpl,
	Shrink: c07ShrinkBytesCase,
	Class: func(c Case, out []int64) string {
		if len(out) > 0 && out[len(out)-1] == -1 {
			return "panic"
		}
		if len(out) == 0 {
			return "empty"
		}
		return "first=" + css.TokenType(out[0]).String()
	},
}

var c07CssUtilModel = &Model{
	Name: "cssutil",
	Gen: func(r *Rng, tier string, emit func(Case)) {
		k := 3
		if tier == "thorough" {
			k = 4
		}
		allStrings(c07CssAlphaIdent, k, func(b []byte) { emit(c07CssCase("cssutil", b, "")) })
		for _, b := range c07UtilEscapeArgs(r) {
			emit(c07CssCase("cssutil", b, ""))
		}
		n := 4000
		if tier == "thorough" {
			n = 200000
		}
		for i := 0; i < n; i++ {
			var b []byte
			switch i % 4 {
			case 0:
				b = c07GenIdent(r)
			case 1:
				b = c07GenUnquotedURL(r)
			case 2:
				b = c07GenCustomProp(r)
			default:
				b = c07GenToken(r).text
			}
			if i%2 == 1 {
				b = c07MutateBytes(r, b)
			}
			emit(c07CssCase("cssutil", b, ""))
		}
	},
	Impl:   c07CssUtilImpl,
	Shrink: c07ShrinkBytesCase,
	Class: func(c Case, out []int64) string {
		return fmt.Sprintf("ident=%d url=%d", out[0], out[1])
	},
}

// ---- C07 oracles (on the implementation only) ------------------------------------------------

type c07LexedTok struct {
	tt   css.TokenType
	data []byte
	off  int
}

// c07LexAll drives the real lexer; ok=false if it did not reach ErrorToken within len+2 calls.
func c07LexAll(b []byte) (toks []c07LexedTok, err error, ok bool, capBad bool) {
	in := parse.NewInputBytes(append(make([]byte, 0, len(b)+1), b...))
	l := css.NewLexer(in)
	for i := 0; i < len(b)+2; i++ {
		tt, data := l.Next()
		if tt == css.ErrorToken {
			return toks, l.Err(), true, capBad
		}
		if cap(data) != len(data) {
			capBad = true
		}
		toks = append(toks, c07LexedTok{tt, data, in.Offset()})
	}
	return toks, nil, false, capBad
}

func c07CssCheckInput(rep *Report, b []byte, bucket string) {
	key := hx(b)
	var toks []c07LexedTok
	var err error
	var ok, capBad bool
	if p := catch(func() { toks, err, ok, capBad = c07LexAll(b) }); p != nil {
		rep.Violate("panic:"+key, fmt.Sprintf("css lexer panics on %q: %v", b, p), map[string]interface{}{"input": key})
		return
	}
	if !ok {
		rep.Violate("hang:"+key, fmt.Sprintf("css lexer did not report the end of %q within len+2 calls", b), map[string]interface{}{"input": key})
		return
	}
	if err != io.EOF {
		rep.Violate("err:"+key, fmt.Sprintf("css lexer ends %q with Err()=%v, not io.EOF", b, err), map[string]interface{}{"input": key})
	}
	if capBad {
		rep.Violate("cap:"+key, fmt.Sprintf("a token of %q has cap != len", b), map[string]interface{}{"input": key})
	}
	// tiling, order, non-empty, offsets
	var cat []byte
	off := 0
	for _, t := range toks {
		if len(t.data) == 0 {
			rep.Violate("empty:"+key, fmt.Sprintf("empty %v token in %q", t.tt, b), map[string]interface{}{"input": key})
		}
		off += len(t.data)
		if t.off != off {
			rep.Violate("offset:"+key, fmt.Sprintf("token %v %q of %q ends at offset %d, expected %d", t.tt, t.data, b, t.off, off), map[string]interface{}{"input": key})
		}
		cat = append(cat, t.data...)
	}
	if !bytes.Equal(cat, b) {
		rep.Violate("tiling:"+key, fmt.Sprintf("tokens of %q concatenate to %q", b, cat), map[string]interface{}{"input": key})
	}
	// re-lexing every token on its own
	for _, t := range toks {
		var again []c07LexedTok
		if p := catch(func() { again, _, _, _ = c07LexAll(t.data) }); p != nil {
			rep.Violate("relex-panic:"+hx(t.data), fmt.Sprintf("re-lexing %q panics", t.data), map[string]interface{}{"input": key, "token": hx(t.data)})
			continue
		}
		if len(again) != 1 || again[0].tt != t.tt || !bytes.Equal(again[0].data, t.data) {
			rep.Violate("relex:"+hx(t.data), fmt.Sprintf("token %v %q of %q re-lexes to %v", t.tt, t.data, b, again), map[string]interface{}{"input": key, "token": hx(t.data)})
		}
	}
	rep.Eval(key, len(toks) >= 1, bucket)
}

func c07CssCheckUtil(rep *Report, b []byte) {
	key := hx(b)
	var id, ur bool
	if p := catch(func() { id = css.IsIdent(append([]byte{}, b...)); ur = css.IsURLUnquoted(append([]byte{}, b...)) }); p != nil {
		rep.Violate("util-panic:"+key, fmt.Sprintf("IsIdent/IsURLUnquoted panics on %q", b), map[string]interface{}{"input": key})
		return
	}
	if len(b) > 0 {
		toks, _, _, _ := c07LexAll(b)
		one := len(toks) == 1 && (toks[0].tt == css.IdentToken || toks[0].tt == css.CustomPropertyNameToken) && bytes.Equal(toks[0].data, b)
		if id != one {
			rep.Violate("isident:"+key, fmt.Sprintf("IsIdent(%q)=%v but the lexer gives %v", b, id, toks), map[string]interface{}{"input": key})
		}
	}
	if ur {
		u := append(append([]byte("url("), b...), ')')
		toks, _, _, _ := c07LexAll(u)
		if !(len(toks) == 1 && toks[0].tt == css.URLToken && bytes.Equal(toks[0].data, u)) {
			rep.Violate("isurl:"+key, fmt.Sprintf("IsURLUnquoted(%q)=true but url(...) lexes to %v", b, toks), map[string]interface{}{"input": key})
		}
	}
	bucket := "ident=f"
	if id {
		bucket = "ident=t"
	}
	if ur {
		bucket += " url=t"
	} else {
		bucket += " url=f"
	}
	rep.Eval("util:"+key, id || ur, bucket)
}

func c07OracleSlices(r *Rng, tier string, rep *Report) {
	k := 3
	if tier == "thorough" {
		k = 4
	}
	allStrings(c07CssAlphaFull, k, func(b []byte) { c07CssCheckInput(rep, b, "exhaustive") })
	n := 8000
	if tier == "thorough" {
		n = 400000
	}
	for i := 0; i < n; i++ {
		_, text := c07GenTokenSeq(r, 1+i%8)
		if i%2 == 1 {
			text = c07MutateBytes(r, text)
			c07CssCheckInput(rep, text, "malformed")
		} else {
			c07CssCheckInput(rep, text, "structured")
		}
	}
}

func c07OracleUtil(r *Rng, tier string, rep *Report) {
	k := 3
	if tier == "thorough" {
		k = 4
	}
	allStrings(c07CssAlphaIdent, k, func(b []byte) { c07CssCheckUtil(rep, b) })
	for _, b := range c07UtilEscapeArgs(r) {
		c07CssCheckUtil(rep, b)
	}
	n := 8000
	if tier == "thorough" {
		n = 400000
	}
	for i := 0; i < n; i++ {
		var b []byte
		switch i % 4 {
		case 0:
			b = c07GenIdent(r)
		case 1:
			b = c07GenUnquotedURL(r)
		case 2:
			b = c07GenCustomProp(r)
		default:
			b = c07GenToken(r).text
		}
		if i%3 == 2 {
			b = c07MutateBytes(r, b)
		}
		c07CssCheckUtil(rep, b)
	}
}

// token sequences written according to the token grammar lex to exactly that sequence
func c07OracleGrammar(r *Rng, tier string, rep *Report) {
	n := 12000
	if tier == "thorough" {
		n = 600000
	}
	for i := 0; i < n; i++ {
		seq, text := c07GenTokenSeq(r, 1+i%7)
		key := hx(text)
		var toks []c07LexedTok
		if p := catch(func() { toks, _, _, _ = c07LexAll(text) }); p != nil {
			rep.Violate("panic:"+key, fmt.Sprintf("css lexer panics on %q: %v", text, p), map[string]interface{}{"input": key})
			continue
		}
		bad := len(toks) != len(seq)
		for j := 0; !bad && j < len(seq); j++ {
			if toks[j].tt != seq[j].tt || !bytes.Equal(toks[j].data, seq[j].text) {
				bad = true
			}
		}
		if bad {
			var want []string
			for _, t := range seq {
				want = append(want, fmt.Sprintf("%v(%q)", t.tt, t.text))
			}
			var got []string
			for _, t := range toks {
				got = append(got, fmt.Sprintf("%v(%q)", t.tt, t.data))
			}
			rep.Violate("grammar:"+key, fmt.Sprintf("%q: written as %v, lexed as %v", text, want, got), map[string]interface{}{"input": key})
		}
		rep.Eval(key, len(seq) >= 2, fmt.Sprintf("tokens=%d", len(seq)))
	}
}


// ---- systematic escape / bad-url cases (CSS Syntax escape diagram; "matching ')'" of a bad url) ----

type c07Expect struct {
	text []byte
	want []c07CssTok
}

func c07Toks(ts ...c07CssTok) []c07CssTok { return ts }

// c07EscapeCases: a hex escape of every length 1..6 followed by a hex digit (length 6 only), a non-hex name
// character, each whitespace kind, or the end of input, inside every token kind that admits escapes.
func c07EscapeCases(r *Rng) []c07Expect {
	var out []c07Expect
	ws := c07CssTok{css.WhitespaceToken, []byte(" ")}
	x := c07CssTok{css.IdentToken, []byte("x")}
	for k := 1; k <= 6; k++ {
		hexes := [][]byte{c07GenHexN(r, nil, k), append(bytes.Repeat([]byte{'0'}, k-1), "4A6f"[r.Intn(4)])}
		for _, h := range hexes {
			esc := append([]byte{'\\'}, h...)
			// what follows the hex digits inside the token: tail is part of the token
			type fol struct {
				tail []byte
				eof  bool
			}
			fols := []fol{{[]byte("g"), false}, {[]byte(" "), false}, {[]byte("\t"), false}, {[]byte("\n"), false}, {[]byte("\f"), false}, {[]byte("\r"), false}, {[]byte("\r\n"), false}, {nil, true}}
			if k == 6 {
				fols = append(fols, fol{[]byte("1"), false}, fol{[]byte("B"), false}, fol{[]byte("a"), false})
			}
			for _, f := range fols {
				e := append(append([]byte{}, esc...), f.tail...)
				add := func(tt css.TokenType, tok []byte, after ...c07CssTok) {
					text := append([]byte{}, tok...)
					want := []c07CssTok{{tt, tok}}
					if !f.eof {
						text = append(text, " x"...)
						want = append(want, ws, x)
						for _, a := range after {
							text = append(text, a.text...)
							want = append(want, a)
						}
					}
					out = append(out, c07Expect{text, want})
				}
				cat := func(parts ...[]byte) []byte {
					var b []byte
					for _, p := range parts {
						b = append(b, p...)
					}
					return b
				}
				add(css.IdentToken, cat(e))
				add(css.IdentToken, cat([]byte("a"), e))
				add(css.IdentToken, cat([]byte("-"), e))
				add(css.CustomPropertyNameToken, cat([]byte("--"), e))
				add(css.AtKeywordToken, cat([]byte("@"), e))
				add(css.AtKeywordToken, cat([]byte("@b"), e))
				add(css.HashToken, cat([]byte("#"), e))
				add(css.HashToken, cat([]byte("#c"), e))
				add(css.DimensionToken, cat([]byte("1p"), e))
				add(css.DimensionToken, cat([]byte("1.5"), e))
				if !f.eof {
					add(css.FunctionToken, cat([]byte("f"), e, []byte("(")))
					add(css.StringToken, cat([]byte("\""), e, []byte("\"")))
					add(css.StringToken, cat([]byte("'z"), e, []byte("y'")))
					add(css.URLToken, cat([]byte("url("), e, []byte(")")))
					add(css.URLToken, cat([]byte("URL(q"), e, []byte("r)")))
					// the escape, a further name character, then whitespace inside url( : malformed
					add(css.BadURLToken, cat([]byte("url("), e, []byte("1 x)")))
				} else {
					// unterminated string / url at the end of input
					add(css.StringToken, cat([]byte("\""), e))
					add(css.URLToken, cat([]byte("url("), e))
				}
			}
		}
	}
	return out
}

// c07BadURLCases: a malformed url( whose remnants contain every escape form directly before ')' / the end.
func c07BadURLCases() []c07Expect {
	var out []c07Expect
	rp := c07CssTok{css.RightParenthesisToken, []byte(")")}
	c := c07CssTok{css.IdentToken, []byte("c")}
	semi := c07CssTok{css.SemicolonToken, []byte(";")}
	for _, pre := range []string{"url(a b", "URL(a\"", "url(a(b", "uRl('a' b", "url(a\x01", "url( \"x\ny"} {
		// escapes that do not hide the ')' : the bad url ends at the first ')'
		for _, e := range []string{"\\\\", "\\41 ", "\\g", "\\\xc3\xa9", "\\0000411", "\\(", "\\\"", ""} {
			tok := []byte(pre + e + ")")
			out = append(out, c07Expect{append(append([]byte{}, tok...), "c)"...), []c07CssTok{{css.BadURLToken, tok}, c, rp}})
			out = append(out, c07Expect{append(append([]byte{}, tok...), ';'), []c07CssTok{{css.BadURLToken, tok}, semi}})
			// ... and before the end of input
			eof := []byte(pre + e)
			out = append(out, c07Expect{eof, []c07CssTok{{css.BadURLToken, eof}}})
		}
		// an escaped ')' does hide it
		tok := []byte(pre + "\\)c)")
		out = append(out, c07Expect{append(append([]byte{}, tok...), ';'), []c07CssTok{{css.BadURLToken, tok}, semi}})
		tok2 := []byte(pre + "\\\\\\)c)")
		out = append(out, c07Expect{append(append([]byte{}, tok2...), ';'), []c07CssTok{{css.BadURLToken, tok2}, semi}})
		// a lone backslash at the end of input
		eof := []byte(pre + "\\")
		out = append(out, c07Expect{eof, []c07CssTok{{css.BadURLToken, eof}}})
	}
	return out
}

// arguments for IsIdent / IsURLUnquoted built from the escape cases: the whole text, the first token, and the
// argument of a url( )
func c07UtilEscapeArgs(r *Rng) [][]byte {
	var out [][]byte
	for _, e := range c07EscapeCases(r) {
		t := e.want[0].text
		out = append(out, e.text, t)
		if len(t) > 5 && bytes.EqualFold(t[:4], []byte("url(")) && t[len(t)-1] == ')' {
			out = append(out, t[4:len(t)-1])
		}
	}
	return out
}

func c07CheckExpect(rep *Report, e c07Expect, bucket string) {
	key := hx(e.text)
	var toks []c07LexedTok
	if p := catch(func() { toks, _, _, _ = c07LexAll(e.text) }); p != nil {
		rep.Violate("panic:"+key, fmt.Sprintf("css lexer panics on %q: %v", e.text, p), map[string]interface{}{"input": key})
		return
	}
	bad := len(toks) != len(e.want)
	for j := 0; !bad && j < len(e.want); j++ {
		bad = toks[j].tt != e.want[j].tt || !bytes.Equal(toks[j].data, e.want[j].text)
	}
	if bad {
		var want, got []string
		for _, t := range e.want {
			want = append(want, fmt.Sprintf("%v(%q)", t.tt, t.text))
		}
		for _, t := range toks {
			got = append(got, fmt.Sprintf("%v(%q)", t.tt, t.data))
		}
		rep.Violate("grammar:"+key, fmt.Sprintf("%q: written as %v, lexed as %v", e.text, want, got), map[string]interface{}{"input": key})
	}
	rep.Eval(key, true, bucket)
}

func c07OracleEscapes(r *Rng, tier string, rep *Report) {
	rounds := 1
	if tier == "thorough" {
		rounds = 20
	}
	for i := 0; i < rounds; i++ {
		for _, e := range c07EscapeCases(r) {
			c07CheckExpect(rep, e, "escape")
		}
	}
	for _, e := range c07BadURLCases() {
		c07CheckExpect(rep, e, "bad-url")
	}
	// CSS Syntax section 3.3 turns CR LF into one LF before tokenizing, so the single whitespace that ends a hex
	// escape is the whole "\r\n": it belongs to the name and does not start a whitespace token.
	for k := 1; k <= 6; k++ {
		name := append(append([]byte{'\\'}, c07GenHexN(r, nil, k)...), "\r\n"...)
		text := append(append([]byte{}, name...), 'x')
		var toks []c07LexedTok
		if p := catch(func() { toks, _, _, _ = c07LexAll(text) }); p != nil {
			rep.Violate("panic:"+hx(text), fmt.Sprintf("css lexer panics on %q: %v", text, p), map[string]interface{}{"input": hx(text)})
			continue
		}
		if !(len(toks) == 1 && toks[0].tt == css.IdentToken && bytes.Equal(toks[0].data, text)) {
			var got []string
			for _, t := range toks {
				got = append(got, fmt.Sprintf("%v(%q)", t.tt, t.data))
			}
			rep.Violate("escape-crlf", fmt.Sprintf("%q: one identifier by CSS Syntax (CR LF is one whitespace after a hex escape), lexed as %v", text, got), map[string]interface{}{"input": hx(text)})
		}
		rep.Eval(hx(text), true, "escape-crlf")
	}
}

func init() {
	props["C07"] = &PropSpec{
		Models: []*Model{c07CssLexModel, c07CssUtilModel},
		Oracles: []*Oracle{
			{Name: "c07-tiling-relex", Run: c07OracleSlices},
			{Name: "c07-isident-isurl", Run: c07OracleUtil},
			{Name: "c07-token-grammar", Run: c07OracleGrammar},
			{Name: "c07-escapes-badurl", Run: c07OracleEscapes},
		},
	}
}
