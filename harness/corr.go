package main

import (
	"bufio"
	"fmt"
	"os"
	"os/exec"
	"strconv"
	"strings"
	"sync"
)

// Case is one correspondence case: the model entry point and its integer-encoded input.
type Case struct {
	Fn   string
	Args []int64
	Note string // human readable description used in replays and samples
}

func (c Case) Line() string {
	var sb strings.Builder
	sb.WriteString(c.Fn)
	for _, a := range c.Args {
		sb.WriteByte(' ')
		sb.WriteString(strconv.FormatInt(a, 10))
	}
	return sb.String()
}

// Model ties one extracted Coq model to the implementation.
type Model struct {
	Name   string
	Gen    func(r *Rng, tier string, emit func(Case))
	Impl   func(c Case) []int64
	Shrink func(c Case) []Case              // candidates strictly smaller than c (optional)
	Class  func(c Case, out []int64) string // histogram bucket for the evidence (optional)
}

type Mismatch struct {
	Case  Case    `json:"-"`
	Line  string  `json:"case"`
	Note  string  `json:"note"`
	Impl  []int64 `json:"impl"`
	Model string  `json:"model"`
}

type CorrResult struct {
	Model      string         `json:"model"`
	Cases      int            `json:"cases"`
	Distinct   int            `json:"distinct"`
	Mismatches []Mismatch     `json:"mismatches"`
	Histogram  map[string]int `json:"histogram"`
	Samples    []string       `json:"samples"`
}

var verifRoot = func() string {
	if r := os.Getenv("VERIF_ROOT"); r != "" {
		return r
	}
	return "/verif"
}()

// repoRoot is the tree under verification: /repo, or a scratch copy of it for mutation self-tests (VERIF_REPO).
var repoRoot = func() string {
	if r := os.Getenv("VERIF_REPO"); r != "" {
		return r
	}
	return "/repo"
}()

// corrCap > 0 limits the number of generated cases kept (the first corrCap, then every 7th)
var corrCap = 0

var modelrunPath = verifRoot + "/ocaml/build/modelrun"

// runModel evaluates the extracted model on the given case lines (sharded over processes).
func runModel(lines []string) ([]string, error) {
	nshard := 8
	if len(lines) < 64 {
		nshard = 1
	}
	out := make([]string, len(lines))
	var wg sync.WaitGroup
	var firstErr error
	var mu sync.Mutex
	chunk := (len(lines) + nshard - 1) / nshard
	for s := 0; s < nshard; s++ {
		lo, hi := s*chunk, (s+1)*chunk
		if hi > len(lines) {
			hi = len(lines)
		}
		if lo >= hi {
			continue
		}
		wg.Add(1)
		go func(lo, hi int) {
			defer wg.Done()
			cmd := exec.Command("/bin/sh", "-c", "ulimit -s unlimited 2>/dev/null || ulimit -s 1000000 2>/dev/null; exec "+modelrunPath)
			stdin, _ := cmd.StdinPipe()
			stdout, _ := cmd.StdoutPipe()
			cmd.Stderr = os.Stderr
			if err := cmd.Start(); err != nil {
				mu.Lock()
				firstErr = err
				mu.Unlock()
				return
			}
			go func() {
				w := bufio.NewWriterSize(stdin, 1<<20)
				for i := lo; i < hi; i++ {
					w.WriteString(lines[i])
					w.WriteByte('\n')
				}
				w.Flush()
				stdin.Close()
			}()
			sc := bufio.NewScanner(stdout)
			sc.Buffer(make([]byte, 1<<20), 1<<28)
			i := lo
			for sc.Scan() && i < hi {
				out[i] = sc.Text()
				i++
			}
			err := cmd.Wait()
			if i != hi || err != nil {
				mu.Lock()
				firstErr = fmt.Errorf("modelrun shard %d-%d: got %d lines, err=%v", lo, hi, i-lo, err)
				mu.Unlock()
			}
		}(lo, hi)
	}
	wg.Wait()
	return out, firstErr
}

func fmtInts(v []int64) string {
	var sb strings.Builder
	for i, a := range v {
		if i > 0 {
			sb.WriteByte(' ')
		}
		sb.WriteString(strconv.FormatInt(a, 10))
	}
	return sb.String()
}

// safeImpl runs the implementation side; a panic that escapes Impl's own recovery is
// reported as the distinguished observation [-999].
func safeImpl(m *Model, c Case) (out []int64) {
	defer func() {
		if e := recover(); e != nil {
			out = []int64{-999}
		}
	}()
	return m.Impl(c)
}

// RunCorr generates cases, evaluates both sides, diffs them and shrinks disagreements.
func RunCorr(m *Model, r *Rng, tier string, corpus []Case) (*CorrResult, error) {
	var cases []Case
	cases = append(cases, corpus...)
	m.Gen(r, tier, func(c Case) {
		if corrCap == 0 || len(cases) < corrCap || len(cases)%7 == 0 && len(cases) < 4*corrCap {
			cases = append(cases, c)
		}
	})
	res := &CorrResult{Model: m.Name, Histogram: map[string]int{}, Mismatches: []Mismatch{}, Samples: []string{}}
	lines := make([]string, len(cases))
	seen := map[string]bool{}
	for i, c := range cases {
		lines[i] = c.Line()
		seen[lines[i]] = true
	}
	res.Cases = len(cases)
	res.Distinct = len(seen)
	outs, err := runModel(lines)
	if err != nil {
		return res, err
	}
	for i, c := range cases {
		impl := safeImpl(m, c)
		is := fmtInts(impl)
		if m.Class != nil {
			res.Histogram[m.Class(c, impl)]++
		}
		if is != outs[i] {
			if len(res.Mismatches) < 5 {
				mc, mi, mo := shrinkCase(m, c, impl, outs[i])
				res.Mismatches = append(res.Mismatches, Mismatch{Case: mc, Line: mc.Line(), Note: mc.Note, Impl: mi, Model: mo})
			} else {
				res.Mismatches = append(res.Mismatches, Mismatch{Case: c, Line: lines[i], Note: c.Note, Impl: impl, Model: outs[i]})
				if len(res.Mismatches) > 50 {
					break
				}
			}
		}
		if i%(len(cases)/5+1) == 0 && len(res.Samples) < 6 {
			s := c.Note
			if s == "" {
				s = lines[i]
			}
			if len(s) > 300 {
				s = s[:300] + "..."
			}
			res.Samples = append(res.Samples, s+" => "+trunc(is, 200))
		}
	}
	return res, nil
}

func trunc(s string, n int) string {
	if len(s) > n {
		return s[:n] + "..."
	}
	return s
}

func shrinkCase(m *Model, c Case, impl []int64, mo string) (Case, []int64, string) {
	if m.Shrink == nil {
		return c, impl, mo
	}
	for round := 0; round < 200; round++ {
		cands := m.Shrink(c)
		if len(cands) == 0 {
			break
		}
		lines := make([]string, len(cands))
		for i, cc := range cands {
			lines[i] = cc.Line()
		}
		outs, err := runModel(lines)
		if err != nil {
			break
		}
		progressed := false
		for i, cc := range cands {
			ci := safeImpl(m, cc)
			if fmtInts(ci) != outs[i] {
				c, impl, mo = cc, ci, outs[i]
				progressed = true
				break
			}
		}
		if !progressed {
			break
		}
	}
	return c, impl, mo
}
