package main

import (
	"bytes"
	"errors"
	"fmt"
	"io"
	"unicode/utf8"
	"unsafe"

	"github.com/tdewolff/parse/v2"
	"github.com/tdewolff/parse/v2/buffer"
)

// ---- C12: cursor (parse.Input, buffer.Lexer) ---------------------------------------------

// cursorAPI is the common surface of parse.Input and buffer.Lexer.
type cursorAPI interface {
	Err() error
	PeekErr(int) error
	Peek(int) byte
	PeekRune(int) (rune, int)
	Move(int)
	Pos() int
	Rewind(int)
	Lexeme() []byte
	Skip()
	Shift() []byte
	Offset() int
	Bytes() []byte
	Reset()
	Restore()
}

var errReader = errors.New("reader failed")

// chunkReader delivers data in chunks of the given sizes (cyclic) and then err (nil => io.EOF).
type chunkReader struct {
	data   []byte
	sizes  []int
	k      int
	err    error
	withEr bool // deliver the error together with the last bytes
}

func (c *chunkReader) Read(p []byte) (int, error) {
	if len(c.data) == 0 {
		if c.err != nil {
			return 0, c.err
		}
		return 0, io.EOF
	}
	n := 1
	if len(c.sizes) > 0 {
		n = c.sizes[c.k%len(c.sizes)]
		c.k++
	}
	if n > len(p) {
		n = len(p)
	}
	if n > len(c.data) {
		n = len(c.data)
	}
	copy(p, c.data[:n])
	c.data = c.data[n:]
	if len(c.data) == 0 && c.withEr {
		if c.err != nil {
			return n, c.err
		}
		return n, io.EOF
	}
	return n, nil
}

func errCode(e error) int64 {
	switch e {
	case nil:
		return 0
	case io.EOF:
		return 1
	}
	return 2
}

const (
	opPeek = iota
	opPeekErr
	opErr
	opPeekRune
	opMove
	opMoveRune
	opPos
	opRewind
	opLexeme
	opSkip
	opShift
	opOffset
	opBytes
	opLen
	opReset
	opRestore
)

var opNames = []string{"Peek", "PeekErr", "Err", "PeekRune", "Move", "MoveRune", "Pos", "Rewind", "Lexeme", "Skip", "Shift", "Offset", "Bytes", "Len", "Reset", "Restore"}

func sliceObs(z cursorAPI, s []byte, lo int) []int64 {
	// lo is the claimed offset of s in the buffer; verify by pointer identity where Go lets us
	base := z.Bytes()
	if len(s) > 0 && lo >= 0 && lo < len(base) {
		if unsafe.Pointer(&s[0]) != unsafe.Pointer(&base[lo]) {
			lo = -777
		}
	}
	out := []int64{int64(lo), int64(lo + len(s)), int64(cap(s))}
	for _, c := range s {
		out = append(out, int64(c))
	}
	return out
}

func cursorImpl(c Case) []int64 {
	a := c.Args
	flav, ctor, e := a[0], a[1], a[2]
	dv, rest := takeList(a[3:])
	sv, ops := takeList(rest)
	d := toBytes(dv)
	sp := toBytes(sv)
	var arr []byte
	var b []byte
	var rd io.Reader
	switch ctor {
	case 0:
		arr = make([]byte, len(d)+len(sp))
		copy(arr, d)
		copy(arr[len(d):], sp)
		b = arr[:len(d)]
	case 1:
	default:
		var er error
		if e != 0 {
			er = errReader
		}
		sizes := []int{1 + int(uint(len(d)*7+int(e))%3), 0, 2}
		rd = &chunkReader{data: append([]byte{}, d...), sizes: sizes, err: er, withEr: len(d)%2 == 1}
	}
	var z cursorAPI
	var in *parse.Input
	if flav == 0 {
		switch ctor {
		case 0:
			in = parse.NewInputBytes(b)
		case 1:
			in = parse.NewInputString(string(d))
		default:
			in = parse.NewInput(rd)
		}
		z = in
	} else {
		switch ctor {
		case 0:
			z = buffer.NewLexerBytes(b)
		case 1:
			z = buffer.NewLexerBytes([]byte(string(d)))
		default:
			z = buffer.NewLexer(rd)
		}
	}
	var out []int64
	for i := 0; i+1 < len(ops); i += 2 {
		code, arg := ops[i], int(ops[i+1])
		var obs []int64
		p := catch(func() {
			switch code {
			case opPeek:
				obs = []int64{int64(z.Peek(arg))}
			case opPeekErr:
				obs = []int64{errCode(z.PeekErr(arg))}
			case opErr:
				obs = []int64{errCode(z.Err())}
			case opPeekRune:
				r, n := z.PeekRune(arg)
				obs = []int64{int64(r), int64(n)}
			case opMove:
				z.Move(arg)
			case opMoveRune:
				if in != nil {
					in.MoveRune()
				}
			case opPos:
				obs = []int64{int64(z.Pos())}
			case opRewind:
				z.Rewind(arg)
			case opLexeme:
				lo := z.Offset() - z.Pos()
				obs = sliceObs(z, z.Lexeme(), lo)
			case opSkip:
				z.Skip()
			case opShift:
				lo := z.Offset() - z.Pos()
				obs = sliceObs(z, z.Shift(), lo)
			case opOffset:
				obs = []int64{int64(z.Offset())}
			case opBytes:
				obs = sliceObs(z, z.Bytes(), 0)
			case opLen:
				if in != nil {
					obs = []int64{int64(in.Len())}
				} else {
					obs = []int64{int64(len(z.Bytes()))}
				}
			case opReset:
				z.Reset()
			default:
				z.Restore()
			}
		})
		if p != nil {
			return append(out, -1)
		}
		out = append(out, int64(len(obs)))
		out = append(out, obs...)
	}
	out = append(out, -2)
	switch {
	case ctor == 0:
		for _, x := range arr {
			out = append(out, int64(x))
		}
	case ctor == 1 || e == 0:
		for _, x := range d {
			out = append(out, int64(x))
		}
	}
	return out
}

var c12Alphabet = []byte{'a', 'b', 0, 0x80, 0xBF, 0xC3, 0xE2, 0xED, 0xF0, 0xF4, 0xFF, 0xA9, '\n'}

func genCursorCase(r *Rng, maxLen, maxOps int, contract bool) Case {
	flav := int64(r.Intn(2))
	ctor := int64(r.Intn(3))
	e := int64(0)
	if ctor == 2 && r.Chance(1, 4) {
		e = 2
	}
	n := r.Intn(maxLen + 1)
	d := make([]byte, n)
	for i := range d {
		if r.Chance(1, 3) {
			d[i] = r.Pick(c12Alphabet)
		} else {
			d[i] = byte(r.Intn(256))
		}
	}
	// sometimes valid UTF-8 text
	if r.Chance(1, 3) {
		d = d[:0]
		for len(d) < n {
			rn := []rune{'a', 'é', '€', 0x10348, 0x7FF, 0x800, 0xFFFF, 0x10000, 0x10FFFF, 0xD7FF, 0xE000, 0}[r.Intn(12)]
			d = utf8.AppendRune(d, rn)
		}
		// truncate at any distance from the end
		if r.Chance(1, 2) && len(d) > 0 {
			d = d[:len(d)-r.Intn(min(4, len(d)))]
		}
	}
	n = len(d)
	var sp []byte
	if ctor == 0 && r.Bool() {
		sp = []byte{byte(1 + r.Intn(255))}
		if r.Bool() {
			sp = append(sp, byte(r.Intn(256)))
		}
	}
	effLen := n // length of data actually visible
	if e != 0 {
		effLen = 0
	}
	start, pos := 0, 0
	var ops []int64
	nops := 1 + r.Intn(maxOps)
	for k := 0; k < nops; k++ {
		code := int64(r.Intn(16))
		arg := int64(0)
		if flav == 1 && code == opMoveRune {
			code = opPeekRune
		}
		if contract && code == opRestore && k != nops-1 {
			code = opPos // the documentation allows Restore only when done
		}
		switch code {
		case opPeek, opPeekErr, opPeekRune:
			if contract {
				arg = int64(r.Intn(effLen-pos+1) - r.Intn(2)*r.Intn(pos-start+1))
				if int(arg)+pos < 0 {
					arg = 0
				}
			} else {
				arg = int64(r.Intn(effLen+4) - pos - 1)
			}
			if code == opPeekErr && !contract {
				arg = int64(r.Intn(effLen+6) - 3)
			}
		case opMove:
			if contract {
				arg = int64(r.Intn(effLen - pos + 1))
				if r.Chance(1, 5) {
					arg = -int64(r.Intn(pos - start + 1))
				}
			} else {
				arg = int64(r.Intn(effLen+3) - pos - 1)
			}
			pos += int(arg)
		case opMoveRune:
			// shadow position: replicate the documented behaviour
			if pos < 0 {
				pos++
			} else if pos >= effLen {
				if contract {
					code, arg = opPeek, 0
					break
				}
				pos++
			} else {
				c := d[pos]
				rem := effLen - pos
				switch {
				case c < 0xC0 || rem < 2:
					pos++
				case c < 0xE0 || rem < 3:
					pos += 2
				case c < 0xF0 || rem < 4:
					pos += 3
				default:
					pos += 4
				}
			}
		case opRewind:
			if contract {
				arg = int64(r.Intn(effLen - start + 1))
			} else {
				arg = int64(r.Intn(effLen+3) - start - 1)
			}
			pos = start + int(arg)
		case opSkip, opShift:
			start = pos
		case opReset:
			start, pos = 0, 0
		}
		// never let pos leave [-2, effLen+1]: beyond len(buf) Go's behaviour depends on cap(buf)
		if pos > effLen+1 || pos < -2 {
			break
		}
		ops = append(ops, code, arg)
	}
	args := []int64{flav, ctor, e}
	args = append(args, bytesToArgs(d)...)
	args = append(args, bytesToArgs(sp)...)
	args = append(args, ops...)
	return Case{Fn: "cursor", Args: args, Note: describeCursor(args)}
}

func describeCursor(a []int64) string {
	dv, rest := takeList(a[3:])
	sv, ops := takeList(rest)
	s := fmt.Sprintf("%s ctor=%s err=%d data=%q spare=%q ops=", []string{"Input", "Lexer"}[a[0]], []string{"bytes", "string", "reader"}[a[1]], a[2], toBytes(dv), toBytes(sv))
	for i := 0; i+1 < len(ops); i += 2 {
		s += fmt.Sprintf("%s(%d) ", opNames[ops[i]], ops[i+1])
	}
	return s
}

func shrinkCursor(c Case) []Case {
	a := c.Args
	dv, rest := takeList(a[3:])
	sv, ops := takeList(rest)
	var out []Case
	mk := func(d, sp, ops []int64) {
		args := []int64{a[0], a[1], a[2], int64(len(d))}
		args = append(args, d...)
		args = append(args, int64(len(sp)))
		args = append(args, sp...)
		args = append(args, ops...)
		out = append(out, Case{Fn: c.Fn, Args: args, Note: describeCursor(args)})
	}
	for i := 0; i+1 < len(ops); i += 2 {
		no := append(append([]int64{}, ops[:i]...), ops[i+2:]...)
		mk(dv, sv, no)
	}
	for i := range dv {
		nd := append(append([]int64{}, dv[:i]...), dv[i+1:]...)
		mk(nd, sv, ops)
	}
	return out
}

var cursorModel = &Model{
	Name: "cursor",
	Gen: func(r *Rng, tier string, emit func(Case)) {
		n := 20000
		if tier == "thorough" {
			n = 400000
		}
		for i := 0; i < n; i++ {
			emit(genCursorCase(r, 1+i%40, 1+i%25, i%3 != 0))
		}
		// exhaustive: PeekRune / MoveRune at every position of every short string
		k := 4
		if tier == "thorough" {
			k = 5
		}
		alpha := []byte{'a', 0, 0x80, 0xC3, 0xE2, 0xF0, 0xFF}
		allStrings(alpha, k, func(d []byte) {
			for flav := int64(0); flav < 2; flav++ {
				args := []int64{flav, int64(len(d) % 2), 0}
				args = append(args, bytesToArgs(d)...)
				args = append(args, 0)
				for p := 0; p <= len(d); p++ {
					args = append(args, opPeekRune, int64(p))
				}
				for p := 0; p <= len(d); p++ {
					args = append(args, opMoveRune, 0, opOffset, 0, opRewind, int64(p+1))
				}
				emit(Case{Fn: "cursor", Args: args, Note: describeCursor(args)})
			}
		})
	},
	Impl:   cursorImpl,
	Shrink: shrinkCursor,
	Class: func(c Case, out []int64) string {
		s := []string{"Input", "Lexer"}[c.Args[0]] + "/" + []string{"bytes", "string", "reader"}[c.Args[1]]
		if len(out) > 0 && out[len(out)-1] == -1 {
			s += "/panic"
		}
		return s
	},
}

// ---- C12 oracle: abstract cursor written from the documentation, in Go ------------------------

func c12Oracle(r *Rng, tier string, rep *Report) {
	n := 30000
	if tier == "thorough" {
		n = 1000000
	}
	for it := 0; it < n; it++ {
		c := genCursorCase(r, 1+it%30, 1+it%20, true)
		a := c.Args
		dv, rest := takeList(a[3:])
		_, ops := takeList(rest)
		d := toBytes(dv)
		if a[2] != 0 {
			d = nil
		}
		out := cursorImpl(c)
		// reference run
		start, pos := 0, 0
		k := 0
		fail := func(msg string) {
			rep.Violate("cursor:"+c.Line(), msg+" in "+c.Note, map[string]interface{}{"case": c.Line(), "desc": c.Note})
		}
		next := func() ([]int64, bool) {
			if k >= len(out) || out[k] < 0 {
				return nil, false
			}
			l := int(out[k])
			o := out[k+1 : k+1+l]
			k += 1 + l
			return o, true
		}
		ok := true
		for i := 0; ok && i+1 < len(ops); i += 2 {
			code, arg := ops[i], int(ops[i+1])
			o, got := next()
			if !got {
				fail(fmt.Sprintf("panic at op %d (%s) of a contract-respecting sequence", i/2, opNames[code]))
				break
			}
			want := []int64(nil)
			switch code {
			case opPeek:
				p := pos + arg
				if p < 0 || p > len(d) {
					ok = false
					continue
				}
				if p == len(d) {
					want = []int64{0}
				} else {
					want = []int64{int64(d[p])}
				}
			case opPeekErr, opErr:
				if code == opErr {
					arg = 0
				}
				if a[2] != 0 {
					want = []int64{2}
				} else if pos+arg >= len(d) {
					want = []int64{1}
				} else {
					want = []int64{0}
				}
			case opPeekRune:
				p := pos + arg
				if p < 0 || p > len(d) {
					ok = false
					continue
				}
				if len(o) == 2 {
					// totality: length never reaches past the end (1 at the terminator)
					if !(o[1] >= 1 && (p+int(o[1]) <= len(d) || o[1] == 1)) {
						fail(fmt.Sprintf("PeekRune(%d) length %d reaches past the end", arg, o[1]))
					}
				}
				if p < len(d) && utf8.FullRune(d[p:]) {
					rn, sz := utf8.DecodeRune(d[p:])
					if rn != utf8.RuneError || sz != 1 {
						want = []int64{int64(rn), int64(sz)}
					} else {
						continue
					}
				} else {
					continue
				}
			case opMove:
				pos += arg
				continue
			case opMoveRune:
				if pos < len(d) && utf8.FullRune(d[pos:]) {
					rn, sz := utf8.DecodeRune(d[pos:])
					if rn != utf8.RuneError || sz != 1 {
						pos += sz
						continue
					}
				}
				ok = false // position after an invalid rune is unspecified
				continue
			case opPos:
				want = []int64{int64(pos - start)}
			case opRewind:
				pos = start + arg
				continue
			case opLexeme, opShift:
				if start > pos || pos > len(d) {
					ok = false
					continue
				}
				want = []int64{int64(start), int64(pos), int64(pos - start)}
				for _, x := range d[start:pos] {
					want = append(want, int64(x))
				}
				if code == opShift {
					start = pos
				}
			case opSkip:
				start = pos
				continue
			case opOffset:
				want = []int64{int64(pos)}
			case opBytes:
				want = []int64{0, int64(len(d)), int64(len(d))}
				for _, x := range d {
					want = append(want, int64(x))
				}
			case opLen:
				want = []int64{int64(len(d))}
			case opReset:
				start, pos = 0, 0
				continue
			default:
				continue
			}
			if fmtInts(want) != fmtInts(o) {
				fail(fmt.Sprintf("op %d %s(%d): got %v want %v", i/2, opNames[code], arg, o, want))
				break
			}
		}
		rep.Eval(c.Line(), len(ops) >= 4 && len(d) > 0, []string{"Input", "Lexer"}[a[0]])
	}
	// caller's slice is never modified apart from the borrowed byte, which Restore puts back
	m := 3000
	if tier == "thorough" {
		m = 100000
	}
	for it := 0; it < m; it++ {
		nn := r.Intn(12)
		arr := make([]byte, nn+1+r.Intn(3))
		for i := range arr {
			arr[i] = byte(1 + r.Intn(255))
		}
		orig := append([]byte{}, arr...)
		var z cursorAPI
		if it%2 == 0 {
			z = parse.NewInputBytes(arr[:nn])
		} else {
			z = buffer.NewLexerBytes(arr[:nn])
		}
		for k := 0; k < 10; k++ {
			if z.Err() == nil {
				z.Move(1)
			}
			_ = z.Shift()
		}
		if !bytes.Equal(arr[:nn], orig[:nn]) {
			rep.Violate(fmt.Sprintf("frame:%x", orig), "caller's bytes modified", map[string]interface{}{"arr": hx(orig), "n": nn})
		}
		z.Restore()
		if !bytes.Equal(arr, orig) {
			rep.Violate(fmt.Sprintf("restore:%x", orig), "Restore did not put the borrowed byte back", map[string]interface{}{"arr": hx(orig), "n": nn})
		}
		rep.Eval(fmt.Sprintf("frame:%x/%d", orig, nn), nn > 0, "restore")
	}
}

func init() {
	props["C12"] = &PropSpec{
		Models:  []*Model{cursorModel},
		Oracles: []*Oracle{{Name: "c12-abstract-cursor", Run: c12Oracle}},
	}
}

func min(a, b int) int {
	if a < b {
		return a
	}
	return b
}
