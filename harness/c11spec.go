package main

import (
	"bytes"
	stdxml "encoding/xml"
	"fmt"
	"io"
	"strings"
)

// ---- C11, second correspondence: the Coq *specification* (document grammar, render_doc, expect_doc,
// doc_okb of Xml/WellFormed.v and Xml/Checker.v) against the implementation.  A case is a document as
// a list of constructs; the Coq side checks the grammar's side conditions and prints the rendered
// bytes and the tokens its theorem prescribes; this side renders the constructs itself, runs the real
// lexer and prints what it returned.  (The same generator feeds the encoding/xml oracle in c11.go.) --------------------------------------------------------------------------------------

func encBytesStr(out []int64, s string) []int64 {
	out = append(out, int64(len(s)))
	for i := 0; i < len(s); i++ {
		out = append(out, int64(s[i]))
	}
	return out
}

func encPieces(out []int64, ps []xpiece) []int64 {
	out = append(out, int64(len(ps)))
	for _, p := range ps {
		out = append(out, int64(p.kind))
		switch p.kind {
		case 0:
			out = append(out, int64(p.c))
		case 1, 3, 4, 5, 6:
			out = encBytesStr(out, p.s)
		default:
			out = encPieces(out, p.inner)
		}
	}
	return out
}

func encItems(items []xitem) []int64 {
	out := []int64{int64(len(items))}
	for _, it := range items {
		out = append(out, int64(it.kind))
		switch it.kind {
		case itText, itComment, itCdata:
			out = encBytesStr(out, it.s)
		case itDoctype:
			out = encPieces(out, it.pieces)
		case itPI, itStart:
			out = encBytesStr(out, it.s)
			out = append(out, int64(len(it.attrs)))
			for _, a := range it.attrs {
				out = encBytesStr(out, a.lead)
				out = encBytesStr(out, a.name)
				out = encBytesStr(out, a.ws1)
				out = encBytesStr(out, a.ws2)
				out = append(out, int64(a.q))
				out = encBytesStr(out, a.val)
			}
			out = encBytesStr(out, it.ws)
			if it.kind == itStart {
				if it.void {
					out = append(out, 1)
				} else {
					out = append(out, 0)
				}
			}
		case itEnd:
			out = encBytesStr(out, it.s)
			out = encBytesStr(out, it.ws)
		case itTag:
			if it.pi {
				out = append(out, 1)
			} else {
				out = append(out, 0)
			}
			out = encBytesStr(out, it.s)
			out = append(out, int64(len(it.gpieces)))
			for _, g := range it.gpieces {
				out = encBytesStr(out, g.lead)
				out = encBytesStr(out, g.name)
				out = append(out, int64(g.vk))
				if g.vk != 0 {
					out = encBytesStr(out, g.w1)
					out = encBytesStr(out, g.w2)
					if g.vk >= 2 {
						out = append(out, int64(g.q))
					}
					out = encBytesStr(out, g.val)
				}
			}
			out = encBytesStr(out, it.ws)
			out = append(out, int64(it.closer))
		}
	}
	return out
}

type intReader struct {
	a  []int64
	ok bool
}

func (r *intReader) next() int64 {
	if len(r.a) == 0 {
		r.ok = false
		return 0
	}
	v := r.a[0]
	r.a = r.a[1:]
	return v
}

func (r *intReader) str() string {
	n := r.next()
	if !r.ok || n < 0 || int(n) > len(r.a) {
		r.ok = false
		return ""
	}
	b := make([]byte, n)
	for i := range b {
		b[i] = byte(r.a[i])
	}
	r.a = r.a[n:]
	return string(b)
}

func (r *intReader) count() int {
	n := r.next()
	if !r.ok || n < 0 || int(n) > len(r.a) {
		r.ok = false
		return 0
	}
	return int(n)
}

func (r *intReader) pieces(depth int) []xpiece {
	var ps []xpiece
	for n := r.count(); n > 0 && r.ok; n-- {
		k := r.next()
		switch {
		case k == 0:
			ps = append(ps, xpiece{kind: 0, c: byte(r.next())})
		case k == 1 || k == 3 || (depth == 1 && k >= 4 && k <= 6):
			ps = append(ps, xpiece{kind: int(k), s: r.str()})
		case depth == 0:
			ps = append(ps, xpiece{kind: 2, inner: r.pieces(1)})
		default:
			r.ok = false
		}
	}
	return ps
}

func decItems(a []int64) ([]xitem, bool) {
	r := &intReader{a: a, ok: true}
	var items []xitem
	for n := r.count(); n > 0 && r.ok; n-- {
		it := xitem{kind: int(r.next())}
		switch it.kind {
		case itText, itComment, itCdata:
			it.s = r.str()
		case itDoctype:
			it.pieces = r.pieces(0)
		case itPI, itStart:
			it.s = r.str()
			for m := r.count(); m > 0 && r.ok; m-- {
				var at xattr
				at.lead, at.name, at.ws1, at.ws2 = r.str(), r.str(), r.str(), r.str()
				at.q = byte(r.next())
				at.val = r.str()
				it.attrs = append(it.attrs, at)
			}
			it.ws = r.str()
			if it.kind == itStart {
				it.void = r.next() != 0
			}
		case itEnd:
			it.s = r.str()
			it.ws = r.str()
		case itTag:
			it.pi = r.next() != 0
			it.s = r.str()
			for m := r.count(); m > 0 && r.ok; m-- {
				var g c11Gattr
				g.lead, g.name = r.str(), r.str()
				g.vk = int(r.next())
				if g.vk != 0 {
					g.w1, g.w2 = r.str(), r.str()
					if g.vk == 2 || g.vk == 3 {
						g.q = byte(r.next())
					} else {
						g.vk = 1
					}
					g.val = r.str()
				}
				it.gpieces = append(it.gpieces, g)
			}
			it.ws = r.str()
			it.closer = int(r.next())
			if it.closer != 7 && it.closer != 8 {
				it.closer = 6
			}
		default:
			r.ok = false
		}
		items = append(items, it)
	}
	return items, r.ok
}

func encOptBytes(out []int64, isNil bool, b []byte) []int64 {
	if isNil {
		return append(out, -1)
	}
	out = append(out, int64(len(b)))
	for _, c := range b {
		out = append(out, int64(c))
	}
	return out
}

// xmlspecImpl: render the constructs, run the real lexer, print the bytes and the tokens it returned in
// the format of Xml/Harness.v run_xmlspec.
func xmlspecImpl(c Case) []int64 {
	items, ok := decItems(c.Args)
	if !ok {
		return []int64{-9}
	}
	d := buildDoc(items)
	steps, _, oof, pan := xmlRun(d.src, 0)
	if pan != nil || oof || len(steps) == 0 {
		return []int64{-1}
	}
	out := []int64{-4}
	out = encOptBytes(out, false, d.src)
	out = append(out, int64(len(steps)-1))
	for _, st := range steps[:len(steps)-1] {
		out = append(out, int64(st.tt))
		out = encOptBytes(out, st.dataNil, st.data)
		out = encOptBytes(out, st.textNil, st.text)
		out = encOptBytes(out, st.attrNil, st.attr)
	}
	out = append(out, steps[len(steps)-1].err)
	return out
}

func describeItems(items []xitem) string {
	return fmt.Sprintf("spec %q", buildDoc(items).src)
}

func xmlspecCase(items []xitem, note string) Case {
	return Case{Fn: "xmlspec", Args: encItems(items), Note: note + " " + describeItems(items)}
}

func xmlspecGen(r *Rng, tier string, emit func(Case)) {
	n := 4000
	if tier == "thorough" {
		n = 100000
	}
	for i := 0; i < n; i++ {
		items := genXMLItems(r)
		if len(buildDoc(items).src) > 3000 {
			continue
		}
		emit(xmlspecCase(items, "doc"))
	}
	// the general tag opener: free-form processing-instruction / tag content
	ng := 3000
	if tier == "thorough" {
		ng = 60000
	}
	for i := 0; i < ng; i++ {
		emit(xmlspecCase(c11GenTagItems(r), "gtag"))
	}
	// single constructs with boundary bodies
	single := []xitem{
		{kind: itComment, s: ""}, {kind: itComment, s: "-"}, {kind: itComment, s: "->"}, {kind: itComment, s: ">"}, {kind: itComment, s: "- -"},
		{kind: itCdata, s: ""}, {kind: itCdata, s: "]"}, {kind: itCdata, s: "]]"}, {kind: itCdata, s: "]>"}, {kind: itCdata, s: "]]]"}, {kind: itCdata, s: ">"},
		{kind: itDoctype}, {kind: itDoctype, pieces: []xpiece{{kind: 1, s: ">"}}}, {kind: itDoctype, pieces: []xpiece{{kind: 2}}},
		{kind: itDoctype, pieces: []xpiece{{kind: 2, inner: []xpiece{{kind: 0, c: '>'}, {kind: 0, c: '['}, {kind: 1, s: "]"}}}}},
		{kind: itDoctype, pieces: []xpiece{{kind: 2, inner: []xpiece{{kind: 5, s: ""}, {kind: 5, s: " ]\"'> "}, {kind: 6, s: "p"}, {kind: 6, s: "p ]\"'>"}}}}},
		{kind: itDoctype, pieces: []xpiece{{kind: 2, inner: []xpiece{{kind: 4, s: "!E"}, {kind: 4, s: "!-x"}, {kind: 4, s: "a"}, {kind: 5, s: "<?"}, {kind: 6, s: "<!--"}}}}},
		{kind: itDoctype, pieces: []xpiece{{kind: 3, s: ">"}}}, {kind: itDoctype, pieces: []xpiece{{kind: 3, s: "\"]["}, {kind: 1, s: "'"}}},
		{kind: itDoctype, pieces: []xpiece{{kind: 2, inner: []xpiece{{kind: 3, s: "]\">"}, {kind: 0, c: '>'}}}}},
		{kind: itPI, s: "a"}, {kind: itPI, s: "a", ws: " "},
		{kind: itStart, s: "a"}, {kind: itStart, s: "a", void: true}, {kind: itStart, s: "a", ws: "\t\n", void: true},
		{kind: itStart, s: "a", attrs: []xattr{{lead: " ", name: "b", q: '"', val: ""}}},
		{kind: itStart, s: "a", attrs: []xattr{{lead: "\n", name: "b", ws1: " ", ws2: "\r", q: '\'', val: "\"/>?>\t"}}, void: true},
		{kind: itEnd, s: "a"}, {kind: itEnd, s: "a", ws: " \n"},
		{kind: itText, s: ">"}, {kind: itText, s: "]]"}, {kind: itText, s: " "},
	}
	for _, a := range single {
		emit(xmlspecCase([]xitem{a}, "single"))
		for _, b := range single {
			if a.kind == itText && b.kind == itText {
				continue
			}
			emit(xmlspecCase([]xitem{a, b}, "pair"))
		}
	}
}

func xmlspecShrink(c Case) []Case {
	items, ok := decItems(c.Args)
	if !ok {
		return nil
	}
	var out []Case
	for i := range items {
		ni := append(append([]xitem{}, items[:i]...), items[i+1:]...)
		// keep character data maximal
		bad := false
		for j := 0; j+1 < len(ni); j++ {
			if ni[j].kind == itText && ni[j+1].kind == itText {
				bad = true
			}
		}
		if !bad {
			out = append(out, xmlspecCase(ni, "shrunk"))
		}
	}
	for i := range items {
		if len(items[i].attrs) > 0 {
			ni := append([]xitem{}, items...)
			ni[i].attrs = ni[i].attrs[1:]
			out = append(out, xmlspecCase(ni, "shrunk"))
		}
	}
	return out
}

func xmlspecClass(c Case, out []int64) string {
	items, _ := decItems(c.Args)
	kinds := map[int]bool{}
	for _, it := range items {
		kinds[it.kind] = true
	}
	s := "spec/"
	for k, n := range []string{"t", "c", "d", "D", "p", "s", "e", "g"} {
		if kinds[k] {
			s += n
		}
	}
	if len(out) > 0 && out[0] != -4 {
		s += fmt.Sprintf("/code%d", out[0])
	}
	return s
}

var xmlspecModel = &Model{Name: "xmlspec", Gen: xmlspecGen, Impl: xmlspecImpl, Shrink: xmlspecShrink, Class: xmlspecClass}

// ---- C11, third correspondence: the Coq *reference semantics* (Xml/Agree.v ref_events: element names,
// attribute names, normalised attribute values, PI targets of a grammar document) against encoding/xml's
// RawToken on the rendered document.  The Coq theorem xml_agrees_with_reference says the lexer reports
// exactly ref_events; this run validates ref_events against an independent XML reader. ----------------------

// c11StdNorm maps the attribute value encoding/xml reports (line ends already LF) to XML 1.0's normalised
// form: encoding/xml does not replace TAB/LF by space itself.
func c11StdNorm(s string) string { return normWS(s) }

func c11XmlrefImpl(c Case) []int64 {
	items, ok := decItems(c.Args)
	if !ok {
		return []int64{-9}
	}
	d := buildDoc(items)
	src := d.src
	if d.feats["doctype-pi-special"] { // see xmlWellFormed
		src = d.srcNoDT
	}
	dec := stdxml.NewDecoder(bytes.NewReader(src))
	var evs [][]int64
	for {
		t, err := dec.RawToken()
		if err == io.EOF {
			break
		}
		if err != nil {
			return []int64{-7}
		}
		switch e := t.(type) {
		case stdxml.StartElement:
			ev := encBytesStr([]int64{0}, rawName(e.Name))
			ev = append(ev, int64(len(e.Attr)))
			for _, a := range e.Attr {
				ev = encBytesStr(ev, rawName(a.Name))
				ev = encBytesStr(ev, c11StdNorm(a.Value))
			}
			evs = append(evs, ev)
		case stdxml.EndElement:
			evs = append(evs, encBytesStr([]int64{1}, rawName(e.Name)))
		case stdxml.ProcInst:
			evs = append(evs, encBytesStr([]int64{2}, e.Target))
		}
	}
	out := []int64{-4, int64(len(evs))}
	for _, ev := range evs {
		out = append(out, ev...)
	}
	return out
}

func c11XmlrefGen(r *Rng, tier string, emit func(Case)) {
	n := 4000
	if tier == "thorough" {
		n = 100000
	}
	for i := 0; i < n; i++ {
		items := genXMLItems(r)
		if len(buildDoc(items).src) > 3000 {
			continue
		}
		c := xmlspecCase(items, "ref")
		c.Fn = "xmlref"
		emit(c)
	}
}

func c11XmlrefShrink(c Case) []Case {
	out := xmlspecShrink(c)
	for i := range out {
		out[i].Fn = "xmlref"
	}
	return out
}

var c11XmlrefModel = &Model{Name: "xmlref", Gen: c11XmlrefGen, Impl: c11XmlrefImpl, Shrink: c11XmlrefShrink, Class: xmlspecClass}

// c11GenTagItem: a general tag opener (free-form PI or tag content: bare names, unquoted values, '/' and '?'
// inside names, empty names before '=', pieces glued to a closing quote; in a PI also '>' and "/>" inside
// names and only "?>" as closer).  Built so that the side conditions of the Coq grammar hold by construction.
// xmlSafe: content that is also what XML 1.0 takes as the same PI (no "?>" inside quoted values).
func c11GenTagItem(r *Rng, pi bool, xmlSafe bool) xitem {
	nameChars := []string{"a", "b", "x", "é", "-", ":", "$", ";", "(", ")", "&", "<", "\"", "'", "/", "?", "[", "]"}
	firsts := []string{"a", "b", "x", "echo", "$v", "é", "/", "?", "'", "\""}
	if pi {
		nameChars = append(nameChars, ">", "/>", ">")
		firsts = append(firsts, ">", "/>")
	}
	fixEnd := func(s string) string {
		if c := s[len(s)-1]; c == '?' || (!pi && c == '/') {
			s += "z" // '?' (and '/' in a start tag) never last: the byte after may be '>'
		}
		return s
	}
	genName := func(allowEmpty bool) string {
		if allowEmpty && r.Chance(1, 6) {
			return ""
		}
		s := r.PickStr(firsts)
		for k := r.Intn(3); k > 0; k-- {
			s += r.PickStr(nameChars)
		}
		if pi {
			s = strings.ReplaceAll(s, "?>", "?_>")
		}
		return fixEnd(s)
	}
	ws1 := func() string { return r.PickStr([]string{" ", " ", "\t", "\n", "\r\n", "  "}) }
	ws0 := func() string {
		if r.Chance(2, 3) {
			return ""
		}
		return ws1()
	}
	it := xitem{kind: itTag, pi: pi, s: genXMLName(r), closer: 6 + r.Intn(3)}
	if pi {
		it.closer = 8
		if strings.EqualFold(it.s, "xml") {
			it.s = "xmlx"
		}
	}
	n := r.Intn(4)
	prevQuoted := false
	for i := 0; i < n; i++ {
		g := c11Gattr{lead: ws1(), vk: r.Intn(3)}
		if prevQuoted && r.Chance(1, 3) {
			g.lead = ""
		}
		g.name = genName(g.vk != 0)
		if g.name != "" && g.vk != 0 {
			g.w1 = ws0()
		}
		if g.vk != 0 {
			g.w2 = ws0()
		}
		switch g.vk {
		case 1:
			g.val = r.PickStr([]string{"v", "1", "x=y", "a/b", "é", "$", "c'd", "e\"f", "?z", "/z", ">", "a>b"})
			if !pi {
				g.val = strings.ReplaceAll(g.val, ">", "g")
			}
			g.val = fixEnd(g.val)
		case 2:
			g.q = '"'
			if r.Bool() {
				g.q = '\''
			}
			g.val = strings.ReplaceAll(r.PickStr(c11ValChunks)+r.PickStr(c11ValChunks), string(g.q), "")
			g.val = strings.ReplaceAll(g.val, "\r\n", "\r")
			if pi {
				g.val = strings.ReplaceAll(g.val, "?>", "? >") // the instruction would end there
			}
		}
		// a bare name must not be followed by '=' (it would be its value): the next piece then has a name
		if i > 0 && it.gpieces[i-1].vk == 0 && g.name == "" {
			g.name = "n"
			if g.vk != 0 {
				g.w1 = ws0()
			}
		}
		prevQuoted = g.vk == 2
		it.gpieces = append(it.gpieces, g)
	}
	it.ws = ws0()
	if pi && r.Chance(1, 4) { // the last piece is a quoted value cut by the instruction's ?>
		g := c11Gattr{lead: ws1(), name: genName(true), vk: 3, q: '"', w2: ws0()}
		if len(it.gpieces) > 0 && it.gpieces[len(it.gpieces)-1].vk == 0 && g.name == "" {
			g.name = "n"
		}
		if g.name != "" {
			g.w1 = ws0()
		}
		if r.Bool() {
			g.q = '\''
		}
		g.val = strings.ReplaceAll(r.PickStr(c11ValChunks)+r.PickStr([]string{"", "b", "?", " ", "x>"}), string(g.q), "")
		g.val = strings.ReplaceAll(strings.ReplaceAll(g.val, "\r\n", "\r"), "?>", "? >")
		it.gpieces = append(it.gpieces, g)
		it.ws = ""
	}
	return it
}

// c11GenTagItems: a general opener followed by character data and an element.
func c11GenTagItems(r *Rng) []xitem {
	it := c11GenTagItem(r, r.Chance(2, 3), false)
	items := []xitem{it}
	if r.Bool() {
		items = append(items, xitem{kind: itText, s: r.PickStr([]string{"b?>", "t", " x ?> ", "?>"})})
	}
	items = append(items, xitem{kind: itStart, s: "a", void: true})
	return items
}
