package main

import (
	"bytes"
	"fmt"
	"io"
	"unicode/utf8"

	"github.com/tdewolff/parse/v2/buffer"
)

// ---- C13: buffer.StreamLexer ---------------------------------------------------------------

type sevent struct {
	b   []byte
	err int64 // 0 nil, 1 io.EOF, 2 failure
}

// eventReader replays a schedule of Read results (see Stream/Model.v reader_read).
type eventReader struct{ ev []sevent }

func (r *eventReader) Read(p []byte) (int, error) {
	if len(r.ev) == 0 {
		return 0, io.EOF
	}
	e := &r.ev[0]
	if len(e.b) <= len(p) {
		n := copy(p, e.b)
		err := e.err
		r.ev = r.ev[1:]
		switch err {
		case 1:
			return n, io.EOF
		case 2:
			return n, errReader
		}
		return n, nil
	}
	n := copy(p, e.b[:len(p)])
	e.b = e.b[n:]
	return n, nil
}

const (
	sopPeek = iota
	sopPeekRune
	sopMove
	sopRewind
	sopSkip
	sopShift
	sopLexeme
	sopPos
	sopErr
	sopFree
	sopShiftLen
)

var sopNames = []string{"Peek", "PeekRune", "Move", "Rewind", "Skip", "Shift", "Lexeme", "Pos", "Err", "Free", "ShiftLen"}

type streamCase struct {
	ctor, size int64
	events     []sevent
	ops        []int64
}

func decodeStreamCase(a []int64) streamCase {
	sc := streamCase{ctor: a[0], size: a[1]}
	nev := int(a[2])
	rest := a[3:]
	for i := 0; i < nev && len(rest) > 0; i++ {
		e := rest[0]
		var bs []int64
		bs, rest = takeList(rest[1:])
		sc.events = append(sc.events, sevent{toBytes(bs), e})
	}
	sc.ops = rest
	return sc
}

func (sc streamCase) encode() []int64 {
	a := []int64{sc.ctor, sc.size, int64(len(sc.events))}
	for _, e := range sc.events {
		a = append(a, e.err)
		a = append(a, bytesToArgs(e.b)...)
	}
	return append(a, sc.ops...)
}

func (sc streamCase) describe() string {
	s := fmt.Sprintf("ctor=%d size=%d events=", sc.ctor, sc.size)
	for _, e := range sc.events {
		s += fmt.Sprintf("(%q,%d)", e.b, e.err)
	}
	s += " ops="
	for i := 0; i+1 < len(sc.ops); i += 2 {
		s += fmt.Sprintf("%s(%d) ", sopNames[sc.ops[i]], sc.ops[i+1])
	}
	return s
}

func newStreamLexer(sc streamCase) *buffer.StreamLexer {
	if sc.ctor == 1 {
		var d []byte
		for _, e := range sc.events {
			d = append(d, e.b...)
		}
		exact := make([]byte, len(d)) // cap == len, so the model's array is the data
		copy(exact, d)
		return buffer.NewStreamLexerSize(bytes.NewBuffer(exact), int(sc.size))
	}
	evs := make([]sevent, len(sc.events))
	for i, e := range sc.events {
		evs[i] = sevent{append([]byte{}, e.b...), e.err}
	}
	return buffer.NewStreamLexerSize(&eventReader{evs}, int(sc.size))
}

type outSlice struct {
	b    []byte
	snap []byte
}

func streamImpl(c Case) []int64 {
	sc := decodeStreamCase(c.Args)
	z := newStreamLexer(sc)
	var out []int64
	var outs []outSlice
	for i := 0; i+1 < len(sc.ops); i += 2 {
		code, arg := sc.ops[i], int(sc.ops[i+1])
		var obs []int64
		p := catch(func() {
			switch code {
			case sopPeek:
				obs = []int64{int64(z.Peek(arg))}
			case sopPeekRune:
				r, n := z.PeekRune(arg)
				obs = []int64{int64(r), int64(n)}
			case sopMove:
				z.Move(arg)
			case sopRewind:
				z.Rewind(arg)
			case sopSkip:
				z.Skip()
			case sopShift, sopLexeme:
				var b []byte
				if code == sopShift {
					b = z.Shift()
				} else {
					b = z.Lexeme()
				}
				obs = []int64{int64(len(b))}
				for _, x := range b {
					obs = append(obs, int64(x))
				}
				outs = append(outs, outSlice{b, append([]byte{}, b...)})
			case sopPos:
				obs = []int64{int64(z.Pos())}
			case sopErr:
				obs = []int64{errCode(z.Err())}
			case sopFree:
				z.Free(arg)
			default:
				obs = []int64{int64(z.ShiftLen())}
			}
		})
		if p != nil {
			return append(out, -1)
		}
		out = append(out, int64(len(obs)))
		out = append(out, obs...)
		ch := 0
		for _, o := range outs {
			if !bytes.Equal(o.b, o.snap) {
				ch++
			}
		}
		out = append(out, int64(ch))
	}
	out = append(out, -2, int64(z.VerifBufCap()))
	caps, _ := z.VerifPoolCaps()
	for _, c := range caps {
		out = append(out, int64(c))
	}
	return out
}

// genStreamCase builds a history that respects the contract (never move past the end of the
// delivered data, never rewind before start, free at most what was shifted).
func genStreamCase(r *Rng, maxLen, maxOps int) streamCase {
	sc := streamCase{}
	if r.Chance(1, 10) {
		sc.ctor = 1
	}
	sc.size = int64([]int{0, 1, 2, 3, 4, 5, 8, 16, 17}[r.Intn(9)])
	n := r.Intn(maxLen + 1)
	data := make([]byte, n)
	for i := range data {
		switch r.Intn(8) {
		case 0:
			data[i] = 0
		case 1:
			data[i] = byte(0x80 + r.Intn(128))
		default:
			data[i] = byte('a' + i%26)
		}
	}
	if r.Chance(1, 4) {
		data = data[:0]
		for len(data) < n {
			data = utf8.AppendRune(data, []rune{'a', 'b', 'é', '€', 0x10348}[r.Intn(5)])
		}
	}
	// split into events
	eff := len(data)
	rest := data
	for len(rest) > 0 {
		k := 1 + r.Intn(7)
		if k > len(rest) {
			k = len(rest)
		}
		if r.Chance(1, 8) {
			sc.events = append(sc.events, sevent{nil, 0}) // zero-length read
		}
		ev := sevent{rest[:k], 0}
		rest = rest[k:]
		if len(rest) == 0 && r.Chance(1, 3) {
			ev.err = 1 // EOF together with the last bytes
		}
		if sc.ctor == 0 && r.Chance(1, 25) {
			ev.err = 2 // failure: later bytes are never delivered
			sc.events = append(sc.events, ev)
			eff = len(data) - len(rest)
			rest = nil
			break
		}
		sc.events = append(sc.events, ev)
	}
	if sc.ctor == 0 && len(sc.events) > 0 && r.Chance(1, 10) && sc.events[len(sc.events)-1].err == 0 {
		sc.events = append(sc.events, sevent{nil, 2})
	}
	start, pos := 0, 0
	shifted, freed := 0, 0
	peeked := 0 // bytes [0,peeked) have been seen by Peek: the contract only allows moving over those
	if sc.ctor == 1 {
		peeked = eff
	}
	discipline := r.Intn(3) // 0 never, 1 immediately, 2 delayed
	nops := 1 + r.Intn(maxOps)
	for k := 0; k < nops; k++ {
		code := int64([]int{sopPeek, sopPeek, sopPeek, sopPeekRune, sopMove, sopMove, sopMove, sopRewind, sopSkip, sopShift, sopShift, sopLexeme, sopPos, sopErr, sopFree, sopShiftLen}[r.Intn(16)])
		arg := int64(0)
		switch code {
		case sopPeek, sopPeekRune:
			arg = int64(r.Intn(eff - pos + 2))
			if r.Chance(1, 6) {
				arg = int64(r.Intn(12))
			}
			if code == sopPeek {
				if q := pos + int(arg) + 1; q > peeked {
					peeked = min(q, eff)
				}
			} else if q := pos + int(arg) + 1; q > peeked {
				peeked = min(q, eff) // PeekRune reads at least the first byte
			}
		case sopMove:
			arg = int64(r.Intn(min(peeked-pos, 9) + 1))
			if r.Chance(1, 8) {
				arg = -int64(r.Intn(pos - start + 1))
			}
			pos += int(arg)
		case sopRewind:
			arg = int64(r.Intn(min(peeked-start, 12) + 1))
			pos = start + int(arg)
		case sopSkip, sopShift:
			start = pos
			shifted = pos
		case sopFree:
			if discipline == 0 {
				code = sopPos
			} else {
				arg = int64(r.Intn(shifted - freed + 1))
				if discipline == 1 {
					arg = int64(shifted - freed)
				}
				freed += int(arg)
			}
		}
		sc.ops = append(sc.ops, code, arg)
		if discipline == 1 && (code == sopShift || code == sopSkip) {
			sc.ops = append(sc.ops, sopFree, int64(shifted-freed))
			freed = shifted
		}
	}
	return sc
}

// genStreamTokens drives the lexer the way a tokenizer does (Peek every byte, Move, Shift) over a longer stream,
// with a free discipline that changes in phases: free at once for a while, hold tokens unfreed across refills,
// release everything outstanding, ... Needed to expose accounting errors of the pool that only show after a
// particular order of frees and refills.
func genStreamTokens(r *Rng, maxLen int) streamCase {
	sc := streamCase{}
	sc.size = int64([]int{0, 1, 3, 4, 8, 16, 32, 64}[r.Intn(8)])
	n := 20 + r.Intn(maxLen)
	data := make([]byte, n)
	for i := range data {
		data[i] = byte('!' + (i*7+i/13)%90)
	}
	chunk := []int{1, 2, 3, 4, 7, 16, 400}[r.Intn(7)]
	for rest := data; len(rest) > 0; {
		k := chunk
		if r.Chance(1, 4) {
			k = 1 + r.Intn(9)
		}
		if k > len(rest) {
			k = len(rest)
		}
		ev := sevent{rest[:k], 0}
		rest = rest[k:]
		if len(rest) == 0 && r.Bool() {
			ev.err = 1
		}
		sc.events = append(sc.events, ev)
	}
	pos, shifted, freed := 0, 0, 0
	phase := r.Intn(3) // 0 free at once, 1 hold, 2 delayed partial
	left := 1 + r.Intn(8)
	for pos < n {
		tl := 1 + r.Intn(9)
		if r.Chance(1, 10) {
			tl = 10 + r.Intn(30)
		}
		for j := 0; j < tl && pos < n; j++ {
			sc.ops = append(sc.ops, sopPeek, 0, sopMove, 1)
			pos++
		}
		if r.Chance(1, 6) {
			sc.ops = append(sc.ops, sopLexeme, 0)
		}
		if r.Chance(1, 8) {
			sc.ops = append(sc.ops, sopSkip, 0)
		} else {
			sc.ops = append(sc.ops, sopShift, 0)
		}
		shifted = pos
		if r.Chance(2, 3) {
			sc.ops = append(sc.ops, sopShiftLen, 0)
		}
		switch phase {
		case 0:
			sc.ops = append(sc.ops, sopFree, int64(shifted-freed))
			freed = shifted
		case 2:
			if k := r.Intn(shifted - freed + 1); k > 0 {
				sc.ops = append(sc.ops, sopFree, int64(k))
				freed += k
			}
		}
		left--
		if left == 0 {
			phase = r.Intn(3)
			left = 1 + r.Intn(10)
			if r.Chance(1, 3) {
				sc.ops = append(sc.ops, sopFree, int64(shifted-freed)) // release everything outstanding
				freed = shifted
			}
		}
	}
	sc.ops = append(sc.ops, sopPeek, 0, sopErr, 0)
	return sc
}

func shrinkStream(c Case) []Case {
	sc := decodeStreamCase(c.Args)
	var out []Case
	for i := 0; i+1 < len(sc.ops); i += 2 {
		n := sc
		n.ops = append(append([]int64{}, sc.ops[:i]...), sc.ops[i+2:]...)
		out = append(out, Case{Fn: "stream", Args: n.encode(), Note: n.describe()})
	}
	for i := range sc.events {
		n := sc
		n.events = append(append([]sevent{}, sc.events[:i]...), sc.events[i+1:]...)
		out = append(out, Case{Fn: "stream", Args: n.encode(), Note: n.describe()})
	}
	return out
}

var streamModel = &Model{
	Name: "stream",
	Gen: func(r *Rng, tier string, emit func(Case)) {
		n := 12000
		if tier == "thorough" {
			n = 300000
		}
		for i := 0; i < n; i++ {
			sc := genStreamCase(r, 1+i%48, 1+i%40)
			emit(Case{Fn: "stream", Args: sc.encode(), Note: sc.describe()})
		}
		for i := 0; i < n/8; i++ {
			sc := genStreamTokens(r, 40+i%360)
			emit(Case{Fn: "stream", Args: sc.encode(), Note: sc.describe()})
		}
	},
	Impl:   streamImpl,
	Shrink: shrinkStream,
	Class: func(c Case, out []int64) string {
		s := fmt.Sprintf("ctor%d/size%d", c.Args[0], c.Args[1])
		if len(out) > 0 && out[len(out)-1] == -1 {
			s += "/panic"
		}
		return s
	},
}

// ---- oracle: the property text, directly on the implementation ---------------------------------

func c13Oracle(r *Rng, tier string, rep *Report) {
	n := 20000
	if tier == "thorough" {
		n = 600000
	}
	for it := 0; it < n; it++ {
		sc := genStreamCase(r, 1+it%64, 1+it%48)
		if it%4 == 3 {
			sc = genStreamTokens(r, 40+it%360)
		}
		key := fmtInts(sc.encode())
		// the completely read input (up to a reader failure)
		var data []byte
		failed := false
		for _, e := range sc.events {
			data = append(data, e.b...)
			if e.err == 2 {
				failed = true
				break
			}
			if e.err == 1 {
				break
			}
		}
		z := newStreamLexer(sc)
		start, pos := 0, 0 // absolute
		shiftedAbs, freedTotal := 0, 0
		lastShiftLenAt := 0
		type osl struct {
			b, snap []byte
			end     int
			kind    string
		}
		var outs []osl
		fail := func(k, msg string) {
			rep.Violate(k, msg+" in "+sc.describe(), map[string]interface{}{"case": "stream " + key, "desc": sc.describe()})
		}
		peekRef := func(p int) byte {
			if p >= 0 && p < len(data) {
				return data[p]
			}
			return 0
		}
		bad := false
		for i := 0; !bad && i+1 < len(sc.ops); i += 2 {
			code, arg := sc.ops[i], int(sc.ops[i+1])
			p := catch(func() {
				switch code {
				case sopPeek:
					if got := z.Peek(arg); got != peekRef(pos+arg) {
						fail("c13-refine:"+key, fmt.Sprintf("op %d Peek(%d)=%d, cursor over the whole input gives %d", i/2, arg, got, peekRef(pos+arg)))
						bad = true
					}
				case sopPeekRune:
					if pos+arg < len(data) && utf8.FullRune(data[pos+arg:]) {
						rn, sz := utf8.DecodeRune(data[pos+arg:])
						if rn != utf8.RuneError || sz != 1 {
							gr, gn := z.PeekRune(arg)
							if gr != rn || gn != sz {
								fail("c13-refine:"+key, fmt.Sprintf("op %d PeekRune(%d)=(%d,%d) want (%d,%d)", i/2, arg, gr, gn, rn, sz))
								bad = true
							}
							return
						}
					}
					z.PeekRune(arg)
				case sopMove:
					z.Move(arg)
					pos += arg
				case sopRewind:
					z.Rewind(arg)
					pos = start + arg
				case sopSkip:
					z.Skip()
					start = pos
					shiftedAbs = pos
				case sopShift, sopLexeme:
					var b []byte
					kind := "shift"
					if code == sopShift {
						b = z.Shift()
					} else {
						b = z.Lexeme()
						kind = "lexeme"
					}
					if !bytes.Equal(b, data[start:pos]) {
						fail("c13-refine:"+key, fmt.Sprintf("op %d %s=%q want %q", i/2, sopNames[code], b, data[start:pos]))
						bad = true
					}
					outs = append(outs, osl{b, append([]byte{}, b...), pos, kind})
					if code == sopShift {
						start = pos
						shiftedAbs = pos
					}
				case sopPos:
					if got := z.Pos(); got != pos-start {
						fail("c13-refine:"+key, fmt.Sprintf("op %d Pos=%d want %d", i/2, got, pos-start))
						bad = true
					}
				case sopErr:
					got := z.Err()
					if pos < len(data) && got != nil && !(failed && got == errReader) {
						fail("c13-err:"+key, fmt.Sprintf("op %d Err()=%v although unread data remain (pos %d < %d) and the reader has not failed", i/2, got, pos, len(data)))
						bad = true
					}
					if got == errReader && !failed {
						fail("c13-err:"+key, "reader error reported although the reader never failed")
						bad = true
					}
					if got == io.EOF && pos < len(data) {
						fail("c13-err:"+key, "io.EOF before the position reached the end")
						bad = true
					}
					_ = failed
				case sopFree:
					z.Free(arg)
					freedTotal += arg
				default:
					got := z.ShiftLen()
					if got != shiftedAbs-lastShiftLenAt {
						fail("c13-shiftlen:"+key, fmt.Sprintf("op %d ShiftLen()=%d, shifted/skipped since previous call: %d", i/2, got, shiftedAbs-lastShiftLenAt))
						bad = true
					}
					lastShiftLenAt = shiftedAbs
				}
			})
			if p != nil {
				fail("c13-panic:"+key, fmt.Sprintf("op %d %s(%d) panicked: %v", i/2, sopNames[code], arg, p))
				break
			}
			// slices stay unchanged until at least as many bytes were freed as had been shifted up to their end
			for _, o := range outs {
				if freedTotal < o.end && len(o.b) > 0 && !bytes.Equal(o.b, o.snap) {
					if o.kind == "lexeme" {
						fail("c13-stable:lexeme", fmt.Sprintf("a Lexeme() slice ending at offset %d changed from %q to %q after op %d with only %d bytes freed", o.end, o.snap, o.b, i/2, freedTotal))
					} else {
						fail("c13-stable:shift:"+key, fmt.Sprintf("a Shift() slice ending at offset %d changed from %q to %q after op %d with only %d bytes freed", o.end, o.snap, o.b, i/2, freedTotal))
					}
					bad = true
					break
				}
			}
		}
		rep.Eval(key, len(sc.ops) >= 8 && len(data) >= 4, fmt.Sprintf("size%d", sc.size))
	}
	// bounded memory when every shifted token is freed at once: capacities do not grow with the stream
	m := 40
	if tier == "thorough" {
		m = 400
	}
	for it := 0; it < m; it++ {
		size := []int{0, 1, 4, 16, 64, 4096}[r.Intn(6)]
		maxTok := 1 + r.Intn(40)
		total := func(streamLen int) (int, int) {
			data := bytes.Repeat([]byte("abcdefghij"), streamLen/10+1)[:streamLen]
			var evs []sevent
			rr := NewRng(uint64(it*7 + 1))
			for rest := data; len(rest) > 0; {
				k := 1 + rr.Intn(9)
				if k > len(rest) {
					k = len(rest)
				}
				evs = append(evs, sevent{rest[:k], 0})
				rest = rest[k:]
			}
			z := buffer.NewStreamLexerSize(&eventReader{evs}, size)
			maxCap := 0
			longest := 0
			for z.Err() == nil {
				tl := 1 + rr.Intn(maxTok)
				for j := 0; j < tl && z.Peek(0) != 0; j++ {
					z.Move(1)
				}
				b := z.Shift()
				if len(b) > longest {
					longest = len(b)
				}
				z.Free(z.ShiftLen())
				caps, _ := z.VerifPoolCaps()
				sum := z.VerifBufCap()
				for _, c := range caps {
					sum += c
				}
				if sum > maxCap {
					maxCap = sum
				}
				if len(b) == 0 {
					break
				}
			}
			return maxCap, longest
		}
		c1, l1 := total(2000)
		c2, l2 := total(40000)
		bound := func(l int) int { return 4 * (size + 6*l + 8) }
		if c1 > bound(l1) || c2 > bound(l2) {
			rep.Violate(fmt.Sprintf("c13-memory:%d:%d", size, maxTok), fmt.Sprintf("size=%d longest token %d/%d: pool capacity %d (2000 bytes) / %d (40000 bytes) exceeds 4*(size+6*longest+8)", size, l1, l2, c1, c2), map[string]interface{}{"size": size, "maxTok": maxTok, "it": it})
		}
		rep.Eval(fmt.Sprintf("mem:%d:%d:%d", size, maxTok, it), true, "memory")
	}
}

func init() {
	props["C13"] = &PropSpec{
		Models:  []*Model{streamModel},
		Oracles: []*Oracle{{Name: "c13-stream-oracle", Run: c13Oracle}},
	}
}
